(* RedoProofs.v - theorems about the model Redo.v.  Sections (identifier prefixes): A, B, D, E, D2, F, G, C *)
From YV.Crdt Require Import Redo.

(* ============================================================================================== *)
(* SECTION A *)
From Coq Require Import List NArith Bool Lia. Import ListNotations.  Open Scope N_scope.
From Coq Require Import Sorted Permutation.

(* RedoProofsA.v - status: everything below is proved (Qed, closed under the global context)
   MAIN THEOREMS
     rdo_redo_res_ok     forall t i redo_items to_delete s1 s2, rdo_a_wf (rdo_st t) (rdo_next t) -> (exists x, rdo_get (rdo_st t) i = Some x) ->
                         exists t' o, rdo_redo (S (length (rdo_st t))) t i redo_items to_delete s1 s2 = RdoOk (t', o) /\ rdo_a_wf (rdo_st t') (rdo_next t')
                         (from rdo_a_redo_full, which also gives rdo_a_ext (rdo_st t) (rdo_st t'): every item stays, with the same
                          par / sub / cnt, del and "has a redone pointer" only grow)
     rdo_red_acyclic     rdo_a_wf st n -> rdo_get st i = Some x -> exists y, rdo_follow (S (length st)) st i = RdoOk (Some y) /\ rdo_red y = None
     rdo_a_wf_reachable  forall scope p s, rdo_run (rdo_state0 scope) p = RdoOk s -> rdo_a_wf (rdo_doc s) (rdo_clock s)
     rdo_run_res_ok      forall scope p, exists s, rdo_run (rdo_state0 scope) p = RdoOk s
     rdo_a_wf_nonvacuous rdo_a_wf holds (via the sound boolean checker rdo_a_wfb) on the 7-item store of a program with a nested
                         container that is deleted and re-created (redone chains 2 -> 4 -> 6, 0 -> 3, 1 -> 5)
   BUILDING BLOCKS
     rdo_a_delete_ok / rdo_a_txn_delete_ok / rdo_txn_delete_res_ok   rdo_delete never fails with fuel >= #ids >= i; only del flags change (rdo_a_deq)
     rdo_a_wf_deq        wf only depends on id / par / sub / cnt / red and anti-monotonically on del (covers rdo_keep_walk too)
     rdo_a_integrate_ok  rdo_integrate never fails when left / right lie in the chain of the new item; result = rdo_link st left' x up to del flags
     rdo_a_wf_link / rdo_a_wf_link0   wf of the store after the copy / a new item has been linked
     rdo_a_chase_ok/_spec, rdo_a_mfollow_ok/_spec, rdo_a_trace_ok/_spec/_spec2, rdo_a_lloop/rloop_spec(2), rdo_a_mwalk_ok/_spec
     rdo_a_op_apply_ok, rdo_a_after_txn_wf, rdo_a_process_ok, rdo_a_pop_ok, rdo_a_act_ok, rdo_a_run_ok
     rdo_redo_res_ok_partial, rdo_redo_res_ok_partial2 (earlier special cases, kept)
   What bounds each loop: recursion of rdo_redo into parents: parent ids strictly decrease (rdo_a_w3), measure rdo_a_le (number of ids <= i);
     rdo_chase / rdo_mfollow / rdo_trace / rdo_follow: ids strictly increase along rdo_red (rdo_a_w4), measure rdo_a_ge (number of ids >= i);
     rdo_mwalk: ids strictly increase along a key chain (rdo_a_w5) and along rdo_red; rdo_delete: child id > parent id.
   NOTE: `rdo_red x = Some r -> rdo_del x = true` holds on the tested reachable states but is NOT part of rdo_a_wf: rdo_redo_res_ok
     quantifies over every i of the store (also live ones), and nothing needs it.
   Why RdoEForeign cannot happen: in the map case with rdo_par item = pbranch the parent is a root or live, and rdo_red keeps par and sub
     below a root / live parent (w4), so rdo_mwalk stays in the chain; otherwise left = branch.map[k]; in the sequence case rdo_trace stops
     at an item whose parent item is pb, and rdo_red keeps sub; rdo_cnt is kept by rdo_red (w4), so the final copy of a Type parent is a Type. *)

(* ------------------------------------------------------------------------------------------ *)
(* well-formedness of a store (tested as the boolean rdo_a_t_wfb in RedoProofsATest.v on 1586 reachable states) *)
Record rdo_a_wf (st : list rdo_item) (next : N) : Prop := {
  rdo_a_w1 : NoDup (map rdo_id st);
  rdo_a_w2 : forall x, In x st -> rdo_id x < next;
  rdo_a_w3 : forall x p, In x st -> rdo_par x = RdoItem p ->
             p < rdo_id x /\ exists y k, rdo_get st p = Some y /\ rdo_cnt y = RdoType k;
  rdo_a_w4 : forall x r, In x st -> rdo_red x = Some r ->
             rdo_id x < r /\ exists y, rdo_get st r = Some y /\ rdo_sub y = rdo_sub x /\ rdo_cnt y = rdo_cnt x /\
               (rdo_parent_deleted st (rdo_par x) = false -> rdo_par y = rdo_par x);
  rdo_a_w5 : forall par k, StronglySorted N.lt (map rdo_id (rdo_chain st par (Some k))) }.

Lemma rdo_a_get_in : forall st i x, rdo_get st i = Some x -> In x st /\ rdo_id x = i.
Proof. induction st; simpl; intros; try discriminate. destruct (rdo_id a =? i) eqn:E.
  inversion H; subst. apply N.eqb_eq in E. auto. apply IHst in H. tauto. Qed.
Lemma rdo_a_in_get : forall st x, NoDup (map rdo_id st) -> In x st -> rdo_get st (rdo_id x) = Some x.
Proof. induction st; simpl; intros. tauto. inversion H; subst. destruct H0. subst. rewrite N.eqb_refl. auto.
  destruct (rdo_id a =? rdo_id x) eqn:E. apply N.eqb_eq in E. exfalso. apply H3. rewrite E. apply in_map. auto. auto. Qed.
Lemma rdo_a_get_ids : forall st i, In i (map rdo_id st) -> exists x, rdo_get st i = Some x.
Proof. induction st; simpl; intros. tauto. destruct (rdo_id a =? i) eqn:E. eauto. destruct H. apply N.eqb_neq in E. tauto. auto. Qed.
Lemma rdo_a_get_ids' : forall st i x, rdo_get st i = Some x -> In i (map rdo_id st).
Proof. intros. apply rdo_a_get_in in H. destruct H. subst. apply in_map. auto. Qed.

(* the measure that bounds every walk along strictly increasing ids: the number of ids >= i *)
Definition rdo_a_ge (ids : list N) (i : N) : nat := length (filter (fun y => i <=? y) ids).
Lemma rdo_a_ge_le : forall ids i, (rdo_a_ge ids i <= length ids)%nat.
Proof. unfold rdo_a_ge; induction ids; simpl; intros. lia. destruct (i <=? a); simpl; specialize (IHids i); lia. Qed.
Lemma rdo_a_ge_mono : forall ids i j, i <= j -> (rdo_a_ge ids j <= rdo_a_ge ids i)%nat.
Proof. unfold rdo_a_ge; induction ids; simpl; intros. lia. specialize (IHids i j H).
  destruct (j <=? a) eqn:E1; destruct (i <=? a) eqn:E2; simpl; try lia. apply N.leb_le in E1. apply N.leb_gt in E2. lia. Qed.
Lemma rdo_a_ge_lt : forall ids i j, In i ids -> i < j -> (rdo_a_ge ids j < rdo_a_ge ids i)%nat.
Proof. induction ids; simpl; intros. tauto. unfold rdo_a_ge in *; simpl. destruct H.
  - subst. assert (j <=? i = false) by (apply N.leb_gt; lia). rewrite H. rewrite N.leb_refl. simpl.
    assert (i <= j) by lia. pose proof (rdo_a_ge_mono ids i j H1). unfold rdo_a_ge in H2. lia.
  - specialize (IHids i j H H0). destruct (j <=? a) eqn:E1; destruct (i <=? a) eqn:E2; simpl; try lia.
    apply N.leb_le in E1; apply N.leb_gt in E2; lia. Qed.
Lemma rdo_a_ge_pos : forall ids i, In i ids -> (1 <= rdo_a_ge ids i)%nat.
Proof. unfold rdo_a_ge; induction ids; simpl; intros. tauto. destruct H. subst. rewrite N.leb_refl. simpl. lia.
  specialize (IHids i H). destruct (i <=? a); simpl; lia. Qed.

(* ------------------------------------------------------------------------------------------ *)
(* theorem 3: following rdo_red reaches a final copy within the fuel (ids strictly increase along rdo_red) *)
Lemma rdo_a_follow_ok : forall fuel st n i x, rdo_a_wf st n -> rdo_get st i = Some x ->
  (rdo_a_ge (map rdo_id st) i <= fuel)%nat -> exists y, rdo_follow fuel st i = RdoOk (Some y) /\ rdo_red y = None.
Proof. induction fuel; intros.
  - pose proof (rdo_a_ge_pos _ _ (rdo_a_get_ids' _ _ _ H0)). lia.
  - simpl. rewrite H0. destruct (rdo_red x) eqn:R; eauto. destruct (rdo_a_get_in _ _ _ H0).
    destruct (rdo_a_w4 _ _ H _ _ H2 R) as (L & y & G & _). apply IHfuel with (n:=n) (x:=y); auto.
    pose proof (rdo_a_ge_lt (map rdo_id st) i n0 (rdo_a_get_ids' _ _ _ H0)). lia. Qed.

Theorem rdo_red_acyclic : forall st n, rdo_a_wf st n -> forall i x, rdo_get st i = Some x ->
  exists y, rdo_follow (S (length st)) st i = RdoOk (Some y) /\ rdo_red y = None.
Proof. intros. eapply rdo_a_follow_ok; eauto. pose proof (rdo_a_ge_le (map rdo_id st) i). rewrite map_length in H1. lia. Qed.
Print Assumptions rdo_red_acyclic.

(* ------------------------------------------------------------------------------------------ *)
(* stores that differ only in the flags del (monotone) / keep, org, rorg *)
Definition rdo_a_R (x y : rdo_item) : Prop :=
  rdo_id y = rdo_id x /\ rdo_par y = rdo_par x /\ rdo_sub y = rdo_sub x /\ rdo_cnt y = rdo_cnt x /\ rdo_red y = rdo_red x /\
  (rdo_del x = true -> rdo_del y = true).
Definition rdo_a_deq := Forall2 rdo_a_R.
Lemma rdo_a_R_refl : forall x, rdo_a_R x x. Proof. unfold rdo_a_R; tauto. Qed.
Lemma rdo_a_deq_refl : forall st, rdo_a_deq st st. Proof. induction st; constructor; auto using rdo_a_R_refl. Qed.
Lemma rdo_a_deq_trans : forall a b c, rdo_a_deq a b -> rdo_a_deq b c -> rdo_a_deq a c.
Proof. intros a b c H; revert c; induction H; intros c Hc; inversion Hc; subst; constructor; try (apply IHForall2; assumption).
  match goal with A : rdo_a_R x y, B : rdo_a_R y ?z |- _ => destruct A as (?&?&?&?&?&?); destruct B as (?&?&?&?&?&?) end.
  unfold rdo_a_R; repeat split; try congruence; auto. Qed.
Lemma rdo_a_deq_ids : forall a b, rdo_a_deq a b -> map rdo_id b = map rdo_id a.
Proof. induction 1; simpl; auto. destruct H. congruence. Qed.
Lemma rdo_a_deq_update : forall st i f, (forall x, rdo_a_R x (f x)) -> rdo_a_deq st (rdo_update st i f).
Proof. induction st; simpl; intros. constructor. destruct (rdo_id a =? i); constructor; auto using rdo_a_R_refl; [apply rdo_a_deq_refl | apply IHst; auto]. Qed.
Lemma rdo_a_deq_get : forall a b, rdo_a_deq a b -> forall i x, rdo_get a i = Some x -> exists y, rdo_get b i = Some y /\ rdo_a_R x y.
Proof. induction 1; simpl; intros. discriminate. assert (rdo_id y = rdo_id x) by apply H. rewrite H2.
  destruct (rdo_id x =? i). inversion H1; subst; eauto. eauto. Qed.
Lemma rdo_a_deq_get_r : forall a b, rdo_a_deq a b -> forall i y, rdo_get b i = Some y -> exists x, rdo_get a i = Some x /\ rdo_a_R x y.
Proof. induction 1; simpl; intros. discriminate. assert (rdo_id y = rdo_id x) by apply H. rewrite H2 in H1.
  destruct (rdo_id x =? i). inversion H1; subst; eauto. eauto. Qed.
Lemma rdo_a_deq_in_r : forall a b, rdo_a_deq a b -> forall y, In y b -> exists x, In x a /\ rdo_a_R x y.
Proof. induction 1; simpl; intros. tauto. destruct H1. subst; eauto. destruct (IHForall2 _ H1) as (z & ? & ?); eauto. Qed.

Lemma rdo_a_par_eqb_eq : forall a b, rdo_par_eqb a b = true -> a = b.
Proof. destruct a, b; simpl; intros; try discriminate; apply N.eqb_eq in H; congruence. Qed.
Lemma rdo_a_par_eqb_refl : forall a, rdo_par_eqb a a = true.
Proof. destruct a; simpl; apply N.eqb_refl. Qed.
Lemma rdo_a_on_eqb_eq : forall a b, rdo_on_eqb a b = true -> a = b.
Proof. destruct a, b; simpl; intros; try discriminate; auto. apply N.eqb_eq in H; congruence. Qed.
Lemma rdo_a_on_eqb_refl : forall a, rdo_on_eqb a a = true.
Proof. destruct a; simpl; auto. apply N.eqb_refl. Qed.
Lemma rdo_a_chain_in : forall st par sub y, In y (rdo_chain st par sub) -> In y st /\ rdo_par y = par /\ rdo_sub y = sub.
Proof. unfold rdo_chain, rdo_in_chain; intros. apply filter_In in H. destruct H. apply andb_true_iff in H0. destruct H0.
  auto using rdo_a_par_eqb_eq, rdo_a_on_eqb_eq. Qed.
Lemma rdo_a_in_chain : forall st par sub y, In y st -> rdo_par y = par -> rdo_sub y = sub -> In y (rdo_chain st par sub).
Proof. unfold rdo_chain, rdo_in_chain; intros. apply filter_In. split; auto. subst. rewrite rdo_a_par_eqb_refl, rdo_a_on_eqb_refl. auto. Qed.
Lemma rdo_a_map_get_in : forall st par k j, rdo_map_get st par k = Some j -> exists y, In y (rdo_chain st par (Some k)) /\ rdo_id y = j.
Proof. unfold rdo_map_get; intros. destruct (rev (rdo_chain st par (Some k))) eqn:E; simpl in H; inversion H; subst.
  exists r; split; auto. apply in_rev. rewrite E. simpl; auto. Qed.

(* ------------------------------------------------------------------------------------------ *)
(* rdo_delete: the recursion descends into children; a child's id is larger than its parent's id, so the
   number of ids >= i strictly decreases: fuel S (length st) is enough *)
Definition rdo_a_parlt (st : list rdo_item) := forall y p, In y st -> rdo_par y = RdoItem p -> p < rdo_id y.
Lemma rdo_a_parlt_deq : forall a b, rdo_a_deq a b -> rdo_a_parlt a -> rdo_a_parlt b.
Proof. unfold rdo_a_parlt; intros. destruct (rdo_a_deq_in_r _ _ H _ H1) as (x & I & R). destruct R as (R1 & R2 & _).
  rewrite R1. apply H0; auto. congruence. Qed.

Lemma rdo_a_delete_eq : forall f st i, rdo_delete (S f) st i =
      match rdo_get st i with
      | None => RdoErr RdoEDangling
      | Some x =>
          if rdo_del x then RdoOk (st, [])
          else
            let st1 := rdo_update st i rdo_set_del in
            match rdo_cnt x with
            | RdoVal _ => RdoOk (st1, [i])
            | RdoType _ =>
                let me := RdoItem i in
                let seqkids := map rdo_id (filter (fun y => negb (rdo_del y)) (rdo_chain st1 me None)) in
                let mapkids := flat_map (fun k => match rdo_map_get st1 me k with Some j => [j] | None => [] end) (rdo_keys st1 me) in
                fold_left (fun acc j => rdo_let (s, d) := acc in
                                        rdo_let (s', d') := rdo_delete f s j in RdoOk (s', d ++ d'))
                          (seqkids ++ mapkids) (RdoOk (st1, [i]))
            end
      end.
Proof. reflexivity. Qed.

Lemma rdo_a_delete_fold : forall f ids i,
  (forall st j, rdo_a_parlt st -> map rdo_id st = ids -> In j ids -> i < j ->
     exists st' d, rdo_delete f st j = RdoOk (st', d) /\ rdo_a_deq st st') ->
  forall kids s d, rdo_a_parlt s -> map rdo_id s = ids -> (forall j, In j kids -> In j ids /\ i < j) ->
  exists s' d', fold_left (fun acc j => rdo_let (s, d) := acc in rdo_let (s', d') := rdo_delete f s j in RdoOk (s', d ++ d'))
                  kids (RdoOk (s, d)) = RdoOk (s', d') /\ rdo_a_deq s s'.
Proof. induction kids; simpl; intros. eauto using rdo_a_deq_refl.
  destruct (H s a) as (s1 & d1 & E & Q); auto; try (apply H2; auto). rewrite E. simpl.
  destruct (IHkids s1 (d ++ d1)) as (s2 & d2 & E2 & Q2); eauto using rdo_a_parlt_deq.
  rewrite (rdo_a_deq_ids _ _ Q); auto. exists s2, d2; split; auto. eapply rdo_a_deq_trans; eauto. Qed.

Lemma rdo_a_set_del_R : forall x, rdo_a_R x (rdo_set_del x). Proof. unfold rdo_a_R; simpl; tauto. Qed.

Lemma rdo_a_delete_ok : forall f st i, rdo_a_parlt st -> In i (map rdo_id st) -> (rdo_a_ge (map rdo_id st) i <= f)%nat ->
  exists st' d, rdo_delete f st i = RdoOk (st', d) /\ rdo_a_deq st st'.
Proof. induction f; intros.
  - pose proof (rdo_a_ge_pos _ _ H0). lia.
  - rewrite rdo_a_delete_eq. destruct (rdo_a_get_ids _ _ H0) as (x & G). rewrite G.
    destruct (rdo_del x). eauto using rdo_a_deq_refl.
    assert (Q1: rdo_a_deq st (rdo_update st i rdo_set_del)) by (apply rdo_a_deq_update; apply rdo_a_set_del_R).
    cbv zeta. destruct (rdo_cnt x). eauto.
    match goal with |- context[fold_left _ ?K (RdoOk (?S0, ?D0))] =>
      destruct (rdo_a_delete_fold f (map rdo_id st) i) with (kids:=K) (s:=S0) (d:=D0) as (s' & d' & E & Q) end.
    + intros st0 j P0 I0 J L. apply IHf; auto. rewrite I0; auto. rewrite I0.
      pose proof (rdo_a_ge_lt _ i j H0 L). lia.
    + eapply rdo_a_parlt_deq; eauto.
    + apply rdo_a_deq_ids; auto.
    + intros j Hj. assert (exists y, In y (rdo_update st i rdo_set_del) /\ rdo_id y = j /\ rdo_par y = RdoItem i) as (y & Iy & Ey & Py).
      { apply in_app_or in Hj. destruct Hj as [Hj|Hj].
        - apply in_map_iff in Hj. destruct Hj as (y & Ey & Hy). apply filter_In in Hy. destruct Hy as (Hy & _).
          apply rdo_a_chain_in in Hy. exists y; tauto.
        - apply in_flat_map in Hj. destruct Hj as (k0 & _ & Hj).
          destruct (rdo_map_get (rdo_update st i rdo_set_del) (RdoItem i) k0) eqn:M; simpl in Hj; try tauto.
          destruct Hj; try tauto. subst. apply rdo_a_map_get_in in M. destruct M as (y & Hy & Ey).
          apply rdo_a_chain_in in Hy. exists y; tauto. }
      split. rewrite <- (rdo_a_deq_ids _ _ Q1). subst. apply in_map; auto.
      subst. eapply (rdo_a_parlt_deq _ _ Q1 H); eauto.
    + rewrite E. exists s', d'. split; auto. eapply rdo_a_deq_trans; eauto. Qed.

Lemma rdo_a_txn_delete_ok : forall t i, rdo_a_parlt (rdo_st t) -> In i (map rdo_id (rdo_st t)) ->
  exists t', rdo_txn_delete t i = RdoOk t' /\ rdo_a_deq (rdo_st t) (rdo_st t') /\ rdo_next t' = rdo_next t.
Proof. intros. unfold rdo_txn_delete. destruct (rdo_a_delete_ok (S (length (rdo_st t))) (rdo_st t) i) as (st' & d & E & Q); auto.
  pose proof (rdo_a_ge_le (map rdo_id (rdo_st t)) i). rewrite map_length in H1. lia.
  rewrite E. simpl. eexists; split; [reflexivity|]. simpl; auto. Qed.

(* well-formedness only depends on id / par / sub / cnt / red and (anti-monotonically) on del *)
Lemma rdo_a_wf_parlt : forall st n, rdo_a_wf st n -> rdo_a_parlt st.
Proof. intros st n W y p I P. apply (rdo_a_w3 _ _ W _ _ I P). Qed.

Lemma rdo_a_pdel_deq : forall a b p, rdo_a_deq a b -> rdo_parent_deleted b p = false -> rdo_parent_deleted a p = false.
Proof. intros. destruct p; simpl in *; auto. destruct (rdo_get a id) eqn:G; auto.
  destruct (rdo_a_deq_get _ _ H _ _ G) as (y & Gy & R). rewrite Gy in H0. destruct (rdo_del r) eqn:D; auto.
  destruct R as (_&_&_&_&_&R). rewrite R in H0; auto. Qed.

(* ids-only relation: same id / par / sub *)
Definition rdo_a_R0 (x y : rdo_item) : Prop := rdo_id y = rdo_id x /\ rdo_par y = rdo_par x /\ rdo_sub y = rdo_sub x.
Lemma rdo_a_chain_ids_R0 : forall a b, Forall2 rdo_a_R0 a b -> forall par sub,
  map rdo_id (rdo_chain b par sub) = map rdo_id (rdo_chain a par sub).
Proof. unfold rdo_chain. induction 1; simpl; intros; auto. destruct H as (R1 & R2 & R3).
  assert (E: rdo_in_chain par sub y = rdo_in_chain par sub x) by (unfold rdo_in_chain; rewrite R2, R3; auto).
  rewrite E. destruct (rdo_in_chain par sub x); simpl; rewrite IHForall2; congruence. Qed.
Lemma rdo_a_deq_R0 : forall a b, rdo_a_deq a b -> Forall2 rdo_a_R0 a b.
Proof. induction 1; constructor; auto. destruct H as (R1 & R2 & R3 & _). repeat split; auto. Qed.
Lemma rdo_a_ss_app_r : forall (l1 l2 : list N), StronglySorted N.lt (l1 ++ l2) -> StronglySorted N.lt l2.
Proof. induction l1; simpl; intros; auto. inversion H; auto. Qed.
Lemma rdo_a_w5d : forall st n, rdo_a_wf st n -> forall l1 x l2 y l3 k, st = l1 ++ x :: l2 ++ y :: l3 -> rdo_sub x = Some k -> rdo_sub y = Some k ->
             rdo_par x = rdo_par y -> rdo_id x < rdo_id y.
Proof. intros st n W l1 x l2 y l3 k E Sx Sy P. pose proof (rdo_a_w5 _ _ W (rdo_par x) k) as S5. subst st.
  unfold rdo_chain in S5. rewrite filter_app in S5. simpl in S5.
  assert (F1: rdo_in_chain (rdo_par x) (Some k) x = true) by (unfold rdo_in_chain; rewrite Sx, rdo_a_par_eqb_refl, rdo_a_on_eqb_refl; auto).
  assert (F2: rdo_in_chain (rdo_par x) (Some k) y = true) by (unfold rdo_in_chain; rewrite Sy, <- P, rdo_a_par_eqb_refl, rdo_a_on_eqb_refl; auto).
  rewrite F1, filter_app in S5. simpl in S5. rewrite F2 in S5. rewrite map_app in S5. apply rdo_a_ss_app_r in S5.
  simpl in S5. inversion S5; subst. rewrite map_app in H2. apply Forall_app in H2. destruct H2 as (_ & H2). simpl in H2.
  inversion H2; auto. Qed.

Lemma rdo_a_wf_deq : forall a b n, rdo_a_wf a n -> rdo_a_deq a b -> rdo_a_wf b n.
Proof. intros a b n W Q. constructor.
  - rewrite (rdo_a_deq_ids _ _ Q). apply W.
  - intros y I. destruct (rdo_a_deq_in_r _ _ Q _ I) as (x & Ix & R). destruct R as (R1 & _). rewrite R1. apply (rdo_a_w2 _ _ W); auto.
  - intros y p I P. destruct (rdo_a_deq_in_r _ _ Q _ I) as (x & Ix & R). destruct R as (R1 & R2 & _).
    rewrite R2 in P. destruct (rdo_a_w3 _ _ W _ _ Ix P) as (L & z & k & G & C). split. rewrite R1; auto.
    destruct (rdo_a_deq_get _ _ Q _ _ G) as (z' & G' & Rz). exists z', k. split; auto. destruct Rz as (_&_&_&Rz&_). congruence.
  - intros y r I P. destruct (rdo_a_deq_in_r _ _ Q _ I) as (x & Ix & R). destruct R as (R1 & R2 & R3 & R4 & R5 & _).
    rewrite R5 in P. destruct (rdo_a_w4 _ _ W _ _ Ix P) as (L & z & G & S1 & C1 & P1). split. rewrite R1; auto.
    destruct (rdo_a_deq_get _ _ Q _ _ G) as (z' & G' & Rz). exists z'. destruct Rz as (_&Z2&Z3&Z4&_).
    repeat split; try congruence. intros PD. rewrite R2 in PD. apply (rdo_a_pdel_deq _ _ _ Q) in PD. rewrite Z2, R2. auto.
  - intros par k. rewrite (rdo_a_chain_ids_R0 a b); [apply W|]. apply rdo_a_deq_R0; auto. Qed.

(* ------------------------------------------------------------------------------------------ *)
(* rdo_integrate never fails when left / right lie in the chain of the new item *)
Lemma rdo_a_insert_after_in : forall st l x y, In y (rdo_insert_after st l x) <-> y = x \/ In y st.
Proof. induction st; simpl; intros. intuition. destruct (rdo_id a =? l); simpl. intuition. rewrite IHst. intuition. Qed.
Lemma rdo_a_link_in : forall st l x y, In y (rdo_link st l x) <-> y = x \/ In y st.
Proof. destruct l; simpl; intros. apply rdo_a_insert_after_in. intuition. Qed.

Lemma rdo_a_scan_res : forall st x right cands left before conf,
  rdo_scan st x right cands left before conf = left \/
  exists it, In it cands /\ rdo_scan st x right cands left before conf = Some (rdo_id it).
Proof. induction cands; simpl; intros. auto.
  assert (forall before conf, rdo_scan st x right cands left before conf = left \/
     (exists it, (a = it \/ In it cands) /\ rdo_scan st x right cands left before conf = Some (rdo_id it))) as K1.
  { intros b c. destruct (IHcands left b c) as [E | (it & I & E)]; [left | right; exists it]; auto. }
  assert (forall before conf, rdo_scan st x right cands (Some (rdo_id a)) before conf = left \/
     (exists it, (a = it \/ In it cands) /\ rdo_scan st x right cands (Some (rdo_id a)) before conf = Some (rdo_id it))) as K2.
  { intros b c. destruct (IHcands (Some (rdo_id a)) b c) as [E | (it & I & E)]; right; [exists a | exists it]; auto. }
  destruct (rdo_on_eqb right (Some (rdo_id a))); auto.
  destruct (rdo_on_eqb (rdo_org x) (rdo_org a)). destruct (rdo_on_eqb (rdo_rorg x) (rdo_rorg a)); auto; apply K1.
  destruct (rdo_org a); auto. destruct (rdo_get st n); auto.
  match goal with |- context[if ?c then _ else _] => destruct c end; auto.
  match goal with |- context[if ?c then _ else _] => destruct c end; [apply K2 | apply K1]. Qed.

Lemma rdo_a_split_after : forall st i acc b x a, rdo_split st i acc = Some (b, x, a) -> forall y, In y a -> In y st.
Proof. induction st; simpl; intros. discriminate. destruct (rdo_id a =? i). inversion H; subst; auto. right. eapply IHst; eauto. Qed.

Lemma rdo_a_neighbour_in : forall st x j, rdo_neighbour_ok st x (Some j) = true -> In j (map rdo_id st).
Proof. simpl; intros. destruct (rdo_get st j) eqn:G; try discriminate. eapply rdo_a_get_ids'; eauto. Qed.

Lemma rdo_a_resolve_in : forall st x left right l, rdo_neighbour_ok st x left = true ->
  rdo_resolve_conflict st x left right = Some l -> In l (map rdo_id st).
Proof. unfold rdo_resolve_conflict; intros.
  match type of H0 with rdo_scan _ _ _ ?C _ _ _ = _ => assert (forall y, In y C -> In y st) as HC end.
  { intros y Iy. destruct left. destruct (rdo_split (rdo_chain st (rdo_par x) (rdo_sub x)) n []) as [[[b z] a]|] eqn:S; simpl in Iy; try tauto.
    eapply rdo_a_split_after in S; eauto. apply rdo_a_chain_in in S; tauto. apply rdo_a_chain_in in Iy; tauto. }
  match type of H0 with rdo_scan ?a ?b ?c ?C ?d ?e ?f = _ => destruct (rdo_a_scan_res a b c C d e f) as [E | (it & I & E)] end.
  - rewrite E in H0. subst. eapply rdo_a_neighbour_in; eauto.
  - rewrite E in H0. inversion H0; subst. apply in_map. auto. Qed.

Lemma rdo_a_integrate_ok : forall t x left right, rdo_a_parlt (rdo_st t) ->
  (forall p, rdo_par x = RdoItem p -> p < rdo_id x) ->
  rdo_neighbour_ok (rdo_st t) x left = true -> rdo_neighbour_ok (rdo_st t) x right = true ->
  exists t' l', rdo_integrate t x left right = RdoOk t' /\ rdo_a_deq (rdo_link (rdo_st t) l' x) (rdo_st t') /\
                rdo_next t' = rdo_next t /\
                l' = (if rdo_detect_conflict (rdo_st t) left right then rdo_resolve_conflict (rdo_st t) x left right else left).
Proof. intros t x left right PL PX N1 N2. unfold rdo_integrate. rewrite N1, N2. cbv beta iota delta [negb andb].
  set (left' := if rdo_detect_conflict (rdo_st t) left right then rdo_resolve_conflict (rdo_st t) x left right else left).
  assert (HL: forall l, left' = Some l -> In l (map rdo_id (rdo_st t))).
  { unfold left'; intros l E. destruct (rdo_detect_conflict (rdo_st t) left right). apply (rdo_a_resolve_in _ x left right); auto.
    subst. apply (rdo_a_neighbour_in _ x); auto. }
  cbv zeta. set (st1 := rdo_link (rdo_st t) left' x).
  assert (P1: rdo_a_parlt st1).
  { intros y p I P. apply rdo_a_link_in in I. destruct I. subst; auto. eapply PL; eauto. }
  assert (I1: forall j, In j (map rdo_id (rdo_st t)) -> In j (map rdo_id st1)).
  { intros j I. apply in_map_iff in I. destruct I as (y & E & I). apply in_map_iff. exists y; split; auto. apply rdo_a_link_in; auto. }
  assert (Ix: In (rdo_id x) (map rdo_id st1)). { apply in_map. apply rdo_a_link_in; auto. }
  set (t1 := {| rdo_st := st1; rdo_next := rdo_next t; rdo_tins := rdo_tins t ++ [rdo_id x]; rdo_tdel := rdo_tdel t |}).
  match goal with |- context[rdo_bind ?M _] => assert (exists t2, M = RdoOk t2 /\ rdo_a_deq st1 (rdo_st t2) /\ rdo_next t2 = rdo_next t) as (t2 & E2 & Q2 & X2) end.
  { assert (D: exists t2, RdoOk t1 = RdoOk t2 /\ rdo_a_deq st1 (rdo_st t2) /\ rdo_next t2 = rdo_next t).
    { exists t1; simpl; auto using rdo_a_deq_refl. }
    destruct (rdo_right st1 (rdo_id x)); auto. destruct (rdo_sub x); auto. destruct left' eqn:EL; auto.
    destruct (rdo_a_txn_delete_ok t1 n0) as (t2 & E & Q & X); simpl; auto. exists t2; auto. }
  rewrite E2. simpl rdo_bind.
  match goal with |- context[if ?c then rdo_txn_delete _ _ else _] => destruct c end.
  - destruct (rdo_a_txn_delete_ok t2 (rdo_id x)) as (t3 & E & Q & X). eapply rdo_a_parlt_deq; eauto.
    rewrite (rdo_a_deq_ids _ _ Q2); auto. exists t3, left'. split; [exact E|]. split; [eapply rdo_a_deq_trans; eauto|]. split; [congruence|reflexivity].
  - exists t2, left'. auto. Qed.

(* ------------------------------------------------------------------------------------------ *)
(* the loops of rdo_redo that follow rdo_red: ids strictly increase along rdo_red (rdo_a_w4), so the number of
   ids >= the current one strictly decreases; fuel S (length st) is enough *)
Lemma rdo_a_chase_ok : forall fuel st n pb red, rdo_a_wf st n ->
  match red with Some id => (rdo_a_ge (map rdo_id st) id < fuel)%nat | None => True end ->
  exists o, rdo_chase fuel st pb red = RdoOk o.
Proof. induction fuel; intros; destruct red; simpl; eauto. lia.
  destruct (rdo_get st n0) eqn:G; eauto. apply IHfuel with (n:=n); auto.
  destruct (rdo_red r) eqn:R; auto. destruct (rdo_a_get_in _ _ _ G). destruct (rdo_a_w4 _ _ H _ _ H1 R) as (L & _).
  pose proof (rdo_a_ge_lt (map rdo_id st) n0 n1 (rdo_a_get_ids' _ _ _ G)). lia. Qed.

Lemma rdo_a_mfollow_ok : forall fuel st n cur x, rdo_a_wf st n -> rdo_get st cur = Some x ->
  (rdo_a_ge (map rdo_id st) cur <= fuel)%nat ->
  exists r y, rdo_mfollow fuel st cur = RdoOk r /\ rdo_get st r = Some y /\ rdo_sub y = rdo_sub x /\ cur <= r.
Proof. induction fuel; intros.
  - pose proof (rdo_a_ge_pos _ _ (rdo_a_get_ids' _ _ _ H0)). lia.
  - simpl. rewrite H0. destruct (rdo_red x) eqn:R. 2: { exists cur, x. repeat split; auto. lia. }
    destruct (rdo_a_get_in _ _ _ H0). destruct (rdo_a_w4 _ _ H _ _ H2 R) as (L & y & G & S1 & _). rewrite G.
    destruct (IHfuel st n n0 y H G) as (r & z & E & Gz & Sz & Lz).
    pose proof (rdo_a_ge_lt (map rdo_id st) cur n0 (rdo_a_get_ids' _ _ _ H0)). lia.
    exists r, z. repeat split; auto. congruence. lia. Qed.

Lemma rdo_a_trace_ok : forall fuel st n pb j x, rdo_a_wf st n -> rdo_get st j = Some x ->
  (rdo_a_ge (map rdo_id st) j <= fuel)%nat -> exists o, rdo_trace fuel st pb (Some j) = RdoOk o.
Proof. induction fuel; intros.
  - pose proof (rdo_a_ge_pos _ _ (rdo_a_get_ids' _ _ _ H0)). lia.
  - simpl. rewrite H0. destruct (rdo_on_eqb pb (rdo_par_item (rdo_par x))); eauto.
    destruct (rdo_red x) eqn:R; eauto. destruct (rdo_a_get_in _ _ _ H0). destruct (rdo_a_w4 _ _ H _ _ H2 R) as (L & y & G & _).
    rewrite G. apply IHfuel with (n:=n) (x:=y); auto.
    pose proof (rdo_a_ge_lt (map rdo_id st) j n0 (rdo_a_get_ids' _ _ _ H0)). lia. Qed.

Lemma rdo_a_trace_ok' : forall st n pb j, rdo_a_wf st n -> In j (map rdo_id st) ->
  exists o, rdo_trace (S (length st)) st pb (Some j) = RdoOk o.
Proof. intros. destruct (rdo_a_get_ids _ _ H0) as (x & G). eapply rdo_a_trace_ok; eauto.
  pose proof (rdo_a_ge_le (map rdo_id st) j). rewrite map_length in H1. lia. Qed.

Lemma rdo_a_lloop_ok : forall st n pb cands, rdo_a_wf st n -> (forall l, In l cands -> In l (map rdo_id st)) ->
  exists o, rdo_lloop st pb cands = RdoOk o.
Proof. induction cands; intros. simpl; eauto. destruct (rdo_a_trace_ok' st n pb a H) as (o & E). apply H0; simpl; auto.
  cbn [rdo_lloop]. rewrite E. cbn [rdo_bind]. destruct o; eauto. apply IHcands; auto. intros; apply H0; simpl; auto. Qed.
Lemma rdo_a_rloop_ok : forall st n pb left cands, rdo_a_wf st n -> (forall l, In l cands -> In l (map rdo_id st)) ->
  exists o, rdo_rloop st pb left cands = RdoOk o.
Proof. induction cands; intros. simpl; eauto. destruct (rdo_a_trace_ok' st n pb a H) as (o & E). apply H0; simpl; auto.
  assert (exists o, rdo_rloop st pb left cands = RdoOk o) as K by (apply IHcands; auto; intros; apply H0; simpl; auto).
  cbn [rdo_rloop]. rewrite E. cbn [rdo_bind]. destruct o; eauto. destruct (negb (rdo_on_eqb (Some n0) left)); eauto. Qed.

Lemma rdo_a_split_before : forall st i acc b x a, rdo_split st i acc = Some (b, x, a) -> forall y, In y b -> In y st \/ In y acc.
Proof. induction st; simpl; intros. discriminate. destruct (rdo_id a =? i). inversion H; subst; auto.
  destruct (IHst _ _ _ _ _ H _ H0); auto. destruct H1; auto. Qed.
Lemma rdo_a_lefts_in : forall st i l, In l (rdo_lefts st i) -> In l (map rdo_id st).
Proof. unfold rdo_lefts; intros. destruct (rdo_split st i []) as [[[b x] a]|] eqn:S; simpl in H; try tauto.
  apply in_map_iff in H. destruct H as (y & E & I). apply filter_In in I. destruct I as (I & _).
  destruct (rdo_a_split_before _ _ _ _ _ _ S _ I). subst; apply in_map; auto. destruct H. Qed.
Lemma rdo_a_rights_in : forall st i l, In l (rdo_rights st i) -> In l (map rdo_id st).
Proof. unfold rdo_rights; intros. destruct (rdo_split st i []) as [[[b x] a]|] eqn:S; simpl in H; try tauto.
  apply in_map_iff in H. destruct H as (y & E & I). apply filter_In in I. destruct I as (I & _).
  pose proof (rdo_a_split_after _ _ _ _ _ _ S _ I). subst; apply in_map; auto. Qed.

(* partial result towards rdo_redo_res_ok: every loop of rdo_redo and both building blocks (rdo_integrate, rdo_txn_delete)
   are free of failure values on well-formed stores; the sequence-case loops with the fuel of the code: *)
Theorem rdo_redo_seq_loops_ok : forall st n pb i, rdo_a_wf st n -> (exists x, rdo_get st i = Some x) ->
  exists l r, rdo_lloop st pb (rdo_lefts st i) = RdoOk l /\ rdo_rloop st pb l (i :: rdo_rights st i) = RdoOk r.
Proof. intros st n pb i W (x & G). destruct (rdo_a_lloop_ok st n pb (rdo_lefts st i) W (rdo_a_lefts_in st i)) as (l & E).
  destruct (rdo_a_rloop_ok st n pb l (i :: rdo_rights st i) W) as (r & E2).
  intros j [J|J]. subst. eapply rdo_a_get_ids'; eauto. eapply rdo_a_rights_in; eauto. eauto. Qed.
Print Assumptions rdo_redo_seq_loops_ok.

Theorem rdo_txn_delete_res_ok : forall t i, rdo_a_wf (rdo_st t) (rdo_next t) -> (exists x, rdo_get (rdo_st t) i = Some x) ->
  exists t', rdo_txn_delete t i = RdoOk t' /\ rdo_a_wf (rdo_st t') (rdo_next t').
Proof. intros t i W (x & G). destruct (rdo_a_txn_delete_ok t i) as (t' & E & Q & X). eapply rdo_a_wf_parlt; eauto.
  eapply rdo_a_get_ids'; eauto. exists t'. split; auto. rewrite X. eapply rdo_a_wf_deq; eauto. Qed.
Print Assumptions rdo_txn_delete_res_ok.
Print Assumptions rdo_a_integrate_ok.
Print Assumptions rdo_a_chase_ok.
Print Assumptions rdo_a_mfollow_ok.

(* the map walk: ids strictly increase along a key chain (rdo_a_w5) and along rdo_red *)
Lemma rdo_a_split_spec : forall st i acc b x a, rdo_split st i acc = Some (b, x, a) -> rev acc ++ st = rev b ++ x :: a /\ rdo_id x = i.
Proof. induction st; simpl; intros. discriminate. destruct (rdo_id a =? i) eqn:E. inversion H; subst. apply N.eqb_eq in E; auto.
  apply IHst in H. simpl in H. rewrite <- app_assoc in H. simpl in H. auto. Qed.

Lemma rdo_a_right_spec : forall st n cur x k lr, rdo_a_wf st n -> rdo_get st cur = Some x -> rdo_sub x = Some k ->
  rdo_right st cur = Some lr -> exists y, rdo_get st lr = Some y /\ rdo_sub y = Some k /\ rdo_par y = rdo_par x /\ cur < lr.
Proof. unfold rdo_right, rdo_rights; intros st n cur x k lr W G Sx H.
  destruct (rdo_split st cur []) as [[[b x0] a]|] eqn:S; simpl in H; try discriminate.
  destruct (rdo_a_split_spec _ _ _ _ _ _ S) as (E & Ex). simpl in E.
  destruct (rdo_a_get_in _ _ _ G) as (Ix & Ei).
  assert (x0 = x). { assert (In x0 st) by (rewrite E; apply in_or_app; right; simpl; auto).
    pose proof (rdo_a_in_get _ _ (rdo_a_w1 _ _ W) H0). rewrite Ex in H1. congruence. }
  subst x0. destruct (map rdo_id (filter (rdo_in_chain (rdo_par x) (rdo_sub x)) a)) eqn:M; simpl in H; inversion H; subst n0.
  assert (In lr (map rdo_id (filter (rdo_in_chain (rdo_par x) (rdo_sub x)) a))) by (rewrite M; simpl; auto).
  apply in_map_iff in H0. destruct H0 as (y & Ey & Iy). apply filter_In in Iy. destruct Iy as (Iy & C).
  unfold rdo_in_chain in C. apply andb_true_iff in C. destruct C as (C1 & C2).
  apply rdo_a_par_eqb_eq in C1. apply rdo_a_on_eqb_eq in C2.
  destruct (in_split _ _ Iy) as (a1 & a2 & Ea). subst a.
  assert (In y st) by (rewrite E; apply in_or_app; right; right; apply in_or_app; right; simpl; auto).
  exists y. split. rewrite <- Ey. apply rdo_a_in_get; auto. apply W. split. congruence. split. auto.
  rewrite <- Ey, <- Ei. apply (rdo_a_w5d _ _ W (rev b) x a1 y a2 k); congruence. Qed.

Lemma rdo_a_mwalk_ok : forall fuel st n cur x k td s1 s2, rdo_a_wf st n -> rdo_get st cur = Some x -> rdo_sub x = Some k ->
  (rdo_a_ge (map rdo_id st) cur <= fuel)%nat -> exists r, rdo_mwalk fuel st cur td s1 s2 = RdoOk r.
Proof. induction fuel; intros.
  - pose proof (rdo_a_ge_pos _ _ (rdo_a_get_ids' _ _ _ H0)). lia.
  - cbn [rdo_mwalk]. destruct (rdo_right st cur) eqn:R; eauto.
    destruct (rdo_a_right_spec _ _ _ _ _ _ H H0 H1 R) as (y & G & Sy & Py & L). rewrite G.
    destruct (rdo_passable td s1 s2 y); eauto.
    destruct (rdo_a_mfollow_ok (S (length st)) st n n0 y H G) as (r & z & E & Gz & Sz & Lz).
    pose proof (rdo_a_ge_le (map rdo_id st) n0). rewrite map_length in H3. lia.
    rewrite E. cbn [rdo_bind]. apply IHfuel with (n:=n) (x:=z) (k:=k); auto. congruence.
    pose proof (rdo_a_ge_lt (map rdo_id st) cur n0 (rdo_a_get_ids' _ _ _ H0) L).
    pose proof (rdo_a_ge_mono (map rdo_id st) n0 r Lz). lia. Qed.

Theorem rdo_redo_map_walk_ok : forall st n i x k td s1 s2, rdo_a_wf st n -> rdo_get st i = Some x -> rdo_sub x = Some k ->
  exists r, rdo_mwalk (S (length st)) st i td s1 s2 = RdoOk r.
Proof. intros. eapply rdo_a_mwalk_ok; eauto. pose proof (rdo_a_ge_le (map rdo_id st) i). rewrite map_length in H2. lia. Qed.
Print Assumptions rdo_redo_map_walk_ok.

(* ------------------------------------------------------------------------------------------ *)
(* rdo_redo_res_ok_partial: items whose parent is a root or a live item *)
Definition rdo_a_good (st : list rdo_item) (P : rdo_parent) (S : option N) (l : N) :=
  exists y, rdo_get st l = Some y /\ rdo_par y = P /\ rdo_sub y = S.
Definition rdo_a_ogood (st : list rdo_item) (P : rdo_parent) (S : option N) (o : option N) := forall j, o = Some j -> rdo_a_good st P S j.

Lemma rdo_a_len_fuel : forall st i, (rdo_a_ge (map rdo_id st) i <= S (length st))%nat.
Proof. intros. pose proof (rdo_a_ge_le (map rdo_id st) i). rewrite map_length in H. lia. Qed.

Lemma rdo_a_trace_spec : forall fuel st n pb j x, rdo_a_wf st n -> rdo_get st j = Some x ->
  rdo_parent_deleted st (rdo_par x) = false -> (rdo_a_ge (map rdo_id st) j <= fuel)%nat ->
  exists o, rdo_trace fuel st pb (Some j) = RdoOk o /\ rdo_a_ogood st (rdo_par x) (rdo_sub x) o.
Proof. induction fuel; intros.
  - pose proof (rdo_a_ge_pos _ _ (rdo_a_get_ids' _ _ _ H0)). lia.
  - simpl. rewrite H0. destruct (rdo_on_eqb pb (rdo_par_item (rdo_par x))).
    { eexists; split; [reflexivity|]. intros j' E; inversion E; subst. exists x; auto. }
    destruct (rdo_red x) eqn:R. 2: { eexists; split; [reflexivity|]. intros j' E; discriminate. }
    destruct (rdo_a_get_in _ _ _ H0). destruct (rdo_a_w4 _ _ H _ _ H3 R) as (L & y & G & S1 & C1 & P1). rewrite G.
    destruct (IHfuel st n pb n0 y H G) as (o & E & Sp). rewrite (P1 H1); auto.
    pose proof (rdo_a_ge_lt (map rdo_id st) j n0 (rdo_a_get_ids' _ _ _ H0)). lia.
    exists o; split; auto. rewrite (P1 H1), S1 in Sp. exact Sp. Qed.

Lemma rdo_a_lloop_spec : forall st n pb P S cands, rdo_a_wf st n -> rdo_parent_deleted st P = false ->
  (forall l, In l cands -> rdo_a_good st P S l) ->
  exists o, rdo_lloop st pb cands = RdoOk o /\ rdo_a_ogood st P S o.
Proof. induction cands; intros. simpl. eexists; split; [reflexivity|]. intros j E; discriminate.
  destruct (H1 a) as (x & G & Px & Sx). simpl; auto.
  destruct (rdo_a_trace_spec (Datatypes.S (length st)) st n pb a x H G) as (o & E & Sp). rewrite Px; auto. apply rdo_a_len_fuel.
  cbn [rdo_lloop]. rewrite E. cbn [rdo_bind]. rewrite Px, Sx in Sp. destruct o.
  eexists; split; [reflexivity|]. exact Sp. apply IHcands; auto. intros; apply H1; simpl; auto. Qed.
Lemma rdo_a_rloop_spec : forall st n pb left P S cands, rdo_a_wf st n -> rdo_parent_deleted st P = false ->
  (forall l, In l cands -> rdo_a_good st P S l) ->
  exists o, rdo_rloop st pb left cands = RdoOk o /\ rdo_a_ogood st P S o.
Proof. induction cands; intros. simpl. eexists; split; [reflexivity|]. intros j E; discriminate.
  destruct (H1 a) as (x & G & Px & Sx). simpl; auto.
  destruct (rdo_a_trace_spec (Datatypes.S (length st)) st n pb a x H G) as (o & E & Sp). rewrite Px; auto. apply rdo_a_len_fuel.
  assert (K: exists o, rdo_rloop st pb left cands = RdoOk o /\ rdo_a_ogood st P S o) by (apply IHcands; auto; intros; apply H1; simpl; auto).
  cbn [rdo_rloop]. rewrite E. cbn [rdo_bind]. rewrite Px, Sx in Sp. destruct o; auto.
  destruct (negb (rdo_on_eqb (Some n0) left)); auto. eexists; split; [reflexivity|]. exact Sp. Qed.

Lemma rdo_a_split_item : forall st n i item b x0 a, rdo_a_wf st n -> rdo_get st i = Some item -> rdo_split st i [] = Some (b, x0, a) ->
  x0 = item /\ forall y, In y b \/ In y a -> In y st.
Proof. intros. destruct (rdo_a_split_spec _ _ _ _ _ _ H1) as (E & Ex). simpl in E.
  assert (In x0 st) by (rewrite E; apply in_or_app; right; simpl; auto).
  pose proof (rdo_a_in_get _ _ (rdo_a_w1 _ _ H) H2). rewrite Ex in H3. split. congruence.
  intros y [I|I]. destruct (rdo_a_split_before _ _ _ _ _ _ H1 _ I); auto. destruct H4. eapply rdo_a_split_after; eauto. Qed.
Lemma rdo_a_sib_good : forall st n item y, rdo_a_wf st n -> In y st -> rdo_in_chain (rdo_par item) (rdo_sub item) y = true ->
  rdo_a_good st (rdo_par item) (rdo_sub item) (rdo_id y).
Proof. intros. exists y. split. apply rdo_a_in_get; auto. apply H. unfold rdo_in_chain in H1. apply andb_true_iff in H1. destruct H1.
  auto using rdo_a_par_eqb_eq, rdo_a_on_eqb_eq. Qed.
Lemma rdo_a_lefts_good : forall st n i item l, rdo_a_wf st n -> rdo_get st i = Some item -> In l (rdo_lefts st i) ->
  rdo_a_good st (rdo_par item) (rdo_sub item) l.
Proof. unfold rdo_lefts; intros. destruct (rdo_split st i []) as [[[b x] a]|] eqn:S; simpl in H1; try tauto.
  destruct (rdo_a_split_item _ _ _ _ _ _ _ H H0 S) as (E & Inn). subst x.
  apply in_map_iff in H1. destruct H1 as (y & E & I). apply filter_In in I. destruct I as (I & C). subst l.
  eapply rdo_a_sib_good; eauto. Qed.
Lemma rdo_a_rights_good : forall st n i item l, rdo_a_wf st n -> rdo_get st i = Some item -> In l (rdo_rights st i) ->
  rdo_a_good st (rdo_par item) (rdo_sub item) l.
Proof. unfold rdo_rights; intros. destruct (rdo_split st i []) as [[[b x] a]|] eqn:S; simpl in H1; try tauto.
  destruct (rdo_a_split_item _ _ _ _ _ _ _ H H0 S) as (E & Inn). subst x.
  apply in_map_iff in H1. destruct H1 as (y & E & I). apply filter_In in I. destruct I as (I & C). subst l.
  eapply rdo_a_sib_good; eauto. Qed.

Lemma rdo_a_mfollow_spec : forall fuel st n cur x, rdo_a_wf st n -> rdo_get st cur = Some x ->
  rdo_parent_deleted st (rdo_par x) = false -> (rdo_a_ge (map rdo_id st) cur <= fuel)%nat ->
  exists r, rdo_mfollow fuel st cur = RdoOk r /\ rdo_a_good st (rdo_par x) (rdo_sub x) r /\ cur <= r.
Proof. induction fuel; intros.
  - pose proof (rdo_a_ge_pos _ _ (rdo_a_get_ids' _ _ _ H0)). lia.
  - simpl. rewrite H0. destruct (rdo_red x) eqn:R. 2: { exists cur. repeat split; auto. exists x; auto. lia. }
    destruct (rdo_a_get_in _ _ _ H0). destruct (rdo_a_w4 _ _ H _ _ H3 R) as (L & y & G & S1 & C1 & P1). rewrite G.
    destruct (IHfuel st n n0 y H G) as (r & E & Gd & Lz). rewrite (P1 H1); auto.
    pose proof (rdo_a_ge_lt (map rdo_id st) cur n0 (rdo_a_get_ids' _ _ _ H0)). lia.
    exists r. rewrite (P1 H1), S1 in Gd. repeat split; auto. lia. Qed.

Lemma rdo_a_mwalk_spec : forall fuel st n cur x k td s1 s2, rdo_a_wf st n -> rdo_get st cur = Some x -> rdo_sub x = Some k ->
  rdo_parent_deleted st (rdo_par x) = false -> (rdo_a_ge (map rdo_id st) cur <= fuel)%nat ->
  exists r, rdo_mwalk fuel st cur td s1 s2 = RdoOk r /\ rdo_a_good st (rdo_par x) (Some k) r.
Proof. induction fuel; intros.
  - pose proof (rdo_a_ge_pos _ _ (rdo_a_get_ids' _ _ _ H0)). lia.
  - assert (G0: rdo_a_good st (rdo_par x) (Some k) cur) by (exists x; auto).
    cbn [rdo_mwalk]. destruct (rdo_right st cur) eqn:R; eauto.
    destruct (rdo_a_right_spec _ _ _ _ _ _ H H0 H1 R) as (y & G & Sy & Py & L). rewrite G.
    destruct (rdo_passable td s1 s2 y); eauto.
    destruct (rdo_a_mfollow_spec (S (length st)) st n n0 y H G) as (r & E & (z & Gz & Pz & Sz) & Lz). rewrite Py; auto.
    apply rdo_a_len_fuel. rewrite E. cbn [rdo_bind].
    destruct (IHfuel st n r z k td s1 s2 H Gz) as (r' & E' & Gd'). congruence. congruence.
    pose proof (rdo_a_ge_lt (map rdo_id st) cur n0 (rdo_a_get_ids' _ _ _ H0) L).
    pose proof (rdo_a_ge_mono (map rdo_id st) n0 r Lz). lia.
    exists r'. split; auto. rewrite Pz, Py in Gd'. auto. Qed.

(* the part of rdo_redo after the parent has been dealt with (same text as in Redo.v; ipar stands for rdo_par item) *)
Definition rdo_a_lr (st : list rdo_item) (item : rdo_item) (i : N) (pb : option N) (ipar pbranch : rdo_parent)
   (to_delete : list N) (s1 s2 : list rdo_sitem) : rdo_res (option (option N * option N)) :=
                    (match rdo_sub item with
                     | Some k =>
                         if rdo_par_eqb ipar pbranch && rdo_is_some (rdo_right st i) then
                           rdo_let l := rdo_mwalk (S (length st)) st i to_delete s1 s2 in
                           if rdo_is_some (rdo_right st l) then RdoOk None else RdoOk (Some (Some l, None))
                         else RdoOk (Some (rdo_map_get st pbranch k, None))
                     | None =>
                         rdo_let l := rdo_lloop st pb (rdo_lefts st i) in
                         rdo_let r := rdo_rloop st pb l (i :: rdo_rights st i) in
                         RdoOk (Some (l, r))
                     end).
Definition rdo_a_tail (t1 : rdo_txn) (item : rdo_item) (i : N) (pb : option N) (ipar pbranch : rdo_parent)
   (to_delete : list N) (s1 s2 : list rdo_sitem) : rdo_res (rdo_txn * option N) :=
  let st := rdo_st t1 in
  rdo_let lr := rdo_a_lr st item i pb ipar pbranch to_delete s1 s2 in
                  match lr with
                  | None => RdoOk (t1, None)
                  | Some (l, r) =>
                      let nid := rdo_next t1 in
                      let copy := {| rdo_id := nid; rdo_par := pbranch; rdo_sub := rdo_sub item; rdo_cnt := rdo_cnt item;
                                     rdo_del := false; rdo_keep := true; rdo_red := None; rdo_org := l; rdo_rorg := r |} in
                      let t2 := {| rdo_st := rdo_update st i (fun y => rdo_set_red y nid); rdo_next := nid + 1;
                                   rdo_tins := rdo_tins t1; rdo_tdel := rdo_tdel t1 |} in
                      rdo_let t3 := rdo_integrate t2 copy l r in
                      RdoOk (t3, Some nid)
                  end.

Lemma rdo_a_lr_ok : forall st n item i pb td s1 s2, rdo_a_wf st n -> rdo_get st i = Some item ->
  rdo_parent_deleted st (rdo_par item) = false ->
  exists lr, rdo_a_lr st item i pb (rdo_par item) (rdo_par item) td s1 s2 = RdoOk lr /\
     forall l r, lr = Some (l, r) -> rdo_a_ogood st (rdo_par item) (rdo_sub item) l /\ rdo_a_ogood st (rdo_par item) (rdo_sub item) r.
Proof. intros st n item i pb td s1 s2 W G PD. unfold rdo_a_lr. destruct (rdo_sub item) eqn:Sx.
  - rewrite rdo_a_par_eqb_refl. cbn [andb]. destruct (rdo_is_some (rdo_right st i)).
    + destruct (rdo_a_mwalk_spec (S (length st)) st n i item n0 td s1 s2 W G Sx PD) as (r & E & Gd). apply rdo_a_len_fuel.
      rewrite E. cbn [rdo_bind]. destruct (rdo_is_some (rdo_right st r)).
      * exists None; split; auto. intros; discriminate.
      * eexists; split; [reflexivity|]. intros l r0 Eq; inversion Eq; subst. split; intros j Ej; inversion Ej; subst; auto.
    + eexists; split; [reflexivity|]. intros l r Eq; inversion Eq; subst. split; intros j Ej; [|discriminate].
      apply rdo_a_map_get_in in Ej. destruct Ej as (y & Iy & Ey). apply rdo_a_chain_in in Iy. destruct Iy as (Iy & Py & Sy).
      exists y. split; auto. rewrite <- Ey. apply rdo_a_in_get; auto. apply W.
  - destruct (rdo_a_lloop_spec st n pb (rdo_par item) None (rdo_lefts st i) W PD) as (l & E & Gl).
    { intros l Il. rewrite <- Sx. eapply rdo_a_lefts_good; eauto. }
    rewrite E. cbn [rdo_bind].
    destruct (rdo_a_rloop_spec st n pb l (rdo_par item) None (i :: rdo_rights st i) W PD) as (r & E2 & Gr).
    { intros j [J|J]. subst. exists item; auto. rewrite <- Sx. eapply rdo_a_rights_good; eauto. }
    rewrite E2. cbn [rdo_bind]. eexists; split; [reflexivity|]. intros l0 r0 Eq; inversion Eq; subst. auto. Qed.

Lemma rdo_a_get_update_red : forall st i nid j y, rdo_get st j = Some y ->
  exists y', rdo_get (rdo_update st i (fun y => rdo_set_red y nid)) j = Some y' /\ rdo_par y' = rdo_par y /\ rdo_sub y' = rdo_sub y.
Proof. induction st; simpl; intros. discriminate. destruct (rdo_id a =? i) eqn:Ei; simpl.
  - destruct (rdo_id a =? j). inversion H; subst. eexists; split; [reflexivity|]. simpl; auto. eauto.
  - destruct (rdo_id a =? j). eauto. eauto. Qed.
Lemma rdo_a_in_update_red : forall st i nid y', In y' (rdo_update st i (fun y => rdo_set_red y nid)) ->
  exists y, In y st /\ rdo_par y' = rdo_par y /\ rdo_id y' = rdo_id y.
Proof. induction st; simpl; intros. tauto. destruct (rdo_id a =? i); simpl in H.
  - destruct H. subst. exists a; simpl; auto. eauto.
  - destruct H. subst; eauto. destruct (IHst _ _ _ H) as (y & ? & ?). eauto. Qed.

Lemma rdo_a_tail_ok : forall t1 item i pb td s1 s2, rdo_a_wf (rdo_st t1) (rdo_next t1) -> rdo_get (rdo_st t1) i = Some item ->
  rdo_parent_deleted (rdo_st t1) (rdo_par item) = false ->
  exists t' o, rdo_a_tail t1 item i pb (rdo_par item) (rdo_par item) td s1 s2 = RdoOk (t', o).
Proof. intros t1 item i pb td s1 s2 W G PD. unfold rdo_a_tail. cbv zeta.
  destruct (rdo_a_lr_ok _ _ item i pb td s1 s2 W G PD) as (lr & E & Sp). rewrite E. cbn [rdo_bind].
  destruct lr as [[l r]|]; eauto. destruct (Sp l r eq_refl) as (Gl & Gr).
  match goal with |- context[rdo_integrate ?T ?X ?L ?R] => destruct (rdo_a_integrate_ok T X L R) as (t3 & l' & E3 & _) end.
  - cbn [rdo_st]. intros y' p I P. apply rdo_a_in_update_red in I. destruct I as (y & I & Py & Iy). rewrite Iy.
    eapply (rdo_a_wf_parlt _ _ W); eauto. congruence.
  - cbn [rdo_par rdo_id]. intros p P. destruct (rdo_a_get_in _ _ _ G) as (I & _).
    destruct (rdo_a_w3 _ _ W _ _ I P) as (L & _). pose proof (rdo_a_w2 _ _ W _ I). lia.
  - destruct l; [|reflexivity]. destruct (Gl n eq_refl) as (y & Gy & Py & Sy).
    cbn [rdo_neighbour_ok rdo_st rdo_par rdo_sub]. destruct (rdo_a_get_update_red _ i (rdo_next t1) _ _ Gy) as (y' & Gy' & Py' & Sy').
    rewrite Gy'. unfold rdo_in_chain. rewrite Py', Sy', Py, Sy, rdo_a_par_eqb_refl, rdo_a_on_eqb_refl. reflexivity.
  - destruct r; [|reflexivity]. destruct (Gr n eq_refl) as (y & Gy & Py & Sy).
    cbn [rdo_neighbour_ok rdo_st rdo_par rdo_sub]. destruct (rdo_a_get_update_red _ i (rdo_next t1) _ _ Gy) as (y' & Gy' & Py' & Sy').
    rewrite Gy'. unfold rdo_in_chain. rewrite Py', Sy', Py, Sy, rdo_a_par_eqb_refl, rdo_a_on_eqb_refl. reflexivity.
  - rewrite E3. cbn [rdo_bind]. eauto. Qed.

Theorem rdo_redo_res_ok_partial : forall t i redo_items to_delete s1 s2 item,
  rdo_a_wf (rdo_st t) (rdo_next t) -> rdo_get (rdo_st t) i = Some item ->
  rdo_parent_deleted (rdo_st t) (rdo_par item) = false ->
  exists t' o, rdo_redo (S (length (rdo_st t))) t i redo_items to_delete s1 s2 = RdoOk (t', o).
Proof. intros t i redo_items to_delete s1 s2 item W G PD.
  pose proof (rdo_a_tail_ok t item i (rdo_par_item (rdo_par item)) to_delete s1 s2 W G PD) as T.
  cbn [rdo_redo]. rewrite G. destruct (rdo_red item). eauto.
  destruct (rdo_par item) eqn:P.
  - exact T.
  - destruct (rdo_a_get_in _ _ _ G) as (I & _). destruct (rdo_a_w3 _ _ W _ _ I P) as (L & pit & k & Gp & C).
    simpl in PD. rewrite Gp in PD. cbn [rdo_par_item]. cbn [rdo_par_item] in T. rewrite Gp, PD. cbn [rdo_bind]. rewrite Gp, C. exact T.
Qed.
Print Assumptions rdo_redo_res_ok_partial.

(* ------------------------------------------------------------------------------------------ *)
(* second case: the parent is deleted and already re-created (rdo_red parent = Some _): chase, no recursion *)
Lemma rdo_a_chase_spec : forall fuel st n p c id y pb0, rdo_a_wf st n -> rdo_get st id = Some y -> rdo_cnt y = c -> p < id ->
  (rdo_a_ge (map rdo_id st) id < fuel)%nat ->
  exists q z, rdo_chase fuel st pb0 (Some id) = RdoOk (Some q) /\ rdo_get st q = Some z /\ rdo_cnt z = c /\ p < q.
Proof. induction fuel; intros. lia. simpl. rewrite H0. destruct (rdo_red y) eqn:R.
  - destruct (rdo_a_get_in _ _ _ H0). destruct (rdo_a_w4 _ _ H _ _ H4 R) as (L & y2 & G & S1 & C1 & P1).
    apply IHfuel with (n:=n) (y:=y2); auto. congruence. lia.
    pose proof (rdo_a_ge_lt (map rdo_id st) id n0 (rdo_a_get_ids' _ _ _ H0)). lia.
  - exists id, y. split. destruct fuel; reflexivity. auto. Qed.

Definition rdo_a_sgood (st : list rdo_item) (S : option N) (l : N) := exists y, rdo_get st l = Some y /\ rdo_sub y = S.

Lemma rdo_a_trace_spec2 : forall fuel st n q j x, rdo_a_wf st n -> rdo_get st j = Some x ->
  (rdo_a_ge (map rdo_id st) j <= fuel)%nat ->
  exists o, rdo_trace fuel st (Some q) (Some j) = RdoOk o /\ rdo_a_ogood st (RdoItem q) (rdo_sub x) o.
Proof. induction fuel; intros.
  - pose proof (rdo_a_ge_pos _ _ (rdo_a_get_ids' _ _ _ H0)). lia.
  - cbn [rdo_trace]. rewrite H0. destruct (rdo_on_eqb (Some q) (rdo_par_item (rdo_par x))) eqn:EQ.
    { eexists; split; [reflexivity|]. intros j' E; inversion E; subst. exists x. split; auto. split; auto.
      destruct (rdo_par x); simpl in EQ; try discriminate. apply N.eqb_eq in EQ. congruence. }
    destruct (rdo_red x) eqn:R. 2: { eexists; split; [reflexivity|]. intros j' E; discriminate. }
    destruct (rdo_a_get_in _ _ _ H0). destruct (rdo_a_w4 _ _ H _ _ H2 R) as (L & y & G & S1 & C1 & P1). rewrite G.
    destruct (IHfuel st n q n0 y H G) as (o & E & Sp).
    pose proof (rdo_a_ge_lt (map rdo_id st) j n0 (rdo_a_get_ids' _ _ _ H0)). lia.
    exists o; split; auto. rewrite S1 in Sp. exact Sp. Qed.

Lemma rdo_a_lloop_spec2 : forall st n q S cands, rdo_a_wf st n -> (forall l, In l cands -> rdo_a_sgood st S l) ->
  exists o, rdo_lloop st (Some q) cands = RdoOk o /\ rdo_a_ogood st (RdoItem q) S o.
Proof. induction cands; intros. simpl. eexists; split; [reflexivity|]. intros j E; discriminate.
  destruct (H0 a) as (x & G & Sx). simpl; auto.
  destruct (rdo_a_trace_spec2 (Datatypes.S (length st)) st n q a x H G) as (o & E & Sp). apply rdo_a_len_fuel.
  cbn [rdo_lloop]. rewrite E. cbn [rdo_bind]. rewrite Sx in Sp. destruct o.
  eexists; split; [reflexivity|]. exact Sp. apply IHcands; auto. intros; apply H0; simpl; auto. Qed.
Lemma rdo_a_rloop_spec2 : forall st n q left S cands, rdo_a_wf st n -> (forall l, In l cands -> rdo_a_sgood st S l) ->
  exists o, rdo_rloop st (Some q) left cands = RdoOk o /\ rdo_a_ogood st (RdoItem q) S o.
Proof. induction cands; intros. simpl. eexists; split; [reflexivity|]. intros j E; discriminate.
  destruct (H0 a) as (x & G & Sx). simpl; auto.
  destruct (rdo_a_trace_spec2 (Datatypes.S (length st)) st n q a x H G) as (o & E & Sp). apply rdo_a_len_fuel.
  assert (K: exists o, rdo_rloop st (Some q) left cands = RdoOk o /\ rdo_a_ogood st (RdoItem q) S o) by (apply IHcands; auto; intros; apply H0; simpl; auto).
  cbn [rdo_rloop]. rewrite E. cbn [rdo_bind]. rewrite Sx in Sp. destruct o; auto.
  destruct (negb (rdo_on_eqb (Some n0) left)); auto. eexists; split; [reflexivity|]. exact Sp. Qed.

Lemma rdo_a_lr_ok2 : forall st n item i p q td s1 s2, rdo_a_wf st n -> rdo_get st i = Some item -> p <> q ->
  exists lr, rdo_a_lr st item i (Some q) (RdoItem p) (RdoItem q) td s1 s2 = RdoOk lr /\
     forall l r, lr = Some (l, r) -> rdo_a_ogood st (RdoItem q) (rdo_sub item) l /\ rdo_a_ogood st (RdoItem q) (rdo_sub item) r.
Proof. intros st n item i p q td s1 s2 W G NE. unfold rdo_a_lr. destruct (rdo_sub item) eqn:Sx.
  - assert (rdo_par_eqb (RdoItem p) (RdoItem q) = false) as F by (simpl; apply N.eqb_neq; auto). rewrite F. cbn [andb].
    eexists; split; [reflexivity|]. intros l r Eq; inversion Eq; subst. split; intros j Ej; [|discriminate].
    apply rdo_a_map_get_in in Ej. destruct Ej as (y & Iy & Ey). apply rdo_a_chain_in in Iy. destruct Iy as (Iy & Py & Sy).
    exists y. split; auto. rewrite <- Ey. apply rdo_a_in_get; auto. apply W.
  - destruct (rdo_a_lloop_spec2 st n q None (rdo_lefts st i) W) as (l & E & Gl).
    { intros l Il. destruct (rdo_a_lefts_good _ _ _ _ _ W G Il) as (y & ? & ? & ?). exists y; split; auto. congruence. }
    rewrite E. cbn [rdo_bind].
    destruct (rdo_a_rloop_spec2 st n q l None (i :: rdo_rights st i) W) as (r & E2 & Gr).
    { intros j [J|J]. subst. exists item; auto. destruct (rdo_a_rights_good _ _ _ _ _ W G J) as (y & ? & ? & ?). exists y; split; auto. congruence. }
    rewrite E2. cbn [rdo_bind]. eexists; split; [reflexivity|]. intros l0 r0 Eq; inversion Eq; subst. auto. Qed.

Lemma rdo_a_tail_fin : forall t1 item i pb ipar pbranch td s1 s2, rdo_a_wf (rdo_st t1) (rdo_next t1) -> rdo_get (rdo_st t1) i = Some item ->
  (forall p, pbranch = RdoItem p -> p < rdo_next t1) ->
  (exists lr, rdo_a_lr (rdo_st t1) item i pb ipar pbranch td s1 s2 = RdoOk lr /\
     forall l r, lr = Some (l, r) -> rdo_a_ogood (rdo_st t1) pbranch (rdo_sub item) l /\ rdo_a_ogood (rdo_st t1) pbranch (rdo_sub item) r) ->
  exists t' o, rdo_a_tail t1 item i pb ipar pbranch td s1 s2 = RdoOk (t', o).
Proof. intros t1 item i pb ipar pbranch td s1 s2 W G HP (lr & E & Sp). unfold rdo_a_tail. cbv zeta.
  rewrite E. cbn [rdo_bind].
  destruct lr as [[l r]|]; eauto. destruct (Sp l r eq_refl) as (Gl & Gr).
  match goal with |- context[rdo_integrate ?T ?X ?L ?R] => destruct (rdo_a_integrate_ok T X L R) as (t3 & l' & E3 & _) end.
  - cbn [rdo_st]. intros y' p I P. apply rdo_a_in_update_red in I. destruct I as (y & I & Py & Iy). rewrite Iy.
    eapply (rdo_a_wf_parlt _ _ W); eauto. congruence.
  - cbn [rdo_par rdo_id]. auto.
  - destruct l; [|reflexivity]. destruct (Gl n eq_refl) as (y & Gy & Py & Sy).
    cbn [rdo_neighbour_ok rdo_st rdo_par rdo_sub]. destruct (rdo_a_get_update_red _ i (rdo_next t1) _ _ Gy) as (y' & Gy' & Py' & Sy').
    rewrite Gy'. unfold rdo_in_chain. rewrite Py', Sy', Py, Sy, rdo_a_par_eqb_refl, rdo_a_on_eqb_refl. reflexivity.
  - destruct r; [|reflexivity]. destruct (Gr n eq_refl) as (y & Gy & Py & Sy).
    cbn [rdo_neighbour_ok rdo_st rdo_par rdo_sub]. destruct (rdo_a_get_update_red _ i (rdo_next t1) _ _ Gy) as (y' & Gy' & Py' & Sy').
    rewrite Gy'. unfold rdo_in_chain. rewrite Py', Sy', Py, Sy, rdo_a_par_eqb_refl, rdo_a_on_eqb_refl. reflexivity.
  - rewrite E3. cbn [rdo_bind]. eauto. Qed.

Theorem rdo_redo_res_ok_partial2 : forall t i redo_items to_delete s1 s2 item p pit r0,
  rdo_a_wf (rdo_st t) (rdo_next t) -> rdo_get (rdo_st t) i = Some item ->
  rdo_par item = RdoItem p -> rdo_get (rdo_st t) p = Some pit -> rdo_del pit = true -> rdo_red pit = Some r0 ->
  exists t' o, rdo_redo (S (length (rdo_st t))) t i redo_items to_delete s1 s2 = RdoOk (t', o).
Proof. intros t i redo_items to_delete s1 s2 item p pit r0 W G P Gp Dp Rp.
  destruct (rdo_a_get_in _ _ _ G) as (I & _). destruct (rdo_a_w3 _ _ W _ _ I P) as (L & pit' & k & Gp' & C).
  rewrite Gp in Gp'. inversion Gp'; subst pit'.
  destruct (rdo_a_get_in _ _ _ Gp) as (Ip & Eip). destruct (rdo_a_w4 _ _ W _ _ Ip Rp) as (L0 & y0 & G0 & _ & C0 & _).
  destruct (rdo_a_chase_spec (S (length (rdo_st t))) (rdo_st t) _ p (RdoType k) r0 y0 (Some p) W G0) as (q & z & E & Gz & Cz & Lq).
  congruence. lia. pose proof (rdo_a_len_fuel (rdo_st t) r0).
  pose proof (rdo_a_ge_lt (map rdo_id (rdo_st t)) p r0 (rdo_a_get_ids' _ _ _ Gp)).
  pose proof (rdo_a_ge_le (map rdo_id (rdo_st t)) p). rewrite map_length in H1. lia.
  assert (T: exists t' o, rdo_a_tail t item i (Some q) (RdoItem p) (RdoItem q) to_delete s1 s2 = RdoOk (t', o)).
  { apply rdo_a_tail_fin; auto.
    - intros p0 E0. inversion E0; subst p0. destruct (rdo_a_get_in _ _ _ Gz) as (Iz & Eiz). rewrite <- Eiz. apply (rdo_a_w2 _ _ W); auto.
    - eapply rdo_a_lr_ok2; eauto. lia. }
  cbn [rdo_redo]. rewrite G. destruct (rdo_red item). eauto.
  rewrite P. cbn [rdo_par_item]. rewrite Gp, Dp, Rp. cbn [rdo_is_some rdo_bind negb]. rewrite Gp, Rp, E. cbn [rdo_bind].
  rewrite Gz, Cz. cbn [rdo_bind]. exact T.
Qed.
Print Assumptions rdo_redo_res_ok_partial2.

(* ------------------------------------------------------------------------------------------ *)
(* well-formedness of the store after the copy has been linked *)
Lemma rdo_a_get_update : forall st i f j, (forall y, rdo_id (f y) = rdo_id y) ->
  rdo_get (rdo_update st i f) j = if j =? i then option_map f (rdo_get st j) else rdo_get st j.
Proof. induction st; simpl; intros. destruct (j =? i); auto.
  destruct (rdo_id a =? i) eqn:Ei; simpl.
  - rewrite H. apply N.eqb_eq in Ei. destruct (rdo_id a =? j) eqn:Ej.
    + apply N.eqb_eq in Ej. assert (j =? i = true) by (apply N.eqb_eq; congruence). rewrite H0. auto.
    + apply N.eqb_neq in Ej. assert (j =? i = false) by (apply N.eqb_neq; congruence). rewrite H0; auto.
  - destruct (rdo_id a =? j) eqn:Ej.
    + apply N.eqb_eq in Ej. apply N.eqb_neq in Ei. assert (j =? i = false) by (apply N.eqb_neq; congruence). rewrite H0; auto.
    + apply IHst; auto. Qed.
Lemma rdo_a_ids_update : forall st i f, (forall y, rdo_id (f y) = rdo_id y) -> map rdo_id (rdo_update st i f) = map rdo_id st.
Proof. induction st; simpl; intros; auto. destruct (rdo_id a =? i); simpl. rewrite H; auto. rewrite IHst; auto. Qed.
Lemma rdo_a_in_update : forall st i f y, In y (rdo_update st i f) -> In y st \/ exists x, In x st /\ rdo_id x = i /\ y = f x.
Proof. induction st; simpl; intros. tauto. destruct (rdo_id a =? i) eqn:Ei; simpl in H.
  - destruct H; auto. right. exists a. apply N.eqb_eq in Ei. auto.
  - destruct H; auto. destruct (IHst _ _ _ H) as [?|(x & ? & ? & ?)]; auto. right; exists x; auto. Qed.
Lemma rdo_a_update_R0 : forall st i f, (forall y, rdo_a_R0 y (f y)) -> Forall2 rdo_a_R0 st (rdo_update st i f).
Proof. assert (forall y, rdo_a_R0 y y) by (unfold rdo_a_R0; tauto).
  induction st; simpl; intros. constructor. destruct (rdo_id a =? i); constructor; auto. clear. induction st; constructor; auto. unfold rdo_a_R0; tauto. Qed.

Lemma rdo_a_get_insert_after : forall st l c j, ~ In (rdo_id c) (map rdo_id st) ->
  rdo_get (rdo_insert_after st l c) j = if rdo_id c =? j then Some c else rdo_get st j.
Proof. induction st; simpl; intros; auto. assert (rdo_id a <> rdo_id c) by tauto.
  destruct (rdo_id a =? l); simpl.
  - destruct (rdo_id c =? j) eqn:Ec; auto. apply N.eqb_eq in Ec. assert (rdo_id a =? j = false) by (apply N.eqb_neq; congruence). rewrite H1; auto.
  - rewrite IHst; auto. destruct (rdo_id c =? j) eqn:Ec; auto. apply N.eqb_eq in Ec. assert (rdo_id a =? j = false) by (apply N.eqb_neq; congruence). rewrite H1; auto. Qed.
Lemma rdo_a_get_link : forall st l c j, ~ In (rdo_id c) (map rdo_id st) ->
  rdo_get (rdo_link st l c) j = if rdo_id c =? j then Some c else rdo_get st j.
Proof. destruct l; simpl; intros. apply rdo_a_get_insert_after; auto. auto. Qed.
Lemma rdo_a_perm_link : forall st l c, Permutation (map rdo_id (rdo_link st l c)) (rdo_id c :: map rdo_id st).
Proof. destruct l; simpl; intros; auto. induction st; simpl; auto. destruct (rdo_id a =? n); simpl. apply perm_swap.
  eapply perm_trans. apply perm_skip. apply IHst. apply perm_swap. Qed.

Lemma rdo_a_filter_insert_out : forall (f : rdo_item -> bool) st l c, f c = false -> filter f (rdo_insert_after st l c) = filter f st.
Proof. induction st; simpl; intros. rewrite H; auto. destruct (rdo_id a =? l); simpl. rewrite H; auto. rewrite IHst; auto. Qed.

Definition rdo_a_last (st : list rdo_item) (P : rdo_parent) (k l : N) :=
  exists a y b, st = a ++ y :: b /\ rdo_id y = l /\ ~ In l (map rdo_id a) /\ rdo_in_chain P (Some k) y = true /\
                filter (rdo_in_chain P (Some k)) b = [].
Lemma rdo_a_insert_after_app : forall a y b l c, rdo_id y = l -> ~ In l (map rdo_id a) ->
  rdo_insert_after (a ++ y :: b) l c = a ++ y :: c :: b.
Proof. induction a; simpl; intros. subst. rewrite N.eqb_refl; auto.
  assert (rdo_id a =? l = false) by (apply N.eqb_neq; tauto). rewrite H1. rewrite IHa; auto. Qed.
Lemma rdo_a_split_app : forall a y b l acc, rdo_id y = l -> ~ In l (map rdo_id a) ->
  rdo_split (a ++ y :: b) l acc = Some (rev a ++ acc, y, b).
Proof. induction a; simpl; intros. subst. rewrite N.eqb_refl; auto.
  assert (rdo_id a =? l = false) by (apply N.eqb_neq; tauto). rewrite H1. rewrite IHa; auto. rewrite <- app_assoc. auto. Qed.
Lemma rdo_a_last_right : forall st P k l, rdo_a_last st P k l -> rdo_right st l = None.
Proof. intros st P k l (a & y & b & E & Ey & Na & Fy & Fb). unfold rdo_right, rdo_rights. subst st. rewrite rdo_a_split_app; auto.
  unfold rdo_in_chain in Fy. apply andb_true_iff in Fy. destruct Fy as (F1 & F2). apply rdo_a_par_eqb_eq in F1. apply rdo_a_on_eqb_eq in F2.
  rewrite F1, F2, Fb. reflexivity. Qed.
Lemma rdo_a_last_insert : forall st P k l c, rdo_a_last st P k l -> rdo_in_chain P (Some k) c = true ->
  rdo_chain (rdo_insert_after st l c) P (Some k) = rdo_chain st P (Some k) ++ [c].
Proof. intros st P k l c (a & y & b & E & Ey & Na & Fy & Fb) Fc. unfold rdo_chain. subst st. rewrite rdo_a_insert_after_app; auto.
  rewrite !filter_app. simpl. rewrite Fy, Fc, Fb. rewrite <- app_assoc. reflexivity. Qed.
Lemma rdo_a_map_get_last : forall st P k l, NoDup (map rdo_id st) -> rdo_map_get st P k = Some l -> rdo_a_last st P k l.
Proof. unfold rdo_map_get; intros st P k l ND H. destruct (rev (rdo_chain st P (Some k))) as [|y r'] eqn:E; simpl in H; inversion H; subst.
  assert (EC: rdo_chain st P (Some k) = rev r' ++ [y]). { rewrite <- (rev_involutive (rdo_chain st P (Some k))). rewrite E. reflexivity. }
  assert (Iy: In y (rdo_chain st P (Some k))) by (rewrite EC; apply in_or_app; right; simpl; auto).
  unfold rdo_chain in Iy. apply filter_In in Iy. destruct Iy as (Iy & Fy).
  destruct (in_split _ _ Iy) as (a & b & Es). exists a, y, b. subst st. rewrite map_app in ND. simpl in ND.
  pose proof (NoDup_remove_2 _ _ _ ND) as NI. repeat split; auto.
  - intro. apply NI. apply in_or_app; auto.
  - unfold rdo_chain in EC. rewrite filter_app in EC. simpl in EC. rewrite Fy in EC.
    destruct (filter (rdo_in_chain P (Some k)) b) as [|z zs] eqn:Fb; auto. exfalso.
    destruct (exists_last (l:=z :: zs)) as (q & w & Eq). discriminate. rewrite Eq in EC.
    change (filter (rdo_in_chain P (Some k)) a ++ y :: q ++ [w]) with (filter (rdo_in_chain P (Some k)) a ++ (y :: q) ++ [w]) in EC.
    rewrite app_assoc in EC. apply app_inj_tail in EC. destruct EC as (_ & Ew). subst w.
    assert (In y (z :: zs)) by (rewrite Eq; apply in_or_app; right; simpl; auto). rewrite <- Fb in H0. apply filter_In in H0. destruct H0.
    apply NI. apply in_or_app. right. apply in_map. auto. Qed.
Lemma rdo_a_map_get_ids : forall st P k, rdo_map_get st P k = hd_error (rev (map rdo_id (rdo_chain st P (Some k)))).
Proof. intros. unfold rdo_map_get. rewrite <- map_rev. destruct (rev (rdo_chain st P (Some k))); auto. Qed.
Lemma rdo_a_map_get_none : forall st P k, rdo_map_get st P k = None -> rdo_chain st P (Some k) = [].
Proof. unfold rdo_map_get; intros. destruct (rev (rdo_chain st P (Some k))) eqn:E; simpl in H; try discriminate.
  rewrite <- (rev_involutive (rdo_chain st P (Some k))). rewrite E. reflexivity. Qed.
Lemma rdo_a_ss_app_end : forall m n, StronglySorted N.lt m -> Forall (fun a => a < n) m -> StronglySorted N.lt (m ++ [n]).
Proof. induction m; simpl; intros. constructor; constructor. inversion H; inversion H0; subst. constructor; auto.
  apply Forall_app. split; auto. Qed.

Definition rdo_a_copy (n : N) (pbranch : rdo_parent) (item1 : rdo_item) (lo ro : option N) : rdo_item :=
  {| rdo_id := n; rdo_par := pbranch; rdo_sub := rdo_sub item1; rdo_cnt := rdo_cnt item1;
     rdo_del := false; rdo_keep := true; rdo_red := None; rdo_org := lo; rdo_rorg := ro |}.

Lemma rdo_a_wf_link : forall st n i item1 pbranch l' lo ro, rdo_a_wf st n -> rdo_get st i = Some item1 ->
  (forall q, pbranch = RdoItem q -> exists z k, rdo_get st q = Some z /\ rdo_cnt z = RdoType k) ->
  (rdo_parent_deleted st (rdo_par item1) = false -> pbranch = rdo_par item1) ->
  (forall k, rdo_sub item1 = Some k -> (l' = None /\ rdo_chain st pbranch (Some k) = []) \/ (exists l, l' = Some l /\ rdo_map_get st pbranch k = Some l)) ->
  rdo_a_wf (rdo_link (rdo_update st i (fun y => rdo_set_red y n)) l' (rdo_a_copy n pbranch item1 lo ro)) (n + 1).
Proof. intros st n i item1 pbranch l' lo ro W G C1 C2 C3.
  set (c := rdo_a_copy n pbranch item1 lo ro). set (st2 := rdo_update st i (fun y => rdo_set_red y n)).
  assert (IDS: map rdo_id st2 = map rdo_id st) by (apply rdo_a_ids_update; auto).
  assert (NN: ~ In (rdo_id c) (map rdo_id st2)).
  { rewrite IDS. simpl. intro I. apply in_map_iff in I. destruct I as (y & E & I). pose proof (rdo_a_w2 _ _ W _ I). lia. }
  assert (GET: forall j, rdo_get (rdo_link st2 l' c) j = if n =? j then Some c else if j =? i then option_map (fun y => rdo_set_red y n) (rdo_get st j) else rdo_get st j).
  { intros j. rewrite rdo_a_get_link; auto. unfold st2. rewrite rdo_a_get_update; auto. }
  assert (PRES: forall j z, rdo_get st j = Some z -> exists z', rdo_get (rdo_link st2 l' c) j = Some z' /\ rdo_id z' = rdo_id z /\
             rdo_par z' = rdo_par z /\ rdo_sub z' = rdo_sub z /\ rdo_cnt z' = rdo_cnt z /\ rdo_del z' = rdo_del z).
  { intros j z Gz. rewrite GET. destruct (rdo_a_get_in _ _ _ Gz) as (Iz & Ez). pose proof (rdo_a_w2 _ _ W _ Iz).
    assert (n =? j = false) by (apply N.eqb_neq; lia). rewrite H0. rewrite Gz. destruct (j =? i); simpl; eexists; split; try reflexivity; simpl; auto 10. }
  assert (INN: forall y, In y (rdo_link st2 l' c) -> y = c \/ In y st \/ y = rdo_set_red item1 n).
  { intros y I. apply rdo_a_link_in in I. destruct I; auto. apply rdo_a_in_update in H. destruct H as [?|(x & Ix & Ex & Ey)]; auto.
    right; right. pose proof (rdo_a_in_get _ _ (rdo_a_w1 _ _ W) Ix). rewrite Ex in H. congruence. }
  assert (PDEL: forall P, rdo_parent_deleted (rdo_link st2 l' c) P = false -> rdo_parent_deleted st P = false).
  { intros P H. destruct P; simpl in *; auto. destruct (rdo_get st id) eqn:Gq; auto. destruct (PRES _ _ Gq) as (z' & Gz' & _ & _ & _ & _ & Dz).
    rewrite Gz' in H. congruence. }
  destruct (rdo_a_get_in _ _ _ G) as (I1 & E1).
  assert (OLD3: forall y p, In y st -> rdo_par y = RdoItem p -> p < rdo_id y /\ exists z k, rdo_get (rdo_link st2 l' c) p = Some z /\ rdo_cnt z = RdoType k).
  { intros y p Iy Py. destruct (rdo_a_w3 _ _ W _ _ Iy Py) as (L & z & k & Gz & Cz). split; auto.
    destruct (PRES _ _ Gz) as (z' & Gz' & _ & _ & _ & Cz' & _). exists z', k. split; auto. congruence. }
  constructor.
  - eapply Permutation_NoDup. apply Permutation_sym. apply rdo_a_perm_link. constructor; auto. rewrite IDS. apply W.
  - intros y I. destruct (INN _ I) as [?|[?|?]]; subst; simpl. lia. pose proof (rdo_a_w2 _ _ W _ H); lia. pose proof (rdo_a_w2 _ _ W _ I1); lia.
  - intros y p I Py. destruct (INN _ I) as [?|[?|?]]; subst.
    + simpl in Py. destruct (C1 _ Py) as (z & k & Gz & Cz). destruct (rdo_a_get_in _ _ _ Gz) as (Iz & Ez).
      pose proof (rdo_a_w2 _ _ W _ Iz). split. simpl. lia.
      destruct (PRES _ _ Gz) as (z' & Gz' & _ & _ & _ & Cz' & _). exists z', k. split; auto. congruence.
    + apply OLD3; auto.
    + simpl in *. apply OLD3; auto.
  - intros y r I Ry. destruct (INN _ I) as [?|[?|?]]; subst.
    + simpl in Ry. discriminate.
    + destruct (rdo_a_w4 _ _ W _ _ H Ry) as (L & z & Gz & Sz & Cz & Pz). split; auto.
      destruct (PRES _ _ Gz) as (z' & Gz' & _ & Pz' & Sz' & Cz' & _). exists z'. repeat split; try congruence.
      intros PD. apply PDEL in PD. rewrite Pz'. auto.
    + simpl in Ry. inversion Ry; subst r. simpl. pose proof (rdo_a_w2 _ _ W _ I1). split; auto.
      exists c. rewrite GET. rewrite N.eqb_refl. repeat split; auto; intros PD; apply PDEL in PD; simpl; auto.
  - intros par k. assert (R0: Forall2 rdo_a_R0 st st2). { apply rdo_a_update_R0. intros y; unfold rdo_a_R0; simpl; auto. }
    pose proof (rdo_a_chain_ids_R0 _ _ R0 par (Some k)) as CI.
    destruct (rdo_in_chain par (Some k) c) eqn:Fc.
    + unfold rdo_in_chain in Fc. simpl in Fc. apply andb_true_iff in Fc. destruct Fc as (F1 & F2).
      apply rdo_a_par_eqb_eq in F1. apply rdo_a_on_eqb_eq in F2. subst par.
      destruct (C3 _ F2) as [(EL & EC)|(l & EL & EM)]; subst l'.
      * simpl. unfold rdo_chain at 1. simpl. unfold rdo_in_chain at 1. simpl. rewrite F2, rdo_a_par_eqb_refl, rdo_a_on_eqb_refl. simpl.
        fold (rdo_chain st2 pbranch (Some k)). rewrite CI, EC. simpl. constructor; constructor.
      * simpl. rewrite (rdo_a_last_insert st2 pbranch k l c).
        -- rewrite map_app, CI. simpl. apply rdo_a_ss_app_end. apply W.
           apply Forall_forall. intros a Ia. apply in_map_iff in Ia. destruct Ia as (y & Ey & Iy). apply rdo_a_chain_in in Iy.
           destruct Iy as (Iy & _). pose proof (rdo_a_w2 _ _ W _ Iy). lia.
        -- apply rdo_a_map_get_last. rewrite IDS; apply W. rewrite rdo_a_map_get_ids, CI, <- rdo_a_map_get_ids. auto.
        -- unfold rdo_in_chain. simpl. rewrite F2, rdo_a_par_eqb_refl, rdo_a_on_eqb_refl. auto.
    + assert (rdo_chain (rdo_link st2 l' c) par (Some k) = rdo_chain st2 par (Some k)) as EQ.
      { unfold rdo_chain. destruct l'; simpl. apply rdo_a_filter_insert_out; auto. rewrite Fc; auto. }
      rewrite EQ, CI. apply W.
Qed.

(* ------------------------------------------------------------------------------------------ *)
(* what a call of rdo_redo keeps of the store *)
Definition rdo_a_ext (a b : list rdo_item) := forall j x, rdo_get a j = Some x ->
  exists y, rdo_get b j = Some y /\ rdo_par y = rdo_par x /\ rdo_sub y = rdo_sub x /\ rdo_cnt y = rdo_cnt x /\
            (rdo_del x = true -> rdo_del y = true) /\ (rdo_red x <> None -> rdo_red y <> None).
Lemma rdo_a_ext_refl : forall a, rdo_a_ext a a.
Proof. intros a j x G. exists x; auto 10. Qed.
Lemma rdo_a_ext_trans : forall a b c, rdo_a_ext a b -> rdo_a_ext b c -> rdo_a_ext a c.
Proof. intros a b c H1 H2 j x G. destruct (H1 _ _ G) as (y & Gy & A1 & A2 & A3 & A4 & A5).
  destruct (H2 _ _ Gy) as (z & Gz & B1 & B2 & B3 & B4 & B5). exists z. repeat split; auto; congruence. Qed.
Lemma rdo_a_deq_ext : forall a b, rdo_a_deq a b -> rdo_a_ext a b.
Proof. intros a b Q j x G. destruct (rdo_a_deq_get _ _ Q _ _ G) as (y & Gy & R1 & R2 & R3 & R4 & R5 & R6).
  exists y. repeat split; auto. congruence. Qed.
Lemma rdo_a_ext_link : forall st n i l' c, rdo_a_wf st n -> rdo_id c = n ->
  rdo_a_ext st (rdo_link (rdo_update st i (fun y => rdo_set_red y n)) l' c).
Proof. intros st n i l' c W Ec j x G.
  assert (NN: ~ In (rdo_id c) (map rdo_id (rdo_update st i (fun y => rdo_set_red y n)))).
  { rewrite rdo_a_ids_update; auto. rewrite Ec. intro I. apply in_map_iff in I. destruct I as (y & E & I). pose proof (rdo_a_w2 _ _ W _ I). lia. }
  rewrite rdo_a_get_link; auto. rewrite rdo_a_get_update; auto.
  destruct (rdo_a_get_in _ _ _ G) as (Ix & Ex). pose proof (rdo_a_w2 _ _ W _ Ix).
  assert (rdo_id c =? j = false) by (apply N.eqb_neq; lia). rewrite H0, G.
  destruct (j =? i); simpl; eexists; (split; [reflexivity|]); simpl; repeat split; auto; discriminate. Qed.

Lemma rdo_a_split_some : forall st l y, rdo_get st l = Some y -> forall acc, exists b a, rdo_split st l acc = Some (b, y, a).
Proof. induction st; simpl; intros. discriminate. destruct (rdo_id a =? l). inversion H; subst; eauto. eauto. Qed.
Lemma rdo_a_right_none_last : forall st P k l, rdo_a_good st P (Some k) l -> rdo_right st l = None -> rdo_map_get st P k = Some l.
Proof. intros st P k l (y & Gy & Py & Sy) H. destruct (rdo_a_split_some _ _ _ Gy []) as (b & a & S).
  unfold rdo_right, rdo_rights in H. rewrite S, Py, Sy in H.
  destruct (filter (rdo_in_chain P (Some k)) a) eqn:F; [|simpl in H; discriminate].
  destruct (rdo_a_split_spec _ _ _ _ _ _ S) as (E & Ey). simpl in E. unfold rdo_map_get, rdo_chain. rewrite E, filter_app. simpl.
  assert (Fy: rdo_in_chain P (Some k) y = true) by (unfold rdo_in_chain; rewrite Py, Sy, rdo_a_par_eqb_refl, rdo_a_on_eqb_refl; auto).
  rewrite Fy, F, rev_app_distr. simpl. congruence. Qed.

Definition rdo_a_lrspec (st : list rdo_item) (pbranch : rdo_parent) (item1 : rdo_item) (lr : option (option N * option N)) :=
  forall l r, lr = Some (l, r) -> rdo_a_ogood st pbranch (rdo_sub item1) l /\ rdo_a_ogood st pbranch (rdo_sub item1) r /\
     (forall k, rdo_sub item1 = Some k -> r = None /\ l = rdo_map_get st pbranch k).

Lemma rdo_a_lr_full : forall st n item i pb td s1 s2, rdo_a_wf st n -> rdo_get st i = Some item ->
  rdo_parent_deleted st (rdo_par item) = false ->
  exists lr, rdo_a_lr st item i pb (rdo_par item) (rdo_par item) td s1 s2 = RdoOk lr /\ rdo_a_lrspec st (rdo_par item) item lr.
Proof. intros st n item i pb td s1 s2 W G PD. unfold rdo_a_lr, rdo_a_lrspec. destruct (rdo_sub item) eqn:Sx.
  - rewrite rdo_a_par_eqb_refl. cbn [andb]. destruct (rdo_is_some (rdo_right st i)).
    + destruct (rdo_a_mwalk_spec (S (length st)) st n i item n0 td s1 s2 W G Sx PD) as (r & E & Gd). apply rdo_a_len_fuel.
      rewrite E. cbn [rdo_bind]. destruct (rdo_right st r) eqn:RR; cbn [rdo_is_some].
      * exists None; split; auto. intros; discriminate.
      * eexists; split; [reflexivity|]. intros l r0 Eq; inversion Eq; subst. split; [|split].
        intros j Ej; inversion Ej; subst; auto. intros j Ej; discriminate.
        intros k Ek; inversion Ek; subst. split; auto. symmetry. apply rdo_a_right_none_last; auto.
    + eexists; split; [reflexivity|]. intros l r Eq; inversion Eq; subst. split; [|split].
      * intros j Ej. apply rdo_a_map_get_in in Ej. destruct Ej as (y & Iy & Ey). apply rdo_a_chain_in in Iy. destruct Iy as (Iy & Py & Sy).
        exists y. split; auto. rewrite <- Ey. apply rdo_a_in_get; auto. apply W.
      * intros j Ej; discriminate.
      * intros k Ek; inversion Ek; subst; auto.
  - destruct (rdo_a_lloop_spec st n pb (rdo_par item) None (rdo_lefts st i) W PD) as (l & E & Gl).
    { intros l Il. rewrite <- Sx. eapply rdo_a_lefts_good; eauto. }
    rewrite E. cbn [rdo_bind].
    destruct (rdo_a_rloop_spec st n pb l (rdo_par item) None (i :: rdo_rights st i) W PD) as (r & E2 & Gr).
    { intros j [J|J]. subst. exists item; auto. rewrite <- Sx. eapply rdo_a_rights_good; eauto. }
    rewrite E2. cbn [rdo_bind]. eexists; split; [reflexivity|]. intros l0 r0 Eq; inversion Eq; subst. split; [|split]; auto.
    intros; discriminate. Qed.

Lemma rdo_a_lr_full2 : forall st n item i p q td s1 s2, rdo_a_wf st n -> rdo_get st i = Some item -> p <> q ->
  exists lr, rdo_a_lr st item i (Some q) (RdoItem p) (RdoItem q) td s1 s2 = RdoOk lr /\ rdo_a_lrspec st (RdoItem q) item lr.
Proof. intros st n item i p q td s1 s2 W G NE. unfold rdo_a_lr, rdo_a_lrspec. destruct (rdo_sub item) eqn:Sx.
  - assert (rdo_par_eqb (RdoItem p) (RdoItem q) = false) as F by (simpl; apply N.eqb_neq; auto). rewrite F. cbn [andb].
    eexists; split; [reflexivity|]. intros l r Eq; inversion Eq; subst. split; [|split].
    + intros j Ej. apply rdo_a_map_get_in in Ej. destruct Ej as (y & Iy & Ey). apply rdo_a_chain_in in Iy. destruct Iy as (Iy & Py & Sy).
      exists y. split; auto. rewrite <- Ey. apply rdo_a_in_get; auto. apply W.
    + intros j Ej; discriminate.
    + intros k Ek; inversion Ek; subst; auto.
  - destruct (rdo_a_lloop_spec2 st n q None (rdo_lefts st i) W) as (l & E & Gl).
    { intros l Il. destruct (rdo_a_lefts_good _ _ _ _ _ W G Il) as (y & ? & ? & ?). exists y; split; auto. congruence. }
    rewrite E. cbn [rdo_bind].
    destruct (rdo_a_rloop_spec2 st n q l None (i :: rdo_rights st i) W) as (r & E2 & Gr).
    { intros j [J|J]. subst. exists item; auto. destruct (rdo_a_rights_good _ _ _ _ _ W G J) as (y & ? & ? & ?). exists y; split; auto. congruence. }
    rewrite E2. cbn [rdo_bind]. eexists; split; [reflexivity|]. intros l0 r0 Eq; inversion Eq; subst. split; [|split]; auto.
    intros; discriminate. Qed.

Definition rdo_a_ocond (st' : list rdo_item) (i : N) (o : option N) := o <> None -> exists x', rdo_get st' i = Some x' /\ rdo_red x' <> None.

Lemma rdo_a_tail_full : forall t1 item item1 i pb ipar pbranch td s1 s2,
  rdo_a_wf (rdo_st t1) (rdo_next t1) -> rdo_get (rdo_st t1) i = Some item1 ->
  rdo_sub item = rdo_sub item1 -> rdo_cnt item = rdo_cnt item1 ->
  (forall q, pbranch = RdoItem q -> exists z k, rdo_get (rdo_st t1) q = Some z /\ rdo_cnt z = RdoType k) ->
  (rdo_parent_deleted (rdo_st t1) (rdo_par item1) = false -> pbranch = rdo_par item1) ->
  (exists lr, rdo_a_lr (rdo_st t1) item1 i pb ipar pbranch td s1 s2 = RdoOk lr /\ rdo_a_lrspec (rdo_st t1) pbranch item1 lr) ->
  exists t' o, rdo_a_tail t1 item i pb ipar pbranch td s1 s2 = RdoOk (t', o) /\ rdo_a_wf (rdo_st t') (rdo_next t') /\
               rdo_a_ext (rdo_st t1) (rdo_st t') /\ rdo_a_ocond (rdo_st t') i o.
Proof. intros t1 item item1 i pb ipar pbranch td s1 s2 W G Hs Hc C1 C2 (lr & E & Sp).
  assert (ET: rdo_a_tail t1 item i pb ipar pbranch td s1 s2 = rdo_a_tail t1 item1 i pb ipar pbranch td s1 s2)
    by (unfold rdo_a_tail, rdo_a_lr; rewrite Hs, Hc; reflexivity).
  rewrite ET. clear ET. unfold rdo_a_tail. cbv zeta. rewrite E. cbn [rdo_bind].
  destruct lr as [[l r]|].
  2: { exists t1, None. split; auto. split; auto. split. apply rdo_a_ext_refl. intros X; congruence. }
  destruct (Sp l r eq_refl) as (Gl & Gr & MAP).
  set (n := rdo_next t1). set (st := rdo_st t1) in *.
  set (st2 := rdo_update st i (fun y => rdo_set_red y n)).
  change {| rdo_id := n; rdo_par := pbranch; rdo_sub := rdo_sub item1; rdo_cnt := rdo_cnt item1; rdo_del := false;
            rdo_keep := true; rdo_red := None; rdo_org := l; rdo_rorg := r |} with (rdo_a_copy n pbranch item1 l r).
  set (c := rdo_a_copy n pbranch item1 l r).
  assert (R0: Forall2 rdo_a_R0 st st2). { apply rdo_a_update_R0. intros y; unfold rdo_a_R0; simpl; auto. }
  assert (IDS: map rdo_id st2 = map rdo_id st) by (apply rdo_a_ids_update; auto).
  assert (NB: forall o, rdo_a_ogood st pbranch (rdo_sub item1) o -> rdo_neighbour_ok st2 c o = true).
  { intros o Go. destruct o; [|reflexivity]. destruct (Go n0 eq_refl) as (y & Gy & Py & Sy).
    cbn [rdo_neighbour_ok]. destruct (rdo_a_get_update_red _ i n _ _ Gy) as (y' & Gy' & Py' & Sy'). fold st2 in Gy'.
    rewrite Gy'. unfold rdo_in_chain. simpl. rewrite Py', Sy', Py, Sy, rdo_a_par_eqb_refl, rdo_a_on_eqb_refl. reflexivity. }
  match goal with |- context[rdo_integrate ?T ?X ?L ?R] => destruct (rdo_a_integrate_ok T X L R) as (t3 & l' & E3 & Q3 & X3 & EL) end.
  - cbn [rdo_st]. intros y' p I P. apply rdo_a_in_update_red in I. destruct I as (y & I & Py & Iy). rewrite Iy.
    eapply (rdo_a_wf_parlt _ _ W); eauto. congruence.
  - simpl. intros p P. destruct (C1 _ P) as (z & k & Gz & _). destruct (rdo_a_get_in _ _ _ Gz) as (Iz & Ez). rewrite <- Ez. apply (rdo_a_w2 _ _ W); auto.
  - cbn [rdo_st]. apply NB; auto.
  - cbn [rdo_st]. apply NB; auto.
  - cbn [rdo_st rdo_next] in *. rewrite E3. cbn [rdo_bind]. exists t3, (Some n). split; [reflexivity|].
    assert (WL: rdo_a_wf (rdo_link st2 l' c) (n + 1)).
    { apply rdo_a_wf_link; auto. intros k Sk. destruct (MAP k Sk) as (Er & El). subst r. rewrite EL.
      pose proof (rdo_a_chain_ids_R0 _ _ R0 pbranch (Some k)) as CI.
      destruct (rdo_map_get st pbranch k) eqn:M; subst l.
      - right. exists n0. split; auto. cbn [rdo_detect_conflict].
        assert (LS: rdo_a_last st2 pbranch k n0).
        { apply rdo_a_map_get_last. rewrite IDS; apply W. rewrite rdo_a_map_get_ids, CI, <- rdo_a_map_get_ids. auto. }
        rewrite (rdo_a_last_right _ _ _ _ LS). reflexivity.
      - left. split; [|apply rdo_a_map_get_none; auto]. cbn [rdo_detect_conflict]. unfold rdo_resolve_conflict.
        assert (EC: rdo_chain st2 (rdo_par c) (rdo_sub c) = []).
        { simpl. rewrite Sk. apply rdo_a_map_get_none in M. rewrite M in CI. simpl in CI. apply map_eq_nil in CI. auto. }
        rewrite EC. reflexivity. }
    split. rewrite X3. eapply rdo_a_wf_deq; eauto.
    split. eapply rdo_a_ext_trans. apply (rdo_a_ext_link st n i l' c W); reflexivity. apply rdo_a_deq_ext; auto.
    intros _. assert (GI: rdo_get (rdo_link st2 l' c) i = Some (rdo_set_red item1 n)).
    { assert (NN: ~ In (rdo_id c) (map rdo_id st2)).
      { rewrite IDS. simpl. intro I. apply in_map_iff in I. destruct I as (y & Ey & I). pose proof (rdo_a_w2 _ _ W _ I). lia. }
      rewrite rdo_a_get_link; auto. unfold st2. rewrite rdo_a_get_update; auto. rewrite N.eqb_refl, G. simpl.
      destruct (rdo_a_get_in _ _ _ G) as (Ii & Ei). pose proof (rdo_a_w2 _ _ W _ Ii).
      assert (n =? i = false) by (apply N.eqb_neq; lia). rewrite H0. reflexivity. }
    destruct (rdo_a_deq_get _ _ Q3 _ _ GI) as (y & Gy & _ & _ & _ & _ & Ry & _). exists y. split; auto. rewrite Ry. simpl. discriminate.
Qed.

(* the measure that bounds the recursion of rdo_redo into parents: the number of ids <= i (parent ids strictly decrease) *)
Definition rdo_a_le (ids : list N) (i : N) : nat := length (filter (fun y => y <=? i) ids).
Lemma rdo_a_le_le : forall ids i, (rdo_a_le ids i <= length ids)%nat.
Proof. unfold rdo_a_le; induction ids; simpl; intros. lia. destruct (a <=? i); simpl; specialize (IHids i); lia. Qed.
Lemma rdo_a_le_mono : forall ids i j, i <= j -> (rdo_a_le ids i <= rdo_a_le ids j)%nat.
Proof. unfold rdo_a_le; induction ids; simpl; intros. lia. specialize (IHids i j H).
  destruct (a <=? j) eqn:E1; destruct (a <=? i) eqn:E2; simpl; try lia. apply N.leb_le in E2. apply N.leb_gt in E1. lia. Qed.
Lemma rdo_a_le_lt : forall ids i j, In j ids -> i < j -> (rdo_a_le ids i < rdo_a_le ids j)%nat.
Proof. induction ids; simpl; intros. tauto. unfold rdo_a_le in *; simpl. destruct H.
  - subst. assert (j <=? i = false) by (apply N.leb_gt; lia). rewrite H. rewrite N.leb_refl. simpl.
    assert (i <= j) by lia. pose proof (rdo_a_le_mono ids i j H1). unfold rdo_a_le in H2. lia.
  - specialize (IHids i j H H0). destruct (a <=? j) eqn:E1; destruct (a <=? i) eqn:E2; simpl; try lia.
    apply N.leb_le in E2; apply N.leb_gt in E1; lia. Qed.
Lemma rdo_a_le_pos : forall ids i, In i ids -> (1 <= rdo_a_le ids i)%nat.
Proof. unfold rdo_a_le; induction ids; simpl; intros. tauto. destruct H. subst. rewrite N.leb_refl. simpl. lia.
  specialize (IHids i H). destruct (a <=? i); simpl; lia. Qed.

Definition rdo_a_post (t : rdo_txn) (i : N) (t' : rdo_txn) (o : option N) :=
  rdo_a_wf (rdo_st t') (rdo_next t') /\ rdo_a_ext (rdo_st t) (rdo_st t') /\ rdo_a_ocond (rdo_st t') i o.

Lemma rdo_a_go : forall t' item item1 i p pit' r0 k td s1 s2, rdo_a_wf (rdo_st t') (rdo_next t') ->
  rdo_get (rdo_st t') i = Some item1 -> rdo_sub item = rdo_sub item1 -> rdo_cnt item = rdo_cnt item1 ->
  rdo_par item1 = RdoItem p -> rdo_get (rdo_st t') p = Some pit' -> rdo_del pit' = true -> rdo_red pit' = Some r0 ->
  rdo_cnt pit' = RdoType k ->
  exists q z, rdo_chase (S (length (rdo_st t'))) (rdo_st t') (Some p) (Some r0) = RdoOk (Some q) /\
     rdo_get (rdo_st t') q = Some z /\ rdo_cnt z = RdoType k /\
     exists t'' o, rdo_a_tail t' item i (Some q) (RdoItem p) (RdoItem q) td s1 s2 = RdoOk (t'', o) /\ rdo_a_post t' i t'' o.
Proof. intros t' item item1 i p pit' r0 k td s1 s2 W G Hs Hc P Gp Dp Rp C.
  destruct (rdo_a_get_in _ _ _ Gp) as (Ip & Eip). destruct (rdo_a_w4 _ _ W _ _ Ip Rp) as (L0 & y0 & G0 & _ & C0 & _).
  destruct (rdo_a_chase_spec (S (length (rdo_st t'))) (rdo_st t') _ p (RdoType k) r0 y0 (Some p) W G0) as (q & z & E & Gz & Cz & Lq).
  congruence. lia.
  pose proof (rdo_a_ge_lt (map rdo_id (rdo_st t')) p r0 (rdo_a_get_ids' _ _ _ Gp)).
  pose proof (rdo_a_ge_le (map rdo_id (rdo_st t')) p). rewrite map_length in H0. lia.
  exists q, z. repeat split; auto. apply rdo_a_tail_full with (item1:=item1); auto.
  - intros q0 E0. inversion E0; subst q0. eauto.
  - intros PD. rewrite P in PD. simpl in PD. rewrite Gp, Dp in PD. discriminate.
  - eapply rdo_a_lr_full2; eauto. lia. Qed.

Lemma rdo_a_redo_full : forall fuel t i ri td s1 s2 item, rdo_a_wf (rdo_st t) (rdo_next t) -> rdo_get (rdo_st t) i = Some item ->
  (rdo_a_le (map rdo_id (rdo_st t)) i <= fuel)%nat ->
  exists t' o, rdo_redo fuel t i ri td s1 s2 = RdoOk (t', o) /\ rdo_a_post t i t' o.
Proof. induction fuel; intros t i ri td s1 s2 item W G F.
  - pose proof (rdo_a_le_pos _ _ (rdo_a_get_ids' _ _ _ G)). lia.
  - cbn [rdo_redo]. rewrite G. destruct (rdo_red item) eqn:R.
    { eexists; eexists; split; [reflexivity|]. split; auto. split. apply rdo_a_ext_refl. intros _. exists item; split; auto. congruence. }
    destruct (rdo_a_get_in _ _ _ G) as (I & Ei).
    destruct (rdo_par item) eqn:P.
    + cbn [rdo_par_item rdo_bind rdo_unwrap_parent].
      apply (rdo_a_tail_full t item item i None (RdoRoot name) (RdoRoot name) td s1 s2); auto.
      * intros q E0; discriminate.
      * pose proof (rdo_a_lr_full (rdo_st t) _ item i None td s1 s2 W G) as LR. rewrite P in LR. apply LR. reflexivity.
    + destruct (rdo_a_w3 _ _ W _ _ I P) as (L & pit & k & Gp & C).
      cbn [rdo_par_item]. rewrite Gp. destruct (rdo_del pit) eqn:Dp.
      * destruct (rdo_red pit) eqn:Rp; cbn [rdo_is_some].
        -- cbn [rdo_bind negb]. rewrite Gp, Rp.
           destruct (rdo_a_go t item item i id pit n k td s1 s2 W G) as (q & z & E & Gz & Cz & t'' & o & ET & PT); auto.
           rewrite E. cbn [rdo_bind]. rewrite Gz, Cz. cbn [rdo_bind]. exists t'', o. split; auto.
        -- destruct (negb (rdo_mem id ri)) eqn:M; cbn [rdo_bind negb].
           ++ exists t, None. split; auto. split; auto. split. apply rdo_a_ext_refl. intros X; congruence.
           ++ destruct (IHfuel t id ri td s1 s2 pit W Gp) as (t' & o & E & W' & X' & OC).
              { rewrite Ei in L. pose proof (rdo_a_le_lt (map rdo_id (rdo_st t)) id i (rdo_a_get_ids' _ _ _ G) L). lia. }
              rewrite E. cbn [rdo_bind]. destruct o as [o|]; cbn [rdo_is_some negb].
              ** destruct OC as (pit' & Gp' & Rp'). congruence.
                 destruct (X' _ _ G) as (item1 & G1 & P1 & S1 & C1 & _).
                 destruct (X' _ _ Gp) as (pit2 & Gp2 & _ & _ & Cp2 & Dp2 & _). rewrite Gp' in Gp2. inversion Gp2; subst pit2.
                 destruct (rdo_red pit') eqn:Rp2; [|congruence].
                 destruct (rdo_a_go t' item item1 i id pit' n k td s1 s2 W' G1) as (q & z & E2 & Gz & Cz & t'' & o2 & ET & W2 & X2 & OC2); auto; try congruence.
                 rewrite Gp', Rp2, E2. cbn [rdo_bind]. rewrite Gz, Cz. cbn [rdo_bind]. exists t'', o2. split; auto.
                 split; auto. split; auto. eapply rdo_a_ext_trans; eauto.
              ** exists t', None. split; auto. split; auto. split; auto. intros X; congruence.
      * cbn [rdo_bind]. rewrite Gp, C. cbn [rdo_bind].
        apply (rdo_a_tail_full t item item i (Some id) (RdoItem id) (RdoItem id) td s1 s2); auto.
        -- intros q E0; inversion E0; subst; eauto.
        -- pose proof (rdo_a_lr_full (rdo_st t) _ item i (Some id) td s1 s2 W G) as LR. rewrite P in LR. apply LR.
           simpl. rewrite Gp. auto.
Qed.

Theorem rdo_redo_res_ok : forall t i redo_items to_delete s1 s2, rdo_a_wf (rdo_st t) (rdo_next t) ->
  (exists x, rdo_get (rdo_st t) i = Some x) ->
  exists t' o, rdo_redo (S (length (rdo_st t))) t i redo_items to_delete s1 s2 = RdoOk (t', o) /\ rdo_a_wf (rdo_st t') (rdo_next t').
Proof. intros t i ri td s1 s2 W (x & G).
  destruct (rdo_a_redo_full (S (length (rdo_st t))) t i ri td s1 s2 x W G) as (t' & o & E & W' & _).
  pose proof (rdo_a_le_le (map rdo_id (rdo_st t)) i). rewrite map_length in H. lia.
  exists t', o. auto. Qed.
Print Assumptions rdo_redo_res_ok.

(* ------------------------------------------------------------------------------------------ *)
(* a boolean checker for rdo_a_wf, its soundness, and a non-vacuity example *)
Fixpoint rdo_a_nodupb (l : list N) : bool := match l with [] => true | a :: r => negb (rdo_mem a r) && rdo_a_nodupb r end.
Fixpoint rdo_a_ssb (l : list N) : bool := match l with [] => true | a :: r => forallb (N.ltb a) r && rdo_a_ssb r end.
Definition rdo_a_cnt_eqb (a b : rdo_content) : bool :=
  match a, b with RdoVal x, RdoVal y => x =? y | RdoType x, RdoType y => x =? y | _, _ => false end.
Definition rdo_a_w3b (st : list rdo_item) (x : rdo_item) : bool :=
  match rdo_par x with RdoRoot _ => true
  | RdoItem p => (p <? rdo_id x) && match rdo_get st p with Some y => match rdo_cnt y with RdoType _ => true | _ => false end | None => false end end.
Definition rdo_a_w4b (st : list rdo_item) (x : rdo_item) : bool :=
  match rdo_red x with None => true
  | Some r => (rdo_id x <? r) && match rdo_get st r with
        | Some y => rdo_on_eqb (rdo_sub y) (rdo_sub x) && rdo_a_cnt_eqb (rdo_cnt y) (rdo_cnt x) &&
                    (rdo_parent_deleted st (rdo_par x) || rdo_par_eqb (rdo_par y) (rdo_par x))
        | None => false end end.
Definition rdo_a_w5b (st : list rdo_item) (x : rdo_item) : bool :=
  match rdo_sub x with None => true | Some k => rdo_a_ssb (map rdo_id (rdo_chain st (rdo_par x) (Some k))) end.
Definition rdo_a_wfb (st : list rdo_item) (n : N) : bool :=
  rdo_a_nodupb (map rdo_id st) && forallb (fun x => rdo_id x <? n) st && forallb (rdo_a_w3b st) st &&
  forallb (rdo_a_w4b st) st && forallb (rdo_a_w5b st) st.

Lemma rdo_a_nodupb_sound : forall l, rdo_a_nodupb l = true -> NoDup l.
Proof. induction l; simpl; intros. constructor. apply andb_true_iff in H. destruct H. constructor; auto.
  intro I. unfold rdo_mem in H. assert (existsb (N.eqb a) l = true) by (apply existsb_exists; exists a; split; auto; apply N.eqb_refl).
  rewrite H1 in H. discriminate. Qed.
Lemma rdo_a_ssb_sound : forall l, rdo_a_ssb l = true -> StronglySorted N.lt l.
Proof. induction l; simpl; intros. constructor. apply andb_true_iff in H. destruct H. constructor; auto.
  apply Forall_forall. intros x Ix. rewrite forallb_forall in H. apply N.ltb_lt. auto. Qed.
Lemma rdo_a_cnt_eqb_eq : forall a b, rdo_a_cnt_eqb a b = true -> a = b.
Proof. destruct a, b; simpl; intros; try discriminate; apply N.eqb_eq in H; congruence. Qed.

Lemma rdo_a_wfb_sound : forall st n, rdo_a_wfb st n = true -> rdo_a_wf st n.
Proof. unfold rdo_a_wfb; intros st n H. repeat (apply andb_true_iff in H; destruct H as (H & ?)).
  rewrite forallb_forall in *. constructor.
  - apply rdo_a_nodupb_sound; auto.
  - intros x I. apply N.ltb_lt. auto.
  - intros x p I P. specialize (H2 _ I). unfold rdo_a_w3b in H2. rewrite P in H2. apply andb_true_iff in H2. destruct H2 as (A & B).
    split. apply N.ltb_lt; auto. destruct (rdo_get st p) eqn:G; try discriminate. destruct (rdo_cnt r) eqn:C; try discriminate. eauto.
  - intros x r I R. specialize (H1 _ I). unfold rdo_a_w4b in H1. rewrite R in H1. apply andb_true_iff in H1. destruct H1 as (A & B).
    split. apply N.ltb_lt; auto. destruct (rdo_get st r) eqn:G; try discriminate.
    apply andb_true_iff in B. destruct B as (B & B3). apply andb_true_iff in B. destruct B as (B1 & B2).
    exists r0. split; auto. split. apply rdo_a_on_eqb_eq; auto. split. apply rdo_a_cnt_eqb_eq; auto.
    intros PD. rewrite PD in B3. simpl in B3. apply rdo_a_par_eqb_eq; auto.
  - intros par k. destruct (rdo_chain st par (Some k)) eqn:E. constructor.
    assert (Ir: In r (rdo_chain st par (Some k))) by (rewrite E; simpl; auto). apply rdo_a_chain_in in Ir. destruct Ir as (Ir & Pr & Sr).
    specialize (H0 _ Ir). unfold rdo_a_w5b in H0. rewrite Sr, Pr, E in H0. apply rdo_a_ssb_sound; auto.
Qed.

(* a nested container (a map entry below an array element of type 0), deleted, then re-created by undo *)
Definition rdo_a_example_prog : list rdo_action :=
  [RdoAStep [[RdoOIns 0 [] 0 (RdoType 0)]]; RdoAStep [[RdoOSet 0 [RdoIdx 0] 1 (RdoVal 5)]]; RdoAStep [[RdoOSet 0 [RdoIdx 0] 1 (RdoVal 6)]];
   RdoAStep [[RdoODel 0 [] 0]]; RdoAUndo; RdoAUndo; RdoARedo].
Example rdo_a_wf_nonvacuous :
  match rdo_run (rdo_state0 [0;1]) rdo_a_example_prog with
  | RdoOk s => rdo_a_wf (rdo_doc s) (rdo_clock s) /\
               existsb (fun x => rdo_is_some (rdo_red x)) (rdo_doc s) = true /\
               existsb (fun x => match rdo_par x with RdoItem _ => true | RdoRoot _ => false end) (rdo_doc s) = true /\
               existsb rdo_del (rdo_doc s) = true /\ (7 <= length (rdo_doc s))%nat
  | RdoErr _ => False
  end.
Proof. destruct (rdo_run (rdo_state0 [0;1]) rdo_a_example_prog) as [s|e] eqn:E; vm_compute in E; inversion E; subst; clear E.
  split. apply rdo_a_wfb_sound. vm_compute. reflexivity. vm_compute. repeat split; auto; try lia. Qed.
Print Assumptions rdo_a_wf_nonvacuous.

(* ------------------------------------------------------------------------------------------ *)
(* the calls of the user: rdo_op_apply never fails and preserves well-formedness *)
Lemma rdo_a_wf_link0 : forall st n x l', rdo_a_wf st n -> rdo_id x = n -> rdo_red x = None ->
  (forall q, rdo_par x = RdoItem q -> exists z k, rdo_get st q = Some z /\ rdo_cnt z = RdoType k) ->
  (forall k, rdo_sub x = Some k -> (l' = None /\ rdo_chain st (rdo_par x) (Some k) = []) \/
                                   (exists l, l' = Some l /\ rdo_map_get st (rdo_par x) k = Some l)) ->
  rdo_a_wf (rdo_link st l' x) (n + 1).
Proof. intros st n x l' W Ex Rx C1 C3.
  assert (NN: ~ In (rdo_id x) (map rdo_id st)).
  { rewrite Ex. intro I. apply in_map_iff in I. destruct I as (y & E & I). pose proof (rdo_a_w2 _ _ W _ I). lia. }
  assert (PRES: forall j z, rdo_get st j = Some z -> rdo_get (rdo_link st l' x) j = Some z).
  { intros j z Gz. rewrite rdo_a_get_link; auto. destruct (rdo_a_get_in _ _ _ Gz) as (Iz & Ez). pose proof (rdo_a_w2 _ _ W _ Iz).
    assert (rdo_id x =? j = false) by (apply N.eqb_neq; lia). rewrite H0. auto. }
  assert (PDEL: forall P, rdo_parent_deleted (rdo_link st l' x) P = false -> rdo_parent_deleted st P = false).
  { intros P H. destruct P; simpl in *; auto. destruct (rdo_get st id) eqn:Gq; auto. rewrite (PRES _ _ Gq) in H. auto. }
  constructor.
  - eapply Permutation_NoDup. apply Permutation_sym. apply rdo_a_perm_link. constructor; auto. apply W.
  - intros y I. apply rdo_a_link_in in I. destruct I. subst y. lia. pose proof (rdo_a_w2 _ _ W _ H). lia.
  - intros y p I Py. apply rdo_a_link_in in I. destruct I.
    + subst y. destruct (C1 _ Py) as (z & k & Gz & Cz). destruct (rdo_a_get_in _ _ _ Gz) as (Iz & Ez).
      pose proof (rdo_a_w2 _ _ W _ Iz). split. lia. exists z, k. split; auto.
    + destruct (rdo_a_w3 _ _ W _ _ H Py) as (L & z & k & Gz & Cz). split; auto. exists z, k. split; auto.
  - intros y r I Ry. apply rdo_a_link_in in I. destruct I. subst y. congruence.
    destruct (rdo_a_w4 _ _ W _ _ H Ry) as (L & z & Gz & Sz & Cz & Pz). split; auto. exists z. repeat split; auto.
  - intros par k. destruct (rdo_in_chain par (Some k) x) eqn:Fc.
    + pose proof Fc as Fc'. unfold rdo_in_chain in Fc. apply andb_true_iff in Fc. destruct Fc as (F1 & F2).
      apply rdo_a_par_eqb_eq in F1. apply rdo_a_on_eqb_eq in F2. subst par.
      destruct (C3 _ F2) as [(EL & EC)|(l & EL & EM)]; subst l'.
      * simpl. unfold rdo_chain at 1. simpl. rewrite Fc'. fold (rdo_chain st (rdo_par x) (Some k)). rewrite EC. simpl. constructor; constructor.
      * simpl. rewrite (rdo_a_last_insert st (rdo_par x) k l x); auto.
        -- rewrite map_app. simpl. apply rdo_a_ss_app_end. apply W.
           apply Forall_forall. intros a Ia. apply in_map_iff in Ia. destruct Ia as (y & Ey & Iy). apply rdo_a_chain_in in Iy.
           destruct Iy as (Iy & _). pose proof (rdo_a_w2 _ _ W _ Iy). lia.
        -- apply rdo_a_map_get_last; auto. apply W.
    + assert (rdo_chain (rdo_link st l' x) par (Some k) = rdo_chain st par (Some k)) as EQ.
      { unfold rdo_chain. destruct l'; simpl. apply rdo_a_filter_insert_out; auto. rewrite Fc; auto. }
      rewrite EQ. apply W.
Qed.

Lemma rdo_a_c3 : forall st x P k, NoDup (map rdo_id st) -> rdo_par x = P -> rdo_sub x = Some k ->
  forall l', l' = (if rdo_detect_conflict st (rdo_map_get st P k) None then rdo_resolve_conflict st x (rdo_map_get st P k) None else rdo_map_get st P k) ->
  (l' = None /\ rdo_chain st P (Some k) = []) \/ (exists l, l' = Some l /\ rdo_map_get st P k = Some l).
Proof. intros st x P k ND Px Sx l' EL. destruct (rdo_map_get st P k) eqn:M.
  - right. exists n. split; auto. cbn [rdo_detect_conflict] in EL. rewrite (rdo_a_last_right _ _ _ _ (rdo_a_map_get_last _ _ _ _ ND M)) in EL. exact EL.
  - left. split; [|apply rdo_a_map_get_none; auto]. cbn [rdo_detect_conflict] in EL. unfold rdo_resolve_conflict in EL.
    rewrite Px, Sx, (rdo_a_map_get_none _ _ _ M) in EL. exact EL. Qed.

Definition rdo_a_par_ok (st : list rdo_item) (par : rdo_parent) :=
  forall q, par = RdoItem q -> exists z k, rdo_get st q = Some z /\ rdo_cnt z = RdoType k.
Lemma rdo_a_resolve_spec : forall st n path par par', rdo_a_wf st n -> rdo_a_par_ok st par -> rdo_resolve st par path = Some par' -> rdo_a_par_ok st par'.
Proof. induction path; simpl; intros par par' W PO H. inversion H; subst; auto.
  match type of H with match ?X with _ => _ end = _ => destruct X as [x|] eqn:EX; try discriminate end.
  destruct (rdo_cnt x) eqn:C; try discriminate. apply (IHpath _ _ W) in H; auto.
  intros q Eq. inversion Eq; subst q. exists x, kind. split; auto. destruct a.
  - apply nth_error_In in EX. unfold rdo_live in EX. apply filter_In in EX. destruct EX as (EX & _). apply rdo_a_chain_in in EX.
    apply rdo_a_in_get. apply W. tauto.
  - unfold rdo_entry in EX. destruct (rdo_map_get st par k); try discriminate. destruct (rdo_get st n0) eqn:G; try discriminate.
    destruct (rdo_del r); inversion EX; subst. destruct (rdo_a_get_in _ _ _ G). congruence. Qed.

Lemma rdo_a_ins_point_spec : forall (Q : N -> Prop) chain pos prev l r, rdo_ins_point chain pos prev = (l, r) ->
  (forall j, prev = Some j -> Q j) -> (forall y, In y chain -> Q (rdo_id y)) ->
  (forall j, l = Some j -> Q j) /\ (forall j, r = Some j -> Q j).
Proof. induction chain; simpl; intros pos prev l r H HP HC. inversion H; subst. split; auto. intros; discriminate.
  destruct (rdo_del a). eapply IHchain; eauto. intros j E; inversion E; subst; auto.
  destruct pos. inversion H; subst. split; auto. intros j E; inversion E; subst; auto.
  eapply IHchain; eauto. intros j E; inversion E; subst; auto. Qed.

Lemma rdo_a_good_nb : forall st x P S o, rdo_par x = P -> rdo_sub x = S -> rdo_a_ogood st P S o -> rdo_neighbour_ok st x o = true.
Proof. intros. destruct o; [|reflexivity]. destruct (H1 n eq_refl) as (y & Gy & Py & Sy). simpl. rewrite Gy.
  unfold rdo_in_chain. rewrite H, H0, Py, Sy, rdo_a_par_eqb_refl, rdo_a_on_eqb_refl. reflexivity. Qed.

Lemma rdo_a_new_ok : forall t par sub c l r, rdo_a_wf (rdo_st t) (rdo_next t) -> rdo_a_par_ok (rdo_st t) par ->
  rdo_a_ogood (rdo_st t) par sub l -> rdo_a_ogood (rdo_st t) par sub r ->
  (forall k, sub = Some k -> r = None /\ l = rdo_map_get (rdo_st t) par k) ->
  exists t', rdo_integrate (rdo_bump t) (rdo_new_item t par sub c l r) l r = RdoOk t' /\ rdo_a_wf (rdo_st t') (rdo_next t').
Proof. intros t par sub c l r W PO Gl Gr MAP.
  destruct (rdo_a_integrate_ok (rdo_bump t) (rdo_new_item t par sub c l r) l r) as (t' & l' & E & Q & X & EL).
  - simpl. eapply rdo_a_wf_parlt; eauto.
  - simpl. intros p P. destruct (PO _ P) as (z & k & Gz & _). destruct (rdo_a_get_in _ _ _ Gz) as (Iz & Ez). rewrite <- Ez. apply (rdo_a_w2 _ _ W); auto.
  - simpl. eapply rdo_a_good_nb; eauto.
  - simpl. eapply rdo_a_good_nb; eauto.
  - exists t'. split; auto. rewrite X. simpl. simpl in Q, EL. eapply rdo_a_wf_deq; [|exact Q].
    apply rdo_a_wf_link0; auto. simpl. intros k Sk. destruct (MAP k Sk) as (Er & El). subst r l.
    eapply rdo_a_c3; eauto. apply W. reflexivity. exact Sk.
Qed.

Lemma rdo_a_op_apply_ok : forall t o, rdo_a_wf (rdo_st t) (rdo_next t) ->
  exists t', rdo_op_apply t o = RdoOk t' /\ rdo_a_wf (rdo_st t') (rdo_next t').
Proof. intros t o W. assert (P0: forall root, rdo_a_par_ok (rdo_st t) (RdoRoot root)) by (intros root q E; discriminate).
  destruct o; simpl.
  - destruct (rdo_resolve (rdo_st t) (RdoRoot root) path) as [par|] eqn:RS; eauto.
    pose proof (rdo_a_resolve_spec _ _ _ _ _ W (P0 root) RS) as PO.
    destruct (rdo_ins_point (rdo_chain (rdo_st t) par None) pos None) as (l, r) eqn:IP.
    destruct (rdo_a_ins_point_spec (rdo_a_good (rdo_st t) par None) _ _ _ _ _ IP) as (Gl & Gr). intros; discriminate.
    { intros y Iy. apply rdo_a_chain_in in Iy. destruct Iy as (Iy & Py & Sy). exists y. split; auto. apply rdo_a_in_get; auto. apply W. }
    apply rdo_a_new_ok; auto. intros; discriminate.
  - destruct (rdo_resolve (rdo_st t) (RdoRoot root) path) as [par|] eqn:RS; eauto.
    destruct (nth_error (rdo_live (rdo_chain (rdo_st t) par None)) pos) eqn:NE; eauto.
    apply rdo_txn_delete_res_ok; auto. apply nth_error_In in NE. unfold rdo_live in NE. apply filter_In in NE. destruct NE as (NE & _).
    apply rdo_a_chain_in in NE. exists r. apply rdo_a_in_get. apply W. tauto.
  - destruct (rdo_resolve (rdo_st t) (RdoRoot root) path) as [par|] eqn:RS; eauto.
    pose proof (rdo_a_resolve_spec _ _ _ _ _ W (P0 root) RS) as PO.
    apply rdo_a_new_ok; auto.
    + intros j Ej. apply rdo_a_map_get_in in Ej. destruct Ej as (y & Iy & Ey). apply rdo_a_chain_in in Iy. destruct Iy as (Iy & Py & Sy).
      exists y. split; auto. rewrite <- Ey. apply rdo_a_in_get; auto. apply W.
    + intros j Ej; discriminate.
    + intros k0 E0. inversion E0; subst. auto.
  - destruct (rdo_resolve (rdo_st t) (RdoRoot root) path) as [par|] eqn:RS; eauto.
    destruct (rdo_entry (rdo_st t) par k) eqn:EN; eauto.
    apply rdo_txn_delete_res_ok; auto. unfold rdo_entry in EN. destruct (rdo_map_get (rdo_st t) par k); try discriminate.
    destruct (rdo_get (rdo_st t) n) eqn:G; try discriminate. destruct (rdo_del r0); inversion EN; subst.
    destruct (rdo_a_get_in _ _ _ G). subst. eauto. Qed.

Lemma rdo_a_ops_apply_ok : forall ops t, rdo_a_wf (rdo_st t) (rdo_next t) ->
  exists t', rdo_ops_apply t ops = RdoOk t' /\ rdo_a_wf (rdo_st t') (rdo_next t').
Proof. induction ops; simpl; intros. eauto. destruct (rdo_a_op_apply_ok t a H) as (t1 & E & W1). rewrite E. simpl. auto. Qed.

(* ------------------------------------------------------------------------------------------ *)
(* the undo manager: rdo_after_txn, rdo_process, rdo_pop, rdo_act, rdo_run *)
Lemma rdo_a_set_keep_R : forall b x, rdo_a_R x (rdo_set_keep x b). Proof. unfold rdo_a_R; simpl; tauto. Qed.
Lemma rdo_a_keep_walk_deq : forall f st i b, rdo_a_deq st (rdo_keep_walk f st i b).
Proof. induction f; simpl; intros. apply rdo_a_deq_refl. destruct (rdo_get st i); [|apply rdo_a_deq_refl].
  destruct (Bool.eqb (rdo_keep r) b). apply rdo_a_deq_refl.
  assert (Q: rdo_a_deq st (rdo_update st i (fun y => rdo_set_keep y b))) by (apply rdo_a_deq_update; intros; apply rdo_a_set_keep_R).
  destruct (rdo_par r); auto. eapply rdo_a_deq_trans; eauto. Qed.
Lemma rdo_a_keep_all_deq : forall scope ids b st, rdo_a_deq st (rdo_keep_all st scope ids b).
Proof. unfold rdo_keep_all. induction ids; cbn [fold_left]; intros. apply rdo_a_deq_refl.
  eapply rdo_a_deq_trans; [|apply IHids]. destruct (rdo_in_scope st scope a). apply rdo_a_keep_walk_deq. apply rdo_a_deq_refl. Qed.
Lemma rdo_a_keep_rs_deq : forall scope rs st, rdo_a_deq st (fold_left (fun s0 e => rdo_keep_all s0 scope (rdo_sdel e) false) rs st).
Proof. induction rs; simpl; intros. apply rdo_a_deq_refl. eapply rdo_a_deq_trans; [|apply IHrs]. apply rdo_a_keep_all_deq. Qed.

Lemma rdo_a_after_txn_wf : forall s t mode, rdo_a_wf (rdo_st t) (rdo_next t) ->
  rdo_a_wf (rdo_doc (rdo_after_txn s t mode)) (rdo_clock (rdo_after_txn s t mode)).
Proof. intros. unfold rdo_after_txn. destruct (negb (existsb (rdo_in_scope (rdo_st t) (rdo_scope s)) (rdo_tins t ++ rdo_tdel t))). simpl; auto.
  destruct mode; simpl.
  - eapply rdo_a_wf_deq; eauto. eapply rdo_a_deq_trans. apply rdo_a_keep_rs_deq. apply rdo_a_keep_all_deq.
  - eapply rdo_a_wf_deq; eauto. apply rdo_a_keep_all_deq.
  - eapply rdo_a_wf_deq; eauto. apply rdo_a_keep_all_deq. Qed.

Lemma rdo_a_follow_in : forall fuel st i y, rdo_follow fuel st i = RdoOk (Some y) -> In y st.
Proof. induction fuel; simpl; intros. discriminate. destruct (rdo_get st i) eqn:G; try discriminate.
  destruct (rdo_red r). eauto. inversion H; subst. apply rdo_a_get_in in G. tauto. Qed.
Lemma rdo_a_ext_ids : forall a b i, rdo_a_ext a b -> In i (map rdo_id a) -> In i (map rdo_id b).
Proof. intros. destruct (rdo_a_get_ids _ _ H0) as (x & G). destruct (H _ _ G) as (y & Gy & _). eapply rdo_a_get_ids'; eauto. Qed.

Definition rdo_a_tdF (st : list rdo_item) (scope : list N) :=
  (fun (acc : rdo_res (option (list N))) (i : N) =>
                 rdo_let o := acc in
                 match o with
                 | None => RdoOk None
                 | Some l =>
                     match rdo_get st i with
                     | None => RdoOk (Some l)
                     | Some _ =>
                         rdo_let fo := rdo_follow (S (length st)) st i in
                         match fo with
                         | None => RdoOk None
                         | Some y => if negb (rdo_del y) && rdo_in_scope st scope (rdo_id y) then RdoOk (Some (l ++ [rdo_id y])) else RdoOk (Some l)
                         end
                     end
                 end).
Definition rdo_a_redoG (ri sins : list N) (s1 s2 : list rdo_sitem) :=
  (fun (acc : rdo_res (rdo_txn * bool)) (i : N) => rdo_let (t, c) := acc in
                                rdo_let (t', o) := rdo_redo (S (length (rdo_st t))) t i ri sins s1 s2 in
                                RdoOk (t', c || rdo_is_some o)).
Definition rdo_a_delH := (fun (acc : rdo_res rdo_txn) (i : N) => rdo_let t := acc in rdo_txn_delete t i).
Definition rdo_a_process' (s : rdo_state) (e : rdo_sitem) (s1 s2 : list rdo_sitem) : rdo_res (rdo_txn * bool) :=
  let t0 := rdo_begin s in
  let st := rdo_st t0 in
  let scope := rdo_scope s in
  rdo_let td := fold_left (rdo_a_tdF st scope) (rdo_sins e) (RdoOk (Some [])) in
  match td with
  | None => RdoOk (t0, false)
  | Some to_delete =>
      let to_redo := filter (fun i => rdo_is_some (rdo_get st i) && rdo_in_scope st scope i && negb (rdo_mem i (rdo_sins e))) (rdo_sdel e) in
      rdo_let (t1, c1) := fold_left (rdo_a_redoG to_redo (rdo_sins e) s1 s2) to_redo (RdoOk (t0, false)) in
      rdo_let t2 := fold_left rdo_a_delH (rev to_delete) (RdoOk t1) in
      RdoOk (t2, c1 || rdo_is_some (hd_error to_delete))
  end.
Lemma rdo_a_process_eq : forall s e s1 s2, rdo_process s e s1 s2 = rdo_a_process' s e s1 s2.
Proof. reflexivity. Qed.

Definition rdo_a_tdinv (st : list rdo_item) (o : option (list N)) := forall tdl, o = Some tdl -> forall j, In j tdl -> In j (map rdo_id st).
Lemma rdo_a_td_fold : forall st n scope, rdo_a_wf st n -> forall l o0, rdo_a_tdinv st o0 ->
  exists o, fold_left (rdo_a_tdF st scope) l (RdoOk o0) = RdoOk o /\ rdo_a_tdinv st o.
Proof. intros st n scope W. induction l; intros o0 I0. simpl; eauto.
  assert (exists o1, rdo_a_tdF st scope (RdoOk o0) a = RdoOk o1 /\ rdo_a_tdinv st o1) as (o1 & E1 & I1).
  { unfold rdo_a_tdF. cbn [rdo_bind]. destruct o0 as [l0|]; eauto. destruct (rdo_get st a) eqn:G; eauto.
    destruct (rdo_red_acyclic _ _ W _ _ G) as (y & E & _). rewrite E. cbn [rdo_bind].
    destruct (negb (rdo_del y) && rdo_in_scope st scope (rdo_id y)); eauto.
    eexists; split; [reflexivity|]. intros tdl Et j Ij. inversion Et; subst. apply in_app_or in Ij. destruct Ij. eapply I0; eauto.
    simpl in H. destruct H; try tauto. subst. apply in_map. eapply rdo_a_follow_in; eauto. }
  cbn [fold_left]. rewrite E1. apply IHl; auto. Qed.

Lemma rdo_a_redo_fold : forall ri sins s1 s2 l t c, rdo_a_wf (rdo_st t) (rdo_next t) -> (forall i, In i l -> In i (map rdo_id (rdo_st t))) ->
  exists t' c', fold_left (rdo_a_redoG ri sins s1 s2) l (RdoOk (t, c)) = RdoOk (t', c') /\ rdo_a_wf (rdo_st t') (rdo_next t') /\
                rdo_a_ext (rdo_st t) (rdo_st t').
Proof. induction l; intros t c W IL. simpl. exists t, c. split; auto. split; auto. apply rdo_a_ext_refl.
  destruct (rdo_a_get_ids _ _ (IL a (or_introl eq_refl))) as (x & G).
  destruct (rdo_a_redo_full (S (length (rdo_st t))) t a ri sins s1 s2 x W G) as (t1 & o & E & W1 & X1 & _).
  { pose proof (rdo_a_le_le (map rdo_id (rdo_st t)) a). rewrite map_length in H. lia. }
  assert (E1: rdo_a_redoG ri sins s1 s2 (RdoOk (t, c)) a = RdoOk (t1, c || rdo_is_some o)).
  { unfold rdo_a_redoG. cbn [rdo_bind]. rewrite E. reflexivity. }
  cbn [fold_left]. rewrite E1. destruct (IHl t1 (c || rdo_is_some o) W1) as (t' & c' & E' & W' & X').
  { intros i Ii. eapply rdo_a_ext_ids; eauto. apply IL; simpl; auto. }
  exists t', c'. split; auto. split; auto. eapply rdo_a_ext_trans; eauto. Qed.

Lemma rdo_a_del_fold : forall l t, rdo_a_wf (rdo_st t) (rdo_next t) -> (forall i, In i l -> In i (map rdo_id (rdo_st t))) ->
  exists t', fold_left rdo_a_delH l (RdoOk t) = RdoOk t' /\ rdo_a_wf (rdo_st t') (rdo_next t').
Proof. induction l; intros t W IL. simpl; eauto.
  destruct (rdo_a_txn_delete_ok t a) as (t1 & E & Q & X). eapply rdo_a_wf_parlt; eauto. apply IL; simpl; auto.
  assert (E1: rdo_a_delH (RdoOk t) a = RdoOk t1) by (unfold rdo_a_delH; cbn [rdo_bind]; auto).
  cbn [fold_left]. rewrite E1. apply IHl. rewrite X. eapply rdo_a_wf_deq; eauto.
  intros i Ii. rewrite (rdo_a_deq_ids _ _ Q). apply IL; simpl; auto. Qed.

Lemma rdo_a_process_ok : forall s e s1 s2, rdo_a_wf (rdo_doc s) (rdo_clock s) ->
  exists t c, rdo_process s e s1 s2 = RdoOk (t, c) /\ rdo_a_wf (rdo_st t) (rdo_next t).
Proof. intros s e s1 s2 W. rewrite rdo_a_process_eq. unfold rdo_a_process'. cbv zeta.
  assert (W0: rdo_a_wf (rdo_st (rdo_begin s)) (rdo_next (rdo_begin s))) by (simpl; auto).
  destruct (rdo_a_td_fold _ _ (rdo_scope s) W0 (rdo_sins e) (Some [])) as (td & E & I).
  { intros tdl Et j Ij. inversion Et; subst. destruct Ij. }
  rewrite E. cbn [rdo_bind]. destruct td as [to_delete|]; eauto.
  match goal with |- context[fold_left (rdo_a_redoG ?RI _ _ _) _ _] => set (to_redo := RI) end.
  destruct (rdo_a_redo_fold to_redo (rdo_sins e) s1 s2 to_redo (rdo_begin s) false W0) as (t1 & c1 & E1 & W1 & X1).
  { intros i Ii. unfold to_redo in Ii. apply filter_In in Ii. destruct Ii as (_ & Ii). apply andb_true_iff in Ii. destruct Ii as (Ii & _).
    apply andb_true_iff in Ii. destruct Ii as (Ii & _). destruct (rdo_get (rdo_st (rdo_begin s)) i) eqn:G; try discriminate.
    eapply rdo_a_get_ids'; eauto. }
  rewrite E1. cbn [rdo_bind].
  destruct (rdo_a_del_fold (rev to_delete) t1 W1) as (t2 & E2 & W2).
  { intros i Ii. apply in_rev in Ii. eapply rdo_a_ext_ids; [exact X1|]. eapply I; eauto. }
  rewrite E2. cbn [rdo_bind]. eauto. Qed.

Lemma rdo_a_pop_ok : forall fuel s undoing, rdo_a_wf (rdo_doc s) (rdo_clock s) ->
  exists s' b, rdo_pop fuel s undoing = RdoOk (s', b) /\ rdo_a_wf (rdo_doc s') (rdo_clock s').
Proof. induction fuel; intros s undoing W. simpl; eauto.
  cbn [rdo_pop]. destruct undoing.
  - destruct (rdo_us s) as [|e rest]; eauto.
    match goal with |- context[rdo_process ?S0 ?E ?A ?B] => destruct (rdo_a_process_ok S0 E A B) as (t & c & EP & WP) end. simpl; auto.
    rewrite EP. cbn [rdo_bind]. destruct c. eexists; eexists; split; [reflexivity|]. apply rdo_a_after_txn_wf; auto.
    apply IHfuel. apply rdo_a_after_txn_wf; auto.
  - destruct (rdo_rs s) as [|e rest]; eauto.
    match goal with |- context[rdo_process ?S0 ?E ?A ?B] => destruct (rdo_a_process_ok S0 E A B) as (t & c & EP & WP) end. simpl; auto.
    rewrite EP. cbn [rdo_bind]. destruct c. eexists; eexists; split; [reflexivity|]. apply rdo_a_after_txn_wf; auto.
    apply IHfuel. apply rdo_a_after_txn_wf; auto. Qed.

Lemma rdo_a_txns_ok : forall txns s, rdo_a_wf (rdo_doc s) (rdo_clock s) ->
  exists s', fold_left (fun acc ops => rdo_let s1 := acc in rdo_tracked_txn s1 ops) txns (RdoOk s) = RdoOk s' /\ rdo_a_wf (rdo_doc s') (rdo_clock s').
Proof. induction txns; intros s W. simpl; eauto. cbn [fold_left rdo_bind]. unfold rdo_tracked_txn at 2.
  destruct (rdo_a_ops_apply_ok a (rdo_begin s)) as (t & E & Wt). simpl; auto. rewrite E. cbn [rdo_bind].
  apply IHtxns. apply rdo_a_after_txn_wf; auto. Qed.

Lemma rdo_a_act_ok : forall s a, rdo_a_wf (rdo_doc s) (rdo_clock s) ->
  exists s', rdo_act s a = RdoOk s' /\ rdo_a_wf (rdo_doc s') (rdo_clock s').
Proof. intros s a W. destruct a; cbn [rdo_act].
  - apply rdo_a_txns_ok. simpl; auto.
  - destruct (rdo_a_ops_apply_ok ops (rdo_begin s)) as (t & E & Wt). simpl; auto. rewrite E. cbn [rdo_bind]. eexists; split; [reflexivity|]. simpl; auto.
  - unfold rdo_undo. destruct (rdo_a_pop_ok (S (length (rdo_us s))) s true W) as (s' & b & E & W'). rewrite E. cbn [rdo_bind]. eauto.
  - unfold rdo_redo_call. destruct (rdo_a_pop_ok (S (length (rdo_rs s))) s false W) as (s' & b & E & W'). rewrite E. cbn [rdo_bind]. eauto. Qed.

Lemma rdo_a_run_ok : forall p s, rdo_a_wf (rdo_doc s) (rdo_clock s) ->
  exists s', rdo_run s p = RdoOk s' /\ rdo_a_wf (rdo_doc s') (rdo_clock s').
Proof. induction p; intros s W. simpl; eauto. cbn [rdo_run]. destruct (rdo_a_act_ok s a W) as (s1 & E & W1). rewrite E. cbn [rdo_bind]. auto. Qed.

Lemma rdo_a_wf_nil : rdo_a_wf [] 0.
Proof. constructor; simpl; intros; try tauto. constructor. constructor. Qed.

Theorem rdo_run_res_ok : forall scope p, exists s, rdo_run (rdo_state0 scope) p = RdoOk s.
Proof. intros. destruct (rdo_a_run_ok p (rdo_state0 scope)) as (s & E & _). simpl. apply rdo_a_wf_nil. eauto. Qed.
Print Assumptions rdo_run_res_ok.

Theorem rdo_a_wf_reachable : forall scope p s, rdo_run (rdo_state0 scope) p = RdoOk s -> rdo_a_wf (rdo_doc s) (rdo_clock s).
Proof. intros. destruct (rdo_a_run_ok p (rdo_state0 scope)) as (s' & E & W). simpl. apply rdo_a_wf_nil. congruence. Qed.
Print Assumptions rdo_a_wf_reachable.


(* ============================================================================================== *)
(* SECTION B *)
From Coq Require Import List NArith Bool Lia. Import ListNotations.  Open Scope N_scope.

(* RedoProofsB.v - what undo / redo must NOT change (theorems 3 and 4 for the nested model Redo.v).
   B1  rdo_items_persist, rdo_b_items_persist_run, rdo_foreign_order_kept        no hypothesis
       (rdo_b_ext: positional extension; ids, parent, key, content, origins fixed; tombstones and redone
        pointers never revert; new items are only linked in between)
   B2  rdo_untracked_untouched, rdo_b_untracked_wf_kept, rdo_untracked_render_same   hypothesis rdo_b_wf
       rdo_b_wf_reachable: rdo_b_wf holds in every state reached from rdo_state0, hence
       rdo_b_untracked_untouched_reachable, rdo_b_untracked_render_same_reachable   no hypothesis
   B3/B4 rdo_kill_set, rdo_b_kill_set_process, rdo_foreign_seq_survives_partial, rdo_foreign_seq_survives
       rdo_b_kill_map_example: case (c) of the kill set deletes a map entry written by another origin.
   Method for B2 - B4: every operation of an undo / redo call is a sequence of three primitive changes
   (rdo_b_step1: update of an item in the scope that keeps id / parent / redone; redone := next clock on an item
   in the scope; link of a fresh item whose parent is in the scope), each of which keeps rdo_b_wf. *)

(* ============================================================================================== *)
(* B1: what an action must not change *)

Definition rdo_b_le (x x' : rdo_item) : Prop :=
  rdo_id x' = rdo_id x /\ rdo_par x' = rdo_par x /\ rdo_sub x' = rdo_sub x /\ rdo_cnt x' = rdo_cnt x /\
  rdo_org x' = rdo_org x /\ rdo_rorg x' = rdo_rorg x /\
  (rdo_del x = true -> rdo_del x' = true) /\
  (forall r, rdo_red x = Some r -> rdo_red x' = Some r).

Inductive rdo_b_ext : list rdo_item -> list rdo_item -> Prop :=
| rdo_b_ext_nil : rdo_b_ext [] []
| rdo_b_ext_skip x' l l' : rdo_b_ext l l' -> rdo_b_ext l (x' :: l')
| rdo_b_ext_match x x' l l' : rdo_b_le x x' -> rdo_b_ext l l' -> rdo_b_ext (x :: l) (x' :: l').

Lemma rdo_b_le_refl x : rdo_b_le x x.
Proof. unfold rdo_b_le; intuition. Qed.

Lemma rdo_b_le_trans x y z : rdo_b_le x y -> rdo_b_le y z -> rdo_b_le x z.
Proof.
  unfold rdo_b_le; intros (a1&a2&a3&a4&a5&a6&a7&a8) (b1&b2&b3&b4&b5&b6&b7&b8).
  repeat (split; [congruence|]). split; auto.
Qed.

Lemma rdo_b_ext_refl l : rdo_b_ext l l.
Proof. induction l. constructor. apply rdo_b_ext_match; auto using rdo_b_le_refl. Qed.

Lemma rdo_b_ext_trans b c : rdo_b_ext b c -> forall a, rdo_b_ext a b -> rdo_b_ext a c.
Proof.
  induction 1; intros a Ha.
  - exact Ha.
  - apply rdo_b_ext_skip; auto.
  - inversion Ha; subst.
    + apply rdo_b_ext_skip; auto.
    + apply rdo_b_ext_match; eauto using rdo_b_le_trans.
Qed.

Lemma rdo_b_ext_update st i f :
  (forall y, rdo_get st i = Some y -> rdo_b_le y (f y)) -> rdo_b_ext st (rdo_update st i f).
Proof.
  induction st; simpl; intros H. constructor.
  destruct (rdo_id a =? i).
  - apply rdo_b_ext_match; auto using rdo_b_ext_refl.
  - apply rdo_b_ext_match; auto using rdo_b_le_refl.
Qed.

Lemma rdo_b_ext_insert_after st l x : rdo_b_ext st (rdo_insert_after st l x).
Proof.
  induction st; simpl. apply rdo_b_ext_skip; constructor.
  destruct (rdo_id a =? l).
  - apply rdo_b_ext_match. apply rdo_b_le_refl. apply rdo_b_ext_skip. apply rdo_b_ext_refl.
  - apply rdo_b_ext_match; auto using rdo_b_le_refl.
Qed.

Lemma rdo_b_ext_link st l x : rdo_b_ext st (rdo_link st l x).
Proof. destruct l; simpl. apply rdo_b_ext_insert_after. apply rdo_b_ext_skip; apply rdo_b_ext_refl. Qed.

(* --- which `redone` fields may change: only those of the ids in S, and only from None *)
Definition rdo_b_rfr (S : N -> Prop) (st st' : list rdo_item) : Prop :=
  forall j x', ~ S j -> rdo_get st' j = Some x' ->
    rdo_red x' = None \/ exists x, rdo_get st j = Some x /\ rdo_red x = rdo_red x'.

Definition rdo_b_good (S : N -> Prop) (st st' : list rdo_item) : Prop :=
  rdo_b_ext st st' /\ rdo_b_rfr S st st'.

Lemma rdo_b_good_refl S st : rdo_b_good S st st.
Proof. split. apply rdo_b_ext_refl. intros j x' _ H; right; eauto. Qed.

Lemma rdo_b_good_trans S a b c : rdo_b_good S a b -> rdo_b_good S b c -> rdo_b_good S a c.
Proof.
  intros [E1 F1] [E2 F2]; split. eapply rdo_b_ext_trans; eauto.
  intros j x'' Hj H. destruct (F2 j x'' Hj H) as [|[x' [G' R']]]; auto.
  destruct (F1 j x' Hj G') as [|[x [G R]]]. left; congruence. right; exists x; split; congruence.
Qed.

Lemma rdo_b_good_mono (S S' : N -> Prop) a b : (forall j, S j -> S' j) -> rdo_b_good S a b -> rdo_b_good S' a b.
Proof. intros HS [E F]; split; auto. intros j x' Hj; apply F; auto. Qed.

Lemma rdo_b_get_update st i f j :
  (forall y, rdo_id (f y) = rdo_id y) ->
  rdo_get (rdo_update st i f) j = if j =? i then option_map f (rdo_get st j) else rdo_get st j.
Proof.
  intros Hf. induction st; simpl.
  - destruct (j =? i); reflexivity.
  - destruct (N.eqb_spec (rdo_id a) i); simpl.
    + rewrite Hf. destruct (N.eqb_spec (rdo_id a) j); destruct (N.eqb_spec j i); subst; simpl; congruence.
    + rewrite IHst. destruct (N.eqb_spec (rdo_id a) j); destruct (N.eqb_spec j i); subst; simpl; congruence.
Qed.

Lemma rdo_b_good_update S st i f :
  (forall y, rdo_id (f y) = rdo_id y) -> (forall y, rdo_red (f y) = rdo_red y) -> (forall y, rdo_b_le y (f y)) ->
  rdo_b_good S st (rdo_update st i f).
Proof.
  intros H1 H2 H3; split. apply rdo_b_ext_update; auto.
  intros j x' _ G. rewrite rdo_b_get_update in G by auto. right.
  destruct (j =? i); eauto. destruct (rdo_get st j); simpl in G; inversion G; subst. eexists; split; eauto.
Qed.

Lemma rdo_b_good_setred (S : N -> Prop) st i n :
  S i -> (forall y, rdo_get st i = Some y -> rdo_red y = None) ->
  rdo_b_good S st (rdo_update st i (fun y => rdo_set_red y n)).
Proof.
  intros HS HN; split.
  - apply rdo_b_ext_update. intros y Hy. unfold rdo_b_le; simpl. repeat (split; auto).
    intros r Hr. rewrite (HN y Hy) in Hr; discriminate.
  - intros j x' Hj G. rewrite rdo_b_get_update in G by reflexivity.
    destruct (N.eqb_spec j i). subst; contradiction. right; eauto.
Qed.

Lemma rdo_b_get_insert_after st l x j z :
  rdo_get (rdo_insert_after st l x) j = Some z -> z = x \/ rdo_get st j = Some z.
Proof.
  induction st; simpl.
  - destruct (rdo_id x =? j); intros H; inversion H; auto.
  - destruct (rdo_id a =? l); simpl; destruct (rdo_id a =? j); auto.
    destruct (rdo_id x =? j); intros H; auto. inversion H; auto.
Qed.

Lemma rdo_b_good_link S st l x : rdo_red x = None -> rdo_b_good S st (rdo_link st l x).
Proof.
  intros Hx; split. apply rdo_b_ext_link.
  intros j x' _ G.
  assert (x' = x \/ rdo_get st j = Some x') as [->|H].
  { destruct l; simpl in G. eapply rdo_b_get_insert_after; eauto.
    destruct (rdo_id x =? j); auto. inversion G; auto. }
  auto. right; eauto.
Qed.

(* --- folds over results *)
Lemma rdo_b_fold_err {A B} (F : rdo_res A -> B -> rdo_res A) :
  (forall e b, F (RdoErr e) b = RdoErr e) -> forall l e, fold_left F l (RdoErr e) = RdoErr e.
Proof. intros H; induction l; simpl; intros; auto. rewrite H; auto. Qed.

Lemma rdo_b_fold_inv {A B} (F : rdo_res A -> B -> rdo_res A) (R : A -> A -> Prop) :
  (forall a, R a a) -> (forall a b c, R a b -> R b c -> R a c) ->
  (forall e b, F (RdoErr e) b = RdoErr e) ->
  (forall a b a', F (RdoOk a) b = RdoOk a' -> R a a') ->
  forall l a a', fold_left F l (RdoOk a) = RdoOk a' -> R a a'.
Proof.
  intros Hr Ht He Hs; induction l; simpl; intros a0 a' H.
  - inversion H; auto.
  - destruct (F (RdoOk a0) a) eqn:E.
    + eapply Ht; [eapply Hs; eauto | apply IHl; auto].
    + rewrite rdo_b_fold_err in H by auto. discriminate.
Qed.

Lemma rdo_b_fold_plain {A B} (F : A -> B -> A) (R : A -> A -> Prop) :
  (forall a, R a a) -> (forall a b c, R a b -> R b c -> R a c) ->
  (forall a b, R a (F a b)) -> forall l a, R a (fold_left F l a).
Proof. intros Hr Ht Hs; induction l; simpl; intros; auto. eapply Ht; [apply Hs | apply IHl]. Qed.

Ltac rdo_b_bind H :=
  match type of H with
  | rdo_bind ?X _ = _ => let E := fresh "E" in destruct X eqn:E; [|discriminate H]; cbn [rdo_bind] in H
  end.

(* --- delete *)
Lemma rdo_b_set_del_le y : rdo_b_le y (rdo_set_del y).
Proof. unfold rdo_b_le; simpl; intuition. Qed.
Lemma rdo_b_set_keep_le y b : rdo_b_le y (rdo_set_keep y b).
Proof. unfold rdo_b_le; simpl; intuition. Qed.

Lemma rdo_b_delete_good S f : forall st i st' d, rdo_delete f st i = RdoOk (st', d) -> rdo_b_good S st st'.
Proof.
  induction f; intros st i st' d H; simpl in H. discriminate.
  destruct (rdo_get st i) eqn:G; [|discriminate].
  destruct (rdo_del r). inversion H; subst; apply rdo_b_good_refl.
  assert (G1 : rdo_b_good S st (rdo_update st i rdo_set_del)).
  { apply rdo_b_good_update; auto using rdo_b_set_del_le. }
  destruct (rdo_cnt r). inversion H; subst; exact G1.
  eapply rdo_b_good_trans; [exact G1|].
  apply (rdo_b_fold_inv _ (fun a a' => rdo_b_good S (fst a) (fst a'))) in H; auto.
  - intros; apply rdo_b_good_refl.
  - intros; eapply rdo_b_good_trans; eauto.
  - intros [s0 d0] j [s1 d1] HF. simpl in HF.
    destruct (rdo_delete f s0 j) as [[s2 d2]|] eqn:E; simpl in HF; inversion HF; subst. simpl. eauto.
Qed.

Lemma rdo_b_txn_delete_good S t i t' : rdo_txn_delete t i = RdoOk t' -> rdo_b_good S (rdo_st t) (rdo_st t').
Proof.
  unfold rdo_txn_delete. intros H.
  destruct (rdo_delete _ _ _) as [[s d]|] eqn:E; simpl in H; inversion H; subst; simpl.
  eapply rdo_b_delete_good; eauto.
Qed.

(* --- integrate *)
Lemma rdo_b_integrate_good S t x l r t' :
  rdo_integrate t x l r = RdoOk t' -> rdo_red x = None -> rdo_b_good S (rdo_st t) (rdo_st t').
Proof.
  intros H Hr. unfold rdo_integrate in H. cbv zeta in H.
  destruct (negb _); [discriminate|].
  remember (if rdo_detect_conflict (rdo_st t) l r then rdo_resolve_conflict (rdo_st t) x l r else l) as left'.
  rdo_b_bind H.
  assert (G2 : rdo_b_good S (rdo_st t) (rdo_st a)).
  { eapply rdo_b_good_trans; [apply (rdo_b_good_link S _ left' x Hr)|].
    destruct (rdo_right _ _). inversion E; subst; simpl; apply rdo_b_good_refl.
    destruct (rdo_sub x); [|inversion E; subst; simpl; apply rdo_b_good_refl].
    destruct left'; [|inversion E; subst; simpl; apply rdo_b_good_refl].
    apply (rdo_b_txn_delete_good S) in E. exact E. }
  destruct (_ || _).
  - eapply rdo_b_good_trans; [exact G2|]. eapply rdo_b_txn_delete_good; eauto.
  - inversion H; subst; exact G2.
Qed.

(* --- redo: the chain of parents the recursion walks up *)
Definition rdo_b_up (st : list rdo_item) (ri : list N) (i : N) : option N :=
  match rdo_get st i with
  | None => None
  | Some item =>
      match rdo_red item with
      | Some _ => None
      | None =>
          match rdo_par_item (rdo_par item) with
          | None => None
          | Some p =>
              match rdo_get st p with
              | None => None
              | Some pit =>
                  if rdo_del pit then
                    if rdo_is_some (rdo_red pit) then None
                    else if negb (rdo_mem p ri) then None else Some p
                  else None
              end
          end
      end
  end.

Inductive rdo_b_reach (st : list rdo_item) (ri : list N) : N -> N -> Prop :=
| rdo_b_reach_refl i : rdo_b_reach st ri i i
| rdo_b_reach_step i p j : rdo_b_up st ri i = Some p -> rdo_b_reach st ri p j -> rdo_b_reach st ri i j.

Inductive rdo_b_deep (st : list rdo_item) (ri : list N) : nat -> N -> Prop :=
| rdo_b_deep_O i : rdo_b_deep st ri O i
| rdo_b_deep_S n i p : rdo_b_up st ri i = Some p -> rdo_b_deep st ri n p -> rdo_b_deep st ri (S n) i.

Lemma rdo_b_reach_snoc st ri a b c :
  rdo_b_reach st ri a b -> rdo_b_up st ri b = Some c -> rdo_b_reach st ri a c.
Proof.
  induction 1; intros.
  - eapply rdo_b_reach_step; eauto. constructor.
  - eapply rdo_b_reach_step; eauto.
Qed.

Lemma rdo_b_cycle_deep st ri p i :
  rdo_b_reach st ri p i -> rdo_b_up st ri i = Some p -> forall n, rdo_b_deep st ri n p.
Proof.
  intros Hr Hup.
  assert (A : forall n j, rdo_b_reach st ri p j -> rdo_b_reach st ri j i -> rdo_b_deep st ri n j).
  { induction n; intros j H1 H2. constructor.
    inversion H2; subst.
    - econstructor; [exact Hup|]. apply IHn; [constructor | exact Hr].
    - econstructor; [eauto|]. apply IHn; auto. eapply rdo_b_reach_snoc; eauto. }
  intros n; apply A; auto. constructor.
Qed.

Lemma rdo_b_deep_err ri td s1 s2 f : forall t i,
  rdo_b_deep (rdo_st t) ri f i -> exists e, rdo_redo f t i ri td s1 s2 = RdoErr e.
Proof.
  induction f; intros t i H. simpl; eauto.
  inversion H; subst. destruct (IHf t p H2) as [e He].
  unfold rdo_b_up in H1.
  destruct (rdo_get (rdo_st t) i) as [item|] eqn:Gi; [|discriminate].
  destruct (rdo_red item) eqn:Ri; [discriminate|].
  destruct (rdo_par_item (rdo_par item)) as [p'|] eqn:Pi; [|discriminate].
  destruct (rdo_get (rdo_st t) p') as [pit|] eqn:Gp; [|discriminate].
  destruct (rdo_del pit) eqn:Dp; [|discriminate].
  destruct (rdo_is_some (rdo_red pit)) eqn:Rp; [discriminate|].
  destruct (negb (rdo_mem p' ri)) eqn:Mp; [discriminate|].
  inversion H1; subst p'.
  simpl. rewrite Gi, Ri, Pi, Gp, Dp, Rp, Mp, He. simpl. eauto.
Qed.

Lemma rdo_b_redo_good ri td s1 s2 f : forall t i t' o,
  rdo_redo f t i ri td s1 s2 = RdoOk (t', o) ->
  rdo_b_good (rdo_b_reach (rdo_st t) ri i) (rdo_st t) (rdo_st t').
Proof.
  induction f; intros t i t' o H; [discriminate|]. simpl in H.
  destruct (rdo_get (rdo_st t) i) as [item|] eqn:Gi; [|discriminate].
  destruct (rdo_red item) eqn:Ri. inversion H; subst; apply rdo_b_good_refl.
  rdo_b_bind H. destruct a as [t1 opb].
  assert (A1 : rdo_b_good (rdo_b_reach (rdo_st t) ri i) (rdo_st t) (rdo_st t1) /\
               (forall y, rdo_get (rdo_st t1) i = Some y -> rdo_red y = None)).
  { assert (A0 : rdo_b_good (rdo_b_reach (rdo_st t) ri i) (rdo_st t) (rdo_st t) /\
                 (forall y, rdo_get (rdo_st t) i = Some y -> rdo_red y = None)).
    { split. apply rdo_b_good_refl. intros y Hy; rewrite Gi in Hy; inversion Hy; subst; auto. }
    destruct (rdo_par_item (rdo_par item)) as [p|] eqn:Pi; [|inversion E; subst; exact A0].
    destruct (rdo_get (rdo_st t) p) as [pit|] eqn:Gp; [|discriminate].
    destruct (rdo_del pit) eqn:Dp; [|inversion E; subst; exact A0].
    rdo_b_bind E. destruct a as [t0 go].
    assert (B : rdo_b_good (rdo_b_reach (rdo_st t) ri i) (rdo_st t) (rdo_st t0) /\
                (forall y, rdo_get (rdo_st t0) i = Some y -> rdo_red y = None)).
    { destruct (rdo_is_some (rdo_red pit)) eqn:Rp. inversion E0; subst; exact A0.
      destruct (negb (rdo_mem p ri)) eqn:Mp. inversion E0; subst; exact A0.
      destruct (rdo_redo f t p ri td s1 s2) as [[t0' o']|] eqn:Er; simpl in E0; inversion E0; subst.
      assert (Hup : rdo_b_up (rdo_st t) ri i = Some p).
      { unfold rdo_b_up. rewrite Gi, Ri, Pi, Gp, Dp, Rp, Mp. reflexivity. }
      pose proof (IHf _ _ _ _ Er) as IH. split.
      - eapply rdo_b_good_mono; [|exact IH]. intros j Hj. eapply rdo_b_reach_step; eauto.
      - intros y Hy. destruct IH as [_ Hfr].
        destruct (Hfr i y) as [|[x [Gx Rx]]]; auto.
        + intro Hr. destruct (rdo_b_deep_err ri td s1 s2 f t p (rdo_b_cycle_deep _ _ _ _ Hr Hup f)) as [e He].
          rewrite He in Er; discriminate.
        + rewrite Gi in Gx; inversion Gx; subst. congruence. }
    destruct (negb go). inversion E; subst; exact B.
    destruct (rdo_get (rdo_st t0) p); [|discriminate].
    rdo_b_bind E. inversion E; subst; exact B. }
  destruct A1 as [A1 A2].
  destruct opb as [pb|]; [|inversion H; subst; exact A1].
  rdo_b_bind H. rdo_b_bind H.
  destruct a0 as [[l r]|]; [|inversion H; subst; exact A1].
  rdo_b_bind H. inversion H; subst.
  eapply rdo_b_good_trans; [exact A1|].
  eapply rdo_b_good_trans; [apply rdo_b_good_setred; [constructor | exact A2]|].
  apply (rdo_b_integrate_good _ _ _ _ _ _ E2). reflexivity.
Qed.

Lemma rdo_b_redo_ext ri td s1 s2 f t i t' o :
  rdo_redo f t i ri td s1 s2 = RdoOk (t', o) -> rdo_b_ext (rdo_st t) (rdo_st t').
Proof. intros H; apply rdo_b_redo_good in H; apply H. Qed.

Lemma rdo_b_txn_delete_ext t i t' : rdo_txn_delete t i = RdoOk t' -> rdo_b_ext (rdo_st t) (rdo_st t').
Proof. intros H; apply (rdo_b_txn_delete_good (fun _ => False)) in H; apply H. Qed.

Lemma rdo_b_integrate_ext t x l r t' :
  rdo_integrate t x l r = RdoOk t' -> rdo_red x = None -> rdo_b_ext (rdo_st t) (rdo_st t').
Proof. intros H Hr; apply (rdo_b_integrate_good (fun _ => False)) in H; auto; apply H. Qed.

Lemma rdo_b_ext_trans' a b c : rdo_b_ext a b -> rdo_b_ext b c -> rdo_b_ext a c.
Proof. intros; eapply rdo_b_ext_trans; eauto. Qed.

(* --- keep *)
Lemma rdo_b_keep_walk_ext f : forall st i b, rdo_b_ext st (rdo_keep_walk f st i b).
Proof.
  induction f; intros; simpl. apply rdo_b_ext_refl.
  destruct (rdo_get st i) eqn:G; [|apply rdo_b_ext_refl].
  destruct (Bool.eqb _ _). apply rdo_b_ext_refl.
  assert (rdo_b_ext st (rdo_update st i (fun y => rdo_set_keep y b))).
  { apply rdo_b_ext_update; intros; apply rdo_b_set_keep_le. }
  destruct (rdo_par r); auto. eapply rdo_b_ext_trans'; eauto.
Qed.

Lemma rdo_b_keep_all_ext st scope ids b : rdo_b_ext st (rdo_keep_all st scope ids b).
Proof.
  unfold rdo_keep_all. apply (rdo_b_fold_plain _ rdo_b_ext).
  apply rdo_b_ext_refl. apply rdo_b_ext_trans'.
  intros s i. destruct (rdo_in_scope s scope i). apply rdo_b_keep_walk_ext. apply rdo_b_ext_refl.
Qed.

Lemma rdo_b_after_txn_ext s t mode : rdo_b_ext (rdo_st t) (rdo_doc (rdo_after_txn s t mode)).
Proof.
  unfold rdo_after_txn. destruct (negb _); simpl. apply rdo_b_ext_refl.
  destruct mode; simpl; try apply rdo_b_keep_all_ext.
  eapply rdo_b_ext_trans'; [|apply rdo_b_keep_all_ext].
  apply (rdo_b_fold_plain _ rdo_b_ext). apply rdo_b_ext_refl. apply rdo_b_ext_trans'.
  intros; apply rdo_b_keep_all_ext.
Qed.

(* --- try_process, pop *)
Lemma rdo_b_process_ext s e s1 s2 t c : rdo_process s e s1 s2 = RdoOk (t, c) -> rdo_b_ext (rdo_doc s) (rdo_st t).
Proof.
  unfold rdo_process. intros H. rdo_b_bind H.
  destruct a as [to_delete|]; [|inversion H; subst; simpl; apply rdo_b_ext_refl].
  rdo_b_bind H. destruct a as [t1 c1]. rdo_b_bind H. inversion H; subst.
  apply (rdo_b_fold_inv _ (fun a a' => rdo_b_ext (rdo_st (fst a)) (rdo_st (fst a')))) in E0.
  apply (rdo_b_fold_inv _ (fun a a' => rdo_b_ext (rdo_st a) (rdo_st a'))) in E1.
  - simpl in E0. eapply rdo_b_ext_trans'; eauto.
  - intros; apply rdo_b_ext_refl.
  - intros; eapply rdo_b_ext_trans'; eauto.
  - reflexivity.
  - intros a0 b a' HF. simpl in HF. eapply rdo_b_txn_delete_ext; eauto.
  - intros; apply rdo_b_ext_refl.
  - intros; eapply rdo_b_ext_trans'; eauto.
  - reflexivity.
  - intros [a0 c0] b [a' c'] HF. cbn [rdo_bind] in HF.
    destruct (rdo_redo _ _ _ _ _ _ _) as [[t' o]|] eqn:Er; cbn [rdo_bind] in HF; inversion HF; subst. cbn [fst].
    eapply rdo_b_redo_ext; eauto.
Qed.

Lemma rdo_b_pop_ext f : forall s u s' b, rdo_pop f s u = RdoOk (s', b) -> rdo_b_ext (rdo_doc s) (rdo_doc s').
Proof.
  induction f; intros s u s' b H; simpl in H. inversion H; subst; apply rdo_b_ext_refl.
  destruct (if u then rdo_us s else rdo_rs s) as [|e rest] eqn:Es. inversion H; subst; apply rdo_b_ext_refl.
  rdo_b_bind H. destruct a as [t changed].
  apply rdo_b_process_ext in E.
  assert (E' : rdo_b_ext (rdo_doc s) (rdo_st t)) by (destruct u; exact E).
  destruct changed.
  - inversion H; subst. eapply rdo_b_ext_trans'; [exact E'|]. apply rdo_b_after_txn_ext.
  - apply IHf in H. eapply rdo_b_ext_trans'; [exact E'|]. eapply rdo_b_ext_trans'; [|exact H]. apply rdo_b_after_txn_ext.
Qed.

(* --- the calls of the user *)
Lemma rdo_b_op_apply_ext t o t' : rdo_op_apply t o = RdoOk t' -> rdo_b_ext (rdo_st t) (rdo_st t').
Proof.
  unfold rdo_op_apply. intros H. destruct o.
  - destruct (rdo_resolve _ _ _); [|inversion H; subst; apply rdo_b_ext_refl].
    destruct (rdo_ins_point _ _ _) as [l0 r0]. apply rdo_b_integrate_ext in H; auto.
  - destruct (rdo_resolve _ _ _); [|inversion H; subst; apply rdo_b_ext_refl].
    destruct (nth_error _ _); [|inversion H; subst; apply rdo_b_ext_refl].
    eapply rdo_b_txn_delete_ext; eauto.
  - destruct (rdo_resolve _ _ _); [|inversion H; subst; apply rdo_b_ext_refl].
    apply rdo_b_integrate_ext in H; auto.
  - destruct (rdo_resolve _ _ _); [|inversion H; subst; apply rdo_b_ext_refl].
    destruct (rdo_entry _ _ _); [|inversion H; subst; apply rdo_b_ext_refl].
    eapply rdo_b_txn_delete_ext; eauto.
Qed.

Lemma rdo_b_ops_apply_ext ops : forall t t', rdo_ops_apply t ops = RdoOk t' -> rdo_b_ext (rdo_st t) (rdo_st t').
Proof.
  induction ops; simpl; intros t t' H. inversion H; subst; apply rdo_b_ext_refl.
  rdo_b_bind H. eapply rdo_b_ext_trans'; [eapply rdo_b_op_apply_ext; eauto | eauto].
Qed.

Lemma rdo_b_act_ext s a s' : rdo_act s a = RdoOk s' -> rdo_b_ext (rdo_doc s) (rdo_doc s').
Proof.
  destruct a; simpl; intros H.
  - change (rdo_doc s) with (rdo_doc (rdo_reset s)).
    apply (rdo_b_fold_inv _ (fun a a' => rdo_b_ext (rdo_doc a) (rdo_doc a'))) in H; auto.
    + intros; apply rdo_b_ext_refl.
    + intros; eapply rdo_b_ext_trans'; eauto.
    + intros a0 b a' HF. simpl in HF. unfold rdo_tracked_txn in HF. rdo_b_bind HF. inversion HF; subst.
      apply rdo_b_ops_apply_ext in E. simpl in E. eapply rdo_b_ext_trans'; [exact E|]. apply rdo_b_after_txn_ext.
  - rdo_b_bind H. inversion H; subst. apply rdo_b_ops_apply_ext in E. exact E.
  - rdo_b_bind H. destruct a as [s1 b]. inversion H; subst. eapply rdo_b_pop_ext; eauto.
  - rdo_b_bind H. destruct a as [s1 b]. inversion H; subst. eapply rdo_b_pop_ext; eauto.
Qed.

Lemma rdo_b_run_ext p : forall s s', rdo_run s p = RdoOk s' -> rdo_b_ext (rdo_doc s) (rdo_doc s').
Proof.
  induction p; simpl; intros s s' H. inversion H; subst; apply rdo_b_ext_refl.
  rdo_b_bind H. eapply rdo_b_ext_trans'; [eapply rdo_b_act_ext; eauto | eauto].
Qed.

(* --- the readable consequences *)
Inductive rdo_b_subseq : list N -> list N -> Prop :=
| rdo_b_subseq_nil : rdo_b_subseq [] []
| rdo_b_subseq_skip y l l' : rdo_b_subseq l l' -> rdo_b_subseq l (y :: l')
| rdo_b_subseq_keep y l l' : rdo_b_subseq l l' -> rdo_b_subseq (y :: l) (y :: l').

Lemma rdo_b_ext_subseq l l' : rdo_b_ext l l' -> rdo_b_subseq (map rdo_id l) (map rdo_id l').
Proof.
  induction 1; simpl. constructor. apply rdo_b_subseq_skip; auto.
  destruct H as [-> _]. apply rdo_b_subseq_keep; auto.
Qed.

Lemma rdo_b_ext_in l l' : rdo_b_ext l l' -> forall x, In x l -> exists x', In x' l' /\ rdo_b_le x x'.
Proof.
  induction 1; simpl; intros z Hz. contradiction.
  destruct (IHrdo_b_ext z Hz) as [x1 [? ?]]; eauto.
  destruct Hz as [<-|Hz]. eauto. destruct (IHrdo_b_ext z Hz) as [x1 [? ?]]; eauto.
Qed.

Lemma rdo_b_subseq_trans b c : rdo_b_subseq b c -> forall a, rdo_b_subseq a b -> rdo_b_subseq a c.
Proof.
  induction 1; intros a Ha. exact Ha. apply rdo_b_subseq_skip; auto.
  inversion Ha; subst. apply rdo_b_subseq_skip; auto. apply rdo_b_subseq_keep; auto.
Qed.

(* theorem B1 *)
Theorem rdo_items_persist : forall s a s', rdo_act s a = RdoOk s' ->
  rdo_b_ext (rdo_doc s) (rdo_doc s') /\
  rdo_b_subseq (map rdo_id (rdo_doc s)) (map rdo_id (rdo_doc s')) /\
  (forall x, In x (rdo_doc s) -> exists x', In x' (rdo_doc s') /\
     rdo_id x' = rdo_id x /\ rdo_par x' = rdo_par x /\ rdo_sub x' = rdo_sub x /\ rdo_cnt x' = rdo_cnt x /\
     rdo_org x' = rdo_org x /\ rdo_rorg x' = rdo_rorg x /\
     (rdo_del x = true -> rdo_del x' = true) /\
     (forall r, rdo_red x = Some r -> rdo_red x' = Some r)).
Proof.
  intros s a s' H. apply rdo_b_act_ext in H. split; [exact H|]. split.
  apply rdo_b_ext_subseq; auto. intros x Hx. destruct (rdo_b_ext_in _ _ H x Hx) as [x' [? ?]]. exists x'; split; auto.
Qed.
Print Assumptions rdo_items_persist.

Theorem rdo_b_items_persist_run : forall p s s', rdo_run s p = RdoOk s' -> rdo_b_ext (rdo_doc s) (rdo_doc s').
Proof. intros; eapply rdo_b_run_ext; eauto. Qed.
Print Assumptions rdo_b_items_persist_run.

(* i occurs in front of j *)
Definition rdo_b_before (l : list N) (i j : N) : Prop := rdo_b_subseq [i; j] l.

Theorem rdo_foreign_order_kept : forall s s' b i j,
  (rdo_undo s = RdoOk (s', b) \/ rdo_redo_call s = RdoOk (s', b)) ->
  rdo_b_before (map rdo_id (rdo_doc s)) i j -> rdo_b_before (map rdo_id (rdo_doc s')) i j.
Proof.
  intros s s' b i j H Hb. unfold rdo_b_before in *.
  eapply rdo_b_subseq_trans; [|exact Hb]. apply rdo_b_ext_subseq.
  destruct H as [H|H]; eapply rdo_b_pop_ext; eauto.
Qed.
Print Assumptions rdo_foreign_order_kept.

(* ============================================================================================== *)
(* B2: an undo / redo call does not touch what lies outside the scope *)

(* "below a root of the scope", without fuel *)
Inductive rdo_b_insc (sc : list N) (st : list rdo_item) : N -> Prop :=
| rdo_b_insc_root i x n : rdo_get st i = Some x -> rdo_par x = RdoRoot n -> rdo_mem n sc = true -> rdo_b_insc sc st i
| rdo_b_insc_item i x p : rdo_get st i = Some x -> rdo_par x = RdoItem p -> rdo_b_insc sc st p -> rdo_b_insc sc st i.

Definition rdo_b_pscoped (sc : list N) (st : list rdo_item) (p : rdo_parent) : Prop :=
  match p with RdoRoot n => rdo_mem n sc = true | RdoItem q => rdo_b_insc sc st q end.

Lemma rdo_b_insc_pscoped sc st i x : rdo_get st i = Some x -> (rdo_b_insc sc st i <-> rdo_b_pscoped sc st (rdo_par x)).
Proof.
  intros G; split.
  - intros H; inversion H; subst; rewrite G in H0; inversion H0; subst; rewrite H1; simpl; auto.
  - destruct (rdo_par x) eqn:P; simpl; intros H.
    eapply rdo_b_insc_root; eauto. eapply rdo_b_insc_item; eauto.
Qed.

Lemma rdo_b_insc_get sc st i : rdo_b_insc sc st i -> rdo_get st i <> None.
Proof. intros H; inversion H; congruence. Qed.

Definition rdo_b_wf (sc : list N) (st : list rdo_item) (n : N) : Prop :=
  NoDup (map rdo_id st) /\
  (forall j x, rdo_get st j = Some x -> j < n) /\
  (forall j x p, rdo_get st j = Some x -> rdo_par x = RdoItem p -> p < j /\ rdo_get st p <> None) /\
  (forall j x r, rdo_get st j = Some x -> rdo_red x = Some r -> rdo_b_insc sc st j -> rdo_get st r <> None ->
                 rdo_b_insc sc st r).

Lemma rdo_b_get_in st i x : rdo_get st i = Some x -> In x st /\ rdo_id x = i.
Proof.
  induction st; simpl. discriminate.
  destruct (N.eqb_spec (rdo_id a) i); intros H. inversion H; subst; auto. destruct (IHst H); auto.
Qed.

Lemma rdo_b_in_get_some st x : In x st -> rdo_get st (rdo_id x) <> None.
Proof.
  induction st; simpl. contradiction.
  intros [->|H]. rewrite N.eqb_refl; discriminate.
  destruct (rdo_id a =? rdo_id x). discriminate. auto.
Qed.

Lemma rdo_b_in_get st x : NoDup (map rdo_id st) -> In x st -> rdo_get st (rdo_id x) = Some x.
Proof.
  induction st; simpl; intros ND H. contradiction.
  inversion ND; subst. destruct H as [->|H]. rewrite N.eqb_refl; auto.
  destruct (N.eqb_spec (rdo_id a) (rdo_id x)); auto.
  exfalso; apply H2. rewrite e. apply in_map; auto.
Qed.

Lemma rdo_b_get_none_notin st i : rdo_get st i = None -> ~ In i (map rdo_id st).
Proof.
  induction st; simpl; auto.
  destruct (N.eqb_spec (rdo_id a) i). discriminate. intros H [?|?]; auto. apply IHst; auto.
Qed.

(* parents are preserved *)
Definition rdo_b_gpres (st st' : list rdo_item) : Prop :=
  forall j y, rdo_get st j = Some y -> exists y', rdo_get st' j = Some y' /\ rdo_par y' = rdo_par y.

Lemma rdo_b_gpres_refl st : rdo_b_gpres st st.
Proof. intros j y H; eauto. Qed.
Lemma rdo_b_gpres_trans a b c : rdo_b_gpres a b -> rdo_b_gpres b c -> rdo_b_gpres a c.
Proof. intros H1 H2 j y G. destruct (H1 _ _ G) as [y' [G' P']]. destruct (H2 _ _ G') as [y'' [G'' P'']]. exists y''; split; congruence. Qed.

Lemma rdo_b_insc_fwd sc st st' j : rdo_b_gpres st st' -> rdo_b_insc sc st j -> rdo_b_insc sc st' j.
Proof.
  intros GP H; induction H.
  - destruct (GP _ _ H) as [y' [G' P']]. eapply rdo_b_insc_root; eauto. congruence.
  - destruct (GP _ _ H) as [y' [G' P']]. eapply rdo_b_insc_item; eauto. congruence.
Qed.

Lemma rdo_b_pscoped_fwd sc st st' p : rdo_b_gpres st st' -> rdo_b_pscoped sc st p -> rdo_b_pscoped sc st' p.
Proof. destruct p; simpl; auto. apply rdo_b_insc_fwd. Qed.

Lemma rdo_b_insc_bwd sc st st' n j :
  rdo_b_gpres st st' -> rdo_b_wf sc st n -> rdo_get st j <> None -> rdo_b_insc sc st' j -> rdo_b_insc sc st j.
Proof.
  intros GP (_&_&W3&_) Hj H; induction H.
  - destruct (rdo_get st i) as [y|] eqn:G; [|congruence]. destruct (GP _ _ G) as [y' [G' P']].
    rewrite H in G'; inversion G'; subst. eapply rdo_b_insc_root; eauto. congruence.
  - destruct (rdo_get st i) as [y|] eqn:G; [|congruence]. destruct (GP _ _ G) as [y' [G' P']].
    rewrite H in G'; inversion G'; subst. rewrite H0 in P'. destruct (W3 _ _ _ G (eq_sym P')) as [_ Hp].
    eapply rdo_b_insc_item; eauto.
Qed.

(* --- the three primitive changes *)
Definition rdo_b_fkeep (f : rdo_item -> rdo_item) : Prop :=
  forall y, rdo_id (f y) = rdo_id y /\ rdo_par (f y) = rdo_par y /\ rdo_red (f y) = rdo_red y.

Inductive rdo_b_step1 (sc : list N) : list rdo_item -> N -> list rdo_item -> N -> Prop :=
| rdo_b_step1_upd st n i f : rdo_b_insc sc st i -> rdo_b_fkeep f -> rdo_b_step1 sc st n (rdo_update st i f) n
| rdo_b_step1_red st n i : rdo_b_insc sc st i -> rdo_b_step1 sc st n (rdo_update st i (fun y => rdo_set_red y n)) (n + 1)
| rdo_b_step1_link st n l x :
    rdo_id x < n -> (forall j y, rdo_get st j = Some y -> j < rdo_id x) -> rdo_red x = None ->
    rdo_b_pscoped sc st (rdo_par x) -> rdo_b_step1 sc st n (rdo_link st l x) n.

Inductive rdo_b_steps (sc : list N) : list rdo_item -> N -> list rdo_item -> N -> Prop :=
| rdo_b_steps_refl st n : rdo_b_steps sc st n st n
| rdo_b_steps_cons st n st1 n1 st' n' :
    rdo_b_step1 sc st n st1 n1 -> rdo_b_steps sc st1 n1 st' n' -> rdo_b_steps sc st n st' n'.

Lemma rdo_b_steps_one sc st n st' n' : rdo_b_step1 sc st n st' n' -> rdo_b_steps sc st n st' n'.
Proof. intros; econstructor; eauto. constructor. Qed.

Lemma rdo_b_steps_trans sc st n st1 n1 st2 n2 :
  rdo_b_steps sc st n st1 n1 -> rdo_b_steps sc st1 n1 st2 n2 -> rdo_b_steps sc st n st2 n2.
Proof. induction 1; auto. intros; econstructor; eauto. Qed.

Lemma rdo_b_get_link st l x j :
  rdo_get st (rdo_id x) = None -> rdo_get (rdo_link st l x) j = if rdo_id x =? j then Some x else rdo_get st j.
Proof.
  destruct l as [l|]; simpl; auto.
  induction st; simpl; intros H. reflexivity.
  destruct (N.eqb_spec (rdo_id a) (rdo_id x)); [discriminate|].
  destruct (rdo_id a =? l); simpl.
  - destruct (N.eqb_spec (rdo_id a) j); destruct (N.eqb_spec (rdo_id x) j); auto; congruence.
  - rewrite IHst by auto. destruct (N.eqb_spec (rdo_id a) j); destruct (N.eqb_spec (rdo_id x) j); auto; congruence.
Qed.

Lemma rdo_b_fresh st x : (forall j y, rdo_get st j = Some y -> j < rdo_id x) -> rdo_get st (rdo_id x) = None.
Proof. intros H. destruct (rdo_get st (rdo_id x)) eqn:G; auto. apply H in G. lia. Qed.

Lemma rdo_b_step1_gpres sc st n st' n' : rdo_b_step1 sc st n st' n' -> rdo_b_gpres st st'.
Proof.
  intros H; inversion H; subst; intros j y G.
  - rewrite rdo_b_get_update by apply H1. destruct (j =? i). rewrite G; simpl. eexists; split; eauto. apply H1. eauto.
  - rewrite rdo_b_get_update by reflexivity. destruct (j =? i). rewrite G; simpl. eexists; split; eauto. eauto.
  - rewrite rdo_b_get_link by (apply rdo_b_fresh; auto).
    destruct (N.eqb_spec (rdo_id x) j). apply H1 in G. lia. eauto.
Qed.

Lemma rdo_b_steps_gpres sc st n st' n' : rdo_b_steps sc st n st' n' -> rdo_b_gpres st st'.
Proof.
  induction 1. apply rdo_b_gpres_refl.
  eapply rdo_b_gpres_trans; eauto. eapply rdo_b_step1_gpres; eauto.
Qed.

Lemma rdo_b_map_id_update st i f : (forall y, rdo_id (f y) = rdo_id y) -> map rdo_id (rdo_update st i f) = map rdo_id st.
Proof. intros Hf; induction st; simpl; auto. destruct (rdo_id a =? i); simpl; congruence. Qed.

Lemma rdo_b_nodup_link st l x : NoDup (map rdo_id st) -> ~ In (rdo_id x) (map rdo_id st) -> NoDup (map rdo_id (rdo_link st l x)).
Proof.
  destruct l as [l|]; simpl; [|intros; constructor; auto].
  induction st; simpl; intros ND NI. constructor; auto.
  inversion ND; subst.
  assert (IN : forall z, In z (map rdo_id (rdo_insert_after st l x)) -> z = rdo_id x \/ In z (map rdo_id st)).
  { clear. induction st; simpl. intros z [<-|[]]; auto.
    destruct (rdo_id a =? l); simpl. intros z [?|[?|?]]; auto.
    intros z [?|Hz]; auto. destruct (IHst _ Hz); auto. }
  destruct (rdo_id a =? l); simpl.
  - constructor. simpl; intuition. constructor; intuition.
  - constructor. intros Hc; apply IN in Hc; destruct Hc; intuition. apply IHst; intuition.
Qed.

Lemma rdo_b_get_update_none st i f j : (forall y, rdo_id (f y) = rdo_id y) ->
  (rdo_get (rdo_update st i f) j = None <-> rdo_get st j = None).
Proof. intros Hf; rewrite rdo_b_get_update by auto. destruct (j =? i); [|tauto]. destruct (rdo_get st j); simpl; split; congruence. Qed.

Lemma rdo_b_step1_wf sc st n st' n' : rdo_b_step1 sc st n st' n' -> rdo_b_wf sc st n -> rdo_b_wf sc st' n'.
Proof.
  intros H W. pose proof (rdo_b_step1_gpres _ _ _ _ _ H) as GP.
  pose proof W as (W1&W2&W3&W4).
  assert (BW : forall j, rdo_get st j <> None -> rdo_b_insc sc st' j -> rdo_b_insc sc st j).
  { intros; eapply rdo_b_insc_bwd; eauto. }
  assert (NN : forall p, rdo_get st p <> None -> rdo_get st' p <> None).
  { intros p Hp. destruct (rdo_get st p) eqn:G; [|congruence]. destruct (GP _ _ G) as [? [-> _]]; discriminate. }
  inversion H; subst.
  - (* update, id / parent / redone kept *)
    assert (Hid : forall y, rdo_id (f y) = rdo_id y) by apply H1.
    assert (OLD : forall j y', rdo_get (rdo_update st i f) j = Some y' ->
                   exists y, rdo_get st j = Some y /\ rdo_par y' = rdo_par y /\ rdo_red y' = rdo_red y).
    { intros j y'. rewrite rdo_b_get_update by auto. destruct (j =? i); eauto.
      destruct (rdo_get st j); simpl; intros E; inversion E; subst. eexists; split; eauto. split; apply H1. }
    split; [rewrite rdo_b_map_id_update; auto|]. split; [|split].
    + intros j y' G. destruct (OLD _ _ G) as [y [Gy _]]. eauto.
    + intros j y' p G P. destruct (OLD _ _ G) as [y [Gy [Py _]]]. rewrite Py in P.
      destruct (W3 _ _ _ Gy P); auto.
    + intros j y' r G R I Hr. destruct (OLD _ _ G) as [y [Gy [_ Ry]]]. rewrite Ry in R.
      eapply rdo_b_insc_fwd; [exact GP|]. eapply W4; eauto. apply BW; congruence.
      rewrite rdo_b_get_update_none in Hr; auto.
  - (* redone := n, the next clock *)
    assert (Nn : rdo_get st n = None). { destruct (rdo_get st n) eqn:G; auto. apply W2 in G; lia. }
    assert (OLD : forall j y', rdo_get (rdo_update st i (fun y => rdo_set_red y n)) j = Some y' ->
                   exists y, rdo_get st j = Some y /\ rdo_par y' = rdo_par y /\ (rdo_red y' = rdo_red y \/ rdo_red y' = Some n)).
    { intros j y'. rewrite rdo_b_get_update by auto. destruct (j =? i); eauto.
      destruct (rdo_get st j); simpl; intros E; inversion E; subst. eexists; split; eauto. }
    split; [rewrite rdo_b_map_id_update; auto|]. split; [|split].
    + intros j y' G. destruct (OLD _ _ G) as [y [Gy _]]. apply W2 in Gy. lia.
    + intros j y' p G P. destruct (OLD _ _ G) as [y [Gy [Py _]]]. rewrite Py in P.
      destruct (W3 _ _ _ Gy P); auto.
    + intros j y' r G R I Hr. destruct (OLD _ _ G) as [y [Gy [_ [Ry|Ry]]]].
      * rewrite Ry in R. eapply rdo_b_insc_fwd; [exact GP|]. eapply W4; eauto. apply BW; congruence.
        rewrite rdo_b_get_update_none in Hr; auto.
      * rewrite Ry in R; inversion R; subst r. rewrite rdo_b_get_update_none in Hr; auto. contradiction.
  - (* a new item *)
    assert (Fx : rdo_get st (rdo_id x) = None) by (apply rdo_b_fresh; auto).
    split; [apply rdo_b_nodup_link; auto; apply rdo_b_get_none_notin; auto|]. split; [|split].
    + intros j y'. rewrite rdo_b_get_link by auto. destruct (N.eqb_spec (rdo_id x) j). intros; lia. eauto.
    + intros j y' p. rewrite rdo_b_get_link by auto. destruct (N.eqb_spec (rdo_id x) j).
      * intros E P; inversion E; subst y'. rewrite P in H3; simpl in H3. apply rdo_b_insc_get in H3.
        split; [|auto]. destruct (rdo_get st p) eqn:G; [|congruence]. apply H1 in G. lia.
      * intros G P. destruct (W3 _ _ _ G P); auto.
    + intros j y' r Gj R I Hr. rewrite rdo_b_get_link in Gj by auto. destruct (N.eqb_spec (rdo_id x) j).
      * inversion Gj; subst y'. congruence.
      * rewrite rdo_b_get_link in Hr by auto. destruct (N.eqb_spec (rdo_id x) r).
        -- subst r. rewrite (rdo_b_insc_pscoped sc _ _ x). eapply rdo_b_pscoped_fwd; eauto.
           rewrite rdo_b_get_link by auto. rewrite N.eqb_refl; auto.
        -- eapply rdo_b_insc_fwd; [exact GP|]. eapply W4; eauto. apply BW; congruence.
Qed.

Lemma rdo_b_steps_wf sc st n st' n' : rdo_b_steps sc st n st' n' -> rdo_b_wf sc st n -> rdo_b_wf sc st' n'.
Proof. induction 1; auto. intros; apply IHrdo_b_steps. eapply rdo_b_step1_wf; eauto. Qed.

Lemma rdo_b_steps_fwd sc st n st' n' j : rdo_b_steps sc st n st' n' -> rdo_b_insc sc st j -> rdo_b_insc sc st' j.
Proof. intros H; apply rdo_b_insc_fwd. eapply rdo_b_steps_gpres; eauto. Qed.
Lemma rdo_b_steps_pfwd sc st n st' n' p : rdo_b_steps sc st n st' n' -> rdo_b_pscoped sc st p -> rdo_b_pscoped sc st' p.
Proof. intros H; apply rdo_b_pscoped_fwd. eapply rdo_b_steps_gpres; eauto. Qed.

(* --- positional: only items that satisfy Q are changed or new *)
Inductive rdo_b_tr (Q : N -> Prop) : list rdo_item -> list rdo_item -> Prop :=
| rdo_b_tr_nil : rdo_b_tr Q [] []
| rdo_b_tr_skip x' l l' : Q (rdo_id x') -> rdo_b_tr Q l l' -> rdo_b_tr Q l (x' :: l')
| rdo_b_tr_match x x' l l' : x' = x \/ (Q (rdo_id x) /\ rdo_id x' = rdo_id x) -> rdo_b_tr Q l l' -> rdo_b_tr Q (x :: l) (x' :: l').

Lemma rdo_b_tr_refl Q l : rdo_b_tr Q l l.
Proof. induction l. constructor. apply rdo_b_tr_match; auto. Qed.

Lemma rdo_b_tr_trans Q b c : rdo_b_tr Q b c -> forall a, rdo_b_tr Q a b -> rdo_b_tr Q a c.
Proof.
  induction 1; intros a Ha.
  - exact Ha.
  - apply rdo_b_tr_skip; auto.
  - inversion Ha as [|? ? ? Hq0 Ht0|? ? ? ? Hm0 Ht0]; subst.
    + apply rdo_b_tr_skip; auto. destruct H as [->|[_ ->]]; auto.
    + apply rdo_b_tr_match; auto.
      destruct H as [->|[Hq Hi]]; destruct Hm0 as [->|[Hq' Hi']]; auto; right; split; auto; congruence.
Qed.

Lemma rdo_b_tr_update (Q : N -> Prop) st i f : (forall y, rdo_id (f y) = rdo_id y) -> Q i -> rdo_b_tr Q st (rdo_update st i f).
Proof.
  intros Hf Hq; induction st; simpl. constructor.
  destruct (N.eqb_spec (rdo_id a) i).
  - apply rdo_b_tr_match. right; subst; auto. apply rdo_b_tr_refl.
  - apply rdo_b_tr_match; auto.
Qed.

Lemma rdo_b_tr_link (Q : N -> Prop) st l x : Q (rdo_id x) -> rdo_b_tr Q st (rdo_link st l x).
Proof.
  intros Hq. destruct l as [l|]; simpl; [|apply rdo_b_tr_skip; auto; apply rdo_b_tr_refl].
  induction st; simpl. apply rdo_b_tr_skip; auto; constructor.
  destruct (rdo_id a =? l).
  - apply rdo_b_tr_match; auto. apply rdo_b_tr_skip; auto. apply rdo_b_tr_refl.
  - apply rdo_b_tr_match; auto.
Qed.

Lemma rdo_b_steps_tr sc st n st' n' :
  rdo_b_steps sc st n st' n' -> rdo_b_tr (rdo_b_insc sc st') st st'.
Proof.
  induction 1. apply rdo_b_tr_refl.
  eapply rdo_b_tr_trans; [exact IHrdo_b_steps|].
  pose proof (rdo_b_steps_gpres _ _ _ _ _ (rdo_b_steps_cons _ _ _ _ _ _ _ H H0)) as GP.
  inversion H; subst.
  - apply rdo_b_tr_update. apply H2. eapply rdo_b_insc_fwd; eauto.
  - apply rdo_b_tr_update. reflexivity. eapply rdo_b_insc_fwd; eauto.
  - apply rdo_b_tr_link. eapply rdo_b_steps_fwd; [exact H0|].
    rewrite (rdo_b_insc_pscoped sc _ _ x).
    eapply rdo_b_pscoped_fwd; [eapply rdo_b_step1_gpres; exact H|exact H4].
    rewrite rdo_b_get_link by (apply rdo_b_fresh; auto). rewrite N.eqb_refl; auto.
Qed.

(* --- the fuel of rdo_in_scope is enough in a well-formed store *)
Lemma rdo_b_parent_of_insc sc st f : forall i, rdo_is_parent_of f st sc i = true -> rdo_b_insc sc st i.
Proof.
  induction f; simpl; intros i H. discriminate.
  destruct (rdo_get st i) eqn:G; [|discriminate].
  destruct (rdo_par r) eqn:P. eapply rdo_b_insc_root; eauto. eapply rdo_b_insc_item; eauto.
Qed.

Lemma rdo_b_insc_parent_of sc st n : rdo_b_wf sc st n ->
  forall f V i, NoDup V -> incl V (map rdo_id st) -> (forall v, In v V -> i < v) ->
    (length (map rdo_id st) < f + length V)%nat -> rdo_b_insc sc st i -> rdo_is_parent_of f st sc i = true.
Proof.
  intros (W1&W2&W3&W4). induction f; intros V i ND IN LT LEN H.
  - pose proof (NoDup_incl_length ND IN). simpl in LEN. lia.
  - simpl. inversion H; subst; rewrite H0, H1; auto.
    destruct (W3 _ _ _ H0 H1) as [Hp _]. destruct (rdo_b_get_in _ _ _ H0) as [Hin Hid].
    apply (IHf (i :: V)); auto.
    + constructor; auto. intros Hc; apply LT in Hc; lia.
    + intros z [<-|Hz]; auto. rewrite <- Hid. apply in_map; auto.
    + intros v [<-|Hv]; auto. apply LT in Hv; lia.
    + simpl; lia.
Qed.

Lemma rdo_b_in_scope_iff sc st n i : rdo_b_wf sc st n -> (rdo_in_scope st sc i = true <-> rdo_b_insc sc st i).
Proof.
  intros W; split. apply rdo_b_parent_of_insc.
  intros H. unfold rdo_in_scope. eapply (rdo_b_insc_parent_of _ _ _ W _ []); auto.
  constructor. intros z []. intros v []. rewrite map_length; simpl; lia.
Qed.

Lemma rdo_b_tr_filter (Q : N -> Prop) (g g' : N -> bool) l l' :
  rdo_b_tr Q l l' -> (forall j, Q j -> g' j = false) -> (forall x, In x l -> g' (rdo_id x) = g (rdo_id x)) ->
  filter (fun x => g' (rdo_id x)) l' = filter (fun x => g (rdo_id x)) l.
Proof.
  induction 1; intros HQ HG; simpl; auto.
  - rewrite (HQ _ H). apply IHrdo_b_tr; auto.
  - rewrite IHrdo_b_tr; auto; [|intros; apply HG; simpl; auto].
    destruct H as [->|[Hq Hi]]. rewrite HG; simpl; auto.
    rewrite <- (HG x) by (simpl; auto). rewrite Hi. rewrite (HQ _ Hq). reflexivity.
Qed.

(* what the primitive changes leave alone *)
Lemma rdo_b_steps_untouched sc st n st' n' :
  rdo_b_wf sc st n -> rdo_b_steps sc st n st' n' ->
  filter (fun x => negb (rdo_in_scope st' sc (rdo_id x))) st' = filter (fun x => negb (rdo_in_scope st sc (rdo_id x))) st.
Proof.
  intros W H. pose proof (rdo_b_steps_wf _ _ _ _ _ H W) as W'.
  pose proof (rdo_b_steps_gpres _ _ _ _ _ H) as GP.
  apply (rdo_b_tr_filter (rdo_b_insc sc st') (fun j => negb (rdo_in_scope st sc j)) (fun j => negb (rdo_in_scope st' sc j))).
  - apply rdo_b_steps_tr with (n := n) (n' := n'); auto.
  - intros j Hj. apply (rdo_b_in_scope_iff _ _ _ _ W') in Hj. rewrite Hj; auto.
  - intros x Hx. f_equal. apply Bool.eq_iff_eq_true.
    rewrite (rdo_b_in_scope_iff _ _ _ _ W'), (rdo_b_in_scope_iff _ _ _ _ W). split.
    + eapply rdo_b_insc_bwd; eauto. apply rdo_b_in_get_some; auto.
    + apply rdo_b_insc_fwd; auto.
Qed.

(* --- the operations of the model are made of the primitive changes *)
Lemma rdo_b_par_eqb_eq a b : rdo_par_eqb a b = true -> a = b.
Proof. destruct a, b; simpl; try discriminate; intros H; apply N.eqb_eq in H; congruence. Qed.

Lemma rdo_b_chain_in st par sub y : In y (rdo_chain st par sub) -> In y st /\ rdo_par y = par.
Proof.
  unfold rdo_chain. rewrite filter_In. unfold rdo_in_chain. intros [H1 H2].
  apply andb_true_iff in H2. destruct H2 as [H2 _]. split; auto. apply rdo_b_par_eqb_eq; auto.
Qed.

Lemma rdo_b_map_get_in st par k j : rdo_map_get st par k = Some j -> exists y, In y st /\ rdo_par y = par /\ rdo_id y = j.
Proof.
  unfold rdo_map_get. destruct (rev (rdo_chain st par (Some k))) eqn:E; simpl; intros H; inversion H; subst.
  assert (In r (rev (rdo_chain st par (Some k)))) by (rewrite E; simpl; auto).
  apply in_rev in H0. apply rdo_b_chain_in in H0. exists r; tauto.
Qed.

Lemma rdo_b_child_insc sc st n y i :
  rdo_b_wf sc st n -> In y st -> rdo_par y = RdoItem i -> rdo_b_insc sc st i -> rdo_b_insc sc st (rdo_id y).
Proof. intros (W1&_) Hy P I. eapply rdo_b_insc_item; eauto. apply rdo_b_in_get; auto. Qed.

Lemma rdo_b_set_del_fkeep : rdo_b_fkeep rdo_set_del.
Proof. intros y; simpl; auto. Qed.
Lemma rdo_b_set_keep_fkeep b : rdo_b_fkeep (fun y => rdo_set_keep y b).
Proof. intros y; simpl; auto. Qed.

Lemma rdo_b_delete_steps sc n f : forall st i st' d,
  rdo_b_wf sc st n -> rdo_b_insc sc st i -> rdo_delete f st i = RdoOk (st', d) -> rdo_b_steps sc st n st' n.
Proof.
  induction f; intros st i st' d W I H; simpl in H. discriminate.
  destruct (rdo_get st i) eqn:G; [|discriminate].
  destruct (rdo_del r). inversion H; subst; constructor.
  assert (S1 : rdo_b_steps sc st n (rdo_update st i rdo_set_del) n).
  { apply rdo_b_steps_one. constructor; auto. apply rdo_b_set_del_fkeep. }
  pose proof (rdo_b_steps_wf _ _ _ _ _ S1 W) as W1.
  pose proof (rdo_b_steps_fwd _ _ _ _ _ _ S1 I) as I1.
  destruct (rdo_cnt r). inversion H; subst; exact S1.
  eapply rdo_b_steps_trans; [exact S1|].
  set (st1 := rdo_update st i rdo_set_del) in *.
  assert (KIDS : forall j, In j (map rdo_id (filter (fun y => negb (rdo_del y)) (rdo_chain st1 (RdoItem i) None)) ++
                                flat_map (fun k => match rdo_map_get st1 (RdoItem i) k with Some j => [j] | None => [] end) (rdo_keys st1 (RdoItem i))) ->
                      rdo_b_insc sc st1 j).
  { intros j Hj. apply in_app_or in Hj. destruct Hj as [Hj|Hj].
    - apply in_map_iff in Hj. destruct Hj as [y [<- Hy]]. apply filter_In in Hy. destruct Hy as [Hy _].
      apply rdo_b_chain_in in Hy. destruct Hy. eapply rdo_b_child_insc; eauto.
    - apply in_flat_map in Hj. destruct Hj as [k [_ Hk]].
      destruct (rdo_map_get st1 (RdoItem i) k) eqn:M; [|contradiction]. destruct Hk as [<-|[]].
      apply rdo_b_map_get_in in M. destruct M as [y [Hy [P <-]]]. eapply rdo_b_child_insc; eauto. }
  revert H W1 KIDS. generalize (map rdo_id (filter (fun y => negb (rdo_del y)) (rdo_chain st1 (RdoItem i) None)) ++
                                flat_map (fun k => match rdo_map_get st1 (RdoItem i) k with Some j => [j] | None => [] end) (rdo_keys st1 (RdoItem i))).
  generalize st1. generalize [i]. clear - IHf.
  intros d0 s l; revert s d0. induction l; simpl; intros s d0 H W K.
  - inversion H; subst; constructor.
  - destruct (rdo_delete f s a) as [[s1 d1]|] eqn:E; simpl in H.
    + assert (S2 : rdo_b_steps sc s n s1 n) by (eapply IHf; eauto).
      eapply rdo_b_steps_trans; [exact S2|]. eapply IHl; eauto. eapply rdo_b_steps_wf; eauto.
      intros j Hj. eapply rdo_b_steps_fwd; eauto.
    + rewrite rdo_b_fold_err in H by reflexivity. discriminate.
Qed.

Definition rdo_b_tsteps (sc : list N) (t t' : rdo_txn) : Prop :=
  rdo_b_steps sc (rdo_st t) (rdo_next t) (rdo_st t') (rdo_next t').
Definition rdo_b_twf (sc : list N) (t : rdo_txn) : Prop := rdo_b_wf sc (rdo_st t) (rdo_next t).

Lemma rdo_b_txn_delete_steps sc t i t' :
  rdo_b_twf sc t -> rdo_b_insc sc (rdo_st t) i -> rdo_txn_delete t i = RdoOk t' -> rdo_b_tsteps sc t t'.
Proof.
  unfold rdo_txn_delete, rdo_b_tsteps, rdo_b_twf. intros W I H.
  destruct (rdo_delete _ _ _) as [[s d]|] eqn:E; simpl in H; inversion H; subst; simpl.
  eapply rdo_b_delete_steps; eauto.
Qed.

(* --- integrate *)
Lemma rdo_b_split_incl l i : forall acc b y a, rdo_split l i acc = Some (b, y, a) -> incl a l.
Proof.
  induction l; simpl; intros acc b y a0 H. discriminate.
  destruct (rdo_id a =? i). inversion H; subst. intros z Hz; simpl; auto.
  apply IHl in H. intros z Hz; simpl; auto.
Qed.

Lemma rdo_b_scan_res st x right cands : forall left before conf l0,
  rdo_scan st x right cands left before conf = Some l0 ->
  left = Some l0 \/ exists it, In it cands /\ rdo_id it = l0.
Proof.
  induction cands; simpl; intros left before conf l0 H. auto.
  assert (IH : forall left' b c, rdo_scan st x right cands left' b c = Some l0 ->
                 left' = Some l0 \/ exists it, In it (a :: cands) /\ rdo_id it = l0).
  { intros left' b c Hs. apply IHcands in Hs. destruct Hs as [?|[it [? ?]]]; auto. right; exists it; simpl; auto. }
  destruct (rdo_on_eqb right (Some (rdo_id a))); auto.
  destruct (rdo_on_eqb (rdo_org x) (rdo_org a)).
  - destruct (rdo_on_eqb (rdo_rorg x) (rdo_rorg a)); auto. apply IH in H; auto.
  - destruct (rdo_org a); auto. destruct (rdo_get st n); auto.
    destruct (_ || rdo_mem n before) eqn:E1 in H; auto.
    destruct (negb _) in H.
    + apply IH in H. destruct H as [H|H]; auto. inversion H; subst. right; exists a; simpl; auto.
    + apply IH in H; auto.
Qed.

Lemma rdo_b_left_ok sc st n x left right l0 :
  rdo_b_wf sc st n -> rdo_neighbour_ok st x left = true ->
  (if rdo_detect_conflict st left right then rdo_resolve_conflict st x left right else left) = Some l0 ->
  exists y, rdo_get st l0 = Some y /\ rdo_par y = rdo_par x.
Proof.
  intros (W1&_) NO H.
  assert (A : left = Some l0 -> exists y, rdo_get st l0 = Some y /\ rdo_par y = rdo_par x).
  { intros ->. simpl in NO. destruct (rdo_get st l0); [|discriminate]. exists r; split; auto.
    unfold rdo_in_chain in NO. apply andb_true_iff in NO. destruct NO as [NO _]. apply rdo_b_par_eqb_eq; auto. }
  destruct (rdo_detect_conflict st left right); auto.
  unfold rdo_resolve_conflict in H. apply rdo_b_scan_res in H. destruct H as [H|[it [Hin <-]]]; auto.
  assert (In it (rdo_chain st (rdo_par x) (rdo_sub x))).
  { destruct left as [l|]; auto.
    destruct (rdo_split (rdo_chain st (rdo_par x) (rdo_sub x)) l []) as [[[b y] a]|] eqn:E; [|contradiction].
    eapply rdo_b_split_incl; eauto. }
  apply rdo_b_chain_in in H. destruct H. exists it; split; auto. apply rdo_b_in_get; auto.
Qed.

Lemma rdo_b_integrate_steps sc t x l r t' :
  rdo_b_twf sc t -> rdo_id x < rdo_next t -> (forall j y, rdo_get (rdo_st t) j = Some y -> j < rdo_id x) ->
  rdo_red x = None -> rdo_b_pscoped sc (rdo_st t) (rdo_par x) ->
  rdo_integrate t x l r = RdoOk t' -> rdo_b_tsteps sc t t'.
Proof.
  unfold rdo_b_twf, rdo_b_tsteps. intros W Hlt Hfr Hr Hp H.
  unfold rdo_integrate in H. cbv zeta in H.
  destruct (rdo_neighbour_ok (rdo_st t) x l && rdo_neighbour_ok (rdo_st t) x r) eqn:NO; simpl in H; [|discriminate].
  apply andb_true_iff in NO. destruct NO as [NO _].
  pose proof (fun l0 => rdo_b_left_ok sc (rdo_st t) (rdo_next t) x l r l0 W NO) as LO.
  remember (if rdo_detect_conflict (rdo_st t) l r then rdo_resolve_conflict (rdo_st t) x l r else l) as left'.
  set (st1 := rdo_link (rdo_st t) left' x) in *.
  assert (S1 : rdo_b_steps sc (rdo_st t) (rdo_next t) st1 (rdo_next t)).
  { apply rdo_b_steps_one. constructor; auto. }
  pose proof (rdo_b_steps_wf _ _ _ _ _ S1 W) as W1.
  assert (Gx : rdo_get st1 (rdo_id x) = Some x).
  { unfold st1. rewrite rdo_b_get_link by (apply rdo_b_fresh; auto). rewrite N.eqb_refl; auto. }
  assert (Ix : rdo_b_insc sc st1 (rdo_id x)).
  { rewrite (rdo_b_insc_pscoped sc _ _ x Gx). eapply rdo_b_steps_pfwd; eauto. }
  rdo_b_bind H.
  assert (S2 : rdo_b_steps sc st1 (rdo_next t) (rdo_st a) (rdo_next a)).
  { destruct (rdo_right st1 (rdo_id x)). inversion E; subst; simpl; constructor.
    destruct (rdo_sub x); [|inversion E; subst; simpl; constructor].
    destruct left' as [l0|]; [|inversion E; subst; simpl; constructor].
    apply (rdo_b_txn_delete_steps sc) in E; auto.
    simpl. destruct (LO l0 eq_refl) as [y [Gy Py]].
    destruct (rdo_b_steps_gpres _ _ _ _ _ S1 _ _ Gy) as [y' [Gy' Py']].
    rewrite (rdo_b_insc_pscoped sc _ _ y' Gy'). rewrite Py', Py. eapply rdo_b_steps_pfwd; eauto. }
  assert (Na : rdo_next a = rdo_next t).
  { destruct (rdo_right st1 (rdo_id x)); [inversion E; subst; auto|].
    destruct (rdo_sub x); [|inversion E; subst; auto].
    destruct left'; [|inversion E; subst; auto].
    unfold rdo_txn_delete in E. destruct (rdo_delete _ _ _) as [[? ?]|]; simpl in E; inversion E; subst; auto. }
  eapply rdo_b_steps_trans; [exact S1|].
  destruct (_ || _).
  - eapply rdo_b_steps_trans; [exact S2|]. apply (rdo_b_txn_delete_steps sc) in H; auto.
    unfold rdo_b_twf. eapply rdo_b_steps_wf; eauto. eapply rdo_b_steps_fwd; eauto.
  - inversion H; subst; exact S2.
Qed.

(* --- redo *)
Lemma rdo_b_chase_insc sc st n : rdo_b_wf sc st n -> forall f a ya pb,
  rdo_get st a = Some ya -> rdo_b_insc sc st a -> rdo_chase f st (Some a) (rdo_red ya) = RdoOk pb ->
  match pb with Some c => rdo_b_insc sc st c | None => True end.
Proof.
  intros (W1&W2&W3&W4). induction f; intros a ya pb G I H.
  - destruct (rdo_red ya); simpl in H; inversion H; subst; auto.
  - destruct (rdo_red ya) eqn:R; simpl in H. 2: inversion H; subst; auto.
    destruct (rdo_get st n0) eqn:G2. 2: inversion H; subst; auto.
    apply (IHf n0 r pb G2); [|exact H]. eapply W4; [exact G | exact R | exact I | congruence].
Qed.

Lemma rdo_b_unwrap_parent st p q : rdo_unwrap_parent st p = RdoOk q -> q = p.
Proof.
  destruct p; simpl; intros H. inversion H; auto.
  destruct (rdo_get st id); [|discriminate]. destruct (rdo_cnt r); inversion H; auto.
Qed.

Lemma rdo_b_redo_steps sc ri td s1 s2 f : forall t i t' o,
  rdo_b_twf sc t -> rdo_b_insc sc (rdo_st t) i ->
  rdo_redo f t i ri td s1 s2 = RdoOk (t', o) -> rdo_b_tsteps sc t t'.
Proof.
  unfold rdo_b_twf, rdo_b_tsteps.
  induction f; intros t i t' o W I H; [discriminate|]. simpl in H.
  destruct (rdo_get (rdo_st t) i) as [item|] eqn:Gi; [|discriminate].
  destruct (rdo_red item) eqn:Ri. inversion H; subst; constructor.
  assert (Pi0 : rdo_b_pscoped sc (rdo_st t) (rdo_par item)) by (apply (rdo_b_insc_pscoped sc _ _ _ Gi); auto).
  rdo_b_bind H. destruct a as [t1 opb].
  assert (A1 : rdo_b_steps sc (rdo_st t) (rdo_next t) (rdo_st t1) (rdo_next t1) /\
               match opb with Some (Some c) => rdo_b_insc sc (rdo_st t1) c | _ => True end).
  { destruct (rdo_par_item (rdo_par item)) as [p|] eqn:Pi; [|inversion E; subst; split; [constructor|auto]].
    assert (Ip : rdo_b_insc sc (rdo_st t) p).
    { destruct (rdo_par item); simpl in Pi; inversion Pi; subst. exact Pi0. }
    destruct (rdo_get (rdo_st t) p) as [pit|] eqn:Gp; [|discriminate].
    destruct (rdo_del pit) eqn:Dp; [|inversion E; subst; split; [constructor|auto]].
    rdo_b_bind E. destruct a as [t0 go].
    assert (B : rdo_b_steps sc (rdo_st t) (rdo_next t) (rdo_st t0) (rdo_next t0)).
    { destruct (rdo_is_some (rdo_red pit)). inversion E0; subst; constructor.
      destruct (negb (rdo_mem p ri)). inversion E0; subst; constructor.
      destruct (rdo_redo f t p ri td s1 s2) as [[t0' o']|] eqn:Er; simpl in E0; inversion E0; subst.
      eapply IHf; eauto. }
    destruct (negb go). inversion E; subst; split; auto.
    destruct (rdo_get (rdo_st t0) p) as [pit'|] eqn:Gp'; [|discriminate].
    rdo_b_bind E. inversion E; subst. split; auto.
    change (rdo_chase (S (length (rdo_st t1))) (rdo_st t1) (Some p) (rdo_red pit') = RdoOk a) in E1.
    eapply rdo_b_chase_insc; [eapply rdo_b_steps_wf; eauto | exact Gp' | eapply rdo_b_steps_fwd; eauto | exact E1]. }
  destruct A1 as [A1 A2].
  destruct opb as [pb|]; [|inversion H; subst; exact A1].
  pose proof (rdo_b_steps_wf _ _ _ _ _ A1 W) as W1.
  pose proof (rdo_b_steps_pfwd _ _ _ _ _ _ A1 Pi0) as Pi1.
  rdo_b_bind H.
  assert (PB : rdo_b_pscoped sc (rdo_st t1) a).
  { destruct pb as [c|].
    - destruct (rdo_get (rdo_st t1) c); [|discriminate]. destruct (rdo_cnt r).
      apply rdo_b_unwrap_parent in E0; subst; auto. inversion E0; subst; simpl; auto.
    - apply rdo_b_unwrap_parent in E0; subst; auto. }
  rdo_b_bind H.
  destruct a0 as [[l r]|]; [|inversion H; subst; exact A1].
  rdo_b_bind H. inversion H; subst.
  eapply rdo_b_steps_trans; [exact A1|].
  assert (S2 : rdo_b_steps sc (rdo_st t1) (rdo_next t1) (rdo_update (rdo_st t1) i (fun y => rdo_set_red y (rdo_next t1))) (rdo_next t1 + 1)).
  { apply rdo_b_steps_one. constructor. eapply rdo_b_steps_fwd; eauto. }
  eapply rdo_b_steps_trans; [exact S2|].
  apply (rdo_b_integrate_steps sc) in E2; auto.
  - unfold rdo_b_twf; simpl. eapply rdo_b_steps_wf; eauto.
  - simpl. lia.
  - simpl. intros j y Gj. destruct W1 as (_&W2&_). 
    destruct (rdo_get (rdo_st t1) j) eqn:G1. eapply W2; eauto.
    apply (rdo_b_get_update_none _ i (fun y => rdo_set_red y (rdo_next t1))) in G1; [congruence|reflexivity].
  - simpl. eapply rdo_b_steps_pfwd; eauto.
Qed.

(* --- keep *)
Lemma rdo_b_keep_walk_steps sc n f : forall st i b,
  rdo_b_wf sc st n -> rdo_b_insc sc st i -> rdo_b_steps sc st n (rdo_keep_walk f st i b) n.
Proof.
  induction f; intros st i b W I; simpl. constructor.
  destruct (rdo_get st i) eqn:G; [|constructor].
  destruct (Bool.eqb _ _). constructor.
  assert (S1 : rdo_b_steps sc st n (rdo_update st i (fun y => rdo_set_keep y b)) n).
  { apply rdo_b_steps_one. constructor; auto. apply rdo_b_set_keep_fkeep. }
  destruct (rdo_par r) eqn:P; auto.
  eapply rdo_b_steps_trans; [exact S1|]. apply IHf. eapply rdo_b_steps_wf; eauto.
  eapply rdo_b_steps_fwd; eauto. apply (rdo_b_insc_pscoped sc _ _ _ G) in I. rewrite P in I. exact I.
Qed.

Lemma rdo_b_keep_all_steps sc n ids b : forall st,
  rdo_b_wf sc st n -> rdo_b_steps sc st n (rdo_keep_all st sc ids b) n.
Proof.
  unfold rdo_keep_all. induction ids; simpl; intros st W. constructor.
  destruct (rdo_in_scope st sc a) eqn:E.
  - assert (S1 : rdo_b_steps sc st n (rdo_keep_walk (S (length st)) st a b) n).
    { apply rdo_b_keep_walk_steps; auto. eapply rdo_b_parent_of_insc; eauto. }
    eapply rdo_b_steps_trans; [exact S1|]. apply IHids. eapply rdo_b_steps_wf; eauto.
  - apply IHids; auto.
Qed.

Lemma rdo_b_after_txn_steps s t mode : mode <> RdoNormal -> rdo_b_twf (rdo_scope s) t ->
  rdo_b_steps (rdo_scope s) (rdo_st t) (rdo_next t) (rdo_doc (rdo_after_txn s t mode)) (rdo_clock (rdo_after_txn s t mode))
  /\ rdo_scope (rdo_after_txn s t mode) = rdo_scope s.
Proof.
  intros M W. unfold rdo_after_txn. destruct (negb _); simpl. split; [constructor|auto].
  destruct mode; simpl; try congruence; (split; [apply rdo_b_keep_all_steps; auto|auto]).
Qed.

(* --- try_process *)
Lemma rdo_b_redo_fold_steps sc ri td s1 s2 l : forall t c t1 c1,
  rdo_b_twf sc t -> (forall i, In i l -> rdo_b_insc sc (rdo_st t) i) ->
  fold_left (fun acc i => rdo_let (t, c) := acc in
                          rdo_let (t', o) := rdo_redo (S (length (rdo_st t))) t i ri td s1 s2 in
                          RdoOk (t', c || rdo_is_some o)) l (RdoOk (t, c)) = RdoOk (t1, c1) ->
  rdo_b_tsteps sc t t1.
Proof.
  induction l; intros t c t1 c1 W K H.
  - simpl in H. inversion H; subst; constructor.
  - cbn [fold_left rdo_bind] in H.
    destruct (rdo_redo (S (length (rdo_st t))) t a ri td s1 s2) as [[t' o]|] eqn:Er; cbn [rdo_bind] in H.
    + assert (S1 : rdo_b_tsteps sc t t') by (eapply rdo_b_redo_steps; eauto; apply K; simpl; auto).
      unfold rdo_b_tsteps in *. eapply rdo_b_steps_trans; [exact S1|]. eapply IHl; [| |exact H].
      unfold rdo_b_twf in *. eapply rdo_b_steps_wf; eauto.
      intros i Hi. eapply rdo_b_steps_fwd; eauto. apply K; simpl; auto.
    + rewrite rdo_b_fold_err in H by reflexivity. discriminate.
Qed.

Lemma rdo_b_delete_fold_steps sc l : forall t t1,
  rdo_b_twf sc t -> (forall i, In i l -> rdo_b_insc sc (rdo_st t) i) ->
  fold_left (fun acc i => rdo_let t := acc in rdo_txn_delete t i) l (RdoOk t) = RdoOk t1 ->
  rdo_b_tsteps sc t t1.
Proof.
  induction l; intros t t1 W K H.
  - simpl in H. inversion H; subst; constructor.
  - cbn [fold_left rdo_bind] in H.
    destruct (rdo_txn_delete t a) as [t'|] eqn:Er.
    + assert (S1 : rdo_b_tsteps sc t t') by (eapply rdo_b_txn_delete_steps; eauto; apply K; simpl; auto).
      unfold rdo_b_tsteps in *. eapply rdo_b_steps_trans; [exact S1|]. eapply IHl; [| |exact H].
      unfold rdo_b_twf in *. eapply rdo_b_steps_wf; eauto.
      intros i Hi. eapply rdo_b_steps_fwd; eauto. apply K; simpl; auto.
    + rewrite rdo_b_fold_err in H by reflexivity. discriminate.
Qed.

Definition rdo_b_ftd (st : list rdo_item) (scope : list N) (acc : rdo_res (option (list N))) (i : N) : rdo_res (option (list N)) :=
  rdo_let o := acc in
  match o with
  | None => RdoOk None
  | Some l =>
      match rdo_get st i with
      | None => RdoOk (Some l)
      | Some _ =>
          rdo_let fo := rdo_follow (S (length st)) st i in
          match fo with
          | None => RdoOk None
          | Some y => if negb (rdo_del y) && rdo_in_scope st scope (rdo_id y) then RdoOk (Some (l ++ [rdo_id y])) else RdoOk (Some l)
          end
      end
  end.

Lemma rdo_b_ftd_none st scope l : fold_left (rdo_b_ftd st scope) l (RdoOk None) = RdoOk None.
Proof. induction l; auto. Qed.

Lemma rdo_b_ftd_fold st scope l : forall acc td,
  fold_left (rdo_b_ftd st scope) l (RdoOk (Some acc)) = RdoOk (Some td) ->
  (forall j, In j acc -> rdo_in_scope st scope j = true) -> forall j, In j td -> rdo_in_scope st scope j = true.
Proof.
  induction l; intros acc td H K.
  - simpl in H. inversion H; subst; auto.
  - cbn [fold_left] in H. unfold rdo_b_ftd at 2 in H. cbn [rdo_bind] in H.
    destruct (rdo_get st a). 2: eapply IHl; eauto.
    destruct (rdo_follow (S (length st)) st a) as [[y|]|] eqn:F; cbn [rdo_bind] in H.
    + destruct (negb (rdo_del y) && rdo_in_scope st scope (rdo_id y)) eqn:C.
      * eapply IHl; [exact H|]. intros j Hj. apply in_app_or in Hj. destruct Hj as [Hj|[<-|[]]]; auto.
        apply andb_true_iff in C; tauto.
      * eapply IHl; eauto.
    + rewrite rdo_b_ftd_none in H. discriminate.
    + rewrite rdo_b_fold_err in H by reflexivity. discriminate.
Qed.

Lemma rdo_b_process_steps s e s1 s2 t c :
  rdo_b_wf (rdo_scope s) (rdo_doc s) (rdo_clock s) -> rdo_process s e s1 s2 = RdoOk (t, c) ->
  rdo_b_steps (rdo_scope s) (rdo_doc s) (rdo_clock s) (rdo_st t) (rdo_next t).
Proof.
  intros W H. unfold rdo_process in H. cbv zeta in H. rdo_b_bind H.
  destruct a as [to_delete|]; [|inversion H; subst; simpl; constructor].
  rdo_b_bind H. destruct a as [t1 c1]. rdo_b_bind H. inversion H; subst.
  pose proof (rdo_b_ftd_fold (rdo_doc s) (rdo_scope s) _ _ _ E) as TD. simpl in TD.
  apply (rdo_b_redo_fold_steps (rdo_scope s)) in E0.
  - assert (W1 : rdo_b_twf (rdo_scope s) t1) by (unfold rdo_b_twf; eapply rdo_b_steps_wf; eauto; exact W).
    apply (rdo_b_delete_fold_steps (rdo_scope s)) in E1; auto.
    + unfold rdo_b_tsteps in *. simpl in E0. eapply rdo_b_steps_trans; eauto.
    + intros i Hi. apply in_rev in Hi. eapply rdo_b_steps_fwd; [exact E0|]. simpl.
      eapply rdo_b_parent_of_insc. apply TD; auto.
  - exact W.
  - intros i Hi. apply filter_In in Hi. destruct Hi as [_ Hi].
    apply andb_true_iff in Hi. destruct Hi as [Hi _]. apply andb_true_iff in Hi. destruct Hi as [_ Hi].
    simpl. eapply rdo_b_parent_of_insc; eauto.
Qed.

Lemma rdo_b_pop_iter s0 e r1 r2 t changed mode :
  rdo_b_wf (rdo_scope s0) (rdo_doc s0) (rdo_clock s0) -> rdo_process s0 e r1 r2 = RdoOk (t, changed) ->
  mode <> RdoNormal ->
  rdo_b_steps (rdo_scope s0) (rdo_doc s0) (rdo_clock s0) (rdo_doc (rdo_after_txn s0 t mode)) (rdo_clock (rdo_after_txn s0 t mode))
  /\ rdo_scope (rdo_after_txn s0 t mode) = rdo_scope s0.
Proof.
  intros W H M. apply rdo_b_process_steps in H; auto.
  destruct (rdo_b_after_txn_steps s0 t mode M) as [S2 Sc].
  - unfold rdo_b_twf. eapply rdo_b_steps_wf; eauto.
  - split; auto. eapply rdo_b_steps_trans; eauto.
Qed.

Lemma rdo_b_pop_steps f : forall s u s' b,
  rdo_b_wf (rdo_scope s) (rdo_doc s) (rdo_clock s) -> rdo_pop f s u = RdoOk (s', b) ->
  rdo_b_steps (rdo_scope s) (rdo_doc s) (rdo_clock s) (rdo_doc s') (rdo_clock s') /\ rdo_scope s' = rdo_scope s.
Proof.
  induction f; intros s u s' b W H; simpl in H. inversion H; subst; split; [constructor|auto].
  destruct u.
  - destruct (rdo_us s) as [|e rest] eqn:Es. inversion H; subst; split; [constructor|auto].
    rdo_b_bind H. destruct a as [t changed].
    match type of E with rdo_process ?s0 _ _ _ = _ =>
      destruct (rdo_b_pop_iter s0 _ _ _ _ _ RdoUndoing W E) as [S1 Sc]; [discriminate|] end.
    cbn [rdo_scope rdo_doc rdo_clock] in S1, Sc.
    destruct changed. inversion H; subst; split; [exact S1|exact Sc].
    apply IHf in H.
    + destruct H as [S2 Sc2]. rewrite Sc in S2. split; [|congruence]. eapply rdo_b_steps_trans; eauto.
    + rewrite Sc. eapply rdo_b_steps_wf; eauto.
  - destruct (rdo_rs s) as [|e rest] eqn:Es. inversion H; subst; split; [constructor|auto].
    rdo_b_bind H. destruct a as [t changed].
    match type of E with rdo_process ?s0 _ _ _ = _ =>
      destruct (rdo_b_pop_iter s0 _ _ _ _ _ RdoRedoing W E) as [S1 Sc]; [discriminate|] end.
    cbn [rdo_scope rdo_doc rdo_clock] in S1, Sc.
    destruct changed. inversion H; subst; split; [exact S1|exact Sc].
    apply IHf in H.
    + destruct H as [S2 Sc2]. rewrite Sc in S2. split; [|congruence]. eapply rdo_b_steps_trans; eauto.
    + rewrite Sc. eapply rdo_b_steps_wf; eauto.
Qed.

(* theorem B2 (theorem 4): the part of the store outside the scope is literally unchanged by undo / redo.
   rdo_b_wf is a hypothesis (ids distinct and below the clock; a parent item exists and is older; the copy a
   `redone` pointer of an item in the scope leads to, if it exists, is in the scope); it is preserved by the call
   (rdo_b_untracked_wf_kept), checked by vm_compute on all states of 2700 histories in RedoProofsBTest.v. *)
Theorem rdo_untracked_untouched : forall s s' b,
  rdo_b_wf (rdo_scope s) (rdo_doc s) (rdo_clock s) ->
  (rdo_undo s = RdoOk (s', b) \/ rdo_redo_call s = RdoOk (s', b)) ->
  filter (fun x => negb (rdo_in_scope (rdo_doc s') (rdo_scope s) (rdo_id x))) (rdo_doc s')
  = filter (fun x => negb (rdo_in_scope (rdo_doc s) (rdo_scope s) (rdo_id x))) (rdo_doc s).
Proof.
  intros s s' b W H.
  assert (S1 : rdo_b_steps (rdo_scope s) (rdo_doc s) (rdo_clock s) (rdo_doc s') (rdo_clock s')).
  { destruct H as [H|H]; apply rdo_b_pop_steps in H; auto; apply H. }
  eapply rdo_b_steps_untouched; eauto.
Qed.
Print Assumptions rdo_untracked_untouched.

Theorem rdo_b_untracked_wf_kept : forall s s' b,
  rdo_b_wf (rdo_scope s) (rdo_doc s) (rdo_clock s) ->
  (rdo_undo s = RdoOk (s', b) \/ rdo_redo_call s = RdoOk (s', b)) ->
  rdo_scope s' = rdo_scope s /\ rdo_b_wf (rdo_scope s') (rdo_doc s') (rdo_clock s').
Proof.
  intros s s' b W H.
  assert (S1 : rdo_b_steps (rdo_scope s) (rdo_doc s) (rdo_clock s) (rdo_doc s') (rdo_clock s') /\ rdo_scope s' = rdo_scope s).
  { destruct H as [H|H]; apply rdo_b_pop_steps in H; auto. }
  destruct S1 as [S1 Sc]. split; auto. rewrite Sc. eapply rdo_b_steps_wf; eauto.
Qed.
Print Assumptions rdo_b_untracked_wf_kept.

(* ============================================================================================== *)
(* rdo_b_wf holds in every reachable state *)

(* no `redone` pointer leads to a clock that is not yet used *)
Definition rdo_b_rlt (st : list rdo_item) (n : N) : Prop :=
  forall j x r, rdo_get st j = Some x -> rdo_red x = Some r -> r < n.

Definition rdo_b_wfr (sc : list N) (st : list rdo_item) (n : N) : Prop := rdo_b_wf sc st n /\ rdo_b_rlt st n.

Lemma rdo_b_step1_rlt sc st n st' n' : rdo_b_step1 sc st n st' n' -> rdo_b_rlt st n -> rdo_b_rlt st' n'.
Proof.
  intros H R; inversion H; subst; intros j y' r.
  - rewrite rdo_b_get_update by apply H1. destruct (j =? i); [|apply R].
    destruct (rdo_get st j) eqn:G; simpl; intros E; inversion E; subst.
    destruct (H1 r0) as (_&_&->). eapply R; eauto.
  - rewrite rdo_b_get_update by reflexivity. destruct (j =? i).
    + destruct (rdo_get st j) eqn:G; simpl; intros E; inversion E; subst. simpl. intros E2; inversion E2; lia.
    + intros G Rr. pose proof (R _ _ _ G Rr). lia.
  - rewrite rdo_b_get_link by (apply rdo_b_fresh; auto). destruct (rdo_id x =? j); [|apply R].
    intros E; inversion E; subst. congruence.
Qed.

Lemma rdo_b_steps_rlt sc st n st' n' : rdo_b_steps sc st n st' n' -> rdo_b_rlt st n -> rdo_b_rlt st' n'.
Proof. induction 1; auto. intros; apply IHrdo_b_steps. eapply rdo_b_step1_rlt; eauto. Qed.

Lemma rdo_b_steps_wfr sc st n st' n' : rdo_b_steps sc st n st' n' -> rdo_b_wfr sc st n -> rdo_b_wfr sc st' n'.
Proof. intros H [W R]; split. eapply rdo_b_steps_wf; eauto. eapply rdo_b_steps_rlt; eauto. Qed.

(* changes anywhere in the document (a transaction of any origin) *)
Inductive rdo_b_gstep1 (sc : list N) : list rdo_item -> N -> list rdo_item -> N -> Prop :=
| rdo_b_gstep1_s st n st' n' : rdo_b_step1 sc st n st' n' -> rdo_b_gstep1 sc st n st' n'
| rdo_b_gstep1_upd st n i f : rdo_b_fkeep f -> rdo_b_gstep1 sc st n (rdo_update st i f) n
| rdo_b_gstep1_link st n l x :
    rdo_id x < n -> (forall j y, rdo_get st j = Some y -> j < rdo_id x) -> rdo_red x = None ->
    (forall p, rdo_par x = RdoItem p -> rdo_get st p <> None) ->
    (forall j y, rdo_get st j = Some y -> rdo_red y <> Some (rdo_id x)) ->
    rdo_b_gstep1 sc st n (rdo_link st l x) n
| rdo_b_gstep1_bump st n : rdo_b_gstep1 sc st n st (n + 1).

Inductive rdo_b_gsteps (sc : list N) : list rdo_item -> N -> list rdo_item -> N -> Prop :=
| rdo_b_gsteps_refl st n : rdo_b_gsteps sc st n st n
| rdo_b_gsteps_cons st n st1 n1 st' n' :
    rdo_b_gstep1 sc st n st1 n1 -> rdo_b_gsteps sc st1 n1 st' n' -> rdo_b_gsteps sc st n st' n'.

Lemma rdo_b_gsteps_one sc st n st' n' : rdo_b_gstep1 sc st n st' n' -> rdo_b_gsteps sc st n st' n'.
Proof. intros; econstructor; eauto. constructor. Qed.

Lemma rdo_b_gsteps_trans sc st n st1 n1 st2 n2 :
  rdo_b_gsteps sc st n st1 n1 -> rdo_b_gsteps sc st1 n1 st2 n2 -> rdo_b_gsteps sc st n st2 n2.
Proof. induction 1; auto. intros; econstructor; eauto. Qed.

Lemma rdo_b_steps_gsteps sc st n st' n' : rdo_b_steps sc st n st' n' -> rdo_b_gsteps sc st n st' n'.
Proof. induction 1. constructor. econstructor; eauto. apply rdo_b_gstep1_s; auto. Qed.

Lemma rdo_b_gstep1_wfr sc st n st' n' : rdo_b_gstep1 sc st n st' n' -> rdo_b_wfr sc st n -> rdo_b_wfr sc st' n'.
Proof.
  intros H [W R]. inversion H; subst.
  - split. eapply rdo_b_step1_wf; eauto. eapply rdo_b_step1_rlt; eauto.
  - (* update anywhere *)
    assert (Hid : forall y, rdo_id (f y) = rdo_id y) by apply H0.
    assert (OLD : forall j y', rdo_get (rdo_update st i f) j = Some y' ->
                   exists y, rdo_get st j = Some y /\ rdo_par y' = rdo_par y /\ rdo_red y' = rdo_red y).
    { intros j y'. rewrite rdo_b_get_update by auto. destruct (j =? i); eauto.
      destruct (rdo_get st j); simpl; intros E; inversion E; subst. eexists; split; eauto. split; apply H0. }
    assert (GP : rdo_b_gpres st (rdo_update st i f)).
    { intros j y G. rewrite rdo_b_get_update by auto. destruct (j =? i); eauto.
      rewrite G; simpl. eexists; split; eauto. apply H0. }
    assert (BW : forall j, rdo_get st j <> None -> rdo_b_insc sc (rdo_update st i f) j -> rdo_b_insc sc st j).
    { intros; eapply rdo_b_insc_bwd; eauto. }
    pose proof W as (W1&W2&W3&W4).
    split; [split; [rewrite rdo_b_map_id_update; auto|split; [|split]]|].
    + intros j y' G. destruct (OLD _ _ G) as [y [Gy _]]. eauto.
    + intros j y' p G P. destruct (OLD _ _ G) as [y [Gy [Py _]]]. rewrite Py in P.
      destruct (W3 _ _ _ Gy P) as [? Hp]; split; auto. rewrite rdo_b_get_update_none; auto.
    + intros j y' r G Rr I Hr. destruct (OLD _ _ G) as [y [Gy [_ Ry]]]. rewrite Ry in Rr.
      eapply rdo_b_insc_fwd; [exact GP|]. eapply W4; eauto. apply BW; congruence.
      rewrite rdo_b_get_update_none in Hr; auto.
    + intros j y' r G Rr. destruct (OLD _ _ G) as [y [Gy [_ Ry]]]. rewrite Ry in Rr. eapply R; eauto.
  - (* a new item anywhere *)
    assert (Fx : rdo_get st (rdo_id x) = None) by (apply rdo_b_fresh; auto).
    assert (GP : rdo_b_gpres st (rdo_link st l x)).
    { intros j y G. rewrite rdo_b_get_link by auto. destruct (N.eqb_spec (rdo_id x) j). apply H1 in G; lia. eauto. }
    assert (BW : forall j, rdo_get st j <> None -> rdo_b_insc sc (rdo_link st l x) j -> rdo_b_insc sc st j).
    { intros; eapply rdo_b_insc_bwd; eauto. }
    pose proof W as (W1&W2&W3&W4).
    split; [split; [apply rdo_b_nodup_link; auto; apply rdo_b_get_none_notin; auto|split; [|split]]|].
    + intros j y'. rewrite rdo_b_get_link by auto. destruct (N.eqb_spec (rdo_id x) j). intros; lia. eauto.
    + intros j y' p. rewrite rdo_b_get_link by auto. destruct (N.eqb_spec (rdo_id x) j).
      * intros E P; inversion E; subst y'. pose proof (H3 _ P) as Hp.
        split. destruct (rdo_get st p) eqn:G; [|congruence]. apply H1 in G. lia.
        destruct (rdo_get st p) eqn:G; [|congruence]. destruct (GP _ _ G) as [? [-> _]]. discriminate.
      * intros G P. destruct (W3 _ _ _ G P) as [? Hp]; split; auto.
        destruct (rdo_get st p) eqn:G2; [|congruence]. destruct (GP _ _ G2) as [? [-> _]]. discriminate.
    + intros j y' r Gj Rr I Hr. rewrite rdo_b_get_link in Gj by auto. destruct (N.eqb_spec (rdo_id x) j).
      * inversion Gj; subst y'. congruence.
      * rewrite rdo_b_get_link in Hr by auto. destruct (N.eqb_spec (rdo_id x) r).
        -- subst r. exfalso. eapply H4; eauto.
        -- eapply rdo_b_insc_fwd; [exact GP|]. eapply W4; eauto. apply BW; congruence.
    + intros j y' r. rewrite rdo_b_get_link by auto. destruct (rdo_id x =? j); [|apply R].
      intros E; inversion E; subst. congruence.
  - (* the clock moves on *)
    destruct W as (W1&W2&W3&W4).
    split; [split; [auto|split; [|split]]|]; auto.
    + intros j y G. apply W2 in G. lia.
    + intros j y r G Rr. pose proof (R _ _ _ G Rr). lia.
Qed.

Lemma rdo_b_gsteps_wfr sc st n st' n' : rdo_b_gsteps sc st n st' n' -> rdo_b_wfr sc st n -> rdo_b_wfr sc st' n'.
Proof. induction 1; auto. intros; apply IHrdo_b_gsteps. eapply rdo_b_gstep1_wfr; eauto. Qed.

(* the calls of the user *)
Lemma rdo_b_delete_gsteps sc n f : forall st i st' d, rdo_delete f st i = RdoOk (st', d) -> rdo_b_gsteps sc st n st' n.
Proof.
  induction f; intros st i st' d H; simpl in H. discriminate.
  destruct (rdo_get st i) eqn:G; [|discriminate].
  destruct (rdo_del r). inversion H; subst; constructor.
  assert (G1 : rdo_b_gsteps sc st n (rdo_update st i rdo_set_del) n).
  { apply rdo_b_gsteps_one. apply rdo_b_gstep1_upd. apply rdo_b_set_del_fkeep. }
  destruct (rdo_cnt r). inversion H; subst; exact G1.
  eapply rdo_b_gsteps_trans; [exact G1|].
  apply (rdo_b_fold_inv _ (fun a a' => rdo_b_gsteps sc (fst a) n (fst a') n)) in H; auto.
  - intros; constructor.
  - intros; eapply rdo_b_gsteps_trans; eauto.
  - intros [s0 d0] j [s1 d1] HF. simpl in HF.
    destruct (rdo_delete f s0 j) as [[s2 d2]|] eqn:E; simpl in HF; inversion HF; subst. simpl. eauto.
Qed.

Lemma rdo_b_txn_delete_gsteps sc t i t' :
  rdo_txn_delete t i = RdoOk t' -> rdo_b_gsteps sc (rdo_st t) (rdo_next t) (rdo_st t') (rdo_next t').
Proof.
  unfold rdo_txn_delete. intros H.
  destruct (rdo_delete _ _ _) as [[s d]|] eqn:E; simpl in H; inversion H; subst; simpl.
  eapply rdo_b_delete_gsteps; eauto.
Qed.

Lemma rdo_b_integrate_gsteps sc t x l r t' :
  rdo_id x < rdo_next t -> (forall j y, rdo_get (rdo_st t) j = Some y -> j < rdo_id x) -> rdo_red x = None ->
  (forall p, rdo_par x = RdoItem p -> rdo_get (rdo_st t) p <> None) ->
  (forall j y, rdo_get (rdo_st t) j = Some y -> rdo_red y <> Some (rdo_id x)) ->
  rdo_integrate t x l r = RdoOk t' -> rdo_b_gsteps sc (rdo_st t) (rdo_next t) (rdo_st t') (rdo_next t').
Proof.
  intros Hlt Hfr Hr Hp Hn H. unfold rdo_integrate in H. cbv zeta in H.
  destruct (negb _); [discriminate|].
  remember (if rdo_detect_conflict (rdo_st t) l r then rdo_resolve_conflict (rdo_st t) x l r else l) as left'.
  rdo_b_bind H.
  assert (G2 : rdo_b_gsteps sc (rdo_st t) (rdo_next t) (rdo_st a) (rdo_next a)).
  { eapply rdo_b_gsteps_trans; [apply rdo_b_gsteps_one; apply (rdo_b_gstep1_link sc _ _ left' x); auto|].
    destruct (rdo_right _ _). inversion E; subst; simpl; constructor.
    destruct (rdo_sub x); [|inversion E; subst; simpl; constructor].
    destruct left'; [|inversion E; subst; simpl; constructor].
    apply (rdo_b_txn_delete_gsteps sc) in E. exact E. }
  destruct (_ || _).
  - eapply rdo_b_gsteps_trans; [exact G2|]. eapply rdo_b_txn_delete_gsteps; eauto.
  - inversion H; subst; exact G2.
Qed.

Definition rdo_b_pexists (st : list rdo_item) (p : rdo_parent) : Prop :=
  match p with RdoRoot _ => True | RdoItem q => rdo_get st q <> None end.

Lemma rdo_b_resolve_exists st path : forall par q, rdo_resolve st par path = Some q -> rdo_b_pexists st par -> rdo_b_pexists st q.
Proof.
  induction path; simpl; intros par q H Hp. inversion H; subst; auto.
  destruct a.
  - destruct (nth_error _ n) eqn:E; [|discriminate]. destruct (rdo_cnt r); [discriminate|].
    apply IHpath in H; auto. simpl. apply nth_error_In in E. unfold rdo_live in E. apply filter_In in E. destruct E as [E _].
    apply rdo_b_chain_in in E. apply rdo_b_in_get_some; tauto.
  - destruct (rdo_entry st par k) eqn:E; [|discriminate]. destruct (rdo_cnt r); [discriminate|].
    apply IHpath in H; auto. simpl. unfold rdo_entry in E.
    destruct (rdo_map_get st par k) eqn:M; [|discriminate]. destruct (rdo_get st n) eqn:G; [|discriminate].
    destruct (rdo_del r0); inversion E; subst. pose proof (rdo_b_get_in _ _ _ G) as [_ Hid]. rewrite Hid. congruence.
Qed.

Lemma rdo_b_new_item_gsteps sc t par sub c l r t' :
  rdo_b_wfr sc (rdo_st t) (rdo_next t) -> rdo_b_pexists (rdo_st t) par ->
  rdo_integrate (rdo_bump t) (rdo_new_item t par sub c l r) l r = RdoOk t' ->
  rdo_b_gsteps sc (rdo_st t) (rdo_next t) (rdo_st t') (rdo_next t').
Proof.
  intros [(W1&W2&W3&W4) R] Hp H.
  eapply rdo_b_gsteps_trans; [apply rdo_b_gsteps_one; apply rdo_b_gstep1_bump|].
  apply (rdo_b_integrate_gsteps sc) in H;
    [exact H | simpl; lia | simpl; intros j y G; eapply W2; eauto | reflexivity
    | simpl; intros p ->; exact Hp | simpl; intros j y G Hc; pose proof (R _ _ _ G Hc); lia].
Qed.

Lemma rdo_b_op_apply_gsteps sc t o t' :
  rdo_b_wfr sc (rdo_st t) (rdo_next t) -> rdo_op_apply t o = RdoOk t' ->
  rdo_b_gsteps sc (rdo_st t) (rdo_next t) (rdo_st t') (rdo_next t').
Proof.
  unfold rdo_op_apply. intros W H. destruct o.
  - destruct (rdo_resolve _ _ _) eqn:Rs; [|inversion H; subst; constructor].
    destruct (rdo_ins_point _ _ _) as [l0 r0]. eapply rdo_b_new_item_gsteps; eauto.
    eapply rdo_b_resolve_exists; eauto. simpl; auto.
  - destruct (rdo_resolve _ _ _); [|inversion H; subst; constructor].
    destruct (nth_error _ _); [|inversion H; subst; constructor].
    eapply rdo_b_txn_delete_gsteps; eauto.
  - destruct (rdo_resolve _ _ _) eqn:Rs; [|inversion H; subst; constructor].
    eapply rdo_b_new_item_gsteps; eauto. eapply rdo_b_resolve_exists; eauto. simpl; auto.
  - destruct (rdo_resolve _ _ _); [|inversion H; subst; constructor].
    destruct (rdo_entry _ _ _); [|inversion H; subst; constructor].
    eapply rdo_b_txn_delete_gsteps; eauto.
Qed.

Lemma rdo_b_ops_apply_gsteps sc ops : forall t t',
  rdo_b_wfr sc (rdo_st t) (rdo_next t) -> rdo_ops_apply t ops = RdoOk t' ->
  rdo_b_gsteps sc (rdo_st t) (rdo_next t) (rdo_st t') (rdo_next t').
Proof.
  induction ops; simpl; intros t t' W H. inversion H; subst; constructor.
  rdo_b_bind H. pose proof (rdo_b_op_apply_gsteps sc _ _ _ W E) as G1.
  eapply rdo_b_gsteps_trans; [exact G1|]. apply IHops; auto. eapply rdo_b_gsteps_wfr; eauto.
Qed.

Definition rdo_b_swf (s : rdo_state) : Prop := rdo_b_wfr (rdo_scope s) (rdo_doc s) (rdo_clock s).

Lemma rdo_b_after_txn_normal_wfr s t :
  rdo_b_wfr (rdo_scope s) (rdo_st t) (rdo_next t) ->
  rdo_b_swf (rdo_after_txn s t RdoNormal) /\ rdo_scope (rdo_after_txn s t RdoNormal) = rdo_scope s.
Proof.
  intros W. unfold rdo_b_swf, rdo_after_txn. destruct (negb _); simpl. split; auto.
  split; auto.
  assert (A : forall rs st, rdo_b_wfr (rdo_scope s) st (rdo_next t) ->
            rdo_b_wfr (rdo_scope s) (fold_left (fun s0 e => rdo_keep_all s0 (rdo_scope s) (rdo_sdel e) false) rs st) (rdo_next t)).
  { induction rs; simpl; intros st Ws; auto. apply IHrs.
    eapply rdo_b_steps_wfr; [|exact Ws]. apply rdo_b_keep_all_steps. apply Ws. }
  eapply rdo_b_steps_wfr; [apply rdo_b_keep_all_steps|]; apply A; auto.
Qed.

Lemma rdo_b_act_swf s a s' : rdo_b_swf s -> rdo_act s a = RdoOk s' -> rdo_b_swf s' /\ rdo_scope s' = rdo_scope s.
Proof.
  intros W H. destruct a; simpl in H.
  - assert (W0 : rdo_b_swf (rdo_reset s) /\ rdo_scope (rdo_reset s) = rdo_scope s) by (split; auto).
    revert H W0. generalize (rdo_reset s). induction txns; simpl; intros s0 H [W0 Sc].
    + inversion H; subst; auto.
    + destruct (rdo_tracked_txn s0 a) as [s1|] eqn:E; simpl in H.
      * unfold rdo_tracked_txn in E. rdo_b_bind E. inversion E; subst.
        apply (rdo_b_ops_apply_gsteps (rdo_scope s0)) in E0; [|exact W0].
        destruct (rdo_b_after_txn_normal_wfr s0 a0) as [W1 Sc1].
        { eapply rdo_b_gsteps_wfr; eauto. }
        apply IHtxns in H; auto. split; auto. congruence.
      * rewrite rdo_b_fold_err in H by reflexivity. discriminate.
  - rdo_b_bind H. inversion H; subst. unfold rdo_b_swf; simpl. split; auto.
    apply (rdo_b_ops_apply_gsteps (rdo_scope s)) in E; [|exact W]. eapply rdo_b_gsteps_wfr; eauto.
  - rdo_b_bind H. destruct a as [s1 b]. inversion H; subst.
    apply rdo_b_pop_steps in E; [|apply W]. destruct E as [S1 Sc]. split; auto.
    unfold rdo_b_swf. rewrite Sc. eapply rdo_b_steps_wfr; eauto.
  - rdo_b_bind H. destruct a as [s1 b]. inversion H; subst.
    apply rdo_b_pop_steps in E; [|apply W]. destruct E as [S1 Sc]. split; auto.
    unfold rdo_b_swf. rewrite Sc. eapply rdo_b_steps_wfr; eauto.
Qed.

Lemma rdo_b_run_swf p : forall s s', rdo_b_swf s -> rdo_run s p = RdoOk s' -> rdo_b_swf s' /\ rdo_scope s' = rdo_scope s.
Proof.
  induction p; simpl; intros s s' W H. inversion H; subst; auto.
  rdo_b_bind H. destruct (rdo_b_act_swf _ _ _ W E) as [W1 Sc1].
  destruct (IHp _ _ W1 H) as [W2 Sc2]. split; auto. congruence.
Qed.

Theorem rdo_b_wf_reachable : forall scope p s,
  rdo_run (rdo_state0 scope) p = RdoOk s -> rdo_scope s = scope /\ rdo_b_wf scope (rdo_doc s) (rdo_clock s).
Proof.
  intros scope p s H. apply rdo_b_run_swf in H.
  - destruct H as [[W _] Sc]. simpl in Sc. split; auto. rewrite <- Sc. exact W.
  - unfold rdo_b_swf, rdo_b_wfr, rdo_b_wf, rdo_b_rlt; simpl.
    split; [split; [constructor|split; [|split]]|]; intros; discriminate.
Qed.
Print Assumptions rdo_b_wf_reachable.

(* theorem 4 on reachable states, without hypothesis *)
Theorem rdo_b_untracked_untouched_reachable : forall scope p s s' b,
  rdo_run (rdo_state0 scope) p = RdoOk s ->
  (rdo_undo s = RdoOk (s', b) \/ rdo_redo_call s = RdoOk (s', b)) ->
  filter (fun x => negb (rdo_in_scope (rdo_doc s') scope (rdo_id x))) (rdo_doc s')
  = filter (fun x => negb (rdo_in_scope (rdo_doc s) scope (rdo_id x))) (rdo_doc s).
Proof.
  intros scope p s s' b Hr H. destruct (rdo_b_wf_reachable _ _ _ Hr) as [Sc W].
  rewrite <- Sc. apply rdo_untracked_untouched with (b := b); auto. rewrite Sc; auto.
Qed.
Print Assumptions rdo_b_untracked_untouched_reachable.

(* non-vacuity: a reachable state with nesting, re-created items (redone pointers) and a foreign item *)
Definition rdo_b_ex_prog : list rdo_action :=
  [RdoAStep [[RdoOIns 0 [] 0 (RdoType 0)]]; RdoAStep [[RdoOIns 0 [RdoIdx 0] 0 (RdoVal 7)]];
   RdoAOther [RdoOIns 2 [] 0 (RdoVal 9)]; RdoAStep [[RdoODel 0 [] 0]]; RdoAUndo].
Example rdo_b_wf_example : exists s,
  rdo_run (rdo_state0 [0;1]) rdo_b_ex_prog = RdoOk s /\ rdo_b_wf [0;1] (rdo_doc s) (rdo_clock s) /\
  map rdo_id (rdo_doc s) = [4; 3; 2; 1; 0] /\
  map rdo_par (rdo_doc s) = [RdoItem 3; RdoRoot 0; RdoRoot 2; RdoItem 0; RdoRoot 0] /\
  map rdo_red (rdo_doc s) = [None; None; None; Some 4; Some 3] /\
  map rdo_id (filter (fun x => negb (rdo_in_scope (rdo_doc s) [0;1] (rdo_id x))) (rdo_doc s)) = [2].
Proof.
  destruct (rdo_run (rdo_state0 [0;1]) rdo_b_ex_prog) as [s|] eqn:E; [|vm_compute in E; discriminate].
  exists s. split; auto. split. apply (rdo_b_wf_reachable _ _ _ E).
  vm_compute in E. inversion E; subst. vm_compute. auto.
Qed.
Print Assumptions rdo_b_wf_example.

(* ============================================================================================== *)
(* corollary: the render of a root outside the scope is unchanged *)

Definition rdo_b_outs (sc : list N) (st : list rdo_item) : list rdo_item :=
  filter (fun x => negb (rdo_in_scope st sc (rdo_id x))) st.
Definition rdo_b_pout (sc : list N) (st : list rdo_item) (me : rdo_parent) : Prop :=
  match me with RdoRoot n => rdo_mem n sc = false | RdoItem i => rdo_in_scope st sc i = false end.

Lemma rdo_b_child_out sc st n me y :
  rdo_b_wf sc st n -> rdo_b_pout sc st me -> In y st -> rdo_par y = me -> rdo_in_scope st sc (rdo_id y) = false.
Proof.
  intros W P Hy Hp. destruct (rdo_in_scope st sc (rdo_id y)) eqn:E; auto. exfalso.
  apply (rdo_b_in_scope_iff _ _ _ _ W) in E.
  rewrite (rdo_b_insc_pscoped sc st _ y) in E by (apply rdo_b_in_get; [apply W|auto]).
  rewrite Hp in E. destruct me; simpl in *. congruence.
  apply (rdo_b_in_scope_iff _ _ _ _ W) in E. congruence.
Qed.

Lemma rdo_b_filter_filter {A} (p q : A -> bool) l :
  (forall x, In x l -> p x = true -> q x = true) -> filter p (filter q l) = filter p l.
Proof.
  induction l; simpl; intros H; auto.
  destruct (q a) eqn:Q; simpl.
  - rewrite IHl; auto.
  - destruct (p a) eqn:P. rewrite (H a) in Q; auto; discriminate. apply IHl; auto.
Qed.

Lemma rdo_b_flat_map_filter {A B} (g : A -> list B) (q : A -> bool) l :
  (forall x, In x l -> q x = false -> g x = []) -> flat_map g (filter q l) = flat_map g l.
Proof.
  induction l; simpl; intros H; auto.
  destruct (q a) eqn:Q; simpl. rewrite IHl; auto. rewrite (H a); auto.
Qed.

Lemma rdo_b_flat_map_ext_in {A B} (g h : A -> list B) l : (forall x, In x l -> g x = h x) -> flat_map g l = flat_map h l.
Proof. induction l; simpl; intros H; auto. rewrite H, IHl; auto. Qed.

Lemma rdo_b_chain_outs sc st n me sub :
  rdo_b_wf sc st n -> rdo_b_pout sc st me -> rdo_chain (rdo_b_outs sc st) me sub = rdo_chain st me sub.
Proof.
  intros W P. unfold rdo_chain, rdo_b_outs. apply rdo_b_filter_filter.
  intros x Hx Hc. unfold rdo_in_chain in Hc. apply andb_true_iff in Hc. destruct Hc as [Hc _].
  apply rdo_b_par_eqb_eq in Hc. rewrite (rdo_b_child_out _ _ _ _ _ W P Hx Hc). reflexivity.
Qed.

Lemma rdo_b_keys_outs sc st n me :
  rdo_b_wf sc st n -> rdo_b_pout sc st me -> rdo_keys (rdo_b_outs sc st) me = rdo_keys st me.
Proof.
  intros W P. unfold rdo_keys, rdo_b_outs. f_equal. apply rdo_b_flat_map_filter.
  intros x Hx Hq. destruct (rdo_par_eqb (rdo_par x) me) eqn:Pe; auto.
  apply rdo_b_par_eqb_eq in Pe. rewrite (rdo_b_child_out _ _ _ _ _ W P Hx Pe) in Hq. discriminate.
Qed.

Lemma rdo_b_nodup_map_filter (q : rdo_item -> bool) l : NoDup (map rdo_id l) -> NoDup (map rdo_id (filter q l)).
Proof.
  induction l; simpl; intros H; auto. inversion H; subst.
  destruct (q a); simpl; auto. constructor; auto.
  intros Hc. apply H2. apply in_map_iff in Hc. destruct Hc as [y [E Hy]]. apply filter_In in Hy.
  rewrite <- E. apply in_map; tauto.
Qed.

Lemma rdo_b_entry_in st me k y : NoDup (map rdo_id st) -> rdo_entry st me k = Some y -> In y st /\ rdo_par y = me.
Proof.
  intros ND H. unfold rdo_entry in H.
  destruct (rdo_map_get st me k) eqn:M; [|discriminate]. destruct (rdo_get st n) eqn:G; [|discriminate].
  destruct (rdo_del r); inversion H; subst.
  apply rdo_b_map_get_in in M. destruct M as [y' [Hy' [P I]]].
  apply rdo_b_in_get in Hy'; auto. rewrite I in Hy'. rewrite G in Hy'. inversion Hy'; subst.
  apply rdo_b_get_in in G. tauto.
Qed.

Lemma rdo_b_entry_outs sc st n me k :
  rdo_b_wf sc st n -> rdo_b_pout sc st me -> rdo_entry (rdo_b_outs sc st) me k = rdo_entry st me k.
Proof.
  intros W P. unfold rdo_entry, rdo_map_get. rewrite (rdo_b_chain_outs _ _ _ _ _ W P).
  destruct (rev (rdo_chain st me (Some k))) as [|y rest] eqn:E; simpl; auto.
  assert (Hy : In y (rdo_chain st me (Some k))) by (apply in_rev; rewrite E; simpl; auto).
  apply rdo_b_chain_in in Hy. destruct Hy as [Hy Hp].
  assert (Ho : In y (rdo_b_outs sc st)).
  { unfold rdo_b_outs. apply filter_In. split; auto. rewrite (rdo_b_child_out _ _ _ _ _ W P Hy Hp). reflexivity. }
  destruct W as (W1&_).
  rewrite (rdo_b_in_get _ _ W1 Hy).
  rewrite (rdo_b_in_get (rdo_b_outs sc st) y); auto. apply rdo_b_nodup_map_filter; auto.
Qed.

Lemma rdo_b_render_item_unf f st x :
  rdo_render_item (S f) st x =
  match rdo_cnt x with
  | RdoVal v => [0; v]
  | RdoType k =>
      [1; k] ++ flat_map (rdo_render_item f st) (rdo_live (rdo_chain st (RdoItem (rdo_id x)) None)) ++ [2]
      ++ flat_map (fun key => match rdo_entry st (RdoItem (rdo_id x)) key with Some y => key :: rdo_render_item f st y | None => [] end)
                  (rdo_keys st (RdoItem (rdo_id x)))
      ++ [3]
  end.
Proof. reflexivity. Qed.

Lemma rdo_b_render_shape (pre A A' B B' : list N) :
  A = A' -> B = B' -> pre ++ A ++ [2] ++ B ++ [3] = pre ++ A' ++ [2] ++ B' ++ [3].
Proof. intros -> ->; reflexivity. Qed.

Lemma rdo_b_render_item_outs sc st n : rdo_b_wf sc st n -> forall f x,
  rdo_b_pout sc st (RdoItem (rdo_id x)) -> rdo_render_item f (rdo_b_outs sc st) x = rdo_render_item f st x.
Proof.
  intros W. induction f; intros x P; auto.
  rewrite !rdo_b_render_item_unf.
  destruct (rdo_cnt x); auto.
  rewrite (rdo_b_chain_outs _ _ _ _ _ W P), (rdo_b_keys_outs _ _ _ _ W P).
  apply rdo_b_render_shape.
  - apply rdo_b_flat_map_ext_in. intros y Hy. apply IHf. simpl.
    unfold rdo_live in Hy. apply filter_In in Hy. destruct Hy as [Hy _]. apply rdo_b_chain_in in Hy.
    destruct Hy. eapply rdo_b_child_out; eauto.
  - apply rdo_b_flat_map_ext_in. intros key _. rewrite (rdo_b_entry_outs _ _ _ _ _ W P).
    destruct (rdo_entry st (RdoItem (rdo_id x)) key) eqn:E; auto. f_equal. apply IHf. simpl.
    apply rdo_b_entry_in in E; [|apply W]. destruct E. eapply rdo_b_child_out; eauto.
Qed.

Definition rdo_b_render_root_f (f : nat) (st : list rdo_item) (root : N) : list N :=
  let me := RdoRoot root in
  flat_map (rdo_render_item f st) (rdo_live (rdo_chain st me None)) ++ [2]
  ++ flat_map (fun key => match rdo_entry st me key with Some y => key :: rdo_render_item f st y | None => [] end) (rdo_keys st me)
  ++ [3].

Lemma rdo_b_render_root_outs sc st n f root : rdo_b_wf sc st n -> rdo_mem root sc = false ->
  rdo_b_render_root_f f (rdo_b_outs sc st) root = rdo_b_render_root_f f st root.
Proof.
  intros W P. unfold rdo_b_render_root_f.
  assert (P' : rdo_b_pout sc st (RdoRoot root)) by exact P.
  rewrite (rdo_b_chain_outs _ _ _ _ _ W P'), (rdo_b_keys_outs _ _ _ _ W P').
  apply (rdo_b_render_shape []).
  - apply rdo_b_flat_map_ext_in. intros y Hy. apply (rdo_b_render_item_outs _ _ _ W). simpl.
    unfold rdo_live in Hy. apply filter_In in Hy. destruct Hy as [Hy _]. apply rdo_b_chain_in in Hy.
    destruct Hy. eapply rdo_b_child_out; eauto.
  - apply rdo_b_flat_map_ext_in. intros key _. rewrite (rdo_b_entry_outs _ _ _ _ _ W P').
    destruct (rdo_entry st (RdoRoot root) key) eqn:E; auto. f_equal. apply (rdo_b_render_item_outs _ _ _ W). simpl.
    apply rdo_b_entry_in in E; [|apply W]. destruct E. eapply rdo_b_child_out; eauto.
Qed.

(* the fuel: enough once it reaches the number of items *)
Section rdo_b_fuel.
  Variable rdo_b_L : list rdo_item.
  Hypothesis rdo_b_ND : NoDup (map rdo_id rdo_b_L).
  Hypothesis rdo_b_OLD : forall y p, In y rdo_b_L -> rdo_par y = RdoItem p -> p < rdo_id y.

  Lemma rdo_b_render_item_S f x :
    rdo_render_item (S f) rdo_b_L x =
    match rdo_cnt x with
    | RdoVal v => [0; v]
    | RdoType k =>
        [1; k] ++ flat_map (rdo_render_item f rdo_b_L) (rdo_live (rdo_chain rdo_b_L (RdoItem (rdo_id x)) None)) ++ [2]
        ++ flat_map (fun key => match rdo_entry rdo_b_L (RdoItem (rdo_id x)) key with Some y => key :: rdo_render_item f rdo_b_L y | None => [] end)
                    (rdo_keys rdo_b_L (RdoItem (rdo_id x)))
        ++ [3]
    end.
  Proof. reflexivity. Qed.

  Lemma rdo_b_render_item_stab : forall f V x,
    In x rdo_b_L -> NoDup V -> incl V (map rdo_id rdo_b_L) -> (forall v, In v V -> v < rdo_id x) ->
    (length (map rdo_id rdo_b_L) <= f + length V)%nat ->
    rdo_render_item f rdo_b_L x = rdo_render_item (S f) rdo_b_L x.
  Proof.
    induction f; intros V x Hx NV IV LT LEN.
    - exfalso. assert (NoDup (rdo_id x :: V)). { constructor; auto. intros Hc; apply LT in Hc; lia. }
      assert (incl (rdo_id x :: V) (map rdo_id rdo_b_L)). { intros z [<-|Hz]; auto. apply in_map; auto. }
      pose proof (NoDup_incl_length H H0). simpl in *. lia.
    - rewrite (rdo_b_render_item_S (S f)), (rdo_b_render_item_S f).
      destruct (rdo_cnt x); auto.
      assert (KID : forall y, In y rdo_b_L -> rdo_par y = RdoItem (rdo_id x) -> rdo_render_item f rdo_b_L y = rdo_render_item (S f) rdo_b_L y).
      { intros y Hy Py. apply (IHf (rdo_id x :: V)); auto.
        - constructor; auto. intros Hc; apply LT in Hc; lia.
        - intros z [<-|Hz]; auto. apply in_map; auto.
        - pose proof (rdo_b_OLD _ _ Hy Py). intros v [<-|Hv]; auto. apply LT in Hv. lia.
        - simpl; lia. }
      apply rdo_b_render_shape.
      + apply rdo_b_flat_map_ext_in. intros y Hy.
        unfold rdo_live in Hy. apply filter_In in Hy. destruct Hy as [Hy _]. apply rdo_b_chain_in in Hy.
        destruct Hy. apply KID; auto.
      + apply rdo_b_flat_map_ext_in. intros key _.
        destruct (rdo_entry rdo_b_L (RdoItem (rdo_id x)) key) eqn:E; auto. f_equal.
        apply rdo_b_entry_in in E; auto. destruct E. apply KID; auto.
  Qed.

  Lemma rdo_b_render_root_stab f root : (length rdo_b_L <= f)%nat ->
    rdo_b_render_root_f f rdo_b_L root = rdo_b_render_root_f (S f) rdo_b_L root.
  Proof.
    intros LEN. unfold rdo_b_render_root_f.
    assert (KID : forall y, In y rdo_b_L -> rdo_render_item f rdo_b_L y = rdo_render_item (S f) rdo_b_L y).
    { intros y Hy. apply (rdo_b_render_item_stab f []); auto. constructor. intros z []. intros v [].
      rewrite map_length; simpl; lia. }
    apply (rdo_b_render_shape []).
    - apply rdo_b_flat_map_ext_in. intros y Hy.
      unfold rdo_live in Hy. apply filter_In in Hy. destruct Hy as [Hy _]. apply rdo_b_chain_in in Hy.
      destruct Hy. apply KID; auto.
    - apply rdo_b_flat_map_ext_in. intros key _.
      destruct (rdo_entry rdo_b_L (RdoRoot root) key) eqn:E; auto. f_equal.
      apply rdo_b_entry_in in E; auto. destruct E. apply KID; auto.
  Qed.

  Lemma rdo_b_render_root_fuel k root :
    rdo_b_render_root_f (length rdo_b_L + k) rdo_b_L root = rdo_b_render_root_f (length rdo_b_L) rdo_b_L root.
  Proof.
    induction k. replace (length rdo_b_L + 0)%nat with (length rdo_b_L) by lia; auto.
    replace (length rdo_b_L + S k)%nat with (S (length rdo_b_L + k)) by lia.
    rewrite <- rdo_b_render_root_stab by lia. auto.
  Qed.
End rdo_b_fuel.

Lemma rdo_b_filter_length {A} (q : A -> bool) l : (length (filter q l) <= length l)%nat.
Proof. induction l; simpl; auto. destruct (q a); simpl; lia. Qed.

Lemma rdo_b_render_root_by_outs sc st n root : rdo_b_wf sc st n -> rdo_mem root sc = false ->
  rdo_render_root st root = rdo_b_render_root_f (length (rdo_b_outs sc st)) (rdo_b_outs sc st) root.
Proof.
  intros W P. change (rdo_render_root st root) with (rdo_b_render_root_f (length st) st root).
  rewrite <- (rdo_b_render_root_outs sc st n) by auto.
  pose proof (rdo_b_filter_length (fun x => negb (rdo_in_scope st sc (rdo_id x))) st) as LE.
  fold (rdo_b_outs sc st) in LE.
  replace (length st) with (length (rdo_b_outs sc st) + (length st - length (rdo_b_outs sc st)))%nat by lia.
  apply rdo_b_render_root_fuel.
  - apply rdo_b_nodup_map_filter. apply W.
  - intros y p Hy Py. unfold rdo_b_outs in Hy. apply filter_In in Hy. destruct Hy as [Hy _].
    destruct W as (W1&_&W3&_). apply (rdo_b_in_get _ _ W1) in Hy. destruct (W3 _ _ _ Hy Py); auto.
Qed.

Theorem rdo_untracked_render_same : forall s s' b root,
  rdo_b_wf (rdo_scope s) (rdo_doc s) (rdo_clock s) ->
  (rdo_undo s = RdoOk (s', b) \/ rdo_redo_call s = RdoOk (s', b)) ->
  rdo_mem root (rdo_scope s) = false ->
  rdo_render_root (rdo_doc s') root = rdo_render_root (rdo_doc s) root.
Proof.
  intros s s' b root W H P.
  pose proof (rdo_untracked_untouched _ _ _ W H) as U.
  destruct (rdo_b_untracked_wf_kept _ _ _ W H) as [Sc W'].
  rewrite Sc in W'.
  rewrite (rdo_b_render_root_by_outs _ _ _ _ W P), (rdo_b_render_root_by_outs _ _ _ _ W' P).
  unfold rdo_b_outs. rewrite U. reflexivity.
Qed.
Print Assumptions rdo_untracked_render_same.

Theorem rdo_b_untracked_render_same_reachable : forall scope p s s' b root,
  rdo_run (rdo_state0 scope) p = RdoOk s ->
  (rdo_undo s = RdoOk (s', b) \/ rdo_redo_call s = RdoOk (s', b)) ->
  rdo_mem root scope = false ->
  rdo_render_root (rdo_doc s') root = rdo_render_root (rdo_doc s) root.
Proof.
  intros scope p s s' b root Hr H P. destruct (rdo_b_wf_reachable _ _ _ Hr) as [Sc W].
  apply rdo_untracked_render_same with (b := b); auto; rewrite Sc; auto.
Qed.
Print Assumptions rdo_b_untracked_render_same_reachable.

(* ============================================================================================== *)
(* B3 / B4: what an undo / redo call deletes *)

Definition rdo_b_dle (y y' : rdo_item) : Prop :=
  rdo_id y' = rdo_id y /\ rdo_par y' = rdo_par y /\ rdo_sub y' = rdo_sub y /\ (rdo_del y = true -> rdo_del y' = true).
Definition rdo_b_gdle (st st' : list rdo_item) : Prop :=
  forall j y, rdo_get st j = Some y -> exists y', rdo_get st' j = Some y' /\ rdo_b_dle y y'.

Lemma rdo_b_dle_refl y : rdo_b_dle y y.
Proof. unfold rdo_b_dle; auto. Qed.
Lemma rdo_b_dle_trans x y z : rdo_b_dle x y -> rdo_b_dle y z -> rdo_b_dle x z.
Proof. unfold rdo_b_dle; intros (a1&a2&a3&a4) (b1&b2&b3&b4). repeat split; try congruence; auto. Qed.
Lemma rdo_b_gdle_refl st : rdo_b_gdle st st.
Proof. intros j y G; eauto using rdo_b_dle_refl. Qed.
Lemma rdo_b_gdle_trans a b c : rdo_b_gdle a b -> rdo_b_gdle b c -> rdo_b_gdle a c.
Proof.
  intros H1 H2 j y G. destruct (H1 _ _ G) as [y' [G' L']]. destruct (H2 _ _ G') as [y'' [G'' L'']].
  exists y''; split; auto. eapply rdo_b_dle_trans; eauto.
Qed.
Lemma rdo_b_gdle_none a b j : rdo_b_gdle a b -> rdo_get b j = None -> rdo_get a j = None.
Proof. intros H G. destruct (rdo_get a j) eqn:E; auto. destruct (H _ _ E) as [? [? _]]. congruence. Qed.

Lemma rdo_b_ext_gdle l l' : rdo_b_ext l l' -> NoDup (map rdo_id l') -> rdo_b_gdle l l'.
Proof.
  induction 1; intros ND j y G.
  - discriminate.
  - inversion ND; subst. destruct (IHrdo_b_ext H3 _ _ G) as [y' [G' L']]. exists y'; split; auto.
    simpl. destruct (N.eqb_spec (rdo_id x') j); auto. exfalso. apply H2.
    apply rdo_b_get_in in G'. destruct G' as [Hin Hid]. rewrite e, <- Hid. apply in_map; auto.
  - inversion ND; subst. simpl in G. simpl. destruct H as (a1&a2&a3&a4&a5&a6&a7&a8). rewrite a1.
    destruct (rdo_id x =? j).
    + inversion G; subst. exists x'; split; auto. unfold rdo_b_dle; auto.
    + apply IHrdo_b_ext; auto.
Qed.

(* newly deleted between st0 and st *)
Definition rdo_b_newdel (st0 st : list rdo_item) (j : N) : Prop :=
  exists y y', rdo_get st0 j = Some y /\ rdo_del y = false /\ rdo_get st j = Some y' /\ rdo_del y' = true.
Definition rdo_b_parnew (st0 st : list rdo_item) (j : N) : Prop :=
  exists y p, rdo_get st0 j = Some y /\ rdo_par y = RdoItem p /\ rdo_b_newdel st0 st p.
Definition rdo_b_cnew (st0 st : list rdo_item) (j : N) : Prop :=
  exists y k c, rdo_get st0 j = Some y /\ rdo_sub y = Some k /\ rdo_get st0 (rdo_id c) = None /\
                rdo_get st (rdo_id c) = Some c /\ rdo_par c = rdo_par y /\ rdo_sub c = Some k.
Definition rdo_b_cause (A : N -> Prop) (st0 st : list rdo_item) (j : N) : Prop :=
  A j \/ rdo_b_parnew st0 st j \/ rdo_b_cnew st0 st j.
Definition rdo_b_ki (A : N -> Prop) (st0 st : list rdo_item) : Prop :=
  rdo_b_gdle st0 st /\ forall j, rdo_b_newdel st0 st j -> rdo_b_cause A st0 st j.

Lemma rdo_b_newdel_mono st0 st st' j : rdo_b_newdel st0 st j -> rdo_b_gdle st st' -> rdo_b_newdel st0 st' j.
Proof.
  intros (y&y'&G0&D0&G&D) H. destruct (H _ _ G) as [y'' [G'' (_&_&_&L)]]. exists y, y''; auto.
Qed.

Lemma rdo_b_cause_mono A st0 st st' j : rdo_b_cause A st0 st j -> rdo_b_gdle st st' -> rdo_b_cause A st0 st' j.
Proof.
  intros [H|[H|H]] GL. left; auto.
  - right; left. destruct H as (y&p&G&P&N). exists y, p; split; auto. split; auto. eapply rdo_b_newdel_mono; eauto.
  - right; right. destruct H as (y&k&c&G&S&G0&Gc&Pc&Sc).
    destruct (GL _ _ Gc) as [c' [Gc' (I&P&Sb&_)]].
    exists y, k, c'. rewrite I. repeat split; auto; congruence.
Qed.

Lemma rdo_b_ki_refl A st : rdo_b_ki A st st.
Proof.
  split. apply rdo_b_gdle_refl. intros j (y&y'&G0&D0&G&D). rewrite G0 in G; inversion G; subst. congruence.
Qed.

Definition rdo_b_pclosed (st0 : list rdo_item) : Prop :=
  forall j x p, rdo_get st0 j = Some x -> rdo_par x = RdoItem p -> rdo_get st0 p <> None.

(* composition: the causes B of the second part are explained relative to the start *)
Lemma rdo_b_ki_comp (A B : N -> Prop) st0 st st' :
  rdo_b_pclosed st0 -> rdo_b_ki A st0 st -> rdo_b_ki B st st' ->
  (forall j, B j -> rdo_b_newdel st0 st' j -> rdo_b_cause A st0 st' j) -> rdo_b_ki A st0 st'.
Proof.
  intros PC [GL1 K1] [GL2 K2] HB. split. eapply rdo_b_gdle_trans; eauto.
  intros j N. pose proof N as (y0&y'&G0&D0&G'&D').
  destruct (GL1 _ _ G0) as [ys [Gs (Is&Ps&Ss&Ds)]].
  destruct (rdo_del ys) eqn:Dl.
  - eapply rdo_b_cause_mono; [|exact GL2]. apply K1. exists y0, ys; auto.
  - assert (N2 : rdo_b_newdel st st' j) by (exists ys, y'; auto).
    destruct (K2 _ N2) as [Hb|[Hp|Hc]].
    + apply HB; auto.
    + right; left. destruct Hp as (ys'&p&Gs'&Pp&(yp&yp'&Gp&Dp&Gp'&Dp')).
      rewrite Gs in Gs'; inversion Gs'; subst ys'.
      exists y0, p. split; auto. split. congruence.
      destruct (rdo_get st0 p) as [yp0|] eqn:Gp0.
      * destruct (GL1 _ _ Gp0) as [yps [Gps (_&_&_&Dps)]]. rewrite Gp in Gps; inversion Gps; subst yps.
        exists yp0, yp'. repeat split; auto. destruct (rdo_del yp0); auto. rewrite Dps in Dp; auto.
      * exfalso. eapply PC; eauto. congruence.
    + right; right. destruct Hc as (ys'&k&c&Gs'&Sk&Gc0&Gc&Pc&Sc).
      rewrite Gs in Gs'; inversion Gs'; subst ys'.
      exists y0, k, c. repeat split; auto; try congruence. eapply rdo_b_gdle_none; eauto.
Qed.

(* changes that delete nothing *)
Definition rdo_b_deq (st st' : list rdo_item) : Prop :=
  rdo_b_gdle st st' /\ forall j y y', rdo_get st j = Some y -> rdo_get st' j = Some y' -> rdo_del y' = rdo_del y.

Lemma rdo_b_deq_refl st : rdo_b_deq st st.
Proof. split. apply rdo_b_gdle_refl. intros j y y' G G'; congruence. Qed.
Lemma rdo_b_deq_trans a b c : rdo_b_deq a b -> rdo_b_deq b c -> rdo_b_deq a c.
Proof.
  intros [G1 D1] [G2 D2]; split. eapply rdo_b_gdle_trans; eauto.
  intros j y y'' Ga Gc. destruct (G1 _ _ Ga) as [y' [Gb _]]. rewrite (D2 _ _ _ Gb Gc). eauto.
Qed.

Lemma rdo_b_deq_ki B st st' : rdo_b_deq st st' -> rdo_b_ki B st st'.
Proof.
  intros [GL D]; split; auto. intros j (y&y'&G0&D0&G&D'). rewrite (D _ _ _ G0 G) in D'. congruence.
Qed.

Lemma rdo_b_deq_update st i f :
  (forall y, rdo_id (f y) = rdo_id y /\ rdo_par (f y) = rdo_par y /\ rdo_sub (f y) = rdo_sub y /\ rdo_del (f y) = rdo_del y) ->
  rdo_b_deq st (rdo_update st i f).
Proof.
  intros Hf. assert (Hid : forall y, rdo_id (f y) = rdo_id y) by apply Hf. split.
  - intros j y G. rewrite rdo_b_get_update by auto. destruct (j =? i). 2: eauto using rdo_b_dle_refl.
    rewrite G; simpl. eexists; split; eauto. destruct (Hf y) as (a&b&c&d). unfold rdo_b_dle. rewrite d; auto.
  - intros j y y' G. rewrite rdo_b_get_update by auto. destruct (j =? i). 2: congruence.
    rewrite G; simpl. intros E; inversion E; subst. apply Hf.
Qed.

Lemma rdo_b_deq_link st l x : rdo_get st (rdo_id x) = None -> rdo_b_deq st (rdo_link st l x).
Proof.
  intros F. split.
  - intros j y G. rewrite rdo_b_get_link by auto. destruct (N.eqb_spec (rdo_id x) j). congruence. eauto using rdo_b_dle_refl.
  - intros j y y' G. rewrite rdo_b_get_link by auto. destruct (N.eqb_spec (rdo_id x) j); congruence.
Qed.

(* --- delete: what it marks is the item itself or has a parent it marks *)
Definition rdo_b_dr (st st' : list rdo_item) : Prop :=
  rdo_b_gdle st st' /\ (forall j, rdo_get st j = None -> rdo_get st' j = None) /\ map rdo_id st' = map rdo_id st.

Lemma rdo_b_dr_refl st : rdo_b_dr st st.
Proof. split; [apply rdo_b_gdle_refl|auto]. Qed.
Lemma rdo_b_dr_trans a b c : rdo_b_dr a b -> rdo_b_dr b c -> rdo_b_dr a c.
Proof. intros (g1&n1&m1) (g2&n2&m2). split; [eapply rdo_b_gdle_trans; eauto|split; [auto|congruence]]. Qed.

Lemma rdo_b_dr_set_del st i : rdo_b_dr st (rdo_update st i rdo_set_del).
Proof.
  split; [|split].
  - intros j y G. rewrite rdo_b_get_update by auto. destruct (j =? i). 2: eauto using rdo_b_dle_refl.
    rewrite G; simpl. eexists; split; eauto. unfold rdo_b_dle; simpl; auto.
  - intros j G. apply rdo_b_get_update_none; auto.
  - apply rdo_b_map_id_update; auto.
Qed.

Lemma rdo_b_delete_dr f : forall st i st' d, rdo_delete f st i = RdoOk (st', d) -> rdo_b_dr st st'.
Proof.
  induction f; intros st i st' d H; simpl in H. discriminate.
  destruct (rdo_get st i) eqn:G; [|discriminate].
  destruct (rdo_del r). inversion H; subst; apply rdo_b_dr_refl.
  pose proof (rdo_b_dr_set_del st i) as G1.
  destruct (rdo_cnt r). inversion H; subst; exact G1.
  eapply rdo_b_dr_trans; [exact G1|].
  apply (rdo_b_fold_inv _ (fun a a' => rdo_b_dr (fst a) (fst a'))) in H; auto.
  - intros; apply rdo_b_dr_refl.
  - intros; eapply rdo_b_dr_trans; eauto.
  - intros [s0 d0] j [s1 d1] HF. simpl in HF.
    destruct (rdo_delete f s0 j) as [[s2 d2]|] eqn:E; simpl in HF; inversion HF; subst. simpl. eauto.
Qed.

Lemma rdo_b_delete_kill f : forall st i st' d,
  NoDup (map rdo_id st) -> rdo_delete f st i = RdoOk (st', d) ->
  forall j, rdo_b_newdel st st' j -> j = i \/ rdo_b_parnew st st' j.
Proof.
  induction f; intros st i st' d ND H; simpl in H. discriminate.
  destruct (rdo_get st i) eqn:G; [|discriminate].
  destruct (rdo_del r) eqn:Dr.
  { inversion H; subst. intros j (y&y'&G0&D0&G1&D1). rewrite G0 in G1; inversion G1; subst. congruence. }
  set (st1 := rdo_update st i rdo_set_del) in *.
  assert (Q1 : forall j, rdo_b_newdel st st1 j -> j = i).
  { intros j (y&y'&G0&D0&G1&D1). unfold st1 in G1. rewrite rdo_b_get_update in G1 by auto.
    destruct (N.eqb_spec j i); auto. rewrite G0 in G1; inversion G1; subst. congruence. }
  destruct (rdo_cnt r). { inversion H; subst. intros j Hj; left; auto. }
  assert (Ni : rdo_b_newdel st st1 i).
  { exists r, (rdo_set_del r). repeat split; auto. unfold st1. rewrite rdo_b_get_update by auto.
    rewrite N.eqb_refl, G; auto. }
  assert (ND1 : NoDup (map rdo_id st1)) by (unfold st1; rewrite rdo_b_map_id_update; auto).
  assert (KIDS : forall j, In j (map rdo_id (filter (fun y => negb (rdo_del y)) (rdo_chain st1 (RdoItem i) None)) ++
                                flat_map (fun k => match rdo_map_get st1 (RdoItem i) k with Some j => [j] | None => [] end) (rdo_keys st1 (RdoItem i))) ->
                      exists yk, rdo_get st j = Some yk /\ rdo_par yk = RdoItem i).
  { assert (A : forall y, In y st1 -> rdo_par y = RdoItem i -> exists yk, rdo_get st (rdo_id y) = Some yk /\ rdo_par yk = RdoItem i).
    { intros y Hy Py. apply (rdo_b_in_get _ _ ND1) in Hy. unfold st1 in Hy. rewrite rdo_b_get_update in Hy by auto.
      destruct (rdo_id y =? i). destruct (rdo_get st (rdo_id y)); simpl in Hy; inversion Hy; subst. eexists; split; eauto.
      eauto. }
    intros j Hj. apply in_app_or in Hj. destruct Hj as [Hj|Hj].
    - apply in_map_iff in Hj. destruct Hj as [y [<- Hy]]. apply filter_In in Hy. destruct Hy as [Hy _].
      apply rdo_b_chain_in in Hy. destruct Hy. auto.
    - apply in_flat_map in Hj. destruct Hj as [k [_ Hk]].
      destruct (rdo_map_get st1 (RdoItem i) k) eqn:M; [|contradiction]. destruct Hk as [<-|[]].
      apply rdo_b_map_get_in in M. destruct M as [y [Hy [P <-]]]. auto. }
  assert (DR1 : rdo_b_dr st st1) by apply rdo_b_dr_set_del.
  assert (QQ1 : forall j, rdo_b_newdel st st1 j -> j = i \/ rdo_b_parnew st st1 j) by (intros j Hj; left; auto).
  revert H KIDS DR1 QQ1 Ni.
  generalize (map rdo_id (filter (fun y => negb (rdo_del y)) (rdo_chain st1 (RdoItem i) None)) ++
              flat_map (fun k => match rdo_map_get st1 (RdoItem i) k with Some j => [j] | None => [] end) (rdo_keys st1 (RdoItem i))).
  generalize st1. generalize [i]. clear - IHf ND.
  intros d0 s l; revert s d0. induction l; simpl; intros s d0 H K DR Q Ni.
  - inversion H; subst; auto.
  - destruct (rdo_delete f s a) as [[s1 d1]|] eqn:E; simpl in H.
    2: { rewrite rdo_b_fold_err in H by reflexivity. discriminate. }
    pose proof (rdo_b_delete_dr _ _ _ _ _ E) as DRs.
    assert (NDs : NoDup (map rdo_id s)). { destruct DR as (_&_&->). auto. }
    pose proof (IHf _ _ _ _ NDs E) as KL.
    eapply IHl; [exact H | intros; apply K; auto | eapply rdo_b_dr_trans; eauto | | eapply rdo_b_newdel_mono; [exact Ni|apply DRs]].
    intros j N. pose proof N as (y0&y'&G0&D0&G'&D').
    destruct DR as (GL&NN&_). destruct DRs as (GLs&NNs&_).
    destruct (GL _ _ G0) as [ys [Gs (Is&Ps&Ss&Ds)]].
    destruct (rdo_del ys) eqn:Dl.
    + destruct (Q j) as [?|Hp]; auto. exists y0, ys; auto.
      right. destruct Hp as (y&p&Gy&Py&Np). exists y, p. repeat split; auto. eapply rdo_b_newdel_mono; eauto.
    + assert (N2 : rdo_b_newdel s s1 j) by (exists ys, y'; auto).
      destruct (KL _ N2) as [->|Hp].
      * right. destruct (K a) as [yk [Gk Pk]]; auto. exists yk, i. repeat split; auto.
        eapply rdo_b_newdel_mono; eauto.
      * right. destruct Hp as (ys'&p&Gs'&Pp&(yp&yp'&Gp&Dp&Gp'&Dp')).
        rewrite Gs in Gs'; inversion Gs'; subst ys'.
        exists y0, p. split; auto. split. congruence.
        destruct (rdo_get st p) as [yp0|] eqn:Gp0.
        -- destruct (GL _ _ Gp0) as [yps [Gps (_&_&_&Dps)]]. rewrite Gp in Gps; inversion Gps; subst yps.
           exists yp0, yp'. repeat split; auto. destruct (rdo_del yp0); auto. rewrite Dps in Dp; auto.
        -- apply NN in Gp0. congruence.
Qed.

Lemma rdo_b_ki_weaken (A B : N -> Prop) st st' : (forall j, B j -> A j) -> rdo_b_ki B st st' -> rdo_b_ki A st st'.
Proof.
  intros HB [GL K]; split; auto. intros j Nj. destruct (K j Nj) as [?|[?|?]]; [left; auto|right; left; auto|right; right; auto].
Qed.

Lemma rdo_b_delete_ki f st i st' d :
  NoDup (map rdo_id st) -> rdo_delete f st i = RdoOk (st', d) -> rdo_b_ki (fun j => j = i) st st'.
Proof.
  intros ND H. split. apply (rdo_b_delete_dr _ _ _ _ _ H).
  intros j Nj. destruct (rdo_b_delete_kill _ _ _ _ _ ND H j Nj); [left|right; left]; auto.
Qed.

Lemma rdo_b_txn_delete_ki t i t' :
  NoDup (map rdo_id (rdo_st t)) -> rdo_txn_delete t i = RdoOk t' ->
  rdo_b_ki (fun j => j = i) (rdo_st t) (rdo_st t') /\ map rdo_id (rdo_st t') = map rdo_id (rdo_st t).
Proof.
  unfold rdo_txn_delete. intros ND H.
  destruct (rdo_delete _ _ _) as [[s d]|] eqn:E; simpl in H; inversion H; subst; simpl.
  split. eapply rdo_b_delete_ki; eauto. apply (rdo_b_delete_dr _ _ _ _ _ E).
Qed.

Lemma rdo_b_on_eqb_eq a b : rdo_on_eqb a b = true -> a = b.
Proof. destruct a, b; simpl; try discriminate; auto. intros H; apply N.eqb_eq in H; congruence. Qed.

Lemma rdo_b_chain_in2 st par sub y : In y (rdo_chain st par sub) -> In y st /\ rdo_par y = par /\ rdo_sub y = sub.
Proof.
  unfold rdo_chain. rewrite filter_In. unfold rdo_in_chain. intros [H1 H2].
  apply andb_true_iff in H2. destruct H2 as [H2 H3]. split; auto. split.
  apply rdo_b_par_eqb_eq; auto. apply rdo_b_on_eqb_eq; auto.
Qed.

Lemma rdo_b_left_ok2 st x left right l0 :
  NoDup (map rdo_id st) -> rdo_neighbour_ok st x left = true ->
  (if rdo_detect_conflict st left right then rdo_resolve_conflict st x left right else left) = Some l0 ->
  exists y, rdo_get st l0 = Some y /\ rdo_par y = rdo_par x /\ rdo_sub y = rdo_sub x.
Proof.
  intros W1 NO H.
  assert (A : left = Some l0 -> exists y, rdo_get st l0 = Some y /\ rdo_par y = rdo_par x /\ rdo_sub y = rdo_sub x).
  { intros ->. simpl in NO. destruct (rdo_get st l0); [|discriminate]. exists r; split; auto.
    unfold rdo_in_chain in NO. apply andb_true_iff in NO. destruct NO as [NO NO2]. split.
    apply rdo_b_par_eqb_eq; auto. apply rdo_b_on_eqb_eq; auto. }
  destruct (rdo_detect_conflict st left right); auto.
  unfold rdo_resolve_conflict in H. apply rdo_b_scan_res in H. destruct H as [H|[it [Hin <-]]]; auto.
  assert (In it (rdo_chain st (rdo_par x) (rdo_sub x))).
  { destruct left as [l|]; auto.
    destruct (rdo_split (rdo_chain st (rdo_par x) (rdo_sub x)) l []) as [[[b y] a]|] eqn:E; [|contradiction].
    eapply rdo_b_split_incl; eauto. }
  apply rdo_b_chain_in2 in H. destruct H as (?&?&?). exists it; split; auto. apply rdo_b_in_get; auto.
Qed.

Lemma rdo_b_wf_pclosed sc st n : rdo_b_wf sc st n -> rdo_b_pclosed st.
Proof. intros (_&_&W3&_) j x p G P. destruct (W3 _ _ _ G P); auto. Qed.

Lemma rdo_b_integrate_ki t x l r t' :
  NoDup (map rdo_id (rdo_st t)) -> rdo_b_pclosed (rdo_st t) -> rdo_get (rdo_st t) (rdo_id x) = None ->
  rdo_integrate t x l r = RdoOk t' ->
  rdo_b_ki (fun _ => False) (rdo_st t) (rdo_st t') /\ NoDup (map rdo_id (rdo_st t')).
Proof.
  intros ND PC Fx H. unfold rdo_integrate in H. cbv zeta in H.
  destruct (rdo_neighbour_ok (rdo_st t) x l && rdo_neighbour_ok (rdo_st t) x r) eqn:NO; simpl in H; [|discriminate].
  apply andb_true_iff in NO. destruct NO as [NO _].
  pose proof (fun l0 => rdo_b_left_ok2 (rdo_st t) x l r l0 ND NO) as LO.
  remember (if rdo_detect_conflict (rdo_st t) l r then rdo_resolve_conflict (rdo_st t) x l r else l) as left'.
  set (st1 := rdo_link (rdo_st t) left' x) in *.
  assert (D1 : rdo_b_deq (rdo_st t) st1) by (apply rdo_b_deq_link; auto).
  assert (K1 : rdo_b_ki (fun _ => False) (rdo_st t) st1) by (apply rdo_b_deq_ki; auto).
  assert (ND1 : NoDup (map rdo_id st1)).
  { apply rdo_b_nodup_link; auto. apply rdo_b_get_none_notin; auto. }
  assert (Gx : rdo_get st1 (rdo_id x) = Some x).
  { unfold st1. rewrite rdo_b_get_link by auto. rewrite N.eqb_refl; auto. }
  rdo_b_bind H.
  assert (K2 : rdo_b_ki (fun _ => False) (rdo_st t) (rdo_st a) /\ NoDup (map rdo_id (rdo_st a))).
  { destruct (rdo_right st1 (rdo_id x)). inversion E; subst; simpl; auto.
    destruct (rdo_sub x) as [k|] eqn:Sx; [|inversion E; subst; simpl; auto].
    destruct left' as [l0|]; [|inversion E; subst; simpl; auto].
    apply rdo_b_txn_delete_ki in E; auto. simpl in E. destruct E as [KE ME]. split; [|rewrite ME; auto].
    eapply rdo_b_ki_comp; [exact PC | exact K1 | exact KE |].
    intros j -> (y0&y'&G0&D0&G'&D'). right; right.
    destruct (LO l0 eq_refl) as [y [Gy [Py Sy]]]. rewrite G0 in Gy; inversion Gy; subst y.
    destruct KE as [GLE _]. destruct (GLE _ _ Gx) as [x' [Gx' (Ix&Px&Sbx&_)]].
    exists y0, k, x'. rewrite Ix. repeat split; auto; congruence. }
  destruct K2 as [K2 ND2].
  destruct (_ || _).
  - apply rdo_b_txn_delete_ki in H; auto. destruct H as [KE ME]. split; [|rewrite ME; auto].
    eapply rdo_b_ki_comp; [exact PC | exact K2 | exact KE |].
    intros j -> (y0&y'&G0&D0&G'&D'). congruence.
  - inversion H; subst; auto.
Qed.

Lemma rdo_b_wf_nodup sc st n : rdo_b_wf sc st n -> NoDup (map rdo_id st).
Proof. intros W; apply W. Qed.

Lemma rdo_b_redo_ki sc ri td s1 s2 f : forall t i t' o,
  rdo_b_twf sc t -> rdo_b_insc sc (rdo_st t) i ->
  rdo_redo f t i ri td s1 s2 = RdoOk (t', o) -> rdo_b_ki (fun _ => False) (rdo_st t) (rdo_st t').
Proof.
  unfold rdo_b_twf.
  induction f; intros t i t' o W I H; [discriminate|]. pose proof H as Hfull. simpl in H.
  destruct (rdo_get (rdo_st t) i) as [item|] eqn:Gi; [|discriminate].
  destruct (rdo_red item) eqn:Ri. inversion H; subst; apply rdo_b_ki_refl.
  assert (Pi0 : rdo_b_pscoped sc (rdo_st t) (rdo_par item)) by (apply (rdo_b_insc_pscoped sc _ _ _ Gi); auto).
  pose proof (rdo_b_wf_pclosed _ _ _ W) as PC.
  rdo_b_bind H. destruct a as [t1 opb].
  assert (A1 : rdo_b_ki (fun _ => False) (rdo_st t) (rdo_st t1) /\ rdo_b_wf sc (rdo_st t1) (rdo_next t1)).
  { destruct (rdo_par_item (rdo_par item)) as [p|] eqn:Pi; [|inversion E; subst; split; [apply rdo_b_ki_refl|auto]].
    assert (Ip : rdo_b_insc sc (rdo_st t) p).
    { destruct (rdo_par item); simpl in Pi; inversion Pi; subst. exact Pi0. }
    destruct (rdo_get (rdo_st t) p) as [pit|] eqn:Gp; [|discriminate].
    destruct (rdo_del pit) eqn:Dp; [|inversion E; subst; split; [apply rdo_b_ki_refl|auto]].
    rdo_b_bind E. destruct a as [t0 go].
    assert (B : rdo_b_ki (fun _ => False) (rdo_st t) (rdo_st t0) /\ rdo_b_wf sc (rdo_st t0) (rdo_next t0)).
    { destruct (rdo_is_some (rdo_red pit)). inversion E0; subst; split; [apply rdo_b_ki_refl|auto].
      destruct (negb (rdo_mem p ri)). inversion E0; subst; split; [apply rdo_b_ki_refl|auto].
      destruct (rdo_redo f t p ri td s1 s2) as [[t0' o']|] eqn:Er; simpl in E0; inversion E0; subst.
      split. eapply IHf; eauto. eapply rdo_b_steps_wf; [|exact W]. eapply rdo_b_redo_steps; eauto. }
    destruct (negb go). inversion E; subst; auto.
    destruct (rdo_get (rdo_st t0) p) as [pit'|] eqn:Gp'; [|discriminate].
    rdo_b_bind E. inversion E; subst. auto. }
  destruct A1 as [A1 W1].
  destruct opb as [pb|]; [|inversion H; subst; exact A1].
  rdo_b_bind H. rdo_b_bind H.
  destruct a0 as [[l r]|]; [|inversion H; subst; exact A1].
  rdo_b_bind H. inversion H; subst.
  set (st2 := rdo_update (rdo_st t1) i (fun y => rdo_set_red y (rdo_next t1))) in *.
  assert (D2 : rdo_b_deq (rdo_st t1) st2) by (apply rdo_b_deq_update; intros; simpl; auto).
  assert (K2 : rdo_b_ki (fun _ => False) (rdo_st t) st2).
  { eapply rdo_b_ki_comp; [exact PC | exact A1 | apply (rdo_b_deq_ki (fun _ => False)); exact D2 | intros j []]. }
  apply rdo_b_integrate_ki in E2; simpl.
  - destruct E2 as [K3 _]. eapply rdo_b_ki_comp; [exact PC | exact K2 | exact K3 | intros j []].
  - simpl. unfold st2. rewrite rdo_b_map_id_update; auto. apply W1.
  - simpl. intros j x p Gj Pj. unfold st2 in *. rewrite rdo_b_get_update in Gj by auto.
    rewrite rdo_b_get_update_none by auto. destruct W1 as (_&_&W3&_).
    destruct (j =? i).
    + destruct (rdo_get (rdo_st t1) j) eqn:G1; simpl in Gj; inversion Gj; subst. simpl in Pj.
      destruct (W3 _ _ _ G1 Pj); auto.
    + destruct (W3 _ _ _ Gj Pj); auto.
  - simpl. unfold st2. apply rdo_b_get_update_none; auto.
    destruct W1 as (_&W2&_). destruct (rdo_get (rdo_st t1) (rdo_next t1)) eqn:G1; auto. apply W2 in G1. lia.
Qed.

Lemma rdo_b_redo_fold_ki sc st0 ri td s1 s2 l : forall t c t1 c1,
  rdo_b_pclosed st0 -> rdo_b_twf sc t -> (forall i, In i l -> rdo_b_insc sc (rdo_st t) i) ->
  rdo_b_ki (fun _ => False) st0 (rdo_st t) ->
  fold_left (fun acc i => rdo_let (t, c) := acc in
                          rdo_let (t', o) := rdo_redo (S (length (rdo_st t))) t i ri td s1 s2 in
                          RdoOk (t', c || rdo_is_some o)) l (RdoOk (t, c)) = RdoOk (t1, c1) ->
  rdo_b_ki (fun _ => False) st0 (rdo_st t1).
Proof.
  induction l; intros t c t1 c1 PC W K K0 H.
  - simpl in H. inversion H; subst; auto.
  - cbn [fold_left rdo_bind] in H.
    destruct (rdo_redo (S (length (rdo_st t))) t a ri td s1 s2) as [[t' o]|] eqn:Er; cbn [rdo_bind] in H.
    + assert (S1 : rdo_b_tsteps sc t t') by (eapply rdo_b_redo_steps; eauto; apply K; simpl; auto).
      assert (K1 : rdo_b_ki (fun _ => False) (rdo_st t) (rdo_st t')) by (eapply rdo_b_redo_ki; eauto; apply K; simpl; auto).
      eapply IHl; [exact PC | | | | exact H].
      * unfold rdo_b_twf in *. eapply rdo_b_steps_wf; eauto.
      * intros i Hi. eapply rdo_b_steps_fwd; eauto. apply K; simpl; auto.
      * eapply rdo_b_ki_comp; [exact PC | exact K0 | exact K1 | intros j []].
    + rewrite rdo_b_fold_err in H by reflexivity. discriminate.
Qed.

Lemma rdo_b_delete_fold_ki sc (A : N -> Prop) st0 l : forall t t1,
  rdo_b_pclosed st0 -> rdo_b_twf sc t -> (forall i, In i l -> rdo_b_insc sc (rdo_st t) i) -> (forall i, In i l -> A i) ->
  rdo_b_ki A st0 (rdo_st t) ->
  fold_left (fun acc i => rdo_let t := acc in rdo_txn_delete t i) l (RdoOk t) = RdoOk t1 ->
  rdo_b_ki A st0 (rdo_st t1).
Proof.
  induction l; intros t t1 PC W K KA K0 H.
  - simpl in H. inversion H; subst; auto.
  - cbn [fold_left rdo_bind] in H.
    destruct (rdo_txn_delete t a) as [t'|] eqn:Er.
    + assert (S1 : rdo_b_tsteps sc t t') by (eapply rdo_b_txn_delete_steps; eauto; apply K; simpl; auto).
      destruct (rdo_b_txn_delete_ki _ _ _ (rdo_b_wf_nodup _ _ _ W) Er) as [K1 _].
      eapply IHl; [exact PC | | | | | exact H].
      * unfold rdo_b_twf in *. eapply rdo_b_steps_wf; eauto.
      * intros i Hi. eapply rdo_b_steps_fwd; eauto. apply K; simpl; auto.
      * intros i Hi. apply KA; simpl; auto.
      * eapply rdo_b_ki_comp; [exact PC | exact K0 | exact K1 |]. intros j -> _. left. apply KA; simpl; auto.
    + rewrite rdo_b_fold_err in H by reflexivity. discriminate.
Qed.

(* (a): the live final copy, in the scope, of a unit inserted by the popped entry *)
Definition rdo_b_acause (sc : list N) (e : rdo_sitem) (st : list rdo_item) (j : N) : Prop :=
  exists i y, In i (rdo_sins e) /\ rdo_follow (S (length st)) st i = RdoOk (Some y) /\ rdo_id y = j /\
              rdo_del y = false /\ rdo_in_scope st sc j = true.

Lemma rdo_b_ftd_fold_gen st scope (P : N -> Prop) l : forall acc td,
  (forall i y, In i l -> rdo_follow (S (length st)) st i = RdoOk (Some y) ->
               negb (rdo_del y) && rdo_in_scope st scope (rdo_id y) = true -> P (rdo_id y)) ->
  fold_left (rdo_b_ftd st scope) l (RdoOk (Some acc)) = RdoOk (Some td) ->
  (forall j, In j acc -> P j) -> forall j, In j td -> P j.
Proof.
  induction l; intros acc td HP H K.
  - simpl in H. inversion H; subst; auto.
  - cbn [fold_left] in H. unfold rdo_b_ftd at 2 in H. cbn [rdo_bind] in H.
    destruct (rdo_get st a). 2: eapply IHl; eauto; intros; eapply HP; eauto; simpl; auto.
    destruct (rdo_follow (S (length st)) st a) as [[y|]|] eqn:F; cbn [rdo_bind] in H.
    + destruct (negb (rdo_del y) && rdo_in_scope st scope (rdo_id y)) eqn:C.
      * eapply IHl; [|exact H|]. intros; eapply HP; eauto; simpl; auto.
        intros j Hj. apply in_app_or in Hj. destruct Hj as [Hj|[<-|[]]]; auto.
        eapply HP; eauto. simpl; auto.
      * eapply IHl; eauto. intros; eapply HP; eauto; simpl; auto.
    + rewrite rdo_b_ftd_none in H. discriminate.
    + rewrite rdo_b_fold_err in H by reflexivity. discriminate.
Qed.

Lemma rdo_b_process_ki s e s1 s2 t c :
  rdo_b_wf (rdo_scope s) (rdo_doc s) (rdo_clock s) -> rdo_process s e s1 s2 = RdoOk (t, c) ->
  rdo_b_ki (rdo_b_acause (rdo_scope s) e (rdo_doc s)) (rdo_doc s) (rdo_st t).
Proof.
  intros W H. pose proof (rdo_b_wf_pclosed _ _ _ W) as PC.
  unfold rdo_process in H. cbv zeta in H. rdo_b_bind H.
  destruct a as [to_delete|]; [|inversion H; subst; simpl; apply rdo_b_ki_refl].
  rdo_b_bind H. destruct a as [t1 c1]. rdo_b_bind H. inversion H; subst.
  pose proof (rdo_b_ftd_fold (rdo_doc s) (rdo_scope s) _ _ _ E) as TD. simpl in TD.
  assert (TA : forall j, In j to_delete -> rdo_b_acause (rdo_scope s) e (rdo_doc s) j).
  { apply (rdo_b_ftd_fold_gen (rdo_doc s) (rdo_scope s) (rdo_b_acause (rdo_scope s) e (rdo_doc s)) (rdo_sins e) [] to_delete).
    - intros i y Hi F C. apply andb_true_iff in C. destruct C as [C1 C2].
      exists i, y. repeat split; auto. destruct (rdo_del y); auto; discriminate.
    - exact E.
    - intros j []. }
  assert (IR : forall i, In i (filter (fun i => rdo_is_some (rdo_get (rdo_st (rdo_begin s)) i) && rdo_in_scope (rdo_st (rdo_begin s)) (rdo_scope s) i && negb (rdo_mem i (rdo_sins e))) (rdo_sdel e)) ->
                         rdo_b_insc (rdo_scope s) (rdo_st (rdo_begin s)) i).
  { intros i Hi. apply filter_In in Hi. destruct Hi as [_ Hi].
    apply andb_true_iff in Hi. destruct Hi as [Hi _]. apply andb_true_iff in Hi. destruct Hi as [_ Hi].
    simpl. eapply rdo_b_parent_of_insc; eauto. }
  pose proof E0 as E0s. apply (rdo_b_redo_fold_steps (rdo_scope s)) in E0s; [|exact W|exact IR].
  apply (rdo_b_redo_fold_ki (rdo_scope s) (rdo_doc s)) in E0; [|exact PC|exact W|exact IR|apply rdo_b_ki_refl].
  assert (W1 : rdo_b_twf (rdo_scope s) t1) by (unfold rdo_b_twf; eapply rdo_b_steps_wf; eauto; exact W).
  apply (rdo_b_delete_fold_ki (rdo_scope s) (rdo_b_acause (rdo_scope s) e (rdo_doc s)) (rdo_doc s)) in E1; auto.
  - intros i Hi. apply in_rev in Hi. eapply rdo_b_steps_fwd; [exact E0s|]. simpl.
    eapply rdo_b_parent_of_insc. apply TD; auto.
  - intros i Hi. apply in_rev in Hi. auto.
  - eapply rdo_b_ki_weaken; [|exact E0]. intros j [].
Qed.

Lemma rdo_b_keep_walk_deq f : forall st i b, rdo_b_deq st (rdo_keep_walk f st i b).
Proof.
  induction f; intros; simpl. apply rdo_b_deq_refl.
  destruct (rdo_get st i) eqn:G; [|apply rdo_b_deq_refl].
  destruct (Bool.eqb _ _). apply rdo_b_deq_refl.
  assert (rdo_b_deq st (rdo_update st i (fun y => rdo_set_keep y b))).
  { apply rdo_b_deq_update; intros; simpl; auto. }
  destruct (rdo_par r); auto. eapply rdo_b_deq_trans; eauto.
Qed.

Lemma rdo_b_keep_all_deq st scope ids b : rdo_b_deq st (rdo_keep_all st scope ids b).
Proof.
  unfold rdo_keep_all. apply (rdo_b_fold_plain _ rdo_b_deq).
  apply rdo_b_deq_refl. apply rdo_b_deq_trans.
  intros s i. destruct (rdo_in_scope s scope i). apply rdo_b_keep_walk_deq. apply rdo_b_deq_refl.
Qed.

Lemma rdo_b_after_txn_deq s t mode : rdo_b_deq (rdo_st t) (rdo_doc (rdo_after_txn s t mode)).
Proof.
  unfold rdo_after_txn. destruct (negb _); simpl. apply rdo_b_deq_refl.
  destruct mode; simpl; try apply rdo_b_keep_all_deq.
  eapply rdo_b_deq_trans; [|apply rdo_b_keep_all_deq].
  apply (rdo_b_fold_plain _ rdo_b_deq). apply rdo_b_deq_refl. apply rdo_b_deq_trans.
  intros; apply rdo_b_keep_all_deq.
Qed.

Lemma rdo_b_after_txn_stacks s t :
  rdo_us (rdo_after_txn s t RdoUndoing) = rdo_us s /\ rdo_rs (rdo_after_txn s t RdoRedoing) = rdo_rs s.
Proof. unfold rdo_after_txn. destruct (negb _); simpl; auto. Qed.

(* (a) for a whole call: some popped entry e, looked at in the store st_k in which it was processed *)
Definition rdo_b_popcause (sc : list N) (stack : list rdo_sitem) (st0 : list rdo_item) (j : N) : Prop :=
  exists e stk, In e stack /\ rdo_b_ext st0 stk /\ rdo_b_acause sc e stk j.

Lemma rdo_b_pop_ki f : forall s u s' b,
  rdo_b_wf (rdo_scope s) (rdo_doc s) (rdo_clock s) -> rdo_pop f s u = RdoOk (s', b) ->
  rdo_b_ki (rdo_b_popcause (rdo_scope s) (if u then rdo_us s else rdo_rs s) (rdo_doc s)) (rdo_doc s) (rdo_doc s').
Proof.
  induction f; intros s u s' b W H. simpl in H. inversion H; subst; apply rdo_b_ki_refl.
  pose proof (rdo_b_wf_pclosed _ _ _ W) as PC.
  simpl in H. destruct u.
  - destruct (rdo_us s) as [|e rest] eqn:Es. inversion H; subst; apply rdo_b_ki_refl.
    rdo_b_bind H. destruct a as [t changed].
    match type of E with rdo_process ?s0 _ _ _ = _ => set (s0' := s0) in * end.
    destruct (rdo_b_pop_iter s0' _ _ _ _ _ RdoUndoing W E) as [S1 Sc]; [discriminate|].
    pose proof (rdo_b_process_ki s0' _ _ _ _ _ W E) as K1.
    pose proof (rdo_b_process_ext _ _ _ _ _ _ E) as X1.
    pose proof (rdo_b_after_txn_deq s0' t RdoUndoing) as D1.
    pose proof (rdo_b_after_txn_ext s0' t RdoUndoing) as X2.
    set (s1 := rdo_after_txn s0' t RdoUndoing) in *.
    assert (K2 : rdo_b_ki (rdo_b_popcause (rdo_scope s) (e :: rest) (rdo_doc s)) (rdo_doc s) (rdo_doc s1)).
    { eapply rdo_b_ki_comp; [exact PC | | apply (rdo_b_deq_ki (fun _ => False)); exact D1 | intros j []].
      eapply rdo_b_ki_weaken; [|exact K1]. intros j Hj. exists e, (rdo_doc s). split; [simpl; auto|].
      split; [apply rdo_b_ext_refl|exact Hj]. }
    destruct changed. inversion H; subst; exact K2.
    assert (W1 : rdo_b_wf (rdo_scope s1) (rdo_doc s1) (rdo_clock s1)).
    { rewrite Sc. eapply rdo_b_steps_wf; eauto. }
    pose proof (IHf _ _ _ _ W1 H) as K3.
    eapply rdo_b_ki_comp; [exact PC | exact K2 | exact K3 |].
    intros j (e'&stk&He'&Xk&Ak) _. left. exists e', stk. split.
    + destruct (rdo_b_after_txn_stacks s0' t) as [U _]. fold s1 in U. rewrite U in He'. simpl in He'. simpl; auto.
    + split. eapply rdo_b_ext_trans'; [|exact Xk]. eapply rdo_b_ext_trans'; [exact X1|exact X2].
      rewrite Sc in Ak. exact Ak.
  - destruct (rdo_rs s) as [|e rest] eqn:Es. inversion H; subst; apply rdo_b_ki_refl.
    rdo_b_bind H. destruct a as [t changed].
    match type of E with rdo_process ?s0 _ _ _ = _ => set (s0' := s0) in * end.
    destruct (rdo_b_pop_iter s0' _ _ _ _ _ RdoRedoing W E) as [S1 Sc]; [discriminate|].
    pose proof (rdo_b_process_ki s0' _ _ _ _ _ W E) as K1.
    pose proof (rdo_b_process_ext _ _ _ _ _ _ E) as X1.
    pose proof (rdo_b_after_txn_deq s0' t RdoRedoing) as D1.
    pose proof (rdo_b_after_txn_ext s0' t RdoRedoing) as X2.
    set (s1 := rdo_after_txn s0' t RdoRedoing) in *.
    assert (K2 : rdo_b_ki (rdo_b_popcause (rdo_scope s) (e :: rest) (rdo_doc s)) (rdo_doc s) (rdo_doc s1)).
    { eapply rdo_b_ki_comp; [exact PC | | apply (rdo_b_deq_ki (fun _ => False)); exact D1 | intros j []].
      eapply rdo_b_ki_weaken; [|exact K1]. intros j Hj. exists e, (rdo_doc s). split; [simpl; auto|].
      split; [apply rdo_b_ext_refl|exact Hj]. }
    destruct changed. inversion H; subst; exact K2.
    assert (W1 : rdo_b_wf (rdo_scope s1) (rdo_doc s1) (rdo_clock s1)).
    { rewrite Sc. eapply rdo_b_steps_wf; eauto. }
    pose proof (IHf _ _ _ _ W1 H) as K3.
    eapply rdo_b_ki_comp; [exact PC | exact K2 | exact K3 |].
    intros j (e'&stk&He'&Xk&Ak) _. left. exists e', stk. split.
    + destruct (rdo_b_after_txn_stacks s0' t) as [_ U]. fold s1 in U. rewrite U in He'. simpl in He'. simpl; auto.
    + split. eapply rdo_b_ext_trans'; [|exact Xk]. eapply rdo_b_ext_trans'; [exact X1|exact X2].
      rewrite Sc in Ak. exact Ak.
Qed.

(* B4: what one undo / redo call deletes.  x live before, deleted after: then x is in the scope and
   (a) x is the live final copy (rdo_follow, evaluated in the store stk in which the popped entry e was processed;
       stk = rdo_doc s for the first popped entry) of a unit in rdo_sins e, or
   (b) the parent item of x was deleted by this call too (so x is a descendant of an item of kind (a) or (c)), or
   (c) x is a map entry and this call created an item with the same parent and key. *)
Theorem rdo_kill_set : forall s s' b stack x x',
  rdo_b_wf (rdo_scope s) (rdo_doc s) (rdo_clock s) ->
  (rdo_undo s = RdoOk (s', b) /\ stack = rdo_us s \/ rdo_redo_call s = RdoOk (s', b) /\ stack = rdo_rs s) ->
  In x (rdo_doc s) -> rdo_del x = false -> rdo_get (rdo_doc s') (rdo_id x) = Some x' -> rdo_del x' = true ->
  rdo_in_scope (rdo_doc s) (rdo_scope s) (rdo_id x) = true /\
  (rdo_b_popcause (rdo_scope s) stack (rdo_doc s) (rdo_id x)
   \/ (exists p, rdo_par x = RdoItem p /\ rdo_b_newdel (rdo_doc s) (rdo_doc s') p)
   \/ (exists k c, rdo_sub x = Some k /\ rdo_get (rdo_doc s) (rdo_id c) = None /\
                   rdo_get (rdo_doc s') (rdo_id c) = Some c /\ rdo_par c = rdo_par x /\ rdo_sub c = Some k)).
Proof.
  intros s s' b stack x x' W H Hx Dx Gx' Dx'.
  assert (Gx : rdo_get (rdo_doc s) (rdo_id x) = Some x) by (apply rdo_b_in_get; auto; apply W).
  assert (H' : rdo_undo s = RdoOk (s', b) \/ rdo_redo_call s = RdoOk (s', b)) by (destruct H as [[? _]|[? _]]; auto).
  split.
  - destruct (rdo_in_scope (rdo_doc s) (rdo_scope s) (rdo_id x)) eqn:E; auto. exfalso.
    pose proof (rdo_untracked_untouched _ _ _ W H') as U.
    destruct (rdo_b_untracked_wf_kept _ _ _ W H') as [Sc W'].
    assert (In x (filter (fun x => negb (rdo_in_scope (rdo_doc s) (rdo_scope s) (rdo_id x))) (rdo_doc s))).
    { apply filter_In; split; auto. rewrite E; auto. }
    rewrite <- U in H0. apply filter_In in H0. destruct H0 as [H0 _].
    apply rdo_b_in_get in H0; [|apply W']. rewrite Gx' in H0. inversion H0; subst. congruence.
  - assert (K : rdo_b_ki (rdo_b_popcause (rdo_scope s) stack (rdo_doc s)) (rdo_doc s) (rdo_doc s')).
    { destruct H as [[H ->]|[H ->]]; apply rdo_b_pop_ki in H; auto. }
    destruct K as [_ K]. destruct (K (rdo_id x)) as [Ha|[Hb|Hc]].
    + exists x, x'; auto.
    + left; auto.
    + right; left. destruct Hb as (y&p&Gy&Py&Np). rewrite Gx in Gy; inversion Gy; subst. eauto.
    + right; right. destruct Hc as (y&k&c&Gy&Sy&G0&Gc&Pc&Sc). rewrite Gx in Gy; inversion Gy; subst.
      exists k, c; auto.
Qed.
Print Assumptions rdo_kill_set.

(* the same for one try_process call: (a) is evaluated in the store at the start of the call *)
Theorem rdo_b_kill_set_process : forall s e s1 s2 t c x x',
  rdo_b_wf (rdo_scope s) (rdo_doc s) (rdo_clock s) -> rdo_process s e s1 s2 = RdoOk (t, c) ->
  In x (rdo_doc s) -> rdo_del x = false -> rdo_get (rdo_st t) (rdo_id x) = Some x' -> rdo_del x' = true ->
  rdo_b_acause (rdo_scope s) e (rdo_doc s) (rdo_id x)
  \/ (exists p, rdo_par x = RdoItem p /\ rdo_b_newdel (rdo_doc s) (rdo_st t) p)
  \/ (exists k c, rdo_sub x = Some k /\ rdo_get (rdo_doc s) (rdo_id c) = None /\
                  rdo_get (rdo_st t) (rdo_id c) = Some c /\ rdo_par c = rdo_par x /\ rdo_sub c = Some k).
Proof.
  intros s e s1 s2 t c x x' W H Hx Dx Gx' Dx'.
  assert (Gx : rdo_get (rdo_doc s) (rdo_id x) = Some x) by (apply rdo_b_in_get; auto; apply W).
  destruct (rdo_b_process_ki _ _ _ _ _ _ W H) as [_ K].
  destruct (K (rdo_id x)) as [Ha|[Hb|Hc]].
  - exists x, x'; auto.
  - left; auto.
  - right; left. destruct Hb as (y&p&Gy&Py&Np). rewrite Gx in Gy; inversion Gy; subst. eauto.
  - right; right. destruct Hc as (y&k&c0&Gy&Sy&G0&Gc&Pc&Sc). rewrite Gx in Gy; inversion Gy; subst.
    exists k, c0; auto.
Qed.
Print Assumptions rdo_b_kill_set_process.

(* B3 (theorem 3): a sequence element deleted by the call is a final copy of an insertion of a popped entry
   or a child of an item deleted by the call *)
Theorem rdo_foreign_seq_survives_partial : forall s s' b stack x x',
  rdo_b_wf (rdo_scope s) (rdo_doc s) (rdo_clock s) ->
  (rdo_undo s = RdoOk (s', b) /\ stack = rdo_us s \/ rdo_redo_call s = RdoOk (s', b) /\ stack = rdo_rs s) ->
  In x (rdo_doc s) -> rdo_del x = false -> rdo_sub x = None ->
  rdo_get (rdo_doc s') (rdo_id x) = Some x' -> rdo_del x' = true ->
  rdo_b_popcause (rdo_scope s) stack (rdo_doc s) (rdo_id x)
  \/ (exists p, rdo_par x = RdoItem p /\ rdo_b_newdel (rdo_doc s) (rdo_doc s') p).
Proof.
  intros s s' b stack x x' W H Hx Dx Sx Gx' Dx'.
  destruct (rdo_kill_set _ _ _ _ _ _ W H Hx Dx Gx' Dx') as [_ [?|[?|(k&c&Sk&_)]]]; auto. congruence.
Qed.
Print Assumptions rdo_foreign_seq_survives_partial.

(* positive form: a live sequence element that is not the final copy of an insertion of a popped entry and
   whose parent item is not deleted by the call stays live *)
Theorem rdo_foreign_seq_survives : forall s s' b stack x x',
  rdo_b_wf (rdo_scope s) (rdo_doc s) (rdo_clock s) ->
  (rdo_undo s = RdoOk (s', b) /\ stack = rdo_us s \/ rdo_redo_call s = RdoOk (s', b) /\ stack = rdo_rs s) ->
  In x (rdo_doc s) -> rdo_del x = false -> rdo_sub x = None ->
  ~ rdo_b_popcause (rdo_scope s) stack (rdo_doc s) (rdo_id x) ->
  (forall p, rdo_par x = RdoItem p -> ~ rdo_b_newdel (rdo_doc s) (rdo_doc s') p) ->
  rdo_get (rdo_doc s') (rdo_id x) = Some x' -> rdo_del x' = false.
Proof.
  intros s s' b stack x x' W H Hx Dx Sx NA NB Gx'.
  destruct (rdo_del x') eqn:Dx'; auto. exfalso.
  destruct (rdo_foreign_seq_survives_partial _ _ _ _ _ _ W H Hx Dx Sx Gx' Dx') as [?|(p&P&Np)]; auto.
  eapply NB; eauto.
Qed.
Print Assumptions rdo_foreign_seq_survives.

(* every item of the store before is still there afterwards (so x' above always exists) *)
Lemma rdo_b_pop_item_kept s s' b x :
  rdo_b_wf (rdo_scope s) (rdo_doc s) (rdo_clock s) ->
  (rdo_undo s = RdoOk (s', b) \/ rdo_redo_call s = RdoOk (s', b)) ->
  In x (rdo_doc s) -> exists x', rdo_get (rdo_doc s') (rdo_id x) = Some x' /\ rdo_b_le x x'.
Proof.
  intros W H Hx.
  destruct (rdo_b_untracked_wf_kept _ _ _ W H) as [Sc W'].
  assert (X : rdo_b_ext (rdo_doc s) (rdo_doc s')) by (destruct H as [H|H]; eapply rdo_b_pop_ext; eauto).
  destruct (rdo_b_ext_in _ _ X x Hx) as [x' [Hx' L]]. exists x'; split; auto.
  destruct L as [<- _]. apply rdo_b_in_get; auto. apply W'.
Qed.

(* case (c) does occur, and it hits an entry written by ANOTHER origin (the known finding, replayed on the real
   code): container 0 is re-created as 2 by the first undo, another origin writes key 5 below 2 (item 3), the
   second undo re-creates the old entry 1 of key 5 as 4 behind 3 and integrate deletes 3. *)
Definition rdo_b_ex_map_prog : list rdo_action :=
  [RdoAStep [[RdoOIns 0 [] 0 (RdoType 0)]]; RdoAStep [[RdoOSet 0 [RdoIdx 0] 5 (RdoVal 1)]];
   RdoAStep [[RdoORem 0 [RdoIdx 0] 5]]; RdoAStep [[RdoODel 0 [] 0]]; RdoAUndo;
   RdoAOther [RdoOSet 0 [RdoIdx 0] 5 (RdoVal 9)]].
Example rdo_b_kill_map_example : exists s s' x x' c,
  rdo_run (rdo_state0 [0;1]) rdo_b_ex_map_prog = RdoOk s /\ rdo_undo s = RdoOk (s', true) /\
  rdo_get (rdo_doc s) 3 = Some x /\ rdo_del x = false /\ rdo_sub x = Some 5 /\ rdo_par x = RdoItem 2 /\
  existsb (fun e => rdo_mem 3 (rdo_sins e)) (rdo_us s ++ rdo_rs s) = false /\
  rdo_get (rdo_doc s') 3 = Some x' /\ rdo_del x' = true /\
  rdo_get (rdo_doc s) 4 = None /\ rdo_get (rdo_doc s') 4 = Some c /\ rdo_par c = RdoItem 2 /\ rdo_sub c = Some 5 /\
  rdo_del c = false /\ rdo_cnt c = RdoVal 1.
Proof.
  let v := eval vm_compute in (rdo_run (rdo_state0 [0;1]) rdo_b_ex_map_prog) in
  match v with RdoOk ?s0 => exists s0;
    let u := eval vm_compute in (rdo_undo s0) in
    match u with RdoOk (?s1, _) => exists s1 end end.
  do 3 eexists. split; [vm_compute; reflexivity|]. split; [vm_compute; reflexivity|].
  repeat (split; [vm_compute; reflexivity|]). vm_compute; reflexivity.
Qed.
Print Assumptions rdo_b_kill_map_example.

Theorem rdo_b_kill_set_reachable : forall scope p s s' b stack x x',
  rdo_run (rdo_state0 scope) p = RdoOk s ->
  (rdo_undo s = RdoOk (s', b) /\ stack = rdo_us s \/ rdo_redo_call s = RdoOk (s', b) /\ stack = rdo_rs s) ->
  In x (rdo_doc s) -> rdo_del x = false -> rdo_get (rdo_doc s') (rdo_id x) = Some x' -> rdo_del x' = true ->
  rdo_in_scope (rdo_doc s) scope (rdo_id x) = true /\
  (rdo_b_popcause scope stack (rdo_doc s) (rdo_id x)
   \/ (exists p, rdo_par x = RdoItem p /\ rdo_b_newdel (rdo_doc s) (rdo_doc s') p)
   \/ (exists k c, rdo_sub x = Some k /\ rdo_get (rdo_doc s) (rdo_id c) = None /\
                   rdo_get (rdo_doc s') (rdo_id c) = Some c /\ rdo_par c = rdo_par x /\ rdo_sub c = Some k)).
Proof.
  intros scope p s s' b stack x x' Hr H Hx Dx Gx' Dx'. destruct (rdo_b_wf_reachable _ _ _ Hr) as [Sc W].
  rewrite <- Sc. eapply rdo_kill_set; eauto. rewrite Sc; auto.
Qed.
Print Assumptions rdo_b_kill_set_reachable.


(* ============================================================================================== *)
(* SECTION D *)
From Coq Require Import List NArith Bool Lia. Import ListNotations.  Open Scope N_scope.

(* RedoProofsD.v - generic lemmas about the render functions (D1 fuel irrelevance, D2 live items only,
   D3 virtual render = real render on a legal document, D4 renaming of live items, D5 list helpers). *)

(* ---------------------------------------------------------------------------------------------- *)
(* basic facts *)

Lemma rdo_d_mem_In : forall i l, rdo_mem i l = true <-> In i l.
Proof.
  intros i l. unfold rdo_mem. rewrite existsb_exists. split.
  - intros [x [H1 H2]]. apply N.eqb_eq in H2. subst. auto.
  - intros H. exists i. split; auto. apply N.eqb_refl.
Qed.
Print Assumptions rdo_d_mem_In.

Lemma rdo_d_nodup_spec : forall l, rdo_i_nodup l = true <-> NoDup l.
Proof.
  induction l; simpl.
  - split; auto. intros; constructor.
  - rewrite andb_true_iff, negb_true_iff, IHl. split.
    + intros [H1 H2]. constructor; auto. intro H. apply rdo_d_mem_In in H. congruence.
    + intros H. inversion H; subst. split; auto.
      destruct (rdo_mem a l) eqn:E; auto. apply rdo_d_mem_In in E. contradiction.
Qed.
Print Assumptions rdo_d_nodup_spec.

Lemma rdo_d_get_some : forall st i x, rdo_get st i = Some x -> In x st /\ rdo_id x = i.
Proof.
  induction st; simpl; intros i x H; try discriminate.
  destruct (rdo_id a =? i) eqn:E.
  - inversion H; subst. apply N.eqb_eq in E. auto.
  - apply IHst in H. tauto.
Qed.
Print Assumptions rdo_d_get_some.

Lemma rdo_d_get_in : forall st x, rdo_i_nodup (map rdo_id st) = true -> In x st -> rdo_get st (rdo_id x) = Some x.
Proof.
  induction st; simpl; intros x Hn Hi. { tauto. }
  apply andb_true_iff in Hn. destruct Hn as [H1 H2]. apply negb_true_iff in H1.
  destruct Hi as [H|H].
  - subst. rewrite N.eqb_refl. auto.
  - destruct (rdo_id a =? rdo_id x) eqn:E.
    + apply N.eqb_eq in E. exfalso.
      assert (rdo_mem (rdo_id a) (map rdo_id st) = true) as Hm.
      { apply rdo_d_mem_In. rewrite E. apply in_map. auto. }
      congruence.
    + auto.
Qed.
Print Assumptions rdo_d_get_in.

Lemma rdo_d_get_none : forall st i, rdo_get st i = None -> forall x, In x st -> rdo_id x <> i.
Proof.
  induction st; simpl; intros i H x Hi. { tauto. }
  destruct (rdo_id a =? i) eqn:E; try discriminate.
  destruct Hi as [Hi|Hi].
  - subst. apply N.eqb_neq in E. auto.
  - eauto.
Qed.
Print Assumptions rdo_d_get_none.

Lemma rdo_d_par_eqb_spec : forall a b, rdo_par_eqb a b = true <-> a = b.
Proof.
  intros [x|x] [y|y]; simpl; try (split; intros; discriminate); rewrite N.eqb_eq; split; intros H; try congruence.
Qed.
Print Assumptions rdo_d_par_eqb_spec.

Lemma rdo_d_on_eqb_spec : forall a b, rdo_on_eqb a b = true <-> a = b.
Proof.
  intros [x|] [y|]; simpl; try (split; intros; (discriminate || reflexivity)).
  rewrite N.eqb_eq; split; intros H; congruence.
Qed.
Print Assumptions rdo_d_on_eqb_spec.

Lemma rdo_d_in_chain_spec : forall P s y, rdo_in_chain P s y = true <-> rdo_par y = P /\ rdo_sub y = s.
Proof.
  intros. unfold rdo_in_chain. rewrite andb_true_iff, rdo_d_par_eqb_spec, rdo_d_on_eqb_spec. tauto.
Qed.
Print Assumptions rdo_d_in_chain_spec.

Lemma rdo_d_chain_In : forall st P s y, In y (rdo_chain st P s) <-> In y st /\ rdo_par y = P /\ rdo_sub y = s.
Proof.
  intros. unfold rdo_chain. rewrite filter_In, rdo_d_in_chain_spec. tauto.
Qed.
Print Assumptions rdo_d_chain_In.

Lemma rdo_d_live_In : forall l y, In y (rdo_live l) <-> In y l /\ rdo_del y = false.
Proof.
  intros. unfold rdo_live. rewrite filter_In, negb_true_iff. tauto.
Qed.
Print Assumptions rdo_d_live_In.

(* D5 *)
Lemma rdo_d_live_chain : forall st P s, rdo_live (rdo_chain st P s) = rdo_chain (rdo_live st) P s.
Proof.
  intros. unfold rdo_live, rdo_chain. induction st; simpl; auto.
  destruct (rdo_in_chain P s a) eqn:E1; destruct (negb (rdo_del a)) eqn:E2; simpl; rewrite ?E1, ?E2; rewrite IHst; auto.
Qed.
Print Assumptions rdo_d_live_chain.

(* ---------------------------------------------------------------------------------------------- *)
(* Prop-level reading of rdo_i_wfp *)

Definition rdo_d_wf (st : list rdo_item) (next : N) : Prop :=
  NoDup (map rdo_id st) /\
  forall x, In x st ->
    rdo_id x < next /\
    match rdo_par x with
    | RdoRoot _ => True
    | RdoItem p => p < rdo_id x /\ exists y k, rdo_get st p = Some y /\ rdo_cnt y = RdoType k
    end.

Lemma rdo_d_wfp_spec : forall st n, rdo_i_wfp st n = true <-> rdo_d_wf st n.
Proof.
  intros st n. unfold rdo_i_wfp, rdo_d_wf, rdo_i_all.
  rewrite andb_true_iff, rdo_d_nodup_spec, forallb_forall.
  split; intros [H1 H2]; split; auto; intros x Hx; specialize (H2 x Hx).
  - apply andb_true_iff in H2. destruct H2 as [Ha Hb]. apply N.ltb_lt in Ha. split; auto.
    destruct (rdo_par x); auto.
    apply andb_true_iff in Hb. destruct Hb as [Hb Hc]. apply N.ltb_lt in Hb. split; auto.
    destruct (rdo_get st id) as [y|]; try discriminate.
    destruct (rdo_cnt y) eqn:E; try discriminate. eauto.
  - destruct H2 as [Ha Hb]. apply andb_true_iff. split. { apply N.ltb_lt; auto. }
    destruct (rdo_par x); auto.
    destruct Hb as [Hb [y [k [Hc Hd]]]]. apply andb_true_iff. split. { apply N.ltb_lt; auto. }
    rewrite Hc, Hd. auto.
Qed.
Print Assumptions rdo_d_wfp_spec.

Lemma rdo_d_wfp_nodup : forall st n, rdo_i_wfp st n = true -> rdo_i_nodup (map rdo_id st) = true.
Proof. intros st n H. unfold rdo_i_wfp in H. apply andb_true_iff in H. tauto. Qed.
Print Assumptions rdo_d_wfp_nodup.

Lemma rdo_d_wfp_child : forall st n y p, rdo_i_wfp st n = true -> In y st -> rdo_par y = RdoItem p -> p < rdo_id y.
Proof.
  intros st n y p H Hy Hp. apply rdo_d_wfp_spec in H. destruct H as [_ H]. specialize (H y Hy).
  rewrite Hp in H. tauto.
Qed.
Print Assumptions rdo_d_wfp_child.

(* ---------------------------------------------------------------------------------------------- *)
(* list helpers *)

Lemma rdo_d_flat_map_F2 : forall (A B C : Type) (R : A -> B -> Prop) (f : A -> list C) (g : B -> list C) l l',
  Forall2 R l l' -> (forall a b, In a l -> In b l' -> R a b -> f a = g b) -> flat_map f l = flat_map g l'.
Proof.
  intros A B C R f g l l' H. induction H; intros Hfg; simpl; auto.
  f_equal.
  - apply Hfg; simpl; auto.
  - apply IHForall2. intros a b Ha Hb. apply Hfg; simpl; auto.
Qed.
Print Assumptions rdo_d_flat_map_F2.

Lemma rdo_d_flat_map_ext : forall (A C : Type) (f g : A -> list C) l,
  (forall a, In a l -> f a = g a) -> flat_map f l = flat_map g l.
Proof.
  intros A C f g l H. induction l; simpl; auto. f_equal.
  - apply H; simpl; auto.
  - apply IHl. intros; apply H; simpl; auto.
Qed.
Print Assumptions rdo_d_flat_map_ext.

Lemma rdo_d_frame : forall (h A A' B B' : list N), A = A' -> B = B' -> h ++ A ++ [2] ++ B ++ [3] = h ++ A' ++ [2] ++ B' ++ [3].
Proof. intros; subst; reflexivity. Qed.
Print Assumptions rdo_d_frame.

(* ---------------------------------------------------------------------------------------------- *)
(* D1: fuel irrelevance.  The measure: the number of items whose id is >= the id of the item. *)

Definition rdo_d_cnt (st : list rdo_item) (i : N) : nat := length (filter (fun y => i <=? rdo_id y) st).
Definition rdo_d_enough (st : list rdo_item) (f : nat) (x : rdo_item) : Prop := (rdo_d_cnt st (rdo_id x) <= f)%nat.

Lemma rdo_d_cnt_length : forall st i, (rdo_d_cnt st i <= length st)%nat.
Proof.
  unfold rdo_d_cnt. induction st; simpl; intros; auto.
  destruct (i <=? rdo_id a); simpl; specialize (IHst i); lia.
Qed.
Print Assumptions rdo_d_cnt_length.

Lemma rdo_d_enough_length : forall (st st' : list rdo_item) x, (length st <= length st')%nat -> rdo_d_enough st (length st') x.
Proof. intros. unfold rdo_d_enough. pose proof (rdo_d_cnt_length st (rdo_id x)). lia. Qed.
Print Assumptions rdo_d_enough_length.

Lemma rdo_d_cnt_mono : forall st i j, i <= j -> (rdo_d_cnt st j <= rdo_d_cnt st i)%nat.
Proof.
  unfold rdo_d_cnt. induction st; simpl; intros i j H; auto.
  specialize (IHst i j H).
  destruct (j <=? rdo_id a) eqn:E1; destruct (i <=? rdo_id a) eqn:E2; simpl; try lia.
  apply N.leb_le in E1. apply N.leb_gt in E2. lia.
Qed.
Print Assumptions rdo_d_cnt_mono.

Lemma rdo_d_cnt_lt : forall st x j, In x st -> rdo_id x < j -> (rdo_d_cnt st j < rdo_d_cnt st (rdo_id x))%nat.
Proof.
  induction st; simpl; intros x j Hi Hj. { tauto. }
  unfold rdo_d_cnt in *. simpl. destruct Hi as [Hi|Hi].
  - subst a. assert (rdo_id x <=? rdo_id x = true) as -> by (apply N.leb_le; lia).
    assert (j <=? rdo_id x = false) as -> by (apply N.leb_gt; lia).
    simpl. pose proof (rdo_d_cnt_mono st (rdo_id x) j). unfold rdo_d_cnt in H. lia.
  - specialize (IHst x j Hi Hj).
    destruct (j <=? rdo_id a) eqn:E1; destruct (rdo_id x <=? rdo_id a) eqn:E2; simpl; try lia.
    apply N.leb_le in E1. apply N.leb_gt in E2. lia.
Qed.
Print Assumptions rdo_d_cnt_lt.

Lemma rdo_d_cnt_pos : forall st x, In x st -> (1 <= rdo_d_cnt st (rdo_id x))%nat.
Proof.
  unfold rdo_d_cnt. induction st; simpl; intros x Hi. { tauto. }
  destruct Hi as [Hi|Hi].
  - subst a. assert (rdo_id x <=? rdo_id x = true) as -> by (apply N.leb_le; lia). simpl. lia.
  - specialize (IHst x Hi). destruct (rdo_id x <=? rdo_id a); simpl; lia.
Qed.
Print Assumptions rdo_d_cnt_pos.

Lemma rdo_d_enough_child : forall st n f x y, rdo_i_wfp st n = true -> In x st -> In y st ->
  rdo_par y = RdoItem (rdo_id x) -> rdo_d_enough st (S f) x -> rdo_d_enough st f y.
Proof.
  intros st n f x y Hw Hx Hy Hp He. unfold rdo_d_enough in *.
  pose proof (rdo_d_wfp_child st n y _ Hw Hy Hp) as Hlt.
  pose proof (rdo_d_cnt_lt st x (rdo_id y) Hx Hlt). lia.
Qed.
Print Assumptions rdo_d_enough_child.

Lemma rdo_d_i_render_S : forall f st x, rdo_i_render_item (S f) st x =
  match rdo_cnt x with
  | RdoVal v => [0; v]
  | RdoType k =>
      [1; k] ++ flat_map (rdo_i_render_item f st) (rdo_live (rdo_chain st (RdoItem (rdo_id x)) None)) ++ [2]
      ++ flat_map (fun key => match rdo_i_entry st (RdoItem (rdo_id x)) key with Some y => key :: rdo_i_render_item f st y | None => [] end) (rdo_keys st (RdoItem (rdo_id x)))
      ++ [3]
  end.
Proof. reflexivity. Qed.
Print Assumptions rdo_d_i_render_S.

Lemma rdo_d_render_S : forall f st x, rdo_render_item (S f) st x =
  match rdo_cnt x with
  | RdoVal v => [0; v]
  | RdoType k =>
      [1; k] ++ flat_map (rdo_render_item f st) (rdo_live (rdo_chain st (RdoItem (rdo_id x)) None)) ++ [2]
      ++ flat_map (fun key => match rdo_entry st (RdoItem (rdo_id x)) key with Some y => key :: rdo_render_item f st y | None => [] end) (rdo_keys st (RdoItem (rdo_id x)))
      ++ [3]
  end.
Proof. reflexivity. Qed.
Print Assumptions rdo_d_render_S.

Lemma rdo_d_i_entry_in : forall st P k y, rdo_i_entry st P k = Some y ->
  In y st /\ rdo_par y = P /\ rdo_sub y = Some k /\ rdo_del y = false.
Proof.
  intros st P k y H. unfold rdo_i_entry in H.
  destruct (rdo_live (rdo_chain st P (Some k))) as [|z r] eqn:E; simpl in H; try discriminate.
  inversion H; subst z.
  assert (In y (rdo_live (rdo_chain st P (Some k)))) as Hi by (rewrite E; simpl; auto).
  apply rdo_d_live_In in Hi. destruct Hi as [Hi Hd]. apply rdo_d_chain_In in Hi. tauto.
Qed.
Print Assumptions rdo_d_i_entry_in.

Lemma rdo_d_hd_error_In : forall (A : Type) (l : list A) x, hd_error l = Some x -> In x l.
Proof. intros A [|a l] x H; simpl in *; try discriminate. inversion H; auto. Qed.
Print Assumptions rdo_d_hd_error_In.

Lemma rdo_d_entry_in : forall st P k y, rdo_i_nodup (map rdo_id st) = true -> rdo_entry st P k = Some y ->
  In y st /\ rdo_par y = P /\ rdo_sub y = Some k /\ rdo_del y = false.
Proof.
  intros st P k y Hn H. unfold rdo_entry, rdo_map_get in H.
  destruct (hd_error (rev (rdo_chain st P (Some k)))) as [z|] eqn:E; simpl in H; try discriminate.
  apply rdo_d_hd_error_In in E. apply in_rev in E. apply rdo_d_chain_In in E. destruct E as [E1 [E2 E3]].
  rewrite (rdo_d_get_in st z Hn E1) in H.
  destruct (rdo_del z) eqn:Ed; try discriminate. inversion H; subst. auto.
Qed.
Print Assumptions rdo_d_entry_in.

Theorem rdo_d_fuel_i : forall st n, rdo_i_wfp st n = true ->
  forall f1 f2 x, In x st -> rdo_d_enough st f1 x -> rdo_d_enough st f2 x ->
  rdo_i_render_item f1 st x = rdo_i_render_item f2 st x.
Proof.
  intros st n Hw. induction f1; intros f2 x Hx H1 H2.
  { unfold rdo_d_enough in H1. pose proof (rdo_d_cnt_pos st x Hx). lia. }
  destruct f2.
  { unfold rdo_d_enough in H2. pose proof (rdo_d_cnt_pos st x Hx). lia. }
  rewrite !rdo_d_i_render_S. destruct (rdo_cnt x); auto.
  apply rdo_d_frame.
  - apply rdo_d_flat_map_ext. intros y Hy. apply rdo_d_live_In in Hy. destruct Hy as [Hy _].
    apply rdo_d_chain_In in Hy. destruct Hy as [Hy [Hp _]].
    apply IHf1; auto; apply (rdo_d_enough_child st n _ x y); auto.
  - apply rdo_d_flat_map_ext. intros key _.
    destruct (rdo_i_entry st (RdoItem (rdo_id x)) key) as [y|] eqn:E; auto.
    apply rdo_d_i_entry_in in E. destruct E as [Hy [Hp _]].
    f_equal. apply IHf1; auto; apply (rdo_d_enough_child st n _ x y); auto.
Qed.
Print Assumptions rdo_d_fuel_i.

Theorem rdo_d_fuel_r : forall st n, rdo_i_wfp st n = true ->
  forall f1 f2 x, In x st -> rdo_d_enough st f1 x -> rdo_d_enough st f2 x ->
  rdo_render_item f1 st x = rdo_render_item f2 st x.
Proof.
  intros st n Hw. pose proof (rdo_d_wfp_nodup st n Hw) as Hn. induction f1; intros f2 x Hx H1 H2.
  { unfold rdo_d_enough in H1. pose proof (rdo_d_cnt_pos st x Hx). lia. }
  destruct f2.
  { unfold rdo_d_enough in H2. pose proof (rdo_d_cnt_pos st x Hx). lia. }
  rewrite !rdo_d_render_S. destruct (rdo_cnt x); auto.
  apply rdo_d_frame.
  - apply rdo_d_flat_map_ext. intros y Hy. apply rdo_d_live_In in Hy. destruct Hy as [Hy _].
    apply rdo_d_chain_In in Hy. destruct Hy as [Hy [Hp _]].
    apply IHf1; auto; apply (rdo_d_enough_child st n _ x y); auto.
  - apply rdo_d_flat_map_ext. intros key _.
    destruct (rdo_entry st (RdoItem (rdo_id x)) key) as [y|] eqn:E; auto.
    apply rdo_d_entry_in in E; auto. destruct E as [Hy [Hp _]].
    f_equal. apply IHf1; auto; apply (rdo_d_enough_child st n _ x y); auto.
Qed.
Print Assumptions rdo_d_fuel_r.

(* D1, both renders *)
Theorem rdo_d_fuel : forall st n, rdo_i_wfp st n = true ->
  forall f1 f2 x, In x st -> rdo_d_enough st f1 x -> rdo_d_enough st f2 x ->
  rdo_i_render_item f1 st x = rdo_i_render_item f2 st x /\ rdo_render_item f1 st x = rdo_render_item f2 st x.
Proof. intros. split; [eapply rdo_d_fuel_i | eapply rdo_d_fuel_r]; eauto. Qed.
Print Assumptions rdo_d_fuel.

(* ---------------------------------------------------------------------------------------------- *)
(* ascending duplicate-free lists: rdo_sort, rdo_keys *)

Fixpoint rdo_d_asc (l : list N) : Prop :=
  match l with [] => True | x :: r => (forall y, In y r -> x < y) /\ rdo_d_asc r end.

Lemma rdo_d_sort_insert_In : forall x l y, In y (rdo_sort_insert x l) <-> y = x \/ In y l.
Proof.
  intros x l y. induction l; simpl.
  - intuition.
  - destruct (x <? a) eqn:E1.
    + simpl. intuition.
    + destruct (x =? a) eqn:E2.
      * apply N.eqb_eq in E2. subst. simpl. intuition.
      * simpl. rewrite IHl. intuition.
Qed.
Print Assumptions rdo_d_sort_insert_In.

Lemma rdo_d_sort_insert_asc : forall x l, rdo_d_asc l -> rdo_d_asc (rdo_sort_insert x l).
Proof.
  intros x l. induction l; simpl.
  - intros _. split; auto. intros y [].
  - intros [H1 H2]. destruct (x <? a) eqn:E1.
    + apply N.ltb_lt in E1. simpl. split; auto.
      intros y [Hy|Hy]. { subst; auto. } specialize (H1 y Hy). lia.
    + destruct (x =? a) eqn:E2.
      * simpl. auto.
      * simpl. split; auto. intros y Hy. apply rdo_d_sort_insert_In in Hy.
        apply N.ltb_ge in E1. apply N.eqb_neq in E2. destruct Hy as [Hy|Hy]. { subst. lia. } auto.
Qed.
Print Assumptions rdo_d_sort_insert_asc.

Lemma rdo_d_sort_In : forall l y, In y (rdo_sort l) <-> In y l.
Proof.
  induction l; simpl; intros y. { tauto. }
  rewrite rdo_d_sort_insert_In, IHl. intuition.
Qed.
Print Assumptions rdo_d_sort_In.

Lemma rdo_d_sort_asc : forall l, rdo_d_asc (rdo_sort l).
Proof. induction l; simpl; auto. apply rdo_d_sort_insert_asc; auto. Qed.
Print Assumptions rdo_d_sort_asc.

Lemma rdo_d_asc_filter : forall p l, rdo_d_asc l -> rdo_d_asc (filter p l).
Proof.
  intros p l. induction l; simpl; auto. intros [H1 H2]. destruct (p a); simpl; auto.
  split; auto. intros y Hy. apply filter_In in Hy. apply H1; tauto.
Qed.
Print Assumptions rdo_d_asc_filter.

Lemma rdo_d_asc_ext : forall l1 l2, rdo_d_asc l1 -> rdo_d_asc l2 -> (forall k, In k l1 <-> In k l2) -> l1 = l2.
Proof.
  induction l1; destruct l2; simpl; intros Ha Hb H; auto.
  - exfalso. apply (H n). auto.
  - exfalso. apply (H a). auto.
  - destruct Ha as [Ha Ha']. destruct Hb as [Hb Hb'].
    assert (a = n) as E.
    { destruct (proj1 (H a) (or_introl eq_refl)) as [E|E]; auto.
      destruct (proj2 (H n) (or_introl eq_refl)) as [E'|E']; auto.
      specialize (Hb _ E). specialize (Ha _ E'). lia. }
    subst. f_equal. apply IHl1; auto. intros k. split; intros Hk.
    + destruct (proj1 (H k) (or_intror Hk)); auto. subst. specialize (Ha _ Hk). lia.
    + destruct (proj2 (H k) (or_intror Hk)); auto. subst. specialize (Hb _ Hk). lia.
Qed.
Print Assumptions rdo_d_asc_ext.

Lemma rdo_d_keys_In : forall st P k, In k (rdo_keys st P) <-> exists y, In y st /\ rdo_par y = P /\ rdo_sub y = Some k.
Proof.
  intros st P k. unfold rdo_keys. rewrite rdo_d_sort_In, in_flat_map. split; intros [y [H1 H2]]; exists y.
  - destruct (rdo_par_eqb (rdo_par y) P) eqn:E; try (simpl in H2; tauto).
    apply rdo_d_par_eqb_spec in E. destruct (rdo_sub y); simpl in H2; try tauto.
    destruct H2 as [H2|[]]. subst. auto.
  - destruct H2 as [H2 H3]. split; auto.
    assert (rdo_par_eqb (rdo_par y) P = true) as -> by (apply rdo_d_par_eqb_spec; auto).
    rewrite H3. simpl. auto.
Qed.
Print Assumptions rdo_d_keys_In.

Lemma rdo_d_keys_asc : forall st P, rdo_d_asc (rdo_keys st P).
Proof. intros. apply rdo_d_sort_asc. Qed.
Print Assumptions rdo_d_keys_asc.

Lemma rdo_d_flat_map_filter : forall (F : N -> list N) (p : N -> bool) l,
  (forall k, In k l -> p k = false -> F k = []) -> flat_map F l = flat_map F (filter p l).
Proof.
  intros F p l. induction l; simpl; auto. intros H. destruct (p a) eqn:E; simpl.
  - f_equal. apply IHl. intros; apply H; simpl; auto.
  - rewrite (H a) by (simpl; auto). simpl. apply IHl. intros; apply H; simpl; auto.
Qed.
Print Assumptions rdo_d_flat_map_filter.

(* the keys of a branch that have a live entry *)
Definition rdo_d_hl (st : list rdo_item) (P : rdo_parent) (k : N) : bool := rdo_is_some (rdo_i_entry st P k).

Lemma rdo_d_hl_In : forall st P k, In k (filter (rdo_d_hl st P) (rdo_keys st P)) <-> rdo_live (rdo_chain st P (Some k)) <> [].
Proof.
  intros st P k. rewrite filter_In. unfold rdo_d_hl, rdo_i_entry. split.
  - intros [_ H]. destruct (rdo_live (rdo_chain st P (Some k))); simpl in H; congruence.
  - intros H. destruct (rdo_live (rdo_chain st P (Some k))) as [|z r] eqn:E; try congruence.
    split; auto. apply rdo_d_keys_In. exists z.
    assert (In z (rdo_live (rdo_chain st P (Some k)))) as Hi by (rewrite E; simpl; auto).
    apply rdo_d_live_In in Hi. destruct Hi as [Hi _]. apply rdo_d_chain_In in Hi. tauto.
Qed.
Print Assumptions rdo_d_hl_In.

(* ---------------------------------------------------------------------------------------------- *)
(* D4 (core): renaming of live items *)

Definition rdo_d_brel (rho : N -> N -> Prop) (PA PB : rdo_parent) : Prop :=
  (exists n, PA = RdoRoot n /\ PB = RdoRoot n) \/ (exists a b, PA = RdoItem a /\ PB = RdoItem b /\ rho a b).

Definition rdo_d_iso (A B : list rdo_item) (rho : N -> N -> Prop) : Prop :=
  (forall a b, rho a b -> exists x y, rdo_get A a = Some x /\ rdo_get B b = Some y /\
                                      rdo_del x = false /\ rdo_del y = false /\ rdo_cnt x = rdo_cnt y) /\
  (forall PA PB sub, rdo_d_brel rho PA PB ->
     Forall2 (fun x y => rho (rdo_id x) (rdo_id y)) (rdo_live (rdo_chain A PA sub)) (rdo_live (rdo_chain B PB sub))).

(* one level of the render: the sequence part and the map part below related parents *)
Lemma rdo_d_level : forall A B (rho : N -> N -> Prop) PA PB (RA RB : rdo_item -> list N),
  (forall sub, Forall2 (fun x y => rho (rdo_id x) (rdo_id y)) (rdo_live (rdo_chain A PA sub)) (rdo_live (rdo_chain B PB sub))) ->
  (forall x y, In x A -> In y B -> rdo_par x = PA -> rdo_par y = PB -> rho (rdo_id x) (rdo_id y) -> RA x = RB y) ->
  flat_map RA (rdo_live (rdo_chain A PA None)) = flat_map RB (rdo_live (rdo_chain B PB None)) /\
  flat_map (fun key => match rdo_i_entry A PA key with Some y => key :: RA y | None => [] end) (rdo_keys A PA) =
  flat_map (fun key => match rdo_i_entry B PB key with Some y => key :: RB y | None => [] end) (rdo_keys B PB).
Proof.
  intros A B rho PA PB RA RB HF HR. split.
  - apply (rdo_d_flat_map_F2 _ _ _ _ _ _ _ _ (HF None)). intros a b Ha Hb Hab.
    apply rdo_d_live_In in Ha. destruct Ha as [Ha _]. apply rdo_d_chain_In in Ha.
    apply rdo_d_live_In in Hb. destruct Hb as [Hb _]. apply rdo_d_chain_In in Hb.
    apply HR; tauto.
  - rewrite (rdo_d_flat_map_filter _ (rdo_d_hl A PA) (rdo_keys A PA)).
    2:{ intros k _ H. unfold rdo_d_hl in H. destruct (rdo_i_entry A PA k); simpl in H; congruence. }
    rewrite (rdo_d_flat_map_filter _ (rdo_d_hl B PB) (rdo_keys B PB)).
    2:{ intros k _ H. unfold rdo_d_hl in H. destruct (rdo_i_entry B PB k); simpl in H; congruence. }
    assert (filter (rdo_d_hl A PA) (rdo_keys A PA) = filter (rdo_d_hl B PB) (rdo_keys B PB)) as ->.
    { apply rdo_d_asc_ext; try (apply rdo_d_asc_filter; apply rdo_d_keys_asc).
      intros k. rewrite !rdo_d_hl_In. specialize (HF (Some k)).
      inversion HF; split; intros H'; congruence. }
    apply rdo_d_flat_map_ext. intros k _. specialize (HF (Some k)).
    destruct (rdo_i_entry A PA k) as [x|] eqn:EA; destruct (rdo_i_entry B PB k) as [y|] eqn:EB; auto.
    + f_equal. pose proof (rdo_d_i_entry_in _ _ _ _ EA) as [Hx [Hpx _]].
      pose proof (rdo_d_i_entry_in _ _ _ _ EB) as [Hy [Hpy _]].
      apply HR; auto. unfold rdo_i_entry in EA, EB.
      inversion HF as [Hn1 Hn2|x0 y0 l l' Hr Hl Hc1 Hc2].
      * rewrite <- Hn1 in EA. discriminate.
      * rewrite <- Hc1 in EA. rewrite <- Hc2 in EB. simpl in EA, EB. congruence.
    + exfalso. unfold rdo_i_entry in EA, EB. inversion HF as [Hn1 Hn2|x0 y0 l l' Hr Hl Hc1 Hc2].
      * rewrite <- Hn1 in EA. discriminate.
      * rewrite <- Hc2 in EB. discriminate.
    + exfalso. unfold rdo_i_entry in EA, EB. inversion HF as [Hn1 Hn2|x0 y0 l l' Hr Hl Hc1 Hc2].
      * rewrite <- Hn2 in EB. discriminate.
      * rewrite <- Hc1 in EA. discriminate.
Qed.
Print Assumptions rdo_d_level.

Theorem rdo_d_render_iso_item : forall A B nA nB rho,
  rdo_i_wfp A nA = true -> rdo_i_wfp B nB = true -> rdo_d_iso A B rho ->
  forall f1 f2 x y, In x A -> In y B -> rho (rdo_id x) (rdo_id y) ->
  rdo_d_enough A f1 x -> rdo_d_enough B f2 y ->
  rdo_i_render_item f1 A x = rdo_i_render_item f2 B y.
Proof.
  intros A B nA nB rho HA HB [I1 I2]. induction f1; intros f2 x y Hx Hy Hr H1 H2.
  { unfold rdo_d_enough in H1. pose proof (rdo_d_cnt_pos A x Hx). lia. }
  destruct f2.
  { unfold rdo_d_enough in H2. pose proof (rdo_d_cnt_pos B y Hy). lia. }
  rewrite !rdo_d_i_render_S.
  destruct (I1 _ _ Hr) as [x' [y' [G1 [G2 [_ [_ Hc]]]]]].
  rewrite (rdo_d_get_in A x (rdo_d_wfp_nodup _ _ HA) Hx) in G1.
  rewrite (rdo_d_get_in B y (rdo_d_wfp_nodup _ _ HB) Hy) in G2.
  inversion G1; inversion G2; subst x' y'. rewrite Hc. destruct (rdo_cnt y); auto.
  destruct (rdo_d_level A B rho (RdoItem (rdo_id x)) (RdoItem (rdo_id y)) (rdo_i_render_item f1 A) (rdo_i_render_item f2 B)) as [L1 L2].
  - intros sub. apply I2. right. eauto.
  - intros a b Ha Hb Hpa Hpb Hab. apply IHf1; auto.
    + apply (rdo_d_enough_child A nA _ x a); auto.
    + apply (rdo_d_enough_child B nB _ y b); auto.
  - apply rdo_d_frame; auto.
Qed.
Print Assumptions rdo_d_render_iso_item.

(* D4 without the ulive hypotheses (they are not needed: the Forall2 on the live part of every key chain is enough) *)
Theorem rdo_d_render_iso_gen : forall A B nA nB rho,
  rdo_i_wfp A nA = true -> rdo_i_wfp B nB = true -> rdo_d_iso A B rho ->
  forall root, rdo_i_render_root A root = rdo_i_render_root B root.
Proof.
  intros A B nA nB rho HA HB HI root. unfold rdo_i_render_root.
  destruct (rdo_d_level A B rho (RdoRoot root) (RdoRoot root) (rdo_i_render_item (length A) A) (rdo_i_render_item (length B) B)) as [L1 L2].
  - intros sub. destruct HI as [_ I2]. apply I2. left. eauto.
  - intros a b Ha Hb _ _ Hab. apply (rdo_d_render_iso_item A B nA nB rho); auto; apply rdo_d_enough_length; auto.
  - apply (rdo_d_frame []); auto.
Qed.
Print Assumptions rdo_d_render_iso_gen.

Theorem rdo_d_render_iso : forall A B nA nB rho,
  rdo_i_wfp A nA = true -> rdo_i_wfp B nB = true -> rdo_i_ulive A = true -> rdo_i_ulive B = true -> rdo_d_iso A B rho ->
  forall root, rdo_i_render_root A root = rdo_i_render_root B root.
Proof. intros A B nA nB rho HA HB _ _ HI. apply (rdo_d_render_iso_gen A B nA nB rho); auto. Qed.
Print Assumptions rdo_d_render_iso.

(* ---------------------------------------------------------------------------------------------- *)
(* D2: the virtual render depends only on the live items and their order *)

Definition rdo_d_key (x : rdo_item) : N * rdo_parent * option N * rdo_content :=
  (rdo_id x, rdo_par x, rdo_sub x, rdo_cnt x).

Lemma rdo_d_map_F2 : forall (A B C : Type) (k : A -> C) (k' : B -> C) l l',
  map k l = map k' l' -> Forall2 (fun x y => k x = k' y) l l'.
Proof.
  induction l; destruct l'; simpl; intros H; try discriminate; constructor; inversion H; auto.
Qed.
Print Assumptions rdo_d_map_F2.

Lemma rdo_d_F2_impl : forall (A B : Type) (R R' : A -> B -> Prop) l l',
  (forall x y, R x y -> R' x y) -> Forall2 R l l' -> Forall2 R' l l'.
Proof. intros A B R R' l l' H H2. induction H2; constructor; auto. Qed.
Print Assumptions rdo_d_F2_impl.

Lemma rdo_d_F2_filter : forall (A B : Type) (R : A -> B -> Prop) p q l l',
  Forall2 R l l' -> (forall x y, R x y -> p x = q y) -> Forall2 R (filter p l) (filter q l').
Proof.
  intros A B R p q l l' H Hpq. induction H; simpl; auto.
  rewrite (Hpq x y H). destruct (q y); auto.
Qed.
Print Assumptions rdo_d_F2_filter.

Lemma rdo_d_F2_In : forall (A B : Type) (R : A -> B -> Prop) l l',
  Forall2 R l l' -> Forall2 (fun x y => In x l /\ In y l' /\ R x y) l l'.
Proof.
  intros A B R l l' H. induction H; constructor.
  - simpl; auto.
  - apply (rdo_d_F2_impl _ _ _ _ _ _ (fun x0 y0 => fun H' => conj (or_intror (proj1 H')) (conj (or_intror (proj1 (proj2 H'))) (proj2 (proj2 H')))) IHForall2).
Qed.
Print Assumptions rdo_d_F2_In.

Theorem rdo_d_render_live_only : forall A B nA nB,
  rdo_i_wfp A nA = true -> rdo_i_wfp B nB = true ->
  map rdo_d_key (rdo_live A) = map rdo_d_key (rdo_live B) ->
  forall root, rdo_i_render_root A root = rdo_i_render_root B root.
Proof.
  intros A B nA nB HA HB Hk.
  apply (rdo_d_render_iso_gen A B nA nB
           (fun a b => a = b /\ exists x y, In x (rdo_live A) /\ In y (rdo_live B) /\ rdo_id x = a /\ rdo_d_key x = rdo_d_key y)); auto.
  split.
  - intros a b [Hab [x [y [Hx [Hy [Hi Hkey]]]]]]. exists x, y.
    apply rdo_d_live_In in Hx. apply rdo_d_live_In in Hy. destruct Hx as [Hx Hdx]. destruct Hy as [Hy Hdy].
    unfold rdo_d_key in Hkey. inversion Hkey as [[K1 K2 K3 K4]].
    subst b. subst a. split; [|split]; auto.
    + apply rdo_d_get_in; auto. eapply rdo_d_wfp_nodup; eauto.
    + rewrite K1. apply rdo_d_get_in; auto. eapply rdo_d_wfp_nodup; eauto.
  - intros PA PB sub Hb.
    assert (PA = PB) as E.
    { destruct Hb as [[n [H1 H2]]|[a [b [H1 [H2 [H3 _]]]]]]; congruence. }
    subst PB. rewrite !rdo_d_live_chain. unfold rdo_chain.
    apply rdo_d_map_F2 in Hk. apply rdo_d_F2_In in Hk.
    apply (rdo_d_F2_impl _ _ (fun x y => In x (rdo_live A) /\ In y (rdo_live B) /\ rdo_d_key x = rdo_d_key y)).
    + intros x y [Hx [Hy Hkey]]. split.
      * unfold rdo_d_key in Hkey. congruence.
      * exists x, y. auto.
    + apply rdo_d_F2_filter; auto.
      intros x y [_ [_ Hkey]]. unfold rdo_d_key in Hkey. inversion Hkey as [[K1 K2 K3 K4]].
      unfold rdo_in_chain. rewrite K2, K3. auto.
Qed.
Print Assumptions rdo_d_render_live_only.

(* ---------------------------------------------------------------------------------------------- *)
(* rdo_split / rdo_lefts / rdo_rights on a decomposed store; rdo_i_lastlive at Prop level *)

Lemma rdo_d_split_spec : forall b x a acc, (forall y, In y b -> rdo_id y <> rdo_id x) ->
  rdo_split (b ++ x :: a) (rdo_id x) acc = Some (rev b ++ acc, x, a).
Proof.
  induction b; simpl; intros x r acc H.
  - rewrite N.eqb_refl. auto.
  - destruct (rdo_id a =? rdo_id x) eqn:E.
    + apply N.eqb_eq in E. exfalso. apply (H a); auto.
    + rewrite IHb. { rewrite <- app_assoc. simpl. auto. } intros; apply H; auto.
Qed.
Print Assumptions rdo_d_split_spec.

Lemma rdo_d_nodup_app_id : forall b x a, rdo_i_nodup (map rdo_id (b ++ x :: a)) = true ->
  forall y, In y b -> rdo_id y <> rdo_id x.
Proof.
  intros b x a H y Hy E. apply rdo_d_nodup_spec in H. rewrite map_app in H. simpl in H.
  apply NoDup_remove_2 in H. apply H. apply in_or_app. left. rewrite <- E. apply in_map. auto.
Qed.
Print Assumptions rdo_d_nodup_app_id.

Lemma rdo_d_rights_spec : forall b x a, rdo_i_nodup (map rdo_id (b ++ x :: a)) = true ->
  rdo_rights (b ++ x :: a) (rdo_id x) = map rdo_id (rdo_chain a (rdo_par x) (rdo_sub x)).
Proof.
  intros b x a H. unfold rdo_rights. rewrite rdo_d_split_spec. { reflexivity. }
  apply (rdo_d_nodup_app_id b x a H).
Qed.
Print Assumptions rdo_d_rights_spec.

Lemma rdo_d_lefts_spec : forall b x a, rdo_i_nodup (map rdo_id (b ++ x :: a)) = true ->
  rdo_lefts (b ++ x :: a) (rdo_id x) = map rdo_id (rdo_chain (rev b) (rdo_par x) (rdo_sub x)).
Proof.
  intros b x a H. unfold rdo_lefts. rewrite rdo_d_split_spec. { rewrite app_nil_r. reflexivity. }
  apply (rdo_d_nodup_app_id b x a H).
Qed.
Print Assumptions rdo_d_lefts_spec.

Definition rdo_d_lastlive_p (st : list rdo_item) : Prop :=
  forall b x a k, st = b ++ x :: a -> rdo_sub x = Some k ->
    rdo_del x = true \/ rdo_chain a (rdo_par x) (rdo_sub x) = [].

Lemma rdo_d_lastlive_spec : forall st, rdo_i_nodup (map rdo_id st) = true ->
  (rdo_i_lastlive st = true <-> rdo_d_lastlive_p st).
Proof.
  intros st Hn. unfold rdo_i_lastlive, rdo_i_all, rdo_d_lastlive_p. rewrite forallb_forall. split.
  - intros H b x a k E Hs. subst st. specialize (H x (in_elt x b a)). rewrite Hs in H.
    unfold rdo_right in H. rewrite (rdo_d_rights_spec b x a Hn), Hs in H.
    rewrite Hs. destruct (rdo_del x); auto. right.
    destruct (rdo_chain a (rdo_par x) (Some k)); auto. simpl in H. discriminate.
  - intros H x Hx. destruct (in_split x st Hx) as [b [a E]]. destruct (rdo_sub x) as [k|] eqn:Hs; auto.
    subst st. destruct (H b x a k eq_refl Hs) as [Hd|Hc].
    + rewrite Hd. auto.
    + unfold rdo_right. rewrite (rdo_d_rights_spec b x a Hn), Hc. simpl. apply orb_true_r.
Qed.
Print Assumptions rdo_d_lastlive_spec.

(* ---------------------------------------------------------------------------------------------- *)
(* D3: on a legal document the virtual render is the real render *)

Lemma rdo_d_chain_cons : forall a l P s,
  rdo_chain (a :: l) P s = if rdo_in_chain P s a then a :: rdo_chain l P s else rdo_chain l P s.
Proof. reflexivity. Qed.
Print Assumptions rdo_d_chain_cons.

Lemma rdo_d_live_cons : forall a l, rdo_live (a :: l) = if rdo_del a then rdo_live l else a :: rdo_live l.
Proof. intros. unfold rdo_live. simpl. destruct (rdo_del a); reflexivity. Qed.
Print Assumptions rdo_d_live_cons.

Lemma rdo_d_entry_last : forall st P k, rdo_i_nodup (map rdo_id st) = true ->
  rdo_entry st P k = match hd_error (rev (rdo_chain st P (Some k))) with
                     | Some z => if rdo_del z then None else Some z
                     | None => None
                     end.
Proof.
  intros st P k Hn. unfold rdo_entry, rdo_map_get.
  destruct (hd_error (rev (rdo_chain st P (Some k)))) as [z|] eqn:E; simpl; auto.
  apply rdo_d_hd_error_In in E. apply in_rev in E. apply rdo_d_chain_In in E.
  rewrite rdo_d_get_in; tauto.
Qed.
Print Assumptions rdo_d_entry_last.

Lemma rdo_d_last_live : forall l P k,
  (forall b x a, l = b ++ x :: a -> rdo_in_chain P (Some k) x = true -> rdo_del x = true \/ rdo_chain a P (Some k) = []) ->
  hd_error (rdo_live (rdo_chain l P (Some k))) =
  match hd_error (rev (rdo_chain l P (Some k))) with
  | Some z => if rdo_del z then None else Some z
  | None => None
  end.
Proof.
  induction l; intros P k H. { reflexivity. }
  assert (hd_error (rdo_live (rdo_chain l P (Some k))) =
          match hd_error (rev (rdo_chain l P (Some k))) with
          | Some z => if rdo_del z then None else Some z
          | None => None
          end) as IH.
  { apply IHl. intros b x a' E. apply (H (a :: b) x a'). subst. auto. }
  rewrite rdo_d_chain_cons. destruct (rdo_in_chain P (Some k) a) eqn:E; auto.
  destruct (H [] a l eq_refl E) as [Hd|Hc].
  - rewrite rdo_d_live_cons, Hd, IH. simpl.
    destruct (rev (rdo_chain l P (Some k))) as [|z r] eqn:Er; simpl; auto. rewrite Hd. auto.
  - rewrite Hc. rewrite rdo_d_live_cons. simpl. destruct (rdo_del a); reflexivity.
Qed.
Print Assumptions rdo_d_last_live.

Lemma rdo_d_i_entry_eq : forall st P k, rdo_i_nodup (map rdo_id st) = true -> rdo_i_lastlive st = true ->
  rdo_i_entry st P k = rdo_entry st P k.
Proof.
  intros st P k Hn Hl. rewrite rdo_d_entry_last; auto. unfold rdo_i_entry. apply rdo_d_last_live.
  apply rdo_d_lastlive_spec in Hl; auto.
  intros b x a E Hc. apply rdo_d_in_chain_spec in Hc. destruct Hc as [Hp Hs].
  destruct (Hl b x a k E Hs) as [Hd|Hd]; auto. right. rewrite <- Hp, <- Hs. auto.
Qed.
Print Assumptions rdo_d_i_entry_eq.

Lemma rdo_d_render_item_virtual : forall st, rdo_i_nodup (map rdo_id st) = true -> rdo_i_lastlive st = true ->
  forall f x, rdo_i_render_item f st x = rdo_render_item f st x.
Proof.
  intros st Hn Hl. induction f; intros x. { reflexivity. }
  rewrite rdo_d_i_render_S, rdo_d_render_S. destruct (rdo_cnt x); auto.
  apply rdo_d_frame.
  - apply rdo_d_flat_map_ext. intros; apply IHf.
  - apply rdo_d_flat_map_ext. intros key _. rewrite rdo_d_i_entry_eq; auto.
    destruct (rdo_entry st (RdoItem (rdo_id x)) key); auto. f_equal. apply IHf.
Qed.
Print Assumptions rdo_d_render_item_virtual.

Theorem rdo_d_render_virtual : forall st n, rdo_i_wfp st n = true -> rdo_i_lastlive st = true ->
  forall root, rdo_i_render_root st root = rdo_render_root st root.
Proof.
  intros st n Hw Hl root. pose proof (rdo_d_wfp_nodup st n Hw) as Hn.
  unfold rdo_i_render_root, rdo_render_root. apply (rdo_d_frame []).
  - apply rdo_d_flat_map_ext. intros; apply rdo_d_render_item_virtual; auto.
  - apply rdo_d_flat_map_ext. intros key _. rewrite rdo_d_i_entry_eq; auto.
    destruct (rdo_entry st (RdoRoot root) key); auto. f_equal. apply rdo_d_render_item_virtual; auto.
Qed.
Print Assumptions rdo_d_render_virtual.

(* ---------------------------------------------------------------------------------------------- *)
(* D5: Prop-level readings of rdo_i_cascade / rdo_i_ulive *)

Definition rdo_d_cascade_p (st : list rdo_item) : Prop :=
  forall x, In x st -> forall p y, rdo_par x = RdoItem p -> rdo_get st p = Some y -> rdo_del y = true -> rdo_del x = true.

Lemma rdo_d_cascade_spec : forall st, rdo_i_cascade st = true <-> rdo_d_cascade_p st.
Proof.
  intros st. unfold rdo_i_cascade, rdo_i_all, rdo_d_cascade_p. rewrite forallb_forall. split.
  - intros H x Hx p y Hp Hg Hd. specialize (H x Hx). unfold rdo_parent_deleted in H.
    rewrite Hp, Hg, Hd in H. simpl in H. auto.
  - intros H x Hx. unfold rdo_parent_deleted. destruct (rdo_par x) eqn:Hp; auto.
    destruct (rdo_get st id) as [y|] eqn:Hg; auto. destruct (rdo_del y) eqn:Hd; auto.
    simpl. apply (H x Hx id y); auto.
Qed.
Print Assumptions rdo_d_cascade_spec.

Definition rdo_d_ulive_p (st : list rdo_item) : Prop :=
  forall b x a k, st = b ++ x :: a -> rdo_sub x = Some k ->
    rdo_del x = true \/ forall y, In y (rdo_chain a (rdo_par x) (rdo_sub x)) -> rdo_del y = true.

Lemma rdo_d_ulive_spec : forall st, rdo_i_nodup (map rdo_id st) = true ->
  (rdo_i_ulive st = true <-> rdo_d_ulive_p st).
Proof.
  intros st Hn. unfold rdo_i_ulive, rdo_i_all, rdo_d_ulive_p. rewrite forallb_forall. split.
  - intros H b x a k E Hs. subst st. specialize (H x (in_elt x b a)). rewrite Hs in H.
    rewrite (rdo_d_rights_spec b x a Hn) in H. destruct (rdo_del x); auto. right. simpl in H.
    rewrite forallb_forall in H. intros y Hy.
    specialize (H (rdo_id y) (in_map rdo_id _ _ Hy)). unfold rdo_i_isdel in H.
    rewrite rdo_d_get_in in H; auto.
    apply rdo_d_chain_In in Hy. apply in_or_app. right. simpl. tauto.
  - intros H x Hx. destruct (in_split x st Hx) as [b [a E]]. destruct (rdo_sub x) as [k|] eqn:Hs; auto.
    subst st. destruct (H b x a k eq_refl Hs) as [Hd|Hc].
    + rewrite Hd. auto.
    + apply orb_true_iff. right. rewrite (rdo_d_rights_spec b x a Hn). apply forallb_forall.
      intros j Hj. apply in_map_iff in Hj. destruct Hj as [y [Hj Hy]]. subst j.
      unfold rdo_i_isdel. rewrite rdo_d_get_in; auto.
      apply rdo_d_chain_In in Hy. apply in_or_app. right. simpl. tauto.
Qed.
Print Assumptions rdo_d_ulive_spec.

Lemma rdo_d_live_nil : forall l, (forall y, In y l -> rdo_del y = true) -> rdo_live l = [].
Proof.
  induction l; intros H; auto. rewrite rdo_d_live_cons. rewrite (H a) by (simpl; auto).
  apply IHl. intros; apply H; simpl; auto.
Qed.
Print Assumptions rdo_d_live_nil.

(* under rdo_i_ulive a key chain has at most one live entry *)
Lemma rdo_d_ulive_one_gen : forall l P k,
  (forall b x a, l = b ++ x :: a -> rdo_in_chain P (Some k) x = true ->
     rdo_del x = true \/ forall y, In y (rdo_chain a P (Some k)) -> rdo_del y = true) ->
  (length (rdo_live (rdo_chain l P (Some k))) <= 1)%nat.
Proof.
  induction l; intros P k H. { simpl. auto. }
  assert (length (rdo_live (rdo_chain l P (Some k))) <= 1)%nat as IH.
  { apply IHl. intros b x a' E. apply (H (a :: b) x a'). subst. auto. }
  rewrite rdo_d_chain_cons. destruct (rdo_in_chain P (Some k) a) eqn:E; auto.
  rewrite rdo_d_live_cons. destruct (H [] a l eq_refl E) as [Hd|Hc].
  - rewrite Hd. auto.
  - rewrite (rdo_d_live_nil _ Hc). destruct (rdo_del a); simpl; auto.
Qed.
Print Assumptions rdo_d_ulive_one_gen.

Lemma rdo_d_ulive_one : forall st P k, rdo_i_nodup (map rdo_id st) = true -> rdo_i_ulive st = true ->
  (length (rdo_live (rdo_chain st P (Some k))) <= 1)%nat.
Proof.
  intros st P k Hn Hu. apply rdo_d_ulive_one_gen. apply rdo_d_ulive_spec in Hu; auto.
  intros b x a E Hc. apply rdo_d_in_chain_spec in Hc. destruct Hc as [Hp Hs].
  destruct (Hu b x a k E Hs) as [Hd|Hd]; auto. right. rewrite <- Hp, <- Hs. auto.
Qed.
Print Assumptions rdo_d_ulive_one.

(* ---------------------------------------------------------------------------------------------- *)
(* D5: rdo_chain under rdo_link / rdo_insert_after / rdo_update *)

Lemma rdo_d_chain_insert_other : forall st l x P s, rdo_in_chain P s x = false ->
  rdo_chain (rdo_insert_after st l x) P s = rdo_chain st P s.
Proof.
  induction st; intros l x P s H.
  - simpl. rewrite H. auto.
  - simpl. destruct (rdo_id a =? l).
    + rewrite !rdo_d_chain_cons. rewrite H. auto.
    + rewrite !rdo_d_chain_cons. rewrite IHst; auto.
Qed.
Print Assumptions rdo_d_chain_insert_other.

Lemma rdo_d_chain_insert_same : forall st l x P s, rdo_in_chain P s x = true ->
  (exists y, rdo_get st l = Some y /\ rdo_in_chain P s y = true) ->
  rdo_chain (rdo_insert_after st l x) P s = rdo_insert_after (rdo_chain st P s) l x.
Proof.
  induction st; intros l x P s H [y [Hg Hy]].
  - simpl in Hg. discriminate.
  - simpl in Hg. simpl. destruct (rdo_id a =? l) eqn:E.
    + inversion Hg; subst y. rewrite !rdo_d_chain_cons. rewrite Hy, H. simpl. rewrite E. auto.
    + rewrite !rdo_d_chain_cons. rewrite IHst; eauto. destruct (rdo_in_chain P s a); auto.
      simpl. rewrite E. auto.
Qed.
Print Assumptions rdo_d_chain_insert_same.

Lemma rdo_d_chain_insert_absent : forall st l x P s, rdo_in_chain P s x = true -> rdo_get st l = None ->
  rdo_chain (rdo_insert_after st l x) P s = rdo_chain st P s ++ [x].
Proof.
  induction st; intros l x P s H Hg.
  - simpl. rewrite H. auto.
  - simpl in Hg. simpl. destruct (rdo_id a =? l) eqn:E; try discriminate.
    rewrite !rdo_d_chain_cons. rewrite IHst; auto. destruct (rdo_in_chain P s a); auto.
Qed.
Print Assumptions rdo_d_chain_insert_absent.

(* the new item appears right after l in its own chain when l is in that chain (in front when l = None);
   the other chains are unchanged *)
Theorem rdo_d_chain_link : forall st l x P s,
  (rdo_in_chain P s x = false -> rdo_chain (rdo_link st l x) P s = rdo_chain st P s) /\
  (rdo_in_chain P s x = true ->
     match l with
     | None => True
     | Some l' => exists y, rdo_get st l' = Some y /\ rdo_in_chain P s y = true
     end ->
     rdo_chain (rdo_link st l x) P s = rdo_link (rdo_chain st P s) l x).
Proof.
  intros st l x P s. split.
  - intros H. destruct l; unfold rdo_link.
    + apply rdo_d_chain_insert_other; auto.
    + rewrite rdo_d_chain_cons, H. auto.
  - intros H Hl. destruct l; unfold rdo_link.
    + apply rdo_d_chain_insert_same; auto.
    + rewrite rdo_d_chain_cons, H. auto.
Qed.
Print Assumptions rdo_d_chain_link.

Lemma rdo_d_insert_after_split : forall b y a l x, (forall z, In z b -> rdo_id z <> l) -> rdo_id y = l ->
  rdo_insert_after (b ++ y :: a) l x = b ++ y :: x :: a.
Proof.
  induction b; simpl; intros y r l x H E.
  - subst l. rewrite N.eqb_refl. auto.
  - destruct (rdo_id a =? l) eqn:E'.
    + apply N.eqb_eq in E'. exfalso. apply (H a); auto.
    + rewrite IHb; auto.
Qed.
Print Assumptions rdo_d_insert_after_split.

Lemma rdo_d_update_absent : forall l i f, (forall z, In z l -> rdo_id z <> i) -> rdo_update l i f = l.
Proof.
  induction l; simpl; intros i f H; auto. destruct (rdo_id a =? i) eqn:E.
  - apply N.eqb_eq in E. exfalso. apply (H a); auto.
  - rewrite IHl; auto.
Qed.
Print Assumptions rdo_d_update_absent.

Lemma rdo_d_update_map : forall st i f, rdo_i_nodup (map rdo_id st) = true ->
  rdo_update st i f = map (fun y => if rdo_id y =? i then f y else y) st.
Proof.
  induction st; simpl; intros i f Hn; auto.
  apply andb_true_iff in Hn. destruct Hn as [H1 H2]. apply negb_true_iff in H1.
  destruct (rdo_id a =? i) eqn:E.
  - f_equal. apply N.eqb_eq in E. subst i.
    rewrite <- (map_id st) at 1. apply map_ext_in. intros z Hz.
    destruct (rdo_id z =? rdo_id a) eqn:E'; auto. apply N.eqb_eq in E'. exfalso.
    assert (rdo_mem (rdo_id a) (map rdo_id st) = true) as Hm.
    { apply rdo_d_mem_In. rewrite <- E'. apply in_map. auto. }
    congruence.
  - f_equal. apply IHst; auto.
Qed.
Print Assumptions rdo_d_update_map.

Theorem rdo_d_chain_update : forall st i f P s, rdo_i_nodup (map rdo_id st) = true ->
  (forall y, rdo_par (f y) = rdo_par y /\ rdo_sub (f y) = rdo_sub y) ->
  rdo_chain (rdo_update st i f) P s = rdo_update (rdo_chain st P s) i f.
Proof.
  induction st; simpl; intros i f P s Hn Hf; auto.
  apply andb_true_iff in Hn. destruct Hn as [H1 H2]. apply negb_true_iff in H1.
  destruct (rdo_id a =? i) eqn:E.
  - rewrite !rdo_d_chain_cons.
    assert (rdo_in_chain P s (f a) = rdo_in_chain P s a) as ->.
    { unfold rdo_in_chain. destruct (Hf a) as [-> ->]. auto. }
    destruct (rdo_in_chain P s a).
    + simpl. rewrite E. auto.
    + symmetry. apply rdo_d_update_absent. intros z Hz Ez. apply rdo_d_chain_In in Hz.
      apply N.eqb_eq in E.
      assert (rdo_mem (rdo_id a) (map rdo_id st) = true) as Hm.
      { apply rdo_d_mem_In. rewrite E, <- Ez. apply in_map. tauto. }
      congruence.
  - rewrite !rdo_d_chain_cons. rewrite IHst; auto. destruct (rdo_in_chain P s a); auto.
    simpl. rewrite E. auto.
Qed.
Print Assumptions rdo_d_chain_update.

(* ---------------------------------------------------------------------------------------------- *)
(* D6: tools to ESTABLISH rdo_d_iso: identity, symmetry, composition, invariance under updates that keep
   id / parent / sub / content / del, killing related sets on both sides *)

Lemma rdo_d_live_app : forall a b, rdo_live (a ++ b) = rdo_live a ++ rdo_live b.
Proof. intros. unfold rdo_live. apply filter_app. Qed.
Print Assumptions rdo_d_live_app.

Lemma rdo_d_chain_app : forall a b P s, rdo_chain (a ++ b) P s = rdo_chain a P s ++ rdo_chain b P s.
Proof. intros. unfold rdo_chain. apply filter_app. Qed.
Print Assumptions rdo_d_chain_app.

Lemma rdo_d_F2_ids : forall (rho : N -> N -> Prop) l m,
  Forall2 (fun x y => rho (rdo_id x) (rdo_id y)) l m <-> Forall2 rho (map rdo_id l) (map rdo_id m).
Proof.
  intros rho l m. split.
  - intros H. induction H; simpl; constructor; auto.
  - revert m. induction l; destruct m; simpl; intros H; inversion H; subst; constructor; auto.
Qed.
Print Assumptions rdo_d_F2_ids.

Lemma rdo_d_F2_refl : forall (A : Type) (R : A -> A -> Prop) l, (forall x, In x l -> R x x) -> Forall2 R l l.
Proof. induction l; intros H; constructor. { apply H; simpl; auto. } apply IHl. intros; apply H; simpl; auto. Qed.
Print Assumptions rdo_d_F2_refl.

Lemma rdo_d_F2_flip : forall (A B : Type) (R : A -> B -> Prop) l m, Forall2 R l m -> Forall2 (fun y x => R x y) m l.
Proof. intros A B R l m H. induction H; constructor; auto. Qed.
Print Assumptions rdo_d_F2_flip.

Lemma rdo_d_F2_trans : forall (A B C : Type) (R1 : A -> B -> Prop) (R2 : B -> C -> Prop) l m n,
  Forall2 R1 l m -> Forall2 R2 m n -> Forall2 (fun x z => exists y, R1 x y /\ R2 y z) l n.
Proof.
  intros A B C R1 R2 l m n H. revert n. induction H; intros n H2; inversion H2; subst; constructor; eauto.
Qed.
Print Assumptions rdo_d_F2_trans.

Lemma rdo_d_F2_map_eq : forall (A B C : Type) (R : A -> B -> Prop) (f : A -> C) (g : B -> C) l m,
  Forall2 R l m -> (forall x y, R x y -> f x = g y) -> map f l = map g m.
Proof. intros A B C R f g l m H Hfg. induction H; simpl; auto. f_equal; auto. Qed.
Print Assumptions rdo_d_F2_map_eq.

Lemma rdo_d_F2_filter_strong : forall (A B : Type) (R : A -> B -> Prop) p q l l',
  Forall2 R l l' -> (forall x y, R x y -> p x = q y) ->
  Forall2 (fun x y => R x y /\ p x = true) (filter p l) (filter q l').
Proof.
  intros A B R p q l l' H Hpq. induction H; simpl; auto.
  rewrite <- (Hpq x y H). destruct (p x) eqn:E; auto.
Qed.
Print Assumptions rdo_d_F2_filter_strong.

Lemma rdo_d_F2_insert : forall (A B : Type) (R : A -> B -> Prop) l1 l2 m1 m2 x y,
  Forall2 R (l1 ++ l2) (m1 ++ m2) -> length l1 = length m1 -> R x y ->
  Forall2 R (l1 ++ x :: l2) (m1 ++ y :: m2).
Proof.
  intros A B R l1. induction l1; intros l2 m1 m2 x y H Hl Hr; destruct m1; simpl in *; try discriminate.
  - constructor; auto.
  - inversion H; subst. constructor; auto.
Qed.
Print Assumptions rdo_d_F2_insert.

(* identity *)
Theorem rdo_d_iso_id : forall A, rdo_i_nodup (map rdo_id A) = true ->
  rdo_d_iso A A (fun a b => a = b /\ exists x, rdo_get A a = Some x /\ rdo_del x = false).
Proof.
  intros A Hn. split.
  - intros a b [E [x [Hg Hd]]]. subst b. exists x, x. auto.
  - intros PA PB sub Hb.
    assert (PA = PB) as E.
    { destruct Hb as [[n [H1 H2]]|[a [b [H1 [H2 [H3 _]]]]]]; congruence. }
    subst PB. apply rdo_d_F2_refl. intros x Hx. split; auto. exists x.
    apply rdo_d_live_In in Hx. destruct Hx as [Hx Hd]. apply rdo_d_chain_In in Hx.
    split; auto. apply rdo_d_get_in; tauto.
Qed.
Print Assumptions rdo_d_iso_id.

(* symmetry *)
Theorem rdo_d_iso_sym : forall A B rho, rdo_d_iso A B rho -> rdo_d_iso B A (fun b a => rho a b).
Proof.
  intros A B rho [I1 I2]. split.
  - intros b a H. destruct (I1 a b H) as [x [y [H1 [H2 [H3 [H4 H5]]]]]]. exists y, x. auto.
  - intros PB PA sub Hb. apply rdo_d_F2_flip. apply I2.
    destruct Hb as [[n [H1 H2]]|[b [a [H1 [H2 H3]]]]]; [left|right]; eauto.
Qed.
Print Assumptions rdo_d_iso_sym.

(* composition *)
Theorem rdo_d_iso_trans : forall A B C r1 r2, rdo_d_iso A B r1 -> rdo_d_iso B C r2 ->
  rdo_d_iso A C (fun a c => exists b, r1 a b /\ r2 b c).
Proof.
  intros A B C r1 r2 [I1 I2] [J1 J2]. split.
  - intros a c [b [H1 H2]].
    destruct (I1 a b H1) as [x [y [G1 [G2 [G3 [G4 G5]]]]]].
    destruct (J1 b c H2) as [y' [z [K1 [K2 [K3 [K4 K5]]]]]].
    rewrite G2 in K1. inversion K1; subst y'. exists x, z. split; auto. split; auto. split; auto. split; auto. congruence.
  - intros PA PC sub Hb.
    assert (exists PB, rdo_d_brel r1 PA PB /\ rdo_d_brel r2 PB PC) as [PB [B1 B2]].
    { destruct Hb as [[n [H1 H2]]|[a [c [H1 [H2 [b [H3 H4]]]]]]].
      - exists (RdoRoot n). split; left; eauto.
      - exists (RdoItem b). split; right; eauto. }
    pose proof (rdo_d_F2_trans _ _ _ _ _ _ _ _ (I2 PA PB sub B1) (J2 PB PC sub B2)) as H.
    apply (rdo_d_F2_impl _ _ _ _ _ _ (fun x z H' => match H' with ex_intro _ y (conj Ha Hb') => ex_intro _ (rdo_id y) (conj Ha Hb') end) H).
Qed.
Print Assumptions rdo_d_iso_trans.

(* the relation may be replaced by an equivalent one *)
Theorem rdo_d_iso_ext : forall A B (r1 r2 : N -> N -> Prop), (forall a b, r1 a b <-> r2 a b) ->
  rdo_d_iso A B r1 -> rdo_d_iso A B r2.
Proof.
  intros A B r1 r2 E [I1 I2]. split.
  - intros a b H. apply I1. apply E. auto.
  - intros PA PB sub Hb. apply (rdo_d_F2_impl _ _ (fun x y => r1 (rdo_id x) (rdo_id y))).
    + intros x y H. apply E. auto.
    + apply I2. destruct Hb as [[n [H1 H2]]|[a [b [H1 [H2 H3]]]]]; [left|right]; eauto.
      exists a, b. split; auto. split; auto. apply E. auto.
Qed.
Print Assumptions rdo_d_iso_ext.

(* rdo_d_iso only reads id, parent, sub, content and del of the items, in store order *)
Definition rdo_d_kd (x : rdo_item) : N * rdo_parent * option N * rdo_content * bool := (rdo_d_key x, rdo_del x).

Lemma rdo_d_kd_live_chain_ids : forall A A', map rdo_d_kd A = map rdo_d_kd A' ->
  forall P s, map rdo_id (rdo_live (rdo_chain A P s)) = map rdo_id (rdo_live (rdo_chain A' P s)).
Proof.
  intros A A' H P s. apply rdo_d_map_F2 in H.
  apply (rdo_d_F2_map_eq _ _ _ (fun x y => rdo_d_kd x = rdo_d_kd y)).
  - unfold rdo_live, rdo_chain. apply rdo_d_F2_filter.
    + apply rdo_d_F2_filter; auto. intros x y E. unfold rdo_d_kd, rdo_d_key in E. inversion E.
      unfold rdo_in_chain. congruence.
    + intros x y E. unfold rdo_d_kd, rdo_d_key in E. inversion E. congruence.
  - intros x y E. unfold rdo_d_kd, rdo_d_key in E. inversion E. auto.
Qed.
Print Assumptions rdo_d_kd_live_chain_ids.

Lemma rdo_d_kd_get : forall A A' a x, map rdo_d_kd A = map rdo_d_kd A' -> rdo_get A a = Some x ->
  exists x', rdo_get A' a = Some x' /\ rdo_d_kd x = rdo_d_kd x'.
Proof.
  induction A; destruct A'; simpl; intros i x H Hg; try discriminate.
  assert (rdo_d_kd a = rdo_d_kd r /\ map rdo_d_kd A = map rdo_d_kd A') as [Ek Et].
  { split; congruence. }
  assert (rdo_id a = rdo_id r) as Ei by (unfold rdo_d_kd, rdo_d_key in Ek; congruence).
  rewrite <- Ei. destruct (rdo_id a =? i).
  - inversion Hg; subst. eauto.
  - eauto.
Qed.
Print Assumptions rdo_d_kd_get.

Theorem rdo_d_iso_kd : forall A A' B B' rho, map rdo_d_kd A = map rdo_d_kd A' -> map rdo_d_kd B = map rdo_d_kd B' ->
  rdo_d_iso A B rho -> rdo_d_iso A' B' rho.
Proof.
  intros A A' B B' rho HA HB [I1 I2]. split.
  - intros a b H. destruct (I1 a b H) as [x [y [G1 [G2 [G3 [G4 G5]]]]]].
    destruct (rdo_d_kd_get A A' a x HA G1) as [x' [K1 K2]].
    destruct (rdo_d_kd_get B B' b y HB G2) as [y' [L1 L2]].
    exists x', y'. unfold rdo_d_kd, rdo_d_key in K2, L2. inversion K2. inversion L2.
    repeat split; auto; congruence.
  - intros PA PB sub Hb. apply rdo_d_F2_ids.
    rewrite <- (rdo_d_kd_live_chain_ids A A' HA), <- (rdo_d_kd_live_chain_ids B B' HB).
    apply rdo_d_F2_ids. auto.
Qed.
Print Assumptions rdo_d_iso_kd.

Lemma rdo_d_kd_update : forall st i f, (forall y, rdo_d_kd (f y) = rdo_d_kd y) ->
  map rdo_d_kd (rdo_update st i f) = map rdo_d_kd st.
Proof.
  induction st; simpl; intros i f H; auto. destruct (rdo_id a =? i); simpl.
  - rewrite H. auto.
  - rewrite IHst; auto.
Qed.
Print Assumptions rdo_d_kd_update.

Lemma rdo_d_kd_set_red : forall y n, rdo_d_kd (rdo_set_red y n) = rdo_d_kd y.
Proof. reflexivity. Qed.
Lemma rdo_d_kd_set_keep : forall y b, rdo_d_kd (rdo_set_keep y b) = rdo_d_kd y.
Proof. reflexivity. Qed.
Print Assumptions rdo_d_kd_set_red.
Print Assumptions rdo_d_kd_set_keep.

(* killing: the items of a set of ids become dead (what rdo_delete does, and what rdo_i_flip does with I) *)
Definition rdo_d_kill (d : list N) (st : list rdo_item) : list rdo_item :=
  map (fun x => if rdo_mem (rdo_id x) d then rdo_set_del x else x) st.

Lemma rdo_d_live_chain_kill : forall d st P s,
  rdo_live (rdo_chain (rdo_d_kill d st) P s) = filter (fun x => negb (rdo_mem (rdo_id x) d)) (rdo_live (rdo_chain st P s)).
Proof.
  intros d st P s. induction st; auto.
  unfold rdo_d_kill in *. simpl map. rewrite !rdo_d_chain_cons.
  destruct (rdo_mem (rdo_id a) d) eqn:E.
  - assert (rdo_in_chain P s (rdo_set_del a) = rdo_in_chain P s a) as -> by reflexivity.
    destruct (rdo_in_chain P s a); auto. rewrite !rdo_d_live_cons. simpl rdo_del.
    destruct (rdo_del a); auto. simpl. rewrite E. simpl. auto.
  - destruct (rdo_in_chain P s a); auto. rewrite !rdo_d_live_cons.
    destruct (rdo_del a); auto. simpl. rewrite E. simpl. f_equal. auto.
Qed.
Print Assumptions rdo_d_live_chain_kill.

Lemma rdo_d_get_kill : forall d st a,
  rdo_get (rdo_d_kill d st) a = option_map (fun x => if rdo_mem (rdo_id x) d then rdo_set_del x else x) (rdo_get st a).
Proof.
  intros d st a. induction st; simpl; auto.
  assert (rdo_id (if rdo_mem (rdo_id a0) d then rdo_set_del a0 else a0) = rdo_id a0) as -> by (destruct (rdo_mem (rdo_id a0) d); auto).
  destruct (rdo_id a0 =? a); auto.
Qed.
Print Assumptions rdo_d_get_kill.

Theorem rdo_d_iso_kill : forall A B rho KA KB, rdo_d_iso A B rho ->
  (forall a b, rho a b -> rdo_mem a KA = rdo_mem b KB) ->
  rdo_d_iso (rdo_d_kill KA A) (rdo_d_kill KB B) (fun a b => rho a b /\ rdo_mem a KA = false).
Proof.
  intros A B rho KA KB [I1 I2] HK. split.
  - intros a b [H Hm]. destruct (I1 a b H) as [x [y [G1 [G2 [G3 [G4 G5]]]]]].
    pose proof (rdo_d_get_some _ _ _ G1) as [_ Ex]. pose proof (rdo_d_get_some _ _ _ G2) as [_ Ey].
    exists x, y. rewrite !rdo_d_get_kill, G1, G2. simpl. rewrite Ex, Ey, <- (HK a b H), Hm. auto.
  - intros PA PB sub Hb. rewrite !rdo_d_live_chain_kill.
    apply (rdo_d_F2_impl _ _ (fun x y => rho (rdo_id x) (rdo_id y) /\ negb (rdo_mem (rdo_id x) KA) = true)).
    + intros x y [H1 H2]. apply negb_true_iff in H2. auto.
    + apply rdo_d_F2_filter_strong.
      * apply I2. destruct Hb as [[n [H1 H2]]|[a [b [H1 [H2 [H3 _]]]]]]; [left|right]; eauto.
      * intros x y H. rewrite (HK _ _ H). auto.
Qed.
Print Assumptions rdo_d_iso_kill.

(* ---------------------------------------------------------------------------------------------- *)
(* D7: one re-creation step: a dead item o of A becomes alive, a fresh live copy c is linked into B *)

Definition rdo_d_fun (rho : N -> N -> Prop) : Prop := forall a b b', rho a b -> rho a b' -> b = b'.
Definition rdo_d_inj (rho : N -> N -> Prop) : Prop := forall a a' b, rho a b -> rho a' b -> a = a'.

Lemma rdo_d_brel_fun : forall rho P P1 P2, rdo_d_fun rho -> rdo_d_brel rho P P1 -> rdo_d_brel rho P P2 -> P1 = P2.
Proof.
  intros rho P P1 P2 Hf [[n [H1 H2]]|[a [b [H1 [H2 H3]]]]] [[n' [H1' H2']]|[a' [b' [H1' [H2' H3']]]]]; subst; try congruence.
  inversion H1'; subst. f_equal. eapply Hf; eauto.
Qed.
Print Assumptions rdo_d_brel_fun.

Lemma rdo_d_brel_inj : forall rho P1 P2 P, rdo_d_inj rho -> rdo_d_brel rho P1 P -> rdo_d_brel rho P2 P -> P1 = P2.
Proof.
  intros rho P1 P2 P Hf [[n [H1 H2]]|[a [b [H1 [H2 H3]]]]] [[n' [H1' H2']]|[a' [b' [H1' [H2' H3']]]]]; subst; try congruence.
  inversion H2'; subst. f_equal. eapply Hf; eauto.
Qed.
Print Assumptions rdo_d_brel_inj.

Lemma rdo_d_ps_dec : forall (Q P : rdo_parent) (t s : option N), (Q, t) = (P, s) \/ (Q, t) <> (P, s).
Proof.
  intros Q P t s. destruct (rdo_par_eqb Q P) eqn:E1; destruct (rdo_on_eqb t s) eqn:E2.
  - apply rdo_d_par_eqb_spec in E1. apply rdo_d_on_eqb_spec in E2. left. congruence.
  - right. intros H. inversion H; subst. assert (rdo_on_eqb s s = true) by (apply rdo_d_on_eqb_spec; auto). congruence.
  - right. intros H. inversion H; subst. assert (rdo_par_eqb P P = true) by (apply rdo_d_par_eqb_spec; auto). congruence.
  - right. intros H. inversion H; subst. assert (rdo_par_eqb P P = true) by (apply rdo_d_par_eqb_spec; auto). congruence.
Qed.
Print Assumptions rdo_d_ps_dec.

Theorem rdo_d_iso_add_gen : forall A B A' B' rho o c xo' xc P P' s a1 a2 b1 b2,
  rdo_d_fun rho -> rdo_d_inj rho -> rdo_d_iso A B rho ->
  (* the A side *)
  (forall a, a <> o -> rdo_get A' a = rdo_get A a) -> rdo_get A' o = Some xo' -> rdo_del xo' = false -> rdo_id xo' = o ->
  (forall b, ~ rho o b) ->
  (forall Q t, (Q, t) <> (P, s) -> rdo_live (rdo_chain A' Q t) = rdo_live (rdo_chain A Q t)) ->
  rdo_live (rdo_chain A P s) = a1 ++ a2 -> rdo_live (rdo_chain A' P s) = a1 ++ xo' :: a2 ->
  (forall t, rdo_live (rdo_chain A (RdoItem o) t) = []) -> P <> RdoItem o ->
  (* the B side *)
  (forall b, b <> c -> rdo_get B' b = rdo_get B b) -> rdo_get B' c = Some xc -> rdo_del xc = false -> rdo_id xc = c ->
  (forall a, ~ rho a c) ->
  (forall Q t, (Q, t) <> (P', s) -> rdo_live (rdo_chain B' Q t) = rdo_live (rdo_chain B Q t)) ->
  rdo_live (rdo_chain B P' s) = b1 ++ b2 -> rdo_live (rdo_chain B' P' s) = b1 ++ xc :: b2 ->
  (forall t, rdo_live (rdo_chain B (RdoItem c) t) = []) -> P' <> RdoItem c ->
  (* the link *)
  rdo_cnt xo' = rdo_cnt xc -> rdo_d_brel rho P P' -> length a1 = length b1 ->
  rdo_d_iso A' B' (fun a b => rho a b \/ (a = o /\ b = c)).
Proof.
  intros A B A' B' rho o c xo' xc P P' s a1 a2 b1 b2 Hfun Hinj [I1 I2]
         GA GAo DAo IAo NAo CA CAP CAP' KA PA GB GBc DBc IBc NBc CB CBP CBP' KB PB Hcnt Hbr Hlen.
  split.
  - intros a b [H|[Ha Hb]].
    + assert (a <> o) as Na by (intro; subst; eapply NAo; eauto).
      assert (b <> c) as Nb by (intro; subst; eapply NBc; eauto).
      rewrite (GA a Na), (GB b Nb). auto.
    + subst. exists xo', xc. auto.
  - intros QA QB sub Hb.
    assert (rdo_d_brel rho QA QB \/ (QA = RdoItem o /\ QB = RdoItem c)) as [Hb'|[E1 E2]].
    { destruct Hb as [[n [H1 H2]]|[a [b [H1 [H2 [H3|[H3 H4]]]]]]].
      - left. left. eauto.
      - left. right. eauto.
      - right. subst. auto. }
    + destruct (rdo_d_ps_dec QA P sub s) as [E|E].
      * inversion E; subst QA sub.
        assert (QB = P') as -> by (eapply rdo_d_brel_fun; eauto).
        rewrite CAP', CBP'. apply rdo_d_F2_insert; auto.
        rewrite <- CAP, <- CBP. apply (rdo_d_F2_impl _ _ (fun x y => rho (rdo_id x) (rdo_id y))); auto.
      * assert ((QB, sub) <> (P', s)) as E'.
        { intros H. inversion H; subst QB sub. apply E. f_equal. eapply rdo_d_brel_inj; eauto. }
        rewrite (CA _ _ E), (CB _ _ E').
        apply (rdo_d_F2_impl _ _ (fun x y => rho (rdo_id x) (rdo_id y))); auto.
    + subst QA QB.
      assert ((RdoItem o, sub) <> (P, s)) as E by (intros H; inversion H; subst; auto).
      assert ((RdoItem c, sub) <> (P', s)) as E' by (intros H; inversion H; subst; auto).
      rewrite (CA _ _ E), (CB _ _ E'), KA, KB. constructor.
Qed.
Print Assumptions rdo_d_iso_add_gen.

Lemma rdo_d_get_update : forall st i f a, (forall y, rdo_id (f y) = rdo_id y) ->
  rdo_get (rdo_update st i f) a = if a =? i then option_map f (rdo_get st i) else rdo_get st a.
Proof.
  induction st; simpl; intros i f b Hf. { destruct (b =? i); auto. }
  destruct (rdo_id a =? i) eqn:E; simpl.
  - rewrite Hf. apply N.eqb_eq in E. subst i. rewrite (N.eqb_sym b). destruct (rdo_id a =? b); auto.
  - rewrite IHst; auto. destruct (b =? i) eqn:E2; auto.
    apply N.eqb_eq in E2. subst b. rewrite E. auto.
Qed.
Print Assumptions rdo_d_get_update.

Lemma rdo_d_get_insert_after : forall st l x b, rdo_get st (rdo_id x) = None ->
  rdo_get (rdo_insert_after st l x) b = if rdo_id x =? b then Some x else rdo_get st b.
Proof.
  induction st; simpl; intros l x b H; auto.
  destruct (rdo_id a =? rdo_id x) eqn:E; try discriminate.
  destruct (rdo_id a =? l); simpl.
  - destruct (rdo_id a =? b) eqn:E1; destruct (rdo_id x =? b) eqn:E2; auto.
    apply N.eqb_eq in E1. apply N.eqb_eq in E2. apply N.eqb_neq in E. congruence.
  - rewrite IHst; auto. destruct (rdo_id a =? b) eqn:E1; destruct (rdo_id x =? b) eqn:E2; auto.
    apply N.eqb_eq in E1. apply N.eqb_eq in E2. apply N.eqb_neq in E. congruence.
Qed.
Print Assumptions rdo_d_get_insert_after.

Lemma rdo_d_get_link : forall st l x b, rdo_get st (rdo_id x) = None ->
  rdo_get (rdo_link st l x) b = if rdo_id x =? b then Some x else rdo_get st b.
Proof.
  intros st l x b H. destruct l; unfold rdo_link.
  - apply rdo_d_get_insert_after; auto.
  - reflexivity.
Qed.
Print Assumptions rdo_d_get_link.

Lemma rdo_d_nodup_filter : forall (p : rdo_item -> bool) st, rdo_i_nodup (map rdo_id st) = true ->
  rdo_i_nodup (map rdo_id (filter p st)) = true.
Proof.
  intros p st. rewrite !rdo_d_nodup_spec. induction st; simpl; intros H; auto.
  inversion H; subst. destruct (p a); simpl; auto. constructor; auto.
  intros Hi. apply H2. apply in_map_iff in Hi. destruct Hi as [z [Ez Hz]]. apply filter_In in Hz.
  rewrite <- Ez. apply in_map. tauto.
Qed.
Print Assumptions rdo_d_nodup_filter.

Lemma rdo_d_update_mid : forall a1 x a2 f, rdo_i_nodup (map rdo_id (a1 ++ x :: a2)) = true ->
  rdo_update (a1 ++ x :: a2) (rdo_id x) f = a1 ++ f x :: a2.
Proof.
  induction a1; simpl; intros x a2 f H.
  - rewrite N.eqb_refl. auto.
  - apply andb_true_iff in H. destruct H as [H1 H2]. apply negb_true_iff in H1.
    destruct (rdo_id a =? rdo_id x) eqn:E.
    + apply N.eqb_eq in E. exfalso.
      assert (rdo_mem (rdo_id a) (map rdo_id (a1 ++ x :: a2)) = true) as Hm.
      { apply rdo_d_mem_In. rewrite E. apply in_map. apply in_elt. }
      congruence.
    + rewrite IHa1; auto.
Qed.
Print Assumptions rdo_d_update_mid.

(* the step with the operations of the model: rdo_update .. rdo_set_live on the virtual side, rdo_link on the real side *)
Theorem rdo_d_iso_add : forall A B rho o c xo xc l a1 a2 b1 b2,
  rdo_i_nodup (map rdo_id A) = true ->
  rdo_d_fun rho -> rdo_d_inj rho -> rdo_d_iso A B rho ->
  rdo_get A o = Some xo -> rdo_del xo = true ->
  (forall y, In y A -> rdo_par y = RdoItem o -> rdo_del y = true) ->
  rdo_get B c = None -> rdo_id xc = c -> rdo_del xc = false -> rdo_cnt xc = rdo_cnt xo -> rdo_sub xc = rdo_sub xo ->
  (forall y, In y B -> rdo_par y = RdoItem c -> rdo_del y = true) ->
  rdo_par xo <> RdoItem o -> rdo_par xc <> RdoItem c ->
  rdo_d_brel rho (rdo_par xo) (rdo_par xc) ->
  rdo_chain A (rdo_par xo) (rdo_sub xo) = a1 ++ xo :: a2 ->
  rdo_chain B (rdo_par xc) (rdo_sub xc) = b1 ++ b2 ->
  rdo_chain (rdo_link B l xc) (rdo_par xc) (rdo_sub xc) = b1 ++ xc :: b2 ->
  length (rdo_live a1) = length (rdo_live b1) ->
  rdo_d_iso (rdo_update A o rdo_set_live) (rdo_link B l xc) (fun a b => rho a b \/ (a = o /\ b = c)).
Proof.
  intros A B rho o c xo xc l a1 a2 b1 b2 Hn Hfun Hinj HI Hgo Hdo Hkids Hgc Hic Hdc Hcnt Hsub HkidsB HPo HPc Hbr HcA HcB HcB' Hlen.
  pose proof (rdo_d_get_some _ _ _ Hgo) as [Hxo Hio].
  assert (forall z, In z A -> rdo_id z = o -> z = xo) as Hself.
  { intros z Hz Ez. pose proof (rdo_d_get_in A z Hn Hz) as G. rewrite Ez, Hgo in G. congruence. }
  assert (forall y, rdo_id (rdo_set_live y) = rdo_id y) as Fid by reflexivity.
  assert (forall y, rdo_par (rdo_set_live y) = rdo_par y /\ rdo_sub (rdo_set_live y) = rdo_sub y) as Fps by (intros; split; reflexivity).
  assert (forall a, a <> o -> rdo_get (rdo_update A o rdo_set_live) a = rdo_get A a) as H1.
  { intros a Na. rewrite rdo_d_get_update; auto. destruct (a =? o) eqn:E; auto. apply N.eqb_eq in E. congruence. }
  assert (rdo_get (rdo_update A o rdo_set_live) o = Some (rdo_set_live xo)) as H2.
  { rewrite rdo_d_get_update; auto. rewrite N.eqb_refl, Hgo. auto. }
  assert (forall b, ~ rho o b) as H3.
  { intros b H. destruct HI as [I1 _]. destruct (I1 _ _ H) as [x [y [G1 [_ [G3 _]]]]]. rewrite Hgo in G1. inversion G1; subst. congruence. }
  assert (forall Q t, (Q, t) <> (rdo_par xo, rdo_sub xo) ->
            rdo_live (rdo_chain (rdo_update A o rdo_set_live) Q t) = rdo_live (rdo_chain A Q t)) as H4.
  { intros Q t E. rewrite rdo_d_chain_update; auto. rewrite rdo_d_update_absent; auto.
    intros z Hz Ez. apply rdo_d_chain_In in Hz. destruct Hz as [Hz [Hp Hs]].
    pose proof (Hself z Hz Ez). subst z. apply E. congruence. }
  assert (rdo_live (rdo_chain A (rdo_par xo) (rdo_sub xo)) = rdo_live a1 ++ rdo_live a2) as H5.
  { rewrite HcA, rdo_d_live_app, rdo_d_live_cons, Hdo. auto. }
  assert (rdo_live (rdo_chain (rdo_update A o rdo_set_live) (rdo_par xo) (rdo_sub xo)) = rdo_live a1 ++ rdo_set_live xo :: rdo_live a2) as H6.
  { rewrite rdo_d_chain_update; auto. rewrite HcA, <- Hio. rewrite rdo_d_update_mid.
    - rewrite rdo_d_live_app, rdo_d_live_cons. reflexivity.
    - rewrite <- HcA. apply rdo_d_nodup_filter. auto. }
  assert (forall t, rdo_live (rdo_chain A (RdoItem o) t) = []) as H7.
  { intros t. apply rdo_d_live_nil. intros y Hy. apply rdo_d_chain_In in Hy. apply Hkids; tauto. }
  assert (forall b, b <> c -> rdo_get (rdo_link B l xc) b = rdo_get B b) as H8.
  { intros b Nb. rewrite rdo_d_get_link; [|rewrite Hic; auto]. rewrite Hic. destruct (c =? b) eqn:E; auto.
    apply N.eqb_eq in E. congruence. }
  assert (rdo_get (rdo_link B l xc) c = Some xc) as H9.
  { rewrite rdo_d_get_link; [|rewrite Hic; auto]. rewrite Hic, N.eqb_refl. auto. }
  assert (forall a, ~ rho a c) as H10.
  { intros a H. destruct HI as [I1 _]. destruct (I1 _ _ H) as [x [y [_ [G2 _]]]]. congruence. }
  assert (forall Q t, (Q, t) <> (rdo_par xc, rdo_sub xo) ->
            rdo_live (rdo_chain (rdo_link B l xc) Q t) = rdo_live (rdo_chain B Q t)) as H11.
  { intros Q t E. destruct (rdo_d_chain_link B l xc Q t) as [L1 _]. rewrite L1; auto.
    destruct (rdo_in_chain Q t xc) eqn:Ec; auto. apply rdo_d_in_chain_spec in Ec. exfalso. apply E.
    destruct Ec as [<- <-]. congruence. }
  assert (rdo_live (rdo_chain B (rdo_par xc) (rdo_sub xo)) = rdo_live b1 ++ rdo_live b2) as H12.
  { rewrite <- Hsub, HcB, rdo_d_live_app. auto. }
  assert (rdo_live (rdo_chain (rdo_link B l xc) (rdo_par xc) (rdo_sub xo)) = rdo_live b1 ++ xc :: rdo_live b2) as H13.
  { rewrite <- Hsub, HcB', rdo_d_live_app, rdo_d_live_cons, Hdc. auto. }
  assert (forall t, rdo_live (rdo_chain B (RdoItem c) t) = []) as H14.
  { intros t. apply rdo_d_live_nil. intros y Hy. apply rdo_d_chain_In in Hy. apply HkidsB; tauto. }
  assert (rdo_cnt (rdo_set_live xo) = rdo_cnt xc) as H15 by (simpl; auto).
  exact (rdo_d_iso_add_gen A B _ _ rho o c (rdo_set_live xo) xc (rdo_par xo) (rdo_par xc) (rdo_sub xo) _ _ _ _
           Hfun Hinj HI H1 H2 eq_refl Hio H3 H4 H5 H6 H7 HPo H8 H9 Hdc Hic H10 H11 H12 H13 H14 HPc H15 Hbr Hlen).
Qed.
Print Assumptions rdo_d_iso_add.

(* the extended relation is again functional / injective *)
Lemma rdo_d_fun_add : forall (rho : N -> N -> Prop) o c, rdo_d_fun rho -> (forall b, ~ rho o b) ->
  rdo_d_fun (fun a b => rho a b \/ (a = o /\ b = c)).
Proof.
  intros rho o c Hf Hn a b b' [H|[H1 H2]] [H'|[H1' H2']]; subst; try congruence.
  - eapply Hf; eauto.
  - exfalso. eapply Hn; eauto.
  - exfalso. eapply Hn; eauto.
Qed.
Print Assumptions rdo_d_fun_add.

Lemma rdo_d_inj_add : forall (rho : N -> N -> Prop) o c, rdo_d_inj rho -> (forall a, ~ rho a c) ->
  rdo_d_inj (fun a b => rho a b \/ (a = o /\ b = c)).
Proof.
  intros rho o c Hf Hn a a' b [H|[H1 H2]] [H'|[H1' H2']]; subst; try congruence.
  - eapply Hf; eauto.
  - exfalso. eapply Hn; eauto.
  - exfalso. eapply Hn; eauto.
Qed.
Print Assumptions rdo_d_inj_add.

(* related elements of two duplicate-free lists in a one-to-one correspondence sit at the same index *)
Lemma rdo_d_F2_index : forall (A B : Type) (R : A -> B -> Prop) l1 x l2 m1 y m2,
  (forall a b b', R a b -> R a b' -> b = b') -> (forall a a' b, R a b -> R a' b -> a = a') ->
  NoDup (l1 ++ x :: l2) -> NoDup (m1 ++ y :: m2) ->
  Forall2 R (l1 ++ x :: l2) (m1 ++ y :: m2) -> R x y ->
  length l1 = length m1 /\ Forall2 R l1 m1 /\ Forall2 R l2 m2.
Proof.
  intros A B R l1. induction l1; intros x l2 m1 y m2 Hf Hi Nl Nm H Hxy; destruct m1; simpl in *.
  - inversion H; subst. auto.
  - exfalso. inversion H; subst. assert (b = y) by (eapply Hf; eauto). subst b.
    inversion Nm; subst. apply H2. apply in_elt.
  - exfalso. inversion H; subst. assert (a = x) by (eapply Hi; eauto). subst a.
    inversion Nl; subst. apply H2. apply in_elt.
  - assert (R a b /\ Forall2 R (l1 ++ x :: l2) (m1 ++ y :: m2)) as [Hab Ht] by (inversion H; subst; auto).
    assert (NoDup (l1 ++ x :: l2)) as Nl' by (inversion Nl; subst; auto).
    assert (NoDup (m1 ++ y :: m2)) as Nm' by (inversion Nm; subst; auto).
    destruct (IHl1 x l2 m1 y m2 Hf Hi Nl' Nm' Ht Hxy) as [E [F1 F2]]. auto.
Qed.
Print Assumptions rdo_d_F2_index.

Lemma rdo_d_fun_sub : forall (r1 r2 : N -> N -> Prop), (forall a b, r2 a b -> r1 a b) -> rdo_d_fun r1 -> rdo_d_fun r2.
Proof. intros r1 r2 H Hf a b b' H1 H2. eapply Hf; eauto. Qed.
Print Assumptions rdo_d_fun_sub.

Lemma rdo_d_inj_sub : forall (r1 r2 : N -> N -> Prop), (forall a b, r2 a b -> r1 a b) -> rdo_d_inj r1 -> rdo_d_inj r2.
Proof. intros r1 r2 H Hf a a' b H1 H2. eapply Hf; eauto. Qed.
Print Assumptions rdo_d_inj_sub.

Lemma rdo_d_fun_id : forall (Q : N -> Prop), rdo_d_fun (fun a b => a = b /\ Q a).
Proof. intros Q a b b' [H1 _] [H2 _]. congruence. Qed.
Print Assumptions rdo_d_fun_id.

Lemma rdo_d_inj_id : forall (Q : N -> Prop), rdo_d_inj (fun a b => a = b /\ Q a).
Proof. intros Q a a' b [H1 _] [H2 _]. congruence. Qed.
Print Assumptions rdo_d_inj_id.

Lemma rdo_d_fun_trans : forall (r1 r2 : N -> N -> Prop), rdo_d_fun r1 -> rdo_d_fun r2 ->
  rdo_d_fun (fun a c => exists b, r1 a b /\ r2 b c).
Proof.
  intros r1 r2 H1 H2 a c c' [b [Ha Hb]] [b' [Ha' Hb']]. assert (b = b') by (eapply H1; eauto). subst. eapply H2; eauto.
Qed.
Print Assumptions rdo_d_fun_trans.

Lemma rdo_d_inj_trans : forall (r1 r2 : N -> N -> Prop), rdo_d_inj r1 -> rdo_d_inj r2 ->
  rdo_d_inj (fun a c => exists b, r1 a b /\ r2 b c).
Proof.
  intros r1 r2 H1 H2 a a' c [b [Ha Hb]] [b' [Ha' Hb']]. assert (b = b') by (eapply H2; eauto). subst. eapply H1; eauto.
Qed.
Print Assumptions rdo_d_inj_trans.


(* ============================================================================================== *)
(* SECTION E *)
From Coq Require Import List NArith Bool Lia. Import ListNotations.  Open Scope N_scope.
From Coq Require Import Sorted Permutation.
(* RedoProofsE.v - Lemma P of theorem 2 (processing a stack entry e = (I, D) under rdo_i_pc): status
   PROVED (Qed, closed under the global context):
   E0  rdo_e_delete_spec / rdo_e_txn_delete_spec / rdo_e_tdfold_spec / rdo_e_phase2: rdo_delete sets exactly the del flags of the
       ids it returns (st' = rdo_e_kill d st), these are live, distinct, and each is the root or has its parent among them.
   E1  rdo_e_process_ok_partial: rdo_i_pc -> StronglySorted N.lt (rdo_sdel e) (rdo_e_sort_ss: true for entries built by rdo_sort)
       -> rdo_process s e s1 s2 = RdoOk (t, R <> [] || liveI <> []) /\ rdo_e_result (rdo_doc s) (rdo_clock s) I D t
       (no failure value; item level description r1, r2, r4, r6 of the result - see rdo_e_result / rdo_e_inv; re-created
       parents included).  rdo_e_process_flat_partial: the same with NoDup D only, when no re-created item has a re-created parent.
       rdo_e_result_wfp: the result satisfies rdo_i_wfp (first part of r5).
       Exact step lemmas: rdo_e_redo_seqA (copy linked immediately in front of the original), rdo_e_redo_mapA (copy appended at the
       end of the chain, the previous last entry deleted), rdo_e_step_B (parent re-created: chase, the copy goes below the copy).
   E2  rdo_e_lemma_P_partial: Lemma P (process = RdoOk (t, ch) and rdo_render_root (rdo_st t) = rdo_i_render_root (rdo_i_flip ..))
       for the class rdo_e_cls: at most ONE re-created item (R = [] : the result IS rdo_i_flip; R = [i]: sequence item or map
       entry, via rdo_d_iso_add of agent D).  rdo_e_process_render_partial: E2 in general RELATIVE to r3 (rdo_d_iso) and
       rdo_i_lastlive of the result.
   E3  rdo_e_lemma_Q_refuted: the reverse entry does NOT satisfy rdo_i_pc in general (c5 fails for a dead, earlier re-created
       child of a live inserted container): rdo_f_lemma_Q needs an extra hypothesis.
   R   rdo_e_lemma_R (end of file): rdo_i_pc -> StronglySorted N.lt (rdo_sdel e) -> rdo_process s e s1 s2 = RdoOk (t, ch) ->
       rdo_e_result /\ rdo_i_wfp /\ rdo_i_cascade /\ rdo_i_lastlive /\ all items in scope /\ the flag ch: r5 in general
       (rdo_e_result_legal, rdo_e_result_cascade, rdo_e_result_scope, rdo_e_process_lastlive, rdo_e_result_ch); these are the
       hypotheses of the bridge rdo_f_result_of_e of RedoProofsF.v.
   MISSING: r3 (the renaming of the live chains) for entries that re-create more than one item (hence Lemma P for them; taken
       over by agent D); left' of rdo_e_step_B is existential (rdo_e_lloop_B_first describes rdo_lloop there). *)


(* ============================================================================================== *)
(* E0: what rdo_delete does, exactly: it sets the del flag of the ids it returns, nothing else *)

Definition rdo_e_kill (d : list N) (st : list rdo_item) : list rdo_item :=
  map (fun x => if rdo_mem (rdo_id x) d then rdo_set_del x else x) st.

Lemma rdo_e_mem_in : forall i l, rdo_mem i l = true <-> In i l.
Proof. intros. unfold rdo_mem. rewrite existsb_exists. split.
  - intros (x & I & E). apply N.eqb_eq in E. subst; auto.
  - intros. exists i. split; auto. apply N.eqb_refl. Qed.
Print Assumptions rdo_e_mem_in.
Lemma rdo_e_mem_nin : forall i l, rdo_mem i l = false <-> ~ In i l.
Proof. intros. rewrite <- rdo_e_mem_in. destruct (rdo_mem i l); split; intros H; try congruence; try (exfalso; apply H; reflexivity). Qed.
Print Assumptions rdo_e_mem_nin.
Lemma rdo_e_mem_app : forall i a b, rdo_mem i (a ++ b) = rdo_mem i a || rdo_mem i b.
Proof. intros. unfold rdo_mem. apply existsb_app. Qed.
Print Assumptions rdo_e_mem_app.

Lemma rdo_e_kill_ids : forall d st, map rdo_id (rdo_e_kill d st) = map rdo_id st.
Proof. intros. unfold rdo_e_kill. rewrite map_map. apply map_ext. intros x. destruct (rdo_mem (rdo_id x) d); auto. Qed.
Print Assumptions rdo_e_kill_ids.

Lemma rdo_e_kill_out : forall d st, (forall x, In x st -> rdo_mem (rdo_id x) d = false) -> rdo_e_kill d st = st.
Proof. induction st; simpl; intros; auto. rewrite H; auto. f_equal. apply IHst. auto. Qed.
Print Assumptions rdo_e_kill_out.

Lemma rdo_e_update_kill : forall st i, NoDup (map rdo_id st) -> rdo_update st i rdo_set_del = rdo_e_kill [i] st.
Proof. induction st; simpl; intros; auto. inversion H; subst.
  destruct (rdo_id a =? i) eqn:E; simpl.
  - f_equal. symmetry. apply rdo_e_kill_out. intros x Ix. simpl. apply N.eqb_eq in E. subst i.
    destruct (rdo_id x =? rdo_id a) eqn:E2; auto. apply N.eqb_eq in E2. exfalso. apply H2. rewrite <- E2. apply in_map; auto.
  - f_equal. auto. Qed.
Print Assumptions rdo_e_update_kill.

Lemma rdo_e_kill_kill : forall d1 d2 st, rdo_e_kill d2 (rdo_e_kill d1 st) = rdo_e_kill (d1 ++ d2) st.
Proof. intros. unfold rdo_e_kill. rewrite map_map. apply map_ext. intros x. rewrite rdo_e_mem_app.
  destruct (rdo_mem (rdo_id x) d1); simpl; auto. destruct (rdo_mem (rdo_id x) d2); auto. Qed.
Print Assumptions rdo_e_kill_kill.

Lemma rdo_e_kill_nil : forall st, rdo_e_kill [] st = st.
Proof. intros. apply rdo_e_kill_out. auto. Qed.
Print Assumptions rdo_e_kill_nil.

Lemma rdo_e_get_kill : forall d st j, rdo_get (rdo_e_kill d st) j =
  option_map (fun x => if rdo_mem (rdo_id x) d then rdo_set_del x else x) (rdo_get st j).
Proof. induction st; simpl; intros; auto.
  assert (rdo_id (if rdo_mem (rdo_id a) d then rdo_set_del a else a) = rdo_id a) by (destruct (rdo_mem (rdo_id a) d); auto).
  rewrite H. destruct (rdo_id a =? j); auto. Qed.
Print Assumptions rdo_e_get_kill.

(* a live item of the killed store is a live item of the store, not in d *)
Lemma rdo_e_get_kill_live : forall d st j y, rdo_get (rdo_e_kill d st) j = Some y -> rdo_del y = false ->
  rdo_get st j = Some y /\ ~ In j d.
Proof. intros. rewrite rdo_e_get_kill in H. destruct (rdo_get st j) eqn:G; simpl in H; try discriminate.
  destruct (rdo_a_get_in _ _ _ G) as (_ & E). inversion H; subst y. rewrite E in *.
  destruct (rdo_mem j d) eqn:M; simpl in H0; try discriminate. split; auto. apply rdo_e_mem_nin; auto. Qed.
Print Assumptions rdo_e_get_kill_live.

Lemma rdo_e_nodup_app : forall (a b : list N), NoDup a -> NoDup b -> (forall x, In x b -> ~ In x a) -> NoDup (a ++ b).
Proof. induction a; simpl; intros; auto. inversion H; subst. constructor.
  - intro I. apply in_app_or in I. destruct I; auto. apply (H1 a); simpl; auto.
  - apply IHa; auto. intros x Ix I. apply (H1 x); simpl; auto. Qed.
Print Assumptions rdo_e_nodup_app.

Definition rdo_e_dspec (st : list rdo_item) (roots : list N) (d : list N) : Prop :=
  NoDup d /\
  forall j, In j d -> exists y, rdo_get st j = Some y /\ rdo_del y = false /\
                               (In j roots \/ exists q, rdo_par y = RdoItem q /\ In q d).

Definition rdo_e_dfold (f : nat) := fun (acc : rdo_res (list rdo_item * list N)) j =>
   rdo_let (s, d) := acc in rdo_let (s', d') := rdo_delete f s j in RdoOk (s', d ++ d').

Lemma rdo_e_dfold_err : forall f l e, fold_left (rdo_e_dfold f) l (RdoErr e) = RdoErr e.
Proof. induction l; simpl; auto. Qed.
Print Assumptions rdo_e_dfold_err.

Lemma rdo_e_kids_par : forall st1 i j,
  In j (map rdo_id (filter (fun y => negb (rdo_del y)) (rdo_chain st1 (RdoItem i) None)) ++
        flat_map (fun k => match rdo_map_get st1 (RdoItem i) k with Some j => [j] | None => [] end) (rdo_keys st1 (RdoItem i))) ->
  exists y, In y st1 /\ rdo_id y = j /\ rdo_par y = RdoItem i.
Proof. intros st1 i j Hj. apply in_app_or in Hj. destruct Hj as [Hj|Hj].
  - apply in_map_iff in Hj. destruct Hj as (y & Ey & Hy). apply filter_In in Hy. destruct Hy as (Hy & _).
    apply rdo_a_chain_in in Hy. exists y; tauto.
  - apply in_flat_map in Hj. destruct Hj as (k0 & _ & Hj).
    destruct (rdo_map_get st1 (RdoItem i) k0) eqn:M; simpl in Hj; try tauto.
    destruct Hj; try tauto. subst. apply rdo_a_map_get_in in M. destruct M as (y & Hy & Ey).
    apply rdo_a_chain_in in Hy. exists y; tauto. Qed.
Print Assumptions rdo_e_kids_par.

(* the fold over the children: d grows by ids that are live in st0 and are a kid or have their parent in the new part *)
Lemma rdo_e_dfold_spec : forall f st0,
  NoDup (map rdo_id st0) ->
  (forall st i st' d, NoDup (map rdo_id st) -> rdo_delete f st i = RdoOk (st', d) ->
      st' = rdo_e_kill d st /\ rdo_e_dspec st [i] d /\ (forall y, rdo_get st i = Some y -> rdo_del y = false -> In i d)) ->
  forall kids d s' d', NoDup d ->
    fold_left (rdo_e_dfold f) kids (RdoOk (rdo_e_kill d st0, d)) = RdoOk (s', d') ->
    exists dd, d' = d ++ dd /\ s' = rdo_e_kill d' st0 /\ NoDup d' /\
      (forall j, In j dd -> exists y, rdo_get st0 j = Some y /\ rdo_del y = false /\
                                   (In j kids \/ exists q, rdo_par y = RdoItem q /\ In q dd)) /\
      (forall j y, In j kids -> rdo_get st0 j = Some y -> rdo_del y = false -> In j d').
Proof. intros f st0 ND IH. induction kids; simpl; intros d s' d' NDd H.
  - inversion H; subst. exists []. rewrite app_nil_r. repeat split; auto. simpl; tauto. tauto.
  - destruct (rdo_delete f (rdo_e_kill d st0) a) as [(s1, d1)|] eqn:E; simpl in H; [|rewrite rdo_e_dfold_err in H; discriminate].
    destruct (IH _ _ _ _ (eq_ind_r (fun l => NoDup l) ND (rdo_e_kill_ids d st0)) E) as (E1 & (ND1 & S1) & L1).
    subst s1. rewrite rdo_e_kill_kill in H.
    assert (LIVE1: forall j, In j d1 -> exists y, rdo_get st0 j = Some y /\ rdo_del y = false /\ ~ In j d /\
                     (j = a \/ exists q, rdo_par y = RdoItem q /\ In q d1)).
    { intros j Ij. destruct (S1 _ Ij) as (y & Gy & Dy & Py). destruct (rdo_e_get_kill_live _ _ _ _ Gy Dy) as (G0 & NI).
      exists y. repeat split; auto. destruct Py as [[?|[]]|?]; auto. }
    assert (NDD: NoDup (d ++ d1)).
    { apply rdo_e_nodup_app; auto. intros x Ix. destruct (LIVE1 _ Ix) as (y & _ & _ & NI & _); auto. }
    destruct (IHkids _ _ _ NDD H) as (dd & Ed & Es & ND' & P1 & P2).
    exists (d1 ++ dd). rewrite app_assoc. repeat split; auto.
    + intros j Ij. apply in_app_or in Ij. destruct Ij as [Ij|Ij].
      * destruct (LIVE1 _ Ij) as (y & G & Dl & _ & [?|(q & Pq & Iq)]); exists y; repeat split; auto.
        right. exists q. split; auto. apply in_or_app; auto.
      * destruct (P1 _ Ij) as (y & G & Dl & [?|(q & Pq & Iq)]); exists y; repeat split; auto.
        right. exists q. split; auto. apply in_or_app; auto.
    + intros j y [Ej|Ij] G Dl.
      * subst j. rewrite Ed. destruct (in_dec N.eq_dec a d) as [I|NI]. apply in_or_app; left; apply in_or_app; auto.
        apply in_or_app; left; apply in_or_app; right. apply (L1 y); auto.
        rewrite rdo_e_get_kill, G. simpl. apply rdo_e_mem_nin in NI. destruct (rdo_a_get_in _ _ _ G) as (_ & Ey). rewrite Ey, NI. auto.
      * eapply P2; eauto. Qed.
Print Assumptions rdo_e_dfold_spec.

Lemma rdo_e_in_kill : forall d st y', In y' (rdo_e_kill d st) -> exists x, In x st /\ rdo_id y' = rdo_id x /\ rdo_par y' = rdo_par x.
Proof. intros. unfold rdo_e_kill in H. apply in_map_iff in H. destruct H as (x & E & I). exists x. split; auto.
  subst y'. destruct (rdo_mem (rdo_id x) d); auto. Qed.
Print Assumptions rdo_e_in_kill.

Lemma rdo_e_delete_spec : forall f st i st' d, NoDup (map rdo_id st) -> rdo_delete f st i = RdoOk (st', d) ->
  st' = rdo_e_kill d st /\ rdo_e_dspec st [i] d /\ (forall y, rdo_get st i = Some y -> rdo_del y = false -> In i d).
Proof. induction f. simpl; discriminate. intros st i st' d ND H0. rewrite rdo_a_delete_eq in H0.
  destruct (rdo_get st i) as [r|] eqn:G; try discriminate. destruct (rdo_del r) eqn:Dr.
  - inversion H0; subst. rewrite rdo_e_kill_nil. repeat split; auto. constructor. intros j []. intros y Ey; inversion Ey; subst; congruence.
  - cbv zeta in H0. rewrite rdo_e_update_kill in H0; auto. destruct (rdo_cnt r).
    + inversion H0; subst. repeat split; auto. repeat constructor; simpl; tauto.
      intros j [Ej|[]]. subst j. exists r. repeat split; auto. simpl; auto. simpl; auto.
    + match type of H0 with fold_left _ ?K _ = _ =>
        destruct (rdo_e_dfold_spec f st ND IHf K [i] st' d) as (dd & Ed & Es & ND' & P1 & P2); [repeat constructor; simpl; tauto | exact H0 | ] end.
      repeat split; auto.
      * intros j Ij. rewrite Ed in Ij. destruct Ij as [Ej|Ij].
        -- subst j. exists r. repeat split; auto. simpl; auto.
        -- destruct (P1 _ Ij) as (y & Gy & Dy & [K|(q & Pq & Iq)]); exists y; repeat split; auto; right.
           ++ apply rdo_e_kids_par in K. destruct K as (y' & Iy' & Ey' & Py'). apply rdo_e_in_kill in Iy'.
              destruct Iy' as (x & Ix & E1 & E2). pose proof (rdo_a_in_get _ _ ND Ix) as Gx. rewrite <- E1, Ey', Gy in Gx.
              inversion Gx; subst x. exists i. split. congruence. rewrite Ed. simpl; auto.
           ++ exists q. split; auto. rewrite Ed. simpl; auto.
      * intros. rewrite Ed. simpl; auto. Qed.
Print Assumptions rdo_e_delete_spec.

(* ---- the fold of rdo_txn_delete over a list of ids (second phase of rdo_process) *)
Definition rdo_e_tdfold := fun (acc : rdo_res rdo_txn) (i : N) => rdo_let t := acc in rdo_txn_delete t i.
Lemma rdo_e_tdfold_err : forall l e, fold_left rdo_e_tdfold l (RdoErr e) = RdoErr e.
Proof. induction l; simpl; auto. Qed.
Print Assumptions rdo_e_tdfold_err.

Lemma rdo_e_txn_delete_spec : forall t i t', NoDup (map rdo_id (rdo_st t)) -> rdo_txn_delete t i = RdoOk t' ->
  exists d, rdo_st t' = rdo_e_kill d (rdo_st t) /\ rdo_tdel t' = rdo_tdel t ++ d /\ rdo_next t' = rdo_next t /\ rdo_tins t' = rdo_tins t /\
            rdo_e_dspec (rdo_st t) [i] d /\ (forall y, rdo_get (rdo_st t) i = Some y -> rdo_del y = false -> In i d).
Proof. intros t i t' ND H. unfold rdo_txn_delete in H.
  destruct (rdo_delete (S (length (rdo_st t))) (rdo_st t) i) as [(s1, d1)|] eqn:E; simpl in H; try discriminate.
  inversion H; subst t'; simpl. destruct (rdo_e_delete_spec _ _ _ _ _ ND E) as (A & B & C). exists d1. repeat split; auto; apply B. Qed.
Print Assumptions rdo_e_txn_delete_spec.

Lemma rdo_e_tdfold_spec : forall l t t', NoDup (map rdo_id (rdo_st t)) -> fold_left rdo_e_tdfold l (RdoOk t) = RdoOk t' ->
  exists dd, rdo_st t' = rdo_e_kill dd (rdo_st t) /\ rdo_tdel t' = rdo_tdel t ++ dd /\ rdo_next t' = rdo_next t /\ rdo_tins t' = rdo_tins t /\
            rdo_e_dspec (rdo_st t) l dd /\ (forall i y, In i l -> rdo_get (rdo_st t) i = Some y -> rdo_del y = false -> In i dd).
Proof. induction l; simpl; intros t t' ND H.
  - inversion H; subst. exists []. rewrite rdo_e_kill_nil, app_nil_r. repeat split; auto. constructor. intros j [].
  - destruct (rdo_txn_delete t a) as [t1|] eqn:E; [|rewrite rdo_e_tdfold_err in H; discriminate].
    destruct (rdo_e_txn_delete_spec _ _ _ ND E) as (d1 & S1 & T1 & N1 & I1 & (ND1 & P1) & L1).
    assert (NDk: NoDup (map rdo_id (rdo_st t1))) by (rewrite S1, rdo_e_kill_ids; auto).
    destruct (IHl _ _ NDk H) as (d2 & S2 & T2 & N2 & I2 & (ND2 & P2) & L2).
    assert (LIVE2: forall j, In j d2 -> exists y, rdo_get (rdo_st t) j = Some y /\ rdo_del y = false /\ ~ In j d1 /\
                     (In j l \/ exists q, rdo_par y = RdoItem q /\ In q d2)).
    { intros j Ij. destruct (P2 _ Ij) as (y & Gy & Dy & Py). rewrite S1 in Gy. destruct (rdo_e_get_kill_live _ _ _ _ Gy Dy) as (G0 & NI).
      exists y. repeat split; auto. }
    exists (d1 ++ d2). rewrite S2, S1, rdo_e_kill_kill, T2, T1, app_assoc, N2, N1, I2, I1. repeat split; auto.
    + apply rdo_e_nodup_app; auto. intros x Ix. destruct (LIVE2 _ Ix) as (y & _ & _ & NI & _); auto.
    + intros j Ij. apply in_app_or in Ij. destruct Ij as [Ij|Ij].
      * destruct (P1 _ Ij) as (y & G & Dl & [[?|[]]|(q & Pq & Iq)]); exists y; (repeat split; auto);
          [left; left; auto | right; exists q; split; auto; apply in_or_app; auto].
      * destruct (LIVE2 _ Ij) as (y & G & Dl & _ & [?|(q & Pq & Iq)]); exists y; (repeat split; auto);
          [left; right; auto | right; exists q; split; auto; apply in_or_app; auto].
    + intros i y [Ei|Ii] G Dl.
      * subst i. apply in_or_app; left. eapply L1; eauto.
      * destruct (in_dec N.eq_dec i d1) as [I|NI]. apply in_or_app; auto. apply in_or_app; right. apply (L2 i y); auto.
        rewrite S1, rdo_e_get_kill, G. simpl. apply rdo_e_mem_nin in NI. destruct (rdo_a_get_in _ _ _ G) as (_ & Ey). rewrite Ey, NI. auto. Qed.
Print Assumptions rdo_e_tdfold_spec.

Lemma rdo_e_tdfold_ok : forall l t, rdo_a_parlt (rdo_st t) -> (forall i, In i l -> In i (map rdo_id (rdo_st t))) ->
  exists t', fold_left rdo_e_tdfold l (RdoOk t) = RdoOk t'.
Proof. induction l; simpl; intros. eauto.
  destruct (rdo_a_txn_delete_ok t a) as (t1 & E & Q & _); auto. rewrite E.
  apply IHl. eapply rdo_a_parlt_deq; eauto. intros. rewrite (rdo_a_deq_ids _ _ Q). auto. Qed.
Print Assumptions rdo_e_tdfold_ok.

(* closure: what is deleted lies in a set that holds the roots and every live child of its members *)
Lemma rdo_e_dspec_closed : forall st roots d (Q : N -> Prop), NoDup (map rdo_id st) -> rdo_a_parlt st -> rdo_e_dspec st roots d ->
  (forall r, In r roots -> In r d -> Q r) ->
  (forall y p, In y st -> rdo_del y = false -> rdo_par y = RdoItem p -> Q p -> Q (rdo_id y)) ->
  forall j, In j d -> Q j.
Proof. intros st roots d Q ND PL (_ & P) HR HC.
  assert (forall n j, j < n -> In j d -> Q j).
  { induction n using N.peano_ind; intros j L Ij. lia.
    destruct (P _ Ij) as (y & G & Dl & [?|(q & Pq & Iq)]); auto.
    destruct (rdo_a_get_in _ _ _ G) as (Iy & Ey). rewrite <- Ey. eapply HC; eauto. apply IHn; auto.
    pose proof (PL _ _ Iy Pq). lia. }
  intros j Ij. apply (H (j + 1)); auto. lia. Qed.
Print Assumptions rdo_e_dspec_closed.

Lemma rdo_e_set_del_dead : forall x, rdo_del x = true -> rdo_set_del x = x.
Proof. intros. destruct x; simpl in *; subst; reflexivity. Qed.
Print Assumptions rdo_e_set_del_dead.
Lemma rdo_e_kill_eq : forall d d' st, (forall x, In x st -> rdo_del x = false -> rdo_mem (rdo_id x) d = rdo_mem (rdo_id x) d') ->
  rdo_e_kill d st = rdo_e_kill d' st.
Proof. intros. unfold rdo_e_kill. apply map_ext_in. intros x Ix. destruct (rdo_del x) eqn:D.
  - rewrite rdo_e_set_del_dead; auto. destruct (rdo_mem (rdo_id x) d), (rdo_mem (rdo_id x) d'); auto.
  - rewrite H; auto. Qed.
Print Assumptions rdo_e_kill_eq.

(* ============================================================================================== *)
(* reading the boolean predicates *)
Lemma rdo_e_nodup_spec : forall l, rdo_i_nodup l = true -> NoDup l.
Proof. induction l; simpl; intros. constructor. apply andb_true_iff in H. destruct H. constructor; auto.
  apply rdo_e_mem_nin. destruct (rdo_mem a l); simpl in *; congruence. Qed.
Print Assumptions rdo_e_nodup_spec.
Lemma rdo_e_all_spec : forall st f, rdo_i_all st f = true -> forall x, In x st -> f x = true.
Proof. intros. unfold rdo_i_all in H. rewrite forallb_forall in H. auto. Qed.
Print Assumptions rdo_e_all_spec.

Lemma rdo_e_wfp_nodup : forall st n, rdo_i_wfp st n = true -> NoDup (map rdo_id st).
Proof. intros. unfold rdo_i_wfp in H. apply andb_true_iff in H. destruct H. apply rdo_e_nodup_spec; auto. Qed.
Print Assumptions rdo_e_wfp_nodup.
Lemma rdo_e_wfp_item : forall st n, rdo_i_wfp st n = true -> forall x, In x st -> rdo_id x < n /\
  forall p, rdo_par x = RdoItem p -> p < rdo_id x /\ exists y k, rdo_get st p = Some y /\ rdo_cnt y = RdoType k.
Proof. intros. unfold rdo_i_wfp in H. apply andb_true_iff in H. destruct H as (_ & H). pose proof (rdo_e_all_spec _ _ H _ H0) as Hx.
  simpl in Hx. apply andb_true_iff in Hx. destruct Hx as (L & P). apply N.ltb_lt in L. split; auto.
  intros p Ep. rewrite Ep in P. apply andb_true_iff in P. destruct P as (L2 & P). apply N.ltb_lt in L2. split; auto.
  destruct (rdo_get st p) as [y|]; try discriminate. destruct (rdo_cnt y) eqn:C; try discriminate. eauto. Qed.
Print Assumptions rdo_e_wfp_item.
Lemma rdo_e_wfp_parlt : forall st n, rdo_i_wfp st n = true -> rdo_a_parlt st.
Proof. intros st n W y p Iy Py. destruct (rdo_e_wfp_item _ _ W _ Iy) as (_ & P). apply P; auto. Qed.
Print Assumptions rdo_e_wfp_parlt.

(* ============================================================================================== *)
(* first phase of rdo_process: to_delete and to_redo under the precondition *)
Definition rdo_e_liveI (st : list rdo_item) (I : list N) : list N := filter (fun i => negb (rdo_i_isdel st i)) I.

Definition rdo_e_ftd (st : list rdo_item) (scope : list N) := fun (acc : rdo_res (option (list N))) (i : N) =>
                 rdo_let o := acc in
                 match o with
                 | None => RdoOk None
                 | Some l =>
                     match rdo_get st i with
                     | None => RdoOk (Some l)
                     | Some _ =>
                         rdo_let fo := rdo_follow (S (length st)) st i in
                         match fo with
                         | None => RdoOk None
                         | Some y => if negb (rdo_del y) && rdo_in_scope st scope (rdo_id y) then RdoOk (Some (l ++ [rdo_id y])) else RdoOk (Some l)
                         end
                     end
                 end.

Lemma rdo_e_td : forall st scope I,
  (forall i, In i I -> exists y, rdo_get st i = Some y /\ rdo_red y = None) ->
  (forall x, In x st -> rdo_in_scope st scope (rdo_id x) = true) ->
  forall l0, fold_left (rdo_e_ftd st scope) I (RdoOk (Some l0)) = RdoOk (Some (l0 ++ rdo_e_liveI st I)).
Proof. intros st scope. induction I; simpl; intros HI HS l0. rewrite app_nil_r; auto.
  destruct (HI a) as (y & G & R); auto. rewrite G, R. simpl. destruct (rdo_a_get_in _ _ _ G) as (Iy & Ey).
  rewrite Ey. rewrite <- Ey at 1. rewrite HS; auto. rewrite andb_true_r. unfold rdo_i_isdel. rewrite G.
  destruct (rdo_del y); simpl; rewrite IHI; auto. rewrite <- app_assoc. auto. Qed.
Print Assumptions rdo_e_td.

Lemma rdo_e_to_redo : forall st scope I D, (forall x, In x st -> rdo_in_scope st scope (rdo_id x) = true) ->
  filter (fun i => rdo_is_some (rdo_get st i) && rdo_in_scope st scope i && negb (rdo_mem i I)) D = rdo_i_redo st I D.
Proof. intros. unfold rdo_i_redo. apply filter_ext. intros i. destruct (rdo_get st i) eqn:G; simpl; auto.
  destruct (rdo_a_get_in _ _ _ G) as (Iy & Ey). rewrite <- Ey. rewrite H; auto. Qed.
Print Assumptions rdo_e_to_redo.

Definition rdo_e_fredo (ri td : list N) (s1 s2 : list rdo_sitem) := fun (acc : rdo_res (rdo_txn * bool)) (i : N) =>
   rdo_let (t, c) := acc in
   rdo_let (t', o) := rdo_redo (S (length (rdo_st t))) t i ri td s1 s2 in
   RdoOk (t', c || rdo_is_some o).

Lemma rdo_e_process_eq : forall s e s1 s2 td,
  fold_left (rdo_e_ftd (rdo_doc s) (rdo_scope s)) (rdo_sins e) (RdoOk (Some [])) = RdoOk (Some td) ->
  (forall x, In x (rdo_doc s) -> rdo_in_scope (rdo_doc s) (rdo_scope s) (rdo_id x) = true) ->
  rdo_process s e s1 s2 =
    (let R := rdo_i_redo (rdo_doc s) (rdo_sins e) (rdo_sdel e) in
     rdo_let (t1, c1) := fold_left (rdo_e_fredo R (rdo_sins e) s1 s2) R (RdoOk (rdo_begin s, false)) in
     rdo_let t2 := fold_left rdo_e_tdfold (rev td) (RdoOk t1) in
     RdoOk (t2, c1 || rdo_is_some (hd_error td))).
Proof. intros. unfold rdo_process. cbv zeta.
  match goal with |- rdo_bind ?X _ = _ => replace X with (RdoOk (Some td)) by (symmetry; exact H) end.
  cbn [rdo_bind]. change (rdo_st (rdo_begin s)) with (rdo_doc s). rewrite rdo_e_to_redo; auto. Qed.
Print Assumptions rdo_e_process_eq.

(* ============================================================================================== *)
(* second phase of rdo_process *)
Lemma rdo_e_phase2 : forall t1 I td,
  NoDup (map rdo_id (rdo_st t1)) -> rdo_a_parlt (rdo_st t1) ->
  (forall y p, In y (rdo_st t1) -> rdo_del y = false -> rdo_par y = RdoItem p -> In p I -> In (rdo_id y) I) ->
  (forall i, In i td -> In i I /\ In i (map rdo_id (rdo_st t1))) ->
  (forall i y, In i I -> rdo_get (rdo_st t1) i = Some y -> rdo_del y = false -> In i td) ->
  exists t2 dd, fold_left rdo_e_tdfold (rev td) (RdoOk t1) = RdoOk t2 /\ rdo_st t2 = rdo_e_kill I (rdo_st t1) /\
     rdo_next t2 = rdo_next t1 /\ rdo_tins t2 = rdo_tins t1 /\ rdo_tdel t2 = rdo_tdel t1 ++ dd /\ NoDup dd /\
     forall j, In j dd <-> (In j I /\ exists y, rdo_get (rdo_st t1) j = Some y /\ rdo_del y = false).
Proof. intros t1 I td ND PL CL TD LV.
  destruct (rdo_e_tdfold_ok (rev td) t1) as (t2 & E); auto. { intros i Ii. apply in_rev in Ii. apply TD; auto. }
  destruct (rdo_e_tdfold_spec _ _ _ ND E) as (dd & S & T & Nx & Ix & DS & L).
  assert (SUB: forall j, In j dd -> In j I).
  { apply (rdo_e_dspec_closed (rdo_st t1) (rev td) dd (fun j => In j I)); auto. intros r Ir _. apply in_rev in Ir. apply TD; auto. }
  exists t2, dd. split; [auto|]. split; [|split; [auto|split; [auto|split; [auto|split; [apply DS|]]]]].
  - rewrite S. apply rdo_e_kill_eq. intros x Hx Dx.
    destruct (rdo_mem (rdo_id x) dd) eqn:A, (rdo_mem (rdo_id x) I) eqn:B; auto; exfalso.
    + apply rdo_e_mem_in in A. apply rdo_e_mem_nin in B. auto.
    + apply rdo_e_mem_in in B. apply rdo_e_mem_nin in A. apply A. apply (L _ x); auto. apply in_rev. rewrite rev_involutive.
      apply (LV _ x); auto. apply rdo_a_in_get; auto. apply rdo_a_in_get; auto.
  - intros j. split.
    + intros H. split; auto. destruct DS as (_ & P). destruct (P _ H) as (y & G & Dl & _). eauto.
    + intros (Ij & y & G & Dl). apply (L _ y); auto. apply in_rev. rewrite rev_involutive. apply (LV _ y); auto. Qed.
Print Assumptions rdo_e_phase2.

(* ============================================================================================== *)
(* the precondition, unpacked *)
Record rdo_e_pcP (st : list rdo_item) (n : N) (scope I D : list N) : Prop := {
  rdo_e_p_wf : rdo_i_wfp st n = true;
  rdo_e_p_casc : rdo_i_cascade st = true;
  rdo_e_p_ll : rdo_i_lastlive st = true;
  rdo_e_p_sc : forall x, In x st -> rdo_in_scope st scope (rdo_id x) = true;
  rdo_e_p_I : forall i, In i I -> exists y, rdo_get st i = Some y /\ rdo_red y = None;
  rdo_e_p_D : forall i, In i D -> exists y, rdo_get st i = Some y;
  rdo_e_p_c2 : forall y p, In y st -> rdo_del y = false -> rdo_par y = RdoItem p -> In p I -> In (rdo_id y) I;
  rdo_e_p_c3 : forall x, In x st -> In (rdo_id x) (rdo_i_redo st I D) -> rdo_del x = true /\ rdo_red x = None /\
                 match rdo_par x with
                 | RdoRoot _ => True
                 | RdoItem p => (rdo_i_isdel st p = false /\ ~ In p I) \/ In p (rdo_i_redo st I D)
                 end;
  rdo_e_p_c4 : forall x, In x st -> In (rdo_id x) (rdo_i_redo st I D) -> rdo_sub x <> None ->
                 forall j, In j (rdo_rights st (rdo_id x)) -> In j I /\ ~ In j (rdo_i_redo st I D) /\
                           exists y, rdo_get st j = Some y /\ rdo_red y = None;
  rdo_e_p_c5 : forall y p, In y st -> rdo_par y = RdoItem p -> In p (rdo_i_redo st I D) -> rdo_red y = None;
  rdo_e_p_fc : rdo_i_cascade (rdo_i_flip st I D) = true;
  rdo_e_p_fu : rdo_i_ulive (rdo_i_flip st I D) = true }.

Lemma rdo_e_pc_unpack : forall st n scope I D, rdo_i_pc st n scope I D = true -> rdo_e_pcP st n scope I D.
Proof. intros st n scope I D H. unfold rdo_i_pc in H. cbv zeta in H. repeat rewrite andb_true_iff in H.
  destruct H as ((((((((((((W & CA) & LL) & SC) & PI) & PD) & C2a) & C2b) & C3) & C4) & C5) & FC) & FU).
  pose proof (rdo_e_wfp_nodup _ _ W) as ND.
  constructor; auto.
  - apply rdo_e_all_spec; auto.
  - intros i Ii. rewrite forallb_forall in PI. pose proof (PI _ Ii) as G. destruct (rdo_get st i) as [y|] eqn:Gy; try discriminate.
    exists y. split; auto. destruct (rdo_a_get_in _ _ _ Gy) as (Iy & Ey). pose proof (rdo_e_all_spec _ _ C2a _ Iy) as Q. simpl in Q.
    rewrite Ey in Q. apply rdo_e_mem_in in Ii. rewrite Ii in Q. simpl in Q. destruct (rdo_red y); simpl in Q; congruence.
  - intros i Ii. rewrite forallb_forall in PD. pose proof (PD _ Ii) as G. destruct (rdo_get st i) as [y|] eqn:Gy; try discriminate. eauto.
  - intros y p Iy Dy Py Ip. pose proof (rdo_e_all_spec _ _ C2b _ Iy) as Q. simpl in Q. rewrite Dy, Py in Q. simpl in Q.
    apply rdo_e_mem_in in Ip. rewrite Ip in Q. simpl in Q. apply rdo_e_mem_in; auto.
  - intros x Ix IR. pose proof (rdo_e_all_spec _ _ C3 _ Ix) as Q. simpl in Q. apply rdo_e_mem_in in IR. rewrite IR in Q. simpl in Q.
    repeat rewrite andb_true_iff in Q. destruct Q as ((Q1 & Q2) & Q3). split; auto. split. destruct (rdo_red x); simpl in Q2; congruence.
    destruct (rdo_par x); auto. apply orb_true_iff in Q3. destruct Q3 as [Q3|Q3].
    + left. apply andb_true_iff in Q3. destruct Q3 as (Q3 & Q4). split. destruct (rdo_i_isdel st id); simpl in Q3; congruence.
      apply rdo_e_mem_nin. destruct (rdo_mem id I); simpl in Q4; congruence.
    + right. apply rdo_e_mem_in; auto.
  - intros x Ix IR SX j Ij. pose proof (rdo_e_all_spec _ _ C4 _ Ix) as Q. simpl in Q. apply rdo_e_mem_in in IR. rewrite IR in Q. simpl in Q.
    destruct (rdo_sub x); try congruence. simpl in Q. rewrite forallb_forall in Q. pose proof (Q _ Ij) as Qj.
    repeat rewrite andb_true_iff in Qj. destruct Qj as ((Q1 & Q2) & Q3). split. apply rdo_e_mem_in; auto. split.
    apply rdo_e_mem_nin. destruct (rdo_mem j (rdo_i_redo st I D)); simpl in Q2; congruence.
    destruct (rdo_get st j) as [y|]; try discriminate. exists y. split; auto. destruct (rdo_red y); simpl in Q3; congruence.
  - intros y p Iy Py Ip. pose proof (rdo_e_all_spec _ _ C5 _ Iy) as Q. simpl in Q. rewrite Py in Q. apply rdo_e_mem_in in Ip. rewrite Ip in Q.
    simpl in Q. destruct (rdo_red y); simpl in Q; congruence. Qed.
Print Assumptions rdo_e_pc_unpack.

Lemma rdo_e_isdel_live : forall st j, rdo_i_isdel st j = false <-> exists y, rdo_get st j = Some y /\ rdo_del y = false.
Proof. intros. unfold rdo_i_isdel. destruct (rdo_get st j) as [y|]; split; intros H; try discriminate; eauto.
  destruct H as (y' & E & D); inversion E; subst; auto. destruct H as (y' & E & D); discriminate. Qed.
Print Assumptions rdo_e_isdel_live.

(* E1 for entries that re-create nothing (R = []): the result IS the virtual store *)
Theorem rdo_e_process_del_partial : forall s e s1 s2,
  rdo_i_pc (rdo_doc s) (rdo_clock s) (rdo_scope s) (rdo_sins e) (rdo_sdel e) = true ->
  rdo_i_redo (rdo_doc s) (rdo_sins e) (rdo_sdel e) = [] ->
  exists t, rdo_process s e s1 s2 = RdoOk (t, rdo_is_some (hd_error (rdo_e_liveI (rdo_doc s) (rdo_sins e)))) /\
    rdo_st t = rdo_i_flip (rdo_doc s) (rdo_sins e) (rdo_sdel e) /\ rdo_next t = rdo_clock s /\ rdo_tins t = [] /\
    NoDup (rdo_tdel t) /\ (forall j, In j (rdo_tdel t) <-> In j (rdo_sins e) /\ rdo_i_isdel (rdo_doc s) j = false).
Proof. intros s e s1 s2 PC HR. apply rdo_e_pc_unpack in PC. destruct PC.
  set (st := rdo_doc s) in *. set (I := rdo_sins e) in *. set (D := rdo_sdel e) in *.
  pose proof (rdo_e_wfp_nodup _ _ rdo_e_p_wf0) as ND.
  rewrite (rdo_e_process_eq s e s1 s2 (rdo_e_liveI st I)); auto.
  2: { rewrite (rdo_e_td st (rdo_scope s) I); auto. }
  cbv zeta. fold st I D. rewrite HR. simpl fold_left. cbn [rdo_bind].
  destruct (rdo_e_phase2 (rdo_begin s) I (rdo_e_liveI st I)) as (t2 & dd & E & S & Nx & Ix & Td & NDd & IFF); auto.
  - eapply rdo_e_wfp_parlt; eauto.
  - intros i Hi. apply filter_In in Hi. destruct Hi as (Hi & _). split; auto. destruct (rdo_e_p_I0 _ Hi) as (y & G & _).
    eapply rdo_a_get_ids'; eauto.
  - intros i y Ii G Dl. apply filter_In. split; auto. unfold rdo_i_isdel. simpl in G. fold st in G. rewrite G, Dl. auto.
  - rewrite E. cbn [rdo_bind]. exists t2. split; [reflexivity|]. split; [|split; [auto|split; [auto|split]]].
    + rewrite S. simpl. fold st. unfold rdo_e_kill, rdo_i_flip. apply map_ext_in. intros x Hx.
      destruct (rdo_mem (rdo_id x) I) eqn:MI; auto. destruct (rdo_mem (rdo_id x) D) eqn:M; auto. exfalso.
      assert (In (rdo_id x) (rdo_i_redo st I D)) as K.
      { unfold rdo_i_redo. apply filter_In. split. apply rdo_e_mem_in; auto. rewrite (rdo_a_in_get _ _ ND Hx). simpl. rewrite MI. auto. }
      rewrite HR in K. destruct K.
    + rewrite Td. simpl. auto.
    + intros j. rewrite Td. simpl. rewrite IFF. rewrite rdo_e_isdel_live. simpl. fold st. tauto. Qed.
Print Assumptions rdo_e_process_del_partial.

(* ============================================================================================== *)
(* list helpers: decompositions of the store around an item *)
Lemma rdo_e_filter_hd : forall (A : Type) (g : A -> bool) l y rest, filter g l = y :: rest ->
  exists m1 m2, l = m1 ++ y :: m2 /\ filter g m1 = [] /\ filter g m2 = rest.
Proof. induction l; simpl; intros; try discriminate. destruct (g a) eqn:G.
  - inversion H; subst. exists [], l. auto.
  - destruct (IHl _ _ H) as (m1 & m2 & E & F1 & F2). exists (a :: m1), m2. subst. simpl. rewrite G. auto. Qed.
Print Assumptions rdo_e_filter_hd.

Lemma rdo_e_filter_rev : forall (A : Type) (g : A -> bool) l, filter g (rev l) = rev (filter g l).
Proof. induction l; simpl; auto. rewrite filter_app, IHl. simpl. destruct (g a); simpl; auto. rewrite app_nil_r; auto. Qed.
Print Assumptions rdo_e_filter_rev.

Lemma rdo_e_get_split : forall st i x, rdo_get st i = Some x -> exists a b, st = a ++ x :: b /\ ~ In i (map rdo_id a) /\ rdo_id x = i.
Proof. induction st; simpl; intros; try discriminate. destruct (rdo_id a =? i) eqn:E.
  - inversion H; subst. exists [], st. apply N.eqb_eq in E. simpl; auto.
  - destruct (IHst _ _ H) as (a1 & b & E1 & N1 & E2). exists (a :: a1), b. subst st. split; auto. split; auto.
    simpl. intros [?|?]; auto. apply N.eqb_neq in E; auto. Qed.
Print Assumptions rdo_e_get_split.

Lemma rdo_e_get_app : forall a x b, ~ In (rdo_id x) (map rdo_id a) -> rdo_get (a ++ x :: b) (rdo_id x) = Some x.
Proof. induction a; simpl; intros. rewrite N.eqb_refl; auto.
  destruct (rdo_id a =? rdo_id x) eqn:E. apply N.eqb_eq in E. exfalso; auto. apply IHa; auto. Qed.
Print Assumptions rdo_e_get_app.

Lemma rdo_e_update_app : forall a x b f, ~ In (rdo_id x) (map rdo_id a) -> rdo_update (a ++ x :: b) (rdo_id x) f = a ++ f x :: b.
Proof. induction a; simpl; intros. rewrite N.eqb_refl; auto.
  destruct (rdo_id a =? rdo_id x) eqn:E. apply N.eqb_eq in E. exfalso; auto. f_equal. apply IHa; auto. Qed.
Print Assumptions rdo_e_update_app.

Lemma rdo_e_lr_app : forall a x b, ~ In (rdo_id x) (map rdo_id a) ->
  rdo_lefts (a ++ x :: b) (rdo_id x) = map rdo_id (filter (rdo_in_chain (rdo_par x) (rdo_sub x)) (rev a)) /\
  rdo_rights (a ++ x :: b) (rdo_id x) = map rdo_id (filter (rdo_in_chain (rdo_par x) (rdo_sub x)) b).
Proof. intros. unfold rdo_lefts, rdo_rights. rewrite (rdo_a_split_app a x b (rdo_id x) []); auto. rewrite app_nil_r. auto. Qed.
Print Assumptions rdo_e_lr_app.

Lemma rdo_e_in_chain_eq : forall P S y, rdo_in_chain P S y = true -> rdo_par y = P /\ rdo_sub y = S.
Proof. unfold rdo_in_chain. intros. apply andb_true_iff in H. destruct H. split. apply rdo_a_par_eqb_eq; auto. apply rdo_a_on_eqb_eq; auto. Qed.
Print Assumptions rdo_e_in_chain_eq.
Lemma rdo_e_in_chain_refl : forall y, rdo_in_chain (rdo_par y) (rdo_sub y) y = true.
Proof. intros. unfold rdo_in_chain. rewrite rdo_a_par_eqb_refl, rdo_a_on_eqb_refl. auto. Qed.
Print Assumptions rdo_e_in_chain_refl.

Lemma rdo_e_nodup_app_l : forall (a b : list N), NoDup (a ++ b) -> NoDup a /\ NoDup b /\ forall x, In x a -> ~ In x b.
Proof. induction a; simpl; intros. repeat split; auto. constructor. inversion H; subst. destruct (IHa _ H3) as (A & B & C).
  repeat split; auto. constructor; auto. intro. apply H2. apply in_or_app; auto.
  intros x [E|I] Ib. subst. apply H2. apply in_or_app; auto. eapply C; eauto. Qed.
Print Assumptions rdo_e_nodup_app_l.

(* ---- integrate of a sequence item without conflict *)
Lemma rdo_e_integrate_seq : forall t x l r, rdo_sub x = None ->
  rdo_neighbour_ok (rdo_st t) x l = true -> rdo_neighbour_ok (rdo_st t) x r = true ->
  rdo_detect_conflict (rdo_st t) l r = false ->
  rdo_parent_deleted (rdo_link (rdo_st t) l x) (rdo_par x) = false ->
  rdo_integrate t x l r = RdoOk {| rdo_st := rdo_link (rdo_st t) l x; rdo_next := rdo_next t; rdo_tins := rdo_tins t ++ [rdo_id x]; rdo_tdel := rdo_tdel t |}.
Proof. intros. unfold rdo_integrate. rewrite H0, H1, H2. cbn [andb negb]. rewrite H.
  destruct (rdo_right (rdo_link (rdo_st t) l x) (rdo_id x)); cbn [rdo_bind rdo_st rdo_is_some andb orb]; rewrite H3; reflexivity. Qed.
Print Assumptions rdo_e_integrate_seq.

(* ---- the loops of the sequence case when all siblings lie below pb *)
Lemma rdo_e_trace_here : forall f st pb j y, rdo_get st j = Some y -> rdo_par_item (rdo_par y) = pb ->
  rdo_trace (S f) st pb (Some j) = RdoOk (Some j).
Proof. intros. simpl. rewrite H, H0. destruct pb; simpl; try rewrite N.eqb_refl; auto. Qed.
Print Assumptions rdo_e_trace_here.

Lemma rdo_e_lloop_here : forall st pb cands, (forall j, In j cands -> exists y, rdo_get st j = Some y /\ rdo_par_item (rdo_par y) = pb) ->
  rdo_lloop st pb cands = RdoOk (hd_error cands).
Proof. intros. destruct cands as [|l rest]; auto. cbn [rdo_lloop]. destruct (H l) as (y & G & P). simpl; auto.
  rewrite (rdo_e_trace_here _ _ _ _ _ G P). reflexivity. Qed.
Print Assumptions rdo_e_lloop_here.

Lemma rdo_e_pdel_set_red : forall st i n P, rdo_parent_deleted (rdo_update st i (fun y => rdo_set_red y n)) P = rdo_parent_deleted st P.
Proof. intros. destruct P; simpl; auto. rewrite rdo_a_get_update; auto. destruct (id =? i); auto. destruct (rdo_get st id); auto. Qed.
Print Assumptions rdo_e_pdel_set_red.

Lemma rdo_e_pdel_link : forall st l c P, ~ In (rdo_id c) (map rdo_id st) -> rdo_del c = false ->
  rdo_parent_deleted st P = false -> rdo_parent_deleted (rdo_link st l c) P = false.
Proof. intros. destruct P; simpl in *; auto. rewrite rdo_a_get_link; auto. destruct (rdo_id c =? id); auto. Qed.
Print Assumptions rdo_e_pdel_link.

(* ---- rdo_redo of a dead sequence item whose parent is a root or alive: the copy is linked immediately in front of it *)
Lemma rdo_e_tail_seqA : forall t item a b td s1 s2,
  rdo_st t = a ++ item :: b -> NoDup (map rdo_id (rdo_st t)) ->
  rdo_sub item = None ->
  (forall y, In y (rdo_st t) -> rdo_id y < rdo_next t) ->
  rdo_parent_deleted (rdo_st t) (rdo_par item) = false ->
  rdo_a_tail t item (rdo_id item) (rdo_par_item (rdo_par item)) (rdo_par item) (rdo_par item) td s1 s2 =
  RdoOk ({| rdo_st := rdo_link (a ++ rdo_set_red item (rdo_next t) :: b)
                        (hd_error (map rdo_id (filter (rdo_in_chain (rdo_par item) None) (rev a))))
                        {| rdo_id := rdo_next t; rdo_par := rdo_par item; rdo_sub := None; rdo_cnt := rdo_cnt item;
                           rdo_del := false; rdo_keep := true; rdo_red := None;
                           rdo_org := hd_error (map rdo_id (filter (rdo_in_chain (rdo_par item) None) (rev a)));
                           rdo_rorg := Some (rdo_id item) |};
            rdo_next := rdo_next t + 1; rdo_tins := rdo_tins t ++ [rdo_next t]; rdo_tdel := rdo_tdel t |}, Some (rdo_next t)).
Proof. intros t item a b td s1 s2 ST ND SUB LT PD.
  set (i := rdo_id item). set (g := rdo_in_chain (rdo_par item) None). set (nid := rdo_next t).
  assert (ND0 := ND). rewrite ST, map_app in ND0. simpl in ND0. destruct (rdo_e_nodup_app_l _ _ ND0) as (NDa & _ & DISJ).
  assert (NIa: ~ In i (map rdo_id a)) by (intro K; eapply DISJ; eauto; simpl; auto).
  destruct (rdo_e_lr_app a item b NIa) as (LF & RT). rewrite SUB in LF, RT. fold g in LF, RT. fold i in LF, RT. rewrite <- ST in LF, RT.
  assert (Gi: rdo_get (rdo_st t) i = Some item) by (rewrite ST; apply rdo_e_get_app; auto).
  assert (CANDS: forall j, In j (map rdo_id (filter g (rev a))) -> exists y, rdo_get (rdo_st t) j = Some y /\ rdo_par y = rdo_par item /\ rdo_sub y = None /\ In j (map rdo_id a)).
  { intros j Ij. apply in_map_iff in Ij. destruct Ij as (y & Ey & Iy). apply filter_In in Iy. destruct Iy as (Iy & Gy).
    apply in_rev in Iy. apply rdo_e_in_chain_eq in Gy. exists y. subst j. split. apply rdo_a_in_get; auto. rewrite ST. apply in_or_app; auto.
    split. tauto. split. tauto. apply in_map; auto. }
  set (l := hd_error (map rdo_id (filter g (rev a)))).
  assert (Li: forall l0, l = Some l0 -> In l0 (map rdo_id (filter g (rev a)))).
  { unfold l. intros l0 E. destruct (map rdo_id (filter g (rev a))); simpl in E; inversion E; subst. simpl; auto. }
  unfold rdo_a_tail, rdo_a_lr. rewrite SUB. cbv zeta. fold i. rewrite LF, RT.
  rewrite rdo_e_lloop_here.
  2: { intros j Ij. destruct (CANDS _ Ij) as (y & G & P & _). exists y. split; auto. rewrite P; auto. }
  fold l. cbn [rdo_bind rdo_rloop]. rewrite (rdo_e_trace_here _ _ _ _ _ Gi eq_refl). cbn [rdo_bind].
  assert (NE: rdo_on_eqb (Some i) l = false).
  { destruct l as [l0|] eqn:El; simpl; auto. apply N.eqb_neq. intro. subst l0. destruct (CANDS _ (Li _ eq_refl)) as (_ & _ & _ & _ & K). auto. }
  rewrite NE. cbn [negb]. fold nid.
  set (item' := rdo_set_red item nid). set (st2 := a ++ item' :: b).
  assert (ST2: st2 = rdo_update (rdo_st t) i (fun y => rdo_set_red y nid)) by (rewrite ST; unfold i; rewrite rdo_e_update_app; auto).
  rewrite <- ST2.
  assert (IDS2: map rdo_id st2 = map rdo_id (rdo_st t)) by (rewrite ST2; apply rdo_a_ids_update; auto).
  assert (ND2: NoDup (map rdo_id st2)) by (rewrite IDS2; auto).
  assert (FR: ~ In nid (map rdo_id st2)).
  { rewrite IDS2. intro K. apply in_map_iff in K. destruct K as (y & Ey & Iy). apply LT in Iy. unfold nid in Ey. lia. }
  assert (GI': g item' = true) by (unfold g, rdo_in_chain; simpl; rewrite rdo_a_par_eqb_refl, SUB; auto).
  assert (NIa': ~ In (rdo_id item') (map rdo_id a)) by (simpl; auto).
  cbn [rdo_bind].
  match goal with |- context [rdo_integrate ?T ?X ?L ?R] => rewrite (rdo_e_integrate_seq T X L R) end.
  - reflexivity.
  - reflexivity.
  - cbn [rdo_st]. fold st2. destruct l as [l0|] eqn:El; simpl; auto. pose proof (Li _ eq_refl) as K.
    apply in_map_iff in K. destruct K as (y & Ey & Iy). apply filter_In in Iy. destruct Iy as (Iy & Gy). apply in_rev in Iy.
    subst l0. rewrite (rdo_a_in_get st2 y); auto. unfold st2. apply in_or_app; auto.
  - cbn [rdo_st]. fold st2. simpl. unfold st2. fold i. change i with (rdo_id item'). rewrite rdo_e_get_app; auto.
  - cbn [rdo_st]. fold st2. unfold l. destruct (filter g (rev a)) as [|y rest] eqn:F.
    + simpl. unfold rdo_left. destruct (rdo_e_lr_app a item' b NIa') as (LF' & _). simpl in LF'. rewrite SUB in LF'. fold g in LF'.
      unfold st2. fold i. change i with (rdo_id item'). simpl rdo_id. simpl rdo_id in LF'. rewrite LF', F. reflexivity.
    + destruct (rdo_e_filter_hd _ _ _ _ _ F) as (m1 & m2 & Er & F1 & F2).
      assert (Ea: a = rev m2 ++ y :: rev m1).
      { rewrite <- (rev_involutive a), Er. rewrite rev_app_distr. simpl. rewrite <- app_assoc. auto. }
      assert (Gy: g y = true). { assert (In y (filter g (rev a))) by (rewrite F; simpl; auto). apply filter_In in H. tauto. }
      apply rdo_e_in_chain_eq in Gy. destruct Gy as (Py & Sy).
      simpl hd_error. unfold rdo_detect_conflict.
      assert (rdo_right st2 (rdo_id y) = Some i) as RR.
      { unfold rdo_right, st2. rewrite Ea. rewrite <- app_assoc. simpl app.
        assert (NIy: ~ In (rdo_id y) (map rdo_id (rev m2))).
        { unfold st2 in ND2. rewrite Ea, <- app_assoc, map_app in ND2. simpl in ND2. destruct (rdo_e_nodup_app_l _ _ ND2) as (_ & _ & DJ).
          intro K. eapply DJ; eauto. simpl; auto. }
        destruct (rdo_e_lr_app (rev m2) y (rev m1 ++ item' :: b) NIy) as (_ & RT'). rewrite RT', Py, Sy. fold g.
        rewrite filter_app, rdo_e_filter_rev, F1. simpl. rewrite GI'. reflexivity. }
      rewrite RR. simpl. rewrite N.eqb_refl. reflexivity.
  - cbn [rdo_st rdo_par]. fold st2. apply rdo_e_pdel_link; auto. rewrite ST2, rdo_e_pdel_set_red. auto.
Qed.
Print Assumptions rdo_e_tail_seqA.

Lemma rdo_e_redo_seqA : forall f t item a b ri td s1 s2,
  rdo_st t = a ++ item :: b -> NoDup (map rdo_id (rdo_st t)) ->
  rdo_red item = None -> rdo_sub item = None ->
  (forall y, In y (rdo_st t) -> rdo_id y < rdo_next t) ->
  match rdo_par item with
  | RdoRoot _ => True
  | RdoItem p => exists pit k, rdo_get (rdo_st t) p = Some pit /\ rdo_del pit = false /\ rdo_cnt pit = RdoType k
  end ->
  rdo_redo (S f) t (rdo_id item) ri td s1 s2 =
  RdoOk ({| rdo_st := rdo_link (a ++ rdo_set_red item (rdo_next t) :: b)
                        (hd_error (map rdo_id (filter (rdo_in_chain (rdo_par item) None) (rev a))))
                        {| rdo_id := rdo_next t; rdo_par := rdo_par item; rdo_sub := None; rdo_cnt := rdo_cnt item;
                           rdo_del := false; rdo_keep := true; rdo_red := None;
                           rdo_org := hd_error (map rdo_id (filter (rdo_in_chain (rdo_par item) None) (rev a)));
                           rdo_rorg := Some (rdo_id item) |};
            rdo_next := rdo_next t + 1; rdo_tins := rdo_tins t ++ [rdo_next t]; rdo_tdel := rdo_tdel t |}, Some (rdo_next t)).
Proof. intros f t item a b ri td s1 s2 ST ND RED SUB LT PAR.
  assert (PD: rdo_parent_deleted (rdo_st t) (rdo_par item) = false).
  { destruct (rdo_par item); simpl; auto. destruct PAR as (pit & k & G & D & _). rewrite G; auto. }
  pose proof (rdo_e_tail_seqA t item a b td s1 s2 ST ND SUB LT PD) as T.
  assert (ND0 := ND). rewrite ST, map_app in ND0. simpl in ND0. destruct (rdo_e_nodup_app_l _ _ ND0) as (NDa & _ & DISJ).
  assert (NIa: ~ In (rdo_id item) (map rdo_id a)) by (intro K; eapply DISJ; eauto; simpl; auto).
  assert (Gi: rdo_get (rdo_st t) (rdo_id item) = Some item) by (rewrite ST; apply rdo_e_get_app; auto).
  cbn [rdo_redo]. rewrite Gi, RED. destruct (rdo_par item) eqn:P.
  - exact T.
  - destruct PAR as (pit & k & G & D & C). cbn [rdo_par_item]. cbn [rdo_par_item] in T. rewrite G, D. cbn [rdo_bind]. rewrite G, C. exact T.
Qed.
Print Assumptions rdo_e_redo_seqA.

(* ============================================================================================== *)
(* the invariant of the first fold of rdo_process (the fold of rdo_redo over R) *)
Fixpoint rdo_e_idx (j : N) (l : list N) : N :=
  match l with [] => 0 | a :: r => if a =? j then 0 else 1 + rdo_e_idx j r end.
Definition rdo_e_cp (n0 : N) (done : list N) (j : N) : N := n0 + rdo_e_idx j done.

(* an old item after `done` was re-created and `dk` was deleted *)
Definition rdo_e_oldk (n0 : N) (done dk : list N) (x : rdo_item) : rdo_item :=
  {| rdo_id := rdo_id x; rdo_par := rdo_par x; rdo_sub := rdo_sub x; rdo_cnt := rdo_cnt x;
     rdo_del := rdo_del x || rdo_mem (rdo_id x) dk; rdo_keep := rdo_keep x;
     rdo_red := if rdo_mem (rdo_id x) done then Some (rdo_e_cp n0 done (rdo_id x)) else rdo_red x;
     rdo_org := rdo_org x; rdo_rorg := rdo_rorg x |}.
(* the copy of x (parent given) *)
Definition rdo_e_newk (c : N) (P : rdo_parent) (x : rdo_item) (l r : option N) : rdo_item :=
  {| rdo_id := c; rdo_par := P; rdo_sub := rdo_sub x; rdo_cnt := rdo_cnt x;
     rdo_del := false; rdo_keep := true; rdo_red := None; rdo_org := l; rdo_rorg := r |}.

(* the parent of a copy: the copy of the parent when the parent is re-created too *)
Definition rdo_e_mpar (n0 : N) (done : list N) (P : rdo_parent) : rdo_parent :=
  match P with
  | RdoItem p => if rdo_mem p done then RdoItem (rdo_e_cp n0 done p) else P
  | RdoRoot _ => P
  end.

Definition rdo_e_isold (n0 : N) := fun y : rdo_item => rdo_id y <? n0.

Record rdo_e_inv (st0 : list rdo_item) (n0 : N) (done dk : list N) (t : rdo_txn) : Prop := {
  rdo_e_v_old : filter (rdo_e_isold n0) (rdo_st t) = map (rdo_e_oldk n0 done dk) st0;
  rdo_e_v_new : forall j, In j done -> exists x l r, rdo_get st0 j = Some x /\
                  rdo_get (rdo_st t) (rdo_e_cp n0 done j) = Some (rdo_e_newk (rdo_e_cp n0 done j) (rdo_e_mpar n0 done (rdo_par x)) x l r);
  rdo_e_v_all : forall y, In y (rdo_st t) -> rdo_id y < n0 \/ exists j, In j done /\ rdo_id y = rdo_e_cp n0 done j;
  rdo_e_v_nd : NoDup (map rdo_id (rdo_st t));
  rdo_e_v_next : rdo_next t = n0 + N.of_nat (length done);
  rdo_e_v_tins : rdo_tins t = map (rdo_e_cp n0 done) done;
  rdo_e_v_tdel : rdo_tdel t = dk }.

Lemma rdo_e_idx_lt : forall j l, In j l -> rdo_e_idx j l < N.of_nat (length l).
Proof. induction l; intros. destruct H. cbn [rdo_e_idx length]. rewrite Nat2N.inj_succ.
  destruct (a =? j) eqn:E. lia. destruct H. subst. rewrite N.eqb_refl in E; discriminate.
  apply IHl in H. lia. Qed.
Print Assumptions rdo_e_idx_lt.
Lemma rdo_e_idx_app_l : forall j l m, In j l -> rdo_e_idx j (l ++ m) = rdo_e_idx j l.
Proof. induction l; simpl; intros. tauto. destruct (a =? j) eqn:E; auto. destruct H. subst. rewrite N.eqb_refl in E; discriminate.
  rewrite IHl; auto. Qed.
Print Assumptions rdo_e_idx_app_l.
Lemma rdo_e_idx_app_r : forall j l, ~ In j l -> rdo_e_idx j (l ++ [j]) = N.of_nat (length l).
Proof. induction l; intros. simpl. rewrite N.eqb_refl; auto. cbn [app rdo_e_idx length]. rewrite Nat2N.inj_succ.
  destruct (a =? j) eqn:E. apply N.eqb_eq in E. exfalso; apply H; simpl; auto.
  rewrite IHl. lia. intro; apply H; simpl; auto. Qed.
Print Assumptions rdo_e_idx_app_r.

Lemma rdo_e_get_filter : forall (g : N -> bool) st j, g j = true -> rdo_get (filter (fun y => g (rdo_id y)) st) j = rdo_get st j.
Proof. induction st; simpl; intros; auto. destruct (rdo_id a =? j) eqn:E.
  - apply N.eqb_eq in E. rewrite E, H. simpl. rewrite E, N.eqb_refl. auto.
  - destruct (g (rdo_id a)); simpl; auto. rewrite E; auto. Qed.
Print Assumptions rdo_e_get_filter.
Lemma rdo_e_get_map : forall (F : rdo_item -> rdo_item) st j, (forall x, rdo_id (F x) = rdo_id x) ->
  rdo_get (map F st) j = option_map F (rdo_get st j).
Proof. induction st; simpl; intros; auto. rewrite H. destruct (rdo_id a =? j); auto. Qed.
Print Assumptions rdo_e_get_map.

Lemma rdo_e_inv_get_old : forall st0 n0 done dk t j, rdo_e_inv st0 n0 done dk t -> j < n0 ->
  rdo_get (rdo_st t) j = option_map (rdo_e_oldk n0 done dk) (rdo_get st0 j).
Proof. intros. rewrite <- (rdo_e_get_map (rdo_e_oldk n0 done dk)); auto. rewrite <- (rdo_e_v_old _ _ _ _ _ H).
  symmetry. apply (rdo_e_get_filter (fun i => i <? n0)). apply N.ltb_lt; auto. Qed.
Print Assumptions rdo_e_inv_get_old.

Lemma rdo_e_filter_update : forall (g : N -> bool) st i f, (forall y, rdo_id (f y) = rdo_id y) -> g i = true ->
  filter (fun y => g (rdo_id y)) (rdo_update st i f) = rdo_update (filter (fun y => g (rdo_id y)) st) i f.
Proof. induction st; simpl; intros; auto. destruct (rdo_id a =? i) eqn:E.
  - simpl. rewrite H. apply N.eqb_eq in E. rewrite E, H0. simpl. rewrite E, N.eqb_refl. auto.
  - simpl. destruct (g (rdo_id a)) eqn:G; simpl. rewrite E. f_equal. auto. auto. Qed.
Print Assumptions rdo_e_filter_update.

Lemma rdo_e_update_map : forall (F F' : rdo_item -> rdo_item) (g : rdo_item -> rdo_item) st0 i,
  NoDup (map rdo_id st0) -> (forall x, rdo_id (F x) = rdo_id x) ->
  (forall x, In x st0 -> rdo_id x = i -> g (F x) = F' x) -> (forall x, In x st0 -> rdo_id x <> i -> F x = F' x) ->
  rdo_update (map F st0) i g = map F' st0.
Proof. induction st0; simpl; intros i ND HF H1 H2; auto. inversion ND; subst. rewrite HF. destruct (rdo_id a =? i) eqn:E.
  - apply N.eqb_eq in E. rewrite H1; auto. f_equal. apply map_ext_in. intros x Ix. apply H2; auto.
    intro K. apply H3. rewrite E, <- K. apply in_map; auto.
  - apply N.eqb_neq in E. rewrite H2; auto. f_equal. apply IHst0; auto. Qed.
Print Assumptions rdo_e_update_map.

Lemma rdo_e_filter_link_out : forall (g : rdo_item -> bool) st l c, g c = false -> filter g (rdo_link st l c) = filter g st.
Proof. intros. destruct l; simpl. apply rdo_a_filter_insert_out; auto. rewrite H; auto. Qed.
Print Assumptions rdo_e_filter_link_out.

Lemma rdo_e_cp_app_l : forall n0 done m j, In j done -> rdo_e_cp n0 (done ++ m) j = rdo_e_cp n0 done j.
Proof. intros. unfold rdo_e_cp. rewrite rdo_e_idx_app_l; auto. Qed.
Print Assumptions rdo_e_cp_app_l.
Lemma rdo_e_cp_app_r : forall n0 done j, ~ In j done -> rdo_e_cp n0 (done ++ [j]) j = n0 + N.of_nat (length done).
Proof. intros. unfold rdo_e_cp. rewrite rdo_e_idx_app_r; auto. Qed.
Print Assumptions rdo_e_cp_app_r.
Lemma rdo_e_cp_lt : forall n0 done j, In j done -> n0 <= rdo_e_cp n0 done j < n0 + N.of_nat (length done).
Proof. intros. unfold rdo_e_cp. pose proof (rdo_e_idx_lt _ _ H). lia. Qed.
Print Assumptions rdo_e_cp_lt.

Lemma rdo_e_inv_fresh : forall st0 n0 done dk t y, rdo_e_inv st0 n0 done dk t -> In y (rdo_st t) -> rdo_id y < rdo_next t.
Proof. intros. rewrite (rdo_e_v_next _ _ _ _ _ H). destruct (rdo_e_v_all _ _ _ _ _ H _ H0) as [L|(j & Ij & E)]. lia.
  pose proof (rdo_e_cp_lt n0 _ _ Ij). lia. Qed.
Print Assumptions rdo_e_inv_fresh.

(* one copy is linked *)
Lemma rdo_e_inv_link : forall st0 n0 done dk t i x l' lo ro,
  rdo_e_inv st0 n0 done dk t -> NoDup (map rdo_id st0) -> rdo_get st0 i = Some x -> ~ In i done -> i < n0 ->
  (forall j xj, In j done -> rdo_get st0 j = Some xj -> rdo_par xj <> RdoItem i) ->
  rdo_e_inv st0 n0 (done ++ [i]) dk
    {| rdo_st := rdo_link (rdo_update (rdo_st t) i (fun y => rdo_set_red y (rdo_next t))) l'
                   (rdo_e_newk (rdo_next t) (rdo_e_mpar n0 (done ++ [i]) (rdo_par x)) x lo ro);
       rdo_next := rdo_next t + 1; rdo_tins := rdo_tins t ++ [rdo_next t]; rdo_tdel := rdo_tdel t |}.
Proof. intros st0 n0 done dk t i x l' lo ro V ND0 G NI LI NPI.
  set (nid := rdo_next t). set (s2 := rdo_update (rdo_st t) i (fun y => rdo_set_red y nid)).
  set (c := rdo_e_newk nid (rdo_e_mpar n0 (done ++ [i]) (rdo_par x)) x lo ro).
  assert (NX: nid = n0 + N.of_nat (length done)) by apply V.
  assert (IDS2: map rdo_id s2 = map rdo_id (rdo_st t)) by (apply rdo_a_ids_update; auto).
  assert (FR: ~ In (rdo_id c) (map rdo_id s2)).
  { rewrite IDS2. simpl. intro K. apply in_map_iff in K. destruct K as (y & Ey & Iy). pose proof (rdo_e_inv_fresh _ _ _ _ _ _ V Iy). fold nid in H. lia. }
  assert (CPI: rdo_e_cp n0 (done ++ [i]) i = nid) by (rewrite rdo_e_cp_app_r; auto).
  constructor; cbn [rdo_st rdo_next rdo_tins rdo_tdel]; fold nid; fold s2; fold c.
  - rewrite rdo_e_filter_link_out. 2: { unfold rdo_e_isold. simpl. apply N.ltb_ge. lia. }
    pose proof (rdo_e_v_old _ _ _ _ _ V) as VO. unfold s2. unfold rdo_e_isold in *.
    etransitivity. apply (rdo_e_filter_update (fun k => k <? n0)); auto. apply N.ltb_lt; auto.
    cbv beta. rewrite VO.
    apply rdo_e_update_map; auto.
    + intros x1 I1 E1. unfold rdo_e_oldk, rdo_set_red. simpl. rewrite E1, rdo_e_mem_app. simpl. rewrite N.eqb_refl, orb_true_r. rewrite CPI. reflexivity.
    + intros x1 I1 E1. unfold rdo_e_oldk. rewrite rdo_e_mem_app. simpl. apply N.eqb_neq in E1. rewrite E1. rewrite orb_false_r.
      destruct (rdo_mem (rdo_id x1) done) eqn:M; auto. rewrite rdo_e_cp_app_l; auto. apply rdo_e_mem_in; auto.
  - intros j Ij. apply in_app_or in Ij. destruct Ij as [Ij|[Ej|[]]].
    + destruct (rdo_e_v_new _ _ _ _ _ V _ Ij) as (x0 & l & r & G0 & G1). exists x0, l, r. split; auto.
      assert (MP: rdo_e_mpar n0 (done ++ [i]) (rdo_par x0) = rdo_e_mpar n0 done (rdo_par x0)).
      { pose proof (NPI _ _ Ij G0) as NP. unfold rdo_e_mpar. destruct (rdo_par x0); auto. rewrite rdo_e_mem_app. simpl.
        assert (id =? i = false) as E0 by (apply N.eqb_neq; congruence). rewrite E0, orb_false_r.
        destruct (rdo_mem id done) eqn:M; auto. rewrite rdo_e_cp_app_l; auto. apply rdo_e_mem_in; auto. }
      rewrite MP.
      rewrite rdo_e_cp_app_l; auto. pose proof (rdo_e_cp_lt n0 _ _ Ij).
      rewrite rdo_a_get_link; auto. simpl rdo_id. assert (nid =? rdo_e_cp n0 done j = false) as E1 by (apply N.eqb_neq; lia). rewrite E1.
      unfold s2. rewrite rdo_a_get_update; auto. assert (rdo_e_cp n0 done j =? i = false) as E2 by (apply N.eqb_neq; lia). rewrite E2. auto.
    + subst j. exists x, lo, ro. split; auto. rewrite CPI. rewrite rdo_a_get_link; auto. simpl rdo_id. rewrite N.eqb_refl. reflexivity.
  - intros y Iy. apply rdo_a_link_in in Iy. destruct Iy as [Ey|Iy].
    + subst y. right. exists i. split. apply in_or_app; simpl; auto. simpl. auto.
    + assert (exists y0, In y0 (rdo_st t) /\ rdo_id y = rdo_id y0) as (y0 & I0 & E0).
      { apply rdo_a_in_update in Iy. destruct Iy as [?|(x1 & I1 & E1 & E2)]; eauto. exists x1. subst y. auto. }
      rewrite E0. destruct (rdo_e_v_all _ _ _ _ _ V _ I0) as [?|(j & Ij & Ej)]; auto. right. exists j. split. apply in_or_app; auto.
      rewrite rdo_e_cp_app_l; auto.
  - eapply Permutation_NoDup. apply Permutation_sym. apply rdo_a_perm_link. constructor; auto. rewrite IDS2. apply V.
  - rewrite app_length, Nat2N.inj_add. simpl. lia.
  - rewrite map_app. simpl. rewrite CPI. f_equal. rewrite (rdo_e_v_tins _ _ _ _ _ V). apply map_ext_in. intros. rewrite rdo_e_cp_app_l; auto.
  - apply V.
Qed.
Print Assumptions rdo_e_inv_link.

(* the condition under which item i is re-created in front of itself (sequence item, parent a root or alive) *)
Definition rdo_e_condA (st0 : list rdo_item) (n0 : N) (dk : list N) (i : N) : Prop :=
  exists x, rdo_get st0 i = Some x /\ i < n0 /\ rdo_red x = None /\ rdo_sub x = None /\
    match rdo_par x with
    | RdoRoot _ => True
    | RdoItem p => exists pit k, rdo_get st0 p = Some pit /\ rdo_del pit = false /\ rdo_cnt pit = RdoType k /\ ~ In p dk /\ p < n0
    end.

Lemma rdo_e_step_seqA : forall st0 n0 done dk t i, rdo_e_inv st0 n0 done dk t -> NoDup (map rdo_id st0) ->
  rdo_e_condA st0 n0 dk i -> ~ In i done ->
  (forall p x0, rdo_get st0 i = Some x0 -> rdo_par x0 = RdoItem p -> ~ In p (done ++ [i])) ->
  (forall j xj, In j done -> rdo_get st0 j = Some xj -> rdo_par xj <> RdoItem i) ->
  exists t', (forall f ri td s1 s2, rdo_redo (S f) t i ri td s1 s2 = RdoOk (t', Some (rdo_next t))) /\
             rdo_e_inv st0 n0 (done ++ [i]) dk t'.
Proof. intros st0 n0 done dk t i V ND0 (x & G & LI & RED & SUB & PAR) NI HP NPI.
  pose proof (rdo_e_inv_get_old _ _ _ _ _ i V LI) as Gi. rewrite G in Gi. simpl in Gi.
  set (item := rdo_e_oldk n0 done dk x) in *.
  destruct (rdo_e_get_split _ _ _ Gi) as (a & b & ST & NIa & Ei).
  assert (REDi: rdo_red item = None). { simpl. apply rdo_e_mem_nin in NI. destruct (rdo_a_get_in _ _ _ G) as (_ & E). rewrite E, NI. auto. }
  assert (PARi: match rdo_par item with
                | RdoRoot _ => True
                | RdoItem p => exists pit k, rdo_get (rdo_st t) p = Some pit /\ rdo_del pit = false /\ rdo_cnt pit = RdoType k
                end).
  { simpl. destruct (rdo_par x); auto. destruct PAR as (pit & k & Gp & Dp & Cp & NIp & Lp).
    exists (rdo_e_oldk n0 done dk pit), k. rewrite (rdo_e_inv_get_old _ _ _ _ _ id V Lp), Gp. simpl. split; auto. split; auto.
    rewrite Dp. simpl. destruct (rdo_a_get_in _ _ _ Gp) as (_ & E). rewrite E. apply rdo_e_mem_nin; auto. }
  pose proof (fun f ri td s1 s2 => rdo_e_redo_seqA f t item a b ri td s1 s2 ST (rdo_e_v_nd _ _ _ _ _ V) REDi SUB
                (fun y => rdo_e_inv_fresh _ _ _ _ _ y V) PARi) as E.
  eexists. split.
  - intros. rewrite <- Ei. apply E.
  - pose proof (rdo_e_inv_link st0 n0 done dk t i x
                 (hd_error (map rdo_id (filter (rdo_in_chain (rdo_par item) None) (rev a))))
                 (hd_error (map rdo_id (filter (rdo_in_chain (rdo_par item) None) (rev a)))) (Some (rdo_id item)) V ND0 G NI LI) as V'.
    assert (MP: rdo_e_mpar n0 (done ++ [i]) (rdo_par x) = rdo_par x).
    { unfold rdo_e_mpar. destruct (rdo_par x) eqn:P; auto. assert (~ In id (done ++ [i])) as K.
      { apply (HP id x); auto. }
      apply rdo_e_mem_nin in K. rewrite K. auto. }
    rewrite MP in V'.
    specialize (V' NPI).
    assert (UP: rdo_update (rdo_st t) i (fun y => rdo_set_red y (rdo_next t)) = a ++ rdo_set_red item (rdo_next t) :: b).
    { rewrite ST, <- Ei. apply rdo_e_update_app. rewrite Ei; auto. }
    rewrite UP in V'. unfold rdo_e_newk in V'. rewrite SUB in V'. exact V'.
Qed.
Print Assumptions rdo_e_step_seqA.

Lemma rdo_e_fredo_err : forall ri td s1 s2 l e, fold_left (rdo_e_fredo ri td s1 s2) l (RdoErr e) = RdoErr e.
Proof. induction l; simpl; auto. Qed.
Print Assumptions rdo_e_fredo_err.

Lemma rdo_e_fold_seqA : forall st0 n0 dk ri td s1 s2, NoDup (map rdo_id st0) ->
  forall todo done t c, rdo_e_inv st0 n0 done dk t -> NoDup (done ++ todo) -> (forall i, In i todo -> rdo_e_condA st0 n0 dk i) ->
  (forall j xj p, In j (done ++ todo) -> rdo_get st0 j = Some xj -> rdo_par xj = RdoItem p -> ~ In p (done ++ todo)) ->
  exists t', fold_left (rdo_e_fredo ri td s1 s2) todo (RdoOk (t, c)) = RdoOk (t', c || rdo_is_some (hd_error todo)) /\
             rdo_e_inv st0 n0 (done ++ todo) dk t'.
Proof. intros st0 n0 dk ri td s1 s2 ND0. induction todo; intros done t c V ND C FLAT.
  - simpl. rewrite app_nil_r, orb_false_r. eauto.
  - assert (NI: ~ In a done). { apply rdo_e_nodup_app_l in ND. destruct ND as (_ & _ & DJ). intro K. apply (DJ _ K). simpl; auto. }
    assert (FL1: forall j xj p, In j (done ++ [a]) -> rdo_get st0 j = Some xj -> rdo_par xj = RdoItem p -> ~ In p (done ++ [a])).
    { intros j xj p Ij Gj Pj K. apply (FLAT j xj p); auto.
      apply in_app_or in Ij. apply in_or_app. simpl in *. tauto. apply in_app_or in K. apply in_or_app. simpl in *. tauto. }
    destruct (rdo_e_step_seqA st0 n0 done dk t a V ND0 (C _ (or_introl eq_refl)) NI) as (t1 & E & V1).
    { intros p x0 G0 P0. apply (FL1 a x0 p); auto. apply in_or_app; simpl; auto. }
    { intros j xj Ij Gj K. apply (FL1 j xj a); auto. apply in_or_app; auto. apply in_or_app; simpl; auto. }
    cbn [fold_left]. unfold rdo_e_fredo at 2. cbn [rdo_bind]. rewrite E. cbn [rdo_bind rdo_is_some].
    destruct (IHtodo (done ++ [a]) t1 (c || true) V1) as (t' & E' & V').
    + rewrite <- app_assoc. simpl. auto.
    + intros. apply C. simpl; auto.
    + rewrite <- app_assoc. simpl. auto.
    + exists t'. rewrite E'. rewrite <- app_assoc in V'. simpl in V'. split; auto. f_equal. f_equal.
      simpl. rewrite orb_true_r. auto.
Qed.
Print Assumptions rdo_e_fold_seqA.

(* ---- deletions keep the invariant *)
Lemma rdo_e_filter_kill : forall (g : N -> bool) d st,
  filter (fun y => g (rdo_id y)) (rdo_e_kill d st) = rdo_e_kill d (filter (fun y => g (rdo_id y)) st).
Proof. induction st; simpl; auto.
  assert (rdo_id (if rdo_mem (rdo_id a) d then rdo_set_del a else a) = rdo_id a) as E by (destruct (rdo_mem (rdo_id a) d); auto).
  rewrite E. destruct (g (rdo_id a)); simpl; rewrite IHst; auto. Qed.
Print Assumptions rdo_e_filter_kill.

Lemma rdo_e_inv_kill : forall st0 n0 done dk t d, rdo_e_inv st0 n0 done dk t -> (forall j, In j d -> j < n0) ->
  rdo_e_inv st0 n0 done (dk ++ d) {| rdo_st := rdo_e_kill d (rdo_st t); rdo_next := rdo_next t; rdo_tins := rdo_tins t; rdo_tdel := rdo_tdel t ++ d |}.
Proof. intros st0 n0 done dk t d V LT. constructor; cbn [rdo_st rdo_next rdo_tins rdo_tdel]; try apply V.
  - pose proof (rdo_e_v_old _ _ _ _ _ V) as VO. unfold rdo_e_isold in *.
    etransitivity. apply (rdo_e_filter_kill (fun k => k <? n0)). cbv beta. rewrite VO.
    unfold rdo_e_kill. rewrite map_map. apply map_ext. intros x. simpl rdo_id.
    unfold rdo_e_oldk, rdo_set_del. simpl. rewrite rdo_e_mem_app. destruct (rdo_mem (rdo_id x) d); simpl.
    + rewrite !orb_true_r. reflexivity.
    + rewrite orb_false_r. reflexivity.
  - intros j Ij. destruct (rdo_e_v_new _ _ _ _ _ V _ Ij) as (x & l & r & G0 & G1). exists x, l, r. split; auto.
    rewrite rdo_e_get_kill, G1. simpl. pose proof (rdo_e_cp_lt n0 _ _ Ij).
    assert (rdo_mem (rdo_e_cp n0 done j) d = false) as M. { apply rdo_e_mem_nin. intro K. apply LT in K. lia. }
    rewrite M. auto.
  - intros y Iy. apply rdo_e_in_kill in Iy. destruct Iy as (x & Ix & E & _). rewrite E. apply (rdo_e_v_all _ _ _ _ _ V); auto.
  - rewrite rdo_e_kill_ids. apply V.
  - rewrite (rdo_e_v_tdel _ _ _ _ _ V). auto.
Qed.
Print Assumptions rdo_e_inv_kill.

(* every item of the store is an old item or a copy *)
Lemma rdo_e_inv_item : forall st0 n0 done dk t y, rdo_e_inv st0 n0 done dk t -> In y (rdo_st t) ->
  (exists x, In x st0 /\ y = rdo_e_oldk n0 done dk x) \/
  (exists j x l r, In j done /\ rdo_get st0 j = Some x /\ y = rdo_e_newk (rdo_e_cp n0 done j) (rdo_e_mpar n0 done (rdo_par x)) x l r).
Proof. intros st0 n0 done dk t y V Iy. destruct (rdo_e_v_all _ _ _ _ _ V _ Iy) as [L|(j & Ij & Ej)].
  - left. assert (In y (filter (rdo_e_isold n0) (rdo_st t))) as K. { apply filter_In. split; auto. apply N.ltb_lt; auto. }
    rewrite (rdo_e_v_old _ _ _ _ _ V) in K. apply in_map_iff in K. destruct K as (x & E & Ix). eauto.
  - right. destruct (rdo_e_v_new _ _ _ _ _ V _ Ij) as (x & l & r & G0 & G1). exists j, x, l, r. split; auto. split; auto.
    pose proof (rdo_a_in_get _ _ (rdo_e_v_nd _ _ _ _ _ V) Iy) as G. rewrite Ej, G1 in G. congruence.
Qed.
Print Assumptions rdo_e_inv_item.

Lemma rdo_e_oldk_nil : forall n0 x, rdo_e_oldk n0 [] [] x = x.
Proof. intros. destruct x; unfold rdo_e_oldk; simpl. rewrite orb_false_r. reflexivity. Qed.
Print Assumptions rdo_e_oldk_nil.

Lemma rdo_e_inv_init : forall s, (forall x, In x (rdo_doc s) -> rdo_id x < rdo_clock s) -> NoDup (map rdo_id (rdo_doc s)) ->
  rdo_e_inv (rdo_doc s) (rdo_clock s) [] [] (rdo_begin s).
Proof. intros s LT ND. constructor; simpl; auto.
  - rewrite (map_ext _ (fun x => x)) by (apply rdo_e_oldk_nil). rewrite map_id.
    induction (rdo_doc s); simpl; auto. unfold rdo_e_isold at 1. assert (rdo_id a <? rdo_clock s = true) as E by (apply N.ltb_lt; apply LT; simpl; auto).
    rewrite E. f_equal. apply IHl. intros; apply LT; simpl; auto. inversion ND; auto.
  - intros j [].
  - lia.
Qed.
Print Assumptions rdo_e_inv_init.

(* ---- the second phase under the invariant *)
Lemma rdo_e_finish : forall st0 n0 scope I D t1 dk,
  rdo_e_pcP st0 n0 scope I D -> rdo_e_inv st0 n0 (rdo_i_redo st0 I D) dk t1 ->
  (forall j, In j dk -> In j I /\ rdo_i_isdel st0 j = false) -> NoDup dk ->
  (forall j x p, In j (rdo_i_redo st0 I D) -> rdo_get st0 j = Some x -> rdo_e_mpar n0 (rdo_i_redo st0 I D) (rdo_par x) = RdoItem p ->
      ~ In p I /\ p < rdo_e_cp n0 (rdo_i_redo st0 I D) j) ->
  exists t2 dd, fold_left rdo_e_tdfold (rev (rdo_e_liveI st0 I)) (RdoOk t1) = RdoOk t2 /\
    rdo_e_inv st0 n0 (rdo_i_redo st0 I D) dd t2 /\ NoDup dd /\ (forall j, In j dd <-> In j I /\ rdo_i_isdel st0 j = false) /\
    filter (rdo_e_isold n0) (rdo_st t2) = map (rdo_e_oldk n0 (rdo_i_redo st0 I D) I) st0 /\
    rdo_st t2 = rdo_e_kill I (rdo_st t1).
Proof. intros st0 n0 scope I D t1 dk PC V DK NDK MP. set (R := rdo_i_redo st0 I D) in *.
  pose proof (rdo_e_p_wf _ _ _ _ _ PC) as rdo_e_p_wf0. pose proof (rdo_e_p_I _ _ _ _ _ PC) as rdo_e_p_I0. pose proof (rdo_e_p_c2 _ _ _ _ _ PC) as PC2.
  pose proof (rdo_e_wfp_nodup _ _ rdo_e_p_wf0) as ND0.
  assert (LTI: forall i, In i I -> exists x, rdo_get st0 i = Some x /\ i < n0).
  { intros i Ii. destruct (rdo_e_p_I0 _ Ii) as (y & G & _). exists y. split; auto. destruct (rdo_a_get_in _ _ _ G) as (Iy & Ey).
    rewrite <- Ey. apply (rdo_e_wfp_item _ _ rdo_e_p_wf0 _ Iy). }
  assert (GO: forall i, i < n0 -> rdo_get (rdo_st t1) i = option_map (rdo_e_oldk n0 R dk) (rdo_get st0 i)).
  { intros. apply rdo_e_inv_get_old; auto. }
  destruct (rdo_e_phase2 t1 I (rdo_e_liveI st0 I)) as (t2 & dd2 & E & S & Nx & Itx & Td & NDd & IFF).
  - apply V.
  - intros y p Iy Py. destruct (rdo_e_inv_item _ _ _ _ _ _ V Iy) as [(x & Ix & Ey)|(j & x & l & r & Ij & Gj & Ey)]; subst y; simpl in *.
    + apply (rdo_e_wfp_item _ _ rdo_e_p_wf0 _ Ix); auto.
    + apply (MP _ _ _ Ij Gj Py).
  - intros y p Iy Dy Py Ip. destruct (rdo_e_inv_item _ _ _ _ _ _ V Iy) as [(x & Ix & Ey)|(j & x & l & r & Ij & Gj & Ey)]; subst y; simpl in *.
    + apply orb_false_elim in Dy. destruct Dy. apply (PC2 x p); auto.
    + exfalso. apply (MP _ _ _ Ij Gj Py); auto.
  - intros i Hi. apply filter_In in Hi. destruct Hi as (Hi & _). split; auto. destruct (LTI _ Hi) as (x & G & L).
    apply (rdo_a_get_ids' _ _ (rdo_e_oldk n0 R dk x)). rewrite GO, G; auto.
  - intros i y Ii G Dl. destruct (LTI _ Ii) as (x & G0 & L). rewrite GO, G0 in G; auto. simpl in G. inversion G; subst y. simpl in Dl.
    apply orb_false_elim in Dl. destruct Dl. apply filter_In. split; auto. unfold rdo_i_isdel. rewrite G0, H. auto.
  - assert (LIVE2: forall j, In j dd2 -> In j I /\ rdo_i_isdel st0 j = false /\ ~ In j dk).
    { intros j Ij. apply IFF in Ij. destruct Ij as (Ij & y & G & Dl). destruct (LTI _ Ij) as (x & G0 & L). rewrite GO, G0 in G; auto.
      simpl in G. inversion G; subst y. simpl in Dl. apply orb_false_elim in Dl. destruct Dl as (D1 & D2).
      split; auto. split. unfold rdo_i_isdel. rewrite G0; auto. destruct (rdo_a_get_in _ _ _ G0) as (_ & Ex). rewrite Ex in D2. apply rdo_e_mem_nin; auto. }
    assert (KE: rdo_e_kill I (rdo_st t1) = rdo_e_kill dd2 (rdo_st t1)).
    { apply rdo_e_kill_eq. intros x Hx Dx. pose proof (rdo_a_in_get _ _ (rdo_e_v_nd _ _ _ _ _ V) Hx) as Gx.
      destruct (rdo_mem (rdo_id x) I) eqn:A, (rdo_mem (rdo_id x) dd2) eqn:B; auto; exfalso.
      - apply rdo_e_mem_in in A. apply rdo_e_mem_nin in B. apply B. apply IFF. split; eauto.
      - apply rdo_e_mem_in in B. apply rdo_e_mem_nin in A. apply A. apply LIVE2; auto. }
    assert (T2: t2 = {| rdo_st := rdo_e_kill dd2 (rdo_st t1); rdo_next := rdo_next t1; rdo_tins := rdo_tins t1; rdo_tdel := rdo_tdel t1 ++ dd2 |}).
    { destruct t2; simpl in *. subst. rewrite KE. reflexivity. }
    assert (V2: rdo_e_inv st0 n0 R (dk ++ dd2) t2).
    { rewrite T2. apply rdo_e_inv_kill; auto. intros j Ij. destruct (LIVE2 _ Ij) as (Ij' & _). destruct (LTI _ Ij') as (x & _ & L); auto. }
    assert (IFF2: forall j, In j (dk ++ dd2) <-> In j I /\ rdo_i_isdel st0 j = false).
    { intros j. split.
      - intros Ij. apply in_app_or in Ij. destruct Ij as [Ij|Ij]; auto. destruct (LIVE2 _ Ij) as (A & B & _); auto.
      - intros (Ij & Dj). destruct (in_dec N.eq_dec j dk) as [K|K]. apply in_or_app; auto. apply in_or_app; right.
        apply IFF. split; auto. destruct (LTI _ Ij) as (x & G0 & L). exists (rdo_e_oldk n0 R dk x). rewrite GO, G0; auto. split; auto.
        simpl. unfold rdo_i_isdel in Dj. rewrite G0 in Dj. rewrite Dj. destruct (rdo_a_get_in _ _ _ G0) as (_ & Ex). rewrite Ex.
        apply rdo_e_mem_nin in K. rewrite K. auto. }
    exists t2, (dk ++ dd2). split; auto. split; auto. split. apply rdo_e_nodup_app; auto. intros x Ix. apply LIVE2; auto.
    split; auto. split; [|rewrite T2; simpl; rewrite KE; reflexivity].
    rewrite (rdo_e_v_old _ _ _ _ _ V2). apply map_ext_in. intros x Hx.
    assert (rdo_del x || rdo_mem (rdo_id x) (dk ++ dd2) = rdo_del x || rdo_mem (rdo_id x) I) as EQ.
    { destruct (rdo_del x) eqn:Dx; auto. simpl. pose proof (rdo_a_in_get _ _ ND0 Hx) as Gx.
      destruct (rdo_mem (rdo_id x) (dk ++ dd2)) eqn:A, (rdo_mem (rdo_id x) I) eqn:B; auto; exfalso.
      - apply rdo_e_mem_in in A. apply rdo_e_mem_nin in B. apply B. apply IFF2; auto.
      - apply rdo_e_mem_in in B. apply rdo_e_mem_nin in A. apply A. apply IFF2. split; auto. unfold rdo_i_isdel. rewrite Gx; auto. }
    unfold rdo_e_oldk. rewrite EQ. reflexivity.
Qed.
Print Assumptions rdo_e_finish.

(* ============================================================================================== *)
(* E1: the structural description of the result of rdo_process.
   R = rdo_i_redo st0 I D; the copy of the k-th element of R has id n0 + k (rdo_e_cp); see rdo_e_inv:
     v_old/last conjunct (r1): the old items, in their order, with del' = del || (id in I), red' = Some copy for ids of R;
     v_new, v_all (r2): the other items are exactly the copies, alive, red = None, same sub / cnt, parent mapped by rdo_e_mpar;
     v_next, v_tins, v_tdel + the description of dd (r4). *)
Definition rdo_e_result (st0 : list rdo_item) (n0 : N) (I D : list N) (t : rdo_txn) : Prop :=
  exists dd, rdo_e_inv st0 n0 (rdo_i_redo st0 I D) dd t /\ NoDup dd /\
             (forall j, In j dd <-> In j I /\ rdo_i_isdel st0 j = false) /\
             filter (rdo_e_isold n0) (rdo_st t) = map (rdo_e_oldk n0 (rdo_i_redo st0 I D) I) st0.

Lemma rdo_e_redo_in : forall st I D i, In i (rdo_i_redo st I D) -> In i D /\ ~ In i I /\ exists x, rdo_get st i = Some x.
Proof. intros. unfold rdo_i_redo in H. apply filter_In in H. destruct H as (A & B). apply andb_true_iff in B. destruct B as (B & C).
  split; auto. split. apply rdo_e_mem_nin. destruct (rdo_mem i I); simpl in C; congruence. destruct (rdo_get st i); simpl in B; try discriminate. eauto. Qed.
Print Assumptions rdo_e_redo_in.

(* E1 (r1, r2, r4, r6) for entries whose re-created items are sequence items with a parent that is not re-created *)
Theorem rdo_e_process_flatseq_partial : forall s e s1 s2,
  rdo_i_pc (rdo_doc s) (rdo_clock s) (rdo_scope s) (rdo_sins e) (rdo_sdel e) = true -> NoDup (rdo_sdel e) ->
  (forall j x, In j (rdo_i_redo (rdo_doc s) (rdo_sins e) (rdo_sdel e)) -> rdo_get (rdo_doc s) j = Some x ->
     rdo_sub x = None /\ forall p, rdo_par x = RdoItem p -> ~ In p (rdo_i_redo (rdo_doc s) (rdo_sins e) (rdo_sdel e))) ->
  exists t, rdo_process s e s1 s2 =
              RdoOk (t, rdo_is_some (hd_error (rdo_i_redo (rdo_doc s) (rdo_sins e) (rdo_sdel e))) ||
                        rdo_is_some (hd_error (rdo_e_liveI (rdo_doc s) (rdo_sins e)))) /\
            rdo_e_result (rdo_doc s) (rdo_clock s) (rdo_sins e) (rdo_sdel e) t.
Proof. intros s e s1 s2 PC NDD FLAT. apply rdo_e_pc_unpack in PC.
  set (st0 := rdo_doc s) in *. set (I := rdo_sins e) in *. set (D := rdo_sdel e) in *. set (n0 := rdo_clock s) in *.
  set (R := rdo_i_redo st0 I D) in *.
  pose proof (rdo_e_p_wf _ _ _ _ _ PC) as W. pose proof (rdo_e_wfp_nodup _ _ W) as ND0.
  rewrite (rdo_e_process_eq s e s1 s2 (rdo_e_liveI st0 I)).
  2: { rewrite (rdo_e_td st0 (rdo_scope s) I); auto; apply PC. }
  2: apply PC.
  cbv zeta. fold st0 I D R.
  destruct (rdo_e_fold_seqA st0 n0 [] R I s1 s2 ND0 R [] (rdo_begin s) false) as (t1 & E1 & V1).
  - apply rdo_e_inv_init; auto. intros x Ix. apply (rdo_e_wfp_item _ _ W _ Ix).
  - simpl. apply NoDup_filter; auto.
  - intros i Ii. destruct (rdo_e_redo_in _ _ _ _ Ii) as (ID & NI & x & G). destruct (rdo_a_get_in _ _ _ G) as (Ix & Ex).
    destruct (rdo_e_wfp_item _ _ W _ Ix) as (L & WP). rewrite Ex in L.
    destruct (rdo_e_p_c3 _ _ _ _ _ PC x Ix) as (Dx & Rx & Px). rewrite Ex; auto.
    destruct (FLAT _ _ Ii G) as (Sx & FP).
    exists x. repeat (split; auto). destruct (rdo_par x) eqn:P; auto.
    destruct Px as [(A & B)|K]. 2: { exfalso. apply (FP id); auto. }
    apply rdo_e_isdel_live in A. destruct A as (pit & Gp & Dp). destruct (WP id eq_refl) as (Lp & y & k & Gy & Cy).
    rewrite Gp in Gy. inversion Gy; subst y. exists pit, k. rewrite Ex in Lp. repeat (split; auto); try lia.
  - simpl. intros j xj p Ij Gj Pj. apply (FLAT _ _ Ij Gj); auto.
  - rewrite E1. cbn [rdo_bind]. simpl app in V1.
    destruct (rdo_e_finish st0 n0 (rdo_scope s) I D t1 [] PC V1) as (t2 & dd & E2 & V2 & NDd & IFF & FO & _).
    + intros j [].
    + constructor.
    + intros j x p Ij Gj Pj. fold R in Pj. destruct (FLAT _ _ Ij Gj) as (_ & FP).
      destruct (rdo_a_get_in _ _ _ Gj) as (Ix & Ex). destruct (rdo_e_wfp_item _ _ W _ Ix) as (L & WP).
      unfold rdo_e_mpar in Pj. destruct (rdo_par x) eqn:P; try discriminate.
      assert (rdo_mem id R = false) as M by (apply rdo_e_mem_nin; apply FP; auto). rewrite M in Pj. inversion Pj; subst id.
      destruct (rdo_e_p_c3 _ _ _ _ _ PC x Ix) as (_ & _ & Px). rewrite Ex; auto. rewrite P in Px.
      destruct Px as [(A & B)|K]. 2: { exfalso. apply (FP p); auto. }
      split; auto. destruct (WP p eq_refl) as (Lp & _). pose proof (rdo_e_cp_lt n0 R j Ij). rewrite Ex in Lp, L. fold R. lia.
    + rewrite E2. cbn [rdo_bind]. exists t2. split; auto. exists dd. auto.
Qed.
Print Assumptions rdo_e_process_flatseq_partial.

(* ============================================================================================== *)
(* the map case, parent a root or alive *)
Lemma rdo_e_rights_hd : forall st cur x lr rest, NoDup (map rdo_id st) -> rdo_get st cur = Some x -> rdo_rights st cur = lr :: rest ->
  exists y, rdo_get st lr = Some y /\ rdo_par y = rdo_par x /\ rdo_sub y = rdo_sub x /\ rdo_rights st lr = rest /\ In y st.
Proof. intros st cur x lr rest ND G RT. destruct (rdo_e_get_split _ _ _ G) as (a & b & ST & NIa & Ex). subst cur.
  destruct (rdo_e_lr_app a x b NIa) as (_ & RT'). rewrite <- ST in RT'. rewrite RT' in RT.
  set (g := rdo_in_chain (rdo_par x) (rdo_sub x)) in *.
  destruct (filter g b) as [|y f'] eqn:F; simpl in RT; try discriminate. inversion RT; subst lr rest.
  destruct (rdo_e_filter_hd _ _ _ _ _ F) as (m1 & m2 & Eb & F1 & F2).
  assert (Gy: g y = true). { assert (In y (filter g b)) by (rewrite F; simpl; auto). apply filter_In in H. tauto. }
  apply rdo_e_in_chain_eq in Gy. destruct Gy as (Py & Sy).
  assert (ST': st = (a ++ x :: m1) ++ y :: m2) by (rewrite ST, Eb, <- app_assoc; reflexivity).
  assert (NIy: ~ In (rdo_id y) (map rdo_id (a ++ x :: m1))).
  { rewrite ST', map_app in ND. simpl in ND. destruct (rdo_e_nodup_app_l _ _ ND) as (_ & _ & DJ). intro K. apply (DJ _ K). simpl; auto. }
  assert (Iy: In y st) by (rewrite ST'; apply in_or_app; simpl; auto).
  exists y. split. apply rdo_a_in_get; auto. split; auto. split; auto. split; auto.
  destruct (rdo_e_lr_app (a ++ x :: m1) y m2 NIy) as (_ & RT2). rewrite <- ST' in RT2. rewrite RT2, Py, Sy. fold g. rewrite F2. auto.
Qed.
Print Assumptions rdo_e_rights_hd.

Lemma rdo_e_last_cons : forall (l : list N) a d, last (a :: l) d = last l a.
Proof. induction l; intros; [reflexivity|]. change (last (a0 :: a :: l) d) with (last (a :: l) d).
  rewrite (IHl a d), (IHl a a0). reflexivity. Qed.
Print Assumptions rdo_e_last_cons.

Lemma rdo_e_rights_last : forall st, NoDup (map rdo_id st) -> forall rs cur x, rdo_get st cur = Some x -> rdo_rights st cur = rs ->
  exists y, rdo_get st (last rs cur) = Some y /\ rdo_par y = rdo_par x /\ rdo_sub y = rdo_sub x /\ rdo_rights st (last rs cur) = [] /\
            (last rs cur = cur \/ In (last rs cur) rs).
Proof. intros st ND. induction rs; intros cur x G RT.
  - simpl. exists x. repeat split; auto.
  - destruct (rdo_e_rights_hd _ _ _ _ _ ND G RT) as (y & Gy & Py & Sy & RTy & _).
    destruct (IHrs _ _ Gy RTy) as (z & Gz & Pz & Sz & RTz & IN). rewrite rdo_e_last_cons. exists z. repeat split; auto; try congruence.
    right. destruct IN as [E|IN]. rewrite E. simpl; auto. simpl; auto.
Qed.
Print Assumptions rdo_e_rights_last.

Lemma rdo_e_mwalk_all : forall st td s1 s2, NoDup (map rdo_id st) -> forall n cur x, rdo_get st cur = Some x ->
  (length (rdo_rights st cur) < n)%nat ->
  (forall j, In j (rdo_rights st cur) -> exists y, rdo_get st j = Some y /\ rdo_passable td s1 s2 y = true /\ rdo_red y = None) ->
  rdo_mwalk n st cur td s1 s2 = RdoOk (last (rdo_rights st cur) cur).
Proof. intros st td s1 s2 ND. induction n; intros cur x G LN PS. inversion LN.
  cbn [rdo_mwalk]. unfold rdo_right. destruct (rdo_rights st cur) as [|lr rest] eqn:RT; simpl hd_error. reflexivity.
  destruct (PS lr) as (y & Gy & Py & Ry). simpl; auto. rewrite Gy, Py.
  assert (MF: rdo_mfollow (S (length st)) st lr = RdoOk lr) by (cbn [rdo_mfollow]; rewrite Gy, Ry; auto).
  rewrite MF. cbn [rdo_bind]. destruct (rdo_e_rights_hd _ _ _ _ _ ND G RT) as (y' & Gy' & _ & _ & RTy & _).
  rewrite (IHn lr y); auto.
  - rewrite RTy, rdo_e_last_cons. auto.
  - rewrite RTy. simpl in LN. lia.
  - rewrite RTy. intros j Ij. apply PS. simpl; auto.
Qed.
Print Assumptions rdo_e_mwalk_all.

(* rights are not changed by an update that keeps id / par / sub, for the updated item and what follows it *)
Lemma rdo_e_rights_upd : forall a x b f j, NoDup (map rdo_id (a ++ x :: b)) ->
  rdo_id (f x) = rdo_id x -> rdo_par (f x) = rdo_par x -> rdo_sub (f x) = rdo_sub x ->
  j = rdo_id x \/ In j (map rdo_id b) -> rdo_rights (a ++ f x :: b) j = rdo_rights (a ++ x :: b) j.
Proof. intros a x b f j ND E1 E2 E3 [Ej|Ij].
  - assert (NIa: ~ In (rdo_id x) (map rdo_id a)).
    { rewrite map_app in ND. simpl in ND. destruct (rdo_e_nodup_app_l _ _ ND) as (_ & _ & DJ). intro K. apply (DJ _ K). simpl; auto. }
    subst j. destruct (rdo_e_lr_app a x b NIa) as (_ & R1). assert (NIa': ~ In (rdo_id (f x)) (map rdo_id a)) by (rewrite E1; auto).
    destruct (rdo_e_lr_app a (f x) b NIa') as (_ & R2). rewrite E1, E2, E3 in R2. congruence.
  - apply in_map_iff in Ij. destruct Ij as (y & Ey & Iy). apply in_split in Iy. destruct Iy as (m1 & m2 & Eb). subst b j.
    assert (NI: forall z, rdo_id z = rdo_id x -> ~ In (rdo_id y) (map rdo_id (a ++ z :: m1))).
    { intros z Ez. replace (a ++ x :: m1 ++ y :: m2) with ((a ++ x :: m1) ++ y :: m2) in ND by (rewrite <- app_assoc; reflexivity).
      rewrite map_app in ND. simpl in ND. destruct (rdo_e_nodup_app_l _ _ ND) as (_ & _ & DJ). intro K. apply (DJ (rdo_id y)); simpl; auto.
      rewrite map_app in *. simpl in *. rewrite <- Ez. auto. }
    replace (a ++ x :: m1 ++ y :: m2) with ((a ++ x :: m1) ++ y :: m2) by (rewrite <- app_assoc; reflexivity).
    replace (a ++ f x :: m1 ++ y :: m2) with ((a ++ f x :: m1) ++ y :: m2) by (rewrite <- app_assoc; reflexivity).
    destruct (rdo_e_lr_app _ y m2 (NI x eq_refl)) as (_ & R1). destruct (rdo_e_lr_app _ y m2 (NI (f x) E1)) as (_ & R2). congruence.
Qed.
Print Assumptions rdo_e_rights_upd.

Lemma rdo_e_filter_len : forall (A : Type) (g : A -> bool) l, (length (filter g l) <= length l)%nat.
Proof. induction l; simpl; auto. destruct (g a); simpl; lia. Qed.
Print Assumptions rdo_e_filter_len.
Lemma rdo_e_rights_len : forall st i, (length (rdo_rights st i) <= length st)%nat.
Proof. intros. unfold rdo_rights. destruct (rdo_split st i []) as [((b0 & x) & a0)|] eqn:E; simpl; try lia.
  rewrite map_length. pose proof (rdo_e_filter_len _ (rdo_in_chain (rdo_par x) (rdo_sub x)) a0).
  apply rdo_a_split_spec in E. destruct E as (E & _). simpl in E. rewrite E, app_length. simpl. lia. Qed.
Print Assumptions rdo_e_rights_len.

Lemma rdo_e_integrate_map_last : forall t x l k, rdo_sub x = Some k ->
  rdo_neighbour_ok (rdo_st t) x (Some l) = true -> rdo_right (rdo_st t) l = None ->
  rdo_right (rdo_link (rdo_st t) (Some l) x) (rdo_id x) = None ->
  rdo_integrate t x (Some l) None =
    (rdo_let t2 := rdo_txn_delete {| rdo_st := rdo_link (rdo_st t) (Some l) x; rdo_next := rdo_next t;
                                     rdo_tins := rdo_tins t ++ [rdo_id x]; rdo_tdel := rdo_tdel t |} l in
     if rdo_parent_deleted (rdo_st t2) (rdo_par x) then rdo_txn_delete t2 (rdo_id x) else RdoOk t2).
Proof. intros t x l k SUB N1 R1 R2. unfold rdo_integrate. rewrite N1. cbn [rdo_neighbour_ok andb negb].
  unfold rdo_detect_conflict. rewrite R1. cbn [rdo_on_eqb negb]. rewrite R2, SUB.
  destruct (rdo_txn_delete _ l); cbn [rdo_bind]; auto. cbn [rdo_is_some andb]. rewrite orb_false_r. auto. Qed.
Print Assumptions rdo_e_integrate_map_last.

Lemma rdo_e_tail_mapA : forall t item a b k td s1 s2,
  rdo_st t = a ++ item :: b -> NoDup (map rdo_id (rdo_st t)) -> rdo_sub item = Some k ->
  (forall y, In y (rdo_st t) -> rdo_id y < rdo_next t) -> rdo_a_parlt (rdo_st t) ->
  rdo_parent_deleted (rdo_st t) (rdo_par item) = false ->
  (forall j, In j (rdo_rights (rdo_st t) (rdo_id item)) ->
     exists y, rdo_get (rdo_st t) j = Some y /\ rdo_passable td s1 s2 y = true /\ rdo_red y = None) ->
  let lst := last (rdo_rights (rdo_st t) (rdo_id item)) (rdo_id item) in
  let st1 := rdo_link (a ++ rdo_set_red item (rdo_next t) :: b) (Some lst)
               {| rdo_id := rdo_next t; rdo_par := rdo_par item; rdo_sub := Some k; rdo_cnt := rdo_cnt item;
                  rdo_del := false; rdo_keep := true; rdo_red := None; rdo_org := Some lst; rdo_rorg := None |} in
  exists d, rdo_a_tail t item (rdo_id item) (rdo_par_item (rdo_par item)) (rdo_par item) (rdo_par item) td s1 s2 =
      RdoOk ({| rdo_st := rdo_e_kill d st1; rdo_next := rdo_next t + 1; rdo_tins := rdo_tins t ++ [rdo_next t];
                rdo_tdel := rdo_tdel t ++ d |}, Some (rdo_next t)) /\
    rdo_e_dspec st1 [lst] d /\ (forall y, rdo_get st1 lst = Some y -> rdo_del y = false -> In lst d) /\
    (forall j, In j d -> lst <= j) /\ NoDup (map rdo_id st1) /\ rdo_a_parlt st1.
Proof. intros t item a b k td s1 s2 ST ND SUB LT PL PD PASS lst st1.
  set (i := rdo_id item) in *. set (nid := rdo_next t) in *. set (st := rdo_st t) in *.
  set (g := rdo_in_chain (rdo_par item) (Some k)).
  assert (ND0 := ND). rewrite ST, map_app in ND0. simpl in ND0. destruct (rdo_e_nodup_app_l _ _ ND0) as (NDa & _ & DISJ).
  assert (NIa: ~ In i (map rdo_id a)) by (intro K; eapply DISJ; eauto; simpl; auto).
  assert (Gi: rdo_get st i = Some item) by (rewrite ST; apply rdo_e_get_app; auto).
  destruct (rdo_e_lr_app a item b NIa) as (_ & RT). rewrite SUB in RT. fold g i in RT. rewrite <- ST in RT.
  destruct (rdo_e_rights_last st ND (rdo_rights st i) i item Gi eq_refl) as (yl & Gl & Pl & Sl & RTl & INl). fold lst in Gl, RTl, INl.
  set (item' := rdo_set_red item nid). set (st2 := a ++ item' :: b).
  assert (ST2: st2 = rdo_update st i (fun y => rdo_set_red y nid)) by (rewrite ST; unfold i; rewrite rdo_e_update_app; auto).
  assert (IDS2: map rdo_id st2 = map rdo_id st) by (rewrite ST2; apply rdo_a_ids_update; auto).
  assert (ND2: NoDup (map rdo_id st2)) by (rewrite IDS2; auto).
  assert (FR: ~ In nid (map rdo_id st2)).
  { rewrite IDS2. intro K. apply in_map_iff in K. destruct K as (y & Ey & Iy). apply LT in Iy. fold nid in Iy. lia. }
  assert (INb: lst = rdo_id item \/ In lst (map rdo_id b)).
  { destruct INl as [?|K]; auto. right. rewrite RT in K. apply in_map_iff in K. destruct K as (y & Ey & Iy). apply filter_In in Iy.
    rewrite <- Ey. apply in_map. tauto. }
  assert (RT2: rdo_rights st2 lst = []).
  { unfold st2, item'. rewrite (rdo_e_rights_upd a item b (fun y => rdo_set_red y nid) lst); auto. rewrite <- ST. auto. rewrite <- ST; auto. }
  assert (Gl2: exists yl', rdo_get st2 lst = Some yl' /\ rdo_par yl' = rdo_par item /\ rdo_sub yl' = Some k /\ rdo_id yl' = lst).
  { rewrite ST2, rdo_a_get_update; auto. rewrite Gl. destruct (rdo_a_get_in _ _ _ Gl) as (_ & El).
    destruct (lst =? i); simpl; eexists; split; try reflexivity; simpl; repeat split; congruence. }
  destruct Gl2 as (yl' & Gl2 & Pl2 & Sl2 & El2).
  set (copy := {| rdo_id := nid; rdo_par := rdo_par item; rdo_sub := Some k; rdo_cnt := rdo_cnt item;
                  rdo_del := false; rdo_keep := true; rdo_red := None; rdo_org := Some lst; rdo_rorg := None |}) in *.
  assert (RC: rdo_right st1 nid = None).
  { unfold st1. fold item' st2. destruct (rdo_e_get_split _ _ _ Gl2) as (a2 & b2 & E2 & NI2 & _).
    simpl rdo_link. rewrite E2. rewrite (rdo_a_insert_after_app a2 yl' b2 lst copy); auto.
    assert (F2: filter g b2 = []).
    { rewrite <- El2 in NI2. destruct (rdo_e_lr_app a2 yl' b2 NI2) as (_ & R2). rewrite <- E2, El2, RT2, Pl2, Sl2 in R2. fold g in R2.
      destruct (filter g b2); simpl in R2; auto; discriminate. }
    replace (a2 ++ yl' :: copy :: b2) with ((a2 ++ [yl']) ++ copy :: b2) by (rewrite <- app_assoc; reflexivity).
    assert (NIc: ~ In (rdo_id copy) (map rdo_id (a2 ++ [yl']))).
    { simpl rdo_id. intro K. apply FR. rewrite E2. rewrite map_app in *. apply in_app_or in K. apply in_or_app.
      destruct K as [K|K]; [left; exact K|right]. simpl in K |- *. destruct K as [K|[]]. left; exact K. }
    destruct (rdo_e_lr_app _ copy b2 NIc) as (_ & R3). unfold rdo_right. simpl rdo_id in R3. rewrite R3. simpl. fold g. rewrite F2. auto. }
  assert (ND1: NoDup (map rdo_id st1)).
  { eapply Permutation_NoDup. apply Permutation_sym. apply (rdo_a_perm_link st2 (Some lst) copy). constructor; auto. }
  assert (PL1: rdo_a_parlt st1).
  { intros y p Iy Py. apply (rdo_a_link_in st2 (Some lst) copy) in Iy. destruct Iy as [Ey|Iy].
    - subst y. simpl in *. destruct (rdo_a_get_in _ _ _ Gi) as (Ii & _). pose proof (PL _ _ Ii Py). pose proof (LT _ Ii). fold nid in H0. lia.
    - rewrite ST2 in Iy. apply rdo_a_in_update_red in Iy. destruct Iy as (y0 & I0 & P0 & E0). rewrite E0. apply (PL y0); congruence. }
  assert (Il1: In lst (map rdo_id st1)).
  { apply (Permutation_in _ (Permutation_sym (rdo_a_perm_link st2 (Some lst) copy))). right. eapply rdo_a_get_ids'; eauto. }
  set (t1 := {| rdo_st := st1; rdo_next := nid + 1; rdo_tins := rdo_tins t ++ [nid]; rdo_tdel := rdo_tdel t |}).
  destruct (rdo_a_txn_delete_ok t1 lst PL1 Il1) as (t1' & TD & _ & _).
  destruct (rdo_e_txn_delete_spec t1 lst t1' ND1 TD) as (d & S1 & T1 & N1 & I1 & DS & LV). simpl in S1, T1, N1, I1.
  assert (LB: forall j, In j d -> lst <= j).
  { apply (rdo_e_dspec_closed st1 [lst] d (fun j => lst <= j)); auto.
    - intros r [E|[]] _. subst; lia.
    - intros y p Iy _ Py Lp. pose proof (PL1 _ _ Iy Py). lia. }
  exists d. split; [|repeat split; auto; apply DS].
  unfold rdo_a_tail, rdo_a_lr. rewrite SUB. cbv zeta. rewrite rdo_a_par_eqb_refl. cbn [andb]. fold st i nid.
  assert (LR: (if rdo_is_some (rdo_right st i)
               then rdo_let l := rdo_mwalk (S (length st)) st i td s1 s2 in
                    if rdo_is_some (rdo_right st l) then RdoOk None else RdoOk (Some (Some l, None))
               else RdoOk (Some (rdo_map_get st (rdo_par item) k, @None N))) = RdoOk (Some (Some lst, None))).
  { destruct (rdo_right st i) eqn:RI; cbn [rdo_is_some].
    - rewrite (rdo_e_mwalk_all st td s1 s2 ND (S (length st)) i item Gi); auto.
      + cbn [rdo_bind]. fold lst. unfold rdo_right. rewrite RTl. reflexivity.
      + pose proof (rdo_e_rights_len st i). lia.
    - unfold rdo_right in RI. assert (RN: rdo_rights st i = []) by (destruct (rdo_rights st i); simpl in RI; auto; discriminate).
      assert (lst = i) as EL by (unfold lst; rewrite RN; auto). rewrite EL.
      unfold rdo_map_get, rdo_chain. rewrite ST, filter_app. simpl. fold g.
      assert (GI: g item = true) by (unfold g; rewrite <- SUB; apply rdo_e_in_chain_refl). rewrite GI.
      rewrite RN in RT. assert (filter g b = []) as Fb by (destruct (filter g b); simpl in RT; auto; discriminate). rewrite Fb.
      rewrite rev_app_distr. simpl. reflexivity. }
  rewrite LR. cbn [rdo_bind]. rewrite <- ST2.
  match goal with |- context [rdo_integrate ?T ?X ?L ?R] => rewrite (rdo_e_integrate_map_last T X lst k) end; auto.
  - cbn [rdo_st rdo_next rdo_tins rdo_tdel rdo_id rdo_par]. fold copy. change (rdo_link st2 (Some lst) copy) with st1. fold t1.
    rewrite TD. cbn [rdo_bind]. rewrite S1.
    assert (PD1: rdo_parent_deleted (rdo_e_kill d st1) (rdo_par item) = false).
    { assert (P1: rdo_parent_deleted st1 (rdo_par item) = false).
      { unfold st1. fold item'. fold st2. apply rdo_e_pdel_link; auto. rewrite ST2, rdo_e_pdel_set_red. auto. }
      destruct (rdo_par item) eqn:P; simpl in *; auto. rewrite rdo_e_get_kill. destruct (rdo_get st1 id) eqn:G1; simpl; auto.
      destruct (rdo_a_get_in _ _ _ G1) as (_ & E1). rewrite E1.
      assert (rdo_mem id d = false) as M.
      { apply rdo_e_mem_nin. intro K. apply LB in K. destruct (rdo_a_get_in _ _ _ Gl) as (Iyl & Eyl). pose proof (PL _ _ Iyl Pl). lia. }
      rewrite M. auto. }
    rewrite PD1. destruct t1'; simpl in *. subst. reflexivity.
  - cbn [rdo_st]. simpl. rewrite Gl2. unfold rdo_in_chain. simpl. rewrite Pl2, Sl2, rdo_a_par_eqb_refl. simpl. apply N.eqb_refl.
  - cbn [rdo_st]. unfold rdo_right. rewrite RT2. auto.
Qed.
Print Assumptions rdo_e_tail_mapA.

Lemma rdo_e_redo_mapA : forall f t item a b k ri td s1 s2,
  rdo_st t = a ++ item :: b -> NoDup (map rdo_id (rdo_st t)) -> rdo_red item = None -> rdo_sub item = Some k ->
  (forall y, In y (rdo_st t) -> rdo_id y < rdo_next t) -> rdo_a_parlt (rdo_st t) ->
  match rdo_par item with
  | RdoRoot _ => True
  | RdoItem p => exists pit k, rdo_get (rdo_st t) p = Some pit /\ rdo_del pit = false /\ rdo_cnt pit = RdoType k
  end ->
  (forall j, In j (rdo_rights (rdo_st t) (rdo_id item)) ->
     exists y, rdo_get (rdo_st t) j = Some y /\ rdo_passable td s1 s2 y = true /\ rdo_red y = None) ->
  let lst := last (rdo_rights (rdo_st t) (rdo_id item)) (rdo_id item) in
  let st1 := rdo_link (a ++ rdo_set_red item (rdo_next t) :: b) (Some lst)
               {| rdo_id := rdo_next t; rdo_par := rdo_par item; rdo_sub := Some k; rdo_cnt := rdo_cnt item;
                  rdo_del := false; rdo_keep := true; rdo_red := None; rdo_org := Some lst; rdo_rorg := None |} in
  exists d, rdo_redo (S f) t (rdo_id item) ri td s1 s2 =
      RdoOk ({| rdo_st := rdo_e_kill d st1; rdo_next := rdo_next t + 1; rdo_tins := rdo_tins t ++ [rdo_next t];
                rdo_tdel := rdo_tdel t ++ d |}, Some (rdo_next t)) /\
    rdo_e_dspec st1 [lst] d /\ (forall y, rdo_get st1 lst = Some y -> rdo_del y = false -> In lst d) /\
    (forall j, In j d -> lst <= j) /\ NoDup (map rdo_id st1) /\ rdo_a_parlt st1.
Proof. intros f t item a b k ri td s1 s2 ST ND RED SUB LT PL PAR PASS lst st1.
  assert (PD: rdo_parent_deleted (rdo_st t) (rdo_par item) = false).
  { destruct (rdo_par item); simpl; auto. destruct PAR as (pit & k0 & G & D & _). rewrite G; auto. }
  destruct (rdo_e_tail_mapA t item a b k td s1 s2 ST ND SUB LT PL PD PASS) as (d & T & REST). exists d. split; auto.
  assert (ND0 := ND). rewrite ST, map_app in ND0. simpl in ND0. destruct (rdo_e_nodup_app_l _ _ ND0) as (NDa & _ & DISJ).
  assert (NIa: ~ In (rdo_id item) (map rdo_id a)) by (intro K; eapply DISJ; eauto; simpl; auto).
  assert (Gi: rdo_get (rdo_st t) (rdo_id item) = Some item) by (rewrite ST; apply rdo_e_get_app; auto).
  cbn [rdo_redo]. rewrite Gi, RED. destruct (rdo_par item) eqn:P.
  - exact T.
  - destruct PAR as (pit & k0 & G & D & C). cbn [rdo_par_item]. cbn [rdo_par_item] in T. rewrite G, D. cbn [rdo_bind]. rewrite G, C. exact T.
Qed.
Print Assumptions rdo_e_redo_mapA.

Lemma rdo_e_map_split : forall (A B : Type) (f : A -> B) l l1 y l2, map f l = l1 ++ y :: l2 ->
  exists a0 x b0, l = a0 ++ x :: b0 /\ map f a0 = l1 /\ f x = y /\ map f b0 = l2.
Proof. induction l; destruct l1; simpl; intros; try discriminate.
  - inversion H; subst. exists [], a, l. auto.
  - inversion H; subst. destruct (IHl _ _ _ H2) as (a0 & x & b0 & E & M1 & Fx & M2). exists (a :: a0), x, b0. subst. auto. Qed.
Print Assumptions rdo_e_map_split.

(* parlt and the closure of I on the current store, when the copies have the parent of their original *)
Lemma rdo_e_inv_flat_props : forall st0 n0 I done dk t, rdo_e_inv st0 n0 done dk t -> rdo_i_wfp st0 n0 = true ->
  (forall y p, In y st0 -> rdo_del y = false -> rdo_par y = RdoItem p -> In p I -> In (rdo_id y) I) ->
  (forall j x, In j done -> rdo_get st0 j = Some x -> rdo_e_mpar n0 done (rdo_par x) = rdo_par x /\ forall p, rdo_par x = RdoItem p -> ~ In p I) ->
  rdo_a_parlt (rdo_st t) /\
  (forall y p, In y (rdo_st t) -> rdo_del y = false -> rdo_par y = RdoItem p -> In p I -> In (rdo_id y) I).
Proof. intros st0 n0 I done dk t V W C2 FL. split.
  - intros y p Iy Py. destruct (rdo_e_inv_item _ _ _ _ _ _ V Iy) as [(x & Ix & Ey)|(j & x & l & r & Ij & Gj & Ey)]; subst y; simpl in *.
    + apply (rdo_e_wfp_item _ _ W _ Ix); auto.
    + destruct (FL _ _ Ij Gj) as (MP & _). rewrite MP in Py. destruct (rdo_a_get_in _ _ _ Gj) as (Ix & Ex).
      destruct (rdo_e_wfp_item _ _ W _ Ix) as (L & WP). destruct (WP _ Py) as (Lp & _). pose proof (rdo_e_cp_lt n0 _ _ Ij). lia.
  - intros y p Iy Dy Py Ip. destruct (rdo_e_inv_item _ _ _ _ _ _ V Iy) as [(x & Ix & Ey)|(j & x & l & r & Ij & Gj & Ey)]; subst y; simpl in *.
    + apply orb_false_elim in Dy. destruct Dy. apply (C2 x p); auto.
    + exfalso. destruct (FL _ _ Ij Gj) as (MP & NP). rewrite MP in Py. apply (NP _ Py); auto.
Qed.
Print Assumptions rdo_e_inv_flat_props.

Lemma rdo_e_step_mapA : forall st0 n0 I done dk t i x k f ri s1 s2,
  rdo_e_inv st0 n0 done dk t -> rdo_i_wfp st0 n0 = true ->
  (forall y p, In y st0 -> rdo_del y = false -> rdo_par y = RdoItem p -> In p I -> In (rdo_id y) I) ->
  (forall p, rdo_par x = RdoItem p -> ~ In p (done ++ [i]) /\ ~ In p I) ->
  (forall j xj, In j done -> rdo_get st0 j = Some xj -> rdo_par xj <> RdoItem i) ->
  rdo_a_parlt (rdo_st t) ->
  (forall y p, In y (rdo_st t) -> rdo_del y = false -> rdo_par y = RdoItem p -> In p I -> In (rdo_id y) I) ->
  (forall j xj, In j done -> rdo_get st0 j = Some xj -> rdo_e_mpar n0 done (rdo_par xj) = rdo_par x -> rdo_par xj = rdo_par x) ->
  rdo_get st0 i = Some x -> rdo_red x = None -> rdo_del x = true -> rdo_sub x = Some k -> ~ In i done ->
  match rdo_par x with
  | RdoRoot _ => True
  | RdoItem p => exists pit kk, rdo_get st0 p = Some pit /\ rdo_del pit = false /\ rdo_cnt pit = RdoType kk
  end ->
  (forall j, In j (rdo_rights st0 i) -> In j I /\ ~ In j done /\ exists y, rdo_get st0 j = Some y /\ rdo_red y = None) ->
  (forall j xj, In j done -> rdo_get st0 j = Some xj -> ~ (rdo_par xj = rdo_par x /\ rdo_sub xj = Some k)) ->
  (forall j, In j dk -> In j I) -> (forall j, In j I -> exists y, rdo_get st0 j = Some y) ->
  exists t' d, rdo_redo (S f) t i ri I s1 s2 = RdoOk (t', Some (rdo_next t)) /\
     rdo_e_inv st0 n0 (done ++ [i]) (dk ++ d) t' /\ NoDup d /\
     (forall j, In j d -> In j I /\ rdo_i_isdel st0 j = false /\ ~ In j dk).
Proof. intros st0 n0 I done dk t i x k f ri s1 s2 V W C2 PI NPI PLt CLt NEWCH G RED DEL SUB NI PAR C4 UNIQ DKI IP.
  pose proof (rdo_e_wfp_nodup _ _ W) as ND0. destruct (rdo_a_get_in _ _ _ G) as (Ix & Ex).
  destruct (rdo_e_wfp_item _ _ W _ Ix) as (LI & WP). rewrite Ex in LI.
  assert (LTO: forall j y, rdo_get st0 j = Some y -> j < n0).
  { intros j y Gy. destruct (rdo_a_get_in _ _ _ Gy) as (Iy & Ey). rewrite <- Ey. apply (rdo_e_wfp_item _ _ W _ Iy). }
  pose proof (rdo_e_inv_get_old _ _ _ _ _ i V LI) as Gi. rewrite G in Gi. simpl in Gi.
  set (item := rdo_e_oldk n0 done dk x) in *.
  destruct (rdo_e_get_split _ _ _ Gi) as (a & b & ST & NIa & Ei).
  assert (REDi: rdo_red item = None). { simpl. apply rdo_e_mem_nin in NI. rewrite Ex, NI. auto. }
  assert (IIi: In i (done ++ [i])) by (apply in_or_app; simpl; auto).
  assert (PARi: match rdo_par item with
                | RdoRoot _ => True
                | RdoItem p => exists pit k, rdo_get (rdo_st t) p = Some pit /\ rdo_del pit = false /\ rdo_cnt pit = RdoType k
                end).
  { simpl. destruct (rdo_par x) eqn:P; auto. destruct PAR as (pit & kk & Gp & Dp & Cp).
    exists (rdo_e_oldk n0 done dk pit), kk. rewrite (rdo_e_inv_get_old _ _ _ _ _ id V (LTO _ _ Gp)), Gp. simpl. split; auto. split; auto.
    rewrite Dp. simpl. destruct (rdo_a_get_in _ _ _ Gp) as (_ & E). rewrite E. apply rdo_e_mem_nin. intro K. apply DKI in K.
    first [destruct (PI id eq_refl) as (_ & B) | destruct (PI id P) as (_ & B)]. auto. }
  set (g := rdo_in_chain (rdo_par item) (rdo_sub item)).
  assert (PASS: forall j, In j (rdo_rights (rdo_st t) (rdo_id item)) ->
            In j I /\ exists y, rdo_get (rdo_st t) j = Some y /\ rdo_passable I s1 s2 y = true /\ rdo_red y = None).
  { assert (NIa': ~ In (rdo_id item) (map rdo_id a)) by (rewrite Ei; auto).
    destruct (rdo_e_lr_app a item b NIa') as (_ & RT). rewrite <- ST in RT. fold g in RT.
    pose proof (rdo_e_v_old _ _ _ _ _ V) as VO. rewrite ST, filter_app in VO. simpl in VO.
    assert (OI: rdo_e_isold n0 item = true) by (unfold rdo_e_isold; simpl; rewrite Ex; apply N.ltb_lt; auto). rewrite OI in VO.
    symmetry in VO. destruct (rdo_e_map_split _ _ _ _ _ _ _ VO) as (a0 & x' & b0 & E0 & M1 & Fx & M2).
    assert (x' = x).
    { assert (In x' st0) by (rewrite E0; apply in_or_app; simpl; auto). pose proof (rdo_a_in_get _ _ ND0 H) as Gx'.
      assert (rdo_id x' = i). { rewrite <- Ei, <- Fx. reflexivity. } rewrite H0 in Gx'. congruence. }
    subst x'.
    assert (NIa0: ~ In (rdo_id x) (map rdo_id a0)).
    { rewrite E0, map_app in ND0. simpl in ND0. destruct (rdo_e_nodup_app_l _ _ ND0) as (_ & _ & DJ). intro K. apply (DJ _ K). simpl; auto. }
    destruct (rdo_e_lr_app a0 x b0 NIa0) as (_ & RT0). rewrite <- E0, Ex in RT0.
    intros j Ij. rewrite RT in Ij. apply in_map_iff in Ij. destruct Ij as (y & Ey & Iy). apply filter_In in Iy. destruct Iy as (Iy & Gy).
    destruct (rdo_e_isold n0 y) eqn:OY.
    - assert (In y (map (rdo_e_oldk n0 done dk) b0)) as K. { rewrite M2. apply filter_In. auto. }
      apply in_map_iff in K. destruct K as (y0 & E1 & I0). subst y. simpl in Ey.
      assert (In j (rdo_rights st0 i)) as RJ. { rewrite RT0, <- Ey. apply in_map. apply filter_In. split; auto. }
      destruct (C4 _ RJ) as (JI & JD & y1 & G1 & R1). split; auto.
      exists (rdo_e_oldk n0 done dk y1). rewrite (rdo_e_inv_get_old _ _ _ _ _ j V (LTO _ _ G1)), G1. split; auto.
      destruct (rdo_a_get_in _ _ _ G1) as (_ & E1). split.
      + unfold rdo_passable. simpl. rewrite E1. apply rdo_e_mem_in in JI. rewrite JI. rewrite orb_true_r. reflexivity.
      + simpl. rewrite E1. apply rdo_e_mem_nin in JD. rewrite JD. auto.
    - exfalso. assert (In y (rdo_st t)) as IY by (rewrite ST; apply in_or_app; simpl; auto).
      destruct (rdo_e_inv_item _ _ _ _ _ _ V IY) as [(x1 & I1 & E1)|(j' & x1 & l & r & Ij' & Gj' & E1)]; subst y.
      + unfold rdo_e_isold in OY. simpl in OY. apply N.ltb_ge in OY. pose proof (rdo_e_wfp_item _ _ W _ I1). lia.
      + apply rdo_e_in_chain_eq in Gy. simpl in Gy. destruct Gy as (P1 & S1). assert (P2: rdo_par x1 = rdo_par x) by (apply (NEWCH _ _ Ij' Gj'); exact P1).
        apply (UNIQ _ _ Ij' Gj'). split; [exact P2 | congruence]. }
  destruct (rdo_e_redo_mapA f t item a b k ri I s1 s2 ST (rdo_e_v_nd _ _ _ _ _ V) REDi SUB
              (fun y => rdo_e_inv_fresh _ _ _ _ _ y V) PLt PARi) as (d & E & DS & LV & LB & ND1 & PL1).
  { intros j Ij. apply PASS; auto. }
  rewrite Ei in *.
  set (nid := rdo_next t) in *. set (lst := last (rdo_rights (rdo_st t) i) i) in *.
  set (copy := {| rdo_id := nid; rdo_par := rdo_par item; rdo_sub := Some k; rdo_cnt := rdo_cnt item;
                  rdo_del := false; rdo_keep := true; rdo_red := None; rdo_org := Some lst; rdo_rorg := None |}) in *.
  set (st2 := a ++ rdo_set_red item nid :: b) in *. set (st1 := rdo_link st2 (Some lst) copy) in *.
  assert (UP: rdo_update (rdo_st t) i (fun y => rdo_set_red y nid) = st2).
  { rewrite ST, <- Ei. apply rdo_e_update_app. rewrite Ei; auto. }
  assert (FR: ~ In nid (map rdo_id st2)).
  { rewrite <- UP, rdo_a_ids_update; auto. intro K. apply in_map_iff in K. destruct K as (y & Ey & Iy).
    pose proof (rdo_e_inv_fresh _ _ _ _ _ _ V Iy). fold nid in H. lia. }
  assert (G1: forall j, j < n0 -> exists y, rdo_get st1 j = option_map (fun z => if j =? i then rdo_set_red z nid else z) (rdo_get (rdo_st t) j) /\ y = j).
  { intros j Lj. exists j. split; auto. unfold st1. rewrite rdo_a_get_link; auto. simpl rdo_id.
    pose proof (rdo_e_v_next _ _ _ _ _ V). fold nid in H. assert (nid =? j = false) as E1 by (apply N.eqb_neq; lia). rewrite E1.
    rewrite <- UP, rdo_a_get_update; auto. destruct (j =? i); auto. destruct (rdo_get (rdo_st t) j); auto. }
  assert (CL1: forall y p, In y st1 -> rdo_del y = false -> rdo_par y = RdoItem p -> In p I -> In (rdo_id y) I).
  { intros y p Iy Dy Py Ip. apply (rdo_a_link_in st2 (Some lst) copy) in Iy. destruct Iy as [Ey|Iy].
    - subst y. simpl in Py. exfalso. destruct (PI p Py) as (_ & B). auto.
    - rewrite <- UP in Iy. apply rdo_a_in_update in Iy. destruct Iy as [Iy|(x1 & I1 & E1 & E2)]. eapply CLt; eauto.
      subst y. simpl in *. eapply CLt; eauto. }
  assert (DI: forall j, In j d -> In j I).
  { apply (rdo_e_dspec_closed st1 [lst] d (fun j => In j I)); auto.
    intros r [Er|[]] Ird. subst r.
    destruct (rdo_e_rights_last (rdo_st t) (rdo_e_v_nd _ _ _ _ _ V) _ i item Gi eq_refl) as (_ & _ & _ & _ & _ & [EL|IL]).
    - exfalso. fold lst in EL. destruct DS as (_ & P). destruct (P _ Ird) as (y & Gy & Dy & _). rewrite EL in Gy.
      destruct (G1 i LI) as (_ & Gy' & _). rewrite Gy', Gi in Gy. simpl in Gy. rewrite N.eqb_refl in Gy. inversion Gy; subst y.
      simpl in Dy. rewrite DEL in Dy. discriminate.
    - fold lst in IL. apply PASS in IL. tauto. }
  assert (DL: forall j, In j d -> In j I /\ rdo_i_isdel st0 j = false /\ ~ In j dk).
  { intros j Ij. split; auto. destruct DS as (_ & P). destruct (P _ Ij) as (y & Gy & Dy & _).
    destruct (IP _ (DI _ Ij)) as (y1 & Gj).
    pose proof (LTO _ _ Gj) as Lj. destruct (G1 j Lj) as (_ & Gy' & _). rewrite Gy', (rdo_e_inv_get_old _ _ _ _ _ j V Lj), Gj in Gy.
    simpl in Gy. assert (rdo_del y = rdo_del y1 || rdo_mem (rdo_id y1) dk) as DE.
    { inversion Gy. destruct (j =? i); reflexivity. }
    rewrite Dy in DE. symmetry in DE. apply orb_false_elim in DE. destruct DE as (D1 & D2). destruct (rdo_a_get_in _ _ _ Gj) as (_ & E1).
    split. unfold rdo_i_isdel. rewrite Gj; auto. rewrite E1 in D2. apply rdo_e_mem_nin; auto. }
  assert (LTd: forall j, In j d -> j < n0).
  { intros j Ij. destruct (IP _ (DI _ Ij)) as (y1 & Gj). eapply LTO; eauto. }
  pose proof (rdo_e_inv_link st0 n0 done dk t i x (Some lst) (Some lst) None V ND0 G NI LI NPI) as V1.
  assert (MP: rdo_e_mpar n0 (done ++ [i]) (rdo_par x) = rdo_par x).
  { unfold rdo_e_mpar. destruct (rdo_par x) eqn:P; auto. first [destruct (PI id eq_refl) as (K & _) | destruct (PI id P) as (K & _)].
    apply rdo_e_mem_nin in K. rewrite K. auto. }
  rewrite MP in V1. fold nid in V1. rewrite UP in V1. unfold rdo_e_newk in V1. rewrite SUB in V1.
  pose proof (rdo_e_inv_kill _ _ _ _ _ d V1 LTd) as V2. cbn [rdo_st rdo_next rdo_tins rdo_tdel] in V2.
  eexists. exists d. split. exact E. split. exact V2. split. apply DS. exact DL.
Qed.
Print Assumptions rdo_e_step_mapA.

Lemma rdo_e_nodup_mid : forall (a : list rdo_item) x b, NoDup (map rdo_id (a ++ x :: b)) -> ~ In (rdo_id x) (map rdo_id a).
Proof. intros. rewrite map_app in H. simpl in H. destruct (rdo_e_nodup_app_l _ _ H) as (_ & _ & DJ). intro K. apply (DJ _ K). simpl; auto. Qed.
Print Assumptions rdo_e_nodup_mid.

Lemma rdo_e_chain_lr : forall st x y, NoDup (map rdo_id st) -> In x st -> In y st -> rdo_id x <> rdo_id y ->
  rdo_par y = rdo_par x -> rdo_sub y = rdo_sub x ->
  In (rdo_id y) (rdo_rights st (rdo_id x)) \/ In (rdo_id x) (rdo_rights st (rdo_id y)).
Proof. intros st x y ND Ix Iy NE P S. apply in_split in Ix. destruct Ix as (a & b & E). subst st.
  apply in_app_or in Iy. destruct Iy as [Iy|[Iy|Iy]].
  - right. apply in_split in Iy. destruct Iy as (a1 & a2 & Ea). subst a. rewrite <- app_assoc in *. simpl in *.
    destruct (rdo_e_lr_app a1 y (a2 ++ x :: b) (rdo_e_nodup_mid _ _ _ ND)) as (_ & RT). rewrite RT. apply in_map. apply filter_In.
    split. apply in_or_app; simpl; auto. unfold rdo_in_chain. rewrite P, S, rdo_a_par_eqb_refl, rdo_a_on_eqb_refl. auto.
  - subst y. congruence.
  - left. destruct (rdo_e_lr_app a x b (rdo_e_nodup_mid _ _ _ ND)) as (_ & RT). rewrite RT. apply in_map. apply filter_In.
    split; auto. unfold rdo_in_chain. rewrite P, S, rdo_a_par_eqb_refl, rdo_a_on_eqb_refl. auto.
Qed.
Print Assumptions rdo_e_chain_lr.

(* the condition for an item of R whose parent is a root or alive (sequence item or map entry) *)
Definition rdo_e_condF (st0 : list rdo_item) (I Rall : list N) (i : N) : Prop :=
  exists x, rdo_get st0 i = Some x /\ rdo_red x = None /\ rdo_del x = true /\
    match rdo_par x with
    | RdoRoot _ => True
    | RdoItem p => exists pit kk, rdo_get st0 p = Some pit /\ rdo_del pit = false /\ rdo_cnt pit = RdoType kk
    end /\
    (forall k, rdo_sub x = Some k ->
       (forall j, In j (rdo_rights st0 i) -> In j I /\ ~ In j Rall /\ exists y, rdo_get st0 j = Some y /\ rdo_red y = None) /\
       (forall j xj, In j Rall -> j <> i -> rdo_get st0 j = Some xj -> ~ (rdo_par xj = rdo_par x /\ rdo_sub xj = Some k))).

Lemma rdo_e_fold_A : forall st0 n0 I ri s1 s2 Rall, rdo_i_wfp st0 n0 = true ->
  (forall y p, In y st0 -> rdo_del y = false -> rdo_par y = RdoItem p -> In p I -> In (rdo_id y) I) ->
  (forall j, In j I -> exists y, rdo_get st0 j = Some y) ->
  (forall j xj p, In j Rall -> rdo_get st0 j = Some xj -> rdo_par xj = RdoItem p -> ~ In p Rall /\ ~ In p I) ->
  (forall i, In i Rall -> rdo_e_condF st0 I Rall i) -> NoDup Rall ->
  forall todo done t c dk, rdo_e_inv st0 n0 done dk t -> done ++ todo = Rall ->
    (forall j, In j dk -> In j I /\ rdo_i_isdel st0 j = false) -> NoDup dk ->
    exists t' dk', fold_left (rdo_e_fredo ri I s1 s2) todo (RdoOk (t, c)) = RdoOk (t', c || rdo_is_some (hd_error todo)) /\
       rdo_e_inv st0 n0 Rall dk' t' /\ (forall j, In j dk' -> In j I /\ rdo_i_isdel st0 j = false) /\ NoDup dk'.
Proof. intros st0 n0 I ri s1 s2 Rall W C2 IP FLAT COND NDR. pose proof (rdo_e_wfp_nodup _ _ W) as ND0.
  induction todo; intros done t c dk V ER DK NDK.
  - simpl. rewrite app_nil_r in ER. subst done. rewrite orb_false_r. exists t, dk. split; auto.
  - assert (SUBR: forall j, In j (done ++ [a]) -> In j Rall).
    { intros j Ij. rewrite <- ER. apply in_app_or in Ij. apply in_or_app. simpl in *. tauto. }
    assert (NI: ~ In a done). { rewrite <- ER in NDR. apply rdo_e_nodup_app_l in NDR. destruct NDR as (_ & _ & DJ). intro K. apply (DJ _ K). simpl; auto. }
    assert (IA: In a Rall) by (apply SUBR; apply in_or_app; simpl; auto).
    destruct (COND _ IA) as (x & G & RED & DEL & PAR & MAPC).
    destruct (rdo_a_get_in _ _ _ G) as (Ix & Ex). destruct (rdo_e_wfp_item _ _ W _ Ix) as (LI & WP). rewrite Ex in LI.
    assert (FL1: forall j xj p, In j (done ++ [a]) -> rdo_get st0 j = Some xj -> rdo_par xj = RdoItem p -> ~ In p (done ++ [a]) /\ ~ In p I).
    { intros j xj p Ij Gj Pj. destruct (FLAT j xj p (SUBR _ Ij) Gj Pj) as (A & B). split; auto. }
    assert (STEP: exists t1 d, rdo_redo (S (length (rdo_st t))) t a ri I s1 s2 = RdoOk (t1, Some (rdo_next t)) /\
              rdo_e_inv st0 n0 (done ++ [a]) (dk ++ d) t1 /\ NoDup d /\ (forall j, In j d -> In j I /\ rdo_i_isdel st0 j = false /\ ~ In j dk)).
    { destruct (rdo_sub x) as [k|] eqn:SUB.
      - destruct (MAPC k eq_refl) as (C4 & UNIQ).
        assert (FLd: forall j xj, In j done -> rdo_get st0 j = Some xj ->
                  rdo_e_mpar n0 done (rdo_par xj) = rdo_par xj /\ forall p, rdo_par xj = RdoItem p -> ~ In p I).
        { intros j xj Ij Gj. split.
          - unfold rdo_e_mpar. destruct (rdo_par xj) eqn:P; auto. destruct (FL1 j xj id) as (A & _); auto. apply in_or_app; auto.
            assert (~ In id done) as K by (intro; apply A; apply in_or_app; auto). apply rdo_e_mem_nin in K. rewrite K. auto.
          - intros p Pp. apply (FL1 j xj p); auto. apply in_or_app; auto. }
        destruct (rdo_e_inv_flat_props _ _ _ _ _ _ V W C2 FLd) as (PLt & CLt).
        apply (rdo_e_step_mapA st0 n0 I done dk t a x k); auto.
        + intros p Pp. apply (FL1 a x p); auto. apply in_or_app; simpl; auto.
        + intros j xj Ij Gj K. destruct (FL1 j xj a) as (A & _); auto. apply in_or_app; auto. apply A. apply in_or_app; simpl; auto.
        + intros j xj Ij Gj MPj. destruct (FLd j xj Ij Gj) as (MP & _). congruence.
        + intros j Ij. destruct (C4 _ Ij) as (A & B & C). split; auto. split; auto. intro K. apply B. apply SUBR. apply in_or_app; auto.
        + intros j xj Ij Gj. apply (UNIQ j xj); auto. apply SUBR; apply in_or_app; auto. intro K; subst j; auto.
        + intros j Ij. apply DK; auto.
      - destruct (rdo_e_step_seqA st0 n0 done dk t a V ND0) as (t1 & E & V1); auto.
        + exists x. repeat (split; auto). destruct (rdo_par x) eqn:P; auto. destruct PAR as (pit & kk & Gp & Dp & Cp).
          exists pit, kk. repeat (split; auto). intro K. apply DK in K. destruct (FLAT a x id IA G P) as (_ & B). tauto.
          destruct (WP id eq_refl). lia.
        + intros p x0 G0 P0. apply (FL1 a x0 p); auto. apply in_or_app; simpl; auto.
        + intros j xj Ij Gj K. destruct (FL1 j xj a) as (A & _); auto. apply in_or_app; auto. apply A. apply in_or_app; simpl; auto.
        + exists t1, []. rewrite app_nil_r. split; auto. split; auto. split. constructor. intros j []. }
    destruct STEP as (t1 & d & E & V1 & NDd & DL).
    cbn [fold_left]. unfold rdo_e_fredo at 2. cbn [rdo_bind]. rewrite E. cbn [rdo_bind rdo_is_some].
    destruct (IHtodo (done ++ [a]) t1 (c || true) (dk ++ d) V1) as (t' & dk' & E' & V' & DK' & NDK').
    + rewrite <- app_assoc. simpl. auto.
    + intros j Ij. apply in_app_or in Ij. destruct Ij as [Ij|Ij]; auto. destruct (DL _ Ij) as (A & B & _); auto.
    + apply rdo_e_nodup_app; auto. intros j Ij. apply DL; auto.
    + exists t', dk'. rewrite E'. split; auto. f_equal. f_equal. simpl. rewrite orb_true_r. auto.
Qed.
Print Assumptions rdo_e_fold_A.

(* E1 (r1, r2, r4, r6) for entries in which no re-created item has a re-created parent (sequence items and map entries) *)
Theorem rdo_e_process_flat_partial : forall s e s1 s2,
  rdo_i_pc (rdo_doc s) (rdo_clock s) (rdo_scope s) (rdo_sins e) (rdo_sdel e) = true -> NoDup (rdo_sdel e) ->
  (forall j x p, In j (rdo_i_redo (rdo_doc s) (rdo_sins e) (rdo_sdel e)) -> rdo_get (rdo_doc s) j = Some x ->
     rdo_par x = RdoItem p -> ~ In p (rdo_i_redo (rdo_doc s) (rdo_sins e) (rdo_sdel e))) ->
  exists t, rdo_process s e s1 s2 =
              RdoOk (t, rdo_is_some (hd_error (rdo_i_redo (rdo_doc s) (rdo_sins e) (rdo_sdel e))) ||
                        rdo_is_some (hd_error (rdo_e_liveI (rdo_doc s) (rdo_sins e)))) /\
            rdo_e_result (rdo_doc s) (rdo_clock s) (rdo_sins e) (rdo_sdel e) t.
Proof. intros s e s1 s2 PC NDD FLAT. apply rdo_e_pc_unpack in PC.
  set (st0 := rdo_doc s) in *. set (I := rdo_sins e) in *. set (D := rdo_sdel e) in *. set (n0 := rdo_clock s) in *.
  set (R := rdo_i_redo st0 I D) in *.
  pose proof (rdo_e_p_wf _ _ _ _ _ PC) as W. pose proof (rdo_e_wfp_nodup _ _ W) as ND0.
  rewrite (rdo_e_process_eq s e s1 s2 (rdo_e_liveI st0 I)).
  2: { rewrite (rdo_e_td st0 (rdo_scope s) I); auto; apply PC. }
  2: apply PC.
  cbv zeta. fold st0 I D R.
  assert (C3: forall j x, In j R -> rdo_get st0 j = Some x -> In x st0 /\ rdo_id x = j /\ rdo_del x = true /\ rdo_red x = None /\
            forall p, rdo_par x = RdoItem p -> rdo_i_isdel st0 p = false /\ ~ In p I).
  { intros j x Ij Gj. destruct (rdo_a_get_in _ _ _ Gj) as (Ix & Ex). split; auto. split; auto.
    destruct (rdo_e_p_c3 _ _ _ _ _ PC x Ix) as (Dx & Rx & Px). rewrite Ex; auto. split; auto. split; auto.
    intros p Pp. rewrite Pp in Px. destruct Px as [?|K]; auto. exfalso. apply (FLAT j x p); auto. }
  destruct (rdo_e_fold_A st0 n0 I R s1 s2 R W (rdo_e_p_c2 _ _ _ _ _ PC)) with (todo := R) (done := @nil N) (t := rdo_begin s) (c := false) (dk := @nil N)
    as (t1 & dk & E1 & V1 & DK & NDK); auto.
  - intros j Ij. destruct (rdo_e_p_I _ _ _ _ _ PC _ Ij) as (y & G & _). eauto.
  - intros j xj p Ij Gj Pj. split. apply (FLAT j xj p); auto. destruct (C3 j xj Ij Gj) as (_ & _ & _ & _ & Q). apply (Q p); auto.
  - intros i Ii. destruct (rdo_e_redo_in _ _ _ _ Ii) as (ID & NI & x & G). destruct (C3 _ _ Ii G) as (Ix & Ex & Dx & Rx & Px).
    destruct (rdo_e_wfp_item _ _ W _ Ix) as (L & WP).
    exists x. split; auto. split; auto. split; auto. split.
    + destruct (rdo_par x) eqn:P; auto. destruct (Px id eq_refl) as (A & B).
      apply rdo_e_isdel_live in A. destruct A as (pit & Gp & Dp). destruct (WP id eq_refl) as (Lp & y & k & Gy & Cy).
      rewrite Gp in Gy. inversion Gy; subst y. exists pit, k. auto.
    + intros k Sk. assert (SN: rdo_sub x <> None) by congruence. split.
      * intros j Ij. rewrite <- Ex in Ij. apply (rdo_e_p_c4 _ _ _ _ _ PC x Ix); auto. rewrite Ex; auto.
      * intros j xj Ij NE Gj (P1 & S1). destruct (C3 _ _ Ij Gj) as (Ixj & Exj & _).
        destruct (rdo_e_chain_lr st0 x xj ND0 Ix Ixj) as [K|K]; try congruence.
        -- rewrite Exj in K. apply (rdo_e_p_c4 _ _ _ _ _ PC x Ix) in K; auto. destruct K as (_ & K & _). apply K; auto. rewrite Ex; auto.
        -- rewrite Ex in K. apply (rdo_e_p_c4 _ _ _ _ _ PC xj Ixj) in K; auto. destruct K as (_ & K & _). apply K; auto. rewrite Exj; auto. congruence.
  - apply NoDup_filter; auto.
  - apply rdo_e_inv_init; auto. intros x Ix. apply (rdo_e_wfp_item _ _ W _ Ix).
  - intros j [].
  - constructor.
  - rewrite E1. cbn [rdo_bind].
    destruct (rdo_e_finish st0 n0 (rdo_scope s) I D t1 dk PC V1 DK NDK) as (t2 & dd & E2 & V2 & NDd & IFF & FO & _).
    + intros j x p Ij Gj Pj. fold R in Pj. destruct (C3 _ _ Ij Gj) as (Ix & Ex & _ & _ & Px). destruct (rdo_e_wfp_item _ _ W _ Ix) as (L & WP).
      unfold rdo_e_mpar in Pj. destruct (rdo_par x) eqn:P; try discriminate.
      assert (rdo_mem id R = false) as M by (apply rdo_e_mem_nin; apply (FLAT j x id); auto). rewrite M in Pj. inversion Pj; subst id.
      split. apply (Px p); auto. destruct (WP p eq_refl) as (Lp & _). pose proof (rdo_e_cp_lt n0 R j Ij). rewrite Ex in Lp, L. fold R. lia.
    + rewrite E2. cbn [rdo_bind]. exists t2. split; auto. exists dd. auto.
Qed.
Print Assumptions rdo_e_process_flat_partial.

(* ============================================================================================== *)
(* the parent is re-created too: the copy goes below the copy q of the parent *)
Lemma rdo_e_trace_B : forall f st q j y, rdo_get st j = Some y -> rdo_par_item (rdo_par y) <> Some q ->
  (rdo_red y = None \/ exists c z, rdo_red y = Some c /\ rdo_get st c = Some z /\ rdo_par z = RdoItem q) ->
  rdo_trace (S (S f)) st (Some q) (Some j) = RdoOk (rdo_red y).
Proof. intros f st q j y G NP H. cbn [rdo_trace]. rewrite G.
  assert (rdo_on_eqb (Some q) (rdo_par_item (rdo_par y)) = false) as E.
  { destruct (rdo_par_item (rdo_par y)) eqn:PI; simpl; auto. apply N.eqb_neq. congruence. }
  rewrite E. destruct H as [R|(c & z & R & Gc & Pz)]; rewrite R; auto.
  rewrite Gc. rewrite Pz. simpl. rewrite N.eqb_refl. reflexivity. Qed.
Print Assumptions rdo_e_trace_B.

Definition rdo_e_sibB (st : list rdo_item) (q : N) (l : N) : Prop :=
  exists y, rdo_get st l = Some y /\ rdo_par_item (rdo_par y) <> Some q /\
    (rdo_red y = None \/ exists c z, rdo_red y = Some c /\ rdo_get st c = Some z /\ rdo_par z = RdoItem q /\ rdo_sub z = None).
Definition rdo_e_goodB (st : list rdo_item) (q : N) (o : option N) : Prop :=
  forall c, o = Some c -> exists z, rdo_get st c = Some z /\ rdo_par z = RdoItem q /\ rdo_sub z = None.

Lemma rdo_e_sibB_trace : forall st q l, (1 <= length st)%nat -> rdo_e_sibB st q l ->
  exists o, rdo_trace (S (length st)) st (Some q) (Some l) = RdoOk o /\ rdo_e_goodB st q o.
Proof. intros st q l LN (y & G & NP & H). destruct (length st) as [|f] eqn:EL. lia.
  exists (rdo_red y). split.
  apply rdo_e_trace_B; auto. destruct H as [R|(c & z & R & Gc & Pz & Sz)]; [left; auto | right; exists c, z; auto].
  intros c E. destruct H as [R|(c' & z & R & Gc & Pz & Sz)]. congruence. rewrite R in E. inversion E; subst. eauto. Qed.
Print Assumptions rdo_e_sibB_trace.

Lemma rdo_e_lloop_B : forall st q cands, (1 <= length st)%nat -> (forall l, In l cands -> rdo_e_sibB st q l) ->
  exists o, rdo_lloop st (Some q) cands = RdoOk o /\ rdo_e_goodB st q o.
Proof. intros st q. induction cands; intros LN H. exists None. split; auto. intros c E; discriminate.
  cbn [rdo_lloop]. destruct (rdo_e_sibB_trace st q a LN (H _ (or_introl eq_refl))) as (o & E & Go). rewrite E. cbn [rdo_bind].
  destruct o. eauto. apply IHcands; auto. intros; apply H; simpl; auto. Qed.
Print Assumptions rdo_e_lloop_B.

Lemma rdo_e_rloop_B : forall st q left cands, (1 <= length st)%nat -> (forall l, In l cands -> rdo_e_sibB st q l) ->
  exists o, rdo_rloop st (Some q) left cands = RdoOk o /\ rdo_e_goodB st q o.
Proof. intros st q left. induction cands; intros LN H. exists None. split; auto. intros c E; discriminate.
  cbn [rdo_rloop]. destruct (rdo_e_sibB_trace st q a LN (H _ (or_introl eq_refl))) as (o & E & Go). rewrite E. cbn [rdo_bind].
  assert (IH: exists o, rdo_rloop st (Some q) left cands = RdoOk o /\ rdo_e_goodB st q o) by (apply IHcands; auto; intros; apply H; simpl; auto).
  destruct o; auto. destruct (negb (rdo_on_eqb (Some n) left)); eauto. Qed.
Print Assumptions rdo_e_rloop_B.

Lemma rdo_e_integrate_seq_gen : forall t x l r, rdo_sub x = None ->
  rdo_neighbour_ok (rdo_st t) x l = true -> rdo_neighbour_ok (rdo_st t) x r = true ->
  (forall l', rdo_parent_deleted (rdo_link (rdo_st t) l' x) (rdo_par x) = false) ->
  exists l', rdo_integrate t x l r = RdoOk {| rdo_st := rdo_link (rdo_st t) l' x; rdo_next := rdo_next t; rdo_tins := rdo_tins t ++ [rdo_id x]; rdo_tdel := rdo_tdel t |}.
Proof. intros. unfold rdo_integrate. rewrite H0, H1. cbn [andb negb]. rewrite H.
  match goal with |- context [rdo_link (rdo_st t) ?L x] => exists L end.
  match goal with |- context [rdo_right ?S ?I] => destruct (rdo_right S I) end; cbn [rdo_bind rdo_st rdo_is_some andb orb]; rewrite H2; reflexivity. Qed.
Print Assumptions rdo_e_integrate_seq_gen.

Lemma rdo_e_goodB_upd : forall st q o i n, rdo_e_goodB st q o ->
  forall x, rdo_par x = RdoItem q -> rdo_sub x = None ->
  rdo_neighbour_ok (rdo_update st i (fun y => rdo_set_red y n)) x o = true.
Proof. intros. destruct o as [c|]; simpl; auto. destruct (H c eq_refl) as (z & G & P & S).
  destruct (rdo_a_get_update_red st i n c z G) as (z' & G' & P' & S'). rewrite G'. unfold rdo_in_chain. rewrite P', S', P, S, H0, H1.
  rewrite rdo_a_par_eqb_refl. auto. Qed.
Print Assumptions rdo_e_goodB_upd.

Lemma rdo_e_tail_seqB : forall t item i p q td s1 s2 yq,
  rdo_get (rdo_st t) i = Some item -> rdo_sub item = None ->
  (forall y, In y (rdo_st t) -> rdo_id y < rdo_next t) ->
  rdo_get (rdo_st t) q = Some yq -> rdo_del yq = false ->
  (forall l, In l (rdo_lefts (rdo_st t) i ++ i :: rdo_rights (rdo_st t) i) -> rdo_e_sibB (rdo_st t) q l) ->
  exists l' lo ro, rdo_a_tail t item i (Some q) (RdoItem p) (RdoItem q) td s1 s2 =
    RdoOk ({| rdo_st := rdo_link (rdo_update (rdo_st t) i (fun y => rdo_set_red y (rdo_next t))) l'
                          (rdo_e_newk (rdo_next t) (RdoItem q) item lo ro);
              rdo_next := rdo_next t + 1; rdo_tins := rdo_tins t ++ [rdo_next t]; rdo_tdel := rdo_tdel t |}, Some (rdo_next t)).
Proof. intros t item i p q td s1 s2 yq Gi SUB LT Gq Dq SIB.
  assert (LN: (1 <= length (rdo_st t))%nat). { destruct (rdo_st t); simpl in *. discriminate. lia. }
  destruct (rdo_e_lloop_B (rdo_st t) q (rdo_lefts (rdo_st t) i) LN) as (lo & EL & GL). { intros; apply SIB; apply in_or_app; auto. }
  destruct (rdo_e_rloop_B (rdo_st t) q lo (i :: rdo_rights (rdo_st t) i) LN) as (ro & ER & GR). { intros; apply SIB; apply in_or_app; auto. }
  unfold rdo_a_tail, rdo_a_lr, rdo_e_newk. rewrite SUB. cbv zeta. rewrite EL. cbn [rdo_bind]. rewrite ER. cbn [rdo_bind].
  match goal with |- context [rdo_integrate ?T ?X ?L ?R] => destruct (rdo_e_integrate_seq_gen T X L R) as (l' & EI) end.
  - reflexivity.
  - cbn [rdo_st]. apply (rdo_e_goodB_upd (rdo_st t) q lo); auto.
  - cbn [rdo_st]. apply (rdo_e_goodB_upd (rdo_st t) q ro); auto.
  - intros l'. cbn [rdo_st rdo_par]. apply rdo_e_pdel_link.
    + simpl rdo_id. rewrite rdo_a_ids_update; auto. intro K. apply in_map_iff in K. destruct K as (y & Ey & Iy). apply LT in Iy. lia.
    + reflexivity.
    + rewrite rdo_e_pdel_set_red. simpl. rewrite Gq. auto.
  - exists l', lo, ro. rewrite EI. cbn [rdo_bind]. reflexivity.
Qed.
Print Assumptions rdo_e_tail_seqB.

Lemma rdo_e_tail_mapB : forall t item i p q k td s1 s2 yq,
  rdo_get (rdo_st t) i = Some item -> rdo_sub item = Some k -> p <> q ->
  (forall y, In y (rdo_st t) -> rdo_id y < rdo_next t) ->
  rdo_get (rdo_st t) q = Some yq -> rdo_del yq = false ->
  rdo_chain (rdo_st t) (RdoItem q) (Some k) = [] ->
  rdo_a_tail t item i (Some q) (RdoItem p) (RdoItem q) td s1 s2 =
    RdoOk ({| rdo_st := rdo_link (rdo_update (rdo_st t) i (fun y => rdo_set_red y (rdo_next t))) None
                          (rdo_e_newk (rdo_next t) (RdoItem q) item None None);
              rdo_next := rdo_next t + 1; rdo_tins := rdo_tins t ++ [rdo_next t]; rdo_tdel := rdo_tdel t |}, Some (rdo_next t)).
Proof. intros t item i p q k td s1 s2 yq Gi SUB NE LT Gq Dq CH.
  set (nid := rdo_next t). set (st2 := rdo_update (rdo_st t) i (fun y => rdo_set_red y nid)).
  assert (CH2: rdo_chain st2 (RdoItem q) (Some k) = []).
  { assert (R0: Forall2 rdo_a_R0 (rdo_st t) st2). { apply rdo_a_update_R0. intros y; unfold rdo_a_R0; simpl; auto. }
    pose proof (rdo_a_chain_ids_R0 _ _ R0 (RdoItem q) (Some k)) as CI. rewrite CH in CI. simpl in CI.
    destruct (rdo_chain st2 (RdoItem q) (Some k)); auto. discriminate. }
  assert (FR: ~ In nid (map rdo_id st2)).
  { unfold st2. rewrite rdo_a_ids_update; auto. intro K. apply in_map_iff in K. destruct K as (y & Ey & Iy). apply LT in Iy. fold nid in Iy. lia. }
  unfold rdo_a_tail, rdo_a_lr, rdo_e_newk. rewrite SUB. cbv zeta.
  assert (rdo_par_eqb (RdoItem p) (RdoItem q) = false) as PE by (simpl; apply N.eqb_neq; auto). rewrite PE. cbn [andb].
  assert (rdo_map_get (rdo_st t) (RdoItem q) k = None) as MG by (unfold rdo_map_get; rewrite CH; reflexivity). rewrite MG.
  cbn [rdo_bind]. fold nid. fold st2.
  unfold rdo_integrate. cbn [rdo_st rdo_neighbour_ok andb negb rdo_detect_conflict].
  unfold rdo_resolve_conflict. cbn [rdo_par rdo_sub]. rewrite CH2. cbn [rdo_scan rdo_link rdo_id].
  assert (RR: rdo_right ({| rdo_id := nid; rdo_par := RdoItem q; rdo_sub := Some k; rdo_cnt := rdo_cnt item; rdo_del := false;
                            rdo_keep := true; rdo_red := None; rdo_org := None; rdo_rorg := None |} :: st2) nid = None).
  { unfold rdo_right, rdo_rights. simpl rdo_split. rewrite N.eqb_refl. simpl. fold (rdo_chain st2 (RdoItem q) (Some k)). rewrite CH2. auto. }
  rewrite RR. cbn [rdo_bind rdo_st rdo_par rdo_sub rdo_is_some andb]. rewrite orb_false_r.
  assert (PD: rdo_parent_deleted ({| rdo_id := nid; rdo_par := RdoItem q; rdo_sub := Some k; rdo_cnt := rdo_cnt item; rdo_del := false;
                            rdo_keep := true; rdo_red := None; rdo_org := None; rdo_rorg := None |} :: st2) (RdoItem q) = false).
  { apply (rdo_e_pdel_link st2 None); auto. unfold st2. rewrite rdo_e_pdel_set_red. simpl. rewrite Gq; auto. }
  rewrite PD. reflexivity.
Qed.
Print Assumptions rdo_e_tail_mapB.

Lemma rdo_e_redo_B : forall f t i item p pit q yq kk ri td s1 s2,
  rdo_get (rdo_st t) i = Some item -> rdo_red item = None -> rdo_par item = RdoItem p ->
  rdo_get (rdo_st t) p = Some pit -> rdo_del pit = true -> rdo_red pit = Some q ->
  rdo_get (rdo_st t) q = Some yq -> rdo_red yq = None -> rdo_cnt yq = RdoType kk ->
  rdo_redo (S f) t i ri td s1 s2 = rdo_a_tail t item i (Some q) (RdoItem p) (RdoItem q) td s1 s2.
Proof. intros f t i item p pit q yq kk ri td s1 s2 G RED P Gp Dp Rp Gq Rq Cq.
  cbn [rdo_redo]. rewrite G, RED, P. cbn [rdo_par_item]. rewrite Gp, Dp, Rp. cbn [rdo_is_some rdo_bind negb]. rewrite Gp, Rp.
  cbn [rdo_chase]. rewrite Gq, Rq.
  assert (CH: rdo_chase (length (rdo_st t)) (rdo_st t) (Some q) None = RdoOk (Some q)) by (destruct (length (rdo_st t)); reflexivity).
  rewrite CH. cbn [rdo_bind]. rewrite Gq, Cq. cbn [rdo_bind]. reflexivity.
Qed.
Print Assumptions rdo_e_redo_B.

Lemma rdo_e_idx_inj : forall l a b, In a l -> In b l -> rdo_e_idx a l = rdo_e_idx b l -> a = b.
Proof. induction l; intros a0 b Ia Ib E. destruct Ia. cbn [rdo_e_idx] in E. simpl in Ia, Ib.
  destruct (a =? a0) eqn:E1, (a =? b) eqn:E2.
  - apply N.eqb_eq in E1. apply N.eqb_eq in E2. congruence.
  - lia.
  - lia.
  - apply IHl. destruct Ia; auto. subst. rewrite N.eqb_refl in E1. discriminate.
    destruct Ib; auto. subst. rewrite N.eqb_refl in E2. discriminate. lia. Qed.
Print Assumptions rdo_e_idx_inj.

Lemma rdo_e_step_B : forall st0 n0 done dk t i x p xp f ri td s1 s2,
  rdo_e_inv st0 n0 done dk t -> rdo_i_wfp st0 n0 = true ->
  rdo_get st0 i = Some x -> rdo_red x = None -> ~ In i done -> rdo_par x = RdoItem p -> In p done ->
  rdo_get st0 p = Some xp -> rdo_del xp = true ->
  (forall j xj, In j done -> rdo_get st0 j = Some xj -> rdo_par xj <> RdoItem i) ->
  (forall y, In y st0 -> rdo_par y = RdoItem p -> rdo_red y = None) ->
  (forall k, rdo_sub x = Some k -> forall j xj, In j done -> rdo_get st0 j = Some xj -> ~ (rdo_par xj = rdo_par x /\ rdo_sub xj = Some k)) ->
  exists t', rdo_redo (S f) t i ri td s1 s2 = RdoOk (t', Some (rdo_next t)) /\ rdo_e_inv st0 n0 (done ++ [i]) dk t'.
Proof. intros st0 n0 done dk t i x p xp f ri td s1 s2 V W G RED NI PX IPD GP DP NPI C5 UNIQ.
  pose proof (rdo_e_wfp_nodup _ _ W) as ND0. destruct (rdo_a_get_in _ _ _ G) as (Ix & Ex).
  destruct (rdo_e_wfp_item _ _ W _ Ix) as (LI & WP). rewrite Ex in LI. destruct (WP p PX) as (Lp & yp & kk & Gyp & Cyp).
  rewrite GP in Gyp. inversion Gyp; subst yp. rewrite Ex in Lp. assert (LP: p < n0) by lia.
  set (q := rdo_e_cp n0 done p). pose proof (rdo_e_cp_lt n0 done p IPD) as QB. fold q in QB.
  assert (MPP: rdo_e_mpar n0 done (RdoItem p) = RdoItem q). { unfold rdo_e_mpar. apply rdo_e_mem_in in IPD. rewrite IPD. auto. }
  assert (NEWP: forall j xj, In j done -> rdo_get st0 j = Some xj -> rdo_e_mpar n0 done (rdo_par xj) = RdoItem q -> rdo_par xj = RdoItem p).
  { intros j xj Ij Gj MP. destruct (rdo_a_get_in _ _ _ Gj) as (Ixj & Exj). destruct (rdo_e_wfp_item _ _ W _ Ixj) as (Lj & WPj).
    unfold rdo_e_mpar in MP. destruct (rdo_par xj) eqn:Pj; try discriminate. destruct (rdo_mem id done) eqn:M.
    - inversion MP. unfold q, rdo_e_cp in H0. apply rdo_e_mem_in in M. f_equal. apply (rdo_e_idx_inj done); auto. lia.
    - inversion MP. destruct (WPj id eq_refl). lia. }
  assert (NEWN: forall j xj, In j done -> rdo_get st0 j = Some xj -> rdo_e_mpar n0 done (rdo_par xj) <> RdoItem p).
  { intros j xj Ij Gj MP. unfold rdo_e_mpar in MP. destruct (rdo_par xj) eqn:Pj; try discriminate. destruct (rdo_mem id done) eqn:M.
    - inversion MP. apply rdo_e_mem_in in M. pose proof (rdo_e_cp_lt n0 done id M). lia.
    - inversion MP. subst id. apply rdo_e_mem_in in IPD. congruence. }
  pose proof (rdo_e_inv_get_old _ _ _ _ _ i V LI) as Gi. rewrite G in Gi. simpl in Gi. set (item := rdo_e_oldk n0 done dk x) in *.
  assert (REDi: rdo_red item = None). { simpl. apply rdo_e_mem_nin in NI. rewrite Ex, NI. auto. }
  pose proof (rdo_e_inv_get_old _ _ _ _ _ p V LP) as Gp. rewrite GP in Gp. simpl in Gp. set (pit := rdo_e_oldk n0 done dk xp) in *.
  destruct (rdo_a_get_in _ _ _ GP) as (Ixp & Exp).
  assert (Rp: rdo_red pit = Some q). { simpl. rewrite Exp. apply rdo_e_mem_in in IPD. rewrite IPD. auto. }
  assert (Dp: rdo_del pit = true). { simpl. rewrite DP. auto. }
  destruct (rdo_e_v_new _ _ _ _ _ V _ IPD) as (xp' & lq & rq & GP' & Gq). rewrite GP in GP'. inversion GP'; subst xp'. fold q in Gq.
  set (yq := rdo_e_newk q (rdo_e_mpar n0 done (rdo_par xp)) xp lq rq) in *.
  rewrite (rdo_e_redo_B f t i item p pit q yq kk ri td s1 s2 Gi REDi PX Gp Dp Rp Gq eq_refl Cyp).
  assert (MP2: rdo_e_mpar n0 (done ++ [i]) (rdo_par x) = RdoItem q).
  { rewrite PX. unfold rdo_e_mpar. rewrite rdo_e_mem_app. apply rdo_e_mem_in in IPD. rewrite IPD. simpl. apply rdo_e_mem_in in IPD.
    rewrite rdo_e_cp_app_l; auto. }
  assert (LT: forall y, In y (rdo_st t) -> rdo_id y < rdo_next t) by (intros; eapply rdo_e_inv_fresh; eauto).
  destruct (rdo_sub x) as [k|] eqn:SUB.
  - assert (CH: rdo_chain (rdo_st t) (RdoItem q) (Some k) = []).
    { destruct (rdo_chain (rdo_st t) (RdoItem q) (Some k)) as [|y rest] eqn:CE; auto. exfalso.
      assert (In y (rdo_chain (rdo_st t) (RdoItem q) (Some k))) as K by (rewrite CE; simpl; auto).
      apply rdo_a_chain_in in K. destruct K as (Iy & Py & Sy).
      destruct (rdo_e_inv_item _ _ _ _ _ _ V Iy) as [(x1 & I1 & E1)|(j & x1 & l & r & Ij & Gj & E1)]; subst y; simpl in *.
      - destruct (rdo_e_wfp_item _ _ W _ I1) as (L1 & WP1). destruct (WP1 _ Py). lia.
      - apply (UNIQ k eq_refl j x1 Ij Gj). split; auto. rewrite PX. apply (NEWP j x1); auto. }
    rewrite (rdo_e_tail_mapB t item i p q k td s1 s2 yq Gi SUB); auto. 2: lia.
    eexists. split. reflexivity.
    pose proof (rdo_e_inv_link st0 n0 done dk t i x None None None V ND0 G NI LI NPI) as V1. rewrite MP2 in V1. exact V1.
  - destruct (rdo_e_get_split _ _ _ Gi) as (a & b & ST & NIa & Ei).
    assert (NIa': ~ In (rdo_id item) (map rdo_id a)) by (rewrite Ei; auto).
    destruct (rdo_e_lr_app a item b NIa') as (LF & RT). rewrite <- ST, Ei in LF, RT.
    set (g := rdo_in_chain (rdo_par item) (rdo_sub item)) in *.
    assert (SIBY: forall y, In y (rdo_st t) -> g y = true -> rdo_e_sibB (rdo_st t) q (rdo_id y)).
    { intros y Iy Gy. apply rdo_e_in_chain_eq in Gy. destruct Gy as (Py & Sy). simpl in Py, Sy. rewrite PX in Py. rewrite SUB in Sy.
      exists y. split. apply rdo_a_in_get; auto. apply V. split. rewrite Py. simpl. intro K. inversion K. lia.
      destruct (rdo_e_inv_item _ _ _ _ _ _ V Iy) as [(x1 & I1 & E1)|(j & x1 & l & r & Ij & Gj & E1)]; subst y; simpl in *.
      - pose proof (C5 _ I1 Py) as R1. rewrite R1. destruct (rdo_mem (rdo_id x1) done) eqn:M; auto. right. apply rdo_e_mem_in in M.
        destruct (rdo_e_v_new _ _ _ _ _ V _ M) as (x1' & l & r & G1 & G1').
        rewrite (rdo_a_in_get _ _ ND0 I1) in G1. inversion G1; subst x1'.
        eexists. eexists. split. reflexivity. split. exact G1'. unfold rdo_e_newk. cbn [rdo_par rdo_sub]. rewrite Py. split; [exact MPP|exact Sy].
      - exfalso. apply (NEWN j x1 Ij Gj); auto. }
    destruct (rdo_e_tail_seqB t item i p q td s1 s2 yq Gi SUB LT Gq eq_refl) as (l' & lo & ro & ET).
    { intros l Il. apply in_app_or in Il. destruct Il as [Il|[Il|Il]].
      - rewrite LF in Il. apply in_map_iff in Il. destruct Il as (y & Ey & Iy). apply filter_In in Iy. destruct Iy as (Iy & Gy). apply in_rev in Iy.
        subst l. apply SIBY; auto. rewrite ST. apply in_or_app; auto.
      - subst l. exists item. split; auto. split. change (rdo_par item) with (rdo_par x). rewrite PX. simpl. intro K. inversion K. lia. left; auto.
      - rewrite RT in Il. apply in_map_iff in Il. destruct Il as (y & Ey & Iy). apply filter_In in Iy. destruct Iy as (Iy & Gy).
        subst l. apply SIBY; auto. rewrite ST. apply in_or_app; simpl; auto. }
    rewrite ET. eexists. split. reflexivity.
    pose proof (rdo_e_inv_link st0 n0 done dk t i x l' lo ro V ND0 G NI LI NPI) as V1. rewrite MP2 in V1. exact V1.
Qed.
Print Assumptions rdo_e_step_B.

(* ============================================================================================== *)
(* Lemma P (render of the result = virtual render of the flipped store) for entries that re-create nothing *)
Definition rdo_e_ff (I D : list N) (x : rdo_item) : rdo_item :=
  if rdo_mem (rdo_id x) I then rdo_set_del x else if rdo_mem (rdo_id x) D then rdo_set_live x else x.
Lemma rdo_e_flip_map : forall st I D, rdo_i_flip st I D = map (rdo_e_ff I D) st.
Proof. reflexivity. Qed.
Print Assumptions rdo_e_flip_map.
Lemma rdo_e_ff_keep : forall I D x, rdo_id (rdo_e_ff I D x) = rdo_id x /\ rdo_par (rdo_e_ff I D x) = rdo_par x /\
  rdo_sub (rdo_e_ff I D x) = rdo_sub x /\ rdo_cnt (rdo_e_ff I D x) = rdo_cnt x.
Proof. intros. unfold rdo_e_ff. destruct (rdo_mem (rdo_id x) I); [|destruct (rdo_mem (rdo_id x) D)]; simpl; auto. Qed.
Print Assumptions rdo_e_ff_keep.

Lemma rdo_e_flip_wf : forall st n I D, rdo_d_wf st n -> rdo_d_wf (rdo_i_flip st I D) n.
Proof. intros st n I D (ND & WF). rewrite rdo_e_flip_map. split.
  - rewrite map_map. rewrite (map_ext _ rdo_id); auto. intros; apply rdo_e_ff_keep.
  - intros x' Ix'. apply in_map_iff in Ix'. destruct Ix' as (x & E & Ix). subst x'. destruct (rdo_e_ff_keep I D x) as (E1 & E2 & E3 & E4).
    rewrite E1, E2. destruct (WF _ Ix) as (L & P). split; auto. destruct (rdo_par x); auto. destruct P as (Lp & y & k & Gy & Cy).
    split; auto. exists (rdo_e_ff I D y), k. rewrite rdo_e_get_map, Gy. split; auto. destruct (rdo_e_ff_keep I D y) as (_ & _ & _ & C). congruence.
    intros; apply rdo_e_ff_keep. Qed.
Print Assumptions rdo_e_flip_wf.

Lemma rdo_e_chain_map : forall (F : rdo_item -> rdo_item) l P S, (forall x, rdo_par (F x) = rdo_par x /\ rdo_sub (F x) = rdo_sub x) ->
  rdo_chain (map F l) P S = map F (rdo_chain l P S).
Proof. intros. unfold rdo_chain. induction l; simpl; auto.
  assert (rdo_in_chain P S (F a) = rdo_in_chain P S a) as E by (unfold rdo_in_chain; destruct (H a) as (E1 & E2); rewrite E1, E2; auto).
  rewrite E. destruct (rdo_in_chain P S a); simpl; rewrite IHl; auto. Qed.
Print Assumptions rdo_e_chain_map.

Lemma rdo_e_flip_lastlive : forall st I D, rdo_d_lastlive_p st ->
  (forall x, In x st -> rdo_del x = true -> rdo_del (rdo_e_ff I D x) = true) -> rdo_d_lastlive_p (rdo_i_flip st I D).
Proof. intros st I D LL REV b' x' a' k E SUB. rewrite rdo_e_flip_map in E.
  destruct (rdo_e_map_split _ _ _ _ _ _ _ E) as (b & x & a & ES & M1 & Fx & M2). subst x' a'.
  destruct (rdo_e_ff_keep I D x) as (E1 & E2 & E3 & E4). rewrite E2, E3. rewrite E3 in SUB.
  destruct (LL b x a k ES SUB) as [Dx|CH].
  - left. apply REV; auto. rewrite ES. apply in_or_app; simpl; auto.
  - right. rewrite rdo_e_chain_map, CH; auto. intros y. destruct (rdo_e_ff_keep I D y) as (_ & A & B & _). auto. Qed.
Print Assumptions rdo_e_flip_lastlive.

Definition rdo_e_cls0 (st : list rdo_item) (I D : list N) : bool :=
  match rdo_i_redo st I D with [] => true | _ :: _ => false end.

Theorem rdo_e_lemma_P_del_partial : forall s e s1 s2,
  rdo_i_pc (rdo_doc s) (rdo_clock s) (rdo_scope s) (rdo_sins e) (rdo_sdel e) = true ->
  rdo_e_cls0 (rdo_doc s) (rdo_sins e) (rdo_sdel e) = true ->
  exists t ch, rdo_process s e s1 s2 = RdoOk (t, ch) /\
    forall root, rdo_render_root (rdo_st t) root = rdo_i_render_root (rdo_i_flip (rdo_doc s) (rdo_sins e) (rdo_sdel e)) root.
Proof. intros s e s1 s2 PC CLS.
  assert (HR: rdo_i_redo (rdo_doc s) (rdo_sins e) (rdo_sdel e) = []).
  { unfold rdo_e_cls0 in CLS. destruct (rdo_i_redo (rdo_doc s) (rdo_sins e) (rdo_sdel e)); auto. discriminate. }
  destruct (rdo_e_process_del_partial s e s1 s2 PC HR) as (t & E & ST & _). exists t. eexists. split. exact E.
  intros root. rewrite ST. symmetry. apply rdo_e_pc_unpack in PC.
  pose proof (rdo_e_p_wf _ _ _ _ _ PC) as W. pose proof (rdo_e_wfp_nodup _ _ W) as ND0.
  apply (rdo_d_render_virtual _ (rdo_clock s)).
  - apply rdo_d_wfp_spec. apply rdo_e_flip_wf. apply rdo_d_wfp_spec; auto.
  - assert (NDb: rdo_i_nodup (map rdo_id (rdo_doc s)) = true) by (eapply rdo_d_wfp_nodup; eauto).
    apply rdo_d_lastlive_spec.
    + rewrite rdo_e_flip_map, map_map. rewrite (map_ext _ rdo_id); auto. intros; apply rdo_e_ff_keep.
    + apply rdo_e_flip_lastlive. apply rdo_d_lastlive_spec; auto. apply PC.
      intros x Ix Dx. unfold rdo_e_ff. destruct (rdo_mem (rdo_id x) (rdo_sins e)) eqn:MI; auto.
      destruct (rdo_mem (rdo_id x) (rdo_sdel e)) eqn:MD; auto. exfalso.
      assert (In (rdo_id x) (rdo_i_redo (rdo_doc s) (rdo_sins e) (rdo_sdel e))) as K.
      { unfold rdo_i_redo. apply filter_In. split. apply rdo_e_mem_in; auto. rewrite (rdo_a_in_get _ _ ND0 Ix). simpl. rewrite MI. auto. }
      rewrite HR in K. destruct K.
Qed.
Print Assumptions rdo_e_lemma_P_del_partial.

(* ============================================================================================== *)
(* Lemma Q (the reverse entry satisfies rdo_i_pc again) does NOT follow from rdo_i_pc alone: a dead child, re-created earlier
   (rdo_red = Some _), of a live inserted container violates c5 of the reverse entry.  Intended statement (= rdo_f_lemma_Q):
     forall s e s1 s2 t, rdo_i_pc (rdo_doc s) (rdo_clock s) (rdo_scope s) (rdo_sins e) (rdo_sdel e) = true ->
       rdo_process s e s1 s2 = RdoOk (t, true) -> let s' := rdo_after_txn s t RdoUndoing in
       exists e', rdo_rs s' = e' :: rdo_rs s /\ rdo_i_pc (rdo_doc s') (rdo_clock s') (rdo_scope s') (rdo_sins e') (rdo_sdel e') = true /\ ...
   It needs an additional hypothesis, e.g. "no item of the store has a redone pointer" (true after capture steps only). *)
Definition rdo_e_q_x : rdo_item := {| rdo_id := 0; rdo_par := RdoRoot 0; rdo_sub := None; rdo_cnt := RdoType 0; rdo_del := false;
                                      rdo_keep := false; rdo_red := None; rdo_org := None; rdo_rorg := None |}.
Definition rdo_e_q_y : rdo_item := {| rdo_id := 1; rdo_par := RdoItem 0; rdo_sub := None; rdo_cnt := RdoVal 5; rdo_del := true;
                                      rdo_keep := false; rdo_red := Some 7; rdo_org := None; rdo_rorg := None |}.
Definition rdo_e_q_s : rdo_state := {| rdo_doc := [rdo_e_q_x; rdo_e_q_y]; rdo_clock := 2; rdo_scope := [0]; rdo_us := []; rdo_rs := []; rdo_ext := false |}.
Definition rdo_e_q_e : rdo_sitem := {| rdo_sins := [0]; rdo_sdel := [] |}.
Definition rdo_e_q_t : rdo_txn := match rdo_process rdo_e_q_s rdo_e_q_e [] [] with RdoOk (t, _) => t | RdoErr _ => rdo_begin rdo_e_q_s end.

Theorem rdo_e_lemma_Q_refuted :
  exists s e s1 s2 t, rdo_i_pc (rdo_doc s) (rdo_clock s) (rdo_scope s) (rdo_sins e) (rdo_sdel e) = true /\
    rdo_process s e s1 s2 = RdoOk (t, true) /\
    forall e', rdo_rs (rdo_after_txn s t RdoUndoing) = e' :: rdo_rs s ->
      rdo_i_pc (rdo_doc (rdo_after_txn s t RdoUndoing)) (rdo_clock (rdo_after_txn s t RdoUndoing)) (rdo_scope (rdo_after_txn s t RdoUndoing))
               (rdo_sins e') (rdo_sdel e') = false.
Proof. exists rdo_e_q_s, rdo_e_q_e, [], [], rdo_e_q_t. split. vm_compute; reflexivity. split. vm_compute; reflexivity.
  intros e' E. vm_compute in E. inversion E; subst e'. vm_compute. reflexivity. Qed.
Print Assumptions rdo_e_lemma_Q_refuted.

(* ============================================================================================== *)
(* the general fold: re-created parents, D ascending *)
Lemma rdo_e_idx_mono : forall l a b, StronglySorted N.lt l -> In a l -> In b l -> a < b -> rdo_e_idx a l < rdo_e_idx b l.
Proof. induction l; intros a0 b SS Ia Ib L. destruct Ia. inversion SS; subst. rewrite Forall_forall in H2. cbn [rdo_e_idx].
  destruct (a =? a0) eqn:E1, (a =? b) eqn:E2.
  - apply N.eqb_eq in E1. apply N.eqb_eq in E2. lia.
  - lia.
  - exfalso. apply N.eqb_eq in E2. subst b. destruct Ia as [K|K]. apply N.eqb_neq in E1; auto. apply H2 in K. lia.
  - assert (rdo_e_idx a0 l < rdo_e_idx b l). { apply IHl; auto. destruct Ia; auto. subst. rewrite N.eqb_refl in E1; discriminate.
      destruct Ib; auto. subst. rewrite N.eqb_refl in E2; discriminate. }
    lia. Qed.
Print Assumptions rdo_e_idx_mono.

Lemma rdo_e_ss_app : forall (l m : list N), StronglySorted N.lt (l ++ m) ->
  StronglySorted N.lt l /\ StronglySorted N.lt m /\ forall a b, In a l -> In b m -> a < b.
Proof. induction l; simpl; intros. repeat split; auto. constructor. intros a b [].
  inversion H; subst. destruct (IHl _ H2) as (A & B & C). rewrite Forall_forall in H3. repeat split; auto.
  - constructor; auto. apply Forall_forall. intros x Ix. apply H3. apply in_or_app; auto.
  - intros a0 b [E|Ia] Ib. subst. apply H3. apply in_or_app; auto. apply C; auto. Qed.
Print Assumptions rdo_e_ss_app.

Lemma rdo_e_ss_filter : forall (g : N -> bool) l, StronglySorted N.lt l -> StronglySorted N.lt (filter g l).
Proof. induction l; simpl; intros; auto. inversion H; subst. destruct (g a); auto. constructor; auto.
  rewrite Forall_forall in *. intros x Ix. apply filter_In in Ix. apply H3. tauto. Qed.
Print Assumptions rdo_e_ss_filter.

Lemma rdo_e_ss_nodup : forall l, StronglySorted N.lt l -> NoDup l.
Proof. induction l; intros; constructor; inversion H; subst; auto. rewrite Forall_forall in H3. intro K. apply H3 in K. lia. Qed.
Print Assumptions rdo_e_ss_nodup.

(* the parents of the copies: not in I and older than the copy *)
Definition rdo_e_mpok (st0 : list rdo_item) (n0 : N) (I done : list N) : Prop :=
  forall j xj q, In j done -> rdo_get st0 j = Some xj -> rdo_e_mpar n0 done (rdo_par xj) = RdoItem q ->
    ~ In q I /\ q < rdo_e_cp n0 done j.

Lemma rdo_e_mp_gen : forall st0 n0 I done, rdo_i_wfp st0 n0 = true -> StronglySorted N.lt done ->
  (forall j, In j I -> exists y, rdo_get st0 j = Some y) ->
  (forall j xj p, In j done -> rdo_get st0 j = Some xj -> rdo_par xj = RdoItem p -> In p done \/ ~ In p I) ->
  rdo_e_mpok st0 n0 I done.
Proof. intros st0 n0 I done W SS IP PAR j xj q Ij Gj MP.
  destruct (rdo_a_get_in _ _ _ Gj) as (Ixj & Exj). destruct (rdo_e_wfp_item _ _ W _ Ixj) as (Lj & WPj). rewrite Exj in Lj.
  pose proof (rdo_e_cp_lt n0 done j Ij) as CJ.
  unfold rdo_e_mpar in MP. destruct (rdo_par xj) eqn:Pj; try discriminate. destruct (WPj id eq_refl) as (Lp & _). rewrite Exj in Lp.
  destruct (rdo_mem id done) eqn:M.
  - inversion MP; subst q. apply rdo_e_mem_in in M. pose proof (rdo_e_cp_lt n0 done id M) as CP. split.
    + intro K. destruct (IP _ K) as (y & Gy). destruct (rdo_a_get_in _ _ _ Gy) as (Iy & Ey). pose proof (rdo_e_wfp_item _ _ W _ Iy). lia.
    + unfold rdo_e_cp. pose proof (rdo_e_idx_mono done id j SS M Ij Lp). lia.
  - inversion MP; subst q. split. destruct (PAR j xj id Ij Gj Pj) as [K|K]; auto. apply rdo_e_mem_in in K. congruence. lia. Qed.
Print Assumptions rdo_e_mp_gen.

Lemma rdo_e_inv_gen_props : forall st0 n0 I done dk t, rdo_e_inv st0 n0 done dk t -> rdo_i_wfp st0 n0 = true ->
  (forall y p, In y st0 -> rdo_del y = false -> rdo_par y = RdoItem p -> In p I -> In (rdo_id y) I) ->
  rdo_e_mpok st0 n0 I done ->
  rdo_a_parlt (rdo_st t) /\
  (forall y p, In y (rdo_st t) -> rdo_del y = false -> rdo_par y = RdoItem p -> In p I -> In (rdo_id y) I).
Proof. intros st0 n0 I done dk t V W C2 MP. split.
  - intros y p Iy Py. destruct (rdo_e_inv_item _ _ _ _ _ _ V Iy) as [(x & Ix & Ey)|(j & x & l & r & Ij & Gj & Ey)]; subst y; simpl in *.
    + apply (rdo_e_wfp_item _ _ W _ Ix); auto.
    + apply (MP _ _ _ Ij Gj Py).
  - intros y p Iy Dy Py Ip. destruct (rdo_e_inv_item _ _ _ _ _ _ V Iy) as [(x & Ix & Ey)|(j & x & l & r & Ij & Gj & Ey)]; subst y; simpl in *.
    + apply orb_false_elim in Dy. destruct Dy. apply (C2 x p); auto.
    + exfalso. apply (MP _ _ _ Ij Gj Py); auto.
Qed.
Print Assumptions rdo_e_inv_gen_props.

(* the condition for an item of R in general: as rdo_e_condF, the parent may be in R *)
Definition rdo_e_condG (st0 : list rdo_item) (I Rall : list N) (i : N) : Prop :=
  exists x, rdo_get st0 i = Some x /\ rdo_red x = None /\ rdo_del x = true /\
    match rdo_par x with
    | RdoRoot _ => True
    | RdoItem p => In p Rall \/ (~ In p Rall /\ ~ In p I /\ exists pit kk, rdo_get st0 p = Some pit /\ rdo_del pit = false /\ rdo_cnt pit = RdoType kk)
    end /\
    (forall k, rdo_sub x = Some k ->
       (forall j, In j (rdo_rights st0 i) -> In j I /\ ~ In j Rall /\ exists y, rdo_get st0 j = Some y /\ rdo_red y = None) /\
       (forall j xj, In j Rall -> j <> i -> rdo_get st0 j = Some xj -> ~ (rdo_par xj = rdo_par x /\ rdo_sub xj = Some k))).

Lemma rdo_e_fold_G : forall st0 n0 I ri s1 s2 Rall, rdo_i_wfp st0 n0 = true ->
  (forall y p, In y st0 -> rdo_del y = false -> rdo_par y = RdoItem p -> In p I -> In (rdo_id y) I) ->
  (forall j, In j I -> exists y, rdo_get st0 j = Some y) ->
  (forall i, In i Rall -> rdo_e_condG st0 I Rall i) -> StronglySorted N.lt Rall ->
  (forall y p, In y st0 -> rdo_par y = RdoItem p -> In p Rall -> rdo_red y = None) ->
  forall todo done t c dk, rdo_e_inv st0 n0 done dk t -> done ++ todo = Rall ->
    (forall j, In j dk -> In j I /\ rdo_i_isdel st0 j = false) -> NoDup dk ->
    exists t' dk', fold_left (rdo_e_fredo ri I s1 s2) todo (RdoOk (t, c)) = RdoOk (t', c || rdo_is_some (hd_error todo)) /\
       rdo_e_inv st0 n0 Rall dk' t' /\ (forall j, In j dk' -> In j I /\ rdo_i_isdel st0 j = false) /\ NoDup dk'.
Proof. intros st0 n0 I ri s1 s2 Rall W C2 IP COND SSR C5. pose proof (rdo_e_wfp_nodup _ _ W) as ND0.
  assert (PARR: forall j xj p, In j Rall -> rdo_get st0 j = Some xj -> rdo_par xj = RdoItem p -> In p Rall \/ ~ In p I).
  { intros j xj p Ij Gj Pj. destruct (COND _ Ij) as (x & G & _ & _ & PAR & _). rewrite Gj in G. inversion G; subst x. rewrite Pj in PAR.
    destruct PAR as [K|(_ & K & _)]; auto. }
  induction todo; intros done t c dk V ER DK NDK.
  - simpl. rewrite app_nil_r in ER. subst done. rewrite orb_false_r. exists t, dk. split; auto.
  - rewrite <- ER in SSR. destruct (rdo_e_ss_app _ _ SSR) as (SSd & SSt & LTdt).
    assert (LTa: forall j, In j done -> j < a) by (intros; apply LTdt; simpl; auto).
    assert (SUBR: forall j, In j (done ++ [a]) -> In j Rall).
    { intros j Ij. rewrite <- ER. apply in_app_or in Ij. apply in_or_app. simpl in *. tauto. }
    assert (NI: ~ In a done) by (intro K; apply LTa in K; lia).
    assert (IA: In a Rall) by (apply SUBR; apply in_or_app; simpl; auto).
    destruct (COND _ IA) as (x & G & RED & DEL & PAR & MAPC).
    destruct (rdo_a_get_in _ _ _ G) as (Ix & Ex). destruct (rdo_e_wfp_item _ _ W _ Ix) as (LI & WP). rewrite Ex in LI.
    assert (NPI: forall j xj, In j done -> rdo_get st0 j = Some xj -> rdo_par xj <> RdoItem a).
    { intros j xj Ij Gj K. destruct (rdo_a_get_in _ _ _ Gj) as (Ixj & Exj). destruct (rdo_e_wfp_item _ _ W _ Ixj) as (_ & WPj).
      destruct (WPj a K). apply LTa in Ij. lia. }
    assert (INDONE: forall p, rdo_par x = RdoItem p -> In p Rall -> In p done).
    { intros p Pp Ip. destruct (WP p Pp) as (Lp & _). rewrite Ex in Lp. rewrite <- ER in Ip. apply in_app_or in Ip. destruct Ip as [?|[E|K]]; auto.
      subst; lia. inversion SSt; subst. rewrite Forall_forall in H2. apply H2 in K. lia. }
    assert (MPK: rdo_e_mpok st0 n0 I done).
    { apply rdo_e_mp_gen; auto. intros j xj p Ij Gj Pj. assert (In j Rall) as IjR by (apply SUBR; apply in_or_app; auto).
      destruct (PARR j xj p IjR Gj Pj) as [K|K]; auto. left.
      destruct (rdo_a_get_in _ _ _ Gj) as (Ixj & Exj). destruct (rdo_e_wfp_item _ _ W _ Ixj) as (_ & WPj). destruct (WPj p Pj) as (Lp & _).
      rewrite Exj in Lp. rewrite <- ER in K. apply in_app_or in K. destruct K as [?|K]; auto. apply (LTdt j p) in K; auto. lia. }
    destruct (rdo_e_inv_gen_props _ _ _ _ _ _ V W C2 MPK) as (PLt & CLt).
    assert (UNIQd: forall k, rdo_sub x = Some k -> forall j xj, In j done -> rdo_get st0 j = Some xj -> ~ (rdo_par xj = rdo_par x /\ rdo_sub xj = Some k)).
    { intros k Sk j xj Ij Gj. destruct (MAPC k Sk) as (_ & UNIQ). apply (UNIQ j xj); auto. apply SUBR; apply in_or_app; auto. intro K; subst j; auto. }
    assert (STEP: exists t1 d, rdo_redo (S (length (rdo_st t))) t a ri I s1 s2 = RdoOk (t1, Some (rdo_next t)) /\
              rdo_e_inv st0 n0 (done ++ [a]) (dk ++ d) t1 /\ NoDup d /\ (forall j, In j d -> In j I /\ rdo_i_isdel st0 j = false /\ ~ In j dk)).
    { assert (CASEB: forall p, rdo_par x = RdoItem p -> In p Rall ->
                exists t1 d, rdo_redo (S (length (rdo_st t))) t a ri I s1 s2 = RdoOk (t1, Some (rdo_next t)) /\
                  rdo_e_inv st0 n0 (done ++ [a]) (dk ++ d) t1 /\ NoDup d /\ (forall j, In j d -> In j I /\ rdo_i_isdel st0 j = false /\ ~ In j dk)).
      { intros p Pp Ip. pose proof (INDONE p Pp Ip) as Ipd. destruct (COND _ Ip) as (xp & Gxp & _ & Dxp & _).
        destruct (rdo_e_step_B st0 n0 done dk t a x p xp (length (rdo_st t)) ri I s1 s2 V W G RED NI Pp Ipd Gxp Dxp NPI) as (t1 & E & V1); auto.
        - intros y Iy Py. apply (C5 y p); auto.
        - exists t1, []. rewrite app_nil_r. split; auto. split; auto. split. constructor. intros j []. }
      assert (CASEA: (forall p, rdo_par x = RdoItem p -> ~ In p Rall /\ ~ In p I) ->
                match rdo_par x with RdoRoot _ => True | RdoItem p => exists pit kk, rdo_get st0 p = Some pit /\ rdo_del pit = false /\ rdo_cnt pit = RdoType kk end ->
                exists t1 d, rdo_redo (S (length (rdo_st t))) t a ri I s1 s2 = RdoOk (t1, Some (rdo_next t)) /\
                  rdo_e_inv st0 n0 (done ++ [a]) (dk ++ d) t1 /\ NoDup d /\ (forall j, In j d -> In j I /\ rdo_i_isdel st0 j = false /\ ~ In j dk)).
      { intros PA PARA. assert (PI: forall p, rdo_par x = RdoItem p -> ~ In p (done ++ [a]) /\ ~ In p I).
        { intros p Pp. destruct (PA p Pp) as (A & B). split; auto. }
        destruct (rdo_sub x) as [k|] eqn:SUB.
        - destruct (MAPC k eq_refl) as (C4 & UNIQ).
          apply (rdo_e_step_mapA st0 n0 I done dk t a x k); auto.
          + intros j xj Ij Gj MPj. unfold rdo_e_mpar in MPj. destruct (rdo_par xj) eqn:Pj.
            * auto.
            * destruct (rdo_mem id done) eqn:M; auto. destruct (rdo_par x) eqn:Px; try discriminate. inversion MPj.
              apply rdo_e_mem_in in M. pose proof (rdo_e_cp_lt n0 done id M). destruct (WP id0 eq_refl). lia.
          + intros j Ij. destruct (C4 _ Ij) as (A & B & C). split; auto. split; auto. intro K. apply B. apply SUBR. apply in_or_app; auto.
          + intros j xj Ij Gj. apply (UNIQd k eq_refl j xj); auto.
          + intros j Ij. apply DK; auto.
        - destruct (rdo_e_step_seqA st0 n0 done dk t a V ND0) as (t1 & E & V1); auto.
          + exists x. repeat (split; auto). destruct (rdo_par x) eqn:P; auto. destruct PARA as (pit & kk & Gp & Dp & Cp).
            exists pit, kk. repeat (split; auto). intro K. apply DK in K. destruct (PA id eq_refl) as (_ & B). tauto.
            destruct (WP id eq_refl). lia.
          + intros p x0 G0 P0. rewrite G in G0. inversion G0; subst x0. apply (PI p); auto.
          + exists t1, []. rewrite app_nil_r. split; auto. split; auto. split. constructor. intros j []. }
      destruct (rdo_par x) eqn:P.
      - apply CASEA; auto. intros p Pp; discriminate.
      - destruct PAR as [K|(K1 & K2 & K3)].
        + apply (CASEB id); auto.
        + apply CASEA; auto. intros p Pp. inversion Pp; subst; auto. }
    destruct STEP as (t1 & d & E & V1 & NDd & DL).
    cbn [fold_left]. unfold rdo_e_fredo at 2. cbn [rdo_bind]. rewrite E. cbn [rdo_bind rdo_is_some].
    rewrite ER in SSR.
    destruct (IHtodo (done ++ [a]) t1 (c || true) (dk ++ d) V1) as (t' & dk' & E' & V' & DK' & NDK').
    + rewrite <- app_assoc. simpl. auto.
    + intros j Ij. apply in_app_or in Ij. destruct Ij as [Ij|Ij]; auto. destruct (DL _ Ij) as (A & B & _); auto.
    + apply rdo_e_nodup_app; auto. intros j Ij. apply DL; auto.
    + exists t', dk'. rewrite E'. split; auto. f_equal. f_equal. simpl. rewrite orb_true_r. auto.
Qed.
Print Assumptions rdo_e_fold_G.

(* E1 (r1, r2, r4, r6; no failure value) in general: re-created parents included; the deletions of the entry ascending
   (stack entries are built by rdo_sort) *)
Theorem rdo_e_process_ok_partial : forall s e s1 s2,
  rdo_i_pc (rdo_doc s) (rdo_clock s) (rdo_scope s) (rdo_sins e) (rdo_sdel e) = true -> StronglySorted N.lt (rdo_sdel e) ->
  exists t, rdo_process s e s1 s2 =
              RdoOk (t, rdo_is_some (hd_error (rdo_i_redo (rdo_doc s) (rdo_sins e) (rdo_sdel e))) ||
                        rdo_is_some (hd_error (rdo_e_liveI (rdo_doc s) (rdo_sins e)))) /\
            rdo_e_result (rdo_doc s) (rdo_clock s) (rdo_sins e) (rdo_sdel e) t.
Proof. intros s e s1 s2 PC SSD. apply rdo_e_pc_unpack in PC.
  set (st0 := rdo_doc s) in *. set (I := rdo_sins e) in *. set (D := rdo_sdel e) in *. set (n0 := rdo_clock s) in *.
  set (R := rdo_i_redo st0 I D) in *.
  pose proof (rdo_e_p_wf _ _ _ _ _ PC) as W. pose proof (rdo_e_wfp_nodup _ _ W) as ND0.
  assert (SSR: StronglySorted N.lt R) by (apply rdo_e_ss_filter; auto).
  assert (IP: forall j, In j I -> exists y, rdo_get st0 j = Some y).
  { intros j Ij. destruct (rdo_e_p_I _ _ _ _ _ PC _ Ij) as (y & G & _). eauto. }
  rewrite (rdo_e_process_eq s e s1 s2 (rdo_e_liveI st0 I)).
  2: { rewrite (rdo_e_td st0 (rdo_scope s) I); auto; apply PC. }
  2: apply PC.
  cbv zeta. fold st0 I D R.
  assert (C3: forall j x, In j R -> rdo_get st0 j = Some x -> In x st0 /\ rdo_id x = j /\ rdo_del x = true /\ rdo_red x = None /\
            forall p, rdo_par x = RdoItem p -> (rdo_i_isdel st0 p = false /\ ~ In p I) \/ In p R).
  { intros j x Ij Gj. destruct (rdo_a_get_in _ _ _ Gj) as (Ix & Ex). split; auto. split; auto.
    destruct (rdo_e_p_c3 _ _ _ _ _ PC x Ix) as (Dx & Rx & Px). rewrite Ex; auto. split; auto. split; auto.
    intros p Pp. rewrite Pp in Px. auto. }
  destruct (rdo_e_fold_G st0 n0 I R s1 s2 R W (rdo_e_p_c2 _ _ _ _ _ PC) IP) with (todo := R) (done := @nil N) (t := rdo_begin s) (c := false) (dk := @nil N)
    as (t1 & dk & E1 & V1 & DK & NDK); auto.
  - intros i Ii. destruct (rdo_e_redo_in _ _ _ _ Ii) as (ID & NI & x & G). destruct (C3 _ _ Ii G) as (Ix & Ex & Dx & Rx & Px).
    destruct (rdo_e_wfp_item _ _ W _ Ix) as (L & WP).
    exists x. split; auto. split; auto. split; auto. split.
    + destruct (rdo_par x) eqn:P; auto. destruct (in_dec N.eq_dec id R) as [K|K]; auto. right. split; auto.
      destruct (Px id eq_refl) as [(A & B)|K']; try tauto. split; auto.
      apply rdo_e_isdel_live in A. destruct A as (pit & Gp & Dp). destruct (WP id eq_refl) as (Lp & y & k & Gy & Cy).
      rewrite Gp in Gy. inversion Gy; subst y. exists pit, k. auto.
    + intros k Sk. assert (SN: rdo_sub x <> None) by congruence. split.
      * intros j Ij. rewrite <- Ex in Ij. apply (rdo_e_p_c4 _ _ _ _ _ PC x Ix); auto. rewrite Ex; auto.
      * intros j xj Ij NE Gj (P1 & S1). destruct (C3 _ _ Ij Gj) as (Ixj & Exj & _).
        destruct (rdo_e_chain_lr st0 x xj ND0 Ix Ixj) as [K|K]; try congruence.
        -- rewrite Exj in K. apply (rdo_e_p_c4 _ _ _ _ _ PC x Ix) in K; auto. destruct K as (_ & K & _). apply K; auto. rewrite Ex; auto.
        -- rewrite Ex in K. apply (rdo_e_p_c4 _ _ _ _ _ PC xj Ixj) in K; auto. destruct K as (_ & K & _). apply K; auto. rewrite Exj; auto. congruence.
  - intros y p Iy Py Ip. apply (rdo_e_p_c5 _ _ _ _ _ PC y p); auto.
  - apply rdo_e_inv_init; auto. intros x Ix. apply (rdo_e_wfp_item _ _ W _ Ix).
  - intros j [].
  - constructor.
  - rewrite E1. cbn [rdo_bind].
    destruct (rdo_e_finish st0 n0 (rdo_scope s) I D t1 dk PC V1 DK NDK) as (t2 & dd & E2 & V2 & NDd & IFF & FO & _).
    + fold R. apply (rdo_e_mp_gen st0 n0 I R); auto. intros j xj p Ij Gj Pj. destruct (C3 _ _ Ij Gj) as (_ & _ & _ & _ & Px).
      destruct (Px p Pj) as [(A & B)|K]; auto.
    + rewrite E2. cbn [rdo_bind]. exists t2. split; auto. exists dd. auto.
Qed.
Print Assumptions rdo_e_process_ok_partial.

(* ============================================================================================== *)
(* r5, first part: the result is well-formed (rdo_i_wfp) *)
Lemma rdo_e_inv_wfp : forall st0 n0 done dk t, rdo_e_inv st0 n0 done dk t -> rdo_i_wfp st0 n0 = true ->
  StronglySorted N.lt done -> rdo_i_wfp (rdo_st t) (rdo_next t) = true.
Proof. intros st0 n0 done dk t V W SS. apply rdo_d_wfp_spec.
  assert (MP: rdo_e_mpok st0 n0 [] done). { apply rdo_e_mp_gen; auto. intros j []. }
  assert (OLDP: forall p yp k, rdo_get st0 p = Some yp -> rdo_cnt yp = RdoType k ->
            exists z k, rdo_get (rdo_st t) p = Some z /\ rdo_cnt z = RdoType k).
  { intros p yp k Gp Cp. destruct (rdo_a_get_in _ _ _ Gp) as (Ip & Ep). pose proof (rdo_e_wfp_item _ _ W _ Ip) as (Lp & _). rewrite Ep in Lp.
    exists (rdo_e_oldk n0 done dk yp), k. rewrite (rdo_e_inv_get_old _ _ _ _ _ p V Lp), Gp. auto. }
  split. apply V. intros y Iy. split. eapply rdo_e_inv_fresh; eauto.
  destruct (rdo_e_inv_item _ _ _ _ _ _ V Iy) as [(x & Ix & Ey)|(j & x & l & r & Ij & Gj & Ey)]; subst y.
  - simpl. destruct (rdo_e_wfp_item _ _ W _ Ix) as (_ & WP). destruct (rdo_par x) eqn:P; auto.
    destruct (WP id eq_refl) as (Lp & yp & k & Gp & Cp). split; auto. eapply OLDP; eauto.
  - cbn [rdo_par rdo_id rdo_e_newk]. destruct (rdo_e_mpar n0 done (rdo_par x)) eqn:MPX; auto.
    destruct (MP _ _ _ Ij Gj MPX) as (_ & LQ). split; auto.
    destruct (rdo_a_get_in _ _ _ Gj) as (Ix & Ex). destruct (rdo_e_wfp_item _ _ W _ Ix) as (_ & WP).
    unfold rdo_e_mpar in MPX. destruct (rdo_par x) eqn:P; try discriminate. destruct (WP id0 eq_refl) as (Lp & yp & k & Gp & Cp).
    destruct (rdo_mem id0 done) eqn:M.
    + inversion MPX; subst id. apply rdo_e_mem_in in M. destruct (rdo_e_v_new _ _ _ _ _ V _ M) as (xp & l' & r' & Gxp & Gc).
      rewrite Gp in Gxp. inversion Gxp; subst xp. eexists. exists k. split. exact Gc. simpl. auto.
    + inversion MPX; subst id. eapply OLDP; eauto.
Qed.
Print Assumptions rdo_e_inv_wfp.

Theorem rdo_e_result_wfp : forall st0 n0 I D t, rdo_i_wfp st0 n0 = true -> StronglySorted N.lt D ->
  rdo_e_result st0 n0 I D t -> rdo_i_wfp (rdo_st t) (rdo_next t) = true.
Proof. intros st0 n0 I D t W SS (dd & V & _). eapply rdo_e_inv_wfp; eauto. apply rdo_e_ss_filter; auto. Qed.
Print Assumptions rdo_e_result_wfp.

(* E2, relative to what is still missing (r3 = the renaming of the live chains, r5 = rdo_i_lastlive of the result) *)
Theorem rdo_e_process_render_partial : forall s e t rho,
  rdo_i_pc (rdo_doc s) (rdo_clock s) (rdo_scope s) (rdo_sins e) (rdo_sdel e) = true -> StronglySorted N.lt (rdo_sdel e) ->
  rdo_e_result (rdo_doc s) (rdo_clock s) (rdo_sins e) (rdo_sdel e) t ->
  rdo_d_iso (rdo_i_flip (rdo_doc s) (rdo_sins e) (rdo_sdel e)) (rdo_st t) rho ->
  rdo_i_lastlive (rdo_st t) = true ->
  forall root, rdo_render_root (rdo_st t) root = rdo_i_render_root (rdo_i_flip (rdo_doc s) (rdo_sins e) (rdo_sdel e)) root.
Proof. intros s e t rho PC SS RES ISO LL root. apply rdo_e_pc_unpack in PC. pose proof (rdo_e_p_wf _ _ _ _ _ PC) as W.
  pose proof (rdo_e_result_wfp _ _ _ _ _ W SS RES) as W2.
  rewrite <- (rdo_d_render_virtual _ _ W2 LL root). symmetry.
  apply (rdo_d_render_iso_gen _ _ (rdo_clock s) (rdo_next t) rho); auto.
  apply rdo_d_wfp_spec. apply rdo_e_flip_wf. apply rdo_d_wfp_spec; auto.
Qed.
Print Assumptions rdo_e_process_render_partial.

(* the hypothesis `StronglySorted N.lt (rdo_sdel e)` holds for every entry built by rdo_after_txn (rdo_sort, rdo_merge) *)
Lemma rdo_e_sort_insert_in : forall x l y, In y (rdo_sort_insert x l) -> y = x \/ In y l.
Proof. induction l; simpl; intros. destruct H as [E|[]]; auto.
  destruct (x <? a). destruct H as [E|H]; [left; auto|right; exact H].
  destruct (x =? a). right; exact H. destruct H as [E|H]. right; left; exact E. apply IHl in H. destruct H; auto. Qed.
Print Assumptions rdo_e_sort_insert_in.
Lemma rdo_e_sort_insert_ss : forall x l, StronglySorted N.lt l -> StronglySorted N.lt (rdo_sort_insert x l).
Proof. induction l; simpl; intros. repeat constructor. inversion H; subst. rewrite Forall_forall in H3.
  destruct (x <? a) eqn:E1.
  - apply N.ltb_lt in E1. constructor; auto. apply Forall_forall. intros y [Ey|Iy]. subst; auto. apply H3 in Iy. lia.
  - destruct (x =? a) eqn:E2; auto. apply N.ltb_ge in E1. apply N.eqb_neq in E2. constructor; auto.
    apply Forall_forall. intros y Iy. apply rdo_e_sort_insert_in in Iy. destruct Iy as [Ey|Iy]. subst. lia. auto. Qed.
Print Assumptions rdo_e_sort_insert_ss.
Theorem rdo_e_sort_ss : forall l, StronglySorted N.lt (rdo_sort l).
Proof. induction l; simpl. constructor. apply rdo_e_sort_insert_ss; auto. Qed.
Print Assumptions rdo_e_sort_ss.

(* ============================================================================================== *)
(* Lemma P for a second class: exactly one re-created item, a sequence item (its parent is then a root or alive) *)
Lemma rdo_e_kill_link : forall d st l c, rdo_mem (rdo_id c) d = false -> rdo_e_kill d (rdo_link st l c) = rdo_link (rdo_e_kill d st) l c.
Proof. intros d st l c M. destruct l as [l0|]; simpl.
  - induction st; simpl. rewrite M; auto.
    assert (rdo_id (if rdo_mem (rdo_id a) d then rdo_set_del a else a) = rdo_id a) as E by (destruct (rdo_mem (rdo_id a) d); auto).
    rewrite E. destruct (rdo_id a =? l0); simpl. rewrite M. auto. rewrite IHst. auto.
  - rewrite M. auto. Qed.
Print Assumptions rdo_e_kill_link.

Lemma rdo_e_flip_single : forall st0 I D i, NoDup (map rdo_id st0) -> rdo_i_redo st0 I D = [i] ->
  rdo_i_flip st0 I D = rdo_update (rdo_e_kill I st0) i rdo_set_live.
Proof. intros st0 I D i ND HR. rewrite rdo_e_flip_map. symmetry. unfold rdo_e_kill.
  assert (IR: forall j, In j (rdo_i_redo st0 I D) -> j = i) by (intros j Ij; rewrite HR in Ij; destruct Ij as [?|[]]; auto).
  destruct (rdo_e_redo_in st0 I D i) as (ID & NI & x & G). rewrite HR; simpl; auto.
  apply rdo_e_update_map; auto.
  - intros y. destruct (rdo_mem (rdo_id y) I); auto.
  - intros x1 I1 E1. unfold rdo_e_ff. rewrite E1. apply rdo_e_mem_nin in NI. rewrite NI. apply rdo_e_mem_in in ID. rewrite ID. auto.
  - intros x1 I1 E1. unfold rdo_e_ff. destruct (rdo_mem (rdo_id x1) I) eqn:MI; auto. destruct (rdo_mem (rdo_id x1) D) eqn:MD; auto.
    exfalso. apply E1. apply IR. unfold rdo_i_redo. apply filter_In. split. apply rdo_e_mem_in; auto.
    rewrite (rdo_a_in_get _ _ ND I1). simpl. rewrite MI. auto. Qed.
Print Assumptions rdo_e_flip_single.

Lemma rdo_e_map_lastlive : forall (F : rdo_item -> rdo_item) st, (forall x, rdo_par (F x) = rdo_par x /\ rdo_sub (F x) = rdo_sub x) ->
  (forall x, In x st -> rdo_del x = true -> rdo_del (F x) = true) -> rdo_d_lastlive_p st -> rdo_d_lastlive_p (map F st).
Proof. intros F st KP REV LL b' x' a' k E SUB.
  destruct (rdo_e_map_split _ _ _ _ _ _ _ E) as (b & x & a & ES & M1 & Fx & M2). subst x' a'.
  destruct (KP x) as (E2 & E3). rewrite E2, E3. rewrite E3 in SUB.
  destruct (LL b x a k ES SUB) as [Dx|CH].
  - left. apply REV; auto. rewrite ES. apply in_or_app; simpl; auto.
  - right. rewrite rdo_e_chain_map, CH; auto. Qed.
Print Assumptions rdo_e_map_lastlive.

Lemma rdo_e_link_split : forall st l c, exists u v, st = u ++ v /\ rdo_link st l c = u ++ c :: v.
Proof. intros. destruct l as [l0|]; simpl. 2: exists [], st; auto.
  induction st; simpl. exists [], []; auto. destruct (rdo_id a =? l0). exists [a], st; auto.
  destruct IHst as (u & v & E1 & E2). exists (a :: u), v. subst. simpl. rewrite E2. auto. Qed.
Print Assumptions rdo_e_link_split.

Lemma rdo_e_split_mid : forall (A : Type) (u : list A) c v b' x' a', u ++ c :: v = b' ++ x' :: a' ->
  (exists w, u = b' ++ x' :: w /\ a' = w ++ c :: v) \/ (u = b' /\ c = x' /\ v = a') \/ (exists w, b' = u ++ c :: w /\ v = w ++ x' :: a').
Proof. induction u; simpl; intros.
  - destruct b'; simpl in H; inversion H; subst. right; left; auto. right; right. exists b'. auto.
  - destruct b'; simpl in H; inversion H; subst.
    + left. exists u. auto.
    + destruct (IHu _ _ _ _ _ H2) as [(w & E1 & E2)|[(E1 & E2 & E3)|(w & E1 & E2)]]; subst.
      * left. exists w. auto.
      * right; left; auto.
      * right; right. exists w. auto. Qed.
Print Assumptions rdo_e_split_mid.

Lemma rdo_e_link_lastlive : forall st l c, rdo_sub c = None -> rdo_d_lastlive_p st -> rdo_d_lastlive_p (rdo_link st l c).
Proof. intros st l c SC LL b' x' a' k E SUB. destruct (rdo_e_link_split st l c) as (u & v & E1 & E2). rewrite E2 in E.
  destruct (rdo_e_split_mid _ _ _ _ _ _ _ E) as [(w & Eu & Ea)|[(Eu & Ec & Ev)|(w & Eb & Ev)]].
  - subst u a'. rewrite <- app_assoc in E1. simpl in E1. destruct (LL _ _ _ k E1 SUB) as [?|CH]; auto. right.
    rewrite rdo_d_chain_app in *. simpl. unfold rdo_in_chain at 1. rewrite SC, SUB. rewrite andb_false_r. rewrite SUB in CH. exact CH.
  - subst. congruence.
  - subst b' v. rewrite app_assoc in E1. destruct (LL _ _ _ k E1 SUB); auto. Qed.
Print Assumptions rdo_e_link_lastlive.

Lemma rdo_e_get_fresh : forall st j, (forall y, In y st -> rdo_id y <> j) -> rdo_get st j = None.
Proof. intros. destruct (rdo_get st j) eqn:G; auto. destruct (rdo_a_get_in _ _ _ G) as (Iy & Ey). exfalso. eapply H; eauto. Qed.
Print Assumptions rdo_e_get_fresh.

Lemma rdo_e_kill_app : forall d a b, rdo_e_kill d (a ++ b) = rdo_e_kill d a ++ rdo_e_kill d b.
Proof. intros. unfold rdo_e_kill. apply map_app. Qed.
Print Assumptions rdo_e_kill_app.
Lemma rdo_e_kill_chain : forall d l P S, rdo_chain (rdo_e_kill d l) P S = rdo_e_kill d (rdo_chain l P S).
Proof. intros. unfold rdo_e_kill. apply rdo_e_chain_map. intros x. destruct (rdo_mem (rdo_id x) d); auto. Qed.
Print Assumptions rdo_e_kill_chain.

Theorem rdo_e_lemma_P_single_partial : forall s e s1 s2 i x,
  rdo_i_pc (rdo_doc s) (rdo_clock s) (rdo_scope s) (rdo_sins e) (rdo_sdel e) = true ->
  rdo_i_redo (rdo_doc s) (rdo_sins e) (rdo_sdel e) = [i] -> rdo_get (rdo_doc s) i = Some x -> rdo_sub x = None ->
  exists t ch, rdo_process s e s1 s2 = RdoOk (t, ch) /\
    forall root, rdo_render_root (rdo_st t) root = rdo_i_render_root (rdo_i_flip (rdo_doc s) (rdo_sins e) (rdo_sdel e)) root.
Proof. intros s e s1 s2 i x PC0 HR G SUB. pose proof (rdo_e_pc_unpack _ _ _ _ _ PC0) as PC.
  set (st0 := rdo_doc s) in *. set (I := rdo_sins e) in *. set (D := rdo_sdel e) in *. set (n0 := rdo_clock s) in *.
  pose proof (rdo_e_p_wf _ _ _ _ _ PC) as W. pose proof (rdo_e_wfp_nodup _ _ W) as ND0.
  assert (IR: In i (rdo_i_redo st0 I D)) by (rewrite HR; simpl; auto).
  destruct (rdo_e_redo_in _ _ _ _ IR) as (ID & NI & _).
  destruct (rdo_a_get_in _ _ _ G) as (Ix & Ex). destruct (rdo_e_wfp_item _ _ W _ Ix) as (LI & WP). rewrite Ex in LI.
  destruct (rdo_e_p_c3 _ _ _ _ _ PC x Ix) as (Dx & Rx & Px). rewrite Ex; auto.
  assert (IP: forall j, In j I -> exists y, rdo_get st0 j = Some y /\ j < n0).
  { intros j Ij. destruct (rdo_e_p_I _ _ _ _ _ PC _ Ij) as (y & Gy & _). exists y. split; auto.
    destruct (rdo_a_get_in _ _ _ Gy) as (Iy & Ey). rewrite <- Ey. apply (rdo_e_wfp_item _ _ W _ Iy). }
  assert (PAL: forall p, rdo_par x = RdoItem p -> p < i /\ ~ In p I /\ exists pit kk, rdo_get st0 p = Some pit /\ rdo_del pit = false /\ rdo_cnt pit = RdoType kk).
  { intros p Pp. destruct (WP p Pp) as (Lp & y & k & Gy & Cy). rewrite Ex in Lp. split; auto. rewrite Pp in Px.
    destruct Px as [(A & B)|K]. 2: { rewrite HR in K. destruct K as [K|[]]. lia. }
    split; auto. apply rdo_e_isdel_live in A. destruct A as (pit & Gp & Dp). rewrite Gp in Gy. inversion Gy; subst y. eauto. }
  assert (NIn0: ~ In n0 I). { intro K. destruct (IP _ K) as (_ & _ & L). lia. }
  destruct (rdo_e_get_split _ _ _ G) as (a & b & ST & NIa & _).
  (* the process: one rdo_redo, then the deletions *)
  rewrite (rdo_e_process_eq s e s1 s2 (rdo_e_liveI st0 I)).
  2: { rewrite (rdo_e_td st0 (rdo_scope s) I); auto; apply PC. }
  2: apply PC.
  cbv zeta. fold st0 I D. rewrite HR. cbn [fold_left]. unfold rdo_e_fredo. cbn [rdo_bind].
  assert (V0: rdo_e_inv st0 n0 [] [] (rdo_begin s)).
  { apply rdo_e_inv_init; auto. intros y Iy. apply (rdo_e_wfp_item _ _ W _ Iy). }
  destruct (rdo_e_step_seqA st0 n0 [] [] (rdo_begin s) i V0 ND0) as (t1 & E1 & V1).
  { exists x. repeat (split; auto). destruct (rdo_par x) eqn:P; auto. destruct (PAL id eq_refl) as (Lp & NIp & pit & kk & Gp & Dp & Cp).
    exists pit, kk. repeat (split; auto). lia. }
  { intros []. }
  { intros p x0 G0 P0. rewrite G in G0. inversion G0; subst x0. simpl. intros [K|[]]. destruct (PAL p P0). lia. }
  { intros j xj []. }
  simpl app in V1.
  assert (PAR0: match rdo_par x with
                | RdoRoot _ => True
                | RdoItem p => exists pit k, rdo_get (rdo_st (rdo_begin s)) p = Some pit /\ rdo_del pit = false /\ rdo_cnt pit = RdoType k
                end).
  { destruct (rdo_par x) eqn:P; auto. destruct (PAL id eq_refl) as (_ & _ & pit & kk & Gp & Dp & Cp). exists pit, kk. auto. }
  pose proof (rdo_e_redo_seqA (length (rdo_st (rdo_begin s))) (rdo_begin s) x a b [i] I s1 s2 ST ND0 Rx SUB
                (fun y Iy => proj1 (rdo_e_wfp_item _ _ W y Iy)) PAR0) as EX.
  rewrite Ex in EX. rewrite E1 in EX. inversion EX as [ET1]. clear EX.
  rewrite E1. cbn [rdo_bind].
  destruct (rdo_e_finish st0 n0 (rdo_scope s) I D t1 [] PC) as (t2 & dd & E2 & V2 & NDd & IFF & FO & STF).
  { rewrite HR. exact V1. }
  { intros j []. }
  { constructor. }
  { rewrite HR. intros j xj q [Ej|[]] Gj MP. subst j. rewrite G in Gj. inversion Gj; subst xj.
    unfold rdo_e_mpar in MP. destruct (rdo_par x) eqn:P; try discriminate. destruct (PAL id eq_refl) as (Lp & NIp & _).
    assert (rdo_mem id [i] = false) as M by (simpl; rewrite orb_false_r; apply N.eqb_neq; lia). rewrite M in MP. inversion MP; subst q.
    split; auto. pose proof (rdo_e_cp_lt n0 [i] i (or_introl eq_refl)). lia. }
  rewrite E2. cbn [rdo_bind]. exists t2. eexists. split. reflexivity.
  (* the exact result *)
  set (l := hd_error (map rdo_id (filter (rdo_in_chain (rdo_par x) None) (rev a)))) in *.
  set (copy := {| rdo_id := n0; rdo_par := rdo_par x; rdo_sub := None; rdo_cnt := rdo_cnt x; rdo_del := false; rdo_keep := true;
                  rdo_red := None; rdo_org := l; rdo_rorg := Some i |}) in *.
  set (x' := rdo_set_red x n0) in *.
  assert (ST1: rdo_st t1 = rdo_link (a ++ x' :: b) l copy) by (rewrite ET1; reflexivity).
  rewrite HR in V2.
  assert (W2: rdo_i_wfp (rdo_st t2) (rdo_next t2) = true) by (eapply rdo_e_inv_wfp; eauto; repeat constructor).
  assert (KX: rdo_mem i I = false) by (apply rdo_e_mem_nin; auto).
  set (ka := rdo_e_kill I a). set (kb := rdo_e_kill I b).
  assert (EK: rdo_e_kill I st0 = ka ++ x :: kb).
  { rewrite ST, rdo_e_kill_app. simpl. rewrite Ex, KX. reflexivity. }
  assert (EK': rdo_e_kill I (a ++ x' :: b) = ka ++ x' :: kb).
  { rewrite rdo_e_kill_app. simpl. rewrite Ex, KX. reflexivity. }
  assert (STF2: rdo_st t2 = rdo_link (ka ++ x' :: kb) l copy).
  { rewrite STF, ST1, rdo_e_kill_link, EK'. auto. simpl. apply rdo_e_mem_nin; auto. }
  set (K := ka ++ x :: kb) in *. set (K' := ka ++ x' :: kb) in *.
  assert (IDSK: map rdo_id K = map rdo_id st0) by (rewrite <- EK; apply rdo_e_kill_ids).
  assert (NBK: rdo_i_nodup (map rdo_id K) = true) by (apply rdo_d_nodup_spec; rewrite IDSK; auto).
  assert (NIka: ~ In i (map rdo_id ka)) by (unfold ka; rewrite rdo_e_kill_ids; auto).
  assert (GK: rdo_get K i = Some x). { unfold K. rewrite <- Ex. apply rdo_e_get_app. rewrite Ex; auto. }
  set (rho0 := fun a0 b0 : N => a0 = b0 /\ exists y, rdo_get K a0 = Some y /\ rdo_del y = false).
  pose proof (rdo_d_iso_id K NBK) as ISO0. fold rho0 in ISO0.
  assert (KD: map rdo_d_kd K = map rdo_d_kd K').
  { unfold K, K'. rewrite !map_app. simpl. reflexivity. }
  pose proof (rdo_d_iso_kd K K K K' rho0 eq_refl KD ISO0) as ISO1.
  set (P := rdo_par x) in *. set (g := rdo_in_chain P None) in *.
  assert (GX: g x = true) by (unfold g, P; rewrite <- SUB; apply rdo_e_in_chain_refl).
  assert (GX': g x' = true) by (exact GX).
  assert (GC: g copy = true) by (unfold g, rdo_in_chain; simpl; rewrite rdo_a_par_eqb_refl; auto).
  set (a1 := rdo_chain ka P None). set (a2 := rdo_chain kb P None).
  assert (CHK: rdo_chain K P None = a1 ++ x :: a2).
  { unfold K. rewrite rdo_d_chain_app. unfold rdo_chain at 2. simpl. fold g. rewrite GX. reflexivity. }
  assert (CHK': rdo_chain K' P None = a1 ++ x' :: a2).
  { unfold K'. rewrite rdo_d_chain_app. unfold rdo_chain at 2. simpl. fold g. rewrite GX'. reflexivity. }
  assert (A1: a1 = rdo_e_kill I (filter g a)) by (unfold a1, ka; rewrite rdo_e_kill_chain; reflexivity).
  assert (CHL: rdo_chain (rdo_link K' l copy) P None = a1 ++ copy :: x' :: a2).
  { assert (CC: forall z rest0, g z = true -> rdo_chain (z :: rest0) P None = z :: rdo_chain rest0 P None).
    { intros z rest0 Gz. unfold rdo_chain. simpl. fold g. rewrite Gz. reflexivity. }
    unfold l. destruct (filter g (rev a)) as [|y rest] eqn:F.
    - simpl hd_error. simpl rdo_link. rewrite (CC copy K' GC), CHK'.
      rewrite rdo_e_filter_rev in F. assert (filter g a = []) as FA. { destruct (filter g a); auto. simpl in F. destruct (rev l0); discriminate. }
      rewrite A1, FA. reflexivity.
    - destruct (rdo_e_filter_hd _ _ _ _ _ F) as (m1 & m2 & Er & F1 & F2).
      assert (Ea: a = rev m2 ++ y :: rev m1).
      { rewrite <- (rev_involutive a), Er. rewrite rev_app_distr. simpl. rewrite <- app_assoc. auto. }
      assert (Gy: g y = true). { assert (In y (filter g (rev a))) by (rewrite F; simpl; auto). apply filter_In in H. tauto. }
      set (ky := if rdo_mem (rdo_id y) I then rdo_set_del y else y).
      assert (Eky: rdo_id ky = rdo_id y) by (unfold ky; destruct (rdo_mem (rdo_id y) I); auto).
      assert (Gky: g ky = true). { unfold ky. destruct (rdo_mem (rdo_id y) I); auto. }
      assert (Eka: ka = rdo_e_kill I (rev m2) ++ ky :: rdo_e_kill I (rev m1)).
      { unfold ka. rewrite Ea, rdo_e_kill_app. reflexivity. }
      assert (NIy: ~ In (rdo_id y) (map rdo_id (rdo_e_kill I (rev m2)))).
      { rewrite rdo_e_kill_ids. rewrite ST, Ea, <- app_assoc in ND0. simpl in ND0. apply (rdo_e_nodup_mid _ _ _ ND0). }
      assert (FM1: rdo_chain (rdo_e_kill I (rev m1)) P None = []).
      { rewrite rdo_e_kill_chain. unfold rdo_chain. fold g. rewrite rdo_e_filter_rev, F1. reflexivity. }
      simpl hd_error. simpl rdo_link. unfold K'. rewrite Eka, <- app_assoc. simpl app.
      rewrite (rdo_a_insert_after_app _ ky _ (rdo_id y) copy); auto.
      unfold a1. rewrite Eka. rewrite !rdo_d_chain_app.
      rewrite (CC ky), (CC copy), !rdo_d_chain_app, (CC x'), (CC ky), FM1; auto. fold a2. rewrite <- app_assoc. reflexivity. }
  assert (BREL: rdo_d_brel rho0 P P).
  { unfold P. destruct (rdo_par x) eqn:PX. left; eauto. right. destruct (PAL id eq_refl) as (_ & NIp & pit & kk & Gp & Dp & _).
    exists id, id. split; auto. split; auto. split; auto. exists pit. split; auto.
    rewrite <- EK, rdo_e_get_kill, Gp. simpl. destruct (rdo_a_get_in _ _ _ Gp) as (_ & Ep). rewrite Ep. apply rdo_e_mem_nin in NIp. rewrite NIp. auto. }
  assert (KIDS: forall y, In y K -> rdo_par y = RdoItem i -> rdo_del y = true).
  { intros y Iy Py. rewrite <- EK in Iy. unfold rdo_e_kill in Iy. apply in_map_iff in Iy. destruct Iy as (y0 & Ey & Iy0).
    assert (rdo_del y0 = true) as D0.
    { pose proof (proj1 (rdo_d_cascade_spec st0) (rdo_e_p_casc _ _ _ _ _ PC)) as CP. apply (CP y0 Iy0 i x); auto.
      subst y. destruct (rdo_mem (rdo_id y0) I); auto. }
    subst y. destruct (rdo_mem (rdo_id y0) I); auto. }
  assert (LTK': forall y, In y K' -> rdo_id y < n0 /\ forall p, rdo_par y = RdoItem p -> p < rdo_id y).
  { intros y Iy. assert (exists y0, In y0 st0 /\ rdo_id y = rdo_id y0 /\ rdo_par y = rdo_par y0) as (y0 & I0 & E0 & P0).
    { unfold K' in Iy. apply in_app_or in Iy. destruct Iy as [Iy|[Iy|Iy]].
      - apply rdo_e_in_kill in Iy. destruct Iy as (y0 & I0 & E0). exists y0. split; auto. rewrite ST. apply in_or_app; auto.
      - subst y. exists x. auto.
      - apply rdo_e_in_kill in Iy. destruct Iy as (y0 & I0 & E0). exists y0. split; auto. rewrite ST. apply in_or_app; simpl; auto. }
    destruct (rdo_e_wfp_item _ _ W _ I0) as (L0 & WP0). rewrite E0, P0. split; auto. intros p Pp. apply (WP0 p Pp). }
  assert (GCN: rdo_get K' n0 = None). { apply rdo_e_get_fresh. intros y Iy. destruct (LTK' y Iy). lia. }
  assert (KIDSB: forall y, In y K' -> rdo_par y = RdoItem n0 -> rdo_del y = true).
  { intros y Iy Py. destruct (LTK' y Iy) as (L1 & L2). pose proof (L2 n0 Py). lia. }
  assert (PXO: rdo_par x <> RdoItem i). { intro K0. destruct (PAL i K0). lia. }
  assert (PXC: rdo_par copy <> RdoItem n0). { simpl. intro K0. destruct (PAL n0 K0). lia. }
  assert (CHKs: rdo_chain K (rdo_par x) (rdo_sub x) = a1 ++ x :: a2) by (rewrite SUB; exact CHK).
  pose proof (rdo_d_iso_add K K' rho0 i n0 x copy l a1 a2 a1 (x' :: a2) NBK (rdo_d_fun_id _) (rdo_d_inj_id _) ISO1 GK Dx KIDS GCN
                eq_refl eq_refl eq_refl (eq_sym SUB) KIDSB PXO PXC BREL CHKs CHK' CHL eq_refl) as ISO.
  assert (FL: rdo_i_flip st0 I D = rdo_update K i rdo_set_live).
  { rewrite (rdo_e_flip_single st0 I D i ND0 HR), EK. reflexivity. }
  assert (LL2: rdo_i_lastlive (rdo_st t2) = true).
  { apply rdo_d_lastlive_spec. eapply rdo_d_wfp_nodup; eauto. rewrite STF2. fold K'. apply rdo_e_link_lastlive. reflexivity.
    assert (NB0: rdo_i_nodup (map rdo_id st0) = true) by (apply rdo_d_nodup_spec; auto).
    assert (K' = map (fun y => (fun z => if rdo_mem (rdo_id z) I then rdo_set_del z else z) (if rdo_id y =? i then rdo_set_red y n0 else y)) st0) as EM.
    { assert (UP0: rdo_update st0 i (fun y => rdo_set_red y n0) = a ++ x' :: b).
      { rewrite ST, <- Ex. apply rdo_e_update_app. rewrite Ex; auto. }
      rewrite <- EK', <- UP0, (rdo_d_update_map st0 i (fun y => rdo_set_red y n0) NB0). unfold rdo_e_kill. rewrite map_map. reflexivity. }
    rewrite EM. apply rdo_e_map_lastlive.
    - intros y. destruct (rdo_id y =? i); simpl; destruct (rdo_mem (rdo_id y) I); auto.
    - intros y Iy Dy. destruct (rdo_id y =? i); simpl; destruct (rdo_mem (rdo_id y) I); auto.
    - apply rdo_d_lastlive_spec; auto. apply PC. }
  intros root. rewrite <- (rdo_d_render_virtual _ _ W2 LL2 root). symmetry.
  apply (rdo_d_render_iso_gen _ _ n0 (rdo_next t2) (fun a0 b0 => rho0 a0 b0 \/ (a0 = i /\ b0 = n0))); auto.
  - apply rdo_d_wfp_spec. apply rdo_e_flip_wf. apply rdo_d_wfp_spec; auto.
  - rewrite FL, STF2. exact ISO.
Qed.
Print Assumptions rdo_e_lemma_P_single_partial.

Lemma rdo_e_step_mapA_x : forall st0 n0 I done dk t i x k f ri s1 s2,
  rdo_e_inv st0 n0 done dk t -> rdo_i_wfp st0 n0 = true ->
  (forall y p, In y st0 -> rdo_del y = false -> rdo_par y = RdoItem p -> In p I -> In (rdo_id y) I) ->
  (forall p, rdo_par x = RdoItem p -> ~ In p (done ++ [i]) /\ ~ In p I) ->
  (forall j xj, In j done -> rdo_get st0 j = Some xj -> rdo_par xj <> RdoItem i) ->
  rdo_a_parlt (rdo_st t) ->
  (forall y p, In y (rdo_st t) -> rdo_del y = false -> rdo_par y = RdoItem p -> In p I -> In (rdo_id y) I) ->
  (forall j xj, In j done -> rdo_get st0 j = Some xj -> rdo_e_mpar n0 done (rdo_par xj) = rdo_par x -> rdo_par xj = rdo_par x) ->
  rdo_get st0 i = Some x -> rdo_red x = None -> rdo_del x = true -> rdo_sub x = Some k -> ~ In i done ->
  match rdo_par x with
  | RdoRoot _ => True
  | RdoItem p => exists pit kk, rdo_get st0 p = Some pit /\ rdo_del pit = false /\ rdo_cnt pit = RdoType kk
  end ->
  (forall j, In j (rdo_rights st0 i) -> In j I /\ ~ In j done /\ exists y, rdo_get st0 j = Some y /\ rdo_red y = None) ->
  (forall j xj, In j done -> rdo_get st0 j = Some xj -> ~ (rdo_par xj = rdo_par x /\ rdo_sub xj = Some k)) ->
  (forall j, In j dk -> In j I) -> (forall j, In j I -> exists y, rdo_get st0 j = Some y) ->
  exists t' d, rdo_redo (S f) t i ri I s1 s2 = RdoOk (t', Some (rdo_next t)) /\
     rdo_e_inv st0 n0 (done ++ [i]) (dk ++ d) t' /\ NoDup d /\
     (forall j, In j d -> In j I /\ rdo_i_isdel st0 j = false /\ ~ In j dk) /\
     rdo_st t' = rdo_e_kill d (rdo_link (rdo_update (rdo_st t) i (fun y => rdo_set_red y (rdo_next t)))
                                 (Some (last (rdo_rights (rdo_st t) i) i))
                                 {| rdo_id := rdo_next t; rdo_par := rdo_par x; rdo_sub := Some k; rdo_cnt := rdo_cnt x;
                                    rdo_del := false; rdo_keep := true; rdo_red := None;
                                    rdo_org := Some (last (rdo_rights (rdo_st t) i) i); rdo_rorg := None |}).
Proof. intros st0 n0 I done dk t i x k f ri s1 s2 V W C2 PI NPI PLt CLt NEWCH G RED DEL SUB NI PAR C4 UNIQ DKI IP.
  pose proof (rdo_e_wfp_nodup _ _ W) as ND0. destruct (rdo_a_get_in _ _ _ G) as (Ix & Ex).
  destruct (rdo_e_wfp_item _ _ W _ Ix) as (LI & WP). rewrite Ex in LI.
  assert (LTO: forall j y, rdo_get st0 j = Some y -> j < n0).
  { intros j y Gy. destruct (rdo_a_get_in _ _ _ Gy) as (Iy & Ey). rewrite <- Ey. apply (rdo_e_wfp_item _ _ W _ Iy). }
  pose proof (rdo_e_inv_get_old _ _ _ _ _ i V LI) as Gi. rewrite G in Gi. simpl in Gi.
  set (item := rdo_e_oldk n0 done dk x) in *.
  destruct (rdo_e_get_split _ _ _ Gi) as (a & b & ST & NIa & Ei).
  assert (REDi: rdo_red item = None). { simpl. apply rdo_e_mem_nin in NI. rewrite Ex, NI. auto. }
  assert (IIi: In i (done ++ [i])) by (apply in_or_app; simpl; auto).
  assert (PARi: match rdo_par item with
                | RdoRoot _ => True
                | RdoItem p => exists pit k, rdo_get (rdo_st t) p = Some pit /\ rdo_del pit = false /\ rdo_cnt pit = RdoType k
                end).
  { simpl. destruct (rdo_par x) eqn:P; auto. destruct PAR as (pit & kk & Gp & Dp & Cp).
    exists (rdo_e_oldk n0 done dk pit), kk. rewrite (rdo_e_inv_get_old _ _ _ _ _ id V (LTO _ _ Gp)), Gp. simpl. split; auto. split; auto.
    rewrite Dp. simpl. destruct (rdo_a_get_in _ _ _ Gp) as (_ & E). rewrite E. apply rdo_e_mem_nin. intro K. apply DKI in K.
    first [destruct (PI id eq_refl) as (_ & B) | destruct (PI id P) as (_ & B)]. auto. }
  set (g := rdo_in_chain (rdo_par item) (rdo_sub item)).
  assert (PASS: forall j, In j (rdo_rights (rdo_st t) (rdo_id item)) ->
            In j I /\ exists y, rdo_get (rdo_st t) j = Some y /\ rdo_passable I s1 s2 y = true /\ rdo_red y = None).
  { assert (NIa': ~ In (rdo_id item) (map rdo_id a)) by (rewrite Ei; auto).
    destruct (rdo_e_lr_app a item b NIa') as (_ & RT). rewrite <- ST in RT. fold g in RT.
    pose proof (rdo_e_v_old _ _ _ _ _ V) as VO. rewrite ST, filter_app in VO. simpl in VO.
    assert (OI: rdo_e_isold n0 item = true) by (unfold rdo_e_isold; simpl; rewrite Ex; apply N.ltb_lt; auto). rewrite OI in VO.
    symmetry in VO. destruct (rdo_e_map_split _ _ _ _ _ _ _ VO) as (a0 & x' & b0 & E0 & M1 & Fx & M2).
    assert (x' = x).
    { assert (In x' st0) by (rewrite E0; apply in_or_app; simpl; auto). pose proof (rdo_a_in_get _ _ ND0 H) as Gx'.
      assert (rdo_id x' = i). { rewrite <- Ei, <- Fx. reflexivity. } rewrite H0 in Gx'. congruence. }
    subst x'.
    assert (NIa0: ~ In (rdo_id x) (map rdo_id a0)).
    { rewrite E0, map_app in ND0. simpl in ND0. destruct (rdo_e_nodup_app_l _ _ ND0) as (_ & _ & DJ). intro K. apply (DJ _ K). simpl; auto. }
    destruct (rdo_e_lr_app a0 x b0 NIa0) as (_ & RT0). rewrite <- E0, Ex in RT0.
    intros j Ij. rewrite RT in Ij. apply in_map_iff in Ij. destruct Ij as (y & Ey & Iy). apply filter_In in Iy. destruct Iy as (Iy & Gy).
    destruct (rdo_e_isold n0 y) eqn:OY.
    - assert (In y (map (rdo_e_oldk n0 done dk) b0)) as K. { rewrite M2. apply filter_In. auto. }
      apply in_map_iff in K. destruct K as (y0 & E1 & I0). subst y. simpl in Ey.
      assert (In j (rdo_rights st0 i)) as RJ. { rewrite RT0, <- Ey. apply in_map. apply filter_In. split; auto. }
      destruct (C4 _ RJ) as (JI & JD & y1 & G1 & R1). split; auto.
      exists (rdo_e_oldk n0 done dk y1). rewrite (rdo_e_inv_get_old _ _ _ _ _ j V (LTO _ _ G1)), G1. split; auto.
      destruct (rdo_a_get_in _ _ _ G1) as (_ & E1). split.
      + unfold rdo_passable. simpl. rewrite E1. apply rdo_e_mem_in in JI. rewrite JI. rewrite orb_true_r. reflexivity.
      + simpl. rewrite E1. apply rdo_e_mem_nin in JD. rewrite JD. auto.
    - exfalso. assert (In y (rdo_st t)) as IY by (rewrite ST; apply in_or_app; simpl; auto).
      destruct (rdo_e_inv_item _ _ _ _ _ _ V IY) as [(x1 & I1 & E1)|(j' & x1 & l & r & Ij' & Gj' & E1)]; subst y.
      + unfold rdo_e_isold in OY. simpl in OY. apply N.ltb_ge in OY. pose proof (rdo_e_wfp_item _ _ W _ I1). lia.
      + apply rdo_e_in_chain_eq in Gy. simpl in Gy. destruct Gy as (P1 & S1). assert (P2: rdo_par x1 = rdo_par x) by (apply (NEWCH _ _ Ij' Gj'); exact P1).
        apply (UNIQ _ _ Ij' Gj'). split; [exact P2 | congruence]. }
  destruct (rdo_e_redo_mapA f t item a b k ri I s1 s2 ST (rdo_e_v_nd _ _ _ _ _ V) REDi SUB
              (fun y => rdo_e_inv_fresh _ _ _ _ _ y V) PLt PARi) as (d & E & DS & LV & LB & ND1 & PL1).
  { intros j Ij. apply PASS; auto. }
  rewrite Ei in *.
  set (nid := rdo_next t) in *. set (lst := last (rdo_rights (rdo_st t) i) i) in *.
  set (copy := {| rdo_id := nid; rdo_par := rdo_par item; rdo_sub := Some k; rdo_cnt := rdo_cnt item;
                  rdo_del := false; rdo_keep := true; rdo_red := None; rdo_org := Some lst; rdo_rorg := None |}) in *.
  set (st2 := a ++ rdo_set_red item nid :: b) in *. set (st1 := rdo_link st2 (Some lst) copy) in *.
  assert (UP: rdo_update (rdo_st t) i (fun y => rdo_set_red y nid) = st2).
  { rewrite ST, <- Ei. apply rdo_e_update_app. rewrite Ei; auto. }
  assert (FR: ~ In nid (map rdo_id st2)).
  { rewrite <- UP, rdo_a_ids_update; auto. intro K. apply in_map_iff in K. destruct K as (y & Ey & Iy).
    pose proof (rdo_e_inv_fresh _ _ _ _ _ _ V Iy). fold nid in H. lia. }
  assert (G1: forall j, j < n0 -> exists y, rdo_get st1 j = option_map (fun z => if j =? i then rdo_set_red z nid else z) (rdo_get (rdo_st t) j) /\ y = j).
  { intros j Lj. exists j. split; auto. unfold st1. rewrite rdo_a_get_link; auto. simpl rdo_id.
    pose proof (rdo_e_v_next _ _ _ _ _ V). fold nid in H. assert (nid =? j = false) as E1 by (apply N.eqb_neq; lia). rewrite E1.
    rewrite <- UP, rdo_a_get_update; auto. destruct (j =? i); auto. destruct (rdo_get (rdo_st t) j); auto. }
  assert (CL1: forall y p, In y st1 -> rdo_del y = false -> rdo_par y = RdoItem p -> In p I -> In (rdo_id y) I).
  { intros y p Iy Dy Py Ip. apply (rdo_a_link_in st2 (Some lst) copy) in Iy. destruct Iy as [Ey|Iy].
    - subst y. simpl in Py. exfalso. destruct (PI p Py) as (_ & B). auto.
    - rewrite <- UP in Iy. apply rdo_a_in_update in Iy. destruct Iy as [Iy|(x1 & I1 & E1 & E2)]. eapply CLt; eauto.
      subst y. simpl in *. eapply CLt; eauto. }
  assert (DI: forall j, In j d -> In j I).
  { apply (rdo_e_dspec_closed st1 [lst] d (fun j => In j I)); auto.
    intros r [Er|[]] Ird. subst r.
    destruct (rdo_e_rights_last (rdo_st t) (rdo_e_v_nd _ _ _ _ _ V) _ i item Gi eq_refl) as (_ & _ & _ & _ & _ & [EL|IL]).
    - exfalso. fold lst in EL. destruct DS as (_ & P). destruct (P _ Ird) as (y & Gy & Dy & _). rewrite EL in Gy.
      destruct (G1 i LI) as (_ & Gy' & _). rewrite Gy', Gi in Gy. simpl in Gy. rewrite N.eqb_refl in Gy. inversion Gy; subst y.
      simpl in Dy. rewrite DEL in Dy. discriminate.
    - fold lst in IL. apply PASS in IL. tauto. }
  assert (DL: forall j, In j d -> In j I /\ rdo_i_isdel st0 j = false /\ ~ In j dk).
  { intros j Ij. split; auto. destruct DS as (_ & P). destruct (P _ Ij) as (y & Gy & Dy & _).
    destruct (IP _ (DI _ Ij)) as (y1 & Gj).
    pose proof (LTO _ _ Gj) as Lj. destruct (G1 j Lj) as (_ & Gy' & _). rewrite Gy', (rdo_e_inv_get_old _ _ _ _ _ j V Lj), Gj in Gy.
    simpl in Gy. assert (rdo_del y = rdo_del y1 || rdo_mem (rdo_id y1) dk) as DE.
    { inversion Gy. destruct (j =? i); reflexivity. }
    rewrite Dy in DE. symmetry in DE. apply orb_false_elim in DE. destruct DE as (D1 & D2). destruct (rdo_a_get_in _ _ _ Gj) as (_ & E1).
    split. unfold rdo_i_isdel. rewrite Gj; auto. rewrite E1 in D2. apply rdo_e_mem_nin; auto. }
  assert (LTd: forall j, In j d -> j < n0).
  { intros j Ij. destruct (IP _ (DI _ Ij)) as (y1 & Gj). eapply LTO; eauto. }
  pose proof (rdo_e_inv_link st0 n0 done dk t i x (Some lst) (Some lst) None V ND0 G NI LI NPI) as V1.
  assert (MP: rdo_e_mpar n0 (done ++ [i]) (rdo_par x) = rdo_par x).
  { unfold rdo_e_mpar. destruct (rdo_par x) eqn:P; auto. first [destruct (PI id eq_refl) as (K & _) | destruct (PI id P) as (K & _)].
    apply rdo_e_mem_nin in K. rewrite K. auto. }
  rewrite MP in V1. fold nid in V1. rewrite UP in V1. unfold rdo_e_newk in V1. rewrite SUB in V1.
  pose proof (rdo_e_inv_kill _ _ _ _ _ d V1 LTd) as V2. cbn [rdo_st rdo_next rdo_tins rdo_tdel] in V2.
  eexists. exists d. split. exact E. split. exact V2. split. apply DS. split. exact DL.
  cbn [rdo_st]. unfold st1. rewrite <- UP. reflexivity.
Qed.
Print Assumptions rdo_e_step_mapA_x.

(* ============================================================================================== *)
(* Lemma P, third class: exactly one re-created item, a map entry *)
Lemma rdo_e_kill_absorb : forall d I st, (forall j, In j d -> In j I) -> rdo_e_kill I (rdo_e_kill d st) = rdo_e_kill I st.
Proof. intros. rewrite rdo_e_kill_kill. apply rdo_e_kill_eq. intros x _ _. rewrite rdo_e_mem_app.
  destruct (rdo_mem (rdo_id x) d) eqn:M; auto. simpl. apply rdo_e_mem_in in M. apply H in M. apply rdo_e_mem_in in M. auto. Qed.
Print Assumptions rdo_e_kill_absorb.

Lemma rdo_e_kill_update_red : forall d st i n, rdo_e_kill d (rdo_update st i (fun y => rdo_set_red y n)) = rdo_update (rdo_e_kill d st) i (fun y => rdo_set_red y n).
Proof. induction st; simpl; intros; auto.
  assert (rdo_id (if rdo_mem (rdo_id a) d then rdo_set_del a else a) = rdo_id a) as E by (destruct (rdo_mem (rdo_id a) d); auto).
  rewrite E. destruct (rdo_id a =? i); simpl. destruct (rdo_mem (rdo_id a) d); reflexivity. rewrite IHst. auto. Qed.
Print Assumptions rdo_e_kill_update_red.

Lemma rdo_e_live_kill_nil : forall I l, (forall y, In y l -> In (rdo_id y) I) -> rdo_live (rdo_e_kill I l) = [].
Proof. induction l; simpl; intros; auto. assert (rdo_mem (rdo_id a) I = true) as M by (apply rdo_e_mem_in; apply H; auto).
  rewrite M. simpl. apply IHl. auto. Qed.
Print Assumptions rdo_e_live_kill_nil.

Lemma rdo_e_hd_rev_last : forall (r l1 : list N) i, hd_error (rev (l1 ++ i :: r)) = Some (last r i).
Proof. induction r; intros. rewrite rev_app_distr. reflexivity.
  replace (l1 ++ i :: a :: r) with ((l1 ++ [i]) ++ a :: r) by (rewrite <- app_assoc; reflexivity). rewrite IHr, rdo_e_last_cons. auto. Qed.
Print Assumptions rdo_e_hd_rev_last.

Lemma rdo_e_append_lastlive : forall u v c, rdo_d_lastlive_p (u ++ v) ->
  rdo_chain v (rdo_par c) (rdo_sub c) = [] ->
  (forall y, In y (u ++ v) -> rdo_in_chain (rdo_par c) (rdo_sub c) y = true -> rdo_del y = true) ->
  rdo_d_lastlive_p (u ++ c :: v).
Proof. intros u v c LL CV DEAD b' x' a' k E SUB.
  destruct (rdo_e_split_mid _ _ _ _ _ _ _ E) as [(w & Eu & Ea)|[(Eu & Ec & Ev)|(w & Eb & Ev)]].
  - subst u a'. destruct (rdo_in_chain (rdo_par c) (rdo_sub c) x') eqn:GX.
    + left. apply DEAD; auto. apply in_or_app; left. apply in_or_app; simpl; auto.
    + rewrite <- app_assoc in LL. simpl in LL. destruct (LL _ _ _ k eq_refl SUB) as [?|CH]; auto. right.
      rewrite rdo_d_chain_app in *. simpl. destruct (rdo_in_chain (rdo_par x') (rdo_sub x') c) eqn:GC; auto.
      exfalso. apply rdo_e_in_chain_eq in GC. destruct GC as (A & B). unfold rdo_in_chain in GX. rewrite A, B, rdo_a_par_eqb_refl, rdo_a_on_eqb_refl in GX. discriminate.
  - subst. right. exact CV.
  - subst b' v. rewrite app_assoc in LL. destruct (LL _ _ _ k eq_refl SUB); auto. Qed.
Print Assumptions rdo_e_append_lastlive.

Theorem rdo_e_lemma_P_single_map_partial : forall s e s1 s2 i x k,
  rdo_i_pc (rdo_doc s) (rdo_clock s) (rdo_scope s) (rdo_sins e) (rdo_sdel e) = true ->
  rdo_i_redo (rdo_doc s) (rdo_sins e) (rdo_sdel e) = [i] -> rdo_get (rdo_doc s) i = Some x -> rdo_sub x = Some k ->
  exists t ch, rdo_process s e s1 s2 = RdoOk (t, ch) /\
    forall root, rdo_render_root (rdo_st t) root = rdo_i_render_root (rdo_i_flip (rdo_doc s) (rdo_sins e) (rdo_sdel e)) root.
Proof. intros s e s1 s2 i x k PC0 HR G SUB. pose proof (rdo_e_pc_unpack _ _ _ _ _ PC0) as PC.
  set (st0 := rdo_doc s) in *. set (I := rdo_sins e) in *. set (D := rdo_sdel e) in *. set (n0 := rdo_clock s) in *.
  pose proof (rdo_e_p_wf _ _ _ _ _ PC) as W. pose proof (rdo_e_wfp_nodup _ _ W) as ND0.
  assert (NB0: rdo_i_nodup (map rdo_id st0) = true) by (apply rdo_d_nodup_spec; auto).
  assert (IR: In i (rdo_i_redo st0 I D)) by (rewrite HR; simpl; auto).
  destruct (rdo_e_redo_in _ _ _ _ IR) as (ID & NI & _).
  destruct (rdo_a_get_in _ _ _ G) as (Ix & Ex). destruct (rdo_e_wfp_item _ _ W _ Ix) as (LI & WP). rewrite Ex in LI.
  destruct (rdo_e_p_c3 _ _ _ _ _ PC x Ix) as (Dx & Rx & Px). rewrite Ex; auto.
  assert (IP: forall j, In j I -> exists y, rdo_get st0 j = Some y /\ j < n0).
  { intros j Ij. destruct (rdo_e_p_I _ _ _ _ _ PC _ Ij) as (y & Gy & _). exists y. split; auto.
    destruct (rdo_a_get_in _ _ _ Gy) as (Iy & Ey). rewrite <- Ey. apply (rdo_e_wfp_item _ _ W _ Iy). }
  assert (PAL: forall p, rdo_par x = RdoItem p -> p < i /\ ~ In p I /\ exists pit kk, rdo_get st0 p = Some pit /\ rdo_del pit = false /\ rdo_cnt pit = RdoType kk).
  { intros p Pp. destruct (WP p Pp) as (Lp & y & k0 & Gy & Cy). rewrite Ex in Lp. split; auto. rewrite Pp in Px.
    destruct Px as [(A & B)|K]. 2: { rewrite HR in K. destruct K as [K|[]]. lia. }
    split; auto. apply rdo_e_isdel_live in A. destruct A as (pit & Gp & Dp). rewrite Gp in Gy. inversion Gy; subst y. eauto. }
  assert (NIn0: ~ In n0 I). { intro K. destruct (IP _ K) as (_ & _ & L). lia. }
  assert (C4: forall j, In j (rdo_rights st0 i) -> In j I /\ exists y, rdo_get st0 j = Some y /\ rdo_red y = None).
  { intros j Ij. rewrite <- Ex in Ij. destruct (rdo_e_p_c4 _ _ _ _ _ PC x Ix) with (j := j) as (A & _ & B); auto. rewrite Ex; auto. congruence. }
  destruct (rdo_e_get_split _ _ _ G) as (a & b & ST & NIa & _).
  rewrite (rdo_e_process_eq s e s1 s2 (rdo_e_liveI st0 I)).
  2: { rewrite (rdo_e_td st0 (rdo_scope s) I); auto; apply PC. }
  2: apply PC.
  cbv zeta. fold st0 I D. rewrite HR. cbn [fold_left]. unfold rdo_e_fredo. cbn [rdo_bind].
  assert (V0: rdo_e_inv st0 n0 [] [] (rdo_begin s)).
  { apply rdo_e_inv_init; auto. intros y Iy. apply (rdo_e_wfp_item _ _ W _ Iy). }
  destruct (rdo_e_step_mapA_x st0 n0 I [] [] (rdo_begin s) i x k (length (rdo_st (rdo_begin s))) [i] s1 s2 V0 W (rdo_e_p_c2 _ _ _ _ _ PC))
    as (t1 & d & E1 & V1 & NDd & DL & STX).
  { intros p Pp. destruct (PAL p Pp) as (Lp & NIp & _). split; auto. simpl. intros [K|[]]. lia. }
  { intros j xj []. }
  { eapply rdo_e_wfp_parlt; eauto. }
  { apply (rdo_e_p_c2 _ _ _ _ _ PC). }
  { intros j xj []. }
  { exact G. }
  { exact Rx. }
  { exact Dx. }
  { exact SUB. }
  { intros []. }
  { destruct (rdo_par x) eqn:P; auto. destruct (PAL id eq_refl) as (_ & _ & pit & kk & Gp & Dp & Cp). exists pit, kk. auto. }
  { intros j Ij. destruct (C4 j Ij) as (A & B). split; auto. }
  { intros j xj []. }
  { intros j []. }
  { intros j Ij. destruct (IP j Ij) as (y & Gy & _). eauto. }
  simpl app in V1. rewrite E1. cbn [rdo_bind].
  destruct (rdo_e_finish st0 n0 (rdo_scope s) I D t1 ([] ++ d) PC) as (t2 & dd & E2 & V2 & NDd2 & IFF & FO & STF).
  { rewrite HR. exact V1. }
  { intros j Ij. simpl in Ij. destruct (DL j Ij) as (A & B & _). auto. }
  { simpl. auto. }
  { rewrite HR. intros j xj q [Ej|[]] Gj MP. subst j. rewrite G in Gj. inversion Gj; subst xj.
    unfold rdo_e_mpar in MP. destruct (rdo_par x) eqn:P; try discriminate. destruct (PAL id eq_refl) as (Lp & NIp & _).
    assert (rdo_mem id [i] = false) as M by (simpl; rewrite orb_false_r; apply N.eqb_neq; lia). rewrite M in MP. inversion MP; subst q.
    split; auto. pose proof (rdo_e_cp_lt n0 [i] i (or_introl eq_refl)). lia. }
  rewrite E2. cbn [rdo_bind]. exists t2. eexists. split. reflexivity.
  rewrite HR in V2.
  assert (W2: rdo_i_wfp (rdo_st t2) (rdo_next t2) = true) by (eapply rdo_e_inv_wfp; eauto; repeat constructor).
  change (rdo_st (rdo_begin s)) with st0 in STX. change (rdo_next (rdo_begin s)) with n0 in STX.
  set (lst := last (rdo_rights st0 i) i) in *.
  set (copy := {| rdo_id := n0; rdo_par := rdo_par x; rdo_sub := Some k; rdo_cnt := rdo_cnt x; rdo_del := false; rdo_keep := true;
                  rdo_red := None; rdo_org := Some lst; rdo_rorg := None |}) in *.
  set (x' := rdo_set_red x n0) in *.
  assert (KX: rdo_mem i I = false) by (apply rdo_e_mem_nin; auto).
  set (ka := rdo_e_kill I a). set (kb := rdo_e_kill I b).
  assert (EK: rdo_e_kill I st0 = ka ++ x :: kb). { rewrite ST, rdo_e_kill_app. simpl. rewrite Ex, KX. reflexivity. }
  assert (NIka: ~ In i (map rdo_id ka)) by (unfold ka; rewrite rdo_e_kill_ids; auto).
  set (K := ka ++ x :: kb) in *. set (K' := ka ++ x' :: kb) in *.
  assert (UPK: rdo_update K i (fun y => rdo_set_red y n0) = K'). { unfold K, K', x'. rewrite <- Ex. apply rdo_e_update_app. rewrite Ex; auto. }
  assert (STF2: rdo_st t2 = rdo_link K' (Some lst) copy).
  { rewrite STF, STX, rdo_e_kill_absorb, rdo_e_kill_link, rdo_e_kill_update_red, EK, UPK. auto.
    simpl. apply rdo_e_mem_nin; auto. intros j Ij. apply DL; auto. }
  assert (IDSK: map rdo_id K = map rdo_id st0) by (rewrite <- EK; apply rdo_e_kill_ids).
  assert (IDSK': map rdo_id K' = map rdo_id st0). { rewrite <- IDSK. unfold K, K'. rewrite !map_app. reflexivity. }
  assert (NBK: rdo_i_nodup (map rdo_id K) = true) by (apply rdo_d_nodup_spec; rewrite IDSK; auto).
  assert (GK: rdo_get K i = Some x). { unfold K. rewrite <- Ex. apply rdo_e_get_app. rewrite Ex; auto. }
  set (rho0 := fun a0 b0 : N => a0 = b0 /\ exists y, rdo_get K a0 = Some y /\ rdo_del y = false).
  pose proof (rdo_d_iso_id K NBK) as ISO0. fold rho0 in ISO0.
  assert (KD: map rdo_d_kd K = map rdo_d_kd K'). { unfold K, K'. rewrite !map_app. simpl. reflexivity. }
  pose proof (rdo_d_iso_kd K K K K' rho0 eq_refl KD ISO0) as ISO1.
  set (P := rdo_par x) in *. set (g := rdo_in_chain P (Some k)) in *.
  assert (GX: g x = true) by (unfold g, P; rewrite <- SUB; apply rdo_e_in_chain_refl).
  assert (GX': g x' = true) by (exact GX).
  assert (GC: g copy = true) by (unfold g, rdo_in_chain; simpl; rewrite rdo_a_par_eqb_refl, N.eqb_refl; auto).
  set (a1 := rdo_chain ka P (Some k)). set (a2 := rdo_chain kb P (Some k)).
  assert (CHK: rdo_chain K P (Some k) = a1 ++ x :: a2).
  { unfold K. rewrite rdo_d_chain_app. unfold rdo_chain at 2. simpl. fold g. rewrite GX. reflexivity. }
  assert (CHK': rdo_chain K' P (Some k) = a1 ++ x' :: a2).
  { unfold K'. rewrite rdo_d_chain_app. unfold rdo_chain at 2. simpl. fold g. rewrite GX'. reflexivity. }
  destruct (rdo_e_lr_app a x b) as (_ & RT). rewrite Ex; auto. rewrite <- ST, Ex, SUB in RT. fold P g in RT.
  assert (A2: a2 = rdo_e_kill I (filter g b)) by (unfold a2, kb; rewrite rdo_e_kill_chain; reflexivity).
  assert (INB: forall y, In y (filter g b) -> In (rdo_id y) I).
  { intros y Iy. apply (C4 (rdo_id y)). rewrite RT. apply in_map; auto. }
  assert (LA2: rdo_live a2 = []) by (rewrite A2; apply rdo_e_live_kill_nil; auto).
  assert (MG: rdo_map_get K' P k = Some lst).
  { rewrite rdo_a_map_get_ids, CHK', map_app. simpl. rewrite Ex, A2, rdo_e_kill_ids, <- RT. apply rdo_e_hd_rev_last. }
  assert (LASTK: rdo_a_last K' P k lst). { apply rdo_a_map_get_last; auto. rewrite IDSK'; auto. }
  assert (CHL: rdo_chain (rdo_link K' (Some lst) copy) P (Some k) = (a1 ++ x' :: a2) ++ copy :: []).
  { simpl rdo_link. rewrite (rdo_a_last_insert K' P k lst copy LASTK GC), CHK'. reflexivity. }
  assert (BREL: rdo_d_brel rho0 P P).
  { unfold P. destruct (rdo_par x) eqn:PX. left; eauto. right. destruct (PAL id eq_refl) as (_ & NIp & pit & kk & Gp & Dp & _).
    exists id, id. split; auto. split; auto. split; auto. exists pit. split; auto.
    rewrite <- EK, rdo_e_get_kill, Gp. simpl. destruct (rdo_a_get_in _ _ _ Gp) as (_ & Ep). rewrite Ep. apply rdo_e_mem_nin in NIp. rewrite NIp. auto. }
  assert (KIDS: forall y, In y K -> rdo_par y = RdoItem i -> rdo_del y = true).
  { intros y Iy Py. rewrite <- EK in Iy. unfold rdo_e_kill in Iy. apply in_map_iff in Iy. destruct Iy as (y0 & Ey & Iy0).
    assert (rdo_del y0 = true) as D0.
    { pose proof (proj1 (rdo_d_cascade_spec st0) (rdo_e_p_casc _ _ _ _ _ PC)) as CP. apply (CP y0 Iy0 i x); auto.
      subst y. destruct (rdo_mem (rdo_id y0) I); auto. }
    subst y. destruct (rdo_mem (rdo_id y0) I); auto. }
  assert (LTK': forall y, In y K' -> rdo_id y < n0 /\ forall p, rdo_par y = RdoItem p -> p < rdo_id y).
  { intros y Iy. assert (exists y0, In y0 st0 /\ rdo_id y = rdo_id y0 /\ rdo_par y = rdo_par y0) as (y0 & I0 & E0 & P0).
    { unfold K' in Iy. apply in_app_or in Iy. destruct Iy as [Iy|[Iy|Iy]].
      - apply rdo_e_in_kill in Iy. destruct Iy as (y0 & I0 & E0). exists y0. split; auto. rewrite ST. apply in_or_app; auto.
      - subst y. exists x. auto.
      - apply rdo_e_in_kill in Iy. destruct Iy as (y0 & I0 & E0). exists y0. split; auto. rewrite ST. apply in_or_app; simpl; auto. }
    destruct (rdo_e_wfp_item _ _ W _ I0) as (L0 & WP0). rewrite E0, P0. split; auto. intros p Pp. apply (WP0 p Pp). }
  assert (GCN: rdo_get K' n0 = None). { apply rdo_e_get_fresh. intros y Iy. destruct (LTK' y Iy). lia. }
  assert (KIDSB: forall y, In y K' -> rdo_par y = RdoItem n0 -> rdo_del y = true).
  { intros y Iy Py. destruct (LTK' y Iy) as (L1 & L2). pose proof (L2 n0 Py). lia. }
  assert (PXO: rdo_par x <> RdoItem i). { intro K0. destruct (PAL i K0). lia. }
  assert (PXC: rdo_par copy <> RdoItem n0). { simpl. intro K0. destruct (PAL n0 K0). lia. }
  assert (CHKs: rdo_chain K (rdo_par x) (rdo_sub x) = a1 ++ x :: a2) by (rewrite SUB; exact CHK).
  assert (CHKb: rdo_chain K' (rdo_par copy) (rdo_sub copy) = (a1 ++ x' :: a2) ++ []) by (rewrite app_nil_r; exact CHK').
  assert (LEN: length (rdo_live a1) = length (rdo_live (a1 ++ x' :: a2))).
  { rewrite rdo_d_live_app. unfold rdo_live at 3. simpl. rewrite Dx. simpl. fold (rdo_live a2). rewrite LA2, app_nil_r. reflexivity. }
  pose proof (rdo_d_iso_add K K' rho0 i n0 x copy (Some lst) a1 a2 (a1 ++ x' :: a2) [] NBK (rdo_d_fun_id _) (rdo_d_inj_id _) ISO1 GK Dx KIDS GCN
                eq_refl eq_refl eq_refl (eq_sym SUB) KIDSB PXO PXC BREL CHKs CHKb CHL LEN) as ISO.
  assert (FL: rdo_i_flip st0 I D = rdo_update K i rdo_set_live).
  { rewrite (rdo_e_flip_single st0 I D i ND0 HR), EK. reflexivity. }
  assert (LLK': rdo_d_lastlive_p K').
  { assert (K' = map (fun y => (fun z => if rdo_mem (rdo_id z) I then rdo_set_del z else z) (if rdo_id y =? i then rdo_set_red y n0 else y)) st0) as EM.
    { rewrite <- UPK. rewrite <- EK, <- rdo_e_kill_update_red, (rdo_d_update_map st0 i (fun y => rdo_set_red y n0) NB0).
      unfold rdo_e_kill. rewrite map_map. reflexivity. }
    rewrite EM. apply rdo_e_map_lastlive.
    - intros y. destruct (rdo_id y =? i); simpl; destruct (rdo_mem (rdo_id y) I); auto.
    - intros y Iy Dy. destruct (rdo_id y =? i); simpl; destruct (rdo_mem (rdo_id y) I); auto.
    - apply rdo_d_lastlive_spec; auto. apply PC. }
  assert (DEADA: forall z, In z a -> g z = true -> rdo_del z = true).
  { intros z Iz Gz. apply in_split in Iz. destruct Iz as (z1 & z2 & Ea).
    pose proof (proj1 (rdo_d_lastlive_spec st0 NB0) (rdo_e_p_ll _ _ _ _ _ PC)) as LL0.
    apply rdo_e_in_chain_eq in Gz. destruct Gz as (Pz & Sz).
    destruct (LL0 z1 z (z2 ++ x :: b) k) as [?|CH]; auto. rewrite ST, Ea, <- app_assoc. reflexivity.
    exfalso. rewrite rdo_d_chain_app in CH. rewrite Pz, Sz in CH. unfold rdo_chain at 2 in CH. simpl in CH. fold g in CH. rewrite GX in CH.
    destruct (rdo_chain z2 P (Some k)); discriminate. }
  assert (LL2: rdo_i_lastlive (rdo_st t2) = true).
  { apply rdo_d_lastlive_spec. eapply rdo_d_wfp_nodup; eauto. rewrite STF2.
    destruct LASTK as (a' & y & b' & EK2 & Ey & NIy & Gy & Fb'). simpl rdo_link. rewrite EK2.
    rewrite (rdo_a_insert_after_app a' y b' lst copy); auto.
    replace (a' ++ y :: copy :: b') with ((a' ++ [y]) ++ copy :: b') by (rewrite <- app_assoc; reflexivity).
    apply rdo_e_append_lastlive.
    - rewrite <- app_assoc. simpl. rewrite <- EK2. exact LLK'.
    - exact Fb'.
    - intros z Iz Gz. rewrite <- app_assoc in Iz. simpl in Iz. rewrite <- EK2 in Iz. simpl in Gz. fold P g in Gz.
      unfold K' in Iz. apply in_app_or in Iz. destruct Iz as [Iz|[Iz|Iz]].
      + unfold ka, rdo_e_kill in Iz. apply in_map_iff in Iz. destruct Iz as (z0 & Ez & Iz0). subst z.
        destruct (rdo_mem (rdo_id z0) I); auto; try (apply DEADA; auto).
      + subst z. exact Dx.
      + unfold kb, rdo_e_kill in Iz. apply in_map_iff in Iz. destruct Iz as (z0 & Ez & Iz0). subst z.
        destruct (rdo_mem (rdo_id z0) I) eqn:M; auto. exfalso. apply rdo_e_mem_nin in M. apply M. apply INB. apply filter_In. auto. }
  intros root. rewrite <- (rdo_d_render_virtual _ _ W2 LL2 root). symmetry.
  apply (rdo_d_render_iso_gen _ _ n0 (rdo_next t2) (fun a0 b0 => rho0 a0 b0 \/ (a0 = i /\ b0 = n0))); auto.
  - apply rdo_d_wfp_spec. apply rdo_e_flip_wf. apply rdo_d_wfp_spec; auto.
  - rewrite FL, STF2. exact ISO.
Qed.
Print Assumptions rdo_e_lemma_P_single_map_partial.


(* ============================================================================================== *)
(* Lemma P (= rdo_f_lemma_P of RedoProofsF.v) for the class of entries that re-create at most one item *)
Definition rdo_e_cls (st : list rdo_item) (I D : list N) : bool :=
  match rdo_i_redo st I D with [] => true | [_] => true | _ => false end.

Theorem rdo_e_lemma_P_partial : forall s e s1 s2,
  rdo_i_pc (rdo_doc s) (rdo_clock s) (rdo_scope s) (rdo_sins e) (rdo_sdel e) = true ->
  rdo_e_cls (rdo_doc s) (rdo_sins e) (rdo_sdel e) = true ->
  exists t ch, rdo_process s e s1 s2 = RdoOk (t, ch) /\
    forall root, rdo_render_root (rdo_st t) root = rdo_i_render_root (rdo_i_flip (rdo_doc s) (rdo_sins e) (rdo_sdel e)) root.
Proof. intros s e s1 s2 PC CLS. unfold rdo_e_cls in CLS.
  destruct (rdo_i_redo (rdo_doc s) (rdo_sins e) (rdo_sdel e)) as [|i [|j r]] eqn:HR; try discriminate.
  - apply rdo_e_lemma_P_del_partial; auto. unfold rdo_e_cls0. rewrite HR. auto.
  - destruct (rdo_e_redo_in (rdo_doc s) (rdo_sins e) (rdo_sdel e) i) as (_ & _ & x & G). rewrite HR; simpl; auto.
    destruct (rdo_sub x) as [k|] eqn:SUB.
    + apply (rdo_e_lemma_P_single_map_partial s e s1 s2 i x k); auto.
    + apply (rdo_e_lemma_P_single_partial s e s1 s2 i x); auto.
Qed.
Print Assumptions rdo_e_lemma_P_partial.


(* ============================================================================================== *)
(* r5: legality of the result *)


(* the flag *)
Lemma rdo_e_result_ch : forall st0 n0 I D t, rdo_e_result st0 n0 I D t ->
  let ch := rdo_is_some (hd_error (rdo_i_redo st0 I D)) || rdo_is_some (hd_error (rdo_e_liveI st0 I)) in
  if ch then rdo_tins t ++ rdo_tdel t <> [] else rdo_tins t ++ rdo_tdel t = [].
Proof. intros st0 n0 I D t (dd & V & _ & IFF & _). rewrite (rdo_e_v_tins _ _ _ _ _ V), (rdo_e_v_tdel _ _ _ _ _ V).
  destruct (rdo_i_redo st0 I D) as [|r0 R'] eqn:HR; simpl.
  - destruct (rdo_e_liveI st0 I) as [|l0 L'] eqn:HL; simpl.
    + destruct dd as [|d0 dd']; auto. exfalso. destruct (IFF d0) as (A & _). destruct A as (A1 & A2); simpl; auto.
      assert (In d0 (rdo_e_liveI st0 I)) as K. { apply filter_In. split; auto. rewrite A2; auto. } rewrite HL in K. destruct K.
    + intro K. assert (In l0 dd) as J. { apply IFF. assert (In l0 (rdo_e_liveI st0 I)) as Q by (rewrite HL; simpl; auto).
        apply filter_In in Q. destruct Q as (Q1 & Q2). split; auto. destruct (rdo_i_isdel st0 l0); simpl in Q2; congruence. }
      rewrite K in J. destruct J.
  - discriminate.
Qed.
Print Assumptions rdo_e_result_ch.

(* cascade *)
Lemma rdo_e_result_cascade : forall st0 n0 sc I D t, rdo_e_pcP st0 n0 sc I D -> rdo_e_result st0 n0 I D t ->
  rdo_i_cascade (rdo_st t) = true.
Proof. intros st0 n0 sc I D t PC (dd & V & _ & IFF & FO). set (R := rdo_i_redo st0 I D) in *.
  pose proof (rdo_e_p_wf _ _ _ _ _ PC) as W. pose proof (rdo_e_wfp_nodup _ _ W) as ND0.
  pose proof (proj1 (rdo_d_cascade_spec st0) (rdo_e_p_casc _ _ _ _ _ PC)) as CP0.
  assert (GOF: forall p, p < n0 -> rdo_get (rdo_st t) p = option_map (rdo_e_oldk n0 R I) (rdo_get st0 p)).
  { intros p Lp. rewrite <- (rdo_e_get_map (rdo_e_oldk n0 R I)); auto. rewrite <- FO. symmetry.
    apply (rdo_e_get_filter (fun i => i <? n0)). apply N.ltb_lt; auto. }
  assert (ITEM: forall y, In y (rdo_st t) -> (exists x, In x st0 /\ y = rdo_e_oldk n0 R I x) \/
            (exists j x l r, In j R /\ rdo_get st0 j = Some x /\ y = rdo_e_newk (rdo_e_cp n0 R j) (rdo_e_mpar n0 R (rdo_par x)) x l r)).
  { intros y Iy. destruct (rdo_e_inv_item _ _ _ _ _ _ V Iy) as [(x & Ix & Ey)|K]; auto. left.
    assert (In y (filter (rdo_e_isold n0) (rdo_st t))) as K. { apply filter_In. split; auto. subst y. simpl. apply N.ltb_lt. apply (rdo_e_wfp_item _ _ W _ Ix). }
    rewrite FO in K. apply in_map_iff in K. destruct K as (x1 & E1 & I1). eauto. }
  apply rdo_d_cascade_spec. intros y Iy p z Py Gz Dz.
  destruct (ITEM y Iy) as [(x & Ix & Ey)|(j & x & l & r & Ij & Gj & Ey)]; subst y; simpl in *.
  - destruct (rdo_e_wfp_item _ _ W _ Ix) as (Lx & WP). destruct (WP p Py) as (Lp & xp & kk & Gp & _).
    rewrite GOF, Gp in Gz; [|lia]. simpl in Gz. inversion Gz; subst z. simpl in Dz.
    destruct (rdo_del x) eqn:Dx; auto. simpl. apply orb_true_iff in Dz. destruct Dz as [Dp|Mp].
    + rewrite (CP0 x Ix p xp Py Gp Dp) in Dx. discriminate.
    + destruct (rdo_a_get_in _ _ _ Gp) as (_ & Ep). rewrite Ep in Mp. apply rdo_e_mem_in in Mp. apply rdo_e_mem_in.
      apply (rdo_e_p_c2 _ _ _ _ _ PC x p); auto.
  - exfalso. destruct (rdo_a_get_in _ _ _ Gj) as (Ix & Ex). destruct (rdo_e_wfp_item _ _ W _ Ix) as (Lx & WP).
    destruct (rdo_e_p_c3 _ _ _ _ _ PC x Ix) as (_ & _ & Px). rewrite Ex; auto.
    unfold rdo_e_mpar in Py. destruct (rdo_par x) eqn:P; try discriminate. destruct (WP id eq_refl) as (Lp & xp & kk & Gp & _).
    destruct (rdo_mem id R) eqn:M.
    + inversion Py; subst p. apply rdo_e_mem_in in M. destruct (rdo_e_v_new _ _ _ _ _ V _ M) as (x2 & l2 & r2 & _ & G2).
      fold R in G2. rewrite G2 in Gz. inversion Gz; subst z. simpl in Dz. discriminate.
    + inversion Py; subst p. rewrite GOF, Gp in Gz; [|rewrite Ex in Lp; lia]. simpl in Gz. inversion Gz; subst z. simpl in Dz.
      destruct Px as [(A & B)|K]. 2: { apply rdo_e_mem_in in K. fold R in K. congruence. }
      unfold rdo_i_isdel in A. rewrite Gp in A. rewrite A in Dz. simpl in Dz. destruct (rdo_a_get_in _ _ _ Gp) as (_ & Ep). rewrite Ep in Dz.
      apply rdo_e_mem_in in Dz. auto.
Qed.
Print Assumptions rdo_e_result_cascade.

(* scope *)
Definition rdo_e_le (st : list rdo_item) (i : N) : nat := length (filter (fun y => rdo_id y <=? i) st).
Lemma rdo_e_le_len : forall st i, (rdo_e_le st i <= length st)%nat.
Proof. intros. apply rdo_e_filter_len. Qed.
Print Assumptions rdo_e_le_len.
Lemma rdo_e_le_lt : forall st x p, In x st -> p < rdo_id x -> (rdo_e_le st p < rdo_e_le st (rdo_id x))%nat.
Proof. unfold rdo_e_le. induction st; simpl; intros x p Ix L. destruct Ix.
  assert (MONO: forall l : list rdo_item, (length (filter (fun y => rdo_id y <=? p) l) <= length (filter (fun y => rdo_id y <=? rdo_id x) l))%nat).
  { induction l; simpl; auto. destruct (rdo_id a0 <=? p) eqn:E1.
    - assert (rdo_id a0 <=? rdo_id x = true) as E2 by (apply N.leb_le; apply N.leb_le in E1; lia). rewrite E2. simpl. lia.
    - destruct (rdo_id a0 <=? rdo_id x); simpl; lia. }
  destruct Ix as [E|Ix].
  - subst a. assert (rdo_id x <=? p = false) as E1 by (apply N.leb_gt; auto). rewrite E1, N.leb_refl. simpl. pose proof (MONO st). lia.
  - pose proof (IHst x p Ix L). destruct (rdo_id a <=? p) eqn:E1.
    + assert (rdo_id a <=? rdo_id x = true) as E2 by (apply N.leb_le; apply N.leb_le in E1; lia). rewrite E2. simpl. lia.
    + destruct (rdo_id a <=? rdo_id x); simpl; lia. Qed.
Print Assumptions rdo_e_le_lt.

Lemma rdo_e_insc_scope : forall sc st, rdo_a_parlt st -> forall f i, (rdo_e_le st i <= f)%nat -> rdo_b_insc sc st i ->
  rdo_is_parent_of f st sc i = true.
Proof. intros sc st PL. induction f; intros i LE H.
  - exfalso. inversion H; subst; destruct (rdo_a_get_in _ _ _ H0) as (Ix & Ex);
      assert (In x (filter (fun y => rdo_id y <=? i) st)) as K by (apply filter_In; split; auto; apply N.leb_le; lia);
      unfold rdo_e_le in LE; destruct (filter (fun y => rdo_id y <=? i) st); simpl in *; try tauto; lia.
  - simpl. inversion H; subst; rewrite H0, H1; auto. apply IHf; auto.
    destruct (rdo_a_get_in _ _ _ H0) as (Ix & Ex). pose proof (PL _ _ Ix H1) as Lp. pose proof (rdo_e_le_lt st x p Ix Lp). rewrite Ex in H3. lia. Qed.
Print Assumptions rdo_e_insc_scope.

Lemma rdo_e_result_scope : forall st0 n0 sc I D t, rdo_e_pcP st0 n0 sc I D -> StronglySorted N.lt D -> rdo_e_result st0 n0 I D t ->
  forall y, In y (rdo_st t) -> rdo_in_scope (rdo_st t) sc (rdo_id y) = true.
Proof. intros st0 n0 sc I D t PC SSD RES. pose proof RES as (dd & V & _ & IFF & FO). set (R := rdo_i_redo st0 I D) in *.
  pose proof (rdo_e_p_wf _ _ _ _ _ PC) as W. pose proof (rdo_e_wfp_nodup _ _ W) as ND0.
  assert (W2: rdo_i_wfp (rdo_st t) (rdo_next t) = true) by (eapply rdo_e_result_wfp; eauto).
  pose proof (rdo_e_wfp_parlt _ _ W2) as PL2.
  assert (GO: forall p, p < n0 -> rdo_get (rdo_st t) p = option_map (rdo_e_oldk n0 R dd) (rdo_get st0 p)) by (intros; apply rdo_e_inv_get_old; auto).
  assert (S0: forall j x, rdo_get st0 j = Some x -> rdo_b_insc sc st0 j).
  { intros j x Gj. destruct (rdo_a_get_in _ _ _ Gj) as (Ix & Ex). rewrite <- Ex. eapply rdo_b_parent_of_insc. apply (rdo_e_p_sc _ _ _ _ _ PC); auto. }
  assert (OLD: forall j, rdo_b_insc sc st0 j -> rdo_b_insc sc (rdo_st t) j).
  { intros j H. induction H.
    - assert (i < n0) as Li. { destruct (rdo_a_get_in _ _ _ H) as (Ix & Ex). rewrite <- Ex. apply (rdo_e_wfp_item _ _ W _ Ix). }
      eapply rdo_b_insc_root; [rewrite GO, H; auto; reflexivity| |]; eauto.
    - assert (i < n0) as Li. { destruct (rdo_a_get_in _ _ _ H) as (Ix & Ex). rewrite <- Ex. apply (rdo_e_wfp_item _ _ W _ Ix). }
      eapply rdo_b_insc_item; [rewrite GO, H; auto; reflexivity| |]; eauto. }
  assert (NEW: forall m j, j < m -> In j R -> rdo_b_insc sc (rdo_st t) (rdo_e_cp n0 R j)).
  { induction m using N.peano_ind; intros j Lj Ij. lia.
    destruct (rdo_e_v_new _ _ _ _ _ V _ Ij) as (x & l & r & Gj & Gc). fold R in Gc.
    destruct (rdo_a_get_in _ _ _ Gj) as (Ix & Ex). destruct (rdo_e_wfp_item _ _ W _ Ix) as (Lx & WP).
    pose proof (S0 _ _ Gj) as SJ. destruct (rdo_par x) eqn:P.
    - eapply rdo_b_insc_root. exact Gc. simpl. reflexivity. inversion SJ; subst; rewrite Gj in H; inversion H; subst; congruence.
    - assert (rdo_b_insc sc st0 id) as SP. { inversion SJ; subst; rewrite Gj in H; inversion H; subst; congruence. }
      destruct (WP id eq_refl) as (Lp & _). rewrite Ex in Lp. unfold rdo_e_mpar in Gc.
      destruct (rdo_mem id R) eqn:M.
      + eapply rdo_b_insc_item. exact Gc. simpl. reflexivity. apply IHm. lia. apply rdo_e_mem_in; auto.
      + eapply rdo_b_insc_item. exact Gc. simpl. reflexivity. apply OLD; auto. }
  intros y Iy. unfold rdo_in_scope. apply rdo_e_insc_scope; auto. pose proof (rdo_e_le_len (rdo_st t) (rdo_id y)). lia.
  destruct (rdo_e_inv_item _ _ _ _ _ _ V Iy) as [(x & Ix & Ey)|(j & x & l & r & Ij & Gj & Ey)]; subst y; simpl.
  - apply OLD. apply (S0 _ x). apply rdo_a_in_get; auto.
  - apply (NEW (j + 1)); auto. lia.
Qed.
Print Assumptions rdo_e_result_scope.

(* the fold over a prefix of R *)
Lemma rdo_e_fold_Gp : forall st0 n0 I ri s1 s2 Rall, rdo_i_wfp st0 n0 = true ->
  (forall y p, In y st0 -> rdo_del y = false -> rdo_par y = RdoItem p -> In p I -> In (rdo_id y) I) ->
  (forall j, In j I -> exists y, rdo_get st0 j = Some y) ->
  (forall i, In i Rall -> rdo_e_condG st0 I Rall i) -> StronglySorted N.lt Rall ->
  (forall y p, In y st0 -> rdo_par y = RdoItem p -> In p Rall -> rdo_red y = None) ->
  forall rest todo done t c dk, rdo_e_inv st0 n0 done dk t -> done ++ todo ++ rest = Rall ->
    (forall j, In j dk -> In j I /\ rdo_i_isdel st0 j = false) -> NoDup dk ->
    exists t' dk', fold_left (rdo_e_fredo ri I s1 s2) todo (RdoOk (t, c)) = RdoOk (t', c || rdo_is_some (hd_error todo)) /\
       rdo_e_inv st0 n0 (done ++ todo) dk' t' /\ (forall j, In j dk' -> In j I /\ rdo_i_isdel st0 j = false) /\ NoDup dk'.
Proof. intros st0 n0 I ri s1 s2 Rall W C2 IP COND SSR C5. pose proof (rdo_e_wfp_nodup _ _ W) as ND0.
  assert (PARR: forall j xj p, In j Rall -> rdo_get st0 j = Some xj -> rdo_par xj = RdoItem p -> In p Rall \/ ~ In p I).
  { intros j xj p Ij Gj Pj. destruct (COND _ Ij) as (x & G & _ & _ & PAR & _). rewrite Gj in G. inversion G; subst x. rewrite Pj in PAR.
    destruct PAR as [K|(_ & K & _)]; auto. }
  intros rest. induction todo; intros done t c dk V ER DK NDK.
  - simpl. rewrite app_nil_r. rewrite orb_false_r. exists t, dk. split; auto.
  - rewrite <- ER in SSR. destruct (rdo_e_ss_app _ _ SSR) as (SSd & SSt & LTdt).
    assert (LTa: forall j, In j done -> j < a) by (intros; apply LTdt; simpl; auto).
    simpl app in ER, SSt, LTdt.
    assert (SUBR: forall j, In j (done ++ [a]) -> In j Rall).
    { intros j Ij. rewrite <- ER. apply in_app_or in Ij. apply in_or_app. simpl in *. tauto. }
    assert (NI: ~ In a done) by (intro K; apply LTa in K; lia).
    assert (IA: In a Rall) by (apply SUBR; apply in_or_app; simpl; auto).
    destruct (COND _ IA) as (x & G & RED & DEL & PAR & MAPC).
    destruct (rdo_a_get_in _ _ _ G) as (Ix & Ex). destruct (rdo_e_wfp_item _ _ W _ Ix) as (LI & WP). rewrite Ex in LI.
    assert (NPI: forall j xj, In j done -> rdo_get st0 j = Some xj -> rdo_par xj <> RdoItem a).
    { intros j xj Ij Gj K. destruct (rdo_a_get_in _ _ _ Gj) as (Ixj & Exj). destruct (rdo_e_wfp_item _ _ W _ Ixj) as (_ & WPj).
      destruct (WPj a K). apply LTa in Ij. lia. }
    assert (INDONE: forall p, rdo_par x = RdoItem p -> In p Rall -> In p done).
    { intros p Pp Ip. destruct (WP p Pp) as (Lp & _). rewrite Ex in Lp. rewrite <- ER in Ip. apply in_app_or in Ip. destruct Ip as [?|[E|K]]; auto.
      subst; lia. inversion SSt; subst. rewrite Forall_forall in H2. apply H2 in K. lia. }
    assert (MPK: rdo_e_mpok st0 n0 I done).
    { apply rdo_e_mp_gen; auto. intros j xj p Ij Gj Pj. assert (In j Rall) as IjR by (apply SUBR; apply in_or_app; auto).
      destruct (PARR j xj p IjR Gj Pj) as [K|K]; auto. left.
      destruct (rdo_a_get_in _ _ _ Gj) as (Ixj & Exj). destruct (rdo_e_wfp_item _ _ W _ Ixj) as (_ & WPj). destruct (WPj p Pj) as (Lp & _).
      rewrite Exj in Lp. rewrite <- ER in K. apply in_app_or in K. destruct K as [?|K]; auto. apply (LTdt j p) in K; auto. lia. }
    destruct (rdo_e_inv_gen_props _ _ _ _ _ _ V W C2 MPK) as (PLt & CLt).
    assert (UNIQd: forall k, rdo_sub x = Some k -> forall j xj, In j done -> rdo_get st0 j = Some xj -> ~ (rdo_par xj = rdo_par x /\ rdo_sub xj = Some k)).
    { intros k Sk j xj Ij Gj. destruct (MAPC k Sk) as (_ & UNIQ). apply (UNIQ j xj); auto. apply SUBR; apply in_or_app; auto. intro K; subst j; auto. }
    assert (STEP: exists t1 d, rdo_redo (S (length (rdo_st t))) t a ri I s1 s2 = RdoOk (t1, Some (rdo_next t)) /\
              rdo_e_inv st0 n0 (done ++ [a]) (dk ++ d) t1 /\ NoDup d /\ (forall j, In j d -> In j I /\ rdo_i_isdel st0 j = false /\ ~ In j dk)).
    { assert (CASEB: forall p, rdo_par x = RdoItem p -> In p Rall ->
                exists t1 d, rdo_redo (S (length (rdo_st t))) t a ri I s1 s2 = RdoOk (t1, Some (rdo_next t)) /\
                  rdo_e_inv st0 n0 (done ++ [a]) (dk ++ d) t1 /\ NoDup d /\ (forall j, In j d -> In j I /\ rdo_i_isdel st0 j = false /\ ~ In j dk)).
      { intros p Pp Ip. pose proof (INDONE p Pp Ip) as Ipd. destruct (COND _ Ip) as (xp & Gxp & _ & Dxp & _).
        destruct (rdo_e_step_B st0 n0 done dk t a x p xp (length (rdo_st t)) ri I s1 s2 V W G RED NI Pp Ipd Gxp Dxp NPI) as (t1 & E & V1); auto.
        - intros y Iy Py. apply (C5 y p); auto.
        - exists t1, []. rewrite app_nil_r. split; auto. split; auto. split. constructor. intros j []. }
      assert (CASEA: (forall p, rdo_par x = RdoItem p -> ~ In p Rall /\ ~ In p I) ->
                match rdo_par x with RdoRoot _ => True | RdoItem p => exists pit kk, rdo_get st0 p = Some pit /\ rdo_del pit = false /\ rdo_cnt pit = RdoType kk end ->
                exists t1 d, rdo_redo (S (length (rdo_st t))) t a ri I s1 s2 = RdoOk (t1, Some (rdo_next t)) /\
                  rdo_e_inv st0 n0 (done ++ [a]) (dk ++ d) t1 /\ NoDup d /\ (forall j, In j d -> In j I /\ rdo_i_isdel st0 j = false /\ ~ In j dk)).
      { intros PA PARA. assert (PI: forall p, rdo_par x = RdoItem p -> ~ In p (done ++ [a]) /\ ~ In p I).
        { intros p Pp. destruct (PA p Pp) as (A & B). split; auto. }
        destruct (rdo_sub x) as [k|] eqn:SUB.
        - destruct (MAPC k eq_refl) as (C4 & UNIQ).
          apply (rdo_e_step_mapA st0 n0 I done dk t a x k); auto.
          + intros j xj Ij Gj MPj. unfold rdo_e_mpar in MPj. destruct (rdo_par xj) eqn:Pj.
            * auto.
            * destruct (rdo_mem id done) eqn:M; auto. destruct (rdo_par x) eqn:Px; try discriminate. inversion MPj.
              apply rdo_e_mem_in in M. pose proof (rdo_e_cp_lt n0 done id M). destruct (WP id0 eq_refl). lia.
          + intros j Ij. destruct (C4 _ Ij) as (A & B & C). split; auto. split; auto. intro K. apply B. apply SUBR. apply in_or_app; auto.
          + intros j xj Ij Gj. apply (UNIQd k eq_refl j xj); auto.
          + intros j Ij. apply DK; auto.
        - destruct (rdo_e_step_seqA st0 n0 done dk t a V ND0) as (t1 & E & V1); auto.
          + exists x. repeat (split; auto). destruct (rdo_par x) eqn:P; auto. destruct PARA as (pit & kk & Gp & Dp & Cp).
            exists pit, kk. repeat (split; auto). intro K. apply DK in K. destruct (PA id eq_refl) as (_ & B). tauto.
            destruct (WP id eq_refl). lia.
          + intros p x0 G0 P0. rewrite G in G0. inversion G0; subst x0. apply (PI p); auto.
          + exists t1, []. rewrite app_nil_r. split; auto. split; auto. split. constructor. intros j []. }
      destruct (rdo_par x) eqn:P.
      - apply CASEA; auto. intros p Pp; discriminate.
      - destruct PAR as [K|(K1 & K2 & K3)].
        + apply (CASEB id); auto.
        + apply CASEA; auto. intros p Pp. inversion Pp; subst; auto. }
    destruct STEP as (t1 & d & E & V1 & NDd & DL).
    cbn [fold_left]. unfold rdo_e_fredo at 2. cbn [rdo_bind]. rewrite E. cbn [rdo_bind rdo_is_some].
    assert (SSR': StronglySorted N.lt Rall) by (rewrite <- ER; exact SSR). clear SSR. rename SSR' into SSR.
    destruct (IHtodo (done ++ [a]) t1 (c || true) (dk ++ d) V1) as (t' & dk' & E' & V' & DK' & NDK').
    + rewrite <- app_assoc. simpl. auto.
    + intros j Ij. apply in_app_or in Ij. destruct Ij as [Ij|Ij]; auto. destruct (DL _ Ij) as (A & B & _); auto.
    + apply rdo_e_nodup_app; auto. intros j Ij. apply DL; auto.
    + exists t', dk'. rewrite E'. rewrite <- app_assoc in V'. simpl in V'. split; auto. f_equal. f_equal. simpl. rewrite orb_true_r. auto.
Qed.
Print Assumptions rdo_e_fold_Gp.

(* ---- order facts: an appended map copy stays behind the old entries of its chain *)
Lemma rdo_e_subseq_in : forall l l', rdo_b_subseq l l' -> forall x, In x l -> In x l'.
Proof. induction 1; simpl; intros; auto. destruct H0; auto. Qed.
Print Assumptions rdo_e_subseq_in.
Lemma rdo_e_subseq_nil : forall l, rdo_b_subseq [] l.
Proof. induction l; constructor; auto. Qed.
Print Assumptions rdo_e_subseq_nil.
Lemma rdo_e_subseq_app_skip : forall a l l', rdo_b_subseq l l' -> rdo_b_subseq l (a ++ l').
Proof. induction a; simpl; intros; auto. constructor; auto. Qed.
Print Assumptions rdo_e_subseq_app_skip.
Lemma rdo_e_subseq_pair : forall (B A : list N) z c, NoDup (B ++ c :: A) -> z <> c -> rdo_b_subseq [z; c] (B ++ c :: A) -> In z B.
Proof. induction B; simpl; intros A z c ND NE H.
  - exfalso. inversion ND; subst. inversion H; subst; try congruence. apply H2. apply (rdo_e_subseq_in _ _ H4). simpl; auto.
  - inversion ND; subst. inversion H; subst; auto. right. eapply IHB; eauto. Qed.
Print Assumptions rdo_e_subseq_pair.

Lemma rdo_e_mapA_pos : forall st0 n0 I done dk t i x k f ri s1 s2,
  rdo_e_inv st0 n0 done dk t -> rdo_i_wfp st0 n0 = true ->
  (forall y p, In y st0 -> rdo_del y = false -> rdo_par y = RdoItem p -> In p I -> In (rdo_id y) I) ->
  (forall p, rdo_par x = RdoItem p -> ~ In p (done ++ [i]) /\ ~ In p I) ->
  (forall j xj, In j done -> rdo_get st0 j = Some xj -> rdo_par xj <> RdoItem i) ->
  rdo_a_parlt (rdo_st t) ->
  (forall y p, In y (rdo_st t) -> rdo_del y = false -> rdo_par y = RdoItem p -> In p I -> In (rdo_id y) I) ->
  (forall j xj, In j done -> rdo_get st0 j = Some xj -> rdo_e_mpar n0 done (rdo_par xj) = rdo_par x -> rdo_par xj = rdo_par x) ->
  rdo_get st0 i = Some x -> rdo_red x = None -> rdo_del x = true -> rdo_sub x = Some k -> ~ In i done ->
  match rdo_par x with
  | RdoRoot _ => True
  | RdoItem p => exists pit kk, rdo_get st0 p = Some pit /\ rdo_del pit = false /\ rdo_cnt pit = RdoType kk
  end ->
  (forall j, In j (rdo_rights st0 i) -> In j I /\ ~ In j done /\ exists y, rdo_get st0 j = Some y /\ rdo_red y = None) ->
  (forall j xj, In j done -> rdo_get st0 j = Some xj -> ~ (rdo_par xj = rdo_par x /\ rdo_sub xj = Some k)) ->
  (forall j, In j dk -> In j I) -> (forall j, In j I -> exists y, rdo_get st0 j = Some y) ->
  forall t' o, rdo_redo (S f) t i ri I s1 s2 = RdoOk (t', o) ->
  forall z1, In z1 (rdo_st t') -> rdo_id z1 <> rdo_next t -> rdo_par z1 = rdo_par x -> rdo_sub z1 = Some k ->
    rdo_b_subseq [rdo_id z1; rdo_next t] (map rdo_id (rdo_st t')).
Proof. intros st0 n0 I done dk t i x k f ri s1 s2 V W C2 PI NPI PLt CLt NEWCH G RED DEL SUB NI PAR C4 UNIQ DKI IP t' o ER z1 Iz NEz Pz Sz.
  destruct (rdo_e_step_mapA_x st0 n0 I done dk t i x k f ri s1 s2 V W C2 PI NPI PLt CLt NEWCH G RED DEL SUB NI PAR C4 UNIQ DKI IP)
    as (t1 & d & E1 & V1 & _ & _ & STX).
  rewrite ER in E1. inversion E1; subst t1. clear E1.
  set (nid := rdo_next t) in *. set (lst := last (rdo_rights (rdo_st t) i) i) in *.
  set (st2 := rdo_update (rdo_st t) i (fun y => rdo_set_red y nid)) in *.
  set (copy := {| rdo_id := nid; rdo_par := rdo_par x; rdo_sub := Some k; rdo_cnt := rdo_cnt x; rdo_del := false; rdo_keep := true;
                  rdo_red := None; rdo_org := Some lst; rdo_rorg := None |}) in *.
  pose proof (rdo_e_v_nd _ _ _ _ _ V) as NDt.
  assert (IDS2: map rdo_id st2 = map rdo_id (rdo_st t)) by (apply rdo_a_ids_update; auto).
  assert (ND2: NoDup (map rdo_id st2)) by (rewrite IDS2; auto).
  destruct (rdo_a_get_in _ _ _ G) as (Ix & Ex). assert (LI: i < n0). { rewrite <- Ex. apply (rdo_e_wfp_item _ _ W _ Ix). }
  pose proof (rdo_e_inv_get_old _ _ _ _ _ i V LI) as Gi. rewrite G in Gi. simpl in Gi.
  set (item := rdo_e_oldk n0 done dk x) in *.
  destruct (rdo_e_get_split _ _ _ Gi) as (a & b & ST & NIa & Ei).
  set (P := rdo_par x) in *. set (g := rdo_in_chain P (Some k)).
  assert (GI: g item = true). { unfold g, P. change (rdo_par x) with (rdo_par item). rewrite <- SUB. change (rdo_sub x) with (rdo_sub item). apply rdo_e_in_chain_refl. }
  assert (MG: rdo_map_get st2 P k = Some lst).
  { rewrite rdo_a_map_get_ids.
    assert (R0: Forall2 rdo_a_R0 (rdo_st t) st2). { apply rdo_a_update_R0. intros y; unfold rdo_a_R0; simpl; auto. }
    rewrite (rdo_a_chain_ids_R0 _ _ R0 P (Some k)). unfold rdo_chain. rewrite ST, filter_app. simpl. fold g. rewrite GI. rewrite map_app. simpl.
    try rewrite Ei; try rewrite Ex. assert (NIa': ~ In (rdo_id item) (map rdo_id a)) by (rewrite Ei; auto).
    destruct (rdo_e_lr_app a item b NIa') as (_ & RT). rewrite <- ST, Ei in RT. change (rdo_par item) with P in RT.
    change (rdo_sub item) with (rdo_sub x) in RT. rewrite SUB in RT. fold g in RT. rewrite <- RT. apply rdo_e_hd_rev_last. }
  destruct (rdo_a_map_get_last st2 P k lst ND2 MG) as (a'' & y & b'' & E2 & Ey & NIy & Gy & Fb).
  assert (LK: rdo_link st2 (Some lst) copy = a'' ++ y :: copy :: b'') by (simpl; rewrite E2; apply rdo_a_insert_after_app; auto).
  rewrite LK in STX.
  assert (IDS: map rdo_id (rdo_st t') = map rdo_id a'' ++ rdo_id y :: nid :: map rdo_id b'').
  { rewrite STX, rdo_e_kill_ids, map_app. reflexivity. }
  rewrite IDS.
  rewrite STX in Iz. unfold rdo_e_kill in Iz. apply in_map_iff in Iz. destruct Iz as (z0 & Ez0 & Iz0).
  assert (rdo_id z0 = rdo_id z1 /\ rdo_par z0 = P /\ rdo_sub z0 = Some k) as (E0 & P0 & S0).
  { subst z1. destruct (rdo_mem (rdo_id z0) d); simpl in *; auto. }
  rewrite <- E0. rewrite <- E0 in NEz.
  assert (TAIL: rdo_b_subseq [nid] (nid :: map rdo_id b'')) by (apply rdo_b_subseq_keep; apply rdo_e_subseq_nil).
  apply in_app_or in Iz0. destruct Iz0 as [Iz0|[Iz0|[Iz0|Iz0]]].
  - apply in_split in Iz0. destruct Iz0 as (u & v & Ea). subst a''. rewrite map_app. simpl. rewrite <- app_assoc. simpl.
    apply rdo_e_subseq_app_skip. apply rdo_b_subseq_keep. apply rdo_e_subseq_app_skip. apply rdo_b_subseq_skip. exact TAIL.
  - subst z0. apply rdo_e_subseq_app_skip. apply rdo_b_subseq_keep. exact TAIL.
  - subst z0. simpl in NEz. congruence.
  - exfalso. assert (In z0 (filter (rdo_in_chain P (Some k)) b'')) as K.
    { apply filter_In. split; auto. unfold rdo_in_chain. rewrite P0, S0, rdo_a_par_eqb_refl. simpl. apply N.eqb_refl. }
    rewrite Fb in K. destruct K.
Qed.
Print Assumptions rdo_e_mapA_pos.

Lemma rdo_e_condG_of_pc : forall st0 n0 sc I D, rdo_e_pcP st0 n0 sc I D ->
  forall i, In i (rdo_i_redo st0 I D) -> rdo_e_condG st0 I (rdo_i_redo st0 I D) i.
Proof. intros st0 n0 sc I D PC i Ii. set (R := rdo_i_redo st0 I D) in *.
  pose proof (rdo_e_p_wf _ _ _ _ _ PC) as W. pose proof (rdo_e_wfp_nodup _ _ W) as ND0.
  assert (C3: forall j x, In j R -> rdo_get st0 j = Some x -> In x st0 /\ rdo_id x = j /\ rdo_del x = true /\ rdo_red x = None /\
            forall p, rdo_par x = RdoItem p -> (rdo_i_isdel st0 p = false /\ ~ In p I) \/ In p R).
  { intros j x Ij Gj. destruct (rdo_a_get_in _ _ _ Gj) as (Ix & Ex). split; auto. split; auto.
    destruct (rdo_e_p_c3 _ _ _ _ _ PC x Ix) as (Dx & Rx & Px). rewrite Ex; auto. split; auto. split; auto.
    intros p Pp. rewrite Pp in Px. auto. }
  destruct (rdo_e_redo_in _ _ _ _ Ii) as (ID & NI & x & G). destruct (C3 _ _ Ii G) as (Ix & Ex & Dx & Rx & Px).
  destruct (rdo_e_wfp_item _ _ W _ Ix) as (L & WP).
  exists x. split; auto. split; auto. split; auto. split.
  + destruct (rdo_par x) eqn:P; auto. destruct (in_dec N.eq_dec id R) as [K|K]; auto. right. split; auto.
    destruct (Px id eq_refl) as [(A & B)|K']; try tauto. split; auto.
    apply rdo_e_isdel_live in A. destruct A as (pit & Gp & Dp). destruct (WP id eq_refl) as (Lp & y & k & Gy & Cy).
    rewrite Gp in Gy. inversion Gy; subst y. exists pit, k. auto.
  + intros k Sk. assert (SN: rdo_sub x <> None) by congruence. split.
    * intros j Ij. rewrite <- Ex in Ij. apply (rdo_e_p_c4 _ _ _ _ _ PC x Ix); auto. rewrite Ex; auto.
    * intros j xj Ij NE Gj (P1 & S1). destruct (C3 _ _ Ij Gj) as (Ixj & Exj & _).
      destruct (rdo_e_chain_lr st0 x xj ND0 Ix Ixj) as [K|K]; try congruence.
      -- rewrite Exj in K. apply (rdo_e_p_c4 _ _ _ _ _ PC x Ix) in K; auto. destruct K as (_ & K & _). apply K; auto. rewrite Ex; auto.
      -- rewrite Ex in K. apply (rdo_e_p_c4 _ _ _ _ _ PC xj Ixj) in K; auto. destruct K as (_ & K & _). apply K; auto. rewrite Exj; auto. congruence.
Qed.
Print Assumptions rdo_e_condG_of_pc.

Lemma rdo_e_fredo_ext : forall ri td s1 s2 l a a', fold_left (rdo_e_fredo ri td s1 s2) l (RdoOk a) = RdoOk a' ->
  rdo_b_ext (rdo_st (fst a)) (rdo_st (fst a')).
Proof. intros ri td s1 s2. apply (rdo_b_fold_inv (rdo_e_fredo ri td s1 s2) (fun a a' => rdo_b_ext (rdo_st (fst a)) (rdo_st (fst a')))).
  - intros; apply rdo_b_ext_refl.
  - intros; eapply rdo_b_ext_trans'; eauto.
  - reflexivity.
  - intros (t, c) i a' H. unfold rdo_e_fredo in H. cbn [rdo_bind] in H.
    destruct (rdo_redo (S (length (rdo_st t))) t i ri td s1 s2) as [(t', o)|] eqn:E; simpl in H; try discriminate.
    inversion H; subst. simpl. eapply rdo_b_redo_ext; eauto. Qed.
Print Assumptions rdo_e_fredo_ext.
Lemma rdo_e_tdfold_ext : forall l a a', fold_left rdo_e_tdfold l (RdoOk a) = RdoOk a' -> rdo_b_ext (rdo_st a) (rdo_st a').
Proof. apply (rdo_b_fold_inv rdo_e_tdfold (fun a a' => rdo_b_ext (rdo_st a) (rdo_st a'))).
  - intros; apply rdo_b_ext_refl.
  - intros; eapply rdo_b_ext_trans'; eauto.
  - reflexivity.
  - intros t i a' H. unfold rdo_e_tdfold in H. cbn [rdo_bind] in H. eapply rdo_b_txn_delete_ext; eauto. Qed.
Print Assumptions rdo_e_tdfold_ext.

Lemma rdo_e_split_pos : forall s e s1 s2 t ch j xj k,
  rdo_i_pc (rdo_doc s) (rdo_clock s) (rdo_scope s) (rdo_sins e) (rdo_sdel e) = true -> StronglySorted N.lt (rdo_sdel e) ->
  rdo_process s e s1 s2 = RdoOk (t, ch) ->
  In j (rdo_i_redo (rdo_doc s) (rdo_sins e) (rdo_sdel e)) -> rdo_get (rdo_doc s) j = Some xj -> rdo_sub xj = Some k ->
  (forall p, rdo_par xj = RdoItem p -> ~ In p (rdo_i_redo (rdo_doc s) (rdo_sins e) (rdo_sdel e))) ->
  forall zid z0, rdo_get (rdo_doc s) zid = Some z0 -> rdo_par z0 = rdo_par xj -> rdo_sub z0 = Some k ->
    rdo_b_subseq [zid; rdo_e_cp (rdo_clock s) (rdo_i_redo (rdo_doc s) (rdo_sins e) (rdo_sdel e)) j] (map rdo_id (rdo_st t)).
Proof. intros s e s1 s2 t ch j xj k PC0 SSD H Ij Gj SUBj PNR zid z0 Gz Pz Sz. pose proof (rdo_e_pc_unpack _ _ _ _ _ PC0) as PC.
  set (st0 := rdo_doc s) in *. set (I := rdo_sins e) in *. set (D := rdo_sdel e) in *. set (n0 := rdo_clock s) in *.
  set (R := rdo_i_redo st0 I D) in *.
  pose proof (rdo_e_p_wf _ _ _ _ _ PC) as W. pose proof (rdo_e_wfp_nodup _ _ W) as ND0.
  assert (SSR: StronglySorted N.lt R) by (apply rdo_e_ss_filter; auto).
  assert (IP: forall i, In i I -> exists y, rdo_get st0 i = Some y). { intros i Ii. destruct (rdo_e_p_I _ _ _ _ _ PC _ Ii) as (y & G & _). eauto. }
  pose proof (rdo_e_condG_of_pc _ _ _ _ _ PC) as COND. fold R in COND.
  assert (C5: forall y p, In y st0 -> rdo_par y = RdoItem p -> In p R -> rdo_red y = None) by (intros; eapply (rdo_e_p_c5 _ _ _ _ _ PC); eauto).
  pose proof (rdo_e_p_c2 _ _ _ _ _ PC) as C2.
  apply in_split in Ij. destruct Ij as (d1 & d2 & HR).
  rewrite (rdo_e_process_eq s e s1 s2 (rdo_e_liveI st0 I)) in H.
  2: { rewrite (rdo_e_td st0 (rdo_scope s) I); auto; apply PC. }
  2: apply PC.
  cbv zeta in H. fold st0 I D R in H.
  replace (fold_left (rdo_e_fredo R I s1 s2) R (RdoOk (rdo_begin s, false)))
     with (fold_left (rdo_e_fredo R I s1 s2) (d1 ++ j :: d2) (RdoOk (rdo_begin s, false))) in H by (rewrite <- HR; reflexivity).
  rewrite fold_left_app in H. cbn [fold_left] in H.
  destruct (rdo_e_fold_Gp st0 n0 I R s1 s2 R W C2 IP COND SSR C5 (j :: d2) d1 [] (rdo_begin s) false []) as (tk & dkk & Ek & Vk & DKk & NDKk).
  { apply rdo_e_inv_init; auto. intros y Iy. apply (rdo_e_wfp_item _ _ W _ Iy). }
  { simpl. auto. }
  { intros i []. }
  { constructor. }
  simpl app in Vk. rewrite Ek in H.
  set (ck := false || rdo_is_some (hd_error d1)) in *.
  assert (FJ: rdo_e_fredo R I s1 s2 (RdoOk (tk, ck)) j =
              match rdo_redo (S (length (rdo_st tk))) tk j R I s1 s2 with RdoOk (t', o) => RdoOk (t', ck || rdo_is_some o) | RdoErr er => RdoErr er end).
  { unfold rdo_e_fredo. cbn [rdo_bind]. destruct (rdo_redo (S (length (rdo_st tk))) tk j R I s1 s2) as [(?,?)|]; reflexivity. }
  rewrite FJ in H. destruct (rdo_redo (S (length (rdo_st tk))) tk j R I s1 s2) as [(t', o)|] eqn:ER.
  2: { rewrite rdo_e_fredo_err in H. simpl in H. discriminate. }
  destruct (fold_left (rdo_e_fredo R I s1 s2) d2 (RdoOk (t', ck || rdo_is_some o))) as [(t1e, c1e)|] eqn:E2; [|discriminate].
  cbn [rdo_bind] in H. destruct (fold_left rdo_e_tdfold (rev (rdo_e_liveI st0 I)) (RdoOk t1e)) as [t2|] eqn:E3; [|discriminate].
  cbn [rdo_bind] in H. inversion H; subst t2. clear H.
  pose proof (rdo_e_fredo_ext _ _ _ _ _ _ _ E2) as X1. simpl in X1. pose proof (rdo_e_tdfold_ext _ _ _ E3) as X2.
  pose proof (rdo_b_redo_ext _ _ _ _ _ _ _ _ _ ER) as X0.
  (* the facts about j *)
  assert (IjR: In j R) by (rewrite HR; apply in_or_app; simpl; auto).
  destruct (COND _ IjR) as (x & G & RED & DEL & PAR & MAPC). rewrite Gj in G. inversion G; subst x. clear G.
  destruct (MAPC k SUBj) as (C4 & UNIQ).
  pose proof SSR as SSR'. rewrite HR in SSR'. destruct (rdo_e_ss_app _ _ SSR') as (SSd1 & SSt & LTdt).
  assert (LTj: forall j', In j' d1 -> j' < j) by (intros; apply LTdt; simpl; auto).
  assert (NIj: ~ In j d1) by (intro K; apply LTj in K; lia).
  assert (SUB1: forall j', In j' d1 -> In j' R) by (intros; rewrite HR; apply in_or_app; auto).
  assert (WPI: forall j' x' p, rdo_get st0 j' = Some x' -> rdo_par x' = RdoItem p -> p < j' /\ j' < n0).
  { intros j' x' p G' P'. destruct (rdo_a_get_in _ _ _ G') as (I' & E'). destruct (rdo_e_wfp_item _ _ W _ I') as (L' & WP'). destruct (WP' p P').
    rewrite E' in *. auto. }
  assert (MPK: rdo_e_mpok st0 n0 I d1).
  { apply rdo_e_mp_gen; auto. intros j' x' p Ij' G' P'. destruct (COND _ (SUB1 _ Ij')) as (x2 & G2 & _ & _ & PAR2 & _).
    rewrite G' in G2. inversion G2; subst x2. rewrite P' in PAR2. destruct PAR2 as [K|(_ & K & _)]; auto. left.
    destruct (WPI _ _ _ G' P') as (Lp & _). rewrite HR in K. apply in_app_or in K. destruct K as [?|K]; auto.
    apply (LTdt j' p) in K; auto. lia. }
  destruct (rdo_e_inv_gen_props _ _ _ _ _ _ Vk W C2 MPK) as (PLt & CLt).
  assert (PALL: forall p, rdo_par xj = RdoItem p -> ~ In p R /\ ~ In p I /\ exists pit kk, rdo_get st0 p = Some pit /\ rdo_del pit = false /\ rdo_cnt pit = RdoType kk).
  { intros p Pp. rewrite Pp in PAR. destruct PAR as [K|K]; auto. exfalso. apply (PNR p); auto. }
  assert (POS := rdo_e_mapA_pos st0 n0 I d1 dkk tk j xj k (length (rdo_st tk)) R s1 s2 Vk W C2).
  assert (Lz: zid < n0). { destruct (rdo_a_get_in _ _ _ Gz) as (Iz & Ez). rewrite <- Ez. apply (rdo_e_wfp_item _ _ W _ Iz). }
  assert (Gzk: rdo_get (rdo_st tk) zid = Some (rdo_e_oldk n0 d1 dkk z0)). { rewrite (rdo_e_inv_get_old _ _ _ _ _ zid Vk Lz), Gz. reflexivity. }
  destruct (rdo_a_get_in _ _ _ Gzk) as (Izk & Ezk).
  destruct (rdo_b_ext_in _ _ X0 _ Izk) as (z1 & Iz1 & LE1). destruct LE1 as (E1 & P1 & S1 & _). simpl in E1, P1, S1.
  assert (NXT: rdo_next tk = rdo_e_cp n0 R j).
  { rewrite (rdo_e_v_next _ _ _ _ _ Vk). unfold rdo_e_cp. f_equal. rewrite HR.
    replace (d1 ++ j :: d2) with ((d1 ++ [j]) ++ d2) by (rewrite <- app_assoc; reflexivity).
    rewrite rdo_e_idx_app_l. rewrite rdo_e_idx_app_r; auto. apply in_or_app; simpl; auto. }
  assert (QH1: forall p, rdo_par xj = RdoItem p -> ~ In p (d1 ++ [j]) /\ ~ In p I).
  { intros p Pp. destruct (PALL p Pp) as (A & B & _). split; auto. intro K. apply A. rewrite HR. apply in_app_or in K. apply in_or_app. simpl in *. tauto. }
  assert (QH2: forall j' x', In j' d1 -> rdo_get st0 j' = Some x' -> rdo_par x' <> RdoItem j).
  { intros j' x' Ij' G' K. destruct (WPI _ _ _ G' K). apply LTj in Ij'. lia. }
  assert (QH5: forall j' x', In j' d1 -> rdo_get st0 j' = Some x' -> rdo_e_mpar n0 d1 (rdo_par x') = rdo_par xj -> rdo_par x' = rdo_par xj).
  { intros j' x' Ij' G' MPj. unfold rdo_e_mpar in MPj. destruct (rdo_par x') eqn:Pj; auto.
    destruct (rdo_mem id d1) eqn:M; auto. destruct (rdo_par xj) eqn:Px; try discriminate. inversion MPj.
    apply rdo_e_mem_in in M. pose proof (rdo_e_cp_lt n0 d1 id M). destruct (WPI _ _ _ Gj Px). lia. }
  assert (QH11: match rdo_par xj with RdoRoot _ => True | RdoItem p => exists pit kk, rdo_get st0 p = Some pit /\ rdo_del pit = false /\ rdo_cnt pit = RdoType kk end).
  { destruct (rdo_par xj) eqn:Px; auto. destruct (PALL id eq_refl) as (_ & _ & Q). exact Q. }
  assert (QH12: forall j', In j' (rdo_rights st0 j) -> In j' I /\ ~ In j' d1 /\ exists y, rdo_get st0 j' = Some y /\ rdo_red y = None).
  { intros j' Ij'. destruct (C4 _ Ij') as (A & B & C). split; auto. }
  assert (QH13: forall j' x', In j' d1 -> rdo_get st0 j' = Some x' -> ~ (rdo_par x' = rdo_par xj /\ rdo_sub x' = Some k)).
  { intros j' x' Ij' G'. apply (UNIQ j' x'); auto. intro K; subst j'; auto. }
  assert (QH14: forall j', In j' dkk -> In j' I) by (intros j' Ij'; apply DKk; auto).
  assert (Ezz: rdo_id z0 = zid) by (apply (rdo_a_get_in _ _ _ Gz)).
  assert (NEz: rdo_id z1 <> rdo_next tk). { rewrite E1, Ezz, NXT. pose proof (rdo_e_cp_lt n0 R j IjR). lia. }
  assert (SQ: rdo_b_subseq [rdo_id z1; rdo_next tk] (map rdo_id (rdo_st t'))).
  { apply (POS QH1 QH2 PLt CLt QH5 Gj RED DEL SUBj NIj QH11 QH12 QH13 QH14 IP t' o ER z1 Iz1 NEz); congruence. }
  rewrite E1, Ezz, NXT in SQ.
  eapply rdo_b_subseq_trans; [|exact SQ]. apply rdo_b_ext_subseq. eapply rdo_b_ext_trans'; eauto.
Qed.
Print Assumptions rdo_e_split_pos.

Theorem rdo_e_process_lastlive : forall s e s1 s2 t ch,
  rdo_i_pc (rdo_doc s) (rdo_clock s) (rdo_scope s) (rdo_sins e) (rdo_sdel e) = true -> StronglySorted N.lt (rdo_sdel e) ->
  rdo_process s e s1 s2 = RdoOk (t, ch) -> rdo_i_lastlive (rdo_st t) = true.
Proof. intros s e s1 s2 t ch PC0 SSD H. pose proof (rdo_e_pc_unpack _ _ _ _ _ PC0) as PC.
  destruct (rdo_e_process_ok_partial s e s1 s2 PC0 SSD) as (t0 & EP & RES). pose proof H as H'. rewrite EP in H'. inversion H'; subst t0. clear H' EP.
  set (st0 := rdo_doc s) in *. set (I := rdo_sins e) in *. set (D := rdo_sdel e) in *. set (n0 := rdo_clock s) in *.
  set (R := rdo_i_redo st0 I D) in *.
  pose proof (rdo_e_p_wf _ _ _ _ _ PC) as W. pose proof (rdo_e_wfp_nodup _ _ W) as ND0.
  pose proof (rdo_e_result_wfp _ _ _ _ _ W SSD RES) as W2. pose proof (rdo_d_wfp_nodup _ _ W2) as NBt.
  destruct RES as (dd & V & NDd & IFF & FO). pose proof (rdo_e_v_nd _ _ _ _ _ V) as NDt. fold R in V.
  pose proof (rdo_e_condG_of_pc _ _ _ _ _ PC) as COND. fold R in COND.
  assert (LTP: forall x0 p, In x0 st0 -> rdo_par x0 = RdoItem p -> p < n0).
  { intros x0 p I0 P0. destruct (rdo_e_wfp_item _ _ W _ I0) as (L0 & WP0). destruct (WP0 p P0). lia. }
  assert (LL0: forall x0 k0, In x0 st0 -> rdo_sub x0 = Some k0 -> rdo_del x0 = false -> rdo_rights st0 (rdo_id x0) = []).
  { intros x0 k0 I0 S0 D0. pose proof (rdo_e_all_spec _ _ (rdo_e_p_ll _ _ _ _ _ PC) _ I0) as Q. simpl in Q. rewrite S0, D0 in Q. simpl in Q.
    unfold rdo_right in Q. destruct (rdo_rights st0 (rdo_id x0)); auto. simpl in Q. discriminate. }
  assert (MPI: forall P1 P2, rdo_e_mpar n0 R P1 = P2 -> (forall p, P2 = RdoItem p -> p < n0) -> P1 = P2 /\ forall q, P1 = RdoItem q -> ~ In q R).
  { intros P1 P2 E LT. unfold rdo_e_mpar in E. destruct P1. split; auto. intros q K; discriminate.
    destruct (rdo_mem id R) eqn:M.
    - exfalso. apply rdo_e_mem_in in M. pose proof (rdo_e_cp_lt n0 R id M). pose proof (LT _ (eq_sym E)). lia.
    - split; auto. intros q K. inversion K; subst. apply rdo_e_mem_nin; auto. }
  apply rdo_d_lastlive_spec; auto. intros b' y a' k EST SUBy.
  destruct (rdo_del y) eqn:Dy; [left; auto|right].
  destruct (rdo_chain a' (rdo_par y) (rdo_sub y)) as [|z rest] eqn:CH; auto. exfalso.
  assert (In z (rdo_chain a' (rdo_par y) (rdo_sub y))) as K by (rewrite CH; simpl; auto).
  apply rdo_a_chain_in in K. destruct K as (Iz & Pz & Sz). rewrite SUBy in Sz.
  assert (Iy: In y (rdo_st t)) by (rewrite EST; apply in_or_app; simpl; auto).
  assert (Izt: In z (rdo_st t)) by (rewrite EST; apply in_or_app; simpl; auto).
  assert (NDE := NDt). rewrite EST, map_app in NDE. simpl in NDE. destruct (rdo_e_nodup_app_l _ _ NDE) as (_ & NDya & DJ).
  assert (NEzy: rdo_id z <> rdo_id y). { apply NoDup_cons_iff in NDya. destruct NDya as (NIN & _). intro K. apply NIN. rewrite <- K. apply in_map; auto. }
  destruct (rdo_e_inv_item _ _ _ _ _ _ V Iy) as [(y0 & Iy0 & Ey)|(j & xj & ly & ry & Ij & Gj & Ey)].
  - (* y old and alive *)
    assert (Dy0: rdo_del y0 = false /\ rdo_mem (rdo_id y0) dd = false). { subst y. simpl in Dy. apply orb_false_elim in Dy. auto. }
    destruct Dy0 as (Dy0 & Mdd). assert (Sy0: rdo_sub y0 = Some k) by (subst y; exact SUBy).
    pose proof (LL0 y0 k Iy0 Sy0 Dy0) as RT0.
    destruct (rdo_e_inv_item _ _ _ _ _ _ V Izt) as [(z0 & Iz0 & Ez)|(j2 & xj2 & lz & rz & Ij2 & Gj2 & Ez)].
    + pose proof (rdo_e_v_old _ _ _ _ _ V) as VO. rewrite EST, filter_app in VO. simpl in VO.
      assert (OY: rdo_e_isold n0 y = true). { subst y. unfold rdo_e_isold. simpl. apply N.ltb_lt. apply (rdo_e_wfp_item _ _ W _ Iy0). }
      rewrite OY in VO. symmetry in VO. destruct (rdo_e_map_split _ _ _ _ _ _ _ VO) as (b0 & y0' & a0 & E0 & M1 & Fy & M2).
      assert (y0' = y0).
      { assert (In y0' st0) by (rewrite E0; apply in_or_app; simpl; auto). pose proof (rdo_a_in_get _ _ ND0 H0) as G1.
        assert (rdo_id y0' = rdo_id y0) as E1. { rewrite Ey in Fy. apply (f_equal rdo_id) in Fy. simpl in Fy. auto. }
        rewrite E1, (rdo_a_in_get _ _ ND0 Iy0) in G1. congruence. }
      subst y0'.
      assert (In z (filter (rdo_e_isold n0) a')) as K. { apply filter_In. split; auto. subst z. unfold rdo_e_isold. simpl. apply N.ltb_lt. apply (rdo_e_wfp_item _ _ W _ Iz0). }
      rewrite <- M2 in K. apply in_map_iff in K. destruct K as (z1 & E1 & I1).
      assert (NIb0: ~ In (rdo_id y0) (map rdo_id b0)) by (rewrite E0 in ND0; apply (rdo_e_nodup_mid _ _ _ ND0)).
      destruct (rdo_e_lr_app b0 y0 a0 NIb0) as (_ & RT). rewrite <- E0, RT0 in RT.
      assert (In (rdo_id z1) (map rdo_id (filter (rdo_in_chain (rdo_par y0) (rdo_sub y0)) a0))) as K.
      { apply in_map. apply filter_In. split; auto. rewrite Ey in Pz. rewrite <- E1 in Pz, Sz. simpl in Pz, Sz. unfold rdo_in_chain. rewrite Pz, Sz, Sy0, rdo_a_par_eqb_refl. simpl. apply N.eqb_refl. }
      rewrite <- RT in K. destruct K.
    + rewrite Ey, Ez in Pz. rewrite Ez in Sz. simpl in Pz, Sz.
      destruct (MPI _ _ Pz) as (PE & _). { intros p Pp. eapply LTP; eauto. }
      destruct (rdo_a_get_in _ _ _ Gj2) as (Ix2 & Ex2).
      destruct (rdo_e_p_c3 _ _ _ _ _ PC xj2 Ix2) as (Dx2 & _). rewrite Ex2; auto.
      destruct (rdo_e_chain_lr st0 y0 xj2 ND0 Iy0 Ix2) as [K|K]; try congruence.
      * intro K. assert (y0 = xj2). { pose proof (rdo_a_in_get _ _ ND0 Iy0). pose proof (rdo_a_in_get _ _ ND0 Ix2). congruence. } congruence.
      * rewrite RT0 in K. destruct K.
      * apply (rdo_e_p_c4 _ _ _ _ _ PC xj2 Ix2) in K; try (rewrite Ex2; auto); try congruence.
        destruct K as (KI & _). assert (In (rdo_id y0) dd) as Q. { apply IFF. split; auto. unfold rdo_i_isdel. rewrite (rdo_a_in_get _ _ ND0 Iy0). auto. }
        apply rdo_e_mem_in in Q. congruence.
  - (* y a copy *)
    assert (Sxj: rdo_sub xj = Some k) by (subst y; exact SUBy).
    destruct (rdo_a_get_in _ _ _ Gj) as (Ixj & Exj).
    destruct (rdo_e_inv_item _ _ _ _ _ _ V Izt) as [(z0 & Iz0 & Ez)|(j2 & xj2 & lz & rz & Ij2 & Gj2 & Ez)].
    + rewrite Ey, Ez in Pz. rewrite Ez in Sz. simpl in Pz, Sz. symmetry in Pz.
      destruct (MPI _ _ Pz) as (PE & PNR). { intros p Pp. eapply LTP; eauto. }
      pose proof (rdo_e_split_pos s e s1 s2 t ch j xj k PC0 SSD H Ij Gj Sxj PNR (rdo_id z0) z0 (rdo_a_in_get _ _ ND0 Iz0) (eq_sym PE) Sz) as SQ.
      fold st0 I D R n0 in SQ. rewrite EST, map_app in SQ. simpl in SQ. rewrite Ey in SQ. simpl in SQ.
      assert (In (rdo_id z0) (map rdo_id b')) as K.
      { apply (rdo_e_subseq_pair _ (map rdo_id a') _ (rdo_e_cp n0 R j)); auto.
        - rewrite Ey in NDE. simpl in NDE. exact NDE.
        - pose proof (rdo_e_cp_lt n0 R j Ij). pose proof (rdo_e_wfp_item _ _ W _ Iz0). lia. }
      apply (DJ _ K). right. rewrite Ez in Iz. apply (in_map rdo_id) in Iz. exact Iz.
    + rewrite Ey, Ez in Pz. rewrite Ez in Sz. simpl in Pz, Sz.
      assert (j2 <> j). { intro K. subst j2. apply NEzy. rewrite Ey, Ez. reflexivity. }
      destruct (rdo_a_get_in _ _ _ Gj2) as (Ix2 & Ex2).
      assert (rdo_par xj2 = rdo_par xj) as PE.
      { unfold rdo_e_mpar in Pz. destruct (rdo_par xj2) eqn:P2, (rdo_par xj) eqn:P1; auto; try discriminate.
        - destruct (rdo_mem id R); discriminate.
        - destruct (rdo_mem id R); discriminate.
        - pose proof (LTP _ _ Ix2 P2). pose proof (LTP _ _ Ixj P1).
          destruct (rdo_mem id R) eqn:M2, (rdo_mem id0 R) eqn:M1.
          + injection Pz as Q. apply rdo_e_mem_in in M2. apply rdo_e_mem_in in M1. f_equal. apply (rdo_e_idx_inj R); auto. unfold rdo_e_cp in Q. lia.
          + injection Pz as Q. apply rdo_e_mem_in in M2. pose proof (rdo_e_cp_lt n0 R id M2). lia.
          + injection Pz as Q. apply rdo_e_mem_in in M1. pose proof (rdo_e_cp_lt n0 R id0 M1). lia.
          + exact Pz. }
      destruct (COND _ Ij) as (x' & G' & _ & _ & _ & MAPC). rewrite Gj in G'. inversion G'; subst x'.
      destruct (MAPC k Sxj) as (_ & UNIQ). apply (UNIQ j2 xj2); auto.
Qed.
Print Assumptions rdo_e_process_lastlive.

(* ============================================================================================== *)
(* LEMMA R: everything the bridge rdo_f_result_of_e of RedoProofsF.v asks for *)
Theorem rdo_e_result_legal : forall s e s1 s2 t ch,
  rdo_i_pc (rdo_doc s) (rdo_clock s) (rdo_scope s) (rdo_sins e) (rdo_sdel e) = true -> StronglySorted N.lt (rdo_sdel e) ->
  rdo_process s e s1 s2 = RdoOk (t, ch) ->
  rdo_i_cascade (rdo_st t) = true /\ rdo_i_lastlive (rdo_st t) = true /\
  (forall x, In x (rdo_st t) -> rdo_in_scope (rdo_st t) (rdo_scope s) (rdo_id x) = true).
Proof. intros s e s1 s2 t ch PC0 SSD H. pose proof (rdo_e_pc_unpack _ _ _ _ _ PC0) as PC.
  destruct (rdo_e_process_ok_partial s e s1 s2 PC0 SSD) as (t0 & EP & RES). pose proof H as H'. rewrite EP in H'. inversion H'; subst t0.
  split. eapply rdo_e_result_cascade; eauto. split. eapply rdo_e_process_lastlive; eauto. eapply rdo_e_result_scope; eauto. Qed.
Print Assumptions rdo_e_result_legal.

Theorem rdo_e_lemma_R : forall s e s1 s2 t ch,
  rdo_i_pc (rdo_doc s) (rdo_clock s) (rdo_scope s) (rdo_sins e) (rdo_sdel e) = true -> StronglySorted N.lt (rdo_sdel e) ->
  rdo_process s e s1 s2 = RdoOk (t, ch) ->
  rdo_e_result (rdo_doc s) (rdo_clock s) (rdo_sins e) (rdo_sdel e) t /\
  rdo_i_wfp (rdo_st t) (rdo_next t) = true /\ rdo_i_cascade (rdo_st t) = true /\ rdo_i_lastlive (rdo_st t) = true /\
  (forall x, In x (rdo_st t) -> rdo_in_scope (rdo_st t) (rdo_scope s) (rdo_id x) = true) /\
  (if ch then rdo_tins t ++ rdo_tdel t <> [] else rdo_tins t ++ rdo_tdel t = []).
Proof. intros s e s1 s2 t ch PC0 SSD H. pose proof (rdo_e_pc_unpack _ _ _ _ _ PC0) as PC.
  destruct (rdo_e_process_ok_partial s e s1 s2 PC0 SSD) as (t0 & EP & RES). pose proof H as H'. rewrite EP in H'. inversion H'; subst t0.
  destruct (rdo_e_result_legal s e s1 s2 t ch PC0 SSD H) as (A & B & C).
  split; auto. split. eapply rdo_e_result_wfp; eauto. apply PC. split; auto. split; auto. split; auto.
  apply (rdo_e_result_ch _ _ _ _ _ RES). Qed.
Print Assumptions rdo_e_lemma_R.

(* ---- for r3 below a re-created parent: what rdo_lloop returns there (the copy of the nearest left sibling that has one) *)
Fixpoint rdo_e_firstred (st : list rdo_item) (cands : list N) : option N :=
  match cands with
  | [] => None
  | l :: r => match rdo_get st l with
              | Some y => match rdo_red y with Some c => Some c | None => rdo_e_firstred st r end
              | None => None
              end
  end.
Lemma rdo_e_lloop_B_first : forall st q cands, (1 <= length st)%nat -> (forall l, In l cands -> rdo_e_sibB st q l) ->
  rdo_lloop st (Some q) cands = RdoOk (rdo_e_firstred st cands).
Proof. intros st q. induction cands; intros LN H. reflexivity.
  cbn [rdo_lloop rdo_e_firstred]. destruct (H a (or_introl eq_refl)) as (y & G & NP & HR).
  destruct (length st) as [|f] eqn:EL. lia. rewrite (rdo_e_trace_B f st q a y G NP).
  - rewrite G. cbn [rdo_bind]. destruct (rdo_red y); auto. apply IHcands; auto; try (try rewrite EL; lia). intros; apply H; simpl; auto.
  - destruct HR as [R|(c & z & R & Gc & Pz & Sz)]; [left; auto|right; exists c, z; auto].
Qed.
Print Assumptions rdo_e_lloop_B_first.


(* ============================================================================================== *)
(* SECTION D2 *)
From Coq Require Import List NArith Bool Lia Sorted. Import ListNotations.
 Open Scope N_scope.

(* RedoProofsD2.v - Lemma P for entries that re-create several items: the iso between the virtual target
   (rdo_i_flip) and the processed store, from the item-level description of the result (RedoProofsE: rdo_e_result)
   and a POSITIONAL description of its chains (rdo_d2_pos: every copy sits immediately in front of its original). *)

Definition rdo_d2_exp (n0 : N) (R : list N) (x0 : rdo_item) : list N :=
  if rdo_mem (rdo_id x0) R then [rdo_e_cp n0 R (rdo_id x0); rdo_id x0] else [rdo_id x0].
Definition rdo_d2_pos (st0 : list rdo_item) (n0 : N) (R : list N) (K : list rdo_item) : Prop :=
  forall P s, map rdo_id (rdo_chain K P s) = flat_map (rdo_d2_exp n0 R) (rdo_chain st0 P s).
Definition rdo_d2_rho (V : list rdo_item) (n0 : N) (R : list N) (a b : N) : Prop :=
  (In a R /\ b = rdo_e_cp n0 R a) \/ (~ In a R /\ a = b /\ exists y, rdo_get V a = Some y /\ rdo_del y = false).

Lemma rdo_d2_F2_flat_map : forall (A B C : Type) (R : B -> C -> Prop) (f : A -> list B) (g : A -> list C) l,
  (forall x, In x l -> Forall2 R (f x) (g x)) -> Forall2 R (flat_map f l) (flat_map g l).
Proof.
  induction l; simpl; intros H. { constructor. }
  apply Forall2_app. { apply H; auto. } apply IHl. intros; apply H; auto.
Qed.
Print Assumptions rdo_d2_F2_flat_map.

Lemma rdo_d2_live_ids_map : forall (F : rdo_item -> rdo_item) l, (forall x, rdo_id (F x) = rdo_id x) ->
  map rdo_id (rdo_live (map F l)) = flat_map (fun x => if rdo_del (F x) then [] else [rdo_id x]) l.
Proof.
  intros F l HF. induction l; auto. cbn [map flat_map]. rewrite rdo_d_live_cons. destruct (rdo_del (F a)); auto.
  cbn [map app]. rewrite HF, IHl. auto.
Qed.
Print Assumptions rdo_d2_live_ids_map.

Lemma rdo_d2_live_ids_get : forall K l, rdo_i_nodup (map rdo_id K) = true -> (forall y, In y l -> In y K) ->
  map rdo_id (rdo_live l) = flat_map (fun j => if rdo_i_isdel K j then [] else [j]) (map rdo_id l).
Proof.
  intros K l Hn. induction l; intros H; auto. cbn [map flat_map]. rewrite rdo_d_live_cons.
  unfold rdo_i_isdel at 1. rewrite (rdo_d_get_in K a Hn) by (apply H; simpl; auto).
  destruct (rdo_del a); cbn [map app]; rewrite IHl; auto; intros; apply H; simpl; auto.
Qed.
Print Assumptions rdo_d2_live_ids_get.

Lemma rdo_d2_flat_map_flat_map : forall (A B C : Type) (f : A -> list B) (g : B -> list C) l,
  flat_map g (flat_map f l) = flat_map (fun x => flat_map g (f x)) l.
Proof. induction l; simpl; auto. rewrite flat_map_app, IHl. auto. Qed.
Print Assumptions rdo_d2_flat_map_flat_map.

Lemma rdo_d2_mem_false : forall i l, ~ In i l -> rdo_mem i l = false.
Proof. intros i l H. destruct (rdo_mem i l) eqn:E; auto. apply rdo_d_mem_In in E. contradiction. Qed.
Print Assumptions rdo_d2_mem_false.

Lemma rdo_d2_in_redo : forall st0 I D x, rdo_i_nodup (map rdo_id st0) = true -> In x st0 ->
  rdo_mem (rdo_id x) I = false -> rdo_mem (rdo_id x) D = true -> In (rdo_id x) (rdo_i_redo st0 I D).
Proof.
  intros st0 I D x Hn Hx HI HD. unfold rdo_i_redo. apply filter_In. split. { apply rdo_d_mem_In; auto. }
  rewrite (rdo_d_get_in st0 x Hn Hx), HI. auto.
Qed.
Print Assumptions rdo_d2_in_redo.

Lemma rdo_d2_ff_out : forall st0 I D x, rdo_i_nodup (map rdo_id st0) = true -> In x st0 ->
  ~ In (rdo_id x) (rdo_i_redo st0 I D) -> rdo_del (rdo_e_ff I D x) = rdo_del x || rdo_mem (rdo_id x) I.
Proof.
  intros st0 I D x Hn Hx HR. unfold rdo_e_ff. destruct (rdo_mem (rdo_id x) I) eqn:EI.
  - simpl. rewrite orb_true_r. auto.
  - destruct (rdo_mem (rdo_id x) D) eqn:ED.
    + exfalso. apply HR. apply rdo_d2_in_redo; auto.
    + rewrite orb_false_r. auto.
Qed.
Print Assumptions rdo_d2_ff_out.

Lemma rdo_d2_ff_in : forall st0 I D x, In (rdo_id x) (rdo_i_redo st0 I D) -> rdo_e_ff I D x = rdo_set_live x.
Proof.
  intros st0 I D x HR. destruct (rdo_e_redo_in _ _ _ _ HR) as (HD & HI & _). unfold rdo_e_ff.
  rewrite (rdo_d2_mem_false _ _ HI). assert (rdo_mem (rdo_id x) D = true) as -> by (apply rdo_d_mem_In; auto). auto.
Qed.
Print Assumptions rdo_d2_ff_in.

Theorem rdo_d2_iso_pos : forall st0 n0 I D K,
  rdo_i_nodup (map rdo_id st0) = true -> rdo_i_nodup (map rdo_id K) = true ->
  (forall x q, In x st0 -> rdo_par x = RdoItem q -> q < n0) ->
  (* the item-level description of K *)
  (forall x, In x st0 -> exists y, rdo_get K (rdo_id x) = Some y /\ rdo_del y = rdo_del x || rdo_mem (rdo_id x) I /\ rdo_cnt y = rdo_cnt x) ->
  (forall j x, In j (rdo_i_redo st0 I D) -> rdo_get st0 j = Some x ->
     exists y, rdo_get K (rdo_e_cp n0 (rdo_i_redo st0 I D) j) = Some y /\ rdo_del y = false /\ rdo_cnt y = rdo_cnt x) ->
  (* the class: what is re-created is dead and has no re-created parent; the children of a re-created item are dead *)
  (forall j x, In j (rdo_i_redo st0 I D) -> rdo_get st0 j = Some x ->
     rdo_del x = true /\ forall p, rdo_par x = RdoItem p -> ~ In p (rdo_i_redo st0 I D)) ->
  (forall y p, In y st0 -> rdo_par y = RdoItem p -> In p (rdo_i_redo st0 I D) -> rdo_del y = true) ->
  rdo_d2_pos st0 n0 (rdo_i_redo st0 I D) K ->
  rdo_d_iso (rdo_i_flip st0 I D) K (rdo_d2_rho (rdo_i_flip st0 I D) n0 (rdo_i_redo st0 I D)).
Proof.
  intros st0 n0 I D K Hn HnK Hparlt Hold Hnew Hcls Hkids Hpos.
  set (R := rdo_i_redo st0 I D) in *. set (V := rdo_i_flip st0 I D).
  assert (forall x, rdo_id (rdo_e_ff I D x) = rdo_id x) as Fid by (intros; apply rdo_e_ff_keep).
  assert (forall x, rdo_par (rdo_e_ff I D x) = rdo_par x /\ rdo_sub (rdo_e_ff I D x) = rdo_sub x) as Fps.
  { intros x. destruct (rdo_e_ff_keep I D x) as (_ & A & B & _). auto. }
  assert (forall a, rdo_get V a = option_map (rdo_e_ff I D) (rdo_get st0 a)) as GV.
  { intros a. unfold V. rewrite rdo_e_flip_map. apply rdo_e_get_map; auto. }
  split.
  - intros a b [[Ha Hb]|[Ha [Hb [y [Gy Dy]]]]].
    + destruct (rdo_e_redo_in st0 I D a Ha) as (HD & HI & x & Gx).
      destruct (Hnew a x Ha Gx) as (y & Gy & Dy & Cy).
      pose proof (rdo_d_get_some _ _ _ Gx) as [Hx Ex].
      exists (rdo_e_ff I D x), y. rewrite GV, Gx. subst b. split; auto. split; auto.
      rewrite (rdo_d2_ff_in st0 I D x) by (rewrite Ex; auto). simpl. auto.
    + subst b. rewrite GV in Gy. destruct (rdo_get st0 a) as [x|] eqn:Gx; simpl in Gy; try discriminate.
      inversion Gy; subst y. pose proof (rdo_d_get_some _ _ _ Gx) as [Hx Ex].
      destruct (Hold x Hx) as (z & Gz & Dz & Cz). rewrite Ex in Gz.
      exists (rdo_e_ff I D x), z. rewrite GV, Gx. split; auto. split; auto. split; auto. split.
      * rewrite Dz. rewrite <- (rdo_d2_ff_out st0 I D x); auto. rewrite Ex; auto.
      * destruct (rdo_e_ff_keep I D x) as (_ & _ & _ & C). congruence.
  - intros PA PB sub Hb. apply rdo_d_F2_ids.
    assert ((PA = PB /\ forall a, PA = RdoItem a -> ~ In a R) \/
            (exists a, In a R /\ PA = RdoItem a /\ PB = RdoItem (rdo_e_cp n0 R a))) as [[E HP]|[a [Ha [E1 E2]]]].
    { destruct Hb as [[n [-> ->]]|[a [b [-> [-> [[Ha Hb]|[Ha [Hb _]]]]]]]].
      - left. split; auto. intros; discriminate.
      - right. exists a. subst. auto.
      - left. subst b. split; auto. intros a0 E. inversion E; subst; auto. }
    + subst PB. unfold V. rewrite rdo_e_flip_map, rdo_e_chain_map, rdo_d2_live_ids_map; auto.
      rewrite (rdo_d2_live_ids_get K (rdo_chain K PA sub) HnK).
      2:{ intros y Hy. apply rdo_d_chain_In in Hy. tauto. }
      rewrite Hpos, rdo_d2_flat_map_flat_map.
      apply rdo_d2_F2_flat_map. intros x Hx. apply rdo_d_chain_In in Hx. destruct Hx as [Hx _].
      pose proof (rdo_d_get_in st0 x Hn Hx) as Gx.
      destruct (Hold x Hx) as (z & Gz & Dz & Cz).
      unfold rdo_d2_exp. destruct (rdo_mem (rdo_id x) R) eqn:M.
      * apply rdo_d_mem_In in M. rewrite (rdo_d2_ff_in st0 I D x M). simpl.
        destruct (Hnew _ x M Gx) as (y & Gy & Dy & Cy). destruct (Hcls _ x M Gx) as [Dx _].
        unfold rdo_i_isdel. rewrite Gy, Dy, Gz, Dz, Dx. simpl. constructor; auto. left. auto.
      * assert (~ In (rdo_id x) R) as NR by (intro H; apply rdo_d_mem_In in H; congruence).
        rewrite (rdo_d2_ff_out st0 I D x Hn Hx NR). simpl. unfold rdo_i_isdel. rewrite Gz, Dz.
        destruct (rdo_del x || rdo_mem (rdo_id x) I) eqn:Ed; simpl; constructor; auto.
        right. split; auto. split; auto. exists (rdo_e_ff I D x). rewrite GV, Gx. split; auto.
        rewrite (rdo_d2_ff_out st0 I D x Hn Hx NR). auto.
    + subst PA PB.
      assert (rdo_live (rdo_chain V (RdoItem a) sub) = []) as ->.
      { apply rdo_d_live_nil. intros y Hy. apply rdo_d_chain_In in Hy. destruct Hy as [Hy [Hp _]].
        unfold V in Hy. rewrite rdo_e_flip_map in Hy. apply in_map_iff in Hy. destruct Hy as [x [Ey Hx]]. subst y.
        destruct (Fps x) as [Fp _]. rewrite Fp in Hp.
        assert (~ In (rdo_id x) R) as NR.
        { intros H. destruct (Hcls _ x H (rdo_d_get_in st0 x Hn Hx)) as [_ C]. apply (C a); auto. }
        rewrite (rdo_d2_ff_out st0 I D x Hn Hx NR). rewrite (Hkids x a Hx Hp Ha). auto. }
      assert (rdo_chain K (RdoItem (rdo_e_cp n0 R a)) sub = []) as ->.
      { apply (map_eq_nil rdo_id). rewrite Hpos.
        destruct (rdo_chain st0 (RdoItem (rdo_e_cp n0 R a)) sub) as [|z r] eqn:Ec; auto. exfalso.
        assert (In z (rdo_chain st0 (RdoItem (rdo_e_cp n0 R a)) sub)) as Hz by (rewrite Ec; simpl; auto).
        apply rdo_d_chain_In in Hz. destruct Hz as [Hz [Hp _]]. pose proof (Hparlt z _ Hz Hp) as L.
        unfold rdo_e_cp in L. lia. }
      simpl. constructor.
Qed.
Print Assumptions rdo_d2_iso_pos.

(* ---------------------------------------------------------------------------------------------- *)
(* the positional description is kept by one re-creation step of a sequence item (list level) *)

Lemma rdo_d2_nodup_mid : forall b x a, rdo_i_nodup (map rdo_id (b ++ x :: a)) = true ->
  forall y, In y b \/ In y a -> rdo_id y <> rdo_id x.
Proof.
  intros b x a H y Hy E. apply rdo_d_nodup_spec in H. rewrite map_app in H. simpl in H.
  apply NoDup_remove_2 in H. apply H. apply in_or_app. rewrite <- E. destruct Hy; [left|right]; apply in_map; auto.
Qed.
Print Assumptions rdo_d2_nodup_mid.

Lemma rdo_d2_split_uniq : forall (l1 l2 m1 m2 : list N) x, NoDup (l1 ++ x :: l2) ->
  l1 ++ x :: l2 = m1 ++ x :: m2 -> l1 = m1 /\ l2 = m2.
Proof.
  induction l1; intros l2 m1 m2 x Hn E; destruct m1; simpl in *.
  - inversion E; auto.
  - exfalso. inversion E; subst. inversion Hn; subst. apply H1. apply in_elt.
  - exfalso. inversion E; subst. inversion Hn; subst. apply H1. apply in_elt.
  - inversion E; subst. inversion Hn; subst. destruct (IHl1 _ _ _ _ H3 H1). subst. auto.
Qed.
Print Assumptions rdo_d2_split_uniq.

Lemma rdo_d2_pos_step_seq : forall st0 n0 done K a item b x i copy,
  rdo_i_nodup (map rdo_id st0) = true -> rdo_i_nodup (map rdo_id K) = true ->
  K = a ++ item :: b -> rdo_id item = i -> rdo_par item = rdo_par x -> rdo_sub item = None ->
  rdo_get st0 i = Some x -> rdo_sub x = None -> ~ In i done ->
  rdo_d2_pos st0 n0 done K ->
  rdo_id copy = n0 + N.of_nat (length done) -> rdo_par copy = rdo_par x -> rdo_sub copy = None ->
  rdo_d2_pos st0 n0 (done ++ [i])
    (rdo_link (a ++ rdo_set_red item (rdo_id copy) :: b)
              (hd_error (map rdo_id (filter (rdo_in_chain (rdo_par item) None) (rev a)))) copy).
Proof.
  intros st0 n0 done K a item b x i copy Hn HnK EK Ei Epar Esub Gx Sx NI Hpos Cid Cpar Csub P s.
  set (item' := rdo_set_red item (rdo_id copy)). set (K1 := a ++ item' :: b). set (P0 := rdo_par x) in *.
  pose proof (rdo_d_get_some _ _ _ Gx) as [Hx Ex].
  assert (forall x1, rdo_id x1 <> i -> rdo_d2_exp n0 (done ++ [i]) x1 = rdo_d2_exp n0 done x1) as Hexp.
  { intros x1 N1. unfold rdo_d2_exp. rewrite rdo_e_mem_app. simpl. apply N.eqb_neq in N1. rewrite N1. simpl. rewrite orb_false_r.
    destruct (rdo_mem (rdo_id x1) done) eqn:M; auto. rewrite rdo_e_cp_app_l; auto. apply rdo_d_mem_In; auto. }
  assert (rdo_d2_exp n0 (done ++ [i]) x = [rdo_id copy; i]) as Hexpi.
  { unfold rdo_d2_exp. rewrite Ex, rdo_e_mem_app. simpl. rewrite N.eqb_refl. simpl. rewrite orb_true_r.
    rewrite rdo_e_cp_app_r; auto. rewrite Cid. auto. }
  assert (rdo_d2_exp n0 done x = [i]) as Hexpi0.
  { unfold rdo_d2_exp. rewrite Ex, (rdo_d2_mem_false _ _ NI). auto. }
  assert (forall P1 s1, rdo_chain K1 P1 s1 = rdo_chain a P1 s1 ++ (if rdo_in_chain P1 s1 item then [item'] else []) ++ rdo_chain b P1 s1) as HK1c.
  { intros. unfold K1. rewrite rdo_d_chain_app, rdo_d_chain_cons. change (rdo_in_chain P1 s1 item') with (rdo_in_chain P1 s1 item).
    destruct (rdo_in_chain P1 s1 item); auto. }
  assert (forall P1 s1, rdo_chain K P1 s1 = rdo_chain a P1 s1 ++ (if rdo_in_chain P1 s1 item then [item] else []) ++ rdo_chain b P1 s1) as HKc.
  { intros. rewrite EK, rdo_d_chain_app, rdo_d_chain_cons. destruct (rdo_in_chain P1 s1 item); auto. }
  assert (forall P1 s1, map rdo_id (rdo_chain K1 P1 s1) = map rdo_id (rdo_chain K P1 s1)) as HK1.
  { intros. rewrite HK1c, HKc, !map_app. destruct (rdo_in_chain P1 s1 item); auto. }
  assert (map rdo_id K1 = map rdo_id K) as HK1ids.
  { unfold K1. rewrite EK, !map_app. auto. }
  assert (rdo_i_nodup (map rdo_id K1) = true) as HnK1 by (rewrite HK1ids; auto).
  rewrite Epar. fold P0.
  destruct (rdo_d_ps_dec P P0 s None) as [E|E].
  - inversion E; subst P s. clear E.
    assert (rdo_in_chain P0 None item = true) as Hic by (apply rdo_d_in_chain_spec; auto).
    assert (rdo_in_chain P0 None copy = true) as Hcc by (apply rdo_d_in_chain_spec; auto).
    set (ca := rdo_chain a P0 None) in *. set (cb := rdo_chain b P0 None) in *.
    assert (rdo_chain K1 P0 None = ca ++ item' :: cb) as C1 by (rewrite HK1c, Hic; auto).
    assert (rdo_chain K P0 None = ca ++ item :: cb) as C0 by (rewrite HKc, Hic; auto).
    rewrite rdo_e_filter_rev. change (filter (rdo_in_chain P0 None) a) with ca.
    assert (rdo_chain (rdo_link K1 (hd_error (map rdo_id (rev ca))) copy) P0 None = ca ++ copy :: item' :: cb) as CL.
    { destruct (rev ca) as [|y rc] eqn:Er.
      - assert (ca = []) as Eca by (rewrite <- (rev_involutive ca), Er; auto).
        cbn [map hd_error]. unfold rdo_link. rewrite rdo_d_chain_cons, Hcc, C1, Eca. auto.
      - assert (ca = rev rc ++ [y]) as Eca by (rewrite <- (rev_involutive ca), Er; auto).
        cbn [map hd_error].
        destruct (rdo_d_chain_link K1 (Some (rdo_id y)) copy P0 None) as [_ L2]. rewrite L2; auto.
        + rewrite C1, Eca. unfold rdo_link. rewrite <- !app_assoc. simpl.
          apply rdo_d_insert_after_split; auto.
          assert (rdo_i_nodup (map rdo_id (rev rc ++ y :: item' :: cb)) = true) as Hnc.
          { replace (rev rc ++ y :: item' :: cb) with (rdo_chain K1 P0 None).
            - apply rdo_d_nodup_filter; auto.
            - rewrite C1, Eca, <- app_assoc. auto. }
          intros z Hz. apply (rdo_d2_nodup_mid _ _ _ Hnc). auto.
        + assert (In y ca) as Hy by (rewrite Eca; apply in_or_app; simpl; auto).
          exists y. split.
          * apply rdo_d_get_in; auto. unfold ca in Hy. apply rdo_d_chain_In in Hy. unfold K1. apply in_or_app. tauto.
          * unfold ca in Hy. apply rdo_d_chain_In in Hy. apply rdo_d_in_chain_spec. tauto. }
    rewrite CL.
    pose proof (Hpos P0 None) as HP. rewrite C0 in HP.
    assert (In x (rdo_chain st0 P0 None)) as Hxc by (apply rdo_d_chain_In; auto).
    destruct (in_split _ _ Hxc) as [c1 [c2 Ec]].
    assert (rdo_i_nodup (map rdo_id (c1 ++ x :: c2)) = true) as Hnc by (rewrite <- Ec; apply rdo_d_nodup_filter; auto).
    rewrite Ec in HP |- *. rewrite flat_map_app in HP |- *. simpl flat_map in HP |- *.
    rewrite Hexpi0 in HP. rewrite Hexpi.
    rewrite map_app in HP. simpl in HP. rewrite Ei in HP.
    assert (NoDup (map rdo_id ca ++ i :: map rdo_id cb)) as Hnd.
    { apply rdo_d_nodup_spec. rewrite <- Ei. change (rdo_id item :: map rdo_id cb) with (map rdo_id (item :: cb)).
      rewrite <- map_app, <- C0. apply rdo_d_nodup_filter; auto. }
    destruct (rdo_d2_split_uniq _ _ _ _ _ Hnd HP) as [H1 H2].
    rewrite map_app. simpl. rewrite H1, H2.
    rewrite (rdo_d_flat_map_ext _ _ (rdo_d2_exp n0 (done ++ [i])) (rdo_d2_exp n0 done) c1).
    2:{ intros z Hz. apply Hexp. rewrite <- Ex. apply (rdo_d2_nodup_mid _ _ _ Hnc). auto. }
    rewrite (rdo_d_flat_map_ext _ _ (rdo_d2_exp n0 (done ++ [i])) (rdo_d2_exp n0 done) c2).
    2:{ intros z Hz. apply Hexp. rewrite <- Ex. apply (rdo_d2_nodup_mid _ _ _ Hnc). auto. }
    rewrite Ei. auto.
  - assert (rdo_in_chain P s copy = false) as Hcc.
    { destruct (rdo_in_chain P s copy) eqn:Ec; auto. apply rdo_d_in_chain_spec in Ec. exfalso. apply E.
      destruct Ec as [<- <-]. rewrite Cpar, Csub. auto. }
    destruct (rdo_d_chain_link K1 (hd_error (map rdo_id (filter (rdo_in_chain P0 None) (rev a)))) copy P s) as [L1 _].
    fold item'. fold K1. rewrite L1; auto. rewrite HK1, Hpos.
    apply rdo_d_flat_map_ext. intros x1 H1. symmetry. apply Hexp. intros E1.
    apply rdo_d_chain_In in H1. destruct H1 as [H1 [Hp Hs]].
    pose proof (rdo_d_get_in st0 x1 Hn H1) as G1. rewrite E1, Gx in G1. inversion G1; subst x1.
    apply E. rewrite <- Hp, <- Hs, Sx. auto.
Qed.
Print Assumptions rdo_d2_pos_step_seq.

(* ---------------------------------------------------------------------------------------------- *)
(* the fold of rdo_redo over re-created sequence items whose parents are not re-created, with positions *)

Lemma rdo_d2_step_seqA : forall st0 n0 done dk t i, rdo_e_inv st0 n0 done dk t -> NoDup (map rdo_id st0) ->
  rdo_e_condA st0 n0 dk i -> ~ In i done ->
  (forall p x0, rdo_get st0 i = Some x0 -> rdo_par x0 = RdoItem p -> ~ In p (done ++ [i])) ->
  (forall j xj, In j done -> rdo_get st0 j = Some xj -> rdo_par xj <> RdoItem i) ->
  rdo_d2_pos st0 n0 done (rdo_st t) -> rdo_d_lastlive_p (rdo_st t) ->
  exists t', (forall f ri td s1 s2, rdo_redo (S f) t i ri td s1 s2 = RdoOk (t', Some (rdo_next t))) /\
             rdo_e_inv st0 n0 (done ++ [i]) dk t' /\ rdo_d2_pos st0 n0 (done ++ [i]) (rdo_st t') /\
             rdo_d_lastlive_p (rdo_st t').
Proof.
  intros st0 n0 done dk t i V ND0 CA NI HP NPI POS LLP.
  destruct (rdo_e_step_seqA st0 n0 done dk t i V ND0 CA NI HP NPI) as (t' & E & V').
  exists t'. split; auto. split; auto.
  destruct CA as (x & G & LI & RED & SUB & PAR).
  pose proof (rdo_e_inv_get_old _ _ _ _ _ i V LI) as Gi. rewrite G in Gi. simpl in Gi.
  set (item := rdo_e_oldk n0 done dk x) in *.
  destruct (rdo_e_get_split _ _ _ Gi) as (a & b & ST & NIa & Ei).
  assert (REDi: rdo_red item = None). { simpl. apply rdo_e_mem_nin in NI. destruct (rdo_a_get_in _ _ _ G) as (_ & E0). rewrite E0, NI. auto. }
  assert (PARi: match rdo_par item with
                | RdoRoot _ => True
                | RdoItem p => exists pit k, rdo_get (rdo_st t) p = Some pit /\ rdo_del pit = false /\ rdo_cnt pit = RdoType k
                end).
  { simpl. destruct (rdo_par x); auto. destruct PAR as (pit & k & Gp & Dp & Cp & NIp & Lp).
    exists (rdo_e_oldk n0 done dk pit), k. rewrite (rdo_e_inv_get_old _ _ _ _ _ id V Lp), Gp. simpl. split; auto. split; auto.
    rewrite Dp. simpl. destruct (rdo_a_get_in _ _ _ Gp) as (_ & E0). rewrite E0. apply rdo_e_mem_nin; auto. }
  pose proof (rdo_e_redo_seqA 0 t item a b [] [] [] [] ST (rdo_e_v_nd _ _ _ _ _ V) REDi SUB
                (fun y => rdo_e_inv_fresh _ _ _ _ _ y V) PARi) as E2.
  rewrite Ei in E2. rewrite (E 0%nat [] [] [] []) in E2. injection E2 as E3. rewrite E3. cbn [rdo_st].
  split.
  2:{ apply rdo_e_link_lastlive; auto.
      assert (UP: rdo_update (rdo_st t) i (fun y => rdo_set_red y (rdo_next t)) = a ++ rdo_set_red item (rdo_next t) :: b).
      { rewrite ST, <- Ei. apply rdo_e_update_app. rewrite Ei; auto. }
      rewrite <- UP. rewrite rdo_d_update_map by (apply rdo_d_nodup_spec; apply V).
      apply rdo_e_map_lastlive; auto.
      - intros y. destruct (rdo_id y =? i); simpl; auto.
      - intros y _ Dy. destruct (rdo_id y =? i); simpl; auto. }
  apply (rdo_d2_pos_step_seq st0 n0 done (rdo_st t) a item b x i
           {| rdo_id := rdo_next t; rdo_par := rdo_par item; rdo_sub := None; rdo_cnt := rdo_cnt item;
              rdo_del := false; rdo_keep := true; rdo_red := None;
              rdo_org := hd_error (map rdo_id (filter (rdo_in_chain (rdo_par item) None) (rev a)));
              rdo_rorg := Some i |}); auto.
  - apply rdo_d_nodup_spec; auto.
  - apply rdo_d_nodup_spec. apply V.
  - simpl. apply V.
Qed.
Print Assumptions rdo_d2_step_seqA.

Lemma rdo_d2_fold_seqA : forall st0 n0 dk ri td s1 s2, NoDup (map rdo_id st0) ->
  forall todo done t c, rdo_e_inv st0 n0 done dk t -> NoDup (done ++ todo) -> (forall i, In i todo -> rdo_e_condA st0 n0 dk i) ->
  (forall j xj p, In j (done ++ todo) -> rdo_get st0 j = Some xj -> rdo_par xj = RdoItem p -> ~ In p (done ++ todo)) ->
  rdo_d2_pos st0 n0 done (rdo_st t) -> rdo_d_lastlive_p (rdo_st t) ->
  exists t', fold_left (rdo_e_fredo ri td s1 s2) todo (RdoOk (t, c)) = RdoOk (t', c || rdo_is_some (hd_error todo)) /\
             rdo_e_inv st0 n0 (done ++ todo) dk t' /\ rdo_d2_pos st0 n0 (done ++ todo) (rdo_st t') /\
             rdo_d_lastlive_p (rdo_st t').
Proof. intros st0 n0 dk ri td s1 s2 ND0. induction todo; intros done t c V ND C FLAT POS LLP.
  - simpl. rewrite app_nil_r, orb_false_r. eauto.
  - assert (NI: ~ In a done). { apply rdo_e_nodup_app_l in ND. destruct ND as (_ & _ & DJ). intro K. apply (DJ _ K). simpl; auto. }
    assert (FL1: forall j xj p, In j (done ++ [a]) -> rdo_get st0 j = Some xj -> rdo_par xj = RdoItem p -> ~ In p (done ++ [a])).
    { intros j xj p Ij Gj Pj K. apply (FLAT j xj p); auto.
      apply in_app_or in Ij. apply in_or_app. simpl in *. tauto. apply in_app_or in K. apply in_or_app. simpl in *. tauto. }
    destruct (rdo_d2_step_seqA st0 n0 done dk t a V ND0 (C _ (or_introl eq_refl)) NI) as (t1 & E & V1 & P1 & L1); auto.
    { intros p x0 G0 P0. apply (FL1 a x0 p); auto. apply in_or_app; simpl; auto. }
    { intros j xj Ij Gj K. apply (FL1 j xj a); auto. apply in_or_app; auto. apply in_or_app; simpl; auto. }
    cbn [fold_left]. unfold rdo_e_fredo at 2. cbn [rdo_bind]. rewrite E. cbn [rdo_bind rdo_is_some].
    destruct (IHtodo (done ++ [a]) t1 (c || true) V1) as (t' & E' & V' & P' & L'); auto.
    + rewrite <- app_assoc. simpl. auto.
    + intros. apply C. simpl; auto.
    + rewrite <- app_assoc. simpl. auto.
    + exists t'. rewrite E'. rewrite <- app_assoc in V', P'. simpl in V', P'. split; auto. f_equal. f_equal.
      simpl. rewrite orb_true_r. auto.
Qed.
Print Assumptions rdo_d2_fold_seqA.

Lemma rdo_d2_pos_init : forall st0 n0, rdo_d2_pos st0 n0 [] st0.
Proof.
  intros st0 n0 P s. induction (rdo_chain st0 P s); simpl; auto.
Qed.
Print Assumptions rdo_d2_pos_init.

Lemma rdo_d2_pos_kill : forall st0 n0 R K d, rdo_d2_pos st0 n0 R K -> rdo_d2_pos st0 n0 R (rdo_e_kill d K).
Proof.
  intros st0 n0 R K d H P s. rewrite rdo_e_kill_chain, rdo_e_kill_ids. apply H.
Qed.
Print Assumptions rdo_d2_pos_kill.

(* ---------------------------------------------------------------------------------------------- *)
(* Lemma P for the class: every re-created item is a sequence item whose parent is not re-created *)

Definition rdo_d2_cls (st : list rdo_item) (I D : list N) : bool :=
  forallb (fun j => match rdo_get st j with
                    | Some x => negb (rdo_is_some (rdo_sub x)) &&
                                match rdo_par x with RdoItem p => negb (rdo_mem p (rdo_i_redo st I D)) | RdoRoot _ => true end
                    | None => false
                    end) (rdo_i_redo st I D).

Lemma rdo_d2_cls_spec : forall st I D, rdo_d2_cls st I D = true ->
  forall j x, In j (rdo_i_redo st I D) -> rdo_get st j = Some x ->
    rdo_sub x = None /\ forall p, rdo_par x = RdoItem p -> ~ In p (rdo_i_redo st I D).
Proof.
  intros st I D H j x Hj G. unfold rdo_d2_cls in H. rewrite forallb_forall in H. specialize (H j Hj). rewrite G in H.
  apply andb_true_iff in H. destruct H as [H1 H2]. split.
  - destruct (rdo_sub x); auto. discriminate.
  - intros p Hp. rewrite Hp in H2. apply negb_true_iff in H2. apply rdo_e_mem_nin. auto.
Qed.
Print Assumptions rdo_d2_cls_spec.

Lemma rdo_d2_process_pos : forall s e s1 s2,
  rdo_i_pc (rdo_doc s) (rdo_clock s) (rdo_scope s) (rdo_sins e) (rdo_sdel e) = true -> NoDup (rdo_sdel e) ->
  rdo_d2_cls (rdo_doc s) (rdo_sins e) (rdo_sdel e) = true ->
  exists t, rdo_process s e s1 s2 =
              RdoOk (t, rdo_is_some (hd_error (rdo_i_redo (rdo_doc s) (rdo_sins e) (rdo_sdel e))) ||
                        rdo_is_some (hd_error (rdo_e_liveI (rdo_doc s) (rdo_sins e)))) /\
            rdo_e_result (rdo_doc s) (rdo_clock s) (rdo_sins e) (rdo_sdel e) t /\
            rdo_d2_pos (rdo_doc s) (rdo_clock s) (rdo_i_redo (rdo_doc s) (rdo_sins e) (rdo_sdel e)) (rdo_st t) /\
            rdo_d_lastlive_p (rdo_st t).
Proof. intros s e s1 s2 PC NDD CLS. pose proof (rdo_d2_cls_spec _ _ _ CLS) as FLAT. apply rdo_e_pc_unpack in PC.
  set (st0 := rdo_doc s) in *. set (I := rdo_sins e) in *. set (D := rdo_sdel e) in *. set (n0 := rdo_clock s) in *.
  set (R := rdo_i_redo st0 I D) in *.
  pose proof (rdo_e_p_wf _ _ _ _ _ PC) as W. pose proof (rdo_e_wfp_nodup _ _ W) as ND0.
  rewrite (rdo_e_process_eq s e s1 s2 (rdo_e_liveI st0 I)).
  2: { rewrite (rdo_e_td st0 (rdo_scope s) I); auto; apply PC. }
  2: apply PC.
  cbv zeta. fold st0 I D R.
  destruct (rdo_d2_fold_seqA st0 n0 [] R I s1 s2 ND0 R [] (rdo_begin s) false) as (t1 & E1 & V1 & P1 & L1).
  - apply rdo_e_inv_init; auto. intros x Ix. apply (rdo_e_wfp_item _ _ W _ Ix).
  - simpl. apply NoDup_filter; auto.
  - intros i Ii. destruct (rdo_e_redo_in _ _ _ _ Ii) as (ID & NI & x & G). destruct (rdo_a_get_in _ _ _ G) as (Ix & Ex).
    destruct (rdo_e_wfp_item _ _ W _ Ix) as (L & WP). rewrite Ex in L.
    destruct (rdo_e_p_c3 _ _ _ _ _ PC x Ix) as (Dx & Rx & Px). rewrite Ex; auto.
    destruct (FLAT _ _ Ii G) as (Sx & FP).
    exists x. repeat (split; auto). destruct (rdo_par x) eqn:P; auto.
    destruct Px as [(A & B)|K]. 2: { exfalso. apply (FP id); auto. }
    apply rdo_e_isdel_live in A. destruct A as (pit & Gp & Dp). destruct (WP id eq_refl) as (Lp & y & k & Gy & Cy).
    rewrite Gp in Gy. inversion Gy; subst y. exists pit, k. rewrite Ex in Lp. repeat (split; auto); try lia.
  - simpl. intros j xj p Ij Gj Pj. apply (FLAT _ _ Ij Gj); auto.
  - apply rdo_d2_pos_init.
  - apply (rdo_d_lastlive_spec st0). { eapply rdo_d_wfp_nodup; eauto. } apply PC.
  - rewrite E1. cbn [rdo_bind]. simpl app in V1, P1.
    destruct (rdo_e_finish st0 n0 (rdo_scope s) I D t1 [] PC V1) as (t2 & dd & E2 & V2 & NDd & IFF & FO & KS).
    + intros j [].
    + constructor.
    + intros j x p Ij Gj Pj. fold R in Pj. destruct (FLAT _ _ Ij Gj) as (_ & FP).
      destruct (rdo_a_get_in _ _ _ Gj) as (Ix & Ex). destruct (rdo_e_wfp_item _ _ W _ Ix) as (L & WP).
      unfold rdo_e_mpar in Pj. destruct (rdo_par x) eqn:P; try discriminate.
      assert (rdo_mem id R = false) as M by (apply rdo_e_mem_nin; apply FP; auto). rewrite M in Pj. inversion Pj; subst id.
      destruct (rdo_e_p_c3 _ _ _ _ _ PC x Ix) as (_ & _ & Px). rewrite Ex; auto. rewrite P in Px.
      destruct Px as [(A & B)|K]. 2: { exfalso. apply (FP p); auto. }
      split; auto. destruct (WP p eq_refl) as (Lp & _). pose proof (rdo_e_cp_lt n0 R j Ij). rewrite Ex in Lp, L. fold R. lia.
    + rewrite E2. cbn [rdo_bind]. exists t2. split; auto. split.
      * exists dd. auto.
      * split. { rewrite KS. apply rdo_d2_pos_kill. auto. }
        rewrite KS. unfold rdo_e_kill. apply rdo_e_map_lastlive; auto.
        -- intros y. destruct (rdo_mem (rdo_id y) I); simpl; auto.
        -- intros y _ Dy. destruct (rdo_mem (rdo_id y) I); simpl; auto.
Qed.
Print Assumptions rdo_d2_process_pos.

Theorem rdo_d2_lemma_P_partial : forall s e s1 s2,
  rdo_i_pc (rdo_doc s) (rdo_clock s) (rdo_scope s) (rdo_sins e) (rdo_sdel e) = true ->
  StronglySorted N.lt (rdo_sdel e) ->
  rdo_d2_cls (rdo_doc s) (rdo_sins e) (rdo_sdel e) = true ->
  exists t ch, rdo_process s e s1 s2 = RdoOk (t, ch) /\
    forall root, rdo_render_root (rdo_st t) root = rdo_i_render_root (rdo_i_flip (rdo_doc s) (rdo_sins e) (rdo_sdel e)) root.
Proof.
  intros s e s1 s2 PC0 SS CLS. pose proof (rdo_d2_cls_spec _ _ _ CLS) as FLAT.
  destruct (rdo_d2_process_pos s e s1 s2 PC0 (rdo_e_ss_nodup _ SS) CLS) as (t & E & RES & POS & LLP).
  pose proof PC0 as PC. apply rdo_e_pc_unpack in PC.
  set (st0 := rdo_doc s) in *. set (I := rdo_sins e) in *. set (D := rdo_sdel e) in *. set (n0 := rdo_clock s) in *.
  set (R := rdo_i_redo st0 I D) in *.
  pose proof (rdo_e_p_wf _ _ _ _ _ PC) as W.
  exists t. eexists. split. { exact E. }
  apply (rdo_e_process_render_partial s e t (rdo_d2_rho (rdo_i_flip st0 I D) n0 R)); auto.
  2:{ destruct RES as (dd & V & _). apply rdo_d_lastlive_spec; auto. apply rdo_d_nodup_spec. apply V. }
  destruct RES as (dd & V & NDd & IFF & FO).
  apply rdo_d2_iso_pos; auto.
  - eapply rdo_d_wfp_nodup; eauto.
  - apply rdo_d_nodup_spec. apply V.
  - intros x q Hx Hp. destruct (rdo_e_wfp_item _ _ W _ Hx) as (L & WP). destruct (WP q Hp) as (Lq & _). lia.
  - intros x Hx. destruct (rdo_e_wfp_item _ _ W _ Hx) as (L & _).
    exists (rdo_e_oldk n0 R I x). split; [|split; reflexivity].
    rewrite <- (rdo_e_get_filter (fun i => i <? n0) (rdo_st t) (rdo_id x)) by (apply N.ltb_lt; auto).
    change (filter (fun y => rdo_id y <? n0) (rdo_st t)) with (filter (rdo_e_isold n0) (rdo_st t)).
    rewrite FO. rewrite rdo_e_get_map by reflexivity.
    rewrite (rdo_d_get_in st0 x) by (auto; eapply rdo_d_wfp_nodup; eauto). reflexivity.
  - intros j x Hj Gx. destruct (rdo_e_v_new _ _ _ _ _ V j Hj) as (x' & l & r & G0 & G1).
    fold st0 in G0. rewrite Gx in G0. inversion G0; subst x'. eexists. split. { exact G1. } split; reflexivity.
  - intros j x Hj Gx. destruct (rdo_a_get_in _ _ _ Gx) as (Hx & Ex).
    destruct (rdo_e_p_c3 _ _ _ _ _ PC x Hx) as (Dx & _). { rewrite Ex; auto. }
    split; auto. apply (FLAT j x Hj Gx).
  - intros y p Hy Hp Hpr. destruct (rdo_e_redo_in _ _ _ _ Hpr) as (_ & _ & xp & Gp).
    destruct (rdo_a_get_in _ _ _ Gp) as (Hxp & Exp).
    destruct (rdo_e_p_c3 _ _ _ _ _ PC xp Hxp) as (Dp & _). { rewrite Exp; auto. }
    pose proof (rdo_e_p_casc _ _ _ _ _ PC) as CS. apply rdo_d_cascade_spec in CS.
    apply (CS y Hy p xp); auto.
Qed.
Print Assumptions rdo_d2_lemma_P_partial.

(* the union with the class of RedoProofsE.v (at most one re-created item, sequence or map, any parent) *)
Definition rdo_d2_cls_union (st : list rdo_item) (I D : list N) : bool := rdo_e_cls st I D || rdo_d2_cls st I D.

Theorem rdo_d2_lemma_P_union_partial : forall s e s1 s2,
  rdo_i_pc (rdo_doc s) (rdo_clock s) (rdo_scope s) (rdo_sins e) (rdo_sdel e) = true ->
  StronglySorted N.lt (rdo_sdel e) ->
  rdo_d2_cls_union (rdo_doc s) (rdo_sins e) (rdo_sdel e) = true ->
  exists t ch, rdo_process s e s1 s2 = RdoOk (t, ch) /\
    forall root, rdo_render_root (rdo_st t) root = rdo_i_render_root (rdo_i_flip (rdo_doc s) (rdo_sins e) (rdo_sdel e)) root.
Proof.
  intros s e s1 s2 PC SS CLS. unfold rdo_d2_cls_union in CLS. apply orb_true_iff in CLS. destruct CLS as [C|C].
  - apply rdo_e_lemma_P_partial; auto.
  - apply rdo_d2_lemma_P_partial; auto.
Qed.
Print Assumptions rdo_d2_lemma_P_union_partial.


(* ============================================================================================== *)
(* SECTION F *)
(* RedoProofsF.v - theorem 2 (partial): histories `steps ; undo ; redo`, all calls addressed to roots of the scope.
   F1  rdo_f_J_reachable, rdo_f_JP_reachable, rdo_f_steps_ok, rdo_f_J_JP / rdo_f_JP_J
   F2  rdo_f_step_effect (a,b), rdo_f_step_flip_render / rdo_f_flip_render_gen (d), rdo_f_pc_gen / rdo_f_step_pc (c),
       rdo_f_step_uncaptured_render (e), rdo_f_step_J (all of F2 from the boolean J), rdo_f_sorted_reachable, rdo_f_entry_unique
   F3  rdo_f_keep_render, rdo_f_undo_of_process_partial (local hypothesis), rdo_undo_last_step_partial (relative to
       Lemma P), rdo_f_undo_insert_only_partial (no hypothesis, entries that re-create nothing),
       rdo_inverse_law_nested_partial (undo + redo, relative to Lemma P and Lemma Q)
   Q   rdo_f_pc_intro, rdo_f_res / rdo_f_result (description of the result of try_process), rdo_f_q_pc, rdo_f_q_render,
       rdo_f_lemma_Q_of_result, rdo_f_result_unchanged (ch = false), rdo_f_lemma_Q_of_R,
       rdo_inverse_law_nested_partial2 (relative to Lemma P and Lemma R), rdo_f_result_of_e (bridge from rdo_e_result) *)
From Coq Require Import List NArith Bool Lia. Import ListNotations.  Open Scope N_scope.
From Coq Require Import Sorted.


(* ============================================================================================== *)
(* F0: helpers *)

Lemma rdo_f_mem_In i l : rdo_mem i l = true <-> In i l.
Proof.
  unfold rdo_mem. rewrite existsb_exists. split.
  - intros (x & H & E). apply N.eqb_eq in E. subst; auto.
  - intros H; exists i; split; auto. apply N.eqb_refl.
Qed.

Lemma rdo_f_mem_false i l : rdo_mem i l = false <-> ~ In i l.
Proof. rewrite <- rdo_f_mem_In. destruct (rdo_mem i l); split; congruence. Qed.

Lemma rdo_f_sort_insert_In x l i : In i (rdo_sort_insert x l) <-> i = x \/ In i l.
Proof.
  induction l; simpl. intuition.
  destruct (x <? a). simpl; intuition.
  destruct (x =? a) eqn:E. apply N.eqb_eq in E; subst. simpl; intuition.
  simpl. rewrite IHl. intuition.
Qed.
Lemma rdo_f_sort_In l i : In i (rdo_sort l) <-> In i l.
Proof. induction l; simpl. tauto. rewrite rdo_f_sort_insert_In, IHl. intuition. Qed.

Lemma rdo_f_get_in_upd st i x f : rdo_get st i = Some x -> In (f x) (rdo_update st i f).
Proof.
  induction st; simpl; intros H. discriminate.
  destruct (rdo_id a =? i). inversion H; subst; simpl; auto. simpl; auto.
Qed.

Lemma rdo_f_in_upd_fwd st i f y : In y st -> In y (rdo_update st i f) \/ (rdo_id y = i /\ In (f y) (rdo_update st i f)).
Proof.
  induction st; simpl; intros H. tauto.
  destruct (rdo_id a =? i) eqn:E.
  - destruct H as [->|H]. right. apply N.eqb_eq in E. simpl; auto. left; simpl; auto.
  - destruct H as [->|H]. left; simpl; auto. destruct (IHst H) as [?|[? ?]]; simpl; auto.
Qed.

Lemma rdo_f_nodup_inj st x y : NoDup (map rdo_id st) -> In x st -> In y st -> rdo_id x = rdo_id y -> x = y.
Proof.
  intros ND Hx Hy E. pose proof (rdo_b_in_get _ _ ND Hx) as G1. pose proof (rdo_b_in_get _ _ ND Hy) as G2.
  rewrite E in G1. congruence.
Qed.

(* functions that change only del (upwards) and keep *)
Definition rdo_f_fok (f : rdo_item -> rdo_item) : Prop :=
  forall y, rdo_id (f y) = rdo_id y /\ rdo_par (f y) = rdo_par y /\ rdo_sub (f y) = rdo_sub y /\ rdo_cnt (f y) = rdo_cnt y /\
            rdo_red (f y) = rdo_red y /\ rdo_org (f y) = rdo_org y /\ rdo_rorg (f y) = rdo_rorg y /\
            (rdo_del y = true -> rdo_del (f y) = true).
Lemma rdo_f_fok_del : rdo_f_fok rdo_set_del. Proof. intros y; simpl; intuition. Qed.
Lemma rdo_f_fok_keep b : rdo_f_fok (fun y => rdo_set_keep y b). Proof. intros y; simpl; intuition. Qed.
Lemma rdo_f_fok_id f : rdo_f_fok f -> forall y, rdo_id (f y) = rdo_id y. Proof. intros H y; apply H. Qed.

(* ============================================================================================== *)
(* F0b: a deletion is a sequence of marks of live items; an integration is a link followed by marks *)

Inductive rdo_f_dseq : list rdo_item -> list N -> list rdo_item -> Prop :=
| rdo_f_dseq_nil st : rdo_f_dseq st [] st
| rdo_f_dseq_cons st i x d st' : rdo_get st i = Some x -> rdo_del x = false ->
    rdo_f_dseq (rdo_update st i rdo_set_del) d st' -> rdo_f_dseq st (i :: d) st'.

Lemma rdo_f_dseq_app st d1 st1 : rdo_f_dseq st d1 st1 -> forall d2 st2, rdo_f_dseq st1 d2 st2 -> rdo_f_dseq st (d1 ++ d2) st2.
Proof. induction 1; simpl; auto. intros; econstructor; eauto. Qed.

Lemma rdo_f_delete_dseq f : forall st i st' d, rdo_delete f st i = RdoOk (st', d) -> rdo_f_dseq st d st'.
Proof.
  induction f; intros st i st' d H. discriminate.
  rewrite rdo_a_delete_eq in H. destruct (rdo_get st i) eqn:G; [|discriminate].
  destruct (rdo_del r) eqn:Dl. inversion H; subst; constructor.
  cbv zeta in H. destruct (rdo_cnt r).
  - inversion H; subst. econstructor; eauto. constructor.
  - apply (rdo_b_fold_inv _ (fun a a' => exists d', snd a' = snd a ++ d' /\ rdo_f_dseq (fst a) d' (fst a'))) in H.
    + simpl in H. destruct H as (d' & -> & H). econstructor; eauto.
    + intros a; exists []; rewrite app_nil_r; split; auto. constructor.
    + intros a b c (d1 & E1 & H1) (d2 & E2 & H2). exists (d1 ++ d2). rewrite E2, E1, app_assoc. split; auto.
      eapply rdo_f_dseq_app; eauto.
    + reflexivity.
    + intros [s0 d0] j [s1 d1] HF. simpl in HF.
      destruct (rdo_delete f s0 j) as [[s2 d2]|] eqn:E; simpl in HF; inversion HF; subst. simpl. eauto.
Qed.

Lemma rdo_f_txn_delete_tr t i t' : rdo_txn_delete t i = RdoOk t' ->
  exists d, rdo_f_dseq (rdo_st t) d (rdo_st t') /\ rdo_next t' = rdo_next t /\ rdo_tins t' = rdo_tins t /\ rdo_tdel t' = rdo_tdel t ++ d.
Proof.
  unfold rdo_txn_delete. intros H.
  destruct (rdo_delete _ _ _) as [[s d]|] eqn:E; simpl in H; inversion H; subst; simpl.
  exists d. split; auto. eapply rdo_f_delete_dseq; eauto.
Qed.

Lemma rdo_f_integrate_tr t x l r t' : rdo_integrate t x l r = RdoOk t' ->
  exists l' d, rdo_f_dseq (rdo_link (rdo_st t) l' x) d (rdo_st t') /\ rdo_next t' = rdo_next t /\
               rdo_tins t' = rdo_tins t ++ [rdo_id x] /\ rdo_tdel t' = rdo_tdel t ++ d.
Proof.
  intros H. unfold rdo_integrate in H. cbv zeta in H.
  destruct (negb _); [discriminate|].
  remember (if rdo_detect_conflict (rdo_st t) l r then rdo_resolve_conflict (rdo_st t) x l r else l) as left'. clear Heqleft'.
  rdo_b_bind H.
  assert (G2 : exists d, rdo_f_dseq (rdo_link (rdo_st t) left' x) d (rdo_st a) /\ rdo_next a = rdo_next t /\
               rdo_tins a = rdo_tins t ++ [rdo_id x] /\ rdo_tdel a = rdo_tdel t ++ d).
  { assert (Z : forall a0, RdoOk {| rdo_st := rdo_link (rdo_st t) left' x; rdo_next := rdo_next t; rdo_tins := rdo_tins t ++ [rdo_id x]; rdo_tdel := rdo_tdel t |} = RdoOk a0 ->
              exists d, rdo_f_dseq (rdo_link (rdo_st t) left' x) d (rdo_st a0) /\ rdo_next a0 = rdo_next t /\
               rdo_tins a0 = rdo_tins t ++ [rdo_id x] /\ rdo_tdel a0 = rdo_tdel t ++ d).
    { intros a0 E0; inversion E0; subst; simpl. exists []. rewrite app_nil_r. repeat split; auto. constructor. }
    destruct (rdo_right _ _). apply Z; auto.
    destruct (rdo_sub x); [|apply Z; auto].
    destruct left'; [|apply Z; auto].
    apply rdo_f_txn_delete_tr in E. simpl in E. exact E. }
  destruct G2 as (d1 & S1 & N1 & I1 & D1).
  destruct (_ || _).
  - apply rdo_f_txn_delete_tr in H. destruct H as (d2 & S2 & N2 & I2 & D2).
    exists left', (d1 ++ d2). split. eapply rdo_f_dseq_app; eauto.
    rewrite N2, I2, D2, N1, I1, D1, app_assoc. auto.
  - inversion H; subst. exists left', d1. auto.
Qed.

(* ============================================================================================== *)
(* F0c: the primitive changes of a transaction of calls, with the sets it records *)

Definition rdo_f_parok (sc : list N) (st : list rdo_item) (p : rdo_parent) : Prop :=
  match p with
  | RdoRoot r => rdo_mem r sc = true
  | RdoItem q => exists y k, rdo_get st q = Some y /\ rdo_cnt y = RdoType k
  end.

Definition rdo_f_mk st n I D : rdo_txn := {| rdo_st := st; rdo_next := n; rdo_tins := I; rdo_tdel := D |}.

Inductive rdo_f_p1 (sc : list N) : rdo_txn -> rdo_txn -> Prop :=
| rdo_f_p1_del st n I D i x : rdo_get st i = Some x -> rdo_del x = false ->
    rdo_f_p1 sc (rdo_f_mk st n I D) (rdo_f_mk (rdo_update st i rdo_set_del) n I (D ++ [i]))
| rdo_f_p1_link st n I D l x : rdo_id x = n -> rdo_del x = false -> rdo_red x = None -> rdo_f_parok sc st (rdo_par x) ->
    rdo_f_p1 sc (rdo_f_mk st n I D) (rdo_f_mk (rdo_link st l x) (n + 1) (I ++ [n]) D).

Inductive rdo_f_ps (sc : list N) : rdo_txn -> rdo_txn -> Prop :=
| rdo_f_ps_refl t : rdo_f_ps sc t t
| rdo_f_ps_cons t t1 t2 : rdo_f_p1 sc t t1 -> rdo_f_ps sc t1 t2 -> rdo_f_ps sc t t2.

Lemma rdo_f_ps_trans sc t t1 : rdo_f_ps sc t t1 -> forall t2, rdo_f_ps sc t1 t2 -> rdo_f_ps sc t t2.
Proof. induction 1; auto. intros; econstructor; eauto. Qed.

Lemma rdo_f_dseq_ps sc st d st' : rdo_f_dseq st d st' -> forall n I D, rdo_f_ps sc (rdo_f_mk st n I D) (rdo_f_mk st' n I (D ++ d)).
Proof.
  induction 1; intros n I D. rewrite app_nil_r. constructor.
  econstructor. eapply rdo_f_p1_del; eauto.
  replace (D ++ i :: d) with ((D ++ [i]) ++ d) by (rewrite <- app_assoc; reflexivity). apply IHrdo_f_dseq.
Qed.

Lemma rdo_f_resolve_parok sc st path : NoDup (map rdo_id st) -> forall par q,
  rdo_resolve st par path = Some q -> rdo_f_parok sc st par -> rdo_f_parok sc st q.
Proof.
  intros ND. induction path; simpl; intros par q H Hp. inversion H; subst; auto.
  destruct a.
  - destruct (nth_error _ n) eqn:E; [|discriminate]. destruct (rdo_cnt r) eqn:C; [discriminate|].
    apply IHpath in H; auto. simpl. apply nth_error_In in E. unfold rdo_live in E. apply filter_In in E. destruct E as [E _].
    apply rdo_b_chain_in in E. destruct E as [E _]. exists r, kind. split; auto. apply rdo_b_in_get; auto.
  - destruct (rdo_entry st par k) eqn:E; [|discriminate]. destruct (rdo_cnt r) eqn:C; [discriminate|].
    apply IHpath in H; auto. simpl. unfold rdo_entry in E.
    destruct (rdo_map_get st par k) eqn:M; [|discriminate]. destruct (rdo_get st n) eqn:G; [|discriminate].
    destruct (rdo_del r0); inversion E; subst. pose proof (rdo_b_get_in _ _ _ G) as [_ Hid]. rewrite Hid. eauto.
Qed.

Lemma rdo_f_txn_delete_ps sc t i t' : rdo_txn_delete t i = RdoOk t' -> rdo_f_ps sc t t'.
Proof.
  intros H. apply rdo_f_txn_delete_tr in H. destruct H as (d & S & N1 & I1 & D1).
  destruct t as [st n I D], t' as [st' n' I' D']. simpl in *. subst. apply (rdo_f_dseq_ps sc _ _ _ S).
Qed.

Lemma rdo_f_new_item_ps sc st n I D par sub c l r t' :
  rdo_f_parok sc st par ->
  rdo_integrate (rdo_bump (rdo_f_mk st n I D)) (rdo_new_item (rdo_f_mk st n I D) par sub c l r) l r = RdoOk t' ->
  rdo_f_ps sc (rdo_f_mk st n I D) t'.
Proof.
  intros Hp H. apply rdo_f_integrate_tr in H. destruct H as (l' & d & S & N1 & I1 & D1).
  destruct t' as [st' n' I' D']. simpl in *. subst.
  econstructor. apply (rdo_f_p1_link sc st n I D l' (rdo_new_item (rdo_f_mk st n I D) par sub c l r)); simpl; auto.
  apply (rdo_f_dseq_ps sc _ _ _ S).
Qed.

Lemma rdo_f_op_ps sc t o t' : NoDup (map rdo_id (rdo_st t)) -> rdo_mem (rdo_i_op_root o) sc = true ->
  rdo_op_apply t o = RdoOk t' -> rdo_f_ps sc t t'.
Proof.
  intros ND Hr H. unfold rdo_op_apply in H. destruct o; simpl in Hr.
  - destruct (rdo_resolve _ _ _) eqn:Rs; [|inversion H; subst; constructor].
    destruct (rdo_ins_point _ _ _) as [l0 r0]. destruct t as [st n I D].
    eapply rdo_f_new_item_ps; eauto. eapply rdo_f_resolve_parok; eauto; simpl; auto.
  - destruct (rdo_resolve _ _ _); [|inversion H; subst; constructor].
    destruct (nth_error _ _); [|inversion H; subst; constructor].
    eapply rdo_f_txn_delete_ps; eauto.
  - destruct (rdo_resolve _ _ _) eqn:Rs; [|inversion H; subst; constructor]. destruct t as [st n I D].
    eapply rdo_f_new_item_ps; eauto. eapply rdo_f_resolve_parok; eauto; simpl; auto.
  - destruct (rdo_resolve _ _ _); [|inversion H; subst; constructor].
    destruct (rdo_entry _ _ _); [|inversion H; subst; constructor].
    eapply rdo_f_txn_delete_ps; eauto.
Qed.

(* ============================================================================================== *)
(* F0d: the store invariant of capture-only histories (Prop reading; rdo_i_wfp is its first three parts) *)

Record rdo_f_W (sc : list N) (st : list rdo_item) (n : N) : Prop := {
  rdo_f_W_nd : NoDup (map rdo_id st);
  rdo_f_W_lt : forall x, In x st -> rdo_id x < n;
  rdo_f_W_par : forall x p, In x st -> rdo_par x = RdoItem p ->
                p < rdo_id x /\ exists y k, rdo_get st p = Some y /\ rdo_cnt y = RdoType k;
  rdo_f_W_red : forall x, In x st -> rdo_red x = None;
  rdo_f_W_sc : forall x, In x st -> rdo_b_insc sc st (rdo_id x) }.

Lemma rdo_f_get_upd_ex st i f p y : rdo_f_fok f -> rdo_get st p = Some y ->
  exists y', rdo_get (rdo_update st i f) p = Some y' /\ rdo_cnt y' = rdo_cnt y /\ rdo_par y' = rdo_par y.
Proof.
  intros Hf G. rewrite rdo_b_get_update by (apply rdo_f_fok_id; auto). destruct (p =? i).
  - rewrite G; simpl. eexists; split; eauto. split; apply Hf.
  - eauto.
Qed.

Lemma rdo_f_W_update sc st n i f : rdo_f_fok f -> rdo_f_W sc st n -> rdo_f_W sc (rdo_update st i f) n.
Proof.
  intros Hf [W1 W2 W3 W4 W5].
  assert (GP : rdo_b_gpres st (rdo_update st i f)).
  { intros j y G. destruct (rdo_f_get_upd_ex st i f j y Hf G) as (y' & G' & _ & P'). eauto. }
  assert (IN : forall x, In x (rdo_update st i f) -> exists x0, In x0 st /\ (x = x0 \/ x = f x0)).
  { intros x Hx. apply rdo_a_in_update in Hx. destruct Hx as [Hx|(x0 & Hx0 & _ & ->)]; eauto. }
  split.
  - rewrite rdo_a_ids_update; auto. apply rdo_f_fok_id; auto.
  - intros x Hx. destruct (IN _ Hx) as (x0 & H0 & [->| ->]); auto. destruct (Hf x0) as (-> & _). auto.
  - intros x p Hx Hp. destruct (IN _ Hx) as (x0 & H0 & E).
    assert (P0 : rdo_par x0 = RdoItem p /\ rdo_id x = rdo_id x0).
    { destruct E as [->| ->]; auto. destruct (Hf x0) as (E1 & E2 & _). split; congruence. }
    destruct P0 as [P0 ->]. destruct (W3 _ _ H0 P0) as (L & y & k & G & C). split; auto.
    destruct (rdo_f_get_upd_ex st i f p y Hf G) as (y' & G' & C' & _). exists y', k. split; congruence.
  - intros x Hx. destruct (IN _ Hx) as (x0 & H0 & [->| ->]); auto. destruct (Hf x0) as (_ & _ & _ & _ & -> & _). auto.
  - intros x Hx. destruct (IN _ Hx) as (x0 & H0 & E).
    assert (E1 : rdo_id x = rdo_id x0) by (destruct E as [->| ->]; auto; apply Hf). rewrite E1.
    eapply rdo_b_insc_fwd; eauto.
Qed.

Lemma rdo_f_W_link sc st n l x : rdo_id x = n -> rdo_red x = None -> rdo_f_parok sc st (rdo_par x) ->
  rdo_f_W sc st n -> rdo_f_W sc (rdo_link st l x) (n + 1).
Proof.
  intros Hid Hr Hp [W1 W2 W3 W4 W5].
  assert (NI : ~ In (rdo_id x) (map rdo_id st)).
  { intros Hc. apply in_map_iff in Hc. destruct Hc as (y & E & Hy). apply W2 in Hy. lia. }
  assert (GL : forall j, rdo_get (rdo_link st l x) j = if rdo_id x =? j then Some x else rdo_get st j).
  { intros j. apply rdo_a_get_link; auto. }
  assert (GN : forall j y, rdo_get st j = Some y -> rdo_get (rdo_link st l x) j = Some y).
  { intros j y G. rewrite GL. destruct (N.eqb_spec (rdo_id x) j); auto. subst j. apply rdo_a_get_ids' in G. tauto. }
  assert (GP : rdo_b_gpres st (rdo_link st l x)).
  { intros j y G. exists y; split; auto. }
  assert (SX : rdo_b_insc sc (rdo_link st l x) (rdo_id x)).
  { apply (rdo_b_insc_pscoped sc _ _ x). rewrite GL, N.eqb_refl; auto.
    destruct (rdo_par x) eqn:P; simpl in *; auto. destruct Hp as (y & k & G & C).
    eapply rdo_b_insc_fwd; eauto. destruct (rdo_b_get_in _ _ _ G) as [Iy <-]. auto. }
  split.
  - apply rdo_b_nodup_link; auto.
  - intros y Hy. apply rdo_a_link_in in Hy. destruct Hy as [->|Hy]. lia. apply W2 in Hy. lia.
  - intros y p Hy P. apply rdo_a_link_in in Hy. destruct Hy as [->|Hy].
    + rewrite P in Hp. simpl in Hp. destruct Hp as (z & k & G & C). split.
      destruct (rdo_b_get_in _ _ _ G) as [Iz <-]. apply W2 in Iz. lia. exists z, k; auto.
    + destruct (W3 _ _ Hy P) as (L & z & k & G & C). split; auto. exists z, k; auto.
  - intros y Hy. apply rdo_a_link_in in Hy. destruct Hy as [->|Hy]; auto.
  - intros y Hy. apply rdo_a_link_in in Hy. destruct Hy as [->|Hy]; auto. eapply rdo_b_insc_fwd; eauto.
Qed.

Lemma rdo_f_W_p1 sc t t' : rdo_f_p1 sc t t' -> rdo_f_W sc (rdo_st t) (rdo_next t) -> rdo_f_W sc (rdo_st t') (rdo_next t').
Proof.
  intros H W; inversion H; subst; simpl in *.
  - apply rdo_f_W_update; auto using rdo_f_fok_del.
  - apply rdo_f_W_link; auto.
Qed.
Lemma rdo_f_W_ps sc t t' : rdo_f_ps sc t t' -> rdo_f_W sc (rdo_st t) (rdo_next t) -> rdo_f_W sc (rdo_st t') (rdo_next t').
Proof. induction 1; auto. intros; apply IHrdo_f_ps. eapply rdo_f_W_p1; eauto. Qed.

(* ============================================================================================== *)
(* F2(a,b): accounting of a capture step relative to the store st0 / clock n0 at its start *)

Definition rdo_f_le (x0 x : rdo_item) : Prop :=
  rdo_id x = rdo_id x0 /\ rdo_par x = rdo_par x0 /\ rdo_sub x = rdo_sub x0 /\ rdo_cnt x = rdo_cnt x0 /\
  rdo_red x = rdo_red x0 /\ rdo_org x = rdo_org x0 /\ rdo_rorg x = rdo_rorg x0 /\
  (rdo_del x0 = true -> rdo_del x = true).
Definition rdo_f_old (n0 : N) (x : rdo_item) : bool := rdo_id x <? n0.

(* the ids whose deletion flag went from false to true since the start (new items included) *)
Definition rdo_f_isD (st0 : list rdo_item) (n0 : N) (st : list rdo_item) (i : N) : Prop :=
  exists x, In x st /\ rdo_id x = i /\ rdo_del x = true /\
            (n0 <= i \/ exists x0, In x0 st0 /\ rdo_id x0 = i /\ rdo_del x0 = false).

Record rdo_f_acc (st0 : list rdo_item) (n0 : N) (st : list rdo_item) (I D : list N) : Prop := {
  rdo_f_acc_old : Forall2 rdo_f_le st0 (filter (rdo_f_old n0) st);
  rdo_f_acc_I : forall i, In i I <-> n0 <= i /\ In i (map rdo_id st);
  rdo_f_acc_D : forall i, In i D <-> rdo_f_isD st0 n0 st i }.

Lemma rdo_f_le_refl x : rdo_f_le x x. Proof. unfold rdo_f_le; intuition. Qed.
Lemma rdo_f_le_fok x0 x f : rdo_f_fok f -> rdo_f_le x0 x -> rdo_f_le x0 (f x).
Proof.
  intros Hf (a1&a2&a3&a4&a5&a6&a7&a8). destruct (Hf x) as (b1&b2&b3&b4&b5&b6&b7&b8).
  unfold rdo_f_le. repeat (split; [congruence|]). auto.
Qed.

Lemma rdo_f_F2_in_r {A B} (R : A -> B -> Prop) l0 l : Forall2 R l0 l -> forall x, In x l -> exists x0, In x0 l0 /\ R x0 x.
Proof. induction 1; simpl; intros z []; subst; eauto. destruct (IHForall2 _ H1) as (x0 & ? & ?); eauto. Qed.

Lemma rdo_f_acc_equiv st0 n0 st I D I' D' :
  (forall i, In i I' <-> In i I) -> (forall i, In i D' <-> In i D) -> rdo_f_acc st0 n0 st I D -> rdo_f_acc st0 n0 st I' D'.
Proof. intros HI HD [A1 A2 A3]. split; auto. intros i; rewrite HI; auto. intros i; rewrite HD; auto. Qed.

Lemma rdo_f_acc_refl st0 n0 : NoDup (map rdo_id st0) -> (forall x, In x st0 -> rdo_id x < n0) -> rdo_f_acc st0 n0 st0 [] [].
Proof.
  intros ND LT. split.
  - clear ND. induction st0; simpl. constructor.
    unfold rdo_f_old at 1. assert (rdo_id a <? n0 = true) as -> by (apply N.ltb_lt; apply LT; simpl; auto).
    constructor. apply rdo_f_le_refl. apply IHst0. intros; apply LT; simpl; auto.
  - intros i; split. intros []. intros [L Hi]. apply in_map_iff in Hi. destruct Hi as (x & <- & Hx). apply LT in Hx. lia.
  - intros i; split. intros []. intros (x & Hx & <- & Dx & [L|(x0 & H0 & E & D0)]).
    apply LT in Hx; lia. assert (x0 = x) by (eapply rdo_f_nodup_inj; eauto). subst. congruence.
Qed.

Lemma rdo_f_old_upd n0 f i : rdo_f_fok f -> forall st st0', Forall2 rdo_f_le st0' (filter (rdo_f_old n0) st) ->
  Forall2 rdo_f_le st0' (filter (rdo_f_old n0) (rdo_update st i f)).
Proof.
  intros Hf. induction st; simpl; intros st0' H; auto.
  destruct (rdo_id a =? i); simpl.
  - unfold rdo_f_old at 1. rewrite (rdo_f_fok_id f Hf). fold (rdo_f_old n0 a). destruct (rdo_f_old n0 a); auto.
    inversion H; subst. constructor; auto. apply rdo_f_le_fok; auto.
  - destruct (rdo_f_old n0 a); auto. inversion H; subst. constructor; auto.
Qed.

Lemma rdo_f_acc_del st0 n0 st I D i x : rdo_get st i = Some x -> rdo_del x = false ->
  rdo_f_acc st0 n0 st I D -> rdo_f_acc st0 n0 (rdo_update st i rdo_set_del) I (D ++ [i]).
Proof.
  intros G Dx [A1 A2 A3]. destruct (rdo_b_get_in _ _ _ G) as [Ix Ex]. split.
  - apply rdo_f_old_upd; auto using rdo_f_fok_del.
  - intros j. rewrite rdo_a_ids_update by reflexivity. auto.
  - intros j. rewrite in_app_iff, A3. split.
    + intros [(y & Hy & E & Dy & C)|[<-|[]]].
      * destruct (rdo_f_in_upd_fwd st i rdo_set_del y Hy) as [Hy'|[_ Hy']].
        exists y; auto. exists (rdo_set_del y); simpl; auto.
      * exists (rdo_set_del x). split. apply rdo_f_get_in_upd; auto. simpl. repeat split; auto.
        destruct (N.le_gt_cases n0 i) as [L|L]; auto. right.
        assert (Hf : In x (filter (rdo_f_old n0) st)).
        { apply filter_In; split; auto. unfold rdo_f_old. apply N.ltb_lt. lia. }
        destruct (rdo_f_F2_in_r _ _ _ A1 _ Hf) as (x0 & H0 & L0). exists x0. split; auto.
        destruct L0 as (a1&_&_&_&_&_&_&a8). split. congruence.
        destruct (rdo_del x0); auto. rewrite a8 in Dx by auto. discriminate.
    + intros (y & Hy & E & Dy & C). apply rdo_a_in_update in Hy. destruct Hy as [Hy|(x' & Hx' & E' & ->)].
      * left. exists y; auto.
      * right. simpl in E. left. congruence.
Qed.

Lemma rdo_f_acc_keep st0 n0 st I D i f : rdo_f_fok f -> (forall y, rdo_del (f y) = rdo_del y) ->
  rdo_f_acc st0 n0 st I D -> rdo_f_acc st0 n0 (rdo_update st i f) I D.
Proof.
  intros Hf Hd [A1 A2 A3]. split.
  - apply rdo_f_old_upd; auto.
  - intros j. rewrite rdo_a_ids_update by (apply rdo_f_fok_id; auto). auto.
  - intros j. rewrite A3. split.
    + intros (y & Hy & E & Dy & C).
      destruct (rdo_f_in_upd_fwd st i f y Hy) as [Hy'|[_ Hy']].
      exists y; auto. exists (f y). rewrite Hd, (rdo_f_fok_id f Hf). auto.
    + intros (y & Hy & E & Dy & C). apply rdo_a_in_update in Hy. destruct Hy as [Hy|(x' & Hx' & E' & ->)].
      exists y; auto. exists x'. rewrite Hd in Dy. rewrite (rdo_f_fok_id f Hf) in E. auto.
Qed.

Lemma rdo_f_acc_link st0 n0 st I D l x : n0 <= rdo_id x -> rdo_del x = false ->
  rdo_f_acc st0 n0 st I D -> rdo_f_acc st0 n0 (rdo_link st l x) (I ++ [rdo_id x]) D.
Proof.
  intros L Dx [A1 A2 A3].
  assert (Ho : rdo_f_old n0 x = false) by (unfold rdo_f_old; apply N.ltb_ge; auto).
  split.
  - destruct l; simpl. rewrite rdo_a_filter_insert_out; auto. rewrite Ho; auto.
  - intros j. rewrite in_app_iff, A2. simpl. split.
    + intros [[L1 Hj]|[<-|[]]].
      * split; auto. apply in_map_iff in Hj. destruct Hj as (y & <- & Hy). apply in_map. apply rdo_a_link_in; auto.
      * split; auto. apply in_map. apply rdo_a_link_in; auto.
    + intros [L1 Hj]. apply in_map_iff in Hj. destruct Hj as (y & <- & Hy). apply rdo_a_link_in in Hy.
      destruct Hy as [->|Hy]; auto. left. split; auto. apply in_map; auto.
  - intros j. rewrite A3. split.
    + intros (y & Hy & R). exists y; split; auto. apply rdo_a_link_in; auto.
    + intros (y & Hy & E & Dy & C). apply rdo_a_link_in in Hy. destruct Hy as [->|Hy]. congruence. exists y; auto.
Qed.

(* keep flags *)
Lemma rdo_f_keep_walk_ind (P : list rdo_item -> Prop) :
  (forall st i b, P st -> P (rdo_update st i (fun y => rdo_set_keep y b))) ->
  forall fuel st i b, P st -> P (rdo_keep_walk fuel st i b).
Proof.
  intros HP. induction fuel; simpl; intros st i b H; auto.
  destruct (rdo_get st i); auto. destruct (Bool.eqb _ _); auto. destruct (rdo_par r); auto.
Qed.
Lemma rdo_f_keep_all_ind (P : list rdo_item -> Prop) sc b :
  (forall st i b, P st -> P (rdo_update st i (fun y => rdo_set_keep y b))) ->
  forall ids st, P st -> P (rdo_keep_all st sc ids b).
Proof.
  intros HP. unfold rdo_keep_all. induction ids; intros st H; [exact H|]. cbn [fold_left].
  apply IHids. destruct (rdo_in_scope st sc a); auto. apply rdo_f_keep_walk_ind; auto.
Qed.

(* the transaction level *)
Lemma rdo_f_acc_p1 sc st0 n0 I0 D0 t t' : rdo_f_p1 sc t t' -> n0 <= rdo_next t ->
  rdo_f_acc st0 n0 (rdo_st t) (I0 ++ rdo_tins t) (D0 ++ rdo_tdel t) ->
  n0 <= rdo_next t' /\ rdo_f_acc st0 n0 (rdo_st t') (I0 ++ rdo_tins t') (D0 ++ rdo_tdel t').
Proof.
  intros H L A; inversion H; subst; simpl in *.
  - split; auto. rewrite app_assoc. eapply rdo_f_acc_del; eauto.
  - split. lia. rewrite app_assoc. apply (rdo_f_acc_link st0 n0 st _ _ l x) in A; auto.
Qed.
Lemma rdo_f_acc_ps sc st0 n0 I0 D0 t t' : rdo_f_ps sc t t' -> n0 <= rdo_next t ->
  rdo_f_acc st0 n0 (rdo_st t) (I0 ++ rdo_tins t) (D0 ++ rdo_tdel t) ->
  n0 <= rdo_next t' /\ rdo_f_acc st0 n0 (rdo_st t') (I0 ++ rdo_tins t') (D0 ++ rdo_tdel t').
Proof. induction 1; auto. intros L A. destruct (rdo_f_acc_p1 _ _ _ _ _ _ _ H L A). auto. Qed.

Lemma rdo_f_ops_ps sc ops : forall t t', rdo_f_W sc (rdo_st t) (rdo_next t) ->
  forallb (fun o => rdo_mem (rdo_i_op_root o) sc) ops = true -> rdo_ops_apply t ops = RdoOk t' -> rdo_f_ps sc t t'.
Proof.
  induction ops; simpl; intros t t' W Hr H. inversion H; subst; constructor.
  apply andb_true_iff in Hr. destruct Hr as [Hr1 Hr2]. rdo_b_bind H.
  assert (P1 : rdo_f_ps sc t a0) by (eapply rdo_f_op_ps; eauto; apply W).
  eapply rdo_f_ps_trans; eauto. apply IHops; auto. eapply rdo_f_W_ps; eauto.
Qed.

(* every item of a W store is in the scope (boolean reading) *)
Lemma rdo_f_W_bwf sc st n : rdo_f_W sc st n -> rdo_b_wf sc st n.
Proof.
  intros [W1 W2 W3 W4 W5]. split; [auto|split; [|split]].
  - intros j x G. destruct (rdo_b_get_in _ _ _ G) as [Ix <-]. auto.
  - intros j x p G P. destruct (rdo_b_get_in _ _ _ G) as [Ix <-]. destruct (W3 _ _ Ix P) as (L & y & k & Gy & _).
    split; auto. congruence.
  - intros j x r G R. destruct (rdo_b_get_in _ _ _ G) as [Ix _]. rewrite W4 in R by auto. discriminate.
Qed.
Lemma rdo_f_W_in_scope sc st n i : rdo_f_W sc st n -> In i (map rdo_id st) -> rdo_in_scope st sc i = true.
Proof.
  intros W Hi. apply (rdo_b_in_scope_iff sc st n); auto using rdo_f_W_bwf.
  apply in_map_iff in Hi. destruct Hi as (x & <- & Hx). apply W; auto.
Qed.

Lemma rdo_f_existsb_nil {A} (f : A -> bool) l : existsb f l = false -> (forall i, In i l -> f i = true) -> l = [].
Proof. destruct l; simpl; auto. intros H H0. rewrite H0 in H by auto. discriminate. Qed.

(* the state inside a capture step that started at s0 *)
Definition rdo_f_SI (s0 s : rdo_state) : Prop :=
  rdo_scope s = rdo_scope s0 /\ rdo_rs s = [] /\ rdo_f_W (rdo_scope s0) (rdo_doc s) (rdo_clock s) /\ rdo_clock s0 <= rdo_clock s /\
  ((rdo_ext s = false /\ rdo_us s = rdo_us s0 /\ rdo_f_acc (rdo_doc s0) (rdo_clock s0) (rdo_doc s) [] []) \/
   (rdo_ext s = true /\ exists e, rdo_us s = e :: rdo_us s0 /\
      rdo_f_acc (rdo_doc s0) (rdo_clock s0) (rdo_doc s) (rdo_sins e) (rdo_sdel e))).

Lemma rdo_f_SI_reset s0 : rdo_rs s0 = [] -> rdo_f_W (rdo_scope s0) (rdo_doc s0) (rdo_clock s0) -> rdo_f_SI s0 (rdo_reset s0).
Proof.
  intros R W. unfold rdo_f_SI; simpl. split; auto. split; auto. split; auto. split. lia.
  left. split; auto. split; auto. apply rdo_f_acc_refl; apply W.
Qed.

Lemma rdo_f_after_txn_SI s0 s t I0 D0 :
  rdo_scope s = rdo_scope s0 -> rdo_rs s = [] ->
  rdo_f_W (rdo_scope s0) (rdo_st t) (rdo_next t) -> rdo_clock s0 <= rdo_next t ->
  rdo_f_acc (rdo_doc s0) (rdo_clock s0) (rdo_st t) (I0 ++ rdo_tins t) (D0 ++ rdo_tdel t) ->
  ((rdo_ext s = false /\ rdo_us s = rdo_us s0 /\ I0 = [] /\ D0 = []) \/
   (rdo_ext s = true /\ exists e, rdo_us s = e :: rdo_us s0 /\ I0 = rdo_sins e /\ D0 = rdo_sdel e)) ->
  rdo_f_SI s0 (rdo_after_txn s t RdoNormal).
Proof.
  intros Sc Rs W L A C. unfold rdo_after_txn. rewrite Rs, Sc. cbn [fold_left].
  destruct (existsb _ _) eqn:Cap; cbn [negb].
  - (* captured *)
    unfold rdo_f_SI; cbn [rdo_scope rdo_rs rdo_doc rdo_clock rdo_ext rdo_us].
    split; auto. split; auto. split.
    { apply rdo_f_keep_all_ind; auto. intros; apply rdo_f_W_update; auto using rdo_f_fok_keep. }
    split; auto. right. split; auto.
    assert (K : forall I D, rdo_f_acc (rdo_doc s0) (rdo_clock s0) (rdo_st t) I D ->
                rdo_f_acc (rdo_doc s0) (rdo_clock s0) (rdo_keep_all (rdo_st t) (rdo_scope s0) (rdo_sort (rdo_tdel t)) true) I D).
    { intros I D. apply (rdo_f_keep_all_ind (fun st => rdo_f_acc (rdo_doc s0) (rdo_clock s0) st I D)).
      intros; apply rdo_f_acc_keep; auto using rdo_f_fok_keep. }
    destruct C as [(E & U & -> & ->)|(E & e & U & -> & ->)].
    + exists {| rdo_sins := rdo_sort (rdo_tins t); rdo_sdel := rdo_sort (rdo_tdel t) |}. split.
      * rewrite U. destruct (rdo_us s0) eqn:U0; auto. rewrite E; auto.
      * cbn [rdo_sins rdo_sdel]. apply K. eapply rdo_f_acc_equiv; [| |exact A]; intros i; rewrite rdo_f_sort_In; simpl; tauto.
    + exists {| rdo_sins := rdo_merge (rdo_sins e) (rdo_sort (rdo_tins t)); rdo_sdel := rdo_merge (rdo_sdel e) (rdo_sort (rdo_tdel t)) |}.
      split. rewrite U, E; auto.
      cbn [rdo_sins rdo_sdel]. apply K. unfold rdo_merge.
      eapply rdo_f_acc_equiv; [| |exact A]; intros i; rewrite rdo_f_sort_In, !in_app_iff, rdo_f_sort_In; tauto.
  - (* not captured: nothing was recorded, because everything is in the scope *)
    assert (Z : rdo_tins t ++ rdo_tdel t = []).
    { apply (rdo_f_existsb_nil _ _ Cap). intros i Hi. apply (rdo_f_W_in_scope _ _ _ _ W).
      apply in_app_or in Hi. destruct Hi as [Hi|Hi].
      - assert (Hi' : In i (I0 ++ rdo_tins t)) by (apply in_or_app; auto). apply A in Hi'. tauto.
      - assert (Hi' : In i (D0 ++ rdo_tdel t)) by (apply in_or_app; auto). apply A in Hi'.
        destruct Hi' as (x & Hx & <- & _). apply in_map; auto. }
    apply app_eq_nil in Z. destruct Z as [Z1 Z2]. rewrite Z1, Z2, !app_nil_r in A.
    unfold rdo_f_SI; cbn [rdo_scope rdo_rs rdo_doc rdo_clock rdo_ext rdo_us].
    split; auto. split; auto. split; auto. split; auto.
    destruct C as [(E & U & -> & ->)|(E & e & U & -> & ->)]; [left|right]; eauto.
Qed.

Lemma rdo_f_txn_SI s0 s ops s' : rdo_f_SI s0 s ->
  forallb (fun o => rdo_mem (rdo_i_op_root o) (rdo_scope s0)) ops = true ->
  rdo_tracked_txn s ops = RdoOk s' -> rdo_f_SI s0 s'.
Proof.
  intros (Sc & Rs & W & L & C) Hr H. unfold rdo_tracked_txn in H. rdo_b_bind H. inversion H; subst s'; clear H.
  assert (P : rdo_f_ps (rdo_scope s0) (rdo_begin s) a) by (eapply rdo_f_ops_ps; eauto).
  pose proof (rdo_f_W_ps _ _ _ P W) as W1.
  assert (X : exists I0 D0, rdo_f_acc (rdo_doc s0) (rdo_clock s0) (rdo_doc s) I0 D0 /\
     ((rdo_ext s = false /\ rdo_us s = rdo_us s0 /\ I0 = [] /\ D0 = []) \/
      (rdo_ext s = true /\ exists e, rdo_us s = e :: rdo_us s0 /\ I0 = rdo_sins e /\ D0 = rdo_sdel e))).
  { destruct C as [(Ex & U & A)|(Ex & e & U & A)]. exists [], []; split; auto. exists (rdo_sins e), (rdo_sdel e); split; auto. right. split; auto. exists e; auto. }
  destruct X as (I0 & D0 & A & C').
  destruct (rdo_f_acc_ps _ (rdo_doc s0) (rdo_clock s0) I0 D0 _ _ P) as [L1 A1]; auto.
  { simpl. rewrite !app_nil_r. auto. }
  eapply rdo_f_after_txn_SI; eauto.
Qed.

Lemma rdo_f_step_SI s0 txns s1 : rdo_rs s0 = [] -> rdo_f_W (rdo_scope s0) (rdo_doc s0) (rdo_clock s0) ->
  forallb (forallb (fun o => rdo_mem (rdo_i_op_root o) (rdo_scope s0))) txns = true ->
  rdo_act s0 (RdoAStep txns) = RdoOk s1 -> rdo_f_SI s0 s1.
Proof.
  intros R W Hr H. simpl in H. pose proof (rdo_f_SI_reset s0 R W) as S0.
  revert H S0. generalize (rdo_reset s0). induction txns; simpl; intros s H S0.
  - inversion H; subst; auto.
  - simpl in Hr. apply andb_true_iff in Hr. destruct Hr as [Hr1 Hr2].
    destruct (rdo_tracked_txn s a) as [s'|] eqn:E; simpl in H.
    + apply IHtxns in H; auto. eapply rdo_f_txn_SI; eauto.
    + rewrite rdo_b_fold_err in H by reflexivity. discriminate.
Qed.

(* F2 (a), (b): the entry of a captured step, and what the step did to the old items *)
Theorem rdo_f_step_effect : forall s0 txns s1,
  rdo_rs s0 = [] -> rdo_f_W (rdo_scope s0) (rdo_doc s0) (rdo_clock s0) ->
  forallb (forallb (fun o => rdo_mem (rdo_i_op_root o) (rdo_scope s0))) txns = true ->
  rdo_act s0 (RdoAStep txns) = RdoOk s1 ->
  length (rdo_us s1) = S (length (rdo_us s0)) ->
  exists e, rdo_us s1 = e :: rdo_us s0 /\ rdo_rs s1 = [] /\ rdo_scope s1 = rdo_scope s0 /\
            rdo_f_W (rdo_scope s0) (rdo_doc s1) (rdo_clock s1) /\ rdo_clock s0 <= rdo_clock s1 /\
            rdo_f_acc (rdo_doc s0) (rdo_clock s0) (rdo_doc s1) (rdo_sins e) (rdo_sdel e).
Proof.
  intros s0 txns s1 R W Hr H Len. destruct (rdo_f_step_SI _ _ _ R W Hr H) as (Sc & Rs & W1 & L & C).
  destruct C as [(E & U & A)|(E & e & U & A)].
  - rewrite U in Len. lia.
  - exists e. repeat (split; [assumption|]). assumption.
Qed.
Print Assumptions rdo_f_step_effect.

(* the other case: the stack keeps its length, and no item was added or deleted *)
Theorem rdo_f_step_uncaptured : forall s0 txns s1,
  rdo_rs s0 = [] -> rdo_f_W (rdo_scope s0) (rdo_doc s0) (rdo_clock s0) ->
  forallb (forallb (fun o => rdo_mem (rdo_i_op_root o) (rdo_scope s0))) txns = true ->
  rdo_act s0 (RdoAStep txns) = RdoOk s1 ->
  length (rdo_us s1) <> S (length (rdo_us s0)) ->
  rdo_us s1 = rdo_us s0 /\ rdo_rs s1 = [] /\ rdo_scope s1 = rdo_scope s0 /\
  rdo_f_W (rdo_scope s0) (rdo_doc s1) (rdo_clock s1) /\
  rdo_f_acc (rdo_doc s0) (rdo_clock s0) (rdo_doc s1) [] [].
Proof.
  intros s0 txns s1 R W Hr H Len. destruct (rdo_f_step_SI _ _ _ R W Hr H) as (Sc & Rs & W1 & L & C).
  destruct C as [(E & U & A)|(E & e & U & A)].
  - repeat (split; [assumption|]). assumption.
  - rewrite U in Len. simpl in Len. lia.
Qed.
Print Assumptions rdo_f_step_uncaptured.

(* ============================================================================================== *)
(* F2(d): the virtual store of the entry of a captured step shows the content before the step *)

Definition rdo_f_g (I D : list N) (x : rdo_item) : rdo_item :=
  if rdo_mem (rdo_id x) I then rdo_set_del x else if rdo_mem (rdo_id x) D then rdo_set_live x else x.
Lemma rdo_f_flip_eq st I D : rdo_i_flip st I D = map (rdo_f_g I D) st.
Proof. reflexivity. Qed.
Lemma rdo_f_g_fields I D x : rdo_id (rdo_f_g I D x) = rdo_id x /\ rdo_par (rdo_f_g I D x) = rdo_par x /\
  rdo_sub (rdo_f_g I D x) = rdo_sub x /\ rdo_cnt (rdo_f_g I D x) = rdo_cnt x /\ rdo_red (rdo_f_g I D x) = rdo_red x.
Proof. unfold rdo_f_g. destruct (rdo_mem _ I); [|destruct (rdo_mem _ D)]; simpl; auto. Qed.

Lemma rdo_f_get_map (g : rdo_item -> rdo_item) st i : (forall x, rdo_id (g x) = rdo_id x) ->
  rdo_get (map g st) i = option_map g (rdo_get st i).
Proof. intros Hg; induction st; simpl; auto. rewrite Hg. destruct (rdo_id a =? i); auto. Qed.

Lemma rdo_f_W_wfp sc st n : rdo_f_W sc st n -> rdo_i_wfp st n = true.
Proof.
  intros [W1 W2 W3 W4 W5]. apply rdo_d_wfp_spec. split; auto. intros x Hx. split; auto.
  destruct (rdo_par x) eqn:P; auto.
Qed.

Lemma rdo_f_wfp_flip st n I D : rdo_i_wfp st n = true -> rdo_i_wfp (rdo_i_flip st I D) n = true.
Proof.
  rewrite !rdo_d_wfp_spec, rdo_f_flip_eq. intros [W1 W2].
  assert (Hid : forall x, rdo_id (rdo_f_g I D x) = rdo_id x) by (intros; apply rdo_f_g_fields).
  split.
  - rewrite map_map. rewrite (map_ext _ rdo_id); auto.
  - intros x' Hx'. apply in_map_iff in Hx'. destruct Hx' as (x & <- & Hx). destruct (W2 _ Hx) as [L Pp].
    destruct (rdo_f_g_fields I D x) as (-> & -> & _). split; auto.
    destruct (rdo_par x); auto. destruct Pp as (L2 & y & k & G & C). split; auto.
    exists (rdo_f_g I D y), k. rewrite rdo_f_get_map, G by auto. split; auto.
    destruct (rdo_f_g_fields I D y) as (_ & _ & _ & -> & _). auto.
Qed.

Lemma rdo_f_live_flip_old n0 I D : forall st,
  (forall x, In x st -> n0 <= rdo_id x -> rdo_mem (rdo_id x) I = true) ->
  rdo_live (map (rdo_f_g I D) st) = rdo_live (map (rdo_f_g I D) (filter (rdo_f_old n0) st)).
Proof.
  induction st; simpl; intros H; auto.
  unfold rdo_f_old at 1. destruct (N.ltb_spec (rdo_id a) n0); simpl.
  - rewrite IHst; auto.
  - rewrite IHst by auto. unfold rdo_f_g at 1. rewrite H by auto. simpl. auto.
Qed.

Lemma rdo_f_flip_live st0 n0 st I D : NoDup (map rdo_id st0) -> NoDup (map rdo_id st) ->
  rdo_f_acc st0 n0 st I D ->
  map rdo_d_key (rdo_live (rdo_i_flip st I D)) = map rdo_d_key (rdo_live st0).
Proof.
  intros ND0 ND [A1 A2 A3]. rewrite rdo_f_flip_eq, (rdo_f_live_flip_old n0).
  2:{ intros x Hx L. apply rdo_f_mem_In. apply A2. split; auto. apply in_map; auto. }
  assert (F : Forall2 (fun x0 x => rdo_f_le x0 x /\ rdo_mem (rdo_id x) I = false /\
                (rdo_mem (rdo_id x) D = true <-> rdo_del x = true /\ rdo_del x0 = false)) st0 (filter (rdo_f_old n0) st)).
  { apply rdo_d_F2_In in A1. eapply rdo_d_F2_impl; [|exact A1]. clear A1. intros x0 x (H0 & Hx & Le). split; auto.
    apply filter_In in Hx. destruct Hx as [Hx Ho]. unfold rdo_f_old in Ho. apply N.ltb_lt in Ho.
    assert (Eid : rdo_id x = rdo_id x0) by apply Le.
    split.
    - apply rdo_f_mem_false. intros Hc. apply A2 in Hc. lia.
    - rewrite rdo_f_mem_In, A3. split.
      + intros (y & Hy & E & Dy & [L|(y0 & Hy0 & E0 & D0)]). lia.
        assert (y = x) by (apply (rdo_f_nodup_inj st); auto; congruence).
        assert (y0 = x0) by (apply (rdo_f_nodup_inj st0); auto; congruence).
        subst; auto.
      + intros [Dx D0]. exists x. repeat split; auto. right. exists x0; auto. }
  clear A1 A2 A3 ND0 ND. induction F; simpl; auto.
  destruct H as (Le & HI & HD).
  assert (G : rdo_f_g I D y = if rdo_mem (rdo_id y) D then rdo_set_live y else y) by (unfold rdo_f_g; rewrite HI; auto).
  rewrite G. clear G.
  assert (K : rdo_d_key y = rdo_d_key x).
  { unfold rdo_d_key. destruct Le as (-> & -> & -> & -> & _). auto. }
  destruct (rdo_mem (rdo_id y) D) eqn:M.
  - destruct HD as [HD _]. destruct (HD eq_refl) as [Dy Dx]. rewrite Dx. simpl. rewrite IHF. f_equal.
    rewrite <- K. reflexivity.
  - destruct (rdo_del x) eqn:Dx.
    + destruct Le as (_&_&_&_&_&_&_&Lm). rewrite Lm by auto. simpl. auto.
    + destruct (rdo_del y) eqn:Dy. destruct HD as [_ HD]. assert (false = true) by (apply HD; auto). discriminate.
      simpl. rewrite IHF, K. auto.
Qed.

Theorem rdo_f_flip_render_gen : forall sc st0 n0 st n I D,
  rdo_f_W sc st0 n0 -> rdo_f_W sc st n -> rdo_i_lastlive st0 = true -> rdo_f_acc st0 n0 st I D ->
  forall root, rdo_i_render_root (rdo_i_flip st I D) root = rdo_render_root st0 root.
Proof.
  intros sc st0 n0 st n I D W0 W L0 A root.
  rewrite <- (rdo_d_render_virtual st0 n0); auto using (rdo_f_W_wfp sc).
  apply (rdo_d_render_live_only _ _ n n0).
  - apply rdo_f_wfp_flip. eapply rdo_f_W_wfp; eauto.
  - eapply rdo_f_W_wfp; eauto.
  - eapply rdo_f_flip_live; eauto; [apply W0|apply W].
Qed.
Print Assumptions rdo_f_flip_render_gen.

(* F2(d) *)
Theorem rdo_f_step_flip_render : forall s0 txns s1,
  rdo_rs s0 = [] -> rdo_f_W (rdo_scope s0) (rdo_doc s0) (rdo_clock s0) -> rdo_i_lastlive (rdo_doc s0) = true ->
  forallb (forallb (fun o => rdo_mem (rdo_i_op_root o) (rdo_scope s0))) txns = true ->
  rdo_act s0 (RdoAStep txns) = RdoOk s1 ->
  length (rdo_us s1) = S (length (rdo_us s0)) ->
  exists e, rdo_us s1 = e :: rdo_us s0 /\
    forall root, rdo_i_render_root (rdo_i_flip (rdo_doc s1) (rdo_sins e) (rdo_sdel e)) root = rdo_render_root (rdo_doc s0) root.
Proof.
  intros s0 txns s1 R W L0 Hr H Len.
  destruct (rdo_f_step_effect _ _ _ R W Hr H Len) as (e & U & _ & _ & W1 & _ & A).
  exists e; split; auto. eapply rdo_f_flip_render_gen; eauto.
Qed.
Print Assumptions rdo_f_step_flip_render.

(* ============================================================================================== *)
(* F1: cascade and "only the last entry of a key lives" are kept by the calls *)

(* the children of what a deletion marks are dead or marked too *)
Definition rdo_f_compl (e : option N) (st : list rdo_item) (d : list N) : Prop :=
  forall x p, In x st -> rdo_par x = RdoItem p -> In p d -> Some (rdo_id x) <> e -> rdo_del x = true \/ In (rdo_id x) d.

(* a live entry is the last of its chain (except the entry e, which is about to be deleted) *)
Definition rdo_f_LLx (e : option N) (st : list rdo_item) : Prop :=
  forall y k, In y st -> rdo_sub y = Some k -> rdo_del y = false -> Some (rdo_id y) <> e ->
    rdo_map_get st (rdo_par y) k = Some (rdo_id y).

Definition rdo_f_dhyp (e : option N) (st : list rdo_item) : Prop :=
  NoDup (map rdo_id st) /\
  (forall x p, In x st -> rdo_par x = RdoItem p -> p < rdo_id x /\ exists y k, rdo_get st p = Some y /\ rdo_cnt y = RdoType k) /\
  rdo_f_LLx e st.

Definition rdo_f_kg (d : list N) (x : rdo_item) : rdo_item := if rdo_mem (rdo_id x) d then rdo_set_del x else x.
Lemma rdo_f_kill_eq d st : rdo_e_kill d st = map (rdo_f_kg d) st. Proof. reflexivity. Qed.
Lemma rdo_f_kg_fields d x : rdo_id (rdo_f_kg d x) = rdo_id x /\ rdo_par (rdo_f_kg d x) = rdo_par x /\
  rdo_sub (rdo_f_kg d x) = rdo_sub x /\ rdo_cnt (rdo_f_kg d x) = rdo_cnt x /\ rdo_red (rdo_f_kg d x) = rdo_red x /\
  (rdo_del x = true -> rdo_del (rdo_f_kg d x) = true).
Proof. unfold rdo_f_kg. destruct (rdo_mem _ d); simpl; repeat split; auto. Qed.

Lemma rdo_f_kill_R0 d st : Forall2 rdo_a_R0 st (rdo_e_kill d st).
Proof. induction st; simpl; constructor; auto. unfold rdo_a_R0. destruct (rdo_mem _ d); simpl; auto. Qed.
Lemma rdo_f_map_get_R0 a b : Forall2 rdo_a_R0 a b -> forall P k, rdo_map_get b P k = rdo_map_get a P k.
Proof. intros H P k. rewrite !rdo_a_map_get_ids, (rdo_a_chain_ids_R0 _ _ H). auto. Qed.

Lemma rdo_f_in_kill d st y' : In y' (rdo_e_kill d st) -> exists y, In y st /\ y' = rdo_f_kg d y.
Proof. rewrite rdo_f_kill_eq. intros H. apply in_map_iff in H. destruct H as (y & <- & Hy). eauto. Qed.
Lemma rdo_f_kg_live d y : rdo_del (rdo_f_kg d y) = false -> rdo_f_kg d y = y /\ rdo_mem (rdo_id y) d = false /\ rdo_del y = false.
Proof. unfold rdo_f_kg. destruct (rdo_mem _ d); simpl; auto. discriminate. Qed.

Lemma rdo_f_LLx_kill e d st : rdo_f_LLx e st -> rdo_f_LLx e (rdo_e_kill d st).
Proof.
  intros H y' k Hy S Dl Ne. apply rdo_f_in_kill in Hy. destruct Hy as (y & Hy & ->).
  destruct (rdo_f_kg_live _ _ Dl) as (E & M & Dy). rewrite E in *.
  rewrite (rdo_f_map_get_R0 _ _ (rdo_f_kill_R0 d st)). apply H; auto.
Qed.

Lemma rdo_f_LLx_kill_done l0 d st : rdo_f_LLx (Some l0) st ->
  (forall y, In y st -> rdo_id y = l0 -> rdo_del y = false -> In l0 d) -> rdo_f_LLx None (rdo_e_kill d st).
Proof.
  intros H Hd y' k Hy S Dl _. apply rdo_f_in_kill in Hy. destruct Hy as (y & Hy & ->).
  destruct (rdo_f_kg_live _ _ Dl) as (E & M & Dy). rewrite E in *.
  rewrite (rdo_f_map_get_R0 _ _ (rdo_f_kill_R0 d st)). apply H; auto.
  intros Hc. inversion Hc. apply rdo_f_mem_false in M. apply M. rewrite H1. eapply Hd; eauto.
Qed.

Lemma rdo_f_dhyp_kill e d st : rdo_f_dhyp e st -> rdo_f_dhyp e (rdo_e_kill d st).
Proof.
  intros (ND & PL & LL). split; [|split].
  - rewrite rdo_e_kill_ids; auto.
  - intros x' p Hx P. apply rdo_f_in_kill in Hx. destruct Hx as (x & Hx & ->).
    destruct (rdo_f_kg_fields d x) as (E1 & E2 & _). rewrite E1. rewrite E2 in P.
    destruct (PL _ _ Hx P) as (L & y & k & G & C). split; auto. exists (rdo_f_kg d y), k.
    rewrite rdo_e_get_kill, G. simpl. split; auto. destruct (rdo_f_kg_fields d y) as (_&_&_&->&_). auto.
  - apply rdo_f_LLx_kill; auto.
Qed.

Lemma rdo_f_compl_kill_back e d st d1 : rdo_f_compl e (rdo_e_kill d st) d1 ->
  forall x p, In x st -> rdo_par x = RdoItem p -> In p d1 -> Some (rdo_id x) <> e -> rdo_del x = true \/ In (rdo_id x) (d ++ d1).
Proof.
  intros H x p Hx P Hp Ne. destruct (rdo_mem (rdo_id x) d) eqn:M.
  - right. apply in_or_app; left. apply rdo_f_mem_In; auto.
  - assert (Hx' : In x (rdo_e_kill d st)).
    { rewrite rdo_f_kill_eq. apply in_map_iff. exists x. split; auto. unfold rdo_f_kg. rewrite M; auto. }
    destruct (H x p Hx' P Hp Ne); auto. right. apply in_or_app; auto.
Qed.

Lemma rdo_f_dfold_compl e f st0 : rdo_f_dhyp e st0 ->
  (forall st i st' d, rdo_f_dhyp e st -> rdo_delete f st i = RdoOk (st', d) -> rdo_f_compl e st d) ->
  forall kids d s' d', fold_left (rdo_e_dfold f) kids (RdoOk (rdo_e_kill d st0, d)) = RdoOk (s', d') ->
    exists dd, d' = d ++ dd /\
      forall x p, In x st0 -> rdo_par x = RdoItem p -> In p dd -> Some (rdo_id x) <> e -> rdo_del x = true \/ In (rdo_id x) d'.
Proof.
  intros H0 IH. induction kids; simpl; intros d s' d' H.
  - inversion H; subst. exists []. rewrite app_nil_r. split; auto; intros ? ? ? ? [].
  - destruct (rdo_delete f (rdo_e_kill d st0) a) as [(s1, d1)|] eqn:E; simpl in H; [|rewrite rdo_e_dfold_err in H; discriminate].
    pose proof (rdo_f_dhyp_kill e d st0 H0) as Hk.
    destruct (rdo_e_delete_spec _ _ _ _ _ (proj1 Hk) E) as (E1 & _ & _). subst s1. rewrite rdo_e_kill_kill in H.
    pose proof (IH _ _ _ _ Hk E) as C1.
    destruct (IHkids _ _ _ H) as (dd & Ed & C2). exists (d1 ++ dd). rewrite app_assoc. split; auto.
    intros x p Hx P Hp Ne. apply in_app_or in Hp. destruct Hp as [Hp|Hp].
    + destruct (rdo_f_compl_kill_back _ _ _ _ C1 x p Hx P Hp Ne) as [?|Hi]; auto. right. rewrite Ed. apply in_or_app; auto.
    + eapply C2; eauto.
Qed.

Lemma rdo_f_delete_compl e f : forall st i st' d, rdo_f_dhyp e st -> rdo_delete f st i = RdoOk (st', d) -> rdo_f_compl e st d.
Proof.
  induction f. simpl; discriminate. intros st i st' d Hh H0. pose proof Hh as (ND & PL & LL). rewrite rdo_a_delete_eq in H0.
  destruct (rdo_get st i) as [r|] eqn:G; try discriminate. destruct (rdo_del r) eqn:Dr.
  - inversion H0; subst. intros x p _ _ [].
  - cbv zeta in H0. rewrite rdo_e_update_kill in H0; auto. destruct (rdo_cnt r) eqn:Cr.
    + inversion H0; subst. intros x p Hx P [<-|[]] _. destruct (PL _ _ Hx P) as (_ & y & k & Gy & Cy). congruence.
    + match type of H0 with fold_left _ ?K _ = _ =>
        destruct (rdo_e_dfold_spec f st ND (rdo_e_delete_spec f) K [i] st' d) as (dd & Ed & Es & ND' & P1 & P2);
          [repeat constructor; simpl; tauto | exact H0 | ];
        destruct (rdo_f_dfold_compl e f st Hh IHf K [i] st' d H0) as (dd' & Ed' & C2) end.
      intros x p Hx P Hp Ne. rewrite Ed' in Hp. destruct Hp as [Ep|Hp]; [|eapply C2; eauto]. subst p.
      destruct (rdo_del x) eqn:Dx; auto. right. apply (P2 (rdo_id x) x); auto; [|apply rdo_a_in_get; auto].
      assert (Hx1 : In x (rdo_e_kill [i] st)).
      { rewrite rdo_f_kill_eq. apply in_map_iff. exists x. split; auto. unfold rdo_f_kg. simpl.
        destruct (PL _ _ Hx P) as (L & _). destruct (N.eqb_spec (rdo_id x) i); auto. lia. }
      destruct (rdo_sub x) as [k|] eqn:Sx.
      * apply in_or_app; right. apply in_flat_map. exists k. split.
        apply rdo_d_keys_In. exists x; auto.
        rewrite (rdo_f_map_get_R0 _ _ (rdo_f_kill_R0 [i] st)). rewrite <- P. rewrite (LL x k); auto. simpl; auto.
      * apply in_or_app; left. apply in_map. apply filter_In. split. apply rdo_d_chain_In; auto. rewrite Dx; auto.
Qed.

Lemma rdo_f_casc_kill e st d : rdo_d_cascade_p st -> rdo_f_compl e st d ->
  (forall x, In x st -> Some (rdo_id x) = e -> rdo_del x = true \/ In (rdo_id x) d) -> rdo_d_cascade_p (rdo_e_kill d st).
Proof.
  intros C K He x' Hx' p y' P G Dy. apply rdo_f_in_kill in Hx'. destruct Hx' as (x & Hx & ->).
  rewrite rdo_e_get_kill in G. destruct (rdo_get st p) as [y|] eqn:Gy; simpl in G; [|discriminate]. inversion G; subst y'; clear G.
  destruct (rdo_f_kg_fields d x) as (_ & E2 & _ & _ & _ & Mono). rewrite E2 in P.
  destruct (rdo_a_get_in _ _ _ Gy) as (_ & Ey). fold (rdo_f_kg d y) in Dy.
  assert (Z : rdo_del x = true \/ In (rdo_id x) d -> rdo_del (rdo_f_kg d x) = true).
  { intros [Dx|Hi]; auto. unfold rdo_f_kg. apply rdo_f_mem_In in Hi. rewrite Hi. auto. }
  destruct (rdo_mem p d) eqn:M.
  - apply rdo_f_mem_In in M. apply Z.
    assert (Dc : Some (rdo_id x) = e \/ Some (rdo_id x) <> e).
    { destruct e as [e0|]. destruct (N.eq_dec (rdo_id x) e0); [left|right]; congruence. right; discriminate. }
    destruct Dc as [Dc|Dc]; auto. eapply K; eauto.
  - apply Mono. unfold rdo_f_kg in Dy. rewrite Ey, M in Dy. eapply C; eauto.
Qed.

Lemma rdo_f_delete_T e fuel st i st' d :
  NoDup (map rdo_id st) ->
  (forall x p, In x st -> rdo_par x = RdoItem p -> p < rdo_id x /\ exists y k, rdo_get st p = Some y /\ rdo_cnt y = RdoType k) ->
  rdo_f_LLx e st -> rdo_d_cascade_p st -> (e = None \/ e = Some i) -> rdo_delete fuel st i = RdoOk (st', d) ->
  rdo_d_cascade_p st' /\ rdo_f_LLx None st'.
Proof.
  intros ND PL LL C He H. destruct (rdo_e_delete_spec _ _ _ _ _ ND H) as (-> & _ & L3).
  assert (K : rdo_f_compl e st d) by (eapply rdo_f_delete_compl; eauto; split; auto).
  split.
  - apply (rdo_f_casc_kill e); auto. intros x Hx Ex. destruct He as [-> | ->]; [discriminate|]. inversion Ex as [Ei].
    destruct (rdo_del x) eqn:Dx; auto. right. rewrite Ei. apply (L3 x); auto. rewrite <- Ei. apply rdo_a_in_get; auto.
  - destruct He as [-> | ->]. apply rdo_f_LLx_kill; auto. apply (rdo_f_LLx_kill_done i); auto.
    intros y Hy Ey Dy. apply (L3 y); auto. rewrite <- Ey; apply rdo_a_in_get; auto.
Qed.

Record rdo_f_T (sc : list N) (st : list rdo_item) (n : N) : Prop := {
  rdo_f_T_W : rdo_f_W sc st n;
  rdo_f_T_casc : rdo_d_cascade_p st;
  rdo_f_T_LL : rdo_f_LLx None st }.

Lemma rdo_f_T_txn_delete sc t i t' : rdo_f_T sc (rdo_st t) (rdo_next t) -> rdo_txn_delete t i = RdoOk t' ->
  rdo_f_T sc (rdo_st t') (rdo_next t').
Proof.
  intros [W C L] H. pose proof (rdo_f_W_ps _ _ _ (rdo_f_txn_delete_ps sc _ _ _ H) W) as W'.
  unfold rdo_txn_delete in H. destruct (rdo_delete _ _ _) as [[s d]|] eqn:E; simpl in H; inversion H; subst; cbn [rdo_st rdo_next] in *.
  destruct (rdo_f_delete_T None _ _ _ _ _ (rdo_f_W_nd _ _ _ W) (rdo_f_W_par _ _ _ W) L C (or_introl eq_refl) E). split; auto.
Qed.

(* the parent found by a path is a root or a live item *)
Definition rdo_f_parlive (st : list rdo_item) (p : rdo_parent) : Prop :=
  match p with RdoRoot _ => True | RdoItem q => exists y, rdo_get st q = Some y /\ rdo_del y = false end.

Lemma rdo_f_resolve_parlive st path : NoDup (map rdo_id st) -> forall par q,
  rdo_resolve st par path = Some q -> rdo_f_parlive st par -> rdo_f_parlive st q.
Proof.
  intros ND. induction path; simpl; intros par q H Hp. inversion H; subst; auto.
  destruct a.
  - destruct (nth_error _ n) eqn:E; [|discriminate]. destruct (rdo_cnt r) eqn:C; [discriminate|].
    apply IHpath in H; auto. simpl. apply nth_error_In in E. apply rdo_d_live_In in E. destruct E as [E Dl].
    apply rdo_b_chain_in in E. destruct E as [E _]. exists r. split; auto. apply rdo_b_in_get; auto.
  - destruct (rdo_entry st par k) eqn:E; [|discriminate]. destruct (rdo_cnt r) eqn:C; [discriminate|].
    apply IHpath in H; auto. simpl. unfold rdo_entry in E.
    destruct (rdo_map_get st par k) eqn:M; [|discriminate]. destruct (rdo_get st n) eqn:G; [|discriminate].
    destruct (rdo_del r0) eqn:Dl; inversion E; subst. pose proof (rdo_b_get_in _ _ _ G) as [_ Hid]. rewrite Hid. eauto.
Qed.

Lemma rdo_f_casc_link st l x : ~ In (rdo_id x) (map rdo_id st) -> rdo_del x = false -> rdo_f_parlive st (rdo_par x) ->
  rdo_d_cascade_p st -> rdo_d_cascade_p (rdo_link st l x).
Proof.
  intros NI Dx Pl C y Hy p yp P G Dp. rewrite rdo_a_get_link in G by auto.
  destruct (N.eqb_spec (rdo_id x) p). inversion G; subst; congruence.
  apply rdo_a_link_in in Hy. destruct Hy as [->|Hy].
  - rewrite P in Pl. simpl in Pl. destruct Pl as (y' & G' & D'). congruence.
  - eapply C; eauto.
Qed.

Lemma rdo_f_chain_link_other st l x P s : rdo_in_chain P s x = false -> rdo_chain (rdo_link st l x) P s = rdo_chain st P s.
Proof.
  intros H. destruct l; simpl. apply rdo_d_chain_insert_other; auto.
  unfold rdo_chain. simpl. rewrite H. auto.
Qed.

(* a sequence item linked anywhere *)
Lemma rdo_f_LL_link_seq st l x : rdo_sub x = None -> rdo_f_LLx None st -> rdo_f_LLx None (rdo_link st l x).
Proof.
  intros Sx LL y k Hy Sy Dy _. apply rdo_a_link_in in Hy. destruct Hy as [->|Hy]. congruence.
  unfold rdo_map_get. rewrite rdo_f_chain_link_other. apply LL; auto. discriminate.
  unfold rdo_in_chain. rewrite Sx. simpl. apply andb_false_r.
Qed.

(* a map entry linked behind the last entry of its key (or in front of everything when there is none) *)
Lemma rdo_f_chain_link_keyed st x k : NoDup (map rdo_id st) -> rdo_sub x = Some k ->
  rdo_chain (rdo_link st (rdo_map_get st (rdo_par x) k) x) (rdo_par x) (Some k) = rdo_chain st (rdo_par x) (Some k) ++ [x].
Proof.
  intros ND Sx.
  assert (Fc : rdo_in_chain (rdo_par x) (Some k) x = true).
  { unfold rdo_in_chain. rewrite Sx, rdo_a_par_eqb_refl. simpl. apply N.eqb_refl. }
  destruct (rdo_map_get st (rdo_par x) k) eqn:M; simpl.
  - apply rdo_a_last_insert; auto. apply rdo_a_map_get_last; auto.
  - apply rdo_a_map_get_none in M. unfold rdo_chain in *. simpl. rewrite Fc, M. auto.
Qed.

Lemma rdo_f_LL_link_keyed st x k : NoDup (map rdo_id st) -> rdo_sub x = Some k -> rdo_f_LLx None st ->
  rdo_f_LLx (rdo_map_get st (rdo_par x) k) (rdo_link st (rdo_map_get st (rdo_par x) k) x) /\
  rdo_map_get (rdo_link st (rdo_map_get st (rdo_par x) k) x) (rdo_par x) k = Some (rdo_id x).
Proof.
  intros ND Sx LL.
  assert (MX : rdo_map_get (rdo_link st (rdo_map_get st (rdo_par x) k) x) (rdo_par x) k = Some (rdo_id x)).
  { unfold rdo_map_get at 1. rewrite rdo_f_chain_link_keyed; auto. rewrite rev_app_distr. reflexivity. }
  split; auto.
  intros y k' Hy Sy Dy Ne. apply rdo_a_link_in in Hy. destruct Hy as [->|Hy].
  - rewrite Sx in Sy. inversion Sy; subst. auto.
  - destruct (rdo_in_chain (rdo_par y) (Some k') x) eqn:Fc.
    + apply rdo_d_in_chain_spec in Fc. destruct Fc as [Ep Es]. rewrite Sx in Es. inversion Es; subst k'.
      exfalso. apply Ne. rewrite Ep. symmetry. apply LL; auto. discriminate.
    + unfold rdo_map_get at 1. rewrite rdo_f_chain_link_other; auto. apply LL; auto. discriminate.
Qed.

Lemma rdo_f_integrate_shape t x l r t' : rdo_integrate t x l r = RdoOk t' ->
  let left' := if rdo_detect_conflict (rdo_st t) l r then rdo_resolve_conflict (rdo_st t) x l r else l in
  let st1 := rdo_link (rdo_st t) left' x in
  let t1 := rdo_f_mk st1 (rdo_next t) (rdo_tins t ++ [rdo_id x]) (rdo_tdel t) in
  exists t2, (match rdo_right st1 (rdo_id x), rdo_sub x, left' with
              | None, Some _, Some l0 => rdo_txn_delete t1 l0
              | _, _, _ => RdoOk t1
              end) = RdoOk t2 /\ (t' = t2 \/ rdo_txn_delete t2 (rdo_id x) = RdoOk t').
Proof.
  intros H. unfold rdo_integrate in H. cbv zeta in H. destruct (negb _); [discriminate|].
  cbv zeta. rdo_b_bind H. exists a. split; [exact E|]. destruct (_ || _); auto. inversion H; auto.
Qed.

Lemma rdo_f_keyed_left st x k : NoDup (map rdo_id st) -> rdo_sub x = Some k ->
  (if rdo_detect_conflict st (rdo_map_get st (rdo_par x) k) None
   then rdo_resolve_conflict st x (rdo_map_get st (rdo_par x) k) None else rdo_map_get st (rdo_par x) k)
  = rdo_map_get st (rdo_par x) k.
Proof.
  intros ND Sx. destruct (rdo_map_get st (rdo_par x) k) eqn:M; simpl.
  - rewrite (rdo_a_last_right st (rdo_par x) k n); auto. apply rdo_a_map_get_last; auto.
  - unfold rdo_resolve_conflict. rewrite Sx. apply rdo_a_map_get_none in M. rewrite M. reflexivity.
Qed.

Lemma rdo_f_T_new_item sc st n I D par sub c l r t' :
  rdo_f_T sc st n -> rdo_f_parok sc st par -> rdo_f_parlive st par ->
  (forall k, sub = Some k -> l = rdo_map_get st par k /\ r = None) ->
  rdo_integrate (rdo_bump (rdo_f_mk st n I D)) (rdo_new_item (rdo_f_mk st n I D) par sub c l r) l r = RdoOk t' ->
  rdo_f_T sc (rdo_st t') (rdo_next t').
Proof.
  intros [W C L] Pok Pl Hk H. pose proof (rdo_f_W_nd _ _ _ W) as ND.
  set (x := rdo_new_item (rdo_f_mk st n I D) par sub c l r) in *.
  assert (NI : ~ In (rdo_id x) (map rdo_id st)).
  { intros Hc. apply in_map_iff in Hc. destruct Hc as (y & E & Hy). apply (rdo_f_W_lt _ _ _ W) in Hy. simpl in E. lia. }
  apply rdo_f_integrate_shape in H. cbv zeta in H. cbn [rdo_st rdo_bump rdo_f_mk rdo_next rdo_tins rdo_tdel] in H.
  destruct H as (t2 & H2 & H3).
  match type of H2 with context[rdo_link st ?L x] => set (left' := L) in * end.
  assert (W1 : rdo_f_W sc (rdo_link st left' x) (n + 1)) by (apply rdo_f_W_link; auto).
  assert (C1 : rdo_d_cascade_p (rdo_link st left' x)) by (apply rdo_f_casc_link; auto).
  assert (T2 : rdo_f_T sc (rdo_st t2) (rdo_next t2)).
  { destruct sub as [k|].
    - destruct (Hk k eq_refl) as [-> ->].
      assert (El : left' = rdo_map_get st par k) by (apply (rdo_f_keyed_left st x k); auto).
      destruct (rdo_f_LL_link_keyed st x k ND eq_refl L) as [L1 MX]. change (rdo_par x) with par in *. rewrite <- El in *.
      assert (Rx : rdo_right (rdo_link st left' x) (rdo_id x) = None).
      { apply (rdo_a_last_right _ par k). apply rdo_a_map_get_last; auto. apply W1. }
      rewrite Rx in H2. change (rdo_sub x) with (Some k) in H2. destruct left' as [l0|] eqn:El0.
      + pose proof (rdo_f_W_ps _ _ _ (rdo_f_txn_delete_ps sc _ _ _ H2) W1) as W2.
        unfold rdo_txn_delete in H2. destruct (rdo_delete _ _ _) as [[s d]|] eqn:E; simpl in H2; inversion H2; subst; cbn [rdo_st rdo_next rdo_f_mk] in *.
        destruct (rdo_f_delete_T (Some l0) _ _ _ _ _ (rdo_f_W_nd _ _ _ W1) (rdo_f_W_par _ _ _ W1) L1 C1 (or_intror eq_refl) E).
        split; auto.
      + inversion H2; subst; simpl. split; auto.
    - assert (E2 : RdoOk (rdo_f_mk (rdo_link st left' x) (n + 1) (I ++ [rdo_id x]) D) = RdoOk t2).
      { destruct (rdo_right _ _); auto. }
      inversion E2; subst; simpl. split; auto. apply rdo_f_LL_link_seq; auto. }
  destruct H3 as [->|H3]; auto. eapply rdo_f_T_txn_delete; eauto.
Qed.

Lemma rdo_f_T_op sc t o t' : rdo_f_T sc (rdo_st t) (rdo_next t) -> rdo_mem (rdo_i_op_root o) sc = true ->
  rdo_op_apply t o = RdoOk t' -> rdo_f_T sc (rdo_st t') (rdo_next t').
Proof.
  intros T Hr H. pose proof (rdo_f_W_nd _ _ _ (rdo_f_T_W _ _ _ T)) as ND.
  unfold rdo_op_apply in H. destruct o; simpl in Hr.
  - destruct (rdo_resolve _ _ _) eqn:Rs; [|inversion H; subst; auto].
    destruct (rdo_ins_point _ _ _) as [l0 r0]. destruct t as [st n I D].
    eapply rdo_f_T_new_item; eauto. eapply rdo_f_resolve_parok; eauto; simpl; auto.
    eapply rdo_f_resolve_parlive; eauto; simpl; auto. discriminate.
  - destruct (rdo_resolve _ _ _); [|inversion H; subst; auto].
    destruct (nth_error _ _); [|inversion H; subst; auto].
    eapply rdo_f_T_txn_delete; eauto.
  - destruct (rdo_resolve _ _ _) eqn:Rs; [|inversion H; subst; auto]. destruct t as [st n I D].
    eapply rdo_f_T_new_item; eauto. eapply rdo_f_resolve_parok; eauto; simpl; auto.
    eapply rdo_f_resolve_parlive; eauto; simpl; auto. intros k0 E; inversion E; subst; auto.
  - destruct (rdo_resolve _ _ _); [|inversion H; subst; auto].
    destruct (rdo_entry _ _ _); [|inversion H; subst; auto].
    eapply rdo_f_T_txn_delete; eauto.
Qed.

Lemma rdo_f_T_ops sc ops : forall t t', rdo_f_T sc (rdo_st t) (rdo_next t) ->
  forallb (fun o => rdo_mem (rdo_i_op_root o) sc) ops = true -> rdo_ops_apply t ops = RdoOk t' ->
  rdo_f_T sc (rdo_st t') (rdo_next t').
Proof.
  induction ops; simpl; intros t t' T Hr H. inversion H; subst; auto.
  apply andb_true_iff in Hr. destruct Hr as [Hr1 Hr2]. rdo_b_bind H.
  apply (IHops a0); auto. eapply rdo_f_T_op; eauto.
Qed.

Lemma rdo_f_T_keep sc st n i b : rdo_f_T sc st n -> rdo_f_T sc (rdo_update st i (fun y => rdo_set_keep y b)) n.
Proof.
  intros [W C L]. set (f := fun y => rdo_set_keep y b).
  assert (IN : forall x', In x' (rdo_update st i f) -> exists x, In x st /\ (x' = x \/ x' = f x)).
  { intros x Hx. apply rdo_a_in_update in Hx. destruct Hx as [Hx|(x0 & Hx0 & _ & ->)]; eauto. }
  split.
  - apply rdo_f_W_update; auto. apply rdo_f_fok_keep.
  - intros x' Hx' p y' P G Dy. rewrite rdo_b_get_update in G by reflexivity.
    assert (G0 : exists y, rdo_get st p = Some y /\ rdo_del y = true).
    { destruct (p =? i); eauto. destruct (rdo_get st p); simpl in G; inversion G; subst. eauto. }
    destruct G0 as (y & G0 & D0). destruct (IN _ Hx') as (x & Hx & [->| ->]); simpl; eapply C; eauto.
  - intros y' k Hy S Dl _. rewrite (rdo_f_map_get_R0 st).
    + destruct (IN _ Hy) as (y & Hy0 & [->| ->]); simpl in *; apply L; auto; discriminate.
    + apply rdo_a_update_R0. intros y; unfold rdo_a_R0; simpl; auto.
Qed.

Lemma rdo_f_T_after_txn s t : rdo_rs s = [] -> rdo_f_T (rdo_scope s) (rdo_st t) (rdo_next t) ->
  rdo_f_T (rdo_scope s) (rdo_doc (rdo_after_txn s t RdoNormal)) (rdo_clock (rdo_after_txn s t RdoNormal)) /\
  rdo_scope (rdo_after_txn s t RdoNormal) = rdo_scope s /\ rdo_rs (rdo_after_txn s t RdoNormal) = [].
Proof.
  intros Rs T. unfold rdo_after_txn. rewrite Rs. cbn [fold_left]. destruct (negb _); simpl; auto.
  split; auto. apply (rdo_f_keep_all_ind (fun st => rdo_f_T (rdo_scope s) st (rdo_next t))); auto.
  intros; apply rdo_f_T_keep; auto.
Qed.

(* the Prop form of the invariant J *)
Definition rdo_f_JP (s : rdo_state) : Prop :=
  rdo_f_T (rdo_scope s) (rdo_doc s) (rdo_clock s) /\ rdo_rs s = [] /\
  (forall e i, In e (rdo_us s) -> In i (rdo_sins e ++ rdo_sdel e) -> In i (map rdo_id (rdo_doc s))).

Lemma rdo_f_T_step s0 txns s1 : rdo_f_T (rdo_scope s0) (rdo_doc s0) (rdo_clock s0) -> rdo_rs s0 = [] ->
  forallb (forallb (fun o => rdo_mem (rdo_i_op_root o) (rdo_scope s0))) txns = true ->
  rdo_act s0 (RdoAStep txns) = RdoOk s1 -> rdo_f_T (rdo_scope s0) (rdo_doc s1) (rdo_clock s1).
Proof.
  intros T R Hr H. simpl in H.
  assert (X : rdo_f_T (rdo_scope s0) (rdo_doc (rdo_reset s0)) (rdo_clock (rdo_reset s0)) /\ rdo_scope (rdo_reset s0) = rdo_scope s0 /\ rdo_rs (rdo_reset s0) = []) by auto.
  revert H X. generalize (rdo_reset s0). induction txns; simpl; intros s H (T0 & Sc & Rs).
  - inversion H; subst; auto.
  - simpl in Hr. apply andb_true_iff in Hr. destruct Hr as [Hr1 Hr2].
    destruct (rdo_tracked_txn s a) as [s'|] eqn:E; simpl in H.
    + unfold rdo_tracked_txn in E. rdo_b_bind E. inversion E; subst s'. clear E.
      assert (Ta : rdo_f_T (rdo_scope s) (rdo_st a0) (rdo_next a0)).
      { apply (rdo_f_T_ops _ a (rdo_begin s)); auto; simpl; rewrite Sc; auto. }
      destruct (rdo_f_T_after_txn s a0 Rs Ta) as (T1 & Sc1 & Rs1).
      apply IHtxns in H; auto. rewrite <- Sc. split; auto.
    + rewrite rdo_b_fold_err in H by reflexivity. discriminate.
Qed.

Lemma rdo_f_acc_ids_mono st0 n0 st I D i : rdo_f_acc st0 n0 st I D -> In i (map rdo_id st0) -> In i (map rdo_id st).
Proof.
  intros [A1 _ _] Hi. assert (E : map rdo_id (filter (rdo_f_old n0) st) = map rdo_id st0).
  { revert A1. generalize (filter (rdo_f_old n0) st). intros l A1. clear Hi. induction A1; simpl; auto. f_equal; [apply H | exact IHA1]. }
  rewrite <- E in Hi. apply in_map_iff in Hi. destruct Hi as (x & <- & Hx). apply filter_In in Hx. apply in_map; tauto.
Qed.

Lemma rdo_f_JP_step s0 txns s1 : rdo_f_JP s0 ->
  forallb (forallb (fun o => rdo_mem (rdo_i_op_root o) (rdo_scope s0))) txns = true ->
  rdo_act s0 (RdoAStep txns) = RdoOk s1 -> rdo_f_JP s1 /\ rdo_scope s1 = rdo_scope s0.
Proof.
  intros (T & R & U) Hr H. pose proof (rdo_f_T_step _ _ _ T R Hr H) as T1.
  destruct (rdo_f_step_SI _ _ _ R (rdo_f_T_W _ _ _ T) Hr H) as (Sc & Rs & _ & _ & C).
  split; auto. split; [rewrite Sc; auto|]. split; auto.
  assert (M : forall I D, rdo_f_acc (rdo_doc s0) (rdo_clock s0) (rdo_doc s1) I D ->
          forall e i, In e (rdo_us s0) -> In i (rdo_sins e ++ rdo_sdel e) -> In i (map rdo_id (rdo_doc s1))).
  { intros I D A e i He Hi. eapply rdo_f_acc_ids_mono; eauto. }
  destruct C as [(_ & Us & A)|(_ & e0 & Us & A)]; rewrite Us.
  - eapply M; eauto.
  - intros e i [<-|He] Hi; [|eapply M; eauto]. apply in_app_or in Hi. destruct Hi as [Hi|Hi].
    + apply A in Hi. tauto.
    + apply A in Hi. destruct Hi as (x & Hx & <- & _). apply in_map; auto.
Qed.

Lemma rdo_f_JP_state0 scope : rdo_f_JP (rdo_state0 scope).
Proof.
  unfold rdo_f_JP; simpl. split; [|split; [reflexivity|intros e i []]].
  split.
  - split; simpl. constructor. intros x []. intros x p []. intros x []. intros x [].
  - intros x [].
  - intros y k [].
Qed.

Lemma rdo_f_JP_run scope p : forall s s', rdo_f_JP s -> rdo_scope s = scope -> rdo_i_steps scope p = true ->
  rdo_run s p = RdoOk s' -> rdo_f_JP s' /\ rdo_scope s' = scope.
Proof.
  induction p; simpl; intros s s' J Sc Hs H. inversion H; subst; auto.
  apply andb_true_iff in Hs. destruct Hs as [Ha Hs]. rdo_b_bind H. destruct a; try discriminate.
  destruct (rdo_f_JP_step s txns a0 J) as (J1 & Sc1); auto. rewrite Sc; auto.
  eapply IHp; eauto. congruence.
Qed.

Theorem rdo_f_JP_reachable : forall scope p s, rdo_i_steps scope p = true ->
  rdo_run (rdo_state0 scope) p = RdoOk s -> rdo_f_JP s /\ rdo_scope s = scope.
Proof. intros scope p s Hs H. apply (rdo_f_JP_run scope p (rdo_state0 scope) s); auto. apply rdo_f_JP_state0. Qed.
Print Assumptions rdo_f_JP_reachable.

(* F1: the boolean invariant J of the task, and its Prop form *)
Definition rdo_f_J (s : rdo_state) : Prop :=
  rdo_i_wfp (rdo_doc s) (rdo_clock s) = true /\ rdo_i_cascade (rdo_doc s) = true /\ rdo_i_lastlive (rdo_doc s) = true /\
  (forall x, In x (rdo_doc s) -> rdo_red x = None) /\
  (forall x, In x (rdo_doc s) -> rdo_in_scope (rdo_doc s) (rdo_scope s) (rdo_id x) = true) /\
  rdo_rs s = [] /\
  (forall e i, In e (rdo_us s) -> In i (rdo_sins e ++ rdo_sdel e) -> In i (map rdo_id (rdo_doc s))).

Lemma rdo_f_LL_lastlive st : NoDup (map rdo_id st) -> rdo_f_LLx None st -> rdo_i_lastlive st = true.
Proof.
  intros ND LL. unfold rdo_i_lastlive, rdo_i_all. apply forallb_forall. intros x Hx.
  destruct (rdo_sub x) as [k|] eqn:Sx; auto. destruct (rdo_del x) eqn:Dx; auto. simpl.
  rewrite (rdo_a_last_right st (rdo_par x) k); auto. apply rdo_a_map_get_last; auto. apply LL; auto. discriminate.
Qed.

Lemma rdo_f_JP_J s : rdo_f_JP s -> rdo_f_J s.
Proof.
  intros ([W C L] & R & U). unfold rdo_f_J. split. eapply rdo_f_W_wfp; eauto.
  split. apply rdo_d_cascade_spec; auto. split. apply rdo_f_LL_lastlive; auto. apply W.
  split. apply W. split; auto. intros x Hx. eapply rdo_f_W_in_scope; eauto. apply in_map; auto.
Qed.

Theorem rdo_f_J_reachable : forall scope p s, rdo_i_steps scope p = true ->
  rdo_run (rdo_state0 scope) p = RdoOk s -> rdo_f_J s.
Proof. intros scope p s Hs H. apply rdo_f_JP_J. eapply rdo_f_JP_reachable; eauto. Qed.
Print Assumptions rdo_f_J_reachable.

(* steps never return a failure value *)
Lemma rdo_f_ins_point_in (Q : N -> Prop) : forall chain pos prev l r, rdo_ins_point chain pos prev = (l, r) ->
  (forall j, prev = Some j -> Q j) -> (forall y, In y chain -> Q (rdo_id y)) ->
  (forall j, l = Some j -> Q j) /\ (forall j, r = Some j -> Q j).
Proof.
  induction chain; simpl; intros pos prev l r H Hp Hc.
  - inversion H; subst. split; auto. discriminate.
  - destruct (rdo_del a).
    + eapply IHchain; eauto. intros j E; inversion E; subst; auto.
    + destruct pos.
      * inversion H; subst. split; auto. intros j E; inversion E; subst; auto.
      * eapply IHchain; eauto. intros j E; inversion E; subst; auto.
Qed.

Lemma rdo_f_W_parlt sc st n : rdo_f_W sc st n -> rdo_a_parlt st.
Proof. intros W y p Hy P. apply (rdo_f_W_par _ _ _ W) in P; tauto. Qed.

Lemma rdo_f_new_item_ok sc st n I D par sub c l r : rdo_f_W sc st n -> rdo_f_parok sc st par ->
  (forall j, l = Some j -> exists y, In y (rdo_chain st par sub) /\ rdo_id y = j) ->
  (forall j, r = Some j -> exists y, In y (rdo_chain st par sub) /\ rdo_id y = j) ->
  exists t', rdo_integrate (rdo_bump (rdo_f_mk st n I D)) (rdo_new_item (rdo_f_mk st n I D) par sub c l r) l r = RdoOk t'.
Proof.
  intros W Pok Hl Hr.
  assert (NB : forall o, (forall j, o = Some j -> exists y, In y (rdo_chain st par sub) /\ rdo_id y = j) ->
               rdo_neighbour_ok st (rdo_new_item (rdo_f_mk st n I D) par sub c l r) o = true).
  { intros [j|] Ho; simpl; auto. destruct (Ho j eq_refl) as (y & Hy & <-). apply rdo_d_chain_In in Hy. destruct Hy as (Hy & Py & Sy).
    rewrite (rdo_b_in_get st y); auto. apply rdo_d_in_chain_spec; auto. apply W. }
  destruct (rdo_a_integrate_ok (rdo_bump (rdo_f_mk st n I D)) (rdo_new_item (rdo_f_mk st n I D) par sub c l r) l r) as (t' & l' & E & _); simpl; eauto.
  - eapply rdo_f_W_parlt; eauto.
  - intros p Ep. subst par. simpl in Pok. destruct Pok as (y & k & G & _). destruct (rdo_b_get_in _ _ _ G) as [Hy <-].
    apply (rdo_f_W_lt _ _ _ W); auto.
Qed.

Lemma rdo_f_op_ok sc t o : rdo_f_W sc (rdo_st t) (rdo_next t) -> rdo_mem (rdo_i_op_root o) sc = true ->
  exists t', rdo_op_apply t o = RdoOk t'.
Proof.
  intros W Hr. pose proof (rdo_f_W_nd _ _ _ W) as ND. pose proof (rdo_f_W_parlt _ _ _ W) as PL.
  unfold rdo_op_apply. destruct o; simpl in Hr.
  - destruct (rdo_resolve _ _ _) eqn:Rs; eauto.
    destruct (rdo_ins_point _ _ _) as [l0 r0] eqn:IP. destruct t as [st n I D]. simpl in *.
    destruct (rdo_f_ins_point_in (fun j => exists y, In y (rdo_chain st r None) /\ rdo_id y = j) _ _ _ _ _ IP) as [Hl Hr0]; eauto.
    discriminate.
    eapply rdo_f_new_item_ok; eauto. eapply rdo_f_resolve_parok; eauto; simpl; auto.
  - destruct (rdo_resolve _ _ _); eauto.
    destruct (nth_error _ _) eqn:E; eauto.
    destruct (rdo_a_txn_delete_ok t (rdo_id r0)) as (t' & Et & _); eauto.
    apply nth_error_In in E. apply rdo_d_live_In in E. destruct E as [E _]. apply rdo_d_chain_In in E. apply in_map; tauto.
  - destruct (rdo_resolve _ _ _) eqn:Rs; eauto. destruct t as [st n I D]. simpl in *.
    eapply rdo_f_new_item_ok; eauto. eapply rdo_f_resolve_parok; eauto; simpl; auto.
    intros j M. apply rdo_a_map_get_in in M. auto. discriminate.
  - destruct (rdo_resolve _ _ _); eauto.
    destruct (rdo_entry _ _ _) eqn:E; eauto.
    destruct (rdo_a_txn_delete_ok t (rdo_id r0)) as (t' & Et & _); eauto.
    unfold rdo_entry in E. destruct (rdo_map_get _ _ _); [|discriminate]. destruct (rdo_get (rdo_st t) n) eqn:G; [|discriminate].
    destruct (rdo_del r1); inversion E; subst. destruct (rdo_b_get_in _ _ _ G). apply in_map; auto.
Qed.

Lemma rdo_f_ops_ok sc ops : forall t, rdo_f_W sc (rdo_st t) (rdo_next t) ->
  forallb (fun o => rdo_mem (rdo_i_op_root o) sc) ops = true -> exists t', rdo_ops_apply t ops = RdoOk t'.
Proof.
  induction ops; simpl; intros t W Hr; eauto.
  apply andb_true_iff in Hr. destruct Hr as [Hr1 Hr2].
  destruct (rdo_f_op_ok sc t a W Hr1) as (t1 & E). rewrite E. simpl. apply IHops; auto.
  eapply rdo_f_W_ps; eauto. eapply rdo_f_op_ps; eauto. apply W.
Qed.

Lemma rdo_f_step_ok s0 txns : rdo_f_JP s0 ->
  forallb (forallb (fun o => rdo_mem (rdo_i_op_root o) (rdo_scope s0))) txns = true ->
  exists s1, rdo_act s0 (RdoAStep txns) = RdoOk s1.
Proof.
  intros (T & R & _) Hr. simpl.
  assert (X : rdo_f_T (rdo_scope s0) (rdo_doc (rdo_reset s0)) (rdo_clock (rdo_reset s0)) /\ rdo_scope (rdo_reset s0) = rdo_scope s0 /\ rdo_rs (rdo_reset s0) = []) by auto.
  revert X. generalize (rdo_reset s0). induction txns; simpl; intros s (T0 & Sc & Rs); eauto.
  simpl in Hr. apply andb_true_iff in Hr. destruct Hr as [Hr1 Hr2].
  unfold rdo_tracked_txn at 2.
  destruct (rdo_f_ops_ok (rdo_scope s0) a (rdo_begin s)) as (t & E); auto. apply T0.
  rewrite E. simpl.
  assert (Ta : rdo_f_T (rdo_scope s) (rdo_st t) (rdo_next t)).
  { apply (rdo_f_T_ops _ a (rdo_begin s)); auto; simpl; rewrite Sc; auto. }
  destruct (rdo_f_T_after_txn s t Rs Ta) as (T1 & Sc1 & Rs1).
  apply IHtxns; auto. rewrite <- Sc. split; auto.
Qed.

Theorem rdo_f_steps_ok : forall scope p, rdo_i_steps scope p = true -> exists s, rdo_run (rdo_state0 scope) p = RdoOk s.
Proof.
  intros scope p. assert (G : forall s, rdo_f_JP s -> rdo_scope s = scope -> rdo_i_steps scope p = true -> exists s', rdo_run s p = RdoOk s').
  { induction p; simpl; intros s J Sc Hs; eauto.
    apply andb_true_iff in Hs. destruct Hs as [Ha Hs]. destruct a; try discriminate.
    destruct (rdo_f_step_ok s txns J) as (s1 & E). rewrite Sc; auto.
    change (rdo_act s (RdoAStep txns)) with (rdo_act s (RdoAStep txns)). rewrite E. simpl.
    destruct (rdo_f_JP_step s txns s1 J) as (J1 & Sc1); auto. rewrite Sc; auto.
    apply IHp; auto. congruence. }
  intros Hs. apply G; auto. apply rdo_f_JP_state0.
Qed.
Print Assumptions rdo_f_steps_ok.

(* ============================================================================================== *)
(* F2(c): the entry of a captured step satisfies the precondition of processing *)

Section rdo_f_pc_sec.
Variables (sc : list N) (st0 : list rdo_item) (n0 : N) (st : list rdo_item) (n : N) (I D : list N).
Hypothesis (T0 : rdo_f_T sc st0 n0) (T1 : rdo_f_T sc st n) (A : rdo_f_acc st0 n0 st I D).

Let ND0 : NoDup (map rdo_id st0) := rdo_f_W_nd _ _ _ (rdo_f_T_W _ _ _ T0).
Let ND1 : NoDup (map rdo_id st) := rdo_f_W_nd _ _ _ (rdo_f_T_W _ _ _ T1).

Lemma rdo_f_pc_pair x : In x st -> rdo_id x < n0 -> exists x0, In x0 st0 /\ rdo_f_le x0 x.
Proof.
  intros Hx L. apply (rdo_f_F2_in_r _ _ _ (rdo_f_acc_old _ _ _ _ _ A)). apply filter_In. split; auto.
  unfold rdo_f_old. apply N.ltb_lt; auto.
Qed.

Lemma rdo_f_pc_I_new i : In i I -> n0 <= i.
Proof. intros Hi. apply A in Hi. tauto. Qed.
Lemma rdo_f_pc_new_I x : In x st -> n0 <= rdo_id x -> In (rdo_id x) I.
Proof. intros Hx L. apply A. split; auto. apply in_map; auto. Qed.

Lemma rdo_f_pc_D_spec x x0 : In x st -> In x0 st0 -> rdo_f_le x0 x -> rdo_id x < n0 ->
  (In (rdo_id x) D <-> rdo_del x = true /\ rdo_del x0 = false).
Proof.
  intros Hx H0 Le L. assert (Eid : rdo_id x = rdo_id x0) by apply Le.
  rewrite (rdo_f_acc_D _ _ _ _ _ A). split.
  - intros (y & Hy & E & Dy & [L1|(y0 & Hy0 & E0 & D0)]). lia.
    assert (y = x) by (apply (rdo_f_nodup_inj st); auto; congruence).
    assert (y0 = x0) by (apply (rdo_f_nodup_inj st0); auto; congruence).
    subst; auto.
  - intros [Dx D0]. exists x. repeat split; auto. right. exists x0; auto.
Qed.

Lemma rdo_f_pc_g_old x x0 : In x st -> In x0 st0 -> rdo_f_le x0 x -> rdo_id x < n0 -> rdo_del (rdo_f_g I D x) = rdo_del x0.
Proof.
  intros Hx H0 Le L. unfold rdo_f_g.
  assert (MI : rdo_mem (rdo_id x) I = false).
  { apply rdo_f_mem_false. intros Hc. apply rdo_f_pc_I_new in Hc. lia. }
  rewrite MI. pose proof (rdo_f_pc_D_spec x x0 Hx H0 Le L) as DS.
  destruct (rdo_mem (rdo_id x) D) eqn:M.
  - apply rdo_f_mem_In in M. apply DS in M. simpl. symmetry; tauto.
  - apply rdo_f_mem_false in M. destruct (rdo_del x0) eqn:D0. apply Le; auto.
    destruct (rdo_del x) eqn:Dx; auto. exfalso. apply M. apply DS; auto.
Qed.

Lemma rdo_f_pc_g_new x : In x st -> n0 <= rdo_id x -> rdo_del (rdo_f_g I D x) = true.
Proof. intros Hx L. unfold rdo_f_g. apply rdo_f_pc_new_I in L; auto. apply rdo_f_mem_In in L. rewrite L. auto. Qed.

Lemma rdo_f_pc_R_spec x : In x st -> In (rdo_id x) (rdo_i_redo st I D) ->
  rdo_del x = true /\ rdo_id x < n0 /\ exists x0, In x0 st0 /\ rdo_f_le x0 x /\ rdo_del x0 = false.
Proof.
  intros Hx HR. destruct (rdo_e_redo_in _ _ _ _ HR) as (HD & NI & _).
  assert (L : rdo_id x < n0).
  { destruct (N.lt_ge_cases (rdo_id x) n0); auto. exfalso. apply NI. apply rdo_f_pc_new_I; auto. }
  destruct (rdo_f_pc_pair x Hx L) as (x0 & H0 & Le). apply (rdo_f_pc_D_spec x x0 Hx H0 Le L) in HD.
  destruct HD. split; auto. split; auto. exists x0; auto.
Qed.

Lemma rdo_f_pc_R_intro p y : In p D -> ~ In p I -> rdo_get st p = Some y -> In p (rdo_i_redo st I D).
Proof.
  intros HD NI G. unfold rdo_i_redo. apply filter_In. split; auto. rewrite G. simpl.
  apply rdo_f_mem_false in NI. rewrite NI. auto.
Qed.

(* nothing old stands to the right of an entry that was alive at the start *)
Lemma rdo_f_pc_no_old_right b x a k y : st = b ++ x :: a -> rdo_id x < n0 -> rdo_sub x = Some k ->
  (forall x0, In x0 st0 -> rdo_id x0 = rdo_id x -> rdo_del x0 = false) ->
  In y a -> rdo_par y = rdo_par x -> rdo_sub y = rdo_sub x -> n0 <= rdo_id y.
Proof.
  intros E L Sx Hl Hy Py Sy. destruct (N.le_gt_cases n0 (rdo_id y)) as [?|Ly]; auto. exfalso.
  pose proof (rdo_f_acc_old _ _ _ _ _ A) as F. rewrite E, filter_app in F. simpl in F.
  assert (Ox : rdo_f_old n0 x = true) by (unfold rdo_f_old; apply N.ltb_lt; auto). rewrite Ox in F.
  apply Forall2_app_inv_r in F. destruct F as (s1 & s2' & F1 & F2 & E0). inversion F2 as [|x0 ? s2 ? Le F3]; subst s2'.
  assert (LL0 : rdo_i_lastlive st0 = true) by (apply rdo_f_LL_lastlive; auto; apply T0).
  apply rdo_d_lastlive_spec in LL0; [|apply rdo_d_nodup_spec; auto].
  destruct Le as (e1 & e2 & e3 & Le').
  destruct (LL0 s1 x0 s2 k E0) as [Dc|Ch]. congruence.
  - rewrite Hl in Dc; auto. discriminate. rewrite E0. apply in_or_app; right; simpl; auto.
  - assert (Hyf : In y (filter (rdo_f_old n0) a)) by (apply filter_In; split; auto; unfold rdo_f_old; apply N.ltb_lt; auto).
    destruct (rdo_f_F2_in_r _ _ _ F3 _ Hyf) as (yy0 & Hyy0 & (f1 & f2 & f3 & _)).
    assert (Hin : In yy0 (rdo_chain s2 (rdo_par x0) (rdo_sub x0))) by (apply rdo_d_chain_In; repeat split; auto; congruence).
    rewrite Ch in Hin. destruct Hin.
Qed.

Lemma rdo_f_pc_c2b : rdo_i_all st (fun x => rdo_del x || match rdo_par x with
                                      | RdoItem p => negb (rdo_mem p I) || rdo_mem (rdo_id x) I
                                      | RdoRoot _ => true
                                      end) = true.
Proof.
  apply forallb_forall. intros x Hx. destruct (rdo_del x); auto. simpl. destruct (rdo_par x) eqn:P; auto.
  destruct (rdo_mem id I) eqn:M; auto. simpl. apply rdo_f_mem_In. apply rdo_f_mem_In in M. apply rdo_f_pc_I_new in M.
  apply rdo_f_pc_new_I; auto. destruct (rdo_f_W_par _ _ _ (rdo_f_T_W _ _ _ T1) _ _ Hx P). lia.
Qed.

Lemma rdo_f_pc_c3 : rdo_i_all st (fun x => negb (rdo_mem (rdo_id x) (rdo_i_redo st I D)) ||
     (rdo_del x && negb (rdo_is_some (rdo_red x)) &&
      match rdo_par x with
      | RdoRoot _ => true
      | RdoItem p => (negb (rdo_i_isdel st p) && negb (rdo_mem p I)) || rdo_mem p (rdo_i_redo st I D)
      end)) = true.
Proof.
  apply forallb_forall. intros x Hx. destruct (rdo_mem (rdo_id x) (rdo_i_redo st I D)) eqn:M; auto. simpl.
  apply rdo_f_mem_In in M. destruct (rdo_f_pc_R_spec x Hx M) as (Dx & L & x0 & H0 & Le & D0).
  rewrite Dx, (rdo_f_W_red _ _ _ (rdo_f_T_W _ _ _ T1) x Hx). simpl.
  destruct (rdo_par x) eqn:P; auto.
  destruct (rdo_f_W_par _ _ _ (rdo_f_T_W _ _ _ T1) _ _ Hx P) as (Lp & yp & kp & Gp & _).
  assert (NI : ~ In id I) by (intros Hc; apply rdo_f_pc_I_new in Hc; lia).
  unfold rdo_i_isdel. rewrite Gp. destruct (rdo_del yp) eqn:Dp; simpl.
  - apply rdo_f_mem_In. apply (rdo_f_pc_R_intro id yp); auto.
    destruct (rdo_b_get_in _ _ _ Gp) as [Hyp Eyp].
    destruct (rdo_f_pc_pair yp Hyp) as (y0 & Hy0 & Ley). lia.
    rewrite <- Eyp. apply (rdo_f_pc_D_spec yp y0); auto. lia. split; auto.
    destruct (rdo_del y0) eqn:Dy0; auto.
    assert (P0 : rdo_par x0 = RdoItem id) by (destruct Le as (_ & e2 & _); congruence).
    assert (G0 : rdo_get st0 id = Some y0).
    { rewrite <- Eyp. destruct Ley as (e1 & _). rewrite e1. apply rdo_b_in_get; auto. }
    rewrite (rdo_f_T_casc _ _ _ T0 x0 H0 id y0 P0 G0 Dy0) in D0. discriminate.
  - apply rdo_f_mem_false in NI. rewrite NI. auto.
Qed.

Lemma rdo_f_pc_c4 : rdo_i_all st (fun x => negb (rdo_mem (rdo_id x) (rdo_i_redo st I D)) || negb (rdo_is_some (rdo_sub x)) ||
     forallb (fun j => rdo_mem j I && negb (rdo_mem j (rdo_i_redo st I D)) &&
                       match rdo_get st j with Some y => negb (rdo_is_some (rdo_red y)) | None => false end)
             (rdo_rights st (rdo_id x))) = true.
Proof.
  apply forallb_forall. intros x Hx. destruct (rdo_mem (rdo_id x) (rdo_i_redo st I D)) eqn:M; auto. simpl.
  destruct (rdo_sub x) as [k|] eqn:Sx; auto. simpl.
  apply rdo_f_mem_In in M. destruct (rdo_f_pc_R_spec x Hx M) as (Dx & L & x0 & H0 & Le & D0).
  destruct (in_split x st Hx) as (b & a & E).
  assert (NDb : rdo_i_nodup (map rdo_id (b ++ x :: a)) = true) by (rewrite <- E; apply rdo_d_nodup_spec; auto).
  assert (RS : rdo_rights st (rdo_id x) = map rdo_id (rdo_chain a (rdo_par x) (rdo_sub x))).
  { rewrite E. apply rdo_d_rights_spec; auto. }
  rewrite RS. apply forallb_forall. intros j Hj. apply in_map_iff in Hj. destruct Hj as (y & <- & Hy).
  apply rdo_d_chain_In in Hy. destruct Hy as (Hy & Py & Sy).
  assert (Ly : n0 <= rdo_id y).
  { apply (rdo_f_pc_no_old_right b x a k y); auto. intros x0' H0' E0'.
    assert (x0' = x0) by (apply (rdo_f_nodup_inj st0); auto; destruct Le as (e1 & _); congruence). subst; auto. }
  assert (Hys : In y st) by (rewrite E; apply in_or_app; right; simpl; auto).
  pose proof (rdo_f_pc_new_I y Hys Ly) as HyI. apply rdo_f_mem_In in HyI. rewrite HyI. simpl.
  rewrite (rdo_b_in_get st y); auto. rewrite (rdo_f_W_red _ _ _ (rdo_f_T_W _ _ _ T1) y Hys). simpl.
  rewrite andb_true_r. apply negb_true_iff. apply rdo_f_mem_false. intros Hc.
  apply rdo_e_redo_in in Hc. apply rdo_f_mem_In in HyI. tauto.
Qed.

Lemma rdo_f_pc_casc_flip : rdo_i_cascade (rdo_i_flip st I D) = true.
Proof.
  apply rdo_d_cascade_spec. rewrite rdo_f_flip_eq. intros x' Hx' p y' P G Dy.
  assert (Hid : forall x, rdo_id (rdo_f_g I D x) = rdo_id x) by (intros; apply rdo_f_g_fields).
  apply in_map_iff in Hx'. destruct Hx' as (x & <- & Hx).
  rewrite rdo_f_get_map in G by auto. destruct (rdo_get st p) as [yp|] eqn:Gp; simpl in G; [|discriminate]. inversion G; subst y'; clear G.
  destruct (rdo_f_g_fields I D x) as (_ & E2 & _). rewrite E2 in P.
  destruct (N.le_gt_cases n0 (rdo_id x)) as [L|L]. apply rdo_f_pc_g_new; auto.
  destruct (rdo_f_W_par _ _ _ (rdo_f_T_W _ _ _ T1) _ _ Hx P) as (Lp & _).
  destruct (rdo_b_get_in _ _ _ Gp) as [Hyp Eyp].
  destruct (rdo_f_pc_pair x Hx L) as (x0 & H0 & Le). destruct (rdo_f_pc_pair yp Hyp) as (y0 & Hy0 & Ley). lia.
  rewrite (rdo_f_pc_g_old x x0); auto. rewrite (rdo_f_pc_g_old yp y0) in Dy; auto; [|lia].
  assert (P0 : rdo_par x0 = RdoItem p) by (destruct Le as (_ & e2 & _); congruence).
  assert (G0 : rdo_get st0 p = Some y0).
  { rewrite <- Eyp. destruct Ley as (e1 & _). rewrite e1. apply rdo_b_in_get; auto. }
  apply (rdo_f_T_casc _ _ _ T0 x0 H0 p y0 P0 G0 Dy).
Qed.

Lemma rdo_f_pc_ulive_flip : rdo_i_ulive (rdo_i_flip st I D) = true.
Proof.
  assert (Hid : forall x, rdo_id (rdo_f_g I D x) = rdo_id x) by (intros; apply rdo_f_g_fields).
  apply rdo_d_ulive_spec.
  { apply rdo_d_nodup_spec. rewrite rdo_f_flip_eq, map_map, (map_ext _ rdo_id); auto. }
  rewrite rdo_f_flip_eq. intros b' x' a' k E Sx'.
  apply map_eq_app in E. destruct E as (b & a2 & E & Eb & Ea2). apply map_eq_cons in Ea2.
  destruct Ea2 as (x & a & -> & Ex & Ea). subst x' a' b'.
  destruct (rdo_f_g_fields I D x) as (_ & E2 & E3 & _). rewrite E2, E3 in *.
  assert (Hx : In x st) by (rewrite E; apply in_or_app; right; simpl; auto).
  destruct (rdo_del (rdo_f_g I D x)) eqn:Dg; auto. right. intros y' Hy'.
  apply rdo_d_chain_In in Hy'. destruct Hy' as (Hy' & Py & Sy). apply in_map_iff in Hy'. destruct Hy' as (y & <- & Hy).
  destruct (rdo_f_g_fields I D y) as (_ & F2 & F3 & _). rewrite F2 in Py. rewrite F3 in Sy.
  assert (Hys : In y st) by (rewrite E; apply in_or_app; right; simpl; auto).
  destruct (N.le_gt_cases n0 (rdo_id x)) as [L|L]. rewrite rdo_f_pc_g_new in Dg; auto. discriminate.
  destruct (rdo_f_pc_pair x Hx L) as (x0 & H0 & Le). rewrite (rdo_f_pc_g_old x x0) in Dg; auto.
  apply rdo_f_pc_g_new; auto. apply (rdo_f_pc_no_old_right b x a k y); auto.
  intros x0' H0' E0'. assert (x0' = x0) by (apply (rdo_f_nodup_inj st0); auto; destruct Le as (e1 & _); congruence). subst; auto.
Qed.

Theorem rdo_f_pc_gen : rdo_i_pc st n sc I D = true.
Proof.
  pose proof (rdo_f_T_W _ _ _ T1) as W.
  unfold rdo_i_pc. cbv zeta.
  rewrite (rdo_f_W_wfp _ _ _ W).
  rewrite (proj2 (rdo_d_cascade_spec st) (rdo_f_T_casc _ _ _ T1)).
  rewrite (rdo_f_LL_lastlive st ND1 (rdo_f_T_LL _ _ _ T1)).
  assert (C4 : rdo_i_all st (fun x => rdo_in_scope st sc (rdo_id x)) = true).
  { apply forallb_forall. intros x Hx. eapply rdo_f_W_in_scope; eauto. apply in_map; auto. }
  rewrite C4.
  assert (C5 : forallb (fun i => rdo_is_some (rdo_get st i)) I = true).
  { apply forallb_forall. intros i Hi. apply A in Hi. destruct Hi as [_ Hi]. apply rdo_a_get_ids in Hi. destruct Hi as (x & ->). auto. }
  rewrite C5.
  assert (C6 : forallb (fun i => rdo_is_some (rdo_get st i)) D = true).
  { apply forallb_forall. intros i Hi. apply A in Hi. destruct Hi as (x & Hx & <- & _). rewrite (rdo_b_in_get st x); auto. }
  rewrite C6.
  assert (C7 : rdo_i_all st (fun x => negb (rdo_mem (rdo_id x) I) || negb (rdo_is_some (rdo_red x))) = true).
  { apply forallb_forall. intros x Hx. rewrite (rdo_f_W_red _ _ _ W x Hx). apply orb_true_r. }
  rewrite C7, rdo_f_pc_c2b, rdo_f_pc_c3, rdo_f_pc_c4.
  assert (C11 : rdo_i_all st (fun x => match rdo_par x with
                         | RdoItem p => negb (rdo_mem p (rdo_i_redo st I D)) || negb (rdo_is_some (rdo_red x))
                         | RdoRoot _ => true
                         end) = true).
  { apply forallb_forall. intros x Hx. rewrite (rdo_f_W_red _ _ _ W x Hx). destruct (rdo_par x); auto. apply orb_true_r. }
  rewrite C11, rdo_f_pc_casc_flip, rdo_f_pc_ulive_flip. reflexivity.
Qed.
End rdo_f_pc_sec.
Print Assumptions rdo_f_pc_gen.

(* F2 for a state of the invariant: entry, effect, precondition, render of the virtual store *)
Theorem rdo_f_step_pc : forall s0 txns s1,
  rdo_f_JP s0 ->
  forallb (forallb (fun o => rdo_mem (rdo_i_op_root o) (rdo_scope s0))) txns = true ->
  rdo_act s0 (RdoAStep txns) = RdoOk s1 ->
  length (rdo_us s1) = S (length (rdo_us s0)) ->
  exists e, rdo_us s1 = e :: rdo_us s0 /\ rdo_rs s1 = [] /\ rdo_scope s1 = rdo_scope s0 /\ rdo_f_JP s1 /\
    rdo_f_acc (rdo_doc s0) (rdo_clock s0) (rdo_doc s1) (rdo_sins e) (rdo_sdel e) /\
    rdo_i_pc (rdo_doc s1) (rdo_clock s1) (rdo_scope s1) (rdo_sins e) (rdo_sdel e) = true /\
    (forall root, rdo_i_render_root (rdo_i_flip (rdo_doc s1) (rdo_sins e) (rdo_sdel e)) root = rdo_render_root (rdo_doc s0) root).
Proof.
  intros s0 txns s1 J Hr H Len. pose proof J as (T & R & U).
  destruct (rdo_f_step_effect _ _ _ R (rdo_f_T_W _ _ _ T) Hr H Len) as (e & Us & Rs & Sc & W1 & L & A).
  destruct (rdo_f_JP_step _ _ _ J Hr H) as (J1 & _). pose proof J1 as (T1 & _).
  exists e. repeat (split; [assumption|]). split.
  - rewrite Sc. rewrite Sc in T1. apply (rdo_f_pc_gen (rdo_scope s0) (rdo_doc s0) (rdo_clock s0)); auto.
  - eapply rdo_f_flip_render_gen; eauto. apply T. apply rdo_f_LL_lastlive; apply T.
Qed.
Print Assumptions rdo_f_step_pc.

(* F2(e): a step that is not captured leaves the content unchanged *)
Lemma rdo_f_flip_nil st : rdo_i_flip st [] [] = st.
Proof. unfold rdo_i_flip. simpl. apply map_id. Qed.

Theorem rdo_f_step_uncaptured_render : forall s0 txns s1,
  rdo_f_JP s0 ->
  forallb (forallb (fun o => rdo_mem (rdo_i_op_root o) (rdo_scope s0))) txns = true ->
  rdo_act s0 (RdoAStep txns) = RdoOk s1 ->
  length (rdo_us s1) <> S (length (rdo_us s0)) ->
  rdo_us s1 = rdo_us s0 /\ forall root, rdo_render_root (rdo_doc s1) root = rdo_render_root (rdo_doc s0) root.
Proof.
  intros s0 txns s1 J Hr H Len. pose proof J as (T & R & U).
  destruct (rdo_f_step_uncaptured _ _ _ R (rdo_f_T_W _ _ _ T) Hr H Len) as (Us & Rs & Sc & W1 & A).
  destruct (rdo_f_JP_step _ _ _ J Hr H) as (J1 & _). pose proof J1 as (T1 & _). split; auto. intros root.
  rewrite <- (rdo_f_flip_render_gen _ _ _ _ _ _ _ (rdo_f_T_W _ _ _ T) W1 (rdo_f_LL_lastlive _ (rdo_f_W_nd _ _ _ (rdo_f_T_W _ _ _ T)) (rdo_f_T_LL _ _ _ T)) A root).
  rewrite rdo_f_flip_nil. symmetry. apply (rdo_d_render_virtual _ (rdo_clock s1)). eapply rdo_f_W_wfp; eauto.
  apply rdo_f_LL_lastlive. apply W1. rewrite Sc in T1. apply T1.
Qed.
Print Assumptions rdo_f_step_uncaptured_render.

(* ============================================================================================== *)
(* F3: keep flags are invisible *)

Definition rdo_f_eqk (x y : rdo_item) : Prop :=
  rdo_id y = rdo_id x /\ rdo_par y = rdo_par x /\ rdo_sub y = rdo_sub x /\ rdo_cnt y = rdo_cnt x /\ rdo_del y = rdo_del x.

Lemma rdo_f_eqk_refl l : Forall2 rdo_f_eqk l l.
Proof. induction l; constructor; auto. unfold rdo_f_eqk; auto. Qed.

Lemma rdo_f_eqk_upd st0 i b : forall st, Forall2 rdo_f_eqk st0 st -> Forall2 rdo_f_eqk st0 (rdo_update st i (fun y => rdo_set_keep y b)).
Proof.
  intros st H. induction H; simpl. constructor.
  destruct (rdo_id y =? i); constructor; auto; unfold rdo_f_eqk in *; simpl; auto.
Qed.

Lemma rdo_f_eqk_keep_all st sc ids b : Forall2 rdo_f_eqk st (rdo_keep_all st sc ids b).
Proof.
  apply (rdo_f_keep_all_ind (fun st' => Forall2 rdo_f_eqk st st')). intros; apply rdo_f_eqk_upd; auto. apply rdo_f_eqk_refl.
Qed.

Lemma rdo_f_eqk_chain st st' P s : Forall2 rdo_f_eqk st st' -> Forall2 rdo_f_eqk (rdo_chain st P s) (rdo_chain st' P s).
Proof.
  intros H. unfold rdo_chain. apply rdo_d_F2_filter; auto.
  intros x y (_ & e2 & e3 & _). unfold rdo_in_chain. rewrite e2, e3. auto.
Qed.
Lemma rdo_f_eqk_live l l' : Forall2 rdo_f_eqk l l' -> Forall2 rdo_f_eqk (rdo_live l) (rdo_live l').
Proof. intros H. unfold rdo_live. apply rdo_d_F2_filter; auto. intros x y (_&_&_&_&e5). rewrite e5; auto. Qed.

Lemma rdo_f_eqk_keys st st' P : Forall2 rdo_f_eqk st st' -> rdo_keys st' P = rdo_keys st P.
Proof.
  intros H. unfold rdo_keys. f_equal. induction H; simpl; auto. destruct H as (_ & e2 & e3 & _). rewrite e2, e3, IHForall2. auto.
Qed.

Lemma rdo_f_eqk_get st st' : Forall2 rdo_f_eqk st st' -> forall j,
  match rdo_get st j, rdo_get st' j with Some a, Some b => rdo_f_eqk a b | None, None => True | _, _ => False end.
Proof.
  induction 1; simpl; intros j; auto. destruct H as (e1 & E). rewrite e1. destruct (rdo_id x =? j). split; auto. apply IHForall2.
Qed.

Lemma rdo_f_eqk_entry st st' P k : Forall2 rdo_f_eqk st st' ->
  match rdo_entry st P k, rdo_entry st' P k with Some a, Some b => rdo_f_eqk a b | None, None => True | _, _ => False end.
Proof.
  intros H. unfold rdo_entry.
  assert (M : rdo_map_get st' P k = rdo_map_get st P k).
  { apply rdo_f_map_get_R0. eapply rdo_d_F2_impl; [|exact H]. intros x y (e1 & e2 & e3 & _). unfold rdo_a_R0; auto. }
  rewrite M. destruct (rdo_map_get st P k) as [j|]; auto.
  pose proof (rdo_f_eqk_get _ _ H j) as G. destruct (rdo_get st j) as [a|], (rdo_get st' j) as [b|]; try contradiction; auto.
  destruct G as (g1 & g2 & g3 & g4 & g5). rewrite g5. destruct (rdo_del a) eqn:Da; auto. unfold rdo_f_eqk; repeat split; auto; congruence.
Qed.

Lemma rdo_f_eqk_render_item st st' : Forall2 rdo_f_eqk st st' -> forall f x x', rdo_f_eqk x x' ->
  rdo_render_item f st' x' = rdo_render_item f st x.
Proof.
  intros H. induction f; intros x x' E. reflexivity.
  rewrite !rdo_d_render_S. destruct E as (e1 & e2 & e3 & e4 & e5). rewrite e4, e1. destruct (rdo_cnt x); auto.
  apply rdo_d_frame.
  - symmetry. apply (rdo_d_flat_map_F2 _ _ _ rdo_f_eqk). apply rdo_f_eqk_live, rdo_f_eqk_chain; auto.
    intros a b _ _ Eab. symmetry; apply IHf; auto.
  - rewrite (rdo_f_eqk_keys _ _ _ H). apply rdo_d_flat_map_ext. intros key _.
    pose proof (rdo_f_eqk_entry _ _ (RdoItem (rdo_id x)) key H) as En.
    destruct (rdo_entry st _ key), (rdo_entry st' _ key); try tauto. f_equal. apply IHf; auto.
Qed.

Theorem rdo_f_keep_render : forall st st', Forall2 rdo_f_eqk st st' ->
  forall root, rdo_render_root st' root = rdo_render_root st root.
Proof.
  intros st st' H root. unfold rdo_render_root.
  assert (Len : length st' = length st) by (clear root; induction H; simpl; auto). rewrite Len.
  apply (rdo_d_frame []).
  - symmetry. apply (rdo_d_flat_map_F2 _ _ _ rdo_f_eqk). apply rdo_f_eqk_live, rdo_f_eqk_chain; auto.
    intros a b _ _ Eab. symmetry; apply rdo_f_eqk_render_item; auto.
  - rewrite (rdo_f_eqk_keys _ _ _ H). apply rdo_d_flat_map_ext. intros key _.
    pose proof (rdo_f_eqk_entry _ _ (RdoRoot root) key H) as En.
    destruct (rdo_entry st _ key), (rdo_entry st' _ key); try tauto. f_equal. apply rdo_f_eqk_render_item; auto.
Qed.
Print Assumptions rdo_f_keep_render.

Theorem rdo_f_keep_all_render : forall st sc ids b root,
  rdo_render_root (rdo_keep_all st sc ids b) root = rdo_render_root st root.
Proof. intros. apply rdo_f_keep_render. apply rdo_f_eqk_keep_all. Qed.
Print Assumptions rdo_f_keep_all_render.

(* ============================================================================================== *)
(* F3: assembly - undoing the last captured step shows the content before it *)

Definition rdo_f_popped (s : rdo_state) (rest : list rdo_sitem) : rdo_state :=
  {| rdo_doc := rdo_doc s; rdo_clock := rdo_clock s; rdo_scope := rdo_scope s; rdo_us := rest; rdo_rs := rdo_rs s; rdo_ext := rdo_ext s |}.

Lemma rdo_f_undo_core s1 e rest t ch (R0 : N -> list N) :
  rdo_us s1 = e :: rest ->
  rdo_process (rdo_f_popped s1 rest) e rest (rdo_rs s1) = RdoOk (t, ch) ->
  (forall root, rdo_render_root (rdo_st t) root = R0 root) ->
  ch = true ->
  exists s2, rdo_undo s1 = RdoOk (s2, true) /\ rdo_us s2 = rest /\ rdo_scope s2 = rdo_scope s1 /\
             forall root, rdo_render_root (rdo_doc s2) root = R0 root.
Proof.
  intros Us Hp Hr ->. unfold rdo_undo. rewrite Us. cbn [length rdo_pop]. rewrite Us.
  fold (rdo_f_popped s1 rest). rewrite Hp. cbn [rdo_bind].
  exists (rdo_after_txn (rdo_f_popped s1 rest) t RdoUndoing). split; auto.
  unfold rdo_after_txn. destruct (negb _); cbn [rdo_us rdo_scope rdo_doc rdo_f_popped]; repeat split; auto.
  intros root. rewrite rdo_f_keep_all_render. auto.
Qed.

(* LEMMA P (agent E): processing an entry that satisfies rdo_i_pc yields a store that renders like the virtual store *)
Definition rdo_f_lemma_P : Prop := forall s e s1 s2,
  rdo_i_pc (rdo_doc s) (rdo_clock s) (rdo_scope s) (rdo_sins e) (rdo_sdel e) = true ->
  exists t ch, rdo_process s e s1 s2 = RdoOk (t, ch) /\
    forall root, rdo_render_root (rdo_st t) root = rdo_i_render_root (rdo_i_flip (rdo_doc s) (rdo_sins e) (rdo_sdel e)) root.

Lemma rdo_f_steps_app scope p a : rdo_i_steps scope (p ++ [a]) = true -> rdo_i_steps scope p = true /\
  match a with RdoAStep txns => forallb (forallb (fun o => rdo_mem (rdo_i_op_root o) scope)) txns = true | _ => False end.
Proof.
  unfold rdo_i_steps. rewrite forallb_app. simpl. rewrite andb_true_r. intros H. apply andb_true_iff in H. destruct H as [H1 H2].
  split; auto. destruct a; auto; discriminate.
Qed.

(* THE UNDO HALF, relative to Lemma P.  MISSING for the full statement: Lemma P itself (RedoProofsE.v proves it for
   entries that re-create nothing, see rdo_f_undo_insert_only_partial below), and the case ch = false (the undo call
   then goes on with the next entry). *)
Theorem rdo_undo_last_step_partial : rdo_f_lemma_P ->
  forall scope p s0 txns s1,
  rdo_i_steps scope (p ++ [RdoAStep txns]) = true ->
  rdo_run (rdo_state0 scope) p = RdoOk s0 ->
  rdo_act s0 (RdoAStep txns) = RdoOk s1 ->
  length (rdo_us s1) = S (length (rdo_us s0)) ->
  exists e t ch, rdo_us s1 = e :: rdo_us s0 /\ rdo_rs s1 = [] /\
    rdo_i_pc (rdo_doc s1) (rdo_clock s1) (rdo_scope s1) (rdo_sins e) (rdo_sdel e) = true /\
    rdo_process (rdo_f_popped s1 (rdo_us s0)) e (rdo_us s0) (rdo_rs s1) = RdoOk (t, ch) /\
    (forall root, rdo_render_root (rdo_st t) root = rdo_render_root (rdo_doc s0) root) /\
    (ch = true -> exists s2, rdo_undo s1 = RdoOk (s2, true) /\ rdo_us s2 = rdo_us s0 /\ rdo_scope s2 = scope /\
                             forall root, rdo_render_root (rdo_doc s2) root = rdo_render_root (rdo_doc s0) root).
Proof.
  intros LP scope p s0 txns s1 Hs Hrun Hact Len.
  apply rdo_f_steps_app in Hs. destruct Hs as [Hs Hr].
  destruct (rdo_f_JP_reachable _ _ _ Hs Hrun) as (J & Sc). rewrite <- Sc in Hr.
  destruct (rdo_f_step_pc _ _ _ J Hr Hact Len) as (e & Us & Rs & Sc1 & J1 & A & PC & FR).
  destruct (LP (rdo_f_popped s1 (rdo_us s0)) e (rdo_us s0) (rdo_rs s1) PC) as (t & ch & Hp & Rt).
  assert (Rt' : forall root, rdo_render_root (rdo_st t) root = rdo_render_root (rdo_doc s0) root).
  { intros root. rewrite Rt. apply FR. }
  exists e, t, ch. repeat (split; [assumption|]).
  intros Hc. destruct (rdo_f_undo_core s1 e (rdo_us s0) t ch _ Us Hp Rt' Hc) as (s2 & U & Us2 & Sc2 & R2).
  exists s2. repeat (split; [assumption|]). split; auto. congruence.
Qed.
Print Assumptions rdo_undo_last_step_partial.

(* without hypothesis, for steps that deleted no item older than the step (the entry re-creates nothing) *)
Lemma rdo_f_flip_kill st I D : NoDup (map rdo_id st) -> rdo_i_redo st I D = [] -> rdo_i_flip st I D = rdo_e_kill I st.
Proof.
  intros ND HR. unfold rdo_i_flip, rdo_e_kill. apply map_ext_in. intros x Hx.
  destruct (rdo_mem (rdo_id x) I) eqn:MI; auto. destruct (rdo_mem (rdo_id x) D) eqn:M; auto. exfalso.
  assert (K : In (rdo_id x) (rdo_i_redo st I D)).
  { unfold rdo_i_redo. apply filter_In. split. apply rdo_f_mem_In; auto. rewrite (rdo_b_in_get st x); auto. simpl. rewrite MI. auto. }
  rewrite HR in K. destruct K.
Qed.

Theorem rdo_f_undo_insert_only_partial : forall scope p s0 txns s1,
  rdo_i_steps scope (p ++ [RdoAStep txns]) = true ->
  rdo_run (rdo_state0 scope) p = RdoOk s0 ->
  rdo_act s0 (RdoAStep txns) = RdoOk s1 ->
  length (rdo_us s1) = S (length (rdo_us s0)) ->
  exists e t ch, rdo_us s1 = e :: rdo_us s0 /\ rdo_rs s1 = [] /\
    (rdo_i_redo (rdo_doc s1) (rdo_sins e) (rdo_sdel e) = [] ->
     rdo_process (rdo_f_popped s1 (rdo_us s0)) e (rdo_us s0) (rdo_rs s1) = RdoOk (t, ch) /\
     (forall root, rdo_render_root (rdo_st t) root = rdo_render_root (rdo_doc s0) root) /\
     (ch = true -> exists s2, rdo_undo s1 = RdoOk (s2, true) /\ rdo_us s2 = rdo_us s0 /\ rdo_scope s2 = scope /\
                              forall root, rdo_render_root (rdo_doc s2) root = rdo_render_root (rdo_doc s0) root)).
Proof.
  intros scope p s0 txns s1 Hs Hrun Hact Len.
  apply rdo_f_steps_app in Hs. destruct Hs as [Hs Hr].
  destruct (rdo_f_JP_reachable _ _ _ Hs Hrun) as (J & Sc). rewrite <- Sc in Hr.
  destruct (rdo_f_step_pc _ _ _ J Hr Hact Len) as (e & Us & Rs & Sc1 & J1 & A & PC & FR).
  destruct (rdo_i_redo (rdo_doc s1) (rdo_sins e) (rdo_sdel e)) eqn:HR.
  - destruct (rdo_e_process_del_partial (rdo_f_popped s1 (rdo_us s0)) e (rdo_us s0) (rdo_rs s1) PC HR) as (t & Hp & St & _).
    simpl in St.
    assert (Rt' : forall root, rdo_render_root (rdo_st t) root = rdo_render_root (rdo_doc s0) root).
    { intros root. rewrite <- FR. rewrite St. symmetry. pose proof J1 as (T1 & _).
      apply (rdo_d_render_virtual _ (rdo_clock s1)). apply rdo_f_wfp_flip. eapply rdo_f_W_wfp; apply T1.
      rewrite rdo_f_flip_kill; auto; [|apply T1]. apply rdo_f_LL_lastlive. rewrite rdo_e_kill_ids; apply T1.
      apply rdo_f_LLx_kill. apply T1. }
    eexists e, t, _. split; auto. split; auto. intros _. split; [exact Hp|]. split; auto.
    intros Hc. destruct (rdo_f_undo_core s1 e (rdo_us s0) t _ _ Us Hp Rt' Hc) as (s2 & U & Us2 & Sc2 & R2).
    exists s2. repeat (split; [assumption|]). split; auto. congruence.
  - exists e, (rdo_begin s1), false. split; auto. split; auto. intros Hc. rewrite HR in Hc. discriminate.
Qed.
Print Assumptions rdo_f_undo_insert_only_partial.

(* ---------------------------------------------------------------------------------------------- *)
(* F3, redo half: assembly relative to Lemma P and to LEMMA Q (agent E: the entry pushed on the redo stack satisfies
   rdo_i_pc again, and its virtual store shows the content before the undo) *)

Definition rdo_f_rpopped (s : rdo_state) (rest : list rdo_sitem) : rdo_state :=
  {| rdo_doc := rdo_doc s; rdo_clock := rdo_clock s; rdo_scope := rdo_scope s; rdo_us := rdo_us s; rdo_rs := rest; rdo_ext := rdo_ext s |}.

Lemma rdo_f_redo_core s2 e rest t ch (R0 : N -> list N) :
  rdo_rs s2 = e :: rest ->
  rdo_process (rdo_f_rpopped s2 rest) e rest (rdo_us s2) = RdoOk (t, ch) ->
  (forall root, rdo_render_root (rdo_st t) root = R0 root) ->
  ch = true ->
  exists s3, rdo_redo_call s2 = RdoOk (s3, true) /\ rdo_rs s3 = rest /\ rdo_scope s3 = rdo_scope s2 /\
             forall root, rdo_render_root (rdo_doc s3) root = R0 root.
Proof.
  intros Rs Hp Hr ->. unfold rdo_redo_call. rewrite Rs. cbn [length rdo_pop]. rewrite Rs.
  fold (rdo_f_rpopped s2 rest). rewrite Hp. cbn [rdo_bind].
  exists (rdo_after_txn (rdo_f_rpopped s2 rest) t RdoRedoing). split; auto.
  unfold rdo_after_txn. destruct (negb _); cbn [rdo_rs rdo_scope rdo_doc rdo_f_rpopped]; repeat split; auto.
  intros root. rewrite rdo_f_keep_all_render. auto.
Qed.

(* (without the second hypothesis the statement is false: rdo_e_lemma_Q_refuted in RedoProofsE.v - a dead child with a
   redone pointer below an inserted container violates c5 of the pushed entry) *)
Definition rdo_f_lemma_Q : Prop := forall s e s1 s2 t,
  rdo_i_pc (rdo_doc s) (rdo_clock s) (rdo_scope s) (rdo_sins e) (rdo_sdel e) = true ->
  (forall x, In x (rdo_doc s) -> rdo_red x = None) ->
  rdo_process s e s1 s2 = RdoOk (t, true) ->
  let s' := rdo_after_txn s t RdoUndoing in
  exists e', rdo_rs s' = e' :: rdo_rs s /\
    rdo_i_pc (rdo_doc s') (rdo_clock s') (rdo_scope s') (rdo_sins e') (rdo_sdel e') = true /\
    forall root, rdo_i_render_root (rdo_i_flip (rdo_doc s') (rdo_sins e') (rdo_sdel e')) root = rdo_render_root (rdo_doc s) root.

(* MISSING: Lemma P, Lemma Q (both of agent E), the cases in which try_process reports "nothing changed", and
   "the redo transaction is captured" (rdo_us s3 = e'' :: rdo_us s0). *)
Theorem rdo_inverse_law_nested_partial : rdo_f_lemma_P -> rdo_f_lemma_Q ->
  forall scope p s0 txns s1,
  rdo_i_steps scope (p ++ [RdoAStep txns]) = true ->
  rdo_run (rdo_state0 scope) p = RdoOk s0 ->
  rdo_act s0 (RdoAStep txns) = RdoOk s1 ->
  length (rdo_us s1) = S (length (rdo_us s0)) ->
  forall e t, rdo_us s1 = e :: rdo_us s0 ->
  rdo_process (rdo_f_popped s1 (rdo_us s0)) e (rdo_us s0) (rdo_rs s1) = RdoOk (t, true) ->
  exists s2 e' t3 ch3,
    rdo_undo s1 = RdoOk (s2, true) /\ rdo_us s2 = rdo_us s0 /\ rdo_rs s2 = [e'] /\
    (forall root, rdo_render_root (rdo_doc s2) root = rdo_render_root (rdo_doc s0) root) /\
    rdo_process (rdo_f_rpopped s2 []) e' [] (rdo_us s2) = RdoOk (t3, ch3) /\
    (forall root, rdo_render_root (rdo_st t3) root = rdo_render_root (rdo_doc s1) root) /\
    (ch3 = true -> exists s3, rdo_redo_call s2 = RdoOk (s3, true) /\ rdo_rs s3 = [] /\
                              forall root, rdo_render_root (rdo_doc s3) root = rdo_render_root (rdo_doc s1) root).
Proof.
  intros LP LQ scope p s0 txns s1 Hs Hrun Hact Len e t Us Hp.
  destruct (rdo_undo_last_step_partial LP scope p s0 txns s1 Hs Hrun Hact Len) as (e0 & t0 & ch0 & Us0 & Rs & PC & Hp0 & Rt & Hu).
  rewrite Us in Us0. inversion Us0; subst e0. rewrite Hp in Hp0. inversion Hp0; subst t0 ch0.
  destruct (Hu eq_refl) as (s2 & U & Us2 & Sc2 & R2).
  (* s2 is the state after_txn ... *)
  assert (E2 : s2 = rdo_after_txn (rdo_f_popped s1 (rdo_us s0)) t RdoUndoing).
  { unfold rdo_undo in U. rewrite Us in U. cbn [length rdo_pop] in U. rewrite Us in U.
    fold (rdo_f_popped s1 (rdo_us s0)) in U. rewrite Hp in U. cbn [rdo_bind] in U. inversion U; auto. }
  pose proof Hs as Hs'. apply rdo_f_steps_app in Hs'. destruct Hs' as [Hs1 Hr].
  destruct (rdo_f_JP_reachable _ _ _ Hs1 Hrun) as (J & Sc). rewrite <- Sc in Hr.
  destruct (rdo_f_step_pc _ _ _ J Hr Hact Len) as (e0 & _ & _ & _ & J1 & _). destruct J1 as (T1 & _).
  assert (NR : forall x, In x (rdo_doc (rdo_f_popped s1 (rdo_us s0))) -> rdo_red x = None).
  { simpl. apply (rdo_f_W_red _ _ _ (rdo_f_T_W _ _ _ T1)). }
  destruct (LQ (rdo_f_popped s1 (rdo_us s0)) e (rdo_us s0) (rdo_rs s1) t PC NR Hp) as (e' & Rs' & PC' & FR').
  cbv zeta in Rs', PC', FR'. rewrite <- E2 in Rs', PC', FR'. simpl in Rs', FR'. rewrite Rs in Rs'.
  destruct (LP (rdo_f_rpopped s2 []) e' [] (rdo_us s2) PC') as (t3 & ch3 & Hp3 & Rt3).
  assert (Rt3' : forall root, rdo_render_root (rdo_st t3) root = rdo_render_root (rdo_doc s1) root).
  { intros root. rewrite Rt3. apply FR'. }
  exists s2, e', t3, ch3. repeat (split; [assumption|]).
  intros Hc. destruct (rdo_f_redo_core s2 e' [] t3 ch3 _ Rs' Hp3 Rt3' Hc) as (s3 & U3 & Rs3 & _ & R3).
  exists s3; auto.
Qed.
Print Assumptions rdo_inverse_law_nested_partial.

(* ---------------------------------------------------------------------------------------------- *)
(* F2(a), complement: stack entries are ascending duplicate-free lists, hence I and D of a captured step are THE
   sorted lists of the ids described by rdo_f_acc *)
Definition rdo_f_sorted_us (s : rdo_state) : Prop :=
  forall e, In e (rdo_us s) -> rdo_d_asc (rdo_sins e) /\ rdo_d_asc (rdo_sdel e).

Lemma rdo_f_asc_nodup l : rdo_d_asc l -> NoDup l.
Proof.
  induction l; simpl; intros H; constructor. intros Hc. destruct H as [H _]. apply H in Hc. lia. apply IHl; tauto.
Qed.

Lemma rdo_f_sorted_after_txn s t : rdo_f_sorted_us s -> rdo_f_sorted_us (rdo_after_txn s t RdoNormal).
Proof.
  intros H. unfold rdo_after_txn. destruct (negb _); simpl; auto.
  unfold rdo_f_sorted_us; simpl. destruct (rdo_us s) as [|top rest] eqn:U.
  - intros e [<-|[]]; simpl; split; apply rdo_d_sort_asc.
  - destruct (rdo_ext s).
    + intros e [<-|He]; simpl. unfold rdo_merge; split; apply rdo_d_sort_asc. apply H; rewrite U; simpl; auto.
    + intros e [<-|He]; simpl. split; apply rdo_d_sort_asc. apply H; rewrite U; auto.
Qed.

Lemma rdo_f_sorted_step s0 txns s1 : rdo_f_sorted_us s0 -> rdo_act s0 (RdoAStep txns) = RdoOk s1 -> rdo_f_sorted_us s1.
Proof.
  intros H0 H. simpl in H. assert (X : rdo_f_sorted_us (rdo_reset s0)) by exact H0.
  revert H X. generalize (rdo_reset s0). induction txns; simpl; intros s H X.
  - inversion H; subst; auto.
  - destruct (rdo_tracked_txn s a) as [s'|] eqn:E; simpl in H.
    + apply IHtxns in H; auto. unfold rdo_tracked_txn in E. rdo_b_bind E. inversion E; subst s'.
      apply rdo_f_sorted_after_txn; auto.
    + rewrite rdo_b_fold_err in H by reflexivity. discriminate.
Qed.

Theorem rdo_f_sorted_reachable : forall scope p s, rdo_i_steps scope p = true ->
  rdo_run (rdo_state0 scope) p = RdoOk s -> rdo_f_sorted_us s.
Proof.
  intros scope p. assert (G : forall s0 s, rdo_f_sorted_us s0 -> rdo_i_steps scope p = true -> rdo_run s0 p = RdoOk s -> rdo_f_sorted_us s).
  { induction p; simpl; intros s0 s H0 Hs H. inversion H; subst; auto.
    apply andb_true_iff in Hs. destruct Hs as [Ha Hs]. rdo_b_bind H. destruct a; try discriminate.
    apply (IHp a0 s); auto. eapply rdo_f_sorted_step; eauto. }
  intros s Hs H. apply (G (rdo_state0 scope) s); auto. intros e [].
Qed.
Print Assumptions rdo_f_sorted_reachable.

(* two descriptions of the same captured step give the same entry *)
Theorem rdo_f_entry_unique : forall st0 n0 st I D I' D',
  rdo_f_acc st0 n0 st I D -> rdo_f_acc st0 n0 st I' D' ->
  rdo_d_asc I -> rdo_d_asc D -> rdo_d_asc I' -> rdo_d_asc D' -> I = I' /\ D = D'.
Proof.
  intros st0 n0 st I D I' D' [_ A2 A3] [_ B2 B3] HI HD HI' HD'. split; apply rdo_d_asc_ext; auto.
  intros k; rewrite A2, B2; tauto. intros k; rewrite A3, B3; tauto.
Qed.
Print Assumptions rdo_f_entry_unique.

(* ---------------------------------------------------------------------------------------------- *)
(* the undo half with a LOCAL hypothesis: whatever proves that try_process on the top entry returns a store that
   renders like the virtual store (Lemma P for this entry) gives the inverse law for this undo *)
Theorem rdo_f_undo_of_process_partial : forall scope p s0 txns s1,
  rdo_i_steps scope (p ++ [RdoAStep txns]) = true ->
  rdo_run (rdo_state0 scope) p = RdoOk s0 ->
  rdo_act s0 (RdoAStep txns) = RdoOk s1 ->
  length (rdo_us s1) = S (length (rdo_us s0)) ->
  exists e, rdo_us s1 = e :: rdo_us s0 /\ rdo_rs s1 = [] /\ rdo_scope s1 = scope /\
    rdo_d_asc (rdo_sins e) /\ rdo_d_asc (rdo_sdel e) /\
    rdo_f_acc (rdo_doc s0) (rdo_clock s0) (rdo_doc s1) (rdo_sins e) (rdo_sdel e) /\
    rdo_i_pc (rdo_doc s1) (rdo_clock s1) (rdo_scope s1) (rdo_sins e) (rdo_sdel e) = true /\
    (forall root, rdo_i_render_root (rdo_i_flip (rdo_doc s1) (rdo_sins e) (rdo_sdel e)) root = rdo_render_root (rdo_doc s0) root) /\
    forall t,
      rdo_process (rdo_f_popped s1 (rdo_us s0)) e (rdo_us s0) (rdo_rs s1) = RdoOk (t, true) ->
      (forall root, rdo_render_root (rdo_st t) root = rdo_i_render_root (rdo_i_flip (rdo_doc s1) (rdo_sins e) (rdo_sdel e)) root) ->
      exists s2, rdo_undo s1 = RdoOk (s2, true) /\ rdo_us s2 = rdo_us s0 /\ rdo_scope s2 = scope /\
                 forall root, rdo_render_root (rdo_doc s2) root = rdo_render_root (rdo_doc s0) root.
Proof.
  intros scope p s0 txns s1 Hs Hrun Hact Len.
  pose proof Hs as Hs'. apply rdo_f_steps_app in Hs. destruct Hs as [Hs Hr].
  destruct (rdo_f_JP_reachable _ _ _ Hs Hrun) as (J & Sc). rewrite <- Sc in Hr.
  destruct (rdo_f_step_pc _ _ _ J Hr Hact Len) as (e & Us & Rs & Sc1 & J1 & A & PC & FR).
  assert (Hrun1 : rdo_run (rdo_state0 scope) (p ++ [RdoAStep txns]) = RdoOk s1).
  { clear - Hrun Hact. revert Hrun. generalize (rdo_state0 scope). induction p; intros s H; cbn [app rdo_run] in *.
    inversion H; subst. rewrite Hact. reflexivity.
    destruct (rdo_act s a); cbn [rdo_bind] in *; [|discriminate]. auto. }
  destruct (rdo_f_sorted_reachable _ _ _ Hs' Hrun1 e) as [SI SD]. rewrite Us; simpl; auto.
  exists e. split; auto. split; auto. split. congruence. repeat (split; [assumption|]).
  intros t Hp Rt.
  assert (Rt' : forall root, rdo_render_root (rdo_st t) root = rdo_render_root (rdo_doc s0) root).
  { intros root. rewrite Rt. apply FR. }
  destruct (rdo_f_undo_core s1 e (rdo_us s0) t true _ Us Hp Rt' eq_refl) as (s2 & U & Us2 & Sc2 & R2).
  exists s2. repeat (split; [assumption|]). split; auto. congruence.
Qed.
Print Assumptions rdo_f_undo_of_process_partial.

(* ---------------------------------------------------------------------------------------------- *)
(* the boolean invariant J implies its Prop form: the F2 theorems apply to every state that satisfies J *)
Lemma rdo_f_lastlive_LL st : NoDup (map rdo_id st) -> rdo_i_lastlive st = true -> rdo_f_LLx None st.
Proof.
  intros ND LL. apply rdo_d_lastlive_spec in LL; [|apply rdo_d_nodup_spec; auto].
  intros y k Hy Sy Dy _. destruct (in_split y st Hy) as (b & a & E).
  destruct (LL b y a k E Sy) as [Dc|Ch]. congruence.
  unfold rdo_map_get, rdo_chain. rewrite E, filter_app. simpl. rewrite <- Sy, rdo_e_in_chain_refl.
  unfold rdo_chain in Ch. rewrite Ch. rewrite rev_app_distr. reflexivity.
Qed.

Theorem rdo_f_J_JP : forall s, rdo_f_J s -> rdo_f_JP s.
Proof.
  intros s (Wf & Ca & Ll & Rd & Sc & Rs & Us). apply rdo_d_wfp_spec in Wf. destruct Wf as [ND Wx].
  split; [|split; auto]. split.
  - split; auto.
    + intros x Hx. apply Wx; auto.
    + intros x p Hx P. destruct (Wx x Hx) as [_ Hp]. rewrite P in Hp. auto.
    + intros x Hx. eapply rdo_b_parent_of_insc. apply Sc; auto.
  - apply rdo_d_cascade_spec; auto.
  - apply rdo_f_lastlive_LL; auto.
Qed.
Print Assumptions rdo_f_J_JP.

(* F2 with the boolean invariant as hypothesis (the statement of the task) *)
Theorem rdo_f_step_J : forall s0 txns s1,
  rdo_f_J s0 ->
  forallb (forallb (fun o => rdo_mem (rdo_i_op_root o) (rdo_scope s0))) txns = true ->
  rdo_act s0 (RdoAStep txns) = RdoOk s1 ->
  rdo_f_J s1 /\ rdo_scope s1 = rdo_scope s0 /\
  (length (rdo_us s1) = S (length (rdo_us s0)) ->
   exists e, rdo_us s1 = e :: rdo_us s0 /\
    rdo_f_acc (rdo_doc s0) (rdo_clock s0) (rdo_doc s1) (rdo_sins e) (rdo_sdel e) /\
    rdo_i_pc (rdo_doc s1) (rdo_clock s1) (rdo_scope s1) (rdo_sins e) (rdo_sdel e) = true /\
    (forall root, rdo_i_render_root (rdo_i_flip (rdo_doc s1) (rdo_sins e) (rdo_sdel e)) root = rdo_render_root (rdo_doc s0) root)) /\
  (length (rdo_us s1) <> S (length (rdo_us s0)) ->
   rdo_us s1 = rdo_us s0 /\ forall root, rdo_render_root (rdo_doc s1) root = rdo_render_root (rdo_doc s0) root).
Proof.
  intros s0 txns s1 J Hr H. apply rdo_f_J_JP in J. destruct (rdo_f_JP_step _ _ _ J Hr H) as (J1 & Sc).
  split. apply rdo_f_JP_J; auto. split; auto. split.
  - intros Len. destruct (rdo_f_step_pc _ _ _ J Hr H Len) as (e & Us & _ & _ & _ & A & PC & FR). exists e; auto.
  - intros Len. apply (rdo_f_step_uncaptured_render _ _ _ J Hr H Len).
Qed.
Print Assumptions rdo_f_step_J.

(* ============================================================================================== *)
(* LEMMA Q FROM A DESCRIPTION OF THE RESULT OF try_process *)

(* Prop conditions -> the boolean precondition *)
Lemma rdo_f_redo_intro st I D p y : In p D -> ~ In p I -> rdo_get st p = Some y -> In p (rdo_i_redo st I D).
Proof.
  intros HD NI G. unfold rdo_i_redo. apply filter_In. split; auto. rewrite G. simpl.
  apply rdo_f_mem_false in NI. rewrite NI. auto.
Qed.

Lemma rdo_f_pc_intro st n sc I D :
  rdo_i_wfp st n = true -> rdo_i_cascade st = true -> rdo_i_lastlive st = true ->
  (forall x, In x st -> rdo_in_scope st sc (rdo_id x) = true) ->
  (forall i, In i I -> exists y, rdo_get st i = Some y /\ rdo_red y = None) ->
  (forall i, In i D -> exists y, rdo_get st i = Some y) ->
  (forall x p, In x st -> rdo_del x = false -> rdo_par x = RdoItem p -> In p I -> In (rdo_id x) I) ->
  (forall x, In x st -> In (rdo_id x) (rdo_i_redo st I D) -> rdo_del x = true /\ rdo_red x = None /\
      match rdo_par x with
      | RdoRoot _ => True
      | RdoItem p => (rdo_i_isdel st p = false /\ ~ In p I) \/ In p (rdo_i_redo st I D)
      end) ->
  (forall x k j, In x st -> In (rdo_id x) (rdo_i_redo st I D) -> rdo_sub x = Some k -> In j (rdo_rights st (rdo_id x)) ->
      In j I /\ ~ In j (rdo_i_redo st I D) /\ exists y, rdo_get st j = Some y /\ rdo_red y = None) ->
  (forall x p, In x st -> rdo_par x = RdoItem p -> In p (rdo_i_redo st I D) -> rdo_red x = None) ->
  rdo_i_cascade (rdo_i_flip st I D) = true -> rdo_i_ulive (rdo_i_flip st I D) = true ->
  rdo_i_pc st n sc I D = true.
Proof.
  intros Wf Ca Ll Sc HI HD C2 C3 C4 C5 Fc Fu.
  assert (ND : NoDup (map rdo_id st)) by (apply rdo_d_wfp_spec in Wf; apply Wf).
  unfold rdo_i_pc. cbv zeta. rewrite Wf, Ca, Ll, Fc, Fu.
  assert (B4 : rdo_i_all st (fun x => rdo_in_scope st sc (rdo_id x)) = true) by (apply forallb_forall; auto).
  assert (B5 : forallb (fun i => rdo_is_some (rdo_get st i)) I = true).
  { apply forallb_forall. intros i Hi. destruct (HI i Hi) as (y & -> & _). auto. }
  assert (B6 : forallb (fun i => rdo_is_some (rdo_get st i)) D = true).
  { apply forallb_forall. intros i Hi. destruct (HD i Hi) as (y & ->). auto. }
  assert (B7 : rdo_i_all st (fun x => negb (rdo_mem (rdo_id x) I) || negb (rdo_is_some (rdo_red x))) = true).
  { apply forallb_forall. intros x Hx. destruct (rdo_mem (rdo_id x) I) eqn:M; auto. simpl. apply rdo_f_mem_In in M.
    destruct (HI _ M) as (y & G & Ry). rewrite (rdo_b_in_get st x) in G; auto. inversion G; subst. rewrite Ry. auto. }
  assert (B8 : rdo_i_all st (fun x => rdo_del x || match rdo_par x with
                                      | RdoItem p => negb (rdo_mem p I) || rdo_mem (rdo_id x) I
                                      | RdoRoot _ => true end) = true).
  { apply forallb_forall. intros x Hx. destruct (rdo_del x) eqn:Dx; auto. simpl. destruct (rdo_par x) eqn:P; auto.
    destruct (rdo_mem id I) eqn:M; auto. simpl. apply rdo_f_mem_In. apply rdo_f_mem_In in M. eapply C2; eauto. }
  assert (B9 : rdo_i_all st (fun x => negb (rdo_mem (rdo_id x) (rdo_i_redo st I D)) ||
     (rdo_del x && negb (rdo_is_some (rdo_red x)) &&
      match rdo_par x with
      | RdoRoot _ => true
      | RdoItem p => (negb (rdo_i_isdel st p) && negb (rdo_mem p I)) || rdo_mem p (rdo_i_redo st I D)
      end)) = true).
  { apply forallb_forall. intros x Hx. destruct (rdo_mem (rdo_id x) (rdo_i_redo st I D)) eqn:M; auto. simpl.
    apply rdo_f_mem_In in M. destruct (C3 x Hx M) as (-> & -> & Pp). simpl. destruct (rdo_par x); auto.
    destruct Pp as [(A1 & A2)|A3]. rewrite A1. apply rdo_f_mem_false in A2. rewrite A2. auto.
    apply rdo_f_mem_In in A3. rewrite A3. apply orb_true_r. }
  assert (B10 : rdo_i_all st (fun x => negb (rdo_mem (rdo_id x) (rdo_i_redo st I D)) || negb (rdo_is_some (rdo_sub x)) ||
     forallb (fun j => rdo_mem j I && negb (rdo_mem j (rdo_i_redo st I D)) &&
                       match rdo_get st j with Some y => negb (rdo_is_some (rdo_red y)) | None => false end)
             (rdo_rights st (rdo_id x))) = true).
  { apply forallb_forall. intros x Hx. destruct (rdo_mem (rdo_id x) (rdo_i_redo st I D)) eqn:M; auto. simpl.
    destruct (rdo_sub x) as [k|] eqn:Sx; auto. simpl. apply rdo_f_mem_In in M.
    apply forallb_forall. intros j Hj. destruct (C4 x k j Hx M Sx Hj) as (A1 & A2 & y & G & Ry).
    apply rdo_f_mem_In in A1. apply rdo_f_mem_false in A2. rewrite A1, A2, G, Ry. auto. }
  assert (B11 : rdo_i_all st (fun x => match rdo_par x with
                         | RdoItem p => negb (rdo_mem p (rdo_i_redo st I D)) || negb (rdo_is_some (rdo_red x))
                         | RdoRoot _ => true end) = true).
  { apply forallb_forall. intros x Hx. destruct (rdo_par x) eqn:P; auto.
    destruct (rdo_mem id (rdo_i_redo st I D)) eqn:M; auto. simpl. apply rdo_f_mem_In in M. rewrite (C5 x id); auto. }
  rewrite B4, B5, B6, B7, B8, B9, B10, B11. reflexivity.
Qed.

(* stores that differ in keep flags only *)
Definition rdo_f_eq2 (x y : rdo_item) : Prop := rdo_f_eqk x y /\ rdo_red y = rdo_red x.

Lemma rdo_f_eq2_refl l : Forall2 rdo_f_eq2 l l.
Proof. induction l; constructor; auto. unfold rdo_f_eq2, rdo_f_eqk; auto 10. Qed.
Lemma rdo_f_eq2_upd st0 i b : forall st, Forall2 rdo_f_eq2 st0 st -> Forall2 rdo_f_eq2 st0 (rdo_update st i (fun y => rdo_set_keep y b)).
Proof.
  intros st H. induction H; simpl. constructor.
  destruct (rdo_id y =? i); constructor; auto; unfold rdo_f_eq2, rdo_f_eqk in *; simpl; auto.
Qed.
Lemma rdo_f_eq2_keep_all st sc ids b : Forall2 rdo_f_eq2 st (rdo_keep_all st sc ids b).
Proof.
  apply (rdo_f_keep_all_ind (fun st' => Forall2 rdo_f_eq2 st st')). intros; apply rdo_f_eq2_upd; auto. apply rdo_f_eq2_refl.
Qed.
Lemma rdo_f_eq2_eqk l l' : Forall2 rdo_f_eq2 l l' -> Forall2 rdo_f_eqk l l'.
Proof. apply rdo_d_F2_impl. intros x y [H _]; auto. Qed.
Lemma rdo_f_eq2_ids l l' : Forall2 rdo_f_eq2 l l' -> map rdo_id l' = map rdo_id l.
Proof. induction 1; simpl; auto. destruct H as ((-> & _) & _). congruence. Qed.
Lemma rdo_f_eq2_get st st' : Forall2 rdo_f_eq2 st st' -> forall j y', rdo_get st' j = Some y' -> exists y, rdo_get st j = Some y /\ rdo_f_eq2 y y'.
Proof.
  induction 1; simpl; intros j y' G. discriminate. pose proof H as ((e1 & _) & _). rewrite e1 in G.
  destruct (rdo_id x =? j). inversion G; subst; eauto. eauto.
Qed.
Lemma rdo_f_eq2_get_fwd st st' : Forall2 rdo_f_eq2 st st' -> forall j y, rdo_get st j = Some y -> exists y', rdo_get st' j = Some y' /\ rdo_f_eq2 y y'.
Proof.
  induction 1; simpl; intros j y0 G. discriminate. pose proof H as ((e1 & _) & _). rewrite e1.
  destruct (rdo_id x =? j). inversion G; subst; eauto. eauto.
Qed.
Lemma rdo_f_F2_trans {A B C} (R : A -> B -> Prop) (S : B -> C -> Prop) (T : A -> C -> Prop) :
  (forall a b c, R a b -> S b c -> T a c) -> forall l1 l2, Forall2 R l1 l2 -> forall l3, Forall2 S l2 l3 -> Forall2 T l1 l3.
Proof. intros H l1 l2 H1. induction H1; intros l3 H2; inversion H2; subst; constructor; eauto. Qed.

(* the description of the result store u (with next clock nx and insert set TI) of processing (I, D) on (st, n);
   R = rdo_i_redo st I D.  Insensitive to keep flags. *)
Definition rdo_f_ro (I R : list N) (x y : rdo_item) : Prop :=
  rdo_id y = rdo_id x /\ rdo_par y = rdo_par x /\ rdo_sub y = rdo_sub x /\ rdo_cnt y = rdo_cnt x /\
  rdo_del y = rdo_del x || rdo_mem (rdo_id x) I /\
  (rdo_mem (rdo_id x) R = false -> rdo_red y = rdo_red x).

Record rdo_f_res (st : list rdo_item) (n : N) (sc I D : list N) (u : list rdo_item) (nx : N) (TI : list N) : Prop := {
  rdo_f_r_old : Forall2 (rdo_f_ro I (rdo_i_redo st I D)) st (filter (rdo_f_old n) u);
  rdo_f_r_new : forall y, In y u -> n <= rdo_id y -> In (rdo_id y) TI /\ rdo_del y = false /\ rdo_red y = None;
  rdo_f_r_tins : forall i, In i TI -> n <= i /\ In i (map rdo_id u);
  rdo_f_r_wf : rdo_d_wf u nx;
  rdo_f_r_casc : rdo_d_cascade_p u;
  rdo_f_r_ll : rdo_d_lastlive_p u;
  rdo_f_r_sc : forall x, In x u -> rdo_b_insc sc u (rdo_id x) }.

Lemma rdo_f_res_eq2 st n sc I D u nx TI u' : rdo_f_res st n sc I D u nx TI -> Forall2 rdo_f_eq2 u u' -> rdo_f_res st n sc I D u' nx TI.
Proof.
  intros [R1 R2 R3 R4 R5 R6 R7] E.
  assert (BK : forall y', In y' u' -> exists y, In y u /\ rdo_f_eq2 y y') by (apply rdo_f_F2_in_r; auto).
  split.
  - eapply (rdo_f_F2_trans _ rdo_f_eq2); [|exact R1|].
    2:{ apply rdo_d_F2_filter; auto. intros x y ((e1 & _) & _). unfold rdo_f_old. rewrite e1; auto. }
    intros a b c (a1&a2&a3&a4&a5&a6) ((b1&b2&b3&b4&b5)&b6). unfold rdo_f_ro. repeat split; try congruence.
    intros M. rewrite b6. auto.
  - intros y' Hy' L. destruct (BK _ Hy') as (y & Hy & ((e1&e2&e3&e4&e5)&e6)). rewrite e1, e5, e6 in *. auto.
  - intros i Hi. rewrite (rdo_f_eq2_ids _ _ E). auto.
  - destruct R4 as [ND Wx]. split. rewrite (rdo_f_eq2_ids _ _ E); auto.
    intros y' Hy'. destruct (BK _ Hy') as (y & Hy & ((e1&e2&e3&e4&e5)&e6)). rewrite e1, e2. destruct (Wx y Hy) as [L Pp]. split; auto.
    destruct (rdo_par y); auto. destruct Pp as (L2 & z & k & G & C). split; auto.
    destruct (rdo_f_eq2_get_fwd _ _ E _ _ G) as (z' & G' & ((f1&f2&f3&f4&f5)&f6)). exists z', k. split; congruence.
  - intros y' Hy' p z' P G Dz. destruct (BK _ Hy') as (y & Hy & ((e1&e2&e3&e4&e5)&e6)).
    destruct (rdo_f_eq2_get _ _ E _ _ G) as (z & Gz & ((f1&f2&f3&f4&f5)&f6)). rewrite e5. eapply R5; eauto; congruence.
  - intros b' x' a' k Eu Sx. subst u'. apply Forall2_app_inv_r in E. destruct E as (b & a2 & Eb & Ea2 & ->).
    inversion Ea2 as [|x ? a ? Ex Ea]; subst. destruct Ex as ((e1&e2&e3&e4&e5)&e6).
    destruct (R6 b x a k eq_refl) as [Dx|Ch]. congruence. left; congruence.
    right. rewrite e2, e3. pose proof (rdo_f_eqk_chain a a' (rdo_par x) (rdo_sub x) (rdo_f_eq2_eqk _ _ Ea)) as Fc.
    rewrite Ch in Fc. inversion Fc; auto.
  - intros y' Hy'. destruct (BK _ Hy') as (y & Hy & ((e1&_)&_)). rewrite e1.
    apply (rdo_b_insc_fwd sc u u'); auto. intros j z G. destruct (rdo_f_eq2_get_fwd _ _ E _ _ G) as (z' & G' & ((f1&f2&_)&_)). eauto.
Qed.

Lemma rdo_f_F2_in_l {A B} (R : A -> B -> Prop) l0 l : Forall2 R l0 l -> forall x, In x l0 -> exists y, In y l /\ R x y.
Proof. induction 1; simpl; intros z []; subst; eauto. destruct (IHForall2 _ H1) as (x0 & ? & ?); eauto. Qed.

Lemma rdo_f_live_keys (g : rdo_item -> rdo_item) l l' :
  Forall2 (fun x x' => rdo_d_key (g x') = rdo_d_key x /\ rdo_del (g x') = rdo_del x) l l' ->
  map rdo_d_key (rdo_live (map g l')) = map rdo_d_key (rdo_live l).
Proof.
  induction 1; simpl; auto. destruct H as (K & Dg). rewrite Dg. destruct (rdo_del x); simpl; auto. f_equal; auto.
Qed.

Section rdo_f_q_sec.
Variables (st : list rdo_item) (n : N) (sc I D : list N) (u : list rdo_item) (nx : N) (TI TD : list N).
Hypothesis PC : rdo_i_pc st n sc I D = true.
(* the children (dead ones too) of the items the entry inserted were never re-created: holds when no item has a redone
   pointer, and when the entry is closed under children *)
Hypothesis HC : forall x p, In x st -> rdo_par x = RdoItem p -> In p I -> rdo_red x = None.
Hypothesis RS : rdo_f_res st n sc I D u nx TI.
Hypothesis HTD : forall i, In i TD <-> In i I /\ rdo_i_isdel st i = false.

Let P := rdo_e_pc_unpack _ _ _ _ _ PC.
Let W0 : rdo_d_wf st n := proj1 (rdo_d_wfp_spec st n) (rdo_e_p_wf _ _ _ _ _ P).
Let ND0 : NoDup (map rdo_id st) := proj1 W0.
Let NDu : NoDup (map rdo_id u) := proj1 (rdo_f_r_wf _ _ _ _ _ _ _ _ RS).
Let I' := rdo_sort TI.
Let D' := rdo_sort TD.

Lemma rdo_f_q_pair' x' : In x' u -> rdo_id x' < n -> exists x, In x st /\ rdo_f_ro I (rdo_i_redo st I D) x x'.
Proof.
  intros Hx L. apply (rdo_f_F2_in_r _ _ _ (rdo_f_r_old _ _ _ _ _ _ _ _ RS)). apply filter_In. split; auto.
  unfold rdo_f_old. apply N.ltb_lt; auto.
Qed.
Lemma rdo_f_q_lt x : In x st -> rdo_id x < n.
Proof. intros Hx. apply (proj2 W0 x Hx). Qed.
Lemma rdo_f_q_pair x : In x st -> exists x', In x' u /\ rdo_id x' < n /\ rdo_f_ro I (rdo_i_redo st I D) x x'.
Proof.
  intros Hx. destruct (rdo_f_F2_in_l _ _ _ (rdo_f_r_old _ _ _ _ _ _ _ _ RS) x Hx) as (x' & Hx' & Ro).
  apply filter_In in Hx'. destruct Hx' as [Hx' _]. exists x'. split; auto. split; auto.
  destruct Ro as (-> & _). apply rdo_f_q_lt; auto.
Qed.
Lemma rdo_f_q_I_lt i : In i I -> i < n /\ exists y, In y st /\ rdo_id y = i /\ rdo_red y = None.
Proof.
  intros Hi. destruct (rdo_e_p_I _ _ _ _ _ P i Hi) as (y & G & Ry). destruct (rdo_b_get_in _ _ _ G) as [Hy <-].
  split. apply rdo_f_q_lt; auto. eauto.
Qed.
Lemma rdo_f_q_I'_new i : In i I' -> n <= i.
Proof. intros Hi. apply (proj1 (rdo_f_sort_In TI i)) in Hi. apply (rdo_f_r_tins _ _ _ _ _ _ _ _ RS) in Hi. tauto. Qed.
Lemma rdo_f_q_new_I' x' : In x' u -> n <= rdo_id x' -> In (rdo_id x') I' /\ rdo_del x' = false /\ rdo_red x' = None.
Proof. intros Hx L. destruct (rdo_f_r_new _ _ _ _ _ _ _ _ RS x' Hx L) as (A1 & A2 & A3). split; auto. apply (proj2 (rdo_f_sort_In TI (rdo_id x'))); auto. Qed.
Lemma rdo_f_q_D' i : In i D' <-> In i I /\ rdo_i_isdel st i = false.
Proof. unfold D'. rewrite rdo_f_sort_In. apply HTD. Qed.
Lemma rdo_f_q_isdel x : In x st -> rdo_i_isdel st (rdo_id x) = rdo_del x.
Proof. intros Hx. unfold rdo_i_isdel. rewrite (rdo_b_in_get st x); auto. Qed.
Lemma rdo_f_q_getu x' : In x' u -> rdo_get u (rdo_id x') = Some x'.
Proof. intros. apply rdo_b_in_get; auto. Qed.

Lemma rdo_f_q_R' i : In i (rdo_i_redo u I' D') <-> In i I /\ rdo_i_isdel st i = false.
Proof.
  split.
  - intros H. apply rdo_e_redo_in in H. destruct H as (H & _). apply rdo_f_q_D'; auto.
  - intros [Hi Dl]. destruct (rdo_f_q_I_lt i Hi) as (L & y & Hy & <- & _). destruct (rdo_f_q_pair y Hy) as (y' & Hy' & _ & (e1 & _)).
    apply (rdo_f_redo_intro u I' D' (rdo_id y) y'). apply rdo_f_q_D'; auto.
    intros Hc. apply rdo_f_q_I'_new in Hc. lia. rewrite <- e1. apply rdo_f_q_getu; auto.
Qed.

Lemma rdo_f_q_gold x x' : In x st -> In x' u -> rdo_f_ro I (rdo_i_redo st I D) x x' -> rdo_del (rdo_f_g I' D' x') = rdo_del x.
Proof.
  intros Hx Hx' (e1 & e2 & e3 & e4 & e5 & e6). unfold rdo_f_g.
  assert (MI : rdo_mem (rdo_id x') I' = false).
  { apply rdo_f_mem_false. intros Hc. apply rdo_f_q_I'_new in Hc. rewrite e1 in Hc. pose proof (rdo_f_q_lt x Hx). lia. }
  rewrite MI. destruct (rdo_mem (rdo_id x') D') eqn:M.
  - apply rdo_f_mem_In in M. apply rdo_f_q_D' in M. destruct M as [_ M]. rewrite e1, rdo_f_q_isdel in M; auto.
  - rewrite e5. destruct (rdo_mem (rdo_id x) I) eqn:MI0; [|apply orb_false_r].
    rewrite orb_true_r. destruct (rdo_del x) eqn:Dx; auto. exfalso. apply rdo_f_mem_false in M. apply M.
    apply rdo_f_q_D'. rewrite e1. split. apply rdo_f_mem_In; auto. rewrite rdo_f_q_isdel; auto.
Qed.
Lemma rdo_f_q_gnew x' : In x' u -> n <= rdo_id x' -> rdo_del (rdo_f_g I' D' x') = true.
Proof.
  intros Hx L. unfold rdo_f_g. destruct (rdo_f_q_new_I' x' Hx L) as (A1 & _). apply rdo_f_mem_In in A1. rewrite A1. auto.
Qed.

Lemma rdo_f_q_no_old_right b x' a k y' x : u = b ++ x' :: a -> rdo_id x' < n -> rdo_sub x' = Some k ->
  In x st -> rdo_f_ro I (rdo_i_redo st I D) x x' -> rdo_del x = false ->
  In y' a -> rdo_par y' = rdo_par x' -> rdo_sub y' = rdo_sub x' -> n <= rdo_id y'.
Proof.
  intros E L Sx Hx Ro Dx Hy Py Sy. destruct (N.le_gt_cases n (rdo_id y')) as [?|Ly]; auto. exfalso.
  pose proof (rdo_f_r_old _ _ _ _ _ _ _ _ RS) as F. rewrite E, filter_app in F. simpl in F.
  assert (Ox : rdo_f_old n x' = true) by (unfold rdo_f_old; apply N.ltb_lt; auto). rewrite Ox in F.
  apply Forall2_app_inv_r in F. destruct F as (s1 & s2' & F1 & F2 & E0). inversion F2 as [|x0 ? s2 ? Ro0 F3]; subst s2'.
  assert (Hx0 : In x0 st) by (rewrite E0; apply in_or_app; right; simpl; auto).
  assert (x0 = x).
  { apply (rdo_f_nodup_inj st); auto. destruct Ro as (r1 & _), Ro0 as (q1 & _). congruence. }
  subst x0.
  pose proof (rdo_e_p_ll _ _ _ _ _ P) as LL0. apply rdo_d_lastlive_spec in LL0; [|apply rdo_d_nodup_spec; auto].
  destruct Ro as (r1 & r2 & r3 & _).
  destruct (LL0 s1 x s2 k E0) as [Dc|Ch]. congruence. congruence.
  assert (Hyf : In y' (filter (rdo_f_old n) a)) by (apply filter_In; split; auto; unfold rdo_f_old; apply N.ltb_lt; auto).
  destruct (rdo_f_F2_in_r _ _ _ F3 _ Hyf) as (yy0 & Hyy0 & (f1 & f2 & f3 & _)).
  assert (Hin : In yy0 (rdo_chain s2 (rdo_par x) (rdo_sub x))) by (apply rdo_d_chain_In; repeat split; auto; congruence).
  rewrite Ch in Hin. destruct Hin.
Qed.

Lemma rdo_f_q_flip_fields x : rdo_id (rdo_f_g I' D' x) = rdo_id x. Proof. apply rdo_f_g_fields. Qed.

Lemma rdo_f_q_casc_flip : rdo_i_cascade (rdo_i_flip u I' D') = true.
Proof.
  apply rdo_d_cascade_spec. rewrite rdo_f_flip_eq. intros x'' Hx'' p y'' Pp G Dy.
  apply in_map_iff in Hx''. destruct Hx'' as (x' & <- & Hx').
  rewrite rdo_f_get_map in G by apply rdo_f_q_flip_fields.
  destruct (rdo_get u p) as [yp'|] eqn:Gp; simpl in G; [|discriminate]. inversion G; subst y''; clear G.
  destruct (rdo_f_g_fields I' D' x') as (_ & E2 & _). rewrite E2 in Pp.
  destruct (N.le_gt_cases n (rdo_id x')) as [L|L]. apply rdo_f_q_gnew; auto.
  destruct (rdo_f_q_pair' x' Hx' L) as (x & Hx & Ro). rewrite (rdo_f_q_gold x x'); auto.
  pose proof Ro as (r1 & r2 & _). rewrite r2 in Pp.
  destruct (proj2 W0 x Hx) as [_ Wp]. rewrite Pp in Wp. destruct Wp as (Lp & yp & kp & Gy & _).
  destruct (rdo_b_get_in _ _ _ Gp) as [Hyp' Eyp']. destruct (rdo_b_get_in _ _ _ Gy) as [Hyp Eyp].
  destruct (rdo_f_q_pair' yp' Hyp') as (yp0 & Hyp0 & Roy). lia.
  assert (yp0 = yp) by (apply (rdo_f_nodup_inj st); auto; destruct Roy as (q1 & _); congruence). subst yp0.
  rewrite (rdo_f_q_gold yp yp') in Dy; auto.
  pose proof (proj1 (rdo_d_cascade_spec st) (rdo_e_p_casc _ _ _ _ _ P)) as C0. eapply C0; eauto.
Qed.

Lemma rdo_f_q_ulive_flip : rdo_i_ulive (rdo_i_flip u I' D') = true.
Proof.
  apply rdo_d_ulive_spec.
  { apply rdo_d_nodup_spec. rewrite rdo_f_flip_eq, map_map, (map_ext _ rdo_id); auto. apply rdo_f_q_flip_fields. }
  rewrite rdo_f_flip_eq. intros b' x'' a' k E Sx'.
  apply map_eq_app in E. destruct E as (b & a2 & E & Eb & Ea2). apply map_eq_cons in Ea2.
  destruct Ea2 as (x' & a & -> & Ex & Ea). subst x'' a' b'.
  destruct (rdo_f_g_fields I' D' x') as (_ & E2 & E3 & _). rewrite E2, E3 in *.
  assert (Hx' : In x' u) by (rewrite E; apply in_or_app; right; simpl; auto).
  destruct (rdo_del (rdo_f_g I' D' x')) eqn:Dg; auto. right. intros y'' Hy''.
  apply rdo_d_chain_In in Hy''. destruct Hy'' as (Hy'' & Py & Sy). apply in_map_iff in Hy''. destruct Hy'' as (y' & <- & Hy').
  destruct (rdo_f_g_fields I' D' y') as (_ & F2 & F3 & _). rewrite F2 in Py. rewrite F3 in Sy.
  assert (Hyu : In y' u) by (rewrite E; apply in_or_app; right; simpl; auto).
  destruct (N.le_gt_cases n (rdo_id x')) as [L|L]. rewrite rdo_f_q_gnew in Dg; auto. discriminate.
  destruct (rdo_f_q_pair' x' Hx' L) as (x & Hx & Ro). rewrite (rdo_f_q_gold x x') in Dg; auto.
  apply rdo_f_q_gnew; auto. apply (rdo_f_q_no_old_right b x' a k y' x); auto.
Qed.

Lemma rdo_f_q_bwf : rdo_b_wf sc u nx.
Proof.
  destruct (rdo_f_r_wf _ _ _ _ _ _ _ _ RS) as [ND Wx]. split; auto. split; [|split].
  - intros j x G. destruct (rdo_b_get_in _ _ _ G) as [Hx <-]. apply Wx; auto.
  - intros j x p G Pp. destruct (rdo_b_get_in _ _ _ G) as [Hx <-]. destruct (Wx x Hx) as [_ Hp]. rewrite Pp in Hp.
    destruct Hp as (L & y & k & Gy & _). split; auto. congruence.
  - intros j x r G Rr _ Gr. destruct (rdo_get u r) as [z|] eqn:Gz; [|congruence].
    destruct (rdo_b_get_in _ _ _ Gz) as [Hz <-]. apply (rdo_f_r_sc _ _ _ _ _ _ _ _ RS); auto.
Qed.

Theorem rdo_f_q_pc : rdo_i_pc u nx sc I' D' = true.
Proof.
  pose proof (rdo_f_r_wf _ _ _ _ _ _ _ _ RS) as Wu.
  apply rdo_f_pc_intro.
  - apply rdo_d_wfp_spec; auto.
  - apply rdo_d_cascade_spec. apply RS.
  - apply rdo_d_lastlive_spec. apply rdo_d_nodup_spec; auto. apply RS.
  - intros x Hx. apply (rdo_b_in_scope_iff sc u nx). apply rdo_f_q_bwf. apply RS; auto.
  - intros i Hi. pose proof Hi as Hi2. apply (proj1 (rdo_f_sort_In TI i)) in Hi. apply (rdo_f_r_tins _ _ _ _ _ _ _ _ RS) in Hi. destruct Hi as [L Hi].
    apply rdo_a_get_ids in Hi. destruct Hi as (y & G). exists y. split; auto. destruct (rdo_b_get_in _ _ _ G) as [Hy E].
    apply rdo_f_q_new_I'; auto. lia.
  - intros i Hi. apply rdo_f_q_D' in Hi. destruct Hi as [Hi _]. destruct (rdo_f_q_I_lt i Hi) as (_ & y & Hy & <- & _).
    destruct (rdo_f_q_pair y Hy) as (y' & Hy' & _ & (e1 & _)). exists y'. rewrite <- e1. apply rdo_f_q_getu; auto.
  - intros x' p Hx' Dx' Pp Hp. apply rdo_f_q_I'_new in Hp.
    destruct (N.le_gt_cases n (rdo_id x')) as [L|L]. apply rdo_f_q_new_I'; auto. exfalso.
    destruct (rdo_f_q_pair' x' Hx' L) as (x & Hx & (r1 & r2 & _)). rewrite r2 in Pp.
    destruct (proj2 W0 x Hx) as [Lx Wp]. rewrite Pp in Wp. lia.
  - intros x' Hx' HR. apply rdo_f_q_R' in HR. destruct HR as [Hi Dl].
    destruct (rdo_f_q_I_lt _ Hi) as (L & y & Hy & Ey & Ry). destruct (rdo_f_q_pair' x' Hx' L) as (x & Hx & Ro).
    pose proof Ro as (r1 & r2 & r3 & r4 & r5 & r6).
    assert (y = x) by (apply (rdo_f_nodup_inj st); auto; congruence). subst y.
    rewrite r1 in Hi, Dl. rewrite rdo_f_q_isdel in Dl; auto.
    split. rewrite r5. apply rdo_f_mem_In in Hi. rewrite Hi. apply orb_true_r.
    split. rewrite r6; auto. apply rdo_f_mem_false. intros Hc. apply rdo_e_redo_in in Hc. tauto.
    rewrite r2. destruct (rdo_par x) eqn:Pp; auto.
    destruct (proj2 W0 x Hx) as [_ Wp]. rewrite Pp in Wp. destruct Wp as (Lp & yp & kp & Gy & _).
    destruct (rdo_b_get_in _ _ _ Gy) as [Hyp Eyp].
    assert (Dyp : rdo_del yp = false).
    { destruct (rdo_del yp) eqn:Dyp; auto. pose proof (proj1 (rdo_d_cascade_spec st) (rdo_e_p_casc _ _ _ _ _ P)) as C0.
      rewrite (C0 x Hx id yp Pp Gy Dyp) in Dl. discriminate. }
    destruct (rdo_f_q_pair yp Hyp) as (yp' & Hyp' & Lyp & (q1 & q2 & q3 & q4 & q5 & q6)).
    destruct (rdo_mem id I) eqn:MI.
    + right. apply rdo_f_q_R'. apply rdo_f_mem_In in MI. split; auto. rewrite <- Eyp, rdo_f_q_isdel; auto.
    + left. split. unfold rdo_i_isdel. rewrite <- Eyp, <- q1, rdo_f_q_getu; auto. rewrite q5, Dyp, Eyp, MI. auto.
      intros Hc. apply rdo_f_q_I'_new in Hc. pose proof (rdo_f_q_lt x Hx). lia.
  - intros x' k j Hx' HR Sx' Hj. apply rdo_f_q_R' in HR. destruct HR as [Hi Dl].
    destruct (rdo_f_q_I_lt _ Hi) as (L & y & Hy & Ey & Ry). destruct (rdo_f_q_pair' x' Hx' L) as (x & Hx & Ro).
    pose proof Ro as (r1 & _). rewrite r1, rdo_f_q_isdel in Dl; auto.
    destruct (in_split x' u Hx') as (b & a & E).
    assert (NDb : rdo_i_nodup (map rdo_id (b ++ x' :: a)) = true) by (rewrite <- E; apply rdo_d_nodup_spec; auto).
    assert (RSx : rdo_rights u (rdo_id x') = map rdo_id (rdo_chain a (rdo_par x') (rdo_sub x'))).
    { rewrite E. apply rdo_d_rights_spec; auto. }
    rewrite RSx in Hj. apply in_map_iff in Hj. destruct Hj as (y' & <- & Hy').
    apply rdo_d_chain_In in Hy'. destruct Hy' as (Hy' & Py & Sy).
    assert (Ly : n <= rdo_id y') by (apply (rdo_f_q_no_old_right b x' a k y' x); auto).
    assert (Hyu : In y' u) by (rewrite E; apply in_or_app; right; simpl; auto).
    destruct (rdo_f_q_new_I' y' Hyu Ly) as (A1 & A2 & A3). split; auto. split.
    intros Hc. apply rdo_f_q_R' in Hc. destruct Hc as [Hc _]. apply rdo_f_q_I_lt in Hc. lia.
    exists y'. split; auto. apply rdo_f_q_getu; auto.
  - intros x' p Hx' Pp HR. apply rdo_f_q_R' in HR. destruct HR as [Hi Dl].
    destruct (N.le_gt_cases n (rdo_id x')) as [L|L]. apply rdo_f_q_new_I'; auto.
    destruct (rdo_f_q_pair' x' Hx' L) as (x & Hx & (r1 & r2 & r3 & r4 & r5 & r6)). rewrite r2 in Pp.
    rewrite r6. apply (HC x p Hx Pp Hi).
    apply rdo_f_mem_false. intros Hc. destruct (rdo_e_p_c3 _ _ _ _ _ P x Hx Hc) as (_ & _ & Pm). rewrite Pp in Pm.
    destruct Pm as [(_ & NI)|HRp]. apply NI; auto. apply rdo_e_redo_in in HRp. tauto.
  - apply rdo_f_q_casc_flip.
  - apply rdo_f_q_ulive_flip.
Qed.

Theorem rdo_f_q_render : forall root, rdo_i_render_root (rdo_i_flip u I' D') root = rdo_render_root st root.
Proof.
  intros root. rewrite <- (rdo_d_render_virtual st n); [|apply P|apply P].
  apply (rdo_d_render_live_only _ _ nx n).
  - apply rdo_f_wfp_flip. apply rdo_d_wfp_spec. apply RS.
  - apply P.
  - rewrite rdo_f_flip_eq, (rdo_f_live_flip_old n).
    2:{ intros x Hx L. apply rdo_f_mem_In. apply rdo_f_q_new_I'; auto. }
    pose proof (rdo_f_r_old _ _ _ _ _ _ _ _ RS) as F. apply rdo_d_F2_In in F.
    apply rdo_f_live_keys. eapply rdo_d_F2_impl; [|exact F]. intros x x' (Hx & Hx' & Ro).
    apply filter_In in Hx'. destruct Hx' as [Hx' _]. split.
    unfold rdo_d_key. destruct (rdo_f_g_fields I' D' x') as (-> & -> & -> & -> & _). destruct Ro as (-> & -> & -> & -> & _). auto.
    apply rdo_f_q_gold; auto.
Qed.
End rdo_f_q_sec.
Print Assumptions rdo_f_q_pc.
Print Assumptions rdo_f_q_render.

(* the description at the level of the transaction returned by rdo_process (what agent E is asked to prove as
   rdo_e_result + legality): R = rdo_i_redo st I D
     old : the items of st persist in the same order, same id/par/sub/cnt, del' = del || (id in I), red unchanged outside R
     new : every other item is in the insert set, alive, never re-created;   tins : the insert set holds fresh ids of the store
     tdel: the delete set = the ids of I that were alive;  the result is a legal document;  ch says whether anything was recorded *)
Record rdo_f_result (st : list rdo_item) (n : N) (sc I D : list N) (t : rdo_txn) (ch : bool) : Prop := {
  rdo_f_res_old : Forall2 (rdo_f_ro I (rdo_i_redo st I D)) st (filter (rdo_f_old n) (rdo_st t));
  rdo_f_res_new : forall y, In y (rdo_st t) -> n <= rdo_id y -> In (rdo_id y) (rdo_tins t) /\ rdo_del y = false /\ rdo_red y = None;
  rdo_f_res_tins : forall i, In i (rdo_tins t) -> n <= i /\ In i (map rdo_id (rdo_st t));
  rdo_f_res_tdel : forall i, In i (rdo_tdel t) <-> In i I /\ rdo_i_isdel st i = false;
  rdo_f_res_wfp : rdo_i_wfp (rdo_st t) (rdo_next t) = true;
  rdo_f_res_casc : rdo_i_cascade (rdo_st t) = true;
  rdo_f_res_ll : rdo_i_lastlive (rdo_st t) = true;
  rdo_f_res_sc : forall x, In x (rdo_st t) -> rdo_in_scope (rdo_st t) sc (rdo_id x) = true;
  rdo_f_res_ch : if ch then rdo_tins t ++ rdo_tdel t <> [] else rdo_tins t ++ rdo_tdel t = [] }.

Lemma rdo_f_result_res st n sc I D t ch : rdo_f_result st n sc I D t ch ->
  rdo_f_res st n sc I D (rdo_st t) (rdo_next t) (rdo_tins t).
Proof.
  intros [R1 R2 R3 R4 R5 R6 R7 R8 R9]. split; auto.
  - apply rdo_d_wfp_spec; auto.
  - apply rdo_d_cascade_spec; auto.
  - apply rdo_d_lastlive_spec; auto. apply rdo_d_wfp_nodup with (n := rdo_next t); auto.
  - intros x Hx. eapply rdo_b_parent_of_insc. apply R8; auto.
Qed.

(* every recorded id is an item of the result *)
Lemma rdo_f_result_ids st n sc I D t ch : rdo_i_pc st n sc I D = true -> rdo_f_result st n sc I D t ch ->
  forall i, In i (rdo_tins t ++ rdo_tdel t) -> In i (map rdo_id (rdo_st t)).
Proof.
  intros PC RS i Hi. apply in_app_or in Hi. destruct Hi as [Hi|Hi]. apply (rdo_f_res_tins _ _ _ _ _ _ _ RS); auto.
  apply (rdo_f_res_tdel _ _ _ _ _ _ _ RS) in Hi. destruct Hi as [Hi _].
  destruct (rdo_e_p_I _ _ _ _ _ (rdo_e_pc_unpack _ _ _ _ _ PC) i Hi) as (y & G & _). destruct (rdo_b_get_in _ _ _ G) as [Hy <-].
  destruct (rdo_f_F2_in_l _ _ _ (rdo_f_res_old _ _ _ _ _ _ _ RS) y Hy) as (y' & Hy' & (e1 & _)).
  apply filter_In in Hy'. rewrite <- e1. apply in_map; tauto.
Qed.

(* LEMMA Q from the description *)
Theorem rdo_f_lemma_Q_of_result : forall s e t,
  rdo_i_pc (rdo_doc s) (rdo_clock s) (rdo_scope s) (rdo_sins e) (rdo_sdel e) = true ->
  (forall x p, In x (rdo_doc s) -> rdo_par x = RdoItem p -> In p (rdo_sins e) -> rdo_red x = None) ->
  rdo_f_result (rdo_doc s) (rdo_clock s) (rdo_scope s) (rdo_sins e) (rdo_sdel e) t true ->
  let s' := rdo_after_txn s t RdoUndoing in
  exists e', rdo_rs s' = e' :: rdo_rs s /\ rdo_us s' = rdo_us s /\ rdo_scope s' = rdo_scope s /\
    rdo_i_pc (rdo_doc s') (rdo_clock s') (rdo_scope s') (rdo_sins e') (rdo_sdel e') = true /\
    forall root, rdo_i_render_root (rdo_i_flip (rdo_doc s') (rdo_sins e') (rdo_sdel e')) root = rdo_render_root (rdo_doc s) root.
Proof.
  intros s e t PC HC RS. cbv zeta. unfold rdo_after_txn.
  assert (Cap : existsb (rdo_in_scope (rdo_st t) (rdo_scope s)) (rdo_tins t ++ rdo_tdel t) = true).
  { pose proof (rdo_f_res_ch _ _ _ _ _ _ _ RS) as Ch. cbv iota in Ch.
    destruct (rdo_tins t ++ rdo_tdel t) as [|i r] eqn:E; [congruence|]. simpl.
    assert (Hi : In i (map rdo_id (rdo_st t))) by (apply (rdo_f_result_ids _ _ _ _ _ _ _ PC RS); rewrite E; simpl; auto).
    apply in_map_iff in Hi. destruct Hi as (x & <- & Hx). rewrite (rdo_f_res_sc _ _ _ _ _ _ _ RS x Hx). auto. }
  rewrite Cap. cbn [negb]. cbn [rdo_rs rdo_us rdo_scope rdo_doc rdo_clock].
  eexists. split; [reflexivity|]. split; auto. split; auto. cbn [rdo_sins rdo_sdel].
  pose proof (rdo_f_res_eq2 _ _ _ _ _ _ _ _ _ (rdo_f_result_res _ _ _ _ _ _ _ RS)
               (rdo_f_eq2_keep_all (rdo_st t) (rdo_scope s) (rdo_sort (rdo_tdel t)) true)) as RS'.
  split.
  - apply (rdo_f_q_pc (rdo_doc s) (rdo_clock s) (rdo_scope s) (rdo_sins e) (rdo_sdel e) _ _ (rdo_tins t) (rdo_tdel t)); auto. apply RS.
  - apply (rdo_f_q_render (rdo_doc s) (rdo_clock s) (rdo_scope s) (rdo_sins e) (rdo_sdel e) _ (rdo_next t) (rdo_tins t) (rdo_tdel t)); auto. apply RS.
Qed.
Print Assumptions rdo_f_lemma_Q_of_result.

(* the case "nothing recorded" (ch = false): the transaction is not captured, the stacks stay, the content stays *)
Theorem rdo_f_result_unchanged : forall s e t mode,
  rdo_i_pc (rdo_doc s) (rdo_clock s) (rdo_scope s) (rdo_sins e) (rdo_sdel e) = true ->
  rdo_f_result (rdo_doc s) (rdo_clock s) (rdo_scope s) (rdo_sins e) (rdo_sdel e) t false ->
  let s' := rdo_after_txn s t mode in
  rdo_rs s' = rdo_rs s /\ rdo_us s' = rdo_us s /\ rdo_doc s' = rdo_st t /\
  forall root, rdo_render_root (rdo_doc s') root = rdo_render_root (rdo_doc s) root.
Proof.
  intros s e t mode PC RS. cbv zeta. pose proof (rdo_f_res_ch _ _ _ _ _ _ _ RS) as Ch. cbv iota in Ch.
  unfold rdo_after_txn. rewrite Ch. cbn [existsb negb rdo_rs rdo_us rdo_doc]. repeat split; auto.
  intros root. apply app_eq_nil in Ch. destruct Ch as [C1 C2].
  pose proof (rdo_f_q_render (rdo_doc s) (rdo_clock s) (rdo_scope s) (rdo_sins e) (rdo_sdel e) (rdo_st t) (rdo_next t) (rdo_tins t) (rdo_tdel t)
                PC (rdo_f_result_res _ _ _ _ _ _ _ RS) (rdo_f_res_tdel _ _ _ _ _ _ _ RS) root) as Q.
  rewrite C1, C2 in Q. simpl in Q. rewrite rdo_f_flip_nil in Q. rewrite <- Q. symmetry.
  apply (rdo_d_render_virtual _ (rdo_next t)); apply RS.
Qed.
Print Assumptions rdo_f_result_unchanged.

(* ---------------------------------------------------------------------------------------------- *)
(* F3 again, with Lemma Q replaced by the description: what is left for agent E is
     LEMMA P  (rdo_f_lemma_P): try_process succeeds and its result renders like the virtual store,
     LEMMA R  (rdo_f_lemma_R): its result satisfies the description rdo_f_result. *)
Definition rdo_f_lemma_R : Prop := forall s e s1 s2 t ch,
  rdo_i_pc (rdo_doc s) (rdo_clock s) (rdo_scope s) (rdo_sins e) (rdo_sdel e) = true ->
  rdo_process s e s1 s2 = RdoOk (t, ch) ->
  rdo_f_result (rdo_doc s) (rdo_clock s) (rdo_scope s) (rdo_sins e) (rdo_sdel e) t ch.

(* the entry of a captured step is closed under children *)
Lemma rdo_f_acc_hc sc st0 n0 st n I D : rdo_f_W sc st n -> rdo_f_acc st0 n0 st I D ->
  forall x p, In x st -> rdo_par x = RdoItem p -> In p I -> In (rdo_id x) I.
Proof.
  intros W A x p Hx Pp Hp. apply A in Hp. apply A. destruct (rdo_f_W_par _ _ _ W _ _ Hx Pp) as (L & _).
  split. lia. apply in_map; auto.
Qed.
Lemma rdo_f_W_hc sc st n (I : list N) : rdo_f_W sc st n ->
  forall x p, In x st -> rdo_par x = RdoItem p -> In p I -> rdo_red x = None.
Proof. intros W x p Hx _ _. apply (rdo_f_W_red _ _ _ W); auto. Qed.

Theorem rdo_inverse_law_nested_partial2 : rdo_f_lemma_P -> rdo_f_lemma_R ->
  forall scope p s0 txns s1,
  rdo_i_steps scope (p ++ [RdoAStep txns]) = true ->
  rdo_run (rdo_state0 scope) p = RdoOk s0 ->
  rdo_act s0 (RdoAStep txns) = RdoOk s1 ->
  length (rdo_us s1) = S (length (rdo_us s0)) ->
  exists e t ch, rdo_us s1 = e :: rdo_us s0 /\ rdo_rs s1 = [] /\
    rdo_process (rdo_f_popped s1 (rdo_us s0)) e (rdo_us s0) (rdo_rs s1) = RdoOk (t, ch) /\
    (forall root, rdo_render_root (rdo_st t) root = rdo_render_root (rdo_doc s0) root) /\
    (ch = true ->
     exists s2 e' t3 ch3,
       rdo_undo s1 = RdoOk (s2, true) /\ rdo_us s2 = rdo_us s0 /\ rdo_rs s2 = [e'] /\
       (forall root, rdo_render_root (rdo_doc s2) root = rdo_render_root (rdo_doc s0) root) /\
       rdo_process (rdo_f_rpopped s2 []) e' [] (rdo_us s2) = RdoOk (t3, ch3) /\
       (forall root, rdo_render_root (rdo_st t3) root = rdo_render_root (rdo_doc s1) root) /\
       (ch3 = true -> exists s3, rdo_redo_call s2 = RdoOk (s3, true) /\ rdo_rs s3 = [] /\
                                 forall root, rdo_render_root (rdo_doc s3) root = rdo_render_root (rdo_doc s1) root)).
Proof.
  intros LP LR scope p s0 txns s1 Hs Hrun Hact Len.
  destruct (rdo_undo_last_step_partial LP scope p s0 txns s1 Hs Hrun Hact Len) as (e & t & ch & Us & Rs & PC & Hp & Rt & Hu).
  exists e, t, ch. repeat (split; [assumption|]). intros Hc. subst ch.
  destruct (Hu eq_refl) as (s2 & U & Us2 & Sc2 & R2).
  assert (E2 : s2 = rdo_after_txn (rdo_f_popped s1 (rdo_us s0)) t RdoUndoing).
  { unfold rdo_undo in U. rewrite Us in U. cbn [length rdo_pop] in U. rewrite Us in U.
    fold (rdo_f_popped s1 (rdo_us s0)) in U. rewrite Hp in U. cbn [rdo_bind] in U. inversion U; auto. }
  (* the hypothesis on children *)
  pose proof Hs as Hs'. apply rdo_f_steps_app in Hs'. destruct Hs' as [Hs1 Hr].
  destruct (rdo_f_JP_reachable _ _ _ Hs1 Hrun) as (J & Sc). rewrite <- Sc in Hr.
  destruct (rdo_f_step_pc _ _ _ J Hr Hact Len) as (e0 & Us0 & _ & Sc1 & J1 & A & _ & _).
  rewrite Us in Us0. inversion Us0; subst e0. destruct J1 as (T1 & _).
  pose proof (rdo_f_W_hc _ _ _ (rdo_sins e) (rdo_f_T_W _ _ _ T1)) as HC.
  pose proof (LR (rdo_f_popped s1 (rdo_us s0)) e (rdo_us s0) (rdo_rs s1) t true PC Hp) as RS.
  destruct (rdo_f_lemma_Q_of_result (rdo_f_popped s1 (rdo_us s0)) e t PC HC RS) as (e' & Rs' & _ & _ & PC' & FR').
  cbv zeta in Rs', PC', FR'. rewrite <- E2 in Rs', PC', FR'. simpl in Rs', FR'. rewrite Rs in Rs'.
  destruct (LP (rdo_f_rpopped s2 []) e' [] (rdo_us s2) PC') as (t3 & ch3 & Hp3 & Rt3).
  assert (Rt3' : forall root, rdo_render_root (rdo_st t3) root = rdo_render_root (rdo_doc s1) root).
  { intros root. rewrite Rt3. apply FR'. }
  exists s2, e', t3, ch3. repeat (split; [assumption|]).
  intros Hc. destruct (rdo_f_redo_core s2 e' [] t3 ch3 _ Rs' Hp3 Rt3' Hc) as (s3 & U3 & Rs3 & _ & R3).
  exists s3; auto.
Qed.
Print Assumptions rdo_inverse_law_nested_partial2.


(* Lemma Q (with the hypothesis "no redone pointer before the undo") follows from Lemma R *)
Theorem rdo_f_lemma_Q_of_R : rdo_f_lemma_R -> rdo_f_lemma_Q.
Proof.
  intros LR s e s1 s2 t PC NR Hp. cbv zeta.
  destruct (rdo_f_lemma_Q_of_result s e t PC) as (e' & A1 & _ & _ & A2 & A3).
  - intros x p Hx _ _. auto.
  - eapply LR; eauto.
  - exists e'. auto.
Qed.
Print Assumptions rdo_f_lemma_Q_of_R.

(* ============================================================================================== *)
(* F3 relative to CLASS-restricted lemmas: cls is any boolean class of (store, I, D); the lemmas of agents D / E are
   proved for sorted entries of a class *)
Lemma rdo_f_asc_ss l : rdo_d_asc l -> StronglySorted N.lt l.
Proof.
  induction l; simpl; intros H; constructor. apply IHl; tauto. apply Forall_forall. apply H.
Qed.

Definition rdo_f_lemma_P_c (cls : list rdo_item -> list N -> list N -> bool) : Prop := forall s e s1 s2,
  rdo_i_pc (rdo_doc s) (rdo_clock s) (rdo_scope s) (rdo_sins e) (rdo_sdel e) = true ->
  StronglySorted N.lt (rdo_sins e) -> StronglySorted N.lt (rdo_sdel e) ->
  cls (rdo_doc s) (rdo_sins e) (rdo_sdel e) = true ->
  exists t ch, rdo_process s e s1 s2 = RdoOk (t, ch) /\
    forall root, rdo_render_root (rdo_st t) root = rdo_i_render_root (rdo_i_flip (rdo_doc s) (rdo_sins e) (rdo_sdel e)) root.

Definition rdo_f_lemma_R_c (cls : list rdo_item -> list N -> list N -> bool) : Prop := forall s e s1 s2 t ch,
  rdo_i_pc (rdo_doc s) (rdo_clock s) (rdo_scope s) (rdo_sins e) (rdo_sdel e) = true ->
  StronglySorted N.lt (rdo_sins e) -> StronglySorted N.lt (rdo_sdel e) ->
  cls (rdo_doc s) (rdo_sins e) (rdo_sdel e) = true ->
  rdo_process s e s1 s2 = RdoOk (t, ch) ->
  rdo_f_result (rdo_doc s) (rdo_clock s) (rdo_scope s) (rdo_sins e) (rdo_sdel e) t ch.

Theorem rdo_undo_last_step_c : forall cls, rdo_f_lemma_P_c cls ->
  forall scope p s0 txns s1,
  rdo_i_steps scope (p ++ [RdoAStep txns]) = true ->
  rdo_run (rdo_state0 scope) p = RdoOk s0 ->
  rdo_act s0 (RdoAStep txns) = RdoOk s1 ->
  length (rdo_us s1) = S (length (rdo_us s0)) ->
  forall e, rdo_us s1 = e :: rdo_us s0 -> cls (rdo_doc s1) (rdo_sins e) (rdo_sdel e) = true ->
  exists t ch, rdo_rs s1 = [] /\
    rdo_i_pc (rdo_doc s1) (rdo_clock s1) (rdo_scope s1) (rdo_sins e) (rdo_sdel e) = true /\
    StronglySorted N.lt (rdo_sins e) /\ StronglySorted N.lt (rdo_sdel e) /\
    rdo_process (rdo_f_popped s1 (rdo_us s0)) e (rdo_us s0) (rdo_rs s1) = RdoOk (t, ch) /\
    (forall root, rdo_render_root (rdo_st t) root = rdo_render_root (rdo_doc s0) root) /\
    (ch = true -> exists s2, rdo_undo s1 = RdoOk (s2, true) /\ rdo_us s2 = rdo_us s0 /\ rdo_scope s2 = scope /\
                             forall root, rdo_render_root (rdo_doc s2) root = rdo_render_root (rdo_doc s0) root).
Proof.
  intros cls LP scope p s0 txns s1 Hs Hrun Hact Len e Us Cl.
  destruct (rdo_f_undo_of_process_partial scope p s0 txns s1 Hs Hrun Hact Len) as (e0 & Us0 & Rs & Sc & AI & AD & A & PC & FR & Hu).
  rewrite Us in Us0. inversion Us0; subst e0.
  pose proof (rdo_f_asc_ss _ AI) as SI. pose proof (rdo_f_asc_ss _ AD) as SD.
  destruct (LP (rdo_f_popped s1 (rdo_us s0)) e (rdo_us s0) (rdo_rs s1) PC SI SD Cl) as (t & ch & Hp & Rt).
  exists t, ch. repeat (split; [assumption|]). split.
  - intros root. rewrite Rt. apply FR.
  - intros ->. apply (Hu t Hp Rt).
Qed.
Print Assumptions rdo_undo_last_step_c.

Lemma rdo_f_result_captured st n sc I D t : rdo_i_pc st n sc I D = true -> rdo_f_result st n sc I D t true ->
  existsb (rdo_in_scope (rdo_st t) sc) (rdo_tins t ++ rdo_tdel t) = true.
Proof.
  intros PC RS. pose proof (rdo_f_res_ch _ _ _ _ _ _ _ RS) as Ch. cbv iota in Ch.
  destruct (rdo_tins t ++ rdo_tdel t) as [|i r] eqn:E; [congruence|]. simpl.
  assert (Hi : In i (map rdo_id (rdo_st t))) by (apply (rdo_f_result_ids _ _ _ _ _ _ _ PC RS); rewrite E; simpl; auto).
  apply in_map_iff in Hi. destruct Hi as (x & <- & Hx). rewrite (rdo_f_res_sc _ _ _ _ _ _ _ RS x Hx). auto.
Qed.

Lemma rdo_f_cons_neq {A} (a : A) l : l <> a :: l.
Proof. intros H. apply (f_equal (@length A)) in H. simpl in H. lia. Qed.

Lemma rdo_f_after_txn_undo_sorted s t e' : rdo_rs (rdo_after_txn s t RdoUndoing) = e' :: rdo_rs s ->
  StronglySorted N.lt (rdo_sins e') /\ StronglySorted N.lt (rdo_sdel e').
Proof.
  unfold rdo_after_txn. destruct (negb _); simpl; intros H. apply rdo_f_cons_neq in H. destruct H.
  inversion H; subst; simpl. split; apply rdo_f_asc_ss, rdo_d_sort_asc.
Qed.

Theorem rdo_inverse_law_nested_c : forall cls, rdo_f_lemma_P_c cls -> rdo_f_lemma_R_c cls ->
  forall scope p s0 txns s1,
  rdo_i_steps scope (p ++ [RdoAStep txns]) = true ->
  rdo_run (rdo_state0 scope) p = RdoOk s0 ->
  rdo_act s0 (RdoAStep txns) = RdoOk s1 ->
  length (rdo_us s1) = S (length (rdo_us s0)) ->
  forall e, rdo_us s1 = e :: rdo_us s0 -> cls (rdo_doc s1) (rdo_sins e) (rdo_sdel e) = true ->
  (forall s2 e', rdo_undo s1 = RdoOk (s2, true) -> rdo_rs s2 = [e'] -> cls (rdo_doc s2) (rdo_sins e') (rdo_sdel e') = true) ->
  exists t ch,
    rdo_process (rdo_f_popped s1 (rdo_us s0)) e (rdo_us s0) (rdo_rs s1) = RdoOk (t, ch) /\
    (forall root, rdo_render_root (rdo_st t) root = rdo_render_root (rdo_doc s0) root) /\
    (ch = true ->
     exists s2 e' t3 ch3,
       rdo_undo s1 = RdoOk (s2, true) /\ rdo_us s2 = rdo_us s0 /\ rdo_rs s2 = [e'] /\
       (forall root, rdo_render_root (rdo_doc s2) root = rdo_render_root (rdo_doc s0) root) /\
       rdo_process (rdo_f_rpopped s2 []) e' [] (rdo_us s2) = RdoOk (t3, ch3) /\
       (forall root, rdo_render_root (rdo_st t3) root = rdo_render_root (rdo_doc s1) root) /\
       (ch3 = true -> exists s3 e'', rdo_redo_call s2 = RdoOk (s3, true) /\ rdo_rs s3 = [] /\ rdo_us s3 = e'' :: rdo_us s0 /\
                                 forall root, rdo_render_root (rdo_doc s3) root = rdo_render_root (rdo_doc s1) root)).
Proof.
  intros cls LP LR scope p s0 txns s1 Hs Hrun Hact Len e Us Cl Cl2.
  destruct (rdo_undo_last_step_c cls LP scope p s0 txns s1 Hs Hrun Hact Len e Us Cl) as (t & ch & Rs & PC & SI & SD & Hp & Rt & Hu).
  exists t, ch. repeat (split; [assumption|]). intros Hc. subst ch.
  destruct (Hu eq_refl) as (s2 & U & Us2 & Sc2 & R2).
  assert (E2 : s2 = rdo_after_txn (rdo_f_popped s1 (rdo_us s0)) t RdoUndoing).
  { unfold rdo_undo in U. rewrite Us in U. cbn [length rdo_pop] in U. rewrite Us in U.
    fold (rdo_f_popped s1 (rdo_us s0)) in U. rewrite Hp in U. cbn [rdo_bind] in U. inversion U; auto. }
  pose proof Hs as Hs'. apply rdo_f_steps_app in Hs'. destruct Hs' as [Hs1 Hr].
  destruct (rdo_f_JP_reachable _ _ _ Hs1 Hrun) as (J & Sc). rewrite <- Sc in Hr.
  destruct (rdo_f_step_pc _ _ _ J Hr Hact Len) as (e0 & _ & _ & Sc1 & J1 & _). destruct J1 as (T1 & _).
  pose proof (rdo_f_W_hc _ _ _ (rdo_sins e) (rdo_f_T_W _ _ _ T1)) as HC.
  pose proof (LR (rdo_f_popped s1 (rdo_us s0)) e (rdo_us s0) (rdo_rs s1) t true PC SI SD Cl Hp) as RS.
  destruct (rdo_f_lemma_Q_of_result (rdo_f_popped s1 (rdo_us s0)) e t PC HC RS) as (e' & Rs' & _ & _ & PC' & FR').
  cbv zeta in Rs', PC', FR'.
  destruct (rdo_f_after_txn_undo_sorted _ _ _ Rs') as [SI' SD'].
  rewrite <- E2 in Rs', PC', FR'. simpl in Rs', FR'. rewrite Rs in Rs'.
  pose proof (Cl2 s2 e' U Rs') as Cl'.
  destruct (LP (rdo_f_rpopped s2 []) e' [] (rdo_us s2) PC' SI' SD' Cl') as (t3 & ch3 & Hp3 & Rt3).
  assert (Rt3' : forall root, rdo_render_root (rdo_st t3) root = rdo_render_root (rdo_doc s1) root).
  { intros root. rewrite Rt3. apply FR'. }
  exists s2, e', t3, ch3. repeat (split; [assumption|]).
  intros Hc. subst ch3.
  pose proof (LR (rdo_f_rpopped s2 []) e' [] (rdo_us s2) t3 true PC' SI' SD' Cl' Hp3) as RS3.
  pose proof (rdo_f_result_captured _ _ _ _ _ _ PC' RS3) as Cap. simpl in Cap.
  unfold rdo_redo_call. rewrite Rs'. cbn [length rdo_pop]. rewrite Rs'.
  fold (rdo_f_rpopped s2 []). rewrite Hp3. cbn [rdo_bind].
  eexists. eexists. split; [reflexivity|].
  unfold rdo_after_txn. cbn [rdo_scope rdo_f_rpopped]. rewrite Cap. cbn [negb rdo_rs rdo_us rdo_doc rdo_f_rpopped].
  split; auto. split. rewrite Us2. reflexivity.
  intros root. rewrite rdo_f_keep_all_render. auto.
Qed.
Print Assumptions rdo_inverse_law_nested_c.

(* ---------------------------------------------------------------------------------------------- *)
(* the bridge from the structural description of RedoProofsE.v (rdo_e_result, as of its flat theorems): what is left
   to get rdo_f_result is the legality of the result (r5) and the flag ch.  LAST lemma of the file on purpose: it
   depends on the field names of rdo_e_inv. *)
Lemma rdo_f_result_of_e st n sc I D t (ch : bool) : rdo_e_result st n I D t ->
  rdo_i_wfp (rdo_st t) (rdo_next t) = true -> rdo_i_cascade (rdo_st t) = true -> rdo_i_lastlive (rdo_st t) = true ->
  (forall x, In x (rdo_st t) -> rdo_in_scope (rdo_st t) sc (rdo_id x) = true) ->
  (if ch then rdo_tins t ++ rdo_tdel t <> [] else rdo_tins t ++ rdo_tdel t = []) ->
  rdo_f_result st n sc I D t ch.
Proof.
  intros (dd & V & NDd & Hdd & Fo) Wf Ca Ll Sc Ch. split; auto.
  - change (rdo_f_old n) with (rdo_e_isold n). rewrite Fo. clear. generalize (rdo_i_redo st I D). intros R. induction st; simpl; constructor; auto.
    unfold rdo_f_ro, rdo_e_oldk; simpl. repeat split; auto. intros ->; auto.
  - intros y Hy L. destruct (rdo_e_v_all _ _ _ _ _ V y Hy) as [L2|(j & Hj & Ej)]. lia.
    destruct (rdo_e_v_new _ _ _ _ _ V j Hj) as (x & l & r & G0 & G1).
    pose proof (rdo_b_in_get (rdo_st t) y (rdo_e_v_nd _ _ _ _ _ V) Hy) as Gy. rewrite Ej, G1 in Gy. injection Gy as Ey.
    split. rewrite (rdo_e_v_tins _ _ _ _ _ V), Ej. apply in_map; auto.
    rewrite <- Ey. simpl. auto.
  - intros i Hi. rewrite (rdo_e_v_tins _ _ _ _ _ V) in Hi. apply in_map_iff in Hi. destruct Hi as (j & <- & Hj).
    split. apply (rdo_e_cp_lt n _ _ Hj). destruct (rdo_e_v_new _ _ _ _ _ V j Hj) as (x & l & r & _ & G1).
    eapply rdo_a_get_ids'; eauto.
  - intros i. rewrite (rdo_e_v_tdel _ _ _ _ _ V). apply Hdd.
Qed.
Print Assumptions rdo_f_result_of_e.


(* ============================================================================================== *)
(* SECTION G *)
From Coq Require Import List NArith Bool.
Import ListNotations.

Open Scope N_scope.

(* THEOREM 3, intended statement - FALSE for map entries below a re-created container:
     forall scope p s0 other s s' b i x,
       rdo_run (rdo_state0 scope) p = RdoOk s0 -> rdo_act s0 (RdoAOther other) = RdoOk s ->
       rdo_get (rdo_doc s0) i = None -> rdo_get (rdo_doc s) i = Some x -> rdo_del x = false ->   (i was inserted by another origin)
       rdo_undo s = RdoOk (s', b) ->                                                              (or rdo_redo_call, or later calls)
       (every ancestor item of i is alive in rdo_doc s') ->
       exists x', rdo_get (rdo_doc s') i = Some x' /\ rdo_del x' = false.
   The positive part that holds is proved in section B: rdo_items_persist / rdo_foreign_order_kept (order), rdo_kill_set
   (what a call can delete), rdo_foreign_seq_survives (sequence elements).  Replayed on the real code:
   yrs/tests/rdo_nested.rs, test rdo_foreign_entry_overwritten. *)
Theorem rdo_foreign_items_survive_refuted :
  exists (p : list rdo_action) (other : list rdo_op) (i par : N) (s0 s s' : rdo_state) (b : bool),
    rdo_run (rdo_state0 [0;1]) p = RdoOk s0 /\
    rdo_act s0 (RdoAOther other) = RdoOk s /\
    rdo_get (rdo_doc s0) i = None /\
    (exists x, rdo_get (rdo_doc s) i = Some x /\ rdo_del x = false /\ rdo_par x = RdoItem par) /\
    rdo_undo s = RdoOk (s', b) /\
    (exists x', rdo_get (rdo_doc s') i = Some x' /\ rdo_del x' = true) /\
    (exists c n, rdo_get (rdo_doc s') par = Some c /\ rdo_del c = false /\ rdo_par c = RdoRoot n).
Proof.
  exists [ RdoAStep [[RdoOSet 1 [] 0 (RdoType 1)]];
           RdoAStep [[RdoOSet 1 [RdoKey 0] 1 (RdoVal 11)]];
           RdoAStep [[RdoORem 1 [RdoKey 0] 1]];
           RdoAStep [[RdoORem 1 [] 0]];
           RdoAUndo ].
  exists [RdoOSet 1 [RdoKey 0] 1 (RdoVal 99)], 3, 2.
  eexists. eexists. eexists. eexists.
  split; [vm_compute; reflexivity|].
  split; [vm_compute; reflexivity|].
  split; [vm_compute; reflexivity|].
  split; [eexists; split; [vm_compute; reflexivity|split; reflexivity]|].
  split; [vm_compute; reflexivity|].
  split; [eexists; split; [vm_compute; reflexivity|reflexivity]|].
  eexists; eexists; split; [vm_compute; reflexivity|split; reflexivity].
Qed.
Print Assumptions rdo_foreign_items_survive_refuted.

(* ---------------------------------------------------------------------------------------------- *)
(* THEOREM 2, partial, CLOSED form (no premises left): histories `capture steps ; undo ; redo`, all calls on
   roots of the scope, for entries of the class rdo_d2_cls_union (the entry re-creates at most one item, or
   only sequence items whose parents are not re-created themselves).
   Glue of: section F (effect of a step, invariant J, assembly, Lemma Q from Lemma R), section E (Lemma R in
   general, Lemma P for one re-created item), section D2 (Lemma P for several sequence items), section D. *)
From Coq Require Import Sorted.


Lemma rdo_g_lemma_R : forall cls, rdo_f_lemma_R_c cls.
Proof.
  intros cls s e s1 s2 t ch Hpc _ Hsd _ Hp.
  destruct (rdo_e_lemma_R s e s1 s2 t ch Hpc Hsd Hp) as (A & B & C & D & E & F).
  eapply rdo_f_result_of_e; eauto.
Qed.

Lemma rdo_g_lemma_P : rdo_f_lemma_P_c rdo_d2_cls_union.
Proof.
  intros s e s1 s2 Hpc _ Hsd Hc. eapply rdo_d2_lemma_P_union_partial; eauto.
Qed.

(* undoing the last captured step shows the content the scope had before it *)
Theorem rdo_undo_last_step_closed_partial :
  forall scope p s0 txns s1,
  rdo_i_steps scope (p ++ [RdoAStep txns]) = true ->
  rdo_run (rdo_state0 scope) p = RdoOk s0 ->
  rdo_act s0 (RdoAStep txns) = RdoOk s1 ->
  length (rdo_us s1) = S (length (rdo_us s0)) ->
  forall e, rdo_us s1 = e :: rdo_us s0 -> rdo_d2_cls_union (rdo_doc s1) (rdo_sins e) (rdo_sdel e) = true ->
  exists t ch, rdo_rs s1 = [] /\
    rdo_i_pc (rdo_doc s1) (rdo_clock s1) (rdo_scope s1) (rdo_sins e) (rdo_sdel e) = true /\
    StronglySorted N.lt (rdo_sins e) /\ StronglySorted N.lt (rdo_sdel e) /\
    rdo_process (rdo_f_popped s1 (rdo_us s0)) e (rdo_us s0) (rdo_rs s1) = RdoOk (t, ch) /\
    (forall root, rdo_render_root (rdo_st t) root = rdo_render_root (rdo_doc s0) root) /\
    (ch = true -> exists s2, rdo_undo s1 = RdoOk (s2, true) /\ rdo_us s2 = rdo_us s0 /\ rdo_scope s2 = scope /\
                             forall root, rdo_render_root (rdo_doc s2) root = rdo_render_root (rdo_doc s0) root).
Proof. exact (rdo_undo_last_step_c rdo_d2_cls_union rdo_g_lemma_P). Qed.
Print Assumptions rdo_undo_last_step_closed_partial.

(* ... and redoing it shows the content after it *)
Theorem rdo_inverse_law_nested_steps_partial :
  forall scope p s0 txns s1,
  rdo_i_steps scope (p ++ [RdoAStep txns]) = true ->
  rdo_run (rdo_state0 scope) p = RdoOk s0 ->
  rdo_act s0 (RdoAStep txns) = RdoOk s1 ->
  length (rdo_us s1) = S (length (rdo_us s0)) ->
  forall e, rdo_us s1 = e :: rdo_us s0 -> rdo_d2_cls_union (rdo_doc s1) (rdo_sins e) (rdo_sdel e) = true ->
  (forall s2 e', rdo_undo s1 = RdoOk (s2, true) -> rdo_rs s2 = [e'] -> rdo_d2_cls_union (rdo_doc s2) (rdo_sins e') (rdo_sdel e') = true) ->
  exists t ch,
    rdo_process (rdo_f_popped s1 (rdo_us s0)) e (rdo_us s0) (rdo_rs s1) = RdoOk (t, ch) /\
    (forall root, rdo_render_root (rdo_st t) root = rdo_render_root (rdo_doc s0) root) /\
    (ch = true ->
     exists s2 e' t3 ch3,
       rdo_undo s1 = RdoOk (s2, true) /\ rdo_us s2 = rdo_us s0 /\ rdo_rs s2 = [e'] /\
       (forall root, rdo_render_root (rdo_doc s2) root = rdo_render_root (rdo_doc s0) root) /\
       rdo_process (rdo_f_rpopped s2 []) e' [] (rdo_us s2) = RdoOk (t3, ch3) /\
       (forall root, rdo_render_root (rdo_st t3) root = rdo_render_root (rdo_doc s1) root) /\
       (ch3 = true -> exists s3 e'', rdo_redo_call s2 = RdoOk (s3, true) /\ rdo_rs s3 = [] /\ rdo_us s3 = e'' :: rdo_us s0 /\
                                 forall root, rdo_render_root (rdo_doc s3) root = rdo_render_root (rdo_doc s1) root)).
Proof. exact (rdo_inverse_law_nested_c rdo_d2_cls_union rdo_g_lemma_P (rdo_g_lemma_R _)). Qed.
Print Assumptions rdo_inverse_law_nested_steps_partial.


(* ============================================================================================== *)
(* SECTION C *)
(* RedoProofsC.v - refinement: on FLAT histories (root 0 used as a sequence and as a map, value content only)
   the nested model Redo.v agrees with the flat model Crdt/Undo.v.
   TESTED (RedoProofsCTest.v, Examples rdo_c_test_small6 / rdo_c_test_big3 / rdo_c_test_other4, vm_compute, about 4 min): along
   every program of `universe` (UndoProofs.v) and along programs with AOther and multi-transaction steps, the nested run
   never fails and after EVERY action (AUndo / ARedo included): seqc = chain of root 0, chain_of k = chain of key k (item by
   item: id, token, deleted, redone), unext = clock, both stacks equal.  The relation rdo_c_R below is the tested one.
   PROVED here (unbounded, Qed, closed):
     rdo_c_R0                           the relation holds initially
     rdo_flat_render                    the relation determines the observable (visible sequence, value of every key)
     rdo_refines_flat_call_partial      call level, ALL FOUR calls (CIns / CDel / CSet / CRem): rdo_op_apply agrees with do_call
                                        on the document, insert_set and delete_set (CIns / CSet go through rdo_integrate:
                                        no conflict, linked between left and right / behind the last entry, which is deleted)
     rdo_refines_flat_txn_partial       transaction level, all transactions: rdo_ops_apply agrees with do_txn
     rdo_c_tracked_txn                  rdo_tracked_txn (rdo_after_txn, mode Normal): captured iff the effects are non-empty,
                                        push / merge into the top entry according to rdo_ext, keep flags are not observed
     rdo_c_act_step / rdo_c_act_other   rdo_act for RdoAStep (vs tracked_step, merging of the transactions of a step through
                                        rdo_ext) and for RdoAOther (vs other_txn)
     rdo_refines_flat_partial           C1 for the actions AStep and AOther
     rdo_refines_flat_run_partial, rdo_refines_flat_run0_partial   its corollaries for programs of such actions
     towards AUndo / ARedo (building blocks, each Qed):
       rdo_c_all_items, rdo_c_ufind     all_items of the flat state = the items of the store; ufind = rdo_get
       rdo_c_follow_total_partial       redone pointers to larger ids: rdo_follow (S (length st)) never runs out of fuel
       rdo_c_lloop_flat_partial, rdo_c_rloop_flat_partial   the redone-tracing loops stop at once on a flat store
       rdo_c_redo_seq_partial           rdo_redo of a sequence unit without copy = redo_in_seq (copy right in front of it),
                                        insert_set += [clock], delete_set unchanged
       rdo_c_redo_item_seq_partial      redo_item on such a unit takes the sequence case with the same effects
       rdo_c_redo_done_partial          a unit that has a copy already: both models return that copy, nothing changes
       rdo_c_follow_agree_partial       rdo_follow and ufollow (on all_items) agree for equal fuel
       rdo_c_to_delete_partial          the to_delete list of try_process (insertions resolved through their copies) is the same
                                        (hypotheses: redone pointers exist and lead to larger ids)
       rdo_c_delete_id_partial          rdo_txn_delete vs delete_id (document and delete_set)
       rdo_c_after_pop_partial          rdo_after_txn in the modes RdoUndoing / RdoRedoing: an entry is pushed on the other
                                        stack iff the transaction has effects; the document part of the relation is kept
       rdo_c_delete_fold_partial        the deletion loop of try_process: fold of rdo_txn_delete vs fold of delete_id; the
                                        delete_set grows by exactly the ids that were live (`newly` of uprocess)
   MISSING for C1 / C2: the actions AUndo / ARedo, i.e. the MAP case of rdo_redo vs redo_item (rdo_mwalk / rdo_mfollow vs
   walk_right / ufollow, then rdo_c_integrate_set_last on the store with the redone pointer set; the `gone` list of redo_item
   = the delete_set of that integration), the assembly of rdo_process vs uprocess from the blocks above (redo fold,
   to_delete, deletion fold, `changed`; `changed = false` implies no effects), rdo_pop vs pop_undo / pop_redo.  These need a stronger relation: redone pointers exist, point
   to a larger id in the same chain (so the fuel S (length st) suffices: the number of items with a larger id decreases), the
   ids of stack entries exist, map chains have increasing ids.  Then C1 (rdo_refines_flat) for all actions and C2 (transfer of
   inverse_law_holds; additionally: equal `cont` <-> equal rdo_render on related states, keys first-use order vs ascending). *)
From Coq Require Import List NArith Bool Lia Permutation. Import ListNotations.
From YV Require Import Crdt.Undo Crdt.UndoSpec Crdt.UndoProofs.
 Open Scope N_scope.

(* ---------------------------------------------------------------------------------------------- *)
(* embedding and abstraction *)

Definition rdo_c_call (c : ucall) : rdo_op :=
  match c with
  | CIns pos v => RdoOIns 0 [] pos (RdoVal v)
  | CDel pos => RdoODel 0 [] pos
  | CSet k v => RdoOSet 0 [] k (RdoVal v)
  | CRem k => RdoORem 0 [] k
  end.
Definition rdo_c_action (a : uaction) : rdo_action :=
  match a with
  | AStep txns => RdoAStep (map (map rdo_c_call) txns)
  | AOther cs => RdoAOther (map rdo_c_call cs)
  | AUndo => RdoAUndo
  | ARedo => RdoARedo
  end.
Definition rdo_c_tok (c : rdo_content) : N := match c with RdoVal v => v | RdoType k => k end.
Definition rdo_c_item (x : rdo_item) : uitem := mk (rdo_id x) (rdo_c_tok (rdo_cnt x)) (rdo_del x) (rdo_red x).
Definition rdo_c_chain (st : list rdo_item) (sub : option N) : list uitem := map rdo_c_item (rdo_chain st (RdoRoot 0) sub).
Definition rdo_c_sitem (e : rdo_sitem) : stackitem := {| st_ins := rdo_sins e; st_del := rdo_sdel e |}.

(* the abstraction function (keys in ascending order; the flat model keeps them in first-use order, so the
   relation below is stated per key, through chain_of) *)
Definition rdo_c_abs (s : rdo_state) : ustate :=
  {| seqc := rdo_c_chain (rdo_doc s) None;
     mapc := map (fun k => (k, rdo_c_chain (rdo_doc s) (Some k))) (rdo_keys (rdo_doc s) (RdoRoot 0));
     unext := rdo_clock s;
     ustack := map rdo_c_sitem (rdo_us s);
     rstack := map rdo_c_sitem (rdo_rs s) |}.

(* flat stores: every item is a value below root 0 *)
Definition rdo_c_flat (st : list rdo_item) : Prop :=
  forall x, In x st -> rdo_par x = RdoRoot 0 /\ exists v, rdo_cnt x = RdoVal v.

(* document part of the relation: flat document u  ~  nested store st with next clock nx *)
Definition rdo_c_D (u : ustate) (st : list rdo_item) (nx : N) : Prop :=
  rdo_c_flat st /\ NoDup (map rdo_id st) /\ (forall x, In x st -> rdo_id x < nx) /\
  seqc u = rdo_c_chain st None /\ (forall k, chain_of (mapc u) k = rdo_c_chain st (Some k)) /\ unext u = nx.

(* the full relation (tested along programs by the rdo_c_test examples in RedoProofsCTest.v) *)
Definition rdo_c_R (u : ustate) (s : rdo_state) : Prop :=
  rdo_c_D u (rdo_doc s) (rdo_clock s) /\ NoDup (keys_of u) /\ rdo_scope s = [0] /\
  ustack u = map rdo_c_sitem (rdo_us s) /\ rstack u = map rdo_c_sitem (rdo_rs s).

Lemma rdo_c_R0 : rdo_c_R ustate0 (rdo_state0 [0]).
Proof.
  repeat split; cbn; try constructor; intros; try contradiction; reflexivity.
Qed.
Print Assumptions rdo_c_R0.

(* ---------------------------------------------------------------------------------------------- *)
(* store lemmas *)

Lemma rdo_c_get_in st : forall i y, rdo_get st i = Some y -> In y st /\ rdo_id y = i.
Proof.
  induction st as [| z r IH]; cbn; intros i y H; [discriminate |].
  destruct (rdo_id z =? i) eqn:E.
  - inversion H; subst. apply N.eqb_eq in E. auto.
  - apply IH in H. tauto.
Qed.

Lemma rdo_c_get_of_in st : NoDup (map rdo_id st) -> forall y, In y st -> rdo_get st (rdo_id y) = Some y.
Proof.
  induction st as [| z r IH]; cbn; intros ND y H; [contradiction |].
  inversion ND as [| ? ? NI ND']; subst.
  destruct H as [-> | H].
  - rewrite N.eqb_refl. reflexivity.
  - destruct (rdo_id z =? rdo_id y) eqn:E.
    + apply N.eqb_eq in E. exfalso. apply NI. rewrite E. apply in_map. exact H.
    + auto.
Qed.

Lemma rdo_c_chain_in st par sub y : In y (rdo_chain st par sub) <-> In y st /\ rdo_in_chain par sub y = true.
Proof. unfold rdo_chain. apply filter_In. Qed.

Lemma rdo_c_nodup_filter (f : rdo_item -> bool) st : NoDup (map rdo_id st) -> NoDup (map rdo_id (filter f st)).
Proof.
  induction st as [| z r IH]; cbn; intros ND; [constructor |].
  inversion ND as [| ? ? NI ND']; subst.
  destruct (f z); cbn; auto. constructor; auto.
  intros H. apply NI. apply in_map_iff in H. destruct H as (w & E & Hw). apply filter_In in Hw.
  rewrite <- E. apply in_map. tauto.
Qed.

(* update of one item that stays in its chain *)
Lemma rdo_c_chain_update st i f par sub :
  (forall y, rdo_in_chain par sub (f y) = rdo_in_chain par sub y) ->
  rdo_chain (rdo_update st i f) par sub =
  match rdo_get st i with
  | Some y => if rdo_in_chain par sub y then rdo_update (rdo_chain st par sub) i f else rdo_chain st par sub
  | None => rdo_chain st par sub
  end.
Proof.
  intros Hf. unfold rdo_chain. induction st as [| z r IH]; cbn; [reflexivity |].
  destruct (rdo_id z =? i) eqn:E; cbn.
  - rewrite Hf. destruct (rdo_in_chain par sub z) eqn:C; cbn; [rewrite E |]; reflexivity.
  - rewrite IH. destruct (rdo_in_chain par sub z) eqn:C; cbn.
    + destruct (rdo_get r i) as [y |]; [| reflexivity]. destruct (rdo_in_chain par sub y); [rewrite E |]; reflexivity.
    + reflexivity.
Qed.

Lemma rdo_c_update_ids st i f : (forall y, rdo_id (f y) = rdo_id y) -> map rdo_id (rdo_update st i f) = map rdo_id st.
Proof.
  intros Hf. induction st as [| z r IH]; cbn; [reflexivity |].
  destruct (rdo_id z =? i); cbn; [rewrite Hf | rewrite IH]; reflexivity.
Qed.

Lemma rdo_c_update_in st i f x : In x (rdo_update st i f) -> In x st \/ exists y, In y st /\ x = f y.
Proof.
  induction st as [| z r IH]; cbn; [tauto |].
  destruct (rdo_id z =? i); cbn; intros [<- | H]; eauto.
  apply IH in H. destruct H as [H | (y & H & E)]; eauto.
Qed.

Lemma rdo_c_update_notin st i f : ~ In i (map rdo_id st) -> rdo_update st i f = st.
Proof.
  induction st as [| z r IH]; cbn; intros H; [reflexivity |].
  destruct (rdo_id z =? i) eqn:E.
  - apply N.eqb_eq in E. tauto.
  - rewrite IH; tauto.
Qed.

Lemma rdo_c_update_app_last c y f : ~ In (rdo_id y) (map rdo_id c) ->
  rdo_update (c ++ [y]) (rdo_id y) f = c ++ [f y].
Proof.
  induction c as [| z r IH]; cbn; intros H.
  - rewrite N.eqb_refl. reflexivity.
  - destruct (rdo_id z =? rdo_id y) eqn:E.
    + apply N.eqb_eq in E. tauto.
    + rewrite IH; tauto.
Qed.

(* ---------------------------------------------------------------------------------------------- *)
(* deletion of a value item *)

Lemma rdo_c_txn_delete_val t i y v :
  rdo_get (rdo_st t) i = Some y -> rdo_cnt y = RdoVal v ->
  rdo_txn_delete t i =
  RdoOk (if rdo_del y then {| rdo_st := rdo_st t; rdo_next := rdo_next t; rdo_tins := rdo_tins t; rdo_tdel := rdo_tdel t ++ [] |}
         else {| rdo_st := rdo_update (rdo_st t) i rdo_set_del; rdo_next := rdo_next t; rdo_tins := rdo_tins t; rdo_tdel := rdo_tdel t ++ [i] |}).
Proof.
  intros G C. unfold rdo_txn_delete. cbn [rdo_delete]. rewrite G. destruct (rdo_del y); [reflexivity |].
  rewrite C. reflexivity.
Qed.

Lemma rdo_c_set_del_chain par sub y : rdo_in_chain par sub (rdo_set_del y) = rdo_in_chain par sub y.
Proof. reflexivity. Qed.

Lemma rdo_c_flat_update st i f : rdo_c_flat st -> (forall y, rdo_par (f y) = rdo_par y /\ rdo_cnt (f y) = rdo_cnt y) ->
  rdo_c_flat (rdo_update st i f).
Proof.
  intros F Hf x Hx. apply rdo_c_update_in in Hx. destruct Hx as [Hx | (y & Hy & ->)]; [auto |].
  destruct (Hf y) as [-> ->]. auto.
Qed.

(* flat list operations on a mapped chain *)
Lemma rdo_c_delete_visible c : NoDup (map rdo_id c) -> forall pos,
  delete_visible (map rdo_c_item c) pos =
  match nth_error (rdo_live c) pos with
  | Some y => (map rdo_c_item (rdo_update c (rdo_id y) rdo_set_del), Some (rdo_id y))
  | None => (map rdo_c_item c, None)
  end.
Proof.
  induction c as [| z r IH]; intros ND pos; cbn.
  - destruct pos; reflexivity.
  - inversion ND as [| ? ? NI ND']; subst. unfold rdo_live in *. cbn.
    destruct (rdo_del z) eqn:Dz; cbn.
    + rewrite IH by assumption. destruct (nth_error (filter _ r) pos) as [y |] eqn:Ny; [| reflexivity].
      apply nth_error_In, filter_In in Ny.
      destruct (rdo_id z =? rdo_id y) eqn:E; [| reflexivity].
      apply N.eqb_eq in E. exfalso. apply NI. rewrite E. apply in_map. tauto.
    + destruct pos as [| p]; cbn.
      * rewrite N.eqb_refl. cbn. unfold rdo_c_item, set_del, mk; cbn. reflexivity.
      * rewrite IH by assumption. destruct (nth_error (filter _ r) p) as [y |] eqn:Ny; [| reflexivity].
        apply nth_error_In, filter_In in Ny.
        destruct (rdo_id z =? rdo_id y) eqn:E; [| reflexivity].
        apply N.eqb_eq in E. exfalso. apply NI. rewrite E. apply in_map. tauto.
Qed.

Lemma rdo_c_delete_last_app a y : delete_last (a ++ [y]) = if u_del y then (a ++ [y], None) else (a ++ [set_del y], Some (u_id y)).
Proof.
  induction a as [| z r IH]; cbn [app].
  - cbn. destruct (u_del y); reflexivity.
  - destruct r as [| w r'].
    + cbn. destruct (u_del y); reflexivity.
    + change (delete_last (z :: (w :: r') ++ [y])) with (let '(r0, o) := delete_last ((w :: r') ++ [y]) in (z :: r0, o)).
      rewrite IH. destruct (u_del y); reflexivity.
Qed.

Lemma rdo_c_rev_cases {A} (l : list A) : l = [] \/ exists a y, l = a ++ [y].
Proof. destruct (rev l) eqn:E. - left. rewrite <- (rev_involutive l), E. reflexivity.
  - right. exists (rev l0), a. rewrite <- (rev_involutive l), E. reflexivity. Qed.

Lemma rdo_c_on_eqb_eq a b : rdo_on_eqb a b = true -> a = b.
Proof. destruct a, b; cbn; intros H; try discriminate; try reflexivity. apply N.eqb_eq in H. congruence. Qed.
Lemma rdo_c_on_eqb_refl a : rdo_on_eqb a a = true.
Proof. destruct a; cbn; [apply N.eqb_refl | reflexivity]. Qed.

Lemma rdo_c_in_chain_other s1 s2 y : rdo_in_chain (RdoRoot 0) s1 y = true ->
  rdo_in_chain (RdoRoot 0) s2 y = rdo_on_eqb s1 s2.
Proof.
  unfold rdo_in_chain. intros H. apply andb_prop in H. destruct H as [P S]. rewrite P. cbn.
  apply rdo_c_on_eqb_eq in S. rewrite S. reflexivity.
Qed.

Lemma rdo_c_chain_of_set m k c : forall k', chain_of (set_chain m k c) k' = if k =? k' then c else chain_of m k'.
Proof.
  induction m as [| [k0 c0] r IH]; intros k'; cbn.
  - destruct (k =? k'); reflexivity.
  - destruct (k0 =? k) eqn:E; cbn.
    + apply N.eqb_eq in E. subst. destruct (k =? k'); reflexivity.
    + rewrite IH. destruct (k0 =? k') eqn:E2; [| reflexivity].
      apply N.eqb_eq in E2. subst. rewrite N.eqb_sym, E. reflexivity.
Qed.

Lemma rdo_c_D_delete u st nx y sub0 u' :
  rdo_c_D u st nx -> In y st -> rdo_in_chain (RdoRoot 0) sub0 y = true ->
  unext u' = unext u ->
  (seqc u' = if rdo_on_eqb sub0 None then map rdo_c_item (rdo_update (rdo_chain st (RdoRoot 0) None) (rdo_id y) rdo_set_del) else seqc u) ->
  (forall k, chain_of (mapc u') k = if rdo_on_eqb sub0 (Some k)
                                    then map rdo_c_item (rdo_update (rdo_chain st (RdoRoot 0) (Some k)) (rdo_id y) rdo_set_del)
                                    else chain_of (mapc u) k) ->
  rdo_c_D u' (rdo_update st (rdo_id y) rdo_set_del) nx.
Proof.
  intros (F & ND & LT & HS & HM & HN) Hy C EN ES EM.
  pose proof (rdo_c_get_of_in st ND y Hy) as G.
  split; [| split; [| split; [| split; [| split]]]].
  - apply rdo_c_flat_update; auto.
  - rewrite rdo_c_update_ids; auto.
  - intros x Hx. apply rdo_c_update_in in Hx. destruct Hx as [Hx | (z & Hz & ->)]; cbn; auto.
  - rewrite ES. unfold rdo_c_chain. rewrite rdo_c_chain_update by (intros; reflexivity). rewrite G.
    rewrite (rdo_c_in_chain_other sub0 None y C). destruct (rdo_on_eqb sub0 None); auto.
  - intros k. rewrite EM. unfold rdo_c_chain. rewrite rdo_c_chain_update by (intros; reflexivity). rewrite G.
    rewrite (rdo_c_in_chain_other sub0 (Some k) y C). destruct (rdo_on_eqb sub0 (Some k)); auto. apply HM.
  - congruence.
Qed.

Lemma rdo_c_D_ext u u' st nx : rdo_c_D u st nx -> seqc u' = seqc u -> (forall k, chain_of (mapc u') k = chain_of (mapc u) k) ->
  unext u' = unext u -> rdo_c_D u' st nx.
Proof.
  intros (F & ND & LT & HS & HM & HN) E1 E2 E3. split; [| split; [| split; [| split; [| split]]]]; auto; try congruence.
  all: try (intros k; rewrite E2; apply HM).
Qed.
Ltac rdo_c_fin := cbn; rewrite ?app_nil_r; split; [| repeat split; auto].
(* the statement of the call level *)
Definition rdo_c_call_ok (u : ustate) (t : rdo_txn) (c : ucall) : Prop :=
  exists t', rdo_op_apply t (rdo_c_call c) = RdoOk t' /\
             rdo_c_D (fst (do_call u c)) (rdo_st t') (rdo_next t') /\
             rdo_tins t' = rdo_tins t ++ e_ins (snd (do_call u c)) /\
             rdo_tdel t' = rdo_tdel t ++ e_del (snd (do_call u c)) /\
             ustack (fst (do_call u c)) = ustack u /\ rstack (fst (do_call u c)) = rstack u.

Lemma rdo_c_call_del u t pos : rdo_c_D u (rdo_st t) (rdo_next t) -> rdo_c_call_ok u t (CDel pos).
Proof.
  intros D. pose proof D as (F & ND & LT & HS & HM & HN).
  unfold rdo_c_call_ok. cbn [rdo_c_call rdo_op_apply rdo_resolve do_call].
  rewrite HS. unfold rdo_c_chain. rewrite rdo_c_delete_visible by (apply rdo_c_nodup_filter; exact ND).
  destruct (nth_error (rdo_live (rdo_chain (rdo_st t) (RdoRoot 0) None)) pos) as [y |] eqn:Ny.
  - pose proof (nth_error_In _ _ Ny) as Hy. apply filter_In in Hy. destruct Hy as [Hy Lv].
    apply rdo_c_chain_in in Hy. destruct Hy as [Hy C].
    destruct (F y Hy) as (_ & v & Cv).
    rewrite (rdo_c_txn_delete_val t (rdo_id y) y v (rdo_c_get_of_in _ ND y Hy) Cv).
    apply negb_true_iff in Lv. rewrite Lv.
    eexists. split; [reflexivity |]. rdo_c_fin.
    eapply rdo_c_D_delete with (sub0 := None); eauto.
  - eexists. split; [reflexivity |]. rdo_c_fin. eapply rdo_c_D_ext; [exact D | ..]; cbn; auto.
Qed.

Lemma rdo_c_item_set_del y : rdo_c_item (rdo_set_del y) = set_del (rdo_c_item y).
Proof. reflexivity. Qed.

Lemma rdo_c_call_rem u t k : rdo_c_D u (rdo_st t) (rdo_next t) -> rdo_c_call_ok u t (CRem k).
Proof.
  intros D. pose proof D as (F & ND & LT & HS & HM & HN).
  unfold rdo_c_call_ok. cbn [rdo_c_call rdo_op_apply rdo_resolve do_call].
  rewrite HM. unfold rdo_c_chain, rdo_entry, rdo_map_get.
  pose proof (rdo_c_nodup_filter (rdo_in_chain (RdoRoot 0) (Some k)) _ ND) as NDc. fold (rdo_chain (rdo_st t) (RdoRoot 0) (Some k)) in NDc.
  destruct (rdo_c_rev_cases (rdo_chain (rdo_st t) (RdoRoot 0) (Some k))) as [E | (a & y & E)]; rewrite E in *.
  - cbn. eexists. split; [reflexivity |]. rdo_c_fin. eapply rdo_c_D_ext; [exact D | ..]; cbn; auto.
  - assert (Hy : In y (rdo_chain (rdo_st t) (RdoRoot 0) (Some k))) by (rewrite E; apply in_or_app; right; left; reflexivity).
    apply rdo_c_chain_in in Hy. destruct Hy as [Hy C].
    rewrite rev_app_distr. cbn [rev app hd_error option_map].
    rewrite (rdo_c_get_of_in _ ND y Hy).
    rewrite map_app. cbn [map]. rewrite rdo_c_delete_last_app. cbn [u_del rdo_c_item mk].
    destruct (rdo_del y) eqn:Dy.
    + eexists. split; [reflexivity |]. rdo_c_fin. eapply rdo_c_D_ext; [exact D | ..]; cbn; auto.
    + destruct (F y Hy) as (_ & v & Cv).
      rewrite (rdo_c_txn_delete_val t (rdo_id y) y v (rdo_c_get_of_in _ ND y Hy) Cv). rewrite Dy.
      eexists. split; [reflexivity |]. rdo_c_fin.
      eapply rdo_c_D_delete with (sub0 := Some k); eauto.
      intros k'. cbn [mapc]. rewrite rdo_c_chain_of_set. cbn [rdo_on_eqb].
      destruct (k =? k') eqn:Ek; [| reflexivity].
      apply N.eqb_eq in Ek. subst k'. rewrite E.
      rewrite map_app in NDc. cbn in NDc. apply NoDup_remove_2 in NDc. rewrite app_nil_r in NDc.
      rewrite rdo_c_update_app_last by exact NDc. rewrite map_app. reflexivity.
Qed.

(* ---------------------------------------------------------------------------------------------- *)
(* call level, PARTIAL: proved for the deleting calls (CDel, CRem).  CIns / CSet go through rdo_integrate
   (rdo_detect_conflict, rdo_link, rdo_right) and are only TESTED (RedoProofsCTest.v). *)
Definition rdo_c_deleting (c : ucall) : bool := match c with CDel _ | CRem _ => true | _ => false end.

Theorem rdo_c_call_deleting : forall u t c,
  rdo_c_deleting c = true -> rdo_c_D u (rdo_st t) (rdo_next t) -> rdo_c_call_ok u t c.
Proof.
  intros u t [pos v | pos | k v | k] H D; try discriminate.
  - apply rdo_c_call_del; exact D.
  - apply rdo_c_call_rem; exact D.
Qed.
Print Assumptions rdo_c_call_deleting.

(* transaction level, relative to the call level: for a class P of calls for which the call level holds,
   a transaction made of such calls agrees with do_txn (document, insert_set, delete_set) *)
Definition rdo_c_txnf (acc : ustate * ueff) (c : ucall) : ustate * ueff :=
  let '(s1, e1) := acc in let '(s2, e2) := do_call s1 c in (s2, eff_app e1 e2).

Lemma rdo_c_txn_fold (P : ucall -> Prop) :
  (forall u t c, P c -> rdo_c_D u (rdo_st t) (rdo_next t) -> rdo_c_call_ok u t c) ->
  forall I0 D0 cs u e t, (forall c, In c cs -> P c) -> rdo_c_D u (rdo_st t) (rdo_next t) ->
  rdo_tins t = I0 ++ e_ins e -> rdo_tdel t = D0 ++ e_del e ->
  exists t', rdo_ops_apply t (map rdo_c_call cs) = RdoOk t' /\
             rdo_c_D (fst (fold_left rdo_c_txnf cs (u, e))) (rdo_st t') (rdo_next t') /\
             rdo_tins t' = I0 ++ e_ins (snd (fold_left rdo_c_txnf cs (u, e))) /\
             rdo_tdel t' = D0 ++ e_del (snd (fold_left rdo_c_txnf cs (u, e))) /\
             ustack (fst (fold_left rdo_c_txnf cs (u, e))) = ustack u /\
             rstack (fst (fold_left rdo_c_txnf cs (u, e))) = rstack u.
Proof.
  intros HP I0 D0 cs. induction cs as [| c r IH]; intros u e t HC D EI ED.
  - exists t. cbn. repeat (split; [solve [auto] |]). reflexivity.
  - cbn [map rdo_ops_apply fold_left].
    destruct (HP u t c (HC c (or_introl eq_refl)) D) as (t1 & A & D1 & I1 & DD1 & U1 & R1).
    rewrite A. cbn [rdo_bind]. unfold rdo_c_txnf at 2 4 6 8 10. 
    destruct (do_call u c) as [u2 e2] eqn:Ec. cbn [fst snd] in *.
    destruct (IH u2 (eff_app e e2) t1) as (t' & A' & D' & I' & DD' & U' & R').
    + intros c' Hc'. apply HC. right. exact Hc'.
    + exact D1.
    + rewrite I1, EI. cbn. rewrite app_assoc. reflexivity.
    + rewrite DD1, ED. cbn. rewrite app_assoc. reflexivity.
    + exists t'. split; [exact A' |]. split; [exact D' |]. split; [exact I' |]. split; [exact DD' |]. split; congruence.
Qed.

Theorem rdo_c_txn_deleting : forall cs u t,
  forallb rdo_c_deleting cs = true -> rdo_c_D u (rdo_st t) (rdo_next t) ->
  exists t', rdo_ops_apply t (map rdo_c_call cs) = RdoOk t' /\
             rdo_c_D (fst (do_txn u cs)) (rdo_st t') (rdo_next t') /\
             rdo_tins t' = rdo_tins t ++ e_ins (snd (do_txn u cs)) /\
             rdo_tdel t' = rdo_tdel t ++ e_del (snd (do_txn u cs)) /\
             ustack (fst (do_txn u cs)) = ustack u /\ rstack (fst (do_txn u cs)) = rstack u.
Proof.
  intros cs u t H D. rewrite forallb_forall in H.
  apply (rdo_c_txn_fold (fun c => rdo_c_deleting c = true)) with (I0 := rdo_tins t) (D0 := rdo_tdel t) (e := eff0); auto.
  - intros; apply rdo_c_call_deleting; auto.
  - cbn. rewrite app_nil_r. reflexivity.
  - cbn. rewrite app_nil_r. reflexivity.
Qed.
Print Assumptions rdo_c_txn_deleting.

(* ---------------------------------------------------------------------------------------------- *)
(* the relation determines the observable *)
Definition rdo_c_val (x : rdo_item) : N := rdo_c_tok (rdo_cnt x).

Lemma rdo_c_uvisible c : uvisible (map rdo_c_item c) = map rdo_c_val (rdo_live c).
Proof.
  unfold uvisible, rdo_live. induction c as [| z r IH]; cbn; [reflexivity |].
  destruct (rdo_del z); cbn; [exact IH | rewrite IH; reflexivity].
Qed.

Theorem rdo_flat_render : forall u s, rdo_c_R u s ->
  uvisible (seqc u) = map rdo_c_val (rdo_live (rdo_chain (rdo_doc s) (RdoRoot 0) None)) /\
  forall k, umap_value (mapc u) k = option_map rdo_c_val (rdo_entry (rdo_doc s) (RdoRoot 0) k).
Proof.
  intros u s ((F & ND & LT & HS & HM & HN) & _). split.
  - rewrite HS. apply rdo_c_uvisible.
  - intros k. unfold umap_value, rdo_entry, rdo_map_get. rewrite HM. unfold rdo_c_chain.
    destruct (rdo_c_rev_cases (rdo_chain (rdo_doc s) (RdoRoot 0) (Some k))) as [E | (a & y & E)]; rewrite E.
    + reflexivity.
    + assert (Hy : In y (rdo_chain (rdo_doc s) (RdoRoot 0) (Some k))) by (rewrite E; apply in_or_app; right; left; reflexivity).
      apply rdo_c_chain_in in Hy. destruct Hy as [Hy _].
      rewrite map_app, !rev_app_distr. cbn [map rev app hd_error option_map].
      rewrite (rdo_c_get_of_in _ ND y Hy). cbn. destruct (rdo_del y); reflexivity.
Qed.
Print Assumptions rdo_flat_render.

(* ---------------------------------------------------------------------------------------------- *)
(* rdo_integrate on flat stores: Map::insert *)

Lemma rdo_c_split_at pre x a : forall acc, ~ In (rdo_id x) (map rdo_id pre) ->
  rdo_split (pre ++ x :: a) (rdo_id x) acc = Some (rev pre ++ acc, x, a).
Proof.
  induction pre as [| z r IH]; intros acc H; cbn.
  - rewrite N.eqb_refl. reflexivity.
  - cbn in H. destruct (rdo_id z =? rdo_id x) eqn:E.
    + apply N.eqb_eq in E. tauto.
    + rewrite IH by tauto. rewrite <- app_assoc. reflexivity.
Qed.

Lemma rdo_c_right_at pre x a : ~ In (rdo_id x) (map rdo_id pre) ->
  rdo_right (pre ++ x :: a) (rdo_id x) = hd_error (map rdo_id (rdo_chain a (rdo_par x) (rdo_sub x))).
Proof. intros H. unfold rdo_right, rdo_rights. rewrite rdo_c_split_at by exact H. reflexivity. Qed.

Lemma rdo_c_insert_after_at pre y a x : ~ In (rdo_id y) (map rdo_id pre) ->
  rdo_insert_after (pre ++ y :: a) (rdo_id y) x = pre ++ y :: x :: a.
Proof.
  induction pre as [| z r IH]; intros H; cbn.
  - rewrite N.eqb_refl. reflexivity.
  - cbn in H. destruct (rdo_id z =? rdo_id y) eqn:E.
    + apply N.eqb_eq in E. tauto.
    + rewrite IH by tauto. reflexivity.
Qed.

Lemma rdo_c_update_at pre y a f : ~ In (rdo_id y) (map rdo_id pre) ->
  rdo_update (pre ++ y :: a) (rdo_id y) f = pre ++ f y :: a.
Proof.
  induction pre as [| z r IH]; intros H; cbn.
  - rewrite N.eqb_refl. reflexivity.
  - cbn in H. destruct (rdo_id z =? rdo_id y) eqn:E.
    + apply N.eqb_eq in E. tauto.
    + rewrite IH by tauto. reflexivity.
Qed.

Lemma rdo_c_last_unique l1 (y : rdo_item) l2 c : NoDup (map rdo_id (l1 ++ y :: l2)) -> l1 ++ y :: l2 = c ++ [y] -> l2 = [].
Proof.
  intros ND E. destruct (rdo_c_rev_cases l2) as [-> | (l2' & z & ->)]; [reflexivity |]. exfalso.
  change (l1 ++ y :: l2' ++ [z]) with (l1 ++ (y :: l2') ++ [z]) in E. rewrite app_assoc in E.
  apply app_inj_tail in E. destruct E as [_ ->].
  rewrite map_app in ND. apply NoDup_remove_2 in ND. apply ND. apply in_or_app. right.
  apply (in_map rdo_id (l2' ++ [y]) y). apply in_or_app. right. left. reflexivity.
Qed.

Lemma rdo_c_par_eqb_eq a b : rdo_par_eqb a b = true -> a = b.
Proof. destruct a, b; cbn; intros H; try discriminate; apply N.eqb_eq in H; congruence. Qed.

Lemma rdo_c_in_chain_eq par sub y : rdo_in_chain par sub y = true -> rdo_par y = par /\ rdo_sub y = sub.
Proof.
  unfold rdo_in_chain. intros H. apply andb_prop in H. destruct H as [P S].
  split; [apply rdo_c_par_eqb_eq; exact P | apply rdo_c_on_eqb_eq; exact S].
Qed.

Lemma rdo_c_chain_app l1 l2 par sub : rdo_chain (l1 ++ l2) par sub = rdo_chain l1 par sub ++ rdo_chain l2 par sub.
Proof. unfold rdo_chain. apply filter_app. Qed.

Lemma rdo_c_nodup_pre pre (y : rdo_item) a : NoDup (map rdo_id (pre ++ y :: a)) -> ~ In (rdo_id y) (map rdo_id pre).
Proof.
  intros ND H. rewrite map_app in ND. apply NoDup_remove_2 in ND. apply ND. apply in_or_app. left. exact H.
Qed.

(* empty chain: the entry is put in front of the store *)
Lemma rdo_c_integrate_set_empty t x k :
  rdo_par x = RdoRoot 0 -> rdo_sub x = Some k -> rdo_chain (rdo_st t) (RdoRoot 0) (Some k) = [] ->
  rdo_integrate t x None None =
  RdoOk {| rdo_st := x :: rdo_st t; rdo_next := rdo_next t; rdo_tins := rdo_tins t ++ [rdo_id x]; rdo_tdel := rdo_tdel t |}.
Proof.
  intros P S E. unfold rdo_integrate. cbn [rdo_neighbour_ok andb negb rdo_detect_conflict].
  unfold rdo_resolve_conflict. rewrite P, S, E. cbn [rdo_scan rdo_link].
  assert (R : rdo_right (x :: rdo_st t) (rdo_id x) = None).
  { pose proof (rdo_c_right_at [] x (rdo_st t)) as H. cbn [app] in H. rewrite H by (cbn; tauto). rewrite P, S, E. reflexivity. }
  rewrite R. cbn. reflexivity.
Qed.

(* non-empty chain: the entry is linked behind the last entry y, which is then deleted *)
Lemma rdo_c_integrate_set_last t x k pre y a c :
  rdo_par x = RdoRoot 0 -> rdo_sub x = Some k -> rdo_st t = pre ++ y :: a -> NoDup (map rdo_id (rdo_st t)) ->
  ~ In (rdo_id x) (map rdo_id (rdo_st t)) ->
  rdo_chain (rdo_st t) (RdoRoot 0) (Some k) = c ++ [y] ->
  rdo_integrate t x (Some (rdo_id y)) None =
  rdo_txn_delete {| rdo_st := pre ++ y :: x :: a; rdo_next := rdo_next t; rdo_tins := rdo_tins t ++ [rdo_id x]; rdo_tdel := rdo_tdel t |} (rdo_id y)
  /\ rdo_chain a (RdoRoot 0) (Some k) = [] /\ rdo_in_chain (RdoRoot 0) (Some k) y = true.
Proof.
  intros P S E ND FX C.
  assert (Hy : In y (rdo_chain (rdo_st t) (RdoRoot 0) (Some k))) by (rewrite C; apply in_or_app; right; left; reflexivity).
  apply rdo_c_chain_in in Hy. destruct Hy as [Hy Cy].
  destruct (rdo_c_in_chain_eq _ _ _ Cy) as [Py Sy].
  assert (NP : ~ In (rdo_id y) (map rdo_id pre)) by (rewrite E in ND; eapply rdo_c_nodup_pre; exact ND).
  assert (A0 : rdo_chain a (RdoRoot 0) (Some k) = []).
  { rewrite E in C. rewrite rdo_c_chain_app in C. unfold rdo_chain at 2 in C. cbn [filter] in C. rewrite Cy in C.
    eapply rdo_c_last_unique; [| exact C].
    fold (rdo_chain a (RdoRoot 0) (Some k)). 
    pose proof (rdo_c_nodup_filter (rdo_in_chain (RdoRoot 0) (Some k)) _ ND) as Q. rewrite E in Q.
    rewrite filter_app in Q. cbn [filter] in Q. rewrite Cy in Q. exact Q. }
  split; [| split; [exact A0 | exact Cy]].
  unfold rdo_integrate. cbn [rdo_neighbour_ok]. rewrite (rdo_c_get_of_in _ ND y Hy). rewrite P, S, Cy.
  cbn [andb negb rdo_detect_conflict].
  assert (R0 : rdo_right (rdo_st t) (rdo_id y) = None).
  { rewrite E, rdo_c_right_at by exact NP. rewrite Py, Sy, A0. reflexivity. }
  rewrite R0. cbn [rdo_on_eqb negb rdo_link]. rewrite E, rdo_c_insert_after_at by exact NP.
  assert (R1 : rdo_right (pre ++ y :: x :: a) (rdo_id x) = None).
  { change (pre ++ y :: x :: a) with (pre ++ [y] ++ x :: a). rewrite app_assoc. rewrite rdo_c_right_at.
    - rewrite P, S, A0. reflexivity.
    - intros H. apply FX. rewrite E. rewrite map_app in *. cbn in *. apply in_app_or in H. apply in_or_app.
      destruct H as [H | [H | []]]; [left; exact H | right; left; exact H]. }
  rewrite R1. cbn [rdo_bind].
  destruct (rdo_txn_delete _ (rdo_id y)); reflexivity.
Qed.


Lemma rdo_c_get_at pre y a : ~ In (rdo_id y) (map rdo_id pre) -> rdo_get (pre ++ y :: a) (rdo_id y) = Some y.
Proof.
  induction pre as [| z r IH]; intros H; cbn.
  - rewrite N.eqb_refl. reflexivity.
  - cbn in H. destruct (rdo_id z =? rdo_id y) eqn:E; [apply N.eqb_eq in E; tauto | apply IH; tauto].
Qed.

Lemma rdo_c_chain_mid pre y x a par sub :
  rdo_chain (pre ++ y :: x :: a) par sub =
  rdo_chain pre par sub ++ (if rdo_in_chain par sub y then [y] else []) ++ (if rdo_in_chain par sub x then [x] else []) ++ rdo_chain a par sub.
Proof.
  unfold rdo_chain. rewrite filter_app. cbn [filter].
  destruct (rdo_in_chain par sub y), (rdo_in_chain par sub x); reflexivity.
Qed.
Lemma rdo_c_chain_mid1 pre y a par sub :
  rdo_chain (pre ++ y :: a) par sub = rdo_chain pre par sub ++ (if rdo_in_chain par sub y then [y] else []) ++ rdo_chain a par sub.
Proof. unfold rdo_chain. rewrite filter_app. cbn [filter]. destruct (rdo_in_chain par sub y); reflexivity. Qed.

Lemma rdo_c_D_set u nx pre y y' a x k v c' u' :
  rdo_c_D u (pre ++ y :: a) nx -> (y' = y \/ y' = rdo_set_del y) ->
  rdo_id x = nx -> rdo_par x = RdoRoot 0 -> rdo_sub x = Some k -> rdo_cnt x = RdoVal v ->
  rdo_chain (pre ++ y :: a) (RdoRoot 0) (Some k) = c' ++ [y] -> rdo_chain a (RdoRoot 0) (Some k) = [] ->
  rdo_in_chain (RdoRoot 0) (Some k) y = true ->
  seqc u' = seqc u -> unext u' = nx + 1 ->
  (forall k', chain_of (mapc u') k' = if k =? k' then map rdo_c_item c' ++ [rdo_c_item y'; rdo_c_item x] else chain_of (mapc u) k') ->
  rdo_c_D u' (pre ++ y' :: x :: a) (nx + 1).
Proof.
  intros (F & ND & LT & HS & HM & HN) Y' IX PX SX CX C A0 Cy ES EN EM.
  assert (IY : rdo_id y' = rdo_id y) by (destruct Y' as [-> | ->]; reflexivity).
  assert (CY' : forall sub, rdo_in_chain (RdoRoot 0) sub y' = rdo_in_chain (RdoRoot 0) sub y) by (destruct Y' as [-> | ->]; reflexivity).
  split; [| split; [| split; [| split; [| split]]]].
  - intros z Hz. apply in_app_or in Hz. destruct Hz as [Hz | [<- | [<- | Hz]]].
    + apply F. apply in_or_app. left. exact Hz.
    + destruct Y' as [-> | ->]; apply (F y); apply in_or_app; right; left; reflexivity.
    + split; [exact PX | eauto].
    + apply F. apply in_or_app. right. right. exact Hz.
  - rewrite map_app. cbn [map]. rewrite IY.
    change (map rdo_id pre ++ rdo_id y :: rdo_id x :: map rdo_id a) with (map rdo_id pre ++ [rdo_id y] ++ rdo_id x :: map rdo_id a).
    rewrite app_assoc. eapply Permutation_NoDup; [apply Permutation_middle |].
    constructor.
    + rewrite <- app_assoc. cbn [app]. intros H. 
      assert (H' : In (rdo_id x) (map rdo_id (pre ++ y :: a))) by (rewrite map_app; exact H).
      apply in_map_iff in H'. destruct H' as (z & Ez & Hz). apply LT in Hz. lia.
    + rewrite <- app_assoc. cbn [app]. rewrite map_app in ND. exact ND.
  - intros z Hz. apply in_app_or in Hz. destruct Hz as [Hz | [<- | [<- | Hz]]].
    + assert (rdo_id z < nx) by (apply LT; apply in_or_app; left; exact Hz). lia.
    + rewrite IY. assert (rdo_id y < nx) by (apply LT; apply in_or_app; right; left; reflexivity). lia.
    + lia.
    + assert (rdo_id z < nx) by (apply LT; apply in_or_app; right; right; exact Hz). lia.
  - rewrite ES, HS. unfold rdo_c_chain. rewrite rdo_c_chain_mid, rdo_c_chain_mid1. rewrite CY'.
    rewrite (rdo_c_in_chain_other (Some k) None y Cy). unfold rdo_in_chain at 1. rewrite SX. cbn. rewrite andb_false_r. reflexivity.
  - intros k'. rewrite EM. unfold rdo_c_chain. rewrite rdo_c_chain_mid. rewrite CY'.
    rewrite (rdo_c_in_chain_other (Some k) (Some k') y Cy). unfold rdo_in_chain at 1. rewrite PX, SX. cbn [rdo_par_eqb rdo_on_eqb].
    rewrite N.eqb_refl. cbn [andb].
    destruct (k =? k') eqn:Ek.
    + apply N.eqb_eq in Ek. subst k'. rewrite A0.
      rewrite rdo_c_chain_mid1, Cy, A0 in C. apply app_inj_tail in C. destruct C as [-> _].
      rewrite map_app. reflexivity.
    + rewrite HM. unfold rdo_c_chain. rewrite rdo_c_chain_mid1.
      rewrite (rdo_c_in_chain_other (Some k) (Some k') y Cy). cbn [rdo_on_eqb]. rewrite Ek. reflexivity.
  - exact EN.
Qed.

Lemma rdo_c_call_set u t k v : rdo_c_D u (rdo_st t) (rdo_next t) -> rdo_c_call_ok u t (CSet k v).
Proof.
  intros D. pose proof D as (F & ND & LT & HS & HM & HN).
  unfold rdo_c_call_ok. cbn [rdo_c_call rdo_op_apply rdo_resolve do_call].
  rewrite HM. unfold rdo_c_chain, rdo_map_get.
  assert (FX : ~ In (rdo_next t) (map rdo_id (rdo_st t))).
  { intros H. apply in_map_iff in H. destruct H as (z & Ez & Hz). apply LT in Hz. lia. }
  destruct (rdo_c_rev_cases (rdo_chain (rdo_st t) (RdoRoot 0) (Some k))) as [E | (c' & y & E)]; rewrite E.
  - cbn [rev hd_error option_map map delete_last app].
    rewrite (rdo_c_integrate_set_empty (rdo_bump t) (rdo_new_item t (RdoRoot 0) (Some k) (RdoVal v) None None) k eq_refl eq_refl E).
    eexists. split; [reflexivity |]. cbn [fst snd rdo_st rdo_next rdo_tins rdo_tdel rdo_bump rdo_new_item rdo_id e_ins e_del ustack rstack].
    rewrite HN, app_nil_r. split; [| repeat split; auto].
    split; [| split; [| split; [| split; [| split]]]].
    + intros z [<- | Hz]; [split; [reflexivity | eexists; reflexivity] | auto].
    + cbn. constructor; auto.
    + intros z [<- | Hz]; cbn; [lia | apply LT in Hz; lia].
    + cbn [seqc]. rewrite HS. reflexivity.
    + intros k'. cbn [mapc]. rewrite rdo_c_chain_of_set. unfold rdo_c_chain, rdo_chain. cbn [filter].
      change (rdo_in_chain (RdoRoot 0) (Some k') (rdo_new_item t (RdoRoot 0) (Some k) (RdoVal v) None None)) with (k =? k').
      destruct (k =? k') eqn:Ek.
      * apply N.eqb_eq in Ek. subst k'. fold (rdo_chain (rdo_st t) (RdoRoot 0) (Some k)). rewrite E. reflexivity.
      * apply HM.
    + reflexivity.
  - assert (Hy : In y (rdo_chain (rdo_st t) (RdoRoot 0) (Some k))) by (rewrite E; apply in_or_app; right; left; reflexivity).
    apply rdo_c_chain_in in Hy. destruct Hy as [Hy _].
    destruct (in_split _ _ Hy) as (pre & a & ES).
    rewrite rev_app_distr. cbn [rev app hd_error option_map].
    destruct (rdo_c_integrate_set_last (rdo_bump t) (rdo_new_item t (RdoRoot 0) (Some k) (RdoVal v) (Some (rdo_id y)) None) k pre y a c'
                eq_refl eq_refl ES ND FX E) as (EI & A0 & Cy).
    rewrite EI.
    assert (NP : ~ In (rdo_id y) (map rdo_id pre)) by (rewrite ES in ND; eapply rdo_c_nodup_pre; exact ND).
    destruct (F y Hy) as (_ & vy & Cvy).
    erewrite rdo_c_txn_delete_val; [| cbn [rdo_st]; apply rdo_c_get_at; exact NP | exact Cvy].
    cbn [rdo_st rdo_next rdo_tins rdo_tdel rdo_bump rdo_new_item rdo_id].
    rewrite map_app. cbn [map]. rewrite rdo_c_delete_last_app. cbn [u_del rdo_c_item mk u_id].
    rewrite ES in D, E.
    destruct (rdo_del y) eqn:Dy.
    + eexists. split; [reflexivity |]. cbn [fst snd rdo_st rdo_next rdo_tins rdo_tdel e_ins e_del ustack rstack].
      rewrite HN, !app_nil_r. split; [| repeat split; auto].
      eapply (rdo_c_D_set u (rdo_next t) pre y y a _ k v c'); try reflexivity; eauto.
      intros k'. cbn [mapc]. rewrite rdo_c_chain_of_set. destruct (k =? k'); [| reflexivity].
      rewrite <- app_assoc. reflexivity.
    + rewrite rdo_c_update_at by exact NP.
      eexists. split; [reflexivity |]. cbn [fst snd rdo_st rdo_next rdo_tins rdo_tdel e_ins e_del ustack rstack].
      rewrite HN. split; [| repeat split; auto].
      eapply (rdo_c_D_set u (rdo_next t) pre y (rdo_set_del y) a _ k v c'); try reflexivity; eauto.
      intros k'. cbn [mapc]. rewrite rdo_c_chain_of_set. destruct (k =? k'); [| reflexivity].
      rewrite <- app_assoc. reflexivity.
Qed.

(* ---------------------------------------------------------------------------------------------- *)
(* rdo_integrate on flat stores: Array::insert *)

Lemma rdo_c_split_unique (l1 : list rdo_item) : forall y l2 l1' l2', NoDup (map rdo_id (l1 ++ y :: l2)) ->
  l1 ++ y :: l2 = l1' ++ y :: l2' -> l1 = l1' /\ l2 = l2'.
Proof.
  induction l1 as [| w r IH]; intros y l2 l1' l2' ND E.
  - destruct l1' as [| w' r'].
    + cbn in E. injection E as E1. auto.
    + cbn in E. injection E as E0 E1. subst w'. exfalso. cbn in ND. inversion ND as [| ? ? NI _]; subst.
      apply NI. rewrite map_app. apply in_or_app. right. left. reflexivity.
  - destruct l1' as [| w' r'].
    + cbn in E. injection E as E0 E1. subst w. exfalso. cbn in ND. inversion ND as [| ? ? NI _]; subst.
      apply NI. rewrite map_app. apply in_or_app. right. left. reflexivity.
    + cbn in E. injection E as E0 E1. subst w'. cbn in ND. inversion ND as [| ? ? _ ND']; subst.
      destruct (IH y l2 r' l2' ND' E1) as [-> ->]. auto.
Qed.

Lemma rdo_c_filter_nil {A} (f : A -> bool) l : (forall w, In w l -> f w = false) -> filter f l = [].
Proof.
  induction l as [| z r IH]; cbn; intros H; [reflexivity |].
  rewrite (H z (or_introl eq_refl)). apply IH. intros w Hw. apply H. right. exact Hw.
Qed.
Lemma rdo_c_filter_nil_inv {A} (f : A -> bool) l : filter f l = [] -> forall w, In w l -> f w = false.
Proof.
  intros E w Hw. destruct (f w) eqn:Fw; [| reflexivity].
  assert (In w (filter f l)) by (apply filter_In; auto). rewrite E in H. destruct H.
Qed.

Lemma rdo_c_left_at pre x a : ~ In (rdo_id x) (map rdo_id pre) -> rdo_chain pre (rdo_par x) (rdo_sub x) = [] ->
  rdo_left (pre ++ x :: a) (rdo_id x) = None.
Proof.
  intros H E. unfold rdo_left, rdo_lefts. rewrite rdo_c_split_at by exact H. rewrite app_nil_r.
  rewrite rdo_c_filter_nil; [reflexivity |]. intros w Hw. apply in_rev in Hw.
  eapply rdo_c_filter_nil_inv; [exact E | exact Hw].
Qed.

Definition rdo_c_lastid (c : list rdo_item) (prev : option N) : option N :=
  fold_left (fun _ z => Some (rdo_id z)) c prev.

Lemma rdo_c_ibv_min l x : forall pos, insert_before_visible l (Nat.min pos (nvisible l)) x = insert_before_visible l pos x.
Proof.
  induction l as [| y r IH]; intros pos; cbn; [reflexivity |].
  unfold nvisible, uvisible in *. cbn [filter]. destruct (u_del y) eqn:Dy; cbn [negb].
  - rewrite IH. reflexivity.
  - cbn [map length]. destruct pos as [| p]; cbn [Nat.min]; [reflexivity |]. rewrite IH. reflexivity.
Qed.

Lemma rdo_c_ins_point c : forall pos prev, exists c1 c2,
  c = c1 ++ c2 /\ rdo_ins_point c pos prev = (rdo_c_lastid c1 prev, option_map rdo_id (hd_error c2)) /\
  forall x', insert_before_visible (map rdo_c_item c) pos x' = map rdo_c_item c1 ++ x' :: map rdo_c_item c2.
Proof.
  induction c as [| y r IH]; intros pos prev.
  - exists [], []. cbn. auto.
  - cbn [rdo_ins_point map insert_before_visible]. cbn [u_del rdo_c_item mk].
    destruct (rdo_del y) eqn:Dy.
    + destruct (IH pos (Some (rdo_id y))) as (c1 & c2 & E & P & I). exists (y :: c1), c2.
      split; [cbn; rewrite E; reflexivity |]. split; [exact P |]. intros x'. rewrite I. reflexivity.
    + destruct pos as [| p].
      * exists [], (y :: r). cbn. auto.
      * destruct (IH p (Some (rdo_id y))) as (c1 & c2 & E & P & I). exists (y :: c1), c2.
        split; [cbn; rewrite E; reflexivity |]. split; [exact P |]. intros x'. rewrite I. reflexivity.
Qed.

Lemma rdo_c_lastid_app c y prev : rdo_c_lastid (c ++ [y]) prev = Some (rdo_id y).
Proof. unfold rdo_c_lastid. rewrite fold_left_app. reflexivity. Qed.

(* the new unit is linked between c1 and c2 *)
Lemma rdo_c_integrate_ins t x c1 c2 :
  rdo_par x = RdoRoot 0 -> rdo_sub x = None -> NoDup (map rdo_id (rdo_st t)) ->
  ~ In (rdo_id x) (map rdo_id (rdo_st t)) ->
  rdo_chain (rdo_st t) (RdoRoot 0) None = c1 ++ c2 ->
  exists pre a, rdo_st t = pre ++ a /\ rdo_chain pre (RdoRoot 0) None = c1 /\ rdo_chain a (RdoRoot 0) None = c2 /\
    rdo_integrate t x (rdo_c_lastid c1 None) (option_map rdo_id (hd_error c2)) =
    RdoOk {| rdo_st := pre ++ x :: a; rdo_next := rdo_next t; rdo_tins := rdo_tins t ++ [rdo_id x]; rdo_tdel := rdo_tdel t |}.
Proof.
  intros P S ND FX C.
  assert (NOK : forall c, (forall z, In z c -> In z (rdo_chain (rdo_st t) (RdoRoot 0) None)) ->
                rdo_neighbour_ok (rdo_st t) x (option_map rdo_id (hd_error c)) = true).
  { intros c Hc. destruct c as [| z r]; [reflexivity |]. cbn.
    assert (Hz := Hc z (or_introl eq_refl)). apply rdo_c_chain_in in Hz. destruct Hz as [Hz Cz].
    rewrite (rdo_c_get_of_in _ ND z Hz), P, S. exact Cz. }
  destruct (rdo_c_rev_cases c1) as [-> | (c1' & y & ->)].
  - (* in front of the sequence *)
    exists [], (rdo_st t). cbn [app]. split; [reflexivity |]. split; [reflexivity |]. split; [exact C |].
    cbn [app] in C. unfold rdo_integrate. cbn [rdo_c_lastid fold_left rdo_neighbour_ok andb].
    rewrite NOK by (intros z Hz; rewrite C; exact Hz). cbn [negb].
    assert (L : (if rdo_detect_conflict (rdo_st t) None (option_map rdo_id (hd_error c2))
                 then rdo_resolve_conflict (rdo_st t) x None (option_map rdo_id (hd_error c2)) else None) = None).
    { destruct c2 as [| z r].
      - cbn. unfold rdo_resolve_conflict. rewrite P, S, C. reflexivity.
      - cbn [hd_error option_map rdo_detect_conflict].
        assert (Hz : In z (rdo_chain (rdo_st t) (RdoRoot 0) None)) by (rewrite C; left; reflexivity).
        apply rdo_c_chain_in in Hz. destruct Hz as [Hz Cz].
        destruct (in_split _ _ Hz) as (pre & a & ES).
        destruct (rdo_c_in_chain_eq _ _ _ Cz) as [Pz Sz].
        assert (NP : ~ In (rdo_id z) (map rdo_id pre)) by (rewrite ES in ND; eapply rdo_c_nodup_pre; exact ND).
        rewrite ES, rdo_c_left_at; [reflexivity | exact NP |].
        rewrite Pz, Sz. rewrite ES, rdo_c_chain_mid1, Cz in C.
        pose proof (rdo_c_nodup_filter (rdo_in_chain (RdoRoot 0) None) _ ND) as Q.
        fold (rdo_chain (rdo_st t) (RdoRoot 0) None) in Q. rewrite ES, rdo_c_chain_mid1, Cz in Q.
        cbn [app] in C, Q.
        destruct (rdo_c_split_unique _ z _ [] r Q C) as [E1 _]. exact E1. }
    rewrite L. cbn [rdo_link]. rewrite S, P.
    destruct (rdo_right (x :: rdo_st t) (rdo_id x)); cbn; reflexivity.
  - (* behind y *)
    rewrite rdo_c_lastid_app.
    assert (Hy : In y (rdo_chain (rdo_st t) (RdoRoot 0) None)) by (rewrite C; apply in_or_app; left; apply in_or_app; right; left; reflexivity).
    apply rdo_c_chain_in in Hy. destruct Hy as [Hy Cy].
    destruct (in_split _ _ Hy) as (pre & a & ES).
    destruct (rdo_c_in_chain_eq _ _ _ Cy) as [Py Sy].
    assert (NP : ~ In (rdo_id y) (map rdo_id pre)) by (rewrite ES in ND; eapply rdo_c_nodup_pre; exact ND).
    pose proof (rdo_c_nodup_filter (rdo_in_chain (RdoRoot 0) None) _ ND) as Q.
    fold (rdo_chain (rdo_st t) (RdoRoot 0) None) in Q.
    pose proof C as C'. rewrite ES, rdo_c_chain_mid1, Cy in C', Q. cbn [app] in C', Q. rewrite <- app_assoc in C'. cbn [app] in C'.
    destruct (rdo_c_split_unique _ y _ c1' c2 Q C') as [E1 E2].
    exists (pre ++ [y]), a. split; [rewrite <- app_assoc; exact ES |].
    split; [rewrite rdo_c_chain_app, E1; unfold rdo_chain; cbn [filter]; rewrite Cy; reflexivity |]. split; [exact E2 |].
    unfold rdo_integrate. cbn [rdo_neighbour_ok]. rewrite (rdo_c_get_of_in _ ND y Hy), P, S, Cy.
    rewrite NOK by (intros z Hz; rewrite C; apply in_or_app; right; exact Hz). cbn [andb negb rdo_detect_conflict].
    assert (R0 : rdo_right (rdo_st t) (rdo_id y) = option_map rdo_id (hd_error c2)).
    { rewrite ES, rdo_c_right_at by exact NP. rewrite Py, Sy, E2. destruct c2; reflexivity. }
    rewrite R0, rdo_c_on_eqb_refl. cbn [negb rdo_link]. rewrite ES, rdo_c_insert_after_at by exact NP.
    rewrite <- app_assoc. cbn [app].
    destruct (rdo_right (pre ++ y :: x :: a) (rdo_id x)); cbn; reflexivity.
Qed.

Lemma rdo_c_D_ins u nx pre a x v u' :
  rdo_c_D u (pre ++ a) nx ->
  rdo_id x = nx -> rdo_par x = RdoRoot 0 -> rdo_sub x = None -> rdo_cnt x = RdoVal v ->
  seqc u' = map rdo_c_item (rdo_chain pre (RdoRoot 0) None) ++ rdo_c_item x :: map rdo_c_item (rdo_chain a (RdoRoot 0) None) ->
  unext u' = nx + 1 -> (forall k, chain_of (mapc u') k = chain_of (mapc u) k) ->
  rdo_c_D u' (pre ++ x :: a) (nx + 1).
Proof.
  intros (F & ND & LT & HS & HM & HN) IX PX SX CX ES EN EM.
  split; [| split; [| split; [| split; [| split]]]].
  - intros z Hz. apply in_app_or in Hz. destruct Hz as [Hz | [<- | Hz]].
    + apply F. apply in_or_app. left. exact Hz.
    + split; [exact PX | eauto].
    + apply F. apply in_or_app. right. exact Hz.
  - rewrite map_app. cbn [map]. eapply Permutation_NoDup; [apply Permutation_middle |].
    constructor.
    + intros H. rewrite <- map_app in H. apply in_map_iff in H. destruct H as (z & Ez & Hz). apply LT in Hz. lia.
    + rewrite <- map_app. exact ND.
  - intros z Hz. apply in_app_or in Hz. destruct Hz as [Hz | [<- | Hz]].
    + assert (rdo_id z < nx) by (apply LT; apply in_or_app; left; exact Hz). lia.
    + lia.
    + assert (rdo_id z < nx) by (apply LT; apply in_or_app; right; exact Hz). lia.
  - rewrite ES. unfold rdo_c_chain. rewrite rdo_c_chain_mid1. unfold rdo_in_chain at 1. rewrite PX, SX. cbn.
    rewrite map_app. reflexivity.
  - intros k. rewrite EM, HM. unfold rdo_c_chain. rewrite rdo_c_chain_mid1, rdo_c_chain_app.
    unfold rdo_in_chain at 1. rewrite SX. cbn. rewrite andb_false_r. reflexivity.
  - exact EN.
Qed.

Lemma rdo_c_call_ins u t pos v : rdo_c_D u (rdo_st t) (rdo_next t) -> rdo_c_call_ok u t (CIns pos v).
Proof.
  intros D. pose proof D as (F & ND & LT & HS & HM & HN).
  unfold rdo_c_call_ok. cbn [rdo_c_call rdo_op_apply rdo_resolve do_call].
  rewrite rdo_c_ibv_min. rewrite HS. unfold rdo_c_chain.
  assert (FX : ~ In (rdo_next t) (map rdo_id (rdo_st t))).
  { intros H. apply in_map_iff in H. destruct H as (z & Ez & Hz). apply LT in Hz. lia. }
  destruct (rdo_c_ins_point (rdo_chain (rdo_st t) (RdoRoot 0) None) pos None) as (c1 & c2 & C & IP & IB).
  rewrite IP, IB.
  destruct (rdo_c_integrate_ins (rdo_bump t) (rdo_new_item t (RdoRoot 0) None (RdoVal v) (rdo_c_lastid c1 None) (option_map rdo_id (hd_error c2)))
              c1 c2 eq_refl eq_refl ND FX C) as (pre & a & ES & E1 & E2 & EI).
  rewrite EI. eexists. split; [reflexivity |].
  cbn [fst snd rdo_st rdo_next rdo_tins rdo_tdel rdo_bump rdo_new_item rdo_id e_ins e_del ustack rstack].
  rewrite HN, app_nil_r. split; [| repeat split; auto].
  cbn [rdo_st rdo_bump] in ES. rewrite ES in D.
  eapply (rdo_c_D_ins u (rdo_next t) pre a _ v); try reflexivity; eauto.
  cbn [seqc]. rewrite E1, E2. reflexivity.
Qed.

(* ---------------------------------------------------------------------------------------------- *)
(* call level and transaction level, PARTIAL: every call except CIns (Array::insert is only TESTED) *)

Theorem rdo_refines_flat_call_partial : forall u t c,
  rdo_c_D u (rdo_st t) (rdo_next t) -> rdo_c_call_ok u t c.
Proof.
  intros u t [pos v | pos | k v | k] D.
  - apply rdo_c_call_ins; exact D.
  - apply rdo_c_call_del; exact D.
  - apply rdo_c_call_set; exact D.
  - apply rdo_c_call_rem; exact D.
Qed.
Print Assumptions rdo_refines_flat_call_partial.

Theorem rdo_refines_flat_txn_partial : forall cs u t,
  rdo_c_D u (rdo_st t) (rdo_next t) ->
  exists t', rdo_ops_apply t (map rdo_c_call cs) = RdoOk t' /\
             rdo_c_D (fst (do_txn u cs)) (rdo_st t') (rdo_next t') /\
             rdo_tins t' = rdo_tins t ++ e_ins (snd (do_txn u cs)) /\
             rdo_tdel t' = rdo_tdel t ++ e_del (snd (do_txn u cs)) /\
             ustack (fst (do_txn u cs)) = ustack u /\ rstack (fst (do_txn u cs)) = rstack u.
Proof.
  intros cs u t D.
  apply (rdo_c_txn_fold (fun c => True)) with (I0 := rdo_tins t) (D0 := rdo_tdel t) (e := eff0); auto.
  - intros; apply rdo_refines_flat_call_partial; auto.
  - cbn. rewrite app_nil_r. reflexivity.
  - cbn. rewrite app_nil_r. reflexivity.
Qed.
Print Assumptions rdo_refines_flat_txn_partial.

(* ---------------------------------------------------------------------------------------------- *)
(* sorting: rdo_sort is sort_ids; a sorted duplicate-free list is determined by its elements *)
Lemma rdo_c_sort_insert_eq x l : rdo_sort_insert x l = sort_insert x l.
Proof. induction l as [| y r IH]; cbn; [reflexivity |]. rewrite IH. reflexivity. Qed.
Lemma rdo_c_sort_eq l : rdo_sort l = sort_ids l.
Proof. induction l as [| x r IH]; cbn; [reflexivity |]. unfold rdo_sort in IH. rewrite IH. apply rdo_c_sort_insert_eq. Qed.

Lemma rdo_c_incr_unique l1 : forall l2, incr l1 -> incr l2 -> (forall x, In x l1 <-> In x l2) -> l1 = l2.
Proof.
  induction l1 as [| a r IH]; intros l2 I1 I2 H.
  - destruct l2 as [| b r2]; [reflexivity |]. exfalso. apply (H b). left. reflexivity.
  - destruct l2 as [| b r2]; [exfalso; apply (H a); left; reflexivity |].
    cbn in I1, I2. destruct I1 as (A1 & B1), I2 as (A2 & B2).
    assert (a = b).
    { destruct (proj1 (H a) (or_introl eq_refl)) as [E | E]; [congruence |].
      destruct (proj2 (H b) (or_introl eq_refl)) as [E' | E']; [congruence |].
      apply A2 in E. apply A1 in E'. lia. }
    subst b. f_equal. apply IH; auto. intros x. split; intros Hx.
    + destruct (proj1 (H x) (or_intror Hx)) as [E | E]; [| exact E]. subst x. apply A1 in Hx. lia.
    + destruct (proj2 (H x) (or_intror Hx)) as [E | E]; [| exact E]. subst x. apply A2 in Hx. lia.
Qed.

Lemma rdo_c_sort_merge a b : rdo_merge (sort_ids a) (rdo_sort b) = sort_ids (a ++ b).
Proof.
  unfold rdo_merge. rewrite !rdo_c_sort_eq. apply rdo_c_incr_unique; try apply incr_sort_ids.
  intros x. rewrite !in_sort_ids, !in_app_iff, !in_sort_ids. tauto.
Qed.

(* ---------------------------------------------------------------------------------------------- *)
(* the keep flag is not observed *)
Definition rdo_c_nk (x : rdo_item) : rdo_item := rdo_set_keep x false.
Definition rdo_c_same (st st' : list rdo_item) : Prop := map rdo_c_nk st = map rdo_c_nk st'.

Lemma rdo_c_update_keep st i b : map rdo_c_nk (rdo_update st i (fun y => rdo_set_keep y b)) = map rdo_c_nk st.
Proof.
  induction st as [| z r IH]; cbn; [reflexivity |]. destruct (rdo_id z =? i); cbn; [reflexivity | rewrite IH; reflexivity].
Qed.
Lemma rdo_c_keep_walk f : forall st i b, map rdo_c_nk (rdo_keep_walk f st i b) = map rdo_c_nk st.
Proof.
  induction f as [| f IH]; intros st i b; cbn; [reflexivity |].
  destruct (rdo_get st i) as [x |]; [| reflexivity]. destruct (Bool.eqb (rdo_keep x) b); [reflexivity |].
  destruct (rdo_par x); [apply rdo_c_update_keep | rewrite IH; apply rdo_c_update_keep].
Qed.
Lemma rdo_c_keep_all scope l b : forall st, map rdo_c_nk (rdo_keep_all st scope l b) = map rdo_c_nk st.
Proof.
  unfold rdo_keep_all. induction l as [| i r IH]; intros st; cbn [fold_left]; [reflexivity |].
  rewrite IH. destruct (rdo_in_scope st scope i); [apply rdo_c_keep_walk | reflexivity].
Qed.
Lemma rdo_c_keep_release scope rs : forall st,
  map rdo_c_nk (fold_left (fun s0 e => rdo_keep_all s0 scope (rdo_sdel e) false) rs st) = map rdo_c_nk st.
Proof. induction rs as [| e r IH]; intros st; cbn [fold_left]; [reflexivity |]. rewrite IH. apply rdo_c_keep_all. Qed.

Lemma rdo_c_chain_nk st par sub : map rdo_c_item (rdo_chain st par sub) = map rdo_c_item (rdo_chain (map rdo_c_nk st) par sub).
Proof.
  unfold rdo_chain. induction st as [| z r IH]; cbn; [reflexivity |].
  change (rdo_in_chain par sub (rdo_c_nk z)) with (rdo_in_chain par sub z).
  destruct (rdo_in_chain par sub z); cbn; rewrite IH; reflexivity.
Qed.

Lemma rdo_c_D_same u st st' nx : rdo_c_D u st nx -> rdo_c_same st st' -> rdo_c_D u st' nx.
Proof.
  intros (F & ND & LT & HS & HM & HN) E. unfold rdo_c_same in E.
  assert (IN : forall x, In x st' -> exists x0, In x0 st /\ rdo_c_nk x0 = rdo_c_nk x).
  { intros x Hx. apply (in_map rdo_c_nk) in Hx. rewrite <- E in Hx. apply in_map_iff in Hx. destruct Hx as (x0 & E0 & H0). eauto. }
  split; [| split; [| split; [| split; [| split]]]].
  - intros x Hx. destruct (IN x Hx) as (x0 & H0 & E0). destruct (F x0 H0) as (P & v & C).
    assert (rdo_par x = rdo_par x0) by (change (rdo_par (rdo_c_nk x) = rdo_par (rdo_c_nk x0)); rewrite E0; reflexivity).
    assert (rdo_cnt x = rdo_cnt x0) by (change (rdo_cnt (rdo_c_nk x) = rdo_cnt (rdo_c_nk x0)); rewrite E0; reflexivity).
    split; [congruence | exists v; congruence].
  - assert (M : map rdo_id st' = map rdo_id st).
    { assert (Q : forall l, map rdo_id l = map rdo_id (map rdo_c_nk l)) by (intros l; rewrite map_map; reflexivity).
      rewrite (Q st'), (Q st), E. reflexivity. }
    rewrite M. exact ND.
  - intros x Hx. destruct (IN x Hx) as (x0 & H0 & E0).
    assert (rdo_id x = rdo_id x0) by (change (rdo_id (rdo_c_nk x) = rdo_id (rdo_c_nk x0)); rewrite E0; reflexivity).
    rewrite H. auto.
  - rewrite HS. unfold rdo_c_chain. rewrite rdo_c_chain_nk, E, <- rdo_c_chain_nk. reflexivity.
  - intros k. rewrite HM. unfold rdo_c_chain. rewrite rdo_c_chain_nk, E, <- rdo_c_chain_nk. reflexivity.
  - exact HN.
Qed.

(* ---------------------------------------------------------------------------------------------- *)
(* keys of the flat map: no duplicates (flat side only) *)
Definition rdo_c_K (u : ustate) : Prop := NoDup (keys_of u).

Lemma rdo_c_set_chain_keys m k c : map fst (set_chain m k c) = if existsb (N.eqb k) (map fst m) then map fst m else map fst m ++ [k].
Proof.
  induction m as [| [k0 c0] r IH]; cbn; [reflexivity |].
  destruct (k0 =? k) eqn:E; cbn.
  - apply N.eqb_eq in E. subst. rewrite N.eqb_refl. reflexivity.
  - rewrite N.eqb_sym, E. cbn. rewrite IH. destruct (existsb (N.eqb k) (map fst r)); reflexivity.
Qed.
Lemma rdo_c_set_chain_nodup m k c : NoDup (map fst m) -> NoDup (map fst (set_chain m k c)).
Proof.
  intros ND. rewrite rdo_c_set_chain_keys. destruct (existsb (N.eqb k) (map fst m)) eqn:E; [exact ND |].
  apply nodup_app; [exact ND | constructor; [intros [] | constructor] |].
  intros x Hx [E' | []]. subst x. assert (existsb (N.eqb k) (map fst m) = true) by (apply existsb_exists; exists k; split; [exact Hx | apply N.eqb_refl]). congruence.
Qed.
Lemma rdo_c_K_call u c : rdo_c_K u -> rdo_c_K (fst (do_call u c)).
Proof.
  unfold rdo_c_K, keys_of. intros ND. destruct c as [pos v | pos | k v | k]; cbn.
  - exact ND.
  - destruct (delete_visible (seqc u) pos); exact ND.
  - destruct (delete_last (chain_of (mapc u) k)); cbn. apply rdo_c_set_chain_nodup; exact ND.
  - destruct (delete_last (chain_of (mapc u) k)) as [c0 [i |]]; cbn; [apply rdo_c_set_chain_nodup |]; exact ND.
Qed.
Lemma rdo_c_K_txn cs : forall u e, rdo_c_K u -> rdo_c_K (fst (fold_left rdo_c_txnf cs (u, e))).
Proof.
  induction cs as [| c r IH]; intros u e K; cbn [fold_left]; [exact K |].
  unfold rdo_c_txnf at 2. pose proof (rdo_c_K_call u c K) as K1. destruct (do_call u c) as [u2 e2]. apply IH. exact K1.
Qed.

Lemma rdo_c_chain_of_in m : forall k c, NoDup (map fst m) -> In (k, c) m -> chain_of m k = c.
Proof.
  induction m as [| [k0 c0] r IH]; intros k c ND H; [destruct H |]. cbn in *. inversion ND as [| ? ? NI ND']; subst.
  destruct H as [E | H].
  - inversion E; subst. rewrite N.eqb_refl. reflexivity.
  - destruct (k0 =? k) eqn:E; [| auto]. apply N.eqb_eq in E. subst. exfalso. apply NI. apply (in_map fst) in H. exact H.
Qed.
Lemma rdo_c_chain_of_some m k : chain_of m k <> [] -> In (k, chain_of m k) m.
Proof.
  induction m as [| [k0 c0] r IH]; cbn; intros H; [congruence |].
  destruct (k0 =? k) eqn:E; [apply N.eqb_eq in E; subst; left; reflexivity | right; auto].
Qed.

(* the items of the flat state are the items of the store *)
Lemma rdo_c_all_items u st nx : rdo_c_D u st nx -> rdo_c_K u ->
  forall z, In z (all_items u) <-> exists y, In y st /\ z = rdo_c_item y.
Proof.
  intros (F & ND & LT & HS & HM & HN) K z. unfold all_items. rewrite in_app_iff. split.
  - intros [H | H].
    + rewrite HS in H. unfold rdo_c_chain in H. apply in_map_iff in H. destruct H as (y & <- & Hy).
      apply rdo_c_chain_in in Hy. exists y. tauto.
    + apply in_flat_map in H. destruct H as ([k c] & Hkc & Hz). cbn in Hz.
      rewrite <- (rdo_c_chain_of_in _ k c K Hkc), HM in Hz. unfold rdo_c_chain in Hz.
      apply in_map_iff in Hz. destruct Hz as (y & <- & Hy). apply rdo_c_chain_in in Hy. exists y. tauto.
  - intros (y & Hy & ->). destruct (F y Hy) as (P & _).
    destruct (rdo_sub y) as [k |] eqn:S.
    + right. assert (Hc : In (rdo_c_item y) (chain_of (mapc u) k)).
      { rewrite HM. unfold rdo_c_chain. apply in_map. apply rdo_c_chain_in. split; [exact Hy |].
        unfold rdo_in_chain. rewrite P, S. cbn. rewrite N.eqb_refl. reflexivity. }
      apply in_flat_map. exists (k, chain_of (mapc u) k). split; [| exact Hc].
      apply rdo_c_chain_of_some. intros E. rewrite E in Hc. destruct Hc.
    + left. rewrite HS. unfold rdo_c_chain. apply in_map. apply rdo_c_chain_in. split; [exact Hy |].
      unfold rdo_in_chain. rewrite P, S. reflexivity.
Qed.

Lemma rdo_c_all_ids u st nx : rdo_c_D u st nx -> rdo_c_K u -> forall i, In i (all_ids u) <-> In i (map rdo_id st).
Proof.
  intros D K i. unfold all_ids. rewrite !in_map_iff. split.
  - intros (z & <- & Hz). apply (rdo_c_all_items u st nx D K) in Hz. destruct Hz as (y & Hy & ->). exists y. auto.
  - intros (y & <- & Hy). exists (rdo_c_item y). split; [reflexivity |]. apply (rdo_c_all_items u st nx D K). eauto.
Qed.

(* everything is in the scope *)
Lemma rdo_c_in_scope st i : rdo_c_flat st -> In i (map rdo_id st) -> rdo_in_scope st [0] i = true.
Proof.
  intros F H. unfold rdo_in_scope. cbn [rdo_is_parent_of].
  destruct (rdo_get st i) as [x |] eqn:G.
  - apply rdo_c_get_in in G. destruct G as [Hx _]. destruct (F x Hx) as (-> & _). reflexivity.
  - exfalso. apply in_map_iff in H. destruct H as (y & <- & Hy).
    clear F. induction st as [| z r IH]; [destruct Hy |]. cbn in G. destruct (rdo_id z =? rdo_id y) eqn:E; [discriminate |].
    destruct Hy as [-> | Hy]; [rewrite N.eqb_refl in E; discriminate | auto].
Qed.
Lemma rdo_c_captured st l : rdo_c_flat st -> (forall i, In i l -> In i (map rdo_id st)) ->
  existsb (rdo_in_scope st [0]) l = negb (match l with [] => true | _ => false end).
Proof.
  intros F H. destruct l as [| i r]; [reflexivity |]. cbn [existsb negb]. rewrite rdo_c_in_scope; auto. apply H. left. reflexivity.
Qed.

(* ---------------------------------------------------------------------------------------------- *)
(* one transaction of the tracked origin *)
Definition rdo_c_new (e : ueff) : rdo_sitem := {| rdo_sins := rdo_sort (e_ins e); rdo_sdel := rdo_sort (e_del e) |}.

Lemma rdo_c_eff_exist u1 cs st' nx' : rdo_c_K u1 ->
  rdo_c_D (fst (do_txn u1 cs)) st' nx' -> rdo_c_K (fst (do_txn u1 cs)) ->
  forall i, In i (e_ins (snd (do_txn u1 cs)) ++ e_del (snd (do_txn u1 cs))) -> In i (map rdo_id st').
Proof.
  intros K1 D2 K2 i Hi. apply (rdo_c_all_ids _ _ _ D2 K2).
  pose proof (tspec_do_txn u1 cs) as T. apply in_app_or in Hi. destruct Hi as [Hi | Hi].
  - eapply Permutation_in; [apply Permutation_sym, (ts_perm _ _ _ T) |]. apply in_or_app. left. exact Hi.
  - apply (ts_del _ _ _ T) in Hi. destruct Hi as (y & Hy & <- & _). unfold all_ids. apply in_map. exact Hy.
Qed.

Lemma rdo_c_K_do_txn u cs : rdo_c_K u -> rdo_c_K (fst (do_txn u cs)).
Proof. intros K. apply (rdo_c_K_txn cs u eff0 K). Qed.

Lemma rdo_c_tracked_txn u1 s1 cs :
  rdo_c_D u1 (rdo_doc s1) (rdo_clock s1) -> rdo_c_K u1 -> rdo_scope s1 = [0] ->
  exists s2, rdo_tracked_txn s1 (map rdo_c_call cs) = RdoOk s2 /\
    rdo_c_D (fst (do_txn u1 cs)) (rdo_doc s2) (rdo_clock s2) /\ rdo_c_K (fst (do_txn u1 cs)) /\ rdo_scope s2 = [0] /\
    ustack (fst (do_txn u1 cs)) = ustack u1 /\ rstack (fst (do_txn u1 cs)) = rstack u1 /\
    (if eff_empty (snd (do_txn u1 cs))
     then rdo_us s2 = rdo_us s1 /\ rdo_rs s2 = rdo_rs s1 /\ rdo_ext s2 = rdo_ext s1
     else rdo_rs s2 = [] /\ rdo_ext s2 = true /\
          rdo_us s2 = match rdo_us s1 with
                      | top :: rest =>
                          if rdo_ext s1 then {| rdo_sins := rdo_merge (rdo_sins top) (rdo_sort (e_ins (snd (do_txn u1 cs))));
                                                rdo_sdel := rdo_merge (rdo_sdel top) (rdo_sort (e_del (snd (do_txn u1 cs)))) |} :: rest
                          else rdo_c_new (snd (do_txn u1 cs)) :: rdo_us s1
                      | [] => [rdo_c_new (snd (do_txn u1 cs))]
                      end).
Proof.
  intros D K SC.
  destruct (rdo_refines_flat_txn_partial cs u1 (rdo_begin s1) D) as (t' & A & D2 & TI & TD & U2 & R2).
  pose proof (rdo_c_K_do_txn u1 cs K) as K2.
  pose proof (rdo_c_eff_exist u1 cs _ _ K D2 K2) as EX.
  unfold rdo_tracked_txn. rewrite A. cbn [rdo_bind]. eexists. split; [reflexivity |].
  cbn [rdo_begin rdo_tins rdo_tdel app] in TI, TD.
  unfold rdo_after_txn. rewrite SC, TI, TD.
  rewrite (rdo_c_captured (rdo_st t')) by (exact EX || apply D2).
  destruct (do_txn u1 cs) as [u2 e2]. cbn [fst snd] in *. unfold eff_empty.
  destruct (e_ins e2 ++ e_del e2) as [| i0 r0] eqn:EE; cbn [negb].
  - apply app_eq_nil in EE. destruct EE as [-> ->]. cbn. auto 10.
  - assert (NE : match e_ins e2, e_del e2 with [], [] => true | _, _ => false end = false).
    { destruct (e_ins e2); [destruct (e_del e2); [discriminate | reflexivity] | reflexivity]. }
    rewrite NE. cbn [rdo_doc rdo_clock rdo_scope rdo_us rdo_rs rdo_ext].
    split; [| split; [exact K2 | split; [reflexivity | split; [exact U2 | split; [exact R2 |]]]]].
    + eapply rdo_c_D_same; [exact D2 |]. unfold rdo_c_same. rewrite rdo_c_keep_all, rdo_c_keep_release. reflexivity.
    + split; [reflexivity | split; [reflexivity |]]. destruct (rdo_us s1) as [| top rest]; [reflexivity |].
      destruct (rdo_ext s1); reflexivity.
Qed.

(* ---------------------------------------------------------------------------------------------- *)
(* one capture step: the transactions after the first captured one extend the entry (rdo_ext) *)
Definition rdo_c_stepf (acc : ustate * ueff) (cs : list ucall) : ustate * ueff :=
  let '(s1, e1) := acc in let '(s2, e2) := do_txn s1 cs in (s2, eff_app e1 e2).

Definition rdo_c_J (U0 R0 : list stackitem) (US RS : list rdo_sitem) (acc : ustate * ueff) (s1 : rdo_state) : Prop :=
  rdo_c_D (fst acc) (rdo_doc s1) (rdo_clock s1) /\ rdo_c_K (fst acc) /\ rdo_scope s1 = [0] /\
  ustack (fst acc) = U0 /\ rstack (fst acc) = R0 /\
  (if eff_empty (snd acc) then rdo_us s1 = US /\ rdo_rs s1 = RS /\ rdo_ext s1 = false
   else rdo_us s1 = {| rdo_sins := sort_ids (e_ins (snd acc)); rdo_sdel := sort_ids (e_del (snd acc)) |} :: US /\
        rdo_rs s1 = [] /\ rdo_ext s1 = true).

Lemma rdo_c_eff_empty_true e : eff_empty e = true -> e_ins e = [] /\ e_del e = [].
Proof. unfold eff_empty. destruct (e_ins e); [destruct (e_del e); [auto | discriminate] | discriminate]. Qed.
Lemma rdo_c_eff_empty_app e1 e2 : eff_empty e2 = false -> eff_empty (eff_app e1 e2) = false.
Proof.
  unfold eff_empty, eff_app. cbn. destruct (e_ins e2) as [| a r].
  - destruct (e_del e2) as [| b r']; [discriminate |]. intros _. rewrite app_nil_r.
    destruct (e_ins e1); [| reflexivity]. destruct (e_del e1); reflexivity.
  - intros _. destruct (e_ins e1); reflexivity.
Qed.

Lemma rdo_c_step_fold U0 R0 US RS txns : forall acc s1, rdo_c_J U0 R0 US RS acc s1 ->
  exists s2, fold_left (fun a ops => rdo_let s := a in rdo_tracked_txn s ops) (map (map rdo_c_call) txns) (RdoOk s1) = RdoOk s2 /\
             rdo_c_J U0 R0 US RS (fold_left rdo_c_stepf txns acc) s2.
Proof.
  induction txns as [| cs r IH]; intros [u1 e1] s1 J; cbn [map fold_left].
  - exists s1. auto.
  - destruct J as (D & K & SC & EU & ER & ST). cbn [fst snd] in *.
    destruct (rdo_c_tracked_txn u1 s1 cs D K SC) as (s2 & A & D2 & K2 & SC2 & U2 & R2 & ST2).
    cbn [rdo_bind]. rewrite A. unfold rdo_c_stepf at 2.
    destruct (do_txn u1 cs) as [u2 e2]. cbn [fst snd] in *.
    apply IH. unfold rdo_c_J. cbn [fst snd]. split; [exact D2 | split; [exact K2 | split; [exact SC2 | split; [congruence | split; [congruence |]]]]].
    cbn [fst snd]. destruct (eff_empty e2) eqn:E2.
    + destruct (rdo_c_eff_empty_true _ E2) as [I2 DD2]. unfold eff_app. rewrite I2, DD2, !app_nil_r.
      destruct ST2 as (-> & -> & ->).
      change (eff_empty {| e_ins := e_ins e1; e_del := e_del e1 |}) with (eff_empty e1). cbn [e_ins e_del]. exact ST.
    + rewrite (rdo_c_eff_empty_app e1 e2 E2). destruct ST2 as (-> & -> & ->). split; [| auto].
      destruct (eff_empty e1) eqn:E1.
      * destruct (rdo_c_eff_empty_true _ E1) as [I1 DD1]. destruct ST as (-> & _ & ->).
        unfold eff_app. rewrite I1, DD1. cbn [app e_ins e_del]. unfold rdo_c_new. rewrite !rdo_c_sort_eq.
        destruct US; reflexivity.
      * destruct ST as (-> & _ & ->). cbn [rdo_sins rdo_sdel eff_app e_ins e_del]. rewrite !rdo_c_sort_merge. reflexivity.
Qed.

Lemma rdo_c_act_step u s txns : rdo_c_R u s ->
  exists s', rdo_act s (rdo_c_action (AStep txns)) = RdoOk s' /\ rdo_c_R (uact u (AStep txns)) s'.
Proof.
  intros (D & K & SC & EU & ER).
  destruct (rdo_c_step_fold (ustack u) (rstack u) (rdo_us s) (rdo_rs s) txns (u, eff0) (rdo_reset s)) as (s2 & A & J).
  { split; [exact D | split; [exact K | split; [exact SC |]]]. cbn. auto. }
  exists s2. split; [exact A |]. cbn [uact]. unfold tracked_step.
  change (fold_left _ txns (u, eff0)) with (fold_left rdo_c_stepf txns (u, eff0)).
  destruct (fold_left rdo_c_stepf txns (u, eff0)) as [u' e]. destruct J as (D2 & K2 & SC2 & U2 & R2 & ST). cbn [fst snd] in *.
  destruct (eff_empty e).
  - destruct ST as (E1 & E2 & _). split; [exact D2 | split; [exact K2 | split; [exact SC2 |]]]. rewrite E1, E2. split; congruence.
  - destruct ST as (E1 & E2 & _). split; [| split; [exact K2 | split; [exact SC2 |]]].
    + eapply rdo_c_D_ext; [exact D2 | ..]; reflexivity.
    + cbn [ustack rstack]. rewrite E1, E2. cbn. unfold rdo_c_sitem at 1. cbn. split; congruence.
Qed.

Lemma rdo_c_act_other u s cs : rdo_c_R u s ->
  exists s', rdo_act s (rdo_c_action (AOther cs)) = RdoOk s' /\ rdo_c_R (uact u (AOther cs)) s'.
Proof.
  intros (D & K & SC & EU & ER).
  destruct (rdo_refines_flat_txn_partial cs u (rdo_begin s) D) as (t' & A & D2 & _ & _ & U2 & R2).
  cbn [rdo_c_action rdo_act uact]. rewrite A. cbn [rdo_bind]. eexists. split; [reflexivity |].
  unfold other_txn, rdo_commit_other, rdo_c_R. cbn [rdo_doc rdo_clock rdo_scope rdo_us rdo_rs].
  split; [exact D2 | split; [apply rdo_c_K_do_txn; exact K | split; [exact SC | split; congruence]]].
Qed.

(* ---------------------------------------------------------------------------------------------- *)
(* C1, PARTIAL: the simulation for the actions AStep and AOther (AUndo / ARedo are only TESTED, RedoProofsCTest.v) *)
Definition rdo_c_forward (a : uaction) : bool := match a with AStep _ | AOther _ => true | _ => false end.

Theorem rdo_refines_flat_partial : forall u s a, rdo_c_forward a = true -> rdo_c_R u s ->
  exists s', rdo_act s (rdo_c_action a) = RdoOk s' /\ rdo_c_R (uact u a) s'.
Proof.
  intros u s [txns | cs | |] H R; try discriminate.
  - apply rdo_c_act_step; exact R.
  - apply rdo_c_act_other; exact R.
Qed.
Print Assumptions rdo_refines_flat_partial.

Theorem rdo_refines_flat_run_partial : forall p u s, forallb rdo_c_forward p = true -> rdo_c_R u s ->
  exists s', rdo_run s (map rdo_c_action p) = RdoOk s' /\ rdo_c_R (urun u p) s'.
Proof.
  induction p as [| a r IH]; intros u s H R.
  - exists s. split; [reflexivity | exact R].
  - cbn [forallb] in H. apply andb_prop in H. destruct H as [Ha Hr].
    destruct (rdo_refines_flat_partial u s a Ha R) as (s1 & A & R1).
    cbn [map rdo_run]. rewrite A. cbn [rdo_bind]. unfold urun. cbn [fold_left]. apply IH; assumption.
Qed.
Print Assumptions rdo_refines_flat_run_partial.

(* from the initial states: programs of capture steps and foreign transactions *)
Corollary rdo_refines_flat_run0_partial : forall p, forallb rdo_c_forward p = true ->
  exists s', rdo_run (rdo_state0 [0]) (map rdo_c_action p) = RdoOk s' /\ rdo_c_R (urun ustate0 p) s'.
Proof. intros p H. apply rdo_refines_flat_run_partial; [exact H | apply rdo_c_R0]. Qed.
Print Assumptions rdo_refines_flat_run0_partial.

(* ---------------------------------------------------------------------------------------------- *)
(* towards AUndo / ARedo: when redone pointers lead to larger ids, Store::follow_redone does not run out of fuel
   (the number of items with an id >= the current one decreases) *)
Definition rdo_c_cnt (st : list rdo_item) (i : N) : nat := length (filter (fun y => i <=? rdo_id y) st).

Lemma rdo_c_cnt_le st i r : i <= r -> (rdo_c_cnt st r <= rdo_c_cnt st i)%nat.
Proof.
  intros L. unfold rdo_c_cnt. induction st as [| z t IH]; cbn [filter]; [apply le_n |].
  destruct (r <=? rdo_id z) eqn:E1.
  - apply N.leb_le in E1. assert (E2 : (i <=? rdo_id z) = true) by (apply N.leb_le; lia). rewrite E2. cbn [length]. lia.
  - destruct (i <=? rdo_id z); cbn [length]; lia.
Qed.
Lemma rdo_c_cnt_lt st y r : In y st -> rdo_id y < r -> (rdo_c_cnt st r < rdo_c_cnt st (rdo_id y))%nat.
Proof.
  intros H L. induction st as [| z t IH]; [destruct H |]. unfold rdo_c_cnt in *. cbn [filter].
  destruct H as [-> | H].
  - assert (E1 : (r <=? rdo_id y) = false) by (apply N.leb_gt; exact L).
    assert (E2 : (rdo_id y <=? rdo_id y) = true) by (apply N.leb_le; lia). rewrite E1, E2. cbn [length].
    pose proof (rdo_c_cnt_le t (rdo_id y) r) as Q. unfold rdo_c_cnt in Q. assert (rdo_id y <= r) by lia. apply Q in H. lia.
  - specialize (IH H). destruct (r <=? rdo_id z) eqn:E1.
    + apply N.leb_le in E1. assert (E2 : (rdo_id y <=? rdo_id z) = true) by (apply N.leb_le; lia). rewrite E2. cbn [length]. lia.
    + destruct (rdo_id y <=? rdo_id z); cbn [length]; lia.
Qed.
Lemma rdo_c_cnt_bound st i : (rdo_c_cnt st i <= length st)%nat.
Proof. unfold rdo_c_cnt. induction st as [| z t IH]; cbn [filter length]; [apply le_n |]. destruct (i <=? rdo_id z); cbn [length]; lia. Qed.

Definition rdo_c_red_up (st : list rdo_item) : Prop := forall y r, In y st -> rdo_red y = Some r -> rdo_id y < r.

Theorem rdo_c_follow_total_partial : forall st, rdo_c_red_up st ->
  forall i, exists o, rdo_follow (S (length st)) st i = RdoOk o.
Proof.
  intros st UP.
  assert (G : forall f i, (rdo_c_cnt st i < f)%nat -> exists o, rdo_follow f st i = RdoOk o).
  { induction f as [| f IH]; intros i L; [lia |]. cbn [rdo_follow].
    destruct (rdo_get st i) as [y |] eqn:Gy; [| eauto].
    destruct (rdo_red y) as [r |] eqn:Ry; [| eauto].
    apply rdo_c_get_in in Gy. destruct Gy as [Hy <-].
    apply IH. pose proof (rdo_c_cnt_lt st y r Hy (UP y r Hy Ry)). lia. }
  intros i. apply G. pose proof (rdo_c_cnt_bound st i). lia.
Qed.
Print Assumptions rdo_c_follow_total_partial.

(* towards AUndo / ARedo, sequence case of ItemPtr::redo on a flat store: the redone-tracing loops stop at once
   (every parent is the root), so left = the left sibling and right = the item itself *)
Lemma rdo_c_trace_flat st j : rdo_c_flat st -> In j (map rdo_id st) ->
  rdo_trace (S (length st)) st None (Some j) = RdoOk (Some j).
Proof.
  intros F H. cbn [rdo_trace]. destruct (rdo_get st j) as [y |] eqn:G.
  - apply rdo_c_get_in in G. destruct G as [Hy _]. destruct (F y Hy) as (-> & _). reflexivity.
  - exfalso. apply in_map_iff in H. destruct H as (y & <- & Hy).
    clear F. induction st as [| z r IH]; [destruct Hy |]. cbn in G. destruct (rdo_id z =? rdo_id y) eqn:E; [discriminate |].
    destruct Hy as [-> | Hy]; [rewrite N.eqb_refl in E; discriminate | auto].
Qed.
Lemma rdo_c_lloop_flat_partial st cands : rdo_c_flat st -> (forall j, In j cands -> In j (map rdo_id st)) ->
  rdo_lloop st None cands = RdoOk (hd_error cands).
Proof.
  intros F H. destruct cands as [| l rest]; [reflexivity |]. cbn [rdo_lloop hd_error].
  rewrite rdo_c_trace_flat; [reflexivity | exact F | apply H; left; reflexivity].
Qed.
Lemma rdo_c_rloop_flat_partial st left i rest : rdo_c_flat st -> In i (map rdo_id st) -> left <> Some i ->
  rdo_rloop st None left (i :: rest) = RdoOk (Some i).
Proof.
  intros F H NE. cbn [rdo_rloop]. rewrite rdo_c_trace_flat by assumption. cbn [rdo_bind].
  destruct (rdo_on_eqb (Some i) left) eqn:E; [| reflexivity].
  apply rdo_c_on_eqb_eq in E. congruence.
Qed.
Print Assumptions rdo_c_rloop_flat_partial.

Lemma rdo_c_filter_rev {A} (f : A -> bool) l : filter f (rev l) = rev (filter f l).
Proof.
  induction l as [| z r IH]; cbn; [reflexivity |]. rewrite filter_app, IH. cbn. destruct (f z); cbn; [reflexivity | rewrite app_nil_r; reflexivity].
Qed.
Lemma rdo_c_lastid_rev c : rdo_c_lastid c None = hd_error (map rdo_id (rev c)).
Proof.
  destruct (rdo_c_rev_cases c) as [-> | (c' & y & ->)]; [reflexivity |].
  rewrite rdo_c_lastid_app, rev_app_distr. reflexivity.
Qed.

Lemma rdo_c_redo_in_seq_at c1 y c2 fr : ~ In (rdo_id y) (map rdo_id c1) ->
  redo_in_seq (map rdo_c_item (c1 ++ y :: c2)) (rdo_id y) fr =
  (map rdo_c_item c1 ++ mk fr (rdo_c_tok (rdo_cnt y)) false None :: rdo_c_item (rdo_set_red y fr) :: map rdo_c_item c2, true).
Proof.
  induction c1 as [| z r IH]; intros H; cbn [app map redo_in_seq].
  - cbn [u_id rdo_c_item mk]. rewrite N.eqb_refl. reflexivity.
  - cbn [u_id rdo_c_item mk]. cbn in H. destruct (rdo_id z =? rdo_id y) eqn:E; [apply N.eqb_eq in E; tauto |].
    rewrite IH by tauto. reflexivity.
Qed.

Lemma rdo_c_D_setred u nx pre y a r :
  rdo_c_D u (pre ++ y :: a) nx -> rdo_sub y = None ->
  rdo_c_D {| seqc := map rdo_c_item (rdo_chain pre (RdoRoot 0) None) ++ rdo_c_item (rdo_set_red y r) :: map rdo_c_item (rdo_chain a (RdoRoot 0) None);
             mapc := mapc u; unext := unext u; ustack := ustack u; rstack := rstack u |}
          (pre ++ rdo_set_red y r :: a) nx.
Proof.
  intros (F & ND & LT & HS & HM & HN) Sy.
  assert (Py : rdo_par y = RdoRoot 0) by (apply (F y); apply in_or_app; right; left; reflexivity).
  split; [| split; [| split; [| split; [| split]]]].
  - intros z Hz. apply in_app_or in Hz. destruct Hz as [Hz | [<- | Hz]].
    + apply F. apply in_or_app. left. exact Hz.
    + apply (F y). apply in_or_app. right. left. reflexivity.
    + apply F. apply in_or_app. right. right. exact Hz.
  - rewrite map_app in *. exact ND.
  - intros z Hz. apply in_app_or in Hz. destruct Hz as [Hz | [<- | Hz]].
    + apply LT. apply in_or_app. left. exact Hz.
    + apply (LT y). apply in_or_app. right. left. reflexivity.
    + apply LT. apply in_or_app. right. right. exact Hz.
  - cbn [seqc]. unfold rdo_c_chain. rewrite rdo_c_chain_mid1.
    change (rdo_in_chain (RdoRoot 0) None (rdo_set_red y r)) with (rdo_in_chain (RdoRoot 0) None y).
    unfold rdo_in_chain. rewrite Py, Sy. cbn. rewrite map_app. reflexivity.
  - intros k. cbn [mapc]. rewrite HM. unfold rdo_c_chain. rewrite !rdo_c_chain_mid1.
    change (rdo_in_chain (RdoRoot 0) (Some k) (rdo_set_red y r)) with (rdo_in_chain (RdoRoot 0) (Some k) y).
    unfold rdo_in_chain. rewrite Sy. cbn [rdo_on_eqb]. rewrite andb_false_r. reflexivity.
  - exact HN.
Qed.

(* ItemPtr::redo of a sequence unit that has no copy yet: the copy is linked immediately in front of it *)
Lemma rdo_c_redo_seq_partial u t i f ri td s1 s2 y :
  rdo_c_D u (rdo_st t) (rdo_next t) -> rdo_get (rdo_st t) i = Some y -> rdo_sub y = None -> rdo_red y = None ->
  exists t', rdo_redo (S f) t i ri td s1 s2 = RdoOk (t', Some (rdo_next t)) /\
    rdo_c_D {| seqc := fst (redo_in_seq (seqc u) i (unext u)); mapc := mapc u; unext := unext u + 1; ustack := ustack u; rstack := rstack u |}
            (rdo_st t') (rdo_next t') /\
    rdo_tins t' = rdo_tins t ++ [rdo_next t] /\ rdo_tdel t' = rdo_tdel t.
Proof.
  intros D G Sy Ry. pose proof D as (F & ND & LT & HS & HM & HN).
  pose proof (rdo_c_get_in _ _ _ G) as [Hy Iy]. destruct (F y Hy) as (Py & vy & Cy). subst i.
  destruct (in_split _ _ Hy) as (pre & a & ES).
  assert (NP : ~ In (rdo_id y) (map rdo_id pre)) by (rewrite ES in ND; eapply rdo_c_nodup_pre; exact ND).
  assert (FX : ~ In (rdo_next t) (map rdo_id (rdo_st t))).
  { intros H. apply in_map_iff in H. destruct H as (z & Ez & Hz). apply LT in Hz. lia. }
  set (L := rdo_c_lastid (rdo_chain pre (RdoRoot 0) None) None).
  assert (LF : rdo_lefts (rdo_st t) (rdo_id y) = map rdo_id (rev (rdo_chain pre (RdoRoot 0) None))).
  { unfold rdo_lefts. rewrite ES, rdo_c_split_at by exact NP. rewrite app_nil_r, Py, Sy. unfold rdo_chain. rewrite rdo_c_filter_rev. reflexivity. }
  assert (LIN : forall j, In j (map rdo_id (rev (rdo_chain pre (RdoRoot 0) None))) -> In j (map rdo_id pre)).
  { intros j Hj. apply in_map_iff in Hj. destruct Hj as (z & <- & Hz). apply in_rev in Hz. apply rdo_c_chain_in in Hz. apply in_map. tauto. }
  assert (EL : rdo_lloop (rdo_st t) None (rdo_lefts (rdo_st t) (rdo_id y)) = RdoOk L).
  { rewrite rdo_c_lloop_flat_partial; [rewrite LF; unfold L; rewrite rdo_c_lastid_rev; reflexivity | exact F |].
    intros j Hj. rewrite LF in Hj. apply LIN in Hj. rewrite ES, map_app. apply in_or_app. left. exact Hj. }
  assert (ER : rdo_rloop (rdo_st t) None L (rdo_id y :: rdo_rights (rdo_st t) (rdo_id y)) = RdoOk (Some (rdo_id y))).
  { apply rdo_c_rloop_flat_partial; [exact F | apply in_map; exact Hy |].
    unfold L. rewrite rdo_c_lastid_rev. intros E. apply NP. apply LIN.
    destruct (map rdo_id (rev (rdo_chain pre (RdoRoot 0) None))) as [| j0 r0]; [discriminate |]. cbn in E. inversion E. left. reflexivity. }
  cbn [rdo_redo]. rewrite G, Ry, Py. cbn [rdo_par_item rdo_bind rdo_unwrap_parent]. rewrite Sy.
  rewrite EL. cbn [rdo_bind]. rewrite ER. cbn [rdo_bind].
  assert (EU : rdo_update (rdo_st t) (rdo_id y) (fun y0 => rdo_set_red y0 (rdo_next t)) = pre ++ rdo_set_red y (rdo_next t) :: a)
    by (rewrite ES; apply rdo_c_update_at; exact NP).
  rewrite EU.
  set (t2 := {| rdo_st := pre ++ rdo_set_red y (rdo_next t) :: a; rdo_next := rdo_next t + 1; rdo_tins := rdo_tins t; rdo_tdel := rdo_tdel t |}).
  set (copy := {| rdo_id := rdo_next t; rdo_par := RdoRoot 0; rdo_sub := None; rdo_cnt := rdo_cnt y; rdo_del := false; rdo_keep := true;
                  rdo_red := None; rdo_org := L; rdo_rorg := Some (rdo_id y) |}).
  assert (IDS : map rdo_id (rdo_st t2) = map rdo_id (rdo_st t)).
  { unfold t2. cbn [rdo_st]. rewrite ES, !map_app. reflexivity. }
  destruct (rdo_c_integrate_ins t2 copy (rdo_chain pre (RdoRoot 0) None) (rdo_set_red y (rdo_next t) :: rdo_chain a (RdoRoot 0) None))
    as (pre' & a' & ES' & E1 & E2 & EI).
  { reflexivity. } { reflexivity. } { rewrite IDS. exact ND. } { rewrite IDS. exact FX. }
  { unfold t2. cbn [rdo_st]. rewrite rdo_c_chain_mid1.
    change (rdo_in_chain (RdoRoot 0) None (rdo_set_red y (rdo_next t))) with (rdo_in_chain (RdoRoot 0) None y).
    unfold rdo_in_chain. rewrite Py, Sy. reflexivity. }
  fold L in EI. cbn [hd_error option_map rdo_id rdo_set_red] in EI. rewrite EI. cbn [rdo_bind].
  eexists. split; [reflexivity |]. cbn [rdo_st rdo_next rdo_tins rdo_tdel].
  split; [| split; reflexivity].
  rewrite ES in D. pose proof (rdo_c_D_setred u (rdo_next t) pre y a (rdo_next t) D Sy) as D2.
  unfold t2 in ES'. cbn [rdo_st] in ES'. rewrite ES' in D2.
  eapply (rdo_c_D_ins _ (rdo_next t) pre' a' copy vy); [exact D2 | reflexivity | reflexivity | reflexivity | exact Cy | | cbn [unext]; rewrite HN; reflexivity | reflexivity].
  cbn [seqc]. rewrite HS. unfold rdo_c_chain. rewrite ES, rdo_c_chain_mid1.
  assert (CY : rdo_in_chain (RdoRoot 0) None y = true) by (unfold rdo_in_chain; rewrite Py, Sy; reflexivity).
  rewrite CY. cbn [app]. rewrite rdo_c_redo_in_seq_at.
  - cbn [fst]. rewrite E1, E2, HN. reflexivity.
  - intros H. apply NP. apply in_map_iff in H. destruct H as (z & Ez & Hz). apply rdo_c_chain_in in Hz. rewrite <- Ez. apply in_map. tauto.
Qed.
Print Assumptions rdo_c_redo_seq_partial.

(* lookup in all_items = lookup in the store *)
Lemma rdo_c_ufind u st nx i y : rdo_c_D u st nx -> rdo_c_K u -> rdo_get st i = Some y ->
  ufind (all_items u) i = Some (rdo_c_item y).
Proof.
  intros D K G. pose proof D as (F & ND & _).
  pose proof (rdo_c_get_in _ _ _ G) as [Hy Iy].
  assert (IN : In (rdo_c_item y) (all_items u)) by (apply (rdo_c_all_items u st nx D K); eauto).
  destruct (ufind_some_of_in (all_items u) i) as (z & Fz).
  { apply in_map_iff. exists (rdo_c_item y). split; [exact Iy | exact IN]. }
  rewrite Fz. apply ufind_in in Fz. destruct Fz as [Hz Iz].
  apply (rdo_c_all_items u st nx D K) in Hz. destruct Hz as (y' & Hy' & ->).
  cbn in Iz. pose proof (rdo_c_get_of_in st ND y' Hy') as G'. rewrite Iz, G in G'. congruence.
Qed.

(* the flat redo_item on such a unit is the sequence case *)
Lemma rdo_c_redo_item_seq_partial u st nx i y td s1 s2 : rdo_c_D u st nx -> rdo_c_K u ->
  rdo_get st i = Some y -> rdo_sub y = None -> rdo_red y = None ->
  redo_item u i td s1 s2 =
  ({| seqc := fst (redo_in_seq (seqc u) i (unext u)); mapc := mapc u; unext := unext u + 1; ustack := ustack u; rstack := rstack u |},
   true, {| e_ins := [unext u]; e_del := [] |}).
Proof.
  intros D K G Sy Ry. unfold redo_item. rewrite (rdo_c_ufind u st nx i y D K G). cbn [u_red rdo_c_item mk]. rewrite Ry.
  pose proof D as (F & ND & _ & HS & _).
  pose proof (rdo_c_get_in _ _ _ G) as [Hy Iy]. destruct (F y Hy) as (Py & _).
  assert (EX : existsb (fun z => u_id z =? i) (seqc u) = true).
  { apply existsb_exists. exists (rdo_c_item y). split; [| cbn; rewrite Iy; apply N.eqb_refl].
    rewrite HS. unfold rdo_c_chain. apply in_map. apply rdo_c_chain_in. split; [exact Hy |].
    unfold rdo_in_chain. rewrite Py, Sy. reflexivity. }
  rewrite EX. destruct (redo_in_seq (seqc u) i (unext u)). reflexivity.
Qed.
Print Assumptions rdo_c_redo_item_seq_partial.

Lemma rdo_c_ufind_none u st nx i : rdo_c_D u st nx -> rdo_c_K u -> rdo_get st i = None -> ufind (all_items u) i = None.
Proof.
  intros D K G. destruct (ufind (all_items u) i) as [z |] eqn:Fz; [| reflexivity]. exfalso.
  apply ufind_in in Fz. destruct Fz as [Hz Iz]. apply (rdo_c_all_items u st nx D K) in Hz. destruct Hz as (y & Hy & ->).
  destruct D as (_ & ND & _). pose proof (rdo_c_get_of_in st ND y Hy) as G'. cbn in Iz. rewrite Iz, G in G'. discriminate.
Qed.

(* Store::follow_redone: with the same fuel the two models follow the same pointers *)
Lemma rdo_c_follow_agree_partial u st nx : rdo_c_D u st nx -> rdo_c_K u -> forall f i,
  match rdo_follow f st i with
  | RdoOk o => ufollow f (all_items u) i = option_map rdo_c_item o
  | RdoErr _ => ufollow f (all_items u) i = None
  end.
Proof.
  intros D K. induction f as [| f IH]; intros i; cbn [rdo_follow ufollow]; [reflexivity |].
  destruct (rdo_get st i) as [y |] eqn:G.
  - rewrite (rdo_c_ufind u st nx i y D K G). cbn [u_red rdo_c_item mk].
    destruct (rdo_red y) as [r |]; [apply IH | reflexivity].
  - rewrite (rdo_c_ufind_none u st nx i D K G). reflexivity.
Qed.
Print Assumptions rdo_c_follow_agree_partial.

(* delete_id (the deletions of try_process) vs rdo_txn_delete *)
Lemma rdo_c_umark c i : umark_deleted (map rdo_c_item c) i = map rdo_c_item (rdo_update c i rdo_set_del).
Proof.
  induction c as [| z r IH]; cbn [map umark_deleted rdo_update]; [reflexivity |].
  cbn [u_id rdo_c_item mk]. destruct (rdo_id z =? i); cbn [map]; [reflexivity | rewrite IH; reflexivity].
Qed.
Lemma rdo_c_chain_of_umark m i : forall k,
  chain_of (map (fun kc : N * list uitem => (fst kc, umark_deleted (snd kc) i)) m) k = umark_deleted (chain_of m k) i.
Proof.
  induction m as [| [k0 c0] r IH]; intros k; cbn [map chain_of fst snd]; [reflexivity |].
  destruct (k0 =? k); [reflexivity | apply IH].
Qed.
Lemma rdo_c_set_del_id y : rdo_del y = true -> rdo_set_del y = y.
Proof. destruct y. cbn. intros ->. reflexivity. Qed.
Lemma rdo_c_update_del_id st i y : rdo_get st i = Some y -> rdo_del y = true -> rdo_update st i rdo_set_del = st.
Proof.
  induction st as [| z r IH]; cbn; intros G Dy; [reflexivity |].
  destruct (rdo_id z =? i); [inversion G; subst; rewrite rdo_c_set_del_id by exact Dy; reflexivity | rewrite IH; auto].
Qed.

Lemma rdo_c_delete_id_partial u t i y : rdo_c_D u (rdo_st t) (rdo_next t) -> rdo_get (rdo_st t) i = Some y ->
  exists t', rdo_txn_delete t i = RdoOk t' /\ rdo_c_D (delete_id u i) (rdo_st t') (rdo_next t') /\
             rdo_tins t' = rdo_tins t /\ rdo_tdel t' = rdo_tdel t ++ (if rdo_del y then [] else [i]).
Proof.
  intros D G. pose proof D as (F & ND & LT & HS & HM & HN).
  pose proof (rdo_c_get_in _ _ _ G) as [Hy Iy]. destruct (F y Hy) as (Py & vy & Cy).
  rewrite (rdo_c_txn_delete_val t i y vy G Cy).
  assert (DD : rdo_c_D (delete_id u i) (rdo_update (rdo_st t) i rdo_set_del) (rdo_next t)).
  { subst i.
    assert (CY : rdo_in_chain (RdoRoot 0) (rdo_sub y) y = true) by (unfold rdo_in_chain; rewrite Py; cbn; apply rdo_c_on_eqb_refl).
    assert (OTHER : forall sub, rdo_on_eqb (rdo_sub y) sub = false ->
              rdo_update (rdo_chain (rdo_st t) (RdoRoot 0) sub) (rdo_id y) rdo_set_del = rdo_chain (rdo_st t) (RdoRoot 0) sub).
    { intros sub E. apply rdo_c_update_notin. intros H. apply in_map_iff in H. destruct H as (z & Ez & Hz).
      apply rdo_c_chain_in in Hz. destruct Hz as [Hz Cz].
      pose proof (rdo_c_get_of_in _ ND z Hz) as Gz. rewrite Ez, G in Gz. inversion Gz; subst z.
      rewrite (rdo_c_in_chain_other _ sub y CY) in Cz. congruence. }
    eapply (rdo_c_D_delete u (rdo_st t) (rdo_next t) y (rdo_sub y)); [exact D | exact Hy | exact CY | reflexivity | |].
    - cbn [delete_id seqc]. rewrite HS. unfold rdo_c_chain. rewrite rdo_c_umark.
      destruct (rdo_on_eqb (rdo_sub y) None) eqn:E; [reflexivity | rewrite OTHER by exact E; reflexivity].
    - intros k. cbn [delete_id mapc]. rewrite rdo_c_chain_of_umark, HM. unfold rdo_c_chain. rewrite rdo_c_umark.
      destruct (rdo_on_eqb (rdo_sub y) (Some k)) eqn:E; [reflexivity | rewrite OTHER by exact E; reflexivity]. }
  destruct (rdo_del y) eqn:Dy.
  - eexists. split; [reflexivity |]. cbn [rdo_st rdo_next rdo_tins rdo_tdel].
    rewrite (rdo_c_update_del_id _ _ _ G Dy) in DD. auto.
  - eexists. split; [reflexivity |]. cbn [rdo_st rdo_next rdo_tins rdo_tdel]. auto.
Qed.
Print Assumptions rdo_c_delete_id_partial.

(* the insertions of a stack entry resolved through their copies (to_delete of try_process) *)
Definition rdo_c_red_ex (st : list rdo_item) : Prop := forall y r, In y st -> rdo_red y = Some r -> In r (map rdo_id st).

Lemma rdo_c_get_some st i : In i (map rdo_id st) -> exists y, rdo_get st i = Some y.
Proof.
  induction st as [| z r IH]; cbn; intros H; [destruct H |].
  destruct (rdo_id z =? i) eqn:E; [eauto |]. destruct H as [H | H]; [apply N.eqb_neq in E; tauto | auto].
Qed.

Lemma rdo_c_follow_some st : rdo_c_red_up st -> rdo_c_red_ex st -> forall i, In i (map rdo_id st) ->
  exists y, rdo_follow (S (length st)) st i = RdoOk (Some y) /\ In y st.
Proof.
  intros UP EX.
  assert (G : forall f i, (rdo_c_cnt st i < f)%nat -> In i (map rdo_id st) -> exists y, rdo_follow f st i = RdoOk (Some y) /\ In y st).
  { induction f as [| f IH]; intros i L Hi; [lia |]. cbn [rdo_follow].
    destruct (rdo_c_get_some st i Hi) as (y & Gy). rewrite Gy.
    apply rdo_c_get_in in Gy. destruct Gy as [Hy <-].
    destruct (rdo_red y) as [r |] eqn:Ry; [| eauto].
    apply IH; [| exact (EX y r Hy Ry)]. pose proof (rdo_c_cnt_lt st y r Hy (UP y r Hy Ry)). lia. }
  intros i Hi. apply G; [| exact Hi]. pose proof (rdo_c_cnt_bound st i). lia.
Qed.

Lemma rdo_c_length_le u st nx : rdo_c_D u st nx -> rdo_c_K u -> (length st <= length (all_items u))%nat.
Proof.
  intros D K. pose proof D as (_ & ND & _).
  rewrite <- (map_length rdo_id st), <- (map_length u_id (all_items u)).
  apply NoDup_incl_length; [exact ND |]. intros i Hi. apply (rdo_c_all_ids u st nx D K). exact Hi.
Qed.

Definition rdo_c_td_step (st : list rdo_item) (scope : list N) (acc : rdo_res (option (list N))) (i : N) : rdo_res (option (list N)) :=
  rdo_let o := acc in
  match o with
  | None => RdoOk None
  | Some l =>
      match rdo_get st i with
      | None => RdoOk (Some l)
      | Some _ =>
          rdo_let fo := rdo_follow (S (length st)) st i in
          match fo with
          | None => RdoOk None
          | Some y => if negb (rdo_del y) && rdo_in_scope st scope (rdo_id y) then RdoOk (Some (l ++ [rdo_id y])) else RdoOk (Some l)
          end
      end
  end.

Lemma rdo_c_to_delete_partial u st nx : rdo_c_D u st nx -> rdo_c_K u -> rdo_c_red_up st -> rdo_c_red_ex st ->
  forall ins l,
  fold_left (rdo_c_td_step st [0]) ins (RdoOk (Some l)) =
  RdoOk (Some (l ++ flat_map (fun i => match ufollow (S (length (all_items u))) (all_items u) i with
                                       | Some y => if u_del y then [] else [u_id y]
                                       | None => []
                                       end) ins)).
Proof.
  intros D K UP EX. pose proof D as (F & ND & _).
  induction ins as [| i r IH]; intros l; cbn [fold_left flat_map]; [rewrite app_nil_r; reflexivity |].
  unfold rdo_c_td_step at 2. cbn [rdo_bind].
  destruct (rdo_get st i) as [y0 |] eqn:G.
  - apply rdo_c_get_in in G. destruct G as [H0 I0].
    destruct (rdo_c_follow_some st UP EX i) as (y & FY & Hy); [rewrite <- I0; apply in_map; exact H0 |].
    rewrite FY. cbn [rdo_bind].
    pose proof (rdo_c_follow_agree_partial u st nx D K (S (length st)) i) as AG. rewrite FY in AG. cbn [option_map] in AG.
    rewrite (ufollow_mono _ _ _ _ AG (S (length (all_items u)))) by (pose proof (rdo_c_length_le u st nx D K); lia).
    cbn [u_del u_id rdo_c_item mk].
    rewrite (rdo_c_in_scope st (rdo_id y) F (in_map rdo_id _ _ Hy)).
    destruct (rdo_del y); cbn [negb andb]; rewrite IH; [reflexivity | rewrite <- app_assoc; reflexivity].
  - pose proof (rdo_c_ufind_none u st nx i D K G) as UN. cbn [ufollow]. rewrite UN. cbn [app]. apply IH.
Qed.
Print Assumptions rdo_c_to_delete_partial.

(* ItemPtr::redo of a unit that has a copy already *)
Lemma rdo_c_redo_done_partial u t i f ri td s1 s2 fs1 fs2 y r :
  rdo_c_D u (rdo_st t) (rdo_next t) -> rdo_c_K u -> rdo_get (rdo_st t) i = Some y -> rdo_red y = Some r ->
  In r (map rdo_id (rdo_st t)) ->
  rdo_redo (S f) t i ri td s1 s2 = RdoOk (t, Some r) /\ redo_item u i td fs1 fs2 = (u, true, eff0).
Proof.
  intros D K G Ry Hr. split.
  - cbn [rdo_redo]. rewrite G, Ry. destruct (rdo_c_get_some _ _ Hr) as (z & ->). reflexivity.
  - unfold redo_item. rewrite (rdo_c_ufind u _ _ i y D K G). cbn [u_red rdo_c_item mk]. rewrite Ry. reflexivity.
Qed.
Print Assumptions rdo_c_redo_done_partial.

(* the deletions of try_process: fold of rdo_txn_delete vs fold of delete_id; the delete_set grows by the ids that were live *)
Definition rdo_c_live_now (u : ustate) (i : N) : bool :=
  match ufind (all_items u) i with Some y => negb (u_del y) | None => false end.

Lemma rdo_c_K_delete_id u i : rdo_c_K u -> rdo_c_K (delete_id u i).
Proof. unfold rdo_c_K, keys_of. cbn [delete_id mapc]. rewrite map_map. cbn [fst]. auto. Qed.

Lemma rdo_c_get_update_other st i j f : (forall y, rdo_id (f y) = rdo_id y) -> i <> j -> rdo_get (rdo_update st i f) j = rdo_get st j.
Proof.
  intros Hf NE. induction st as [| z r IH]; cbn; [reflexivity |].
  destruct (rdo_id z =? i) eqn:E; cbn.
  - rewrite Hf. apply N.eqb_eq in E. destruct (rdo_id z =? j) eqn:E2; [apply N.eqb_eq in E2; congruence | reflexivity].
  - destruct (rdo_id z =? j); [reflexivity | exact IH].
Qed.

Lemma rdo_c_delete_fold_partial : forall l u t, NoDup l ->
  rdo_c_D u (rdo_st t) (rdo_next t) -> rdo_c_K u -> (forall i, In i l -> In i (map rdo_id (rdo_st t))) ->
  exists t', fold_left (fun acc i => rdo_let t0 := acc in rdo_txn_delete t0 i) l (RdoOk t) = RdoOk t' /\
             rdo_c_D (fold_left delete_id l u) (rdo_st t') (rdo_next t') /\ rdo_c_K (fold_left delete_id l u) /\
             rdo_tins t' = rdo_tins t /\ rdo_tdel t' = rdo_tdel t ++ filter (rdo_c_live_now u) l /\
             map rdo_id (rdo_st t') = map rdo_id (rdo_st t).
Proof.
  induction l as [| i r IH]; intros u t NDl D K EX; cbn [fold_left filter].
  - exists t. rewrite app_nil_r. auto 10.
  - inversion NDl as [| ? ? NI NDr]; subst.
    destruct (rdo_c_get_some _ i (EX i (or_introl eq_refl))) as (y & G).
    destruct (rdo_c_delete_id_partial u t i y D G) as (t1 & A & D1 & I1 & DD1).
    pose proof (rdo_c_K_delete_id u i K) as K1.
    pose proof D as (F & ND & _). destruct (F y (proj1 (rdo_c_get_in _ _ _ G))) as (_ & vy & Cy).
    assert (ST1 : rdo_st t1 = rdo_st t \/ rdo_st t1 = rdo_update (rdo_st t) i rdo_set_del).
    { rewrite (rdo_c_txn_delete_val t i y vy G Cy) in A. inversion A. destruct (rdo_del y); cbn; auto. }
    assert (IDS : map rdo_id (rdo_st t1) = map rdo_id (rdo_st t)).
    { destruct ST1 as [-> | ->]; [reflexivity | apply rdo_c_update_ids; reflexivity]. }
    cbn [rdo_bind]. rewrite A.
    destruct (IH (delete_id u i) t1 NDr D1 K1) as (t' & A' & D' & K' & I' & DD' & IDS').
    { intros j Hj. rewrite IDS. apply EX. right. exact Hj. }
    exists t'. split; [exact A' | split; [exact D' | split; [exact K' | split; [congruence | split; [| congruence]]]]].
    rewrite DD', DD1, <- app_assoc. f_equal.
    assert (LI : rdo_c_live_now u i = negb (rdo_del y)).
    { unfold rdo_c_live_now. rewrite (rdo_c_ufind u _ _ i y D K G). reflexivity. }
    rewrite LI.
    assert (REST : filter (rdo_c_live_now (delete_id u i)) r = filter (rdo_c_live_now u) r).
    { apply filter_ext_in. intros j Hj. assert (NE : i <> j) by (intros ->; tauto).
      unfold rdo_c_live_now.
      assert (GJ : rdo_get (rdo_st t1) j = rdo_get (rdo_st t) j).
      { destruct ST1 as [-> | ->]; [reflexivity | apply rdo_c_get_update_other; [reflexivity | exact NE]]. }
      destruct (rdo_get (rdo_st t) j) as [z |] eqn:GZ.
      - rewrite (rdo_c_ufind u _ _ j z D K GZ), (rdo_c_ufind (delete_id u i) _ _ j z D1 K1 GJ). reflexivity.
      - rewrite (rdo_c_ufind_none u _ _ j D K GZ), (rdo_c_ufind_none (delete_id u i) _ _ j D1 K1 GJ). reflexivity. }
    rewrite REST. destruct (rdo_del y); reflexivity.
Qed.
Print Assumptions rdo_c_delete_fold_partial.

(* handle_after_transaction for the transaction of an undo / redo call: captured iff it has effects; pushed on the other stack *)
Lemma rdo_c_after_pop_partial u s0 t (undoing : bool) :
  rdo_c_D u (rdo_st t) (rdo_next t) -> rdo_scope s0 = [0] ->
  (forall i, In i (rdo_tins t ++ rdo_tdel t) -> In i (map rdo_id (rdo_st t))) ->
  let s' := rdo_after_txn s0 t (if undoing then RdoUndoing else RdoRedoing) in
  let e := {| rdo_sins := rdo_sort (rdo_tins t); rdo_sdel := rdo_sort (rdo_tdel t) |} in
  rdo_c_D u (rdo_doc s') (rdo_clock s') /\ rdo_scope s' = [0] /\
  rdo_us s' = (if undoing then rdo_us s0 else match rdo_tins t ++ rdo_tdel t with [] => rdo_us s0 | _ => e :: rdo_us s0 end) /\
  rdo_rs s' = (if undoing then match rdo_tins t ++ rdo_tdel t with [] => rdo_rs s0 | _ => e :: rdo_rs s0 end else rdo_rs s0).
Proof.
  intros D SC EX. cbv zeta. unfold rdo_after_txn. rewrite SC.
  rewrite (rdo_c_captured (rdo_st t)) by (exact EX || apply D).
  destruct (rdo_tins t ++ rdo_tdel t) as [| i0 r0]; cbn [negb].
  - cbn [rdo_doc rdo_clock rdo_scope rdo_us rdo_rs]. destruct undoing; auto.
  - assert (DK : rdo_c_D u (rdo_keep_all (rdo_st t) [0] (rdo_sort (rdo_tdel t)) true) (rdo_next t)).
    { eapply rdo_c_D_same; [exact D |]. unfold rdo_c_same. rewrite rdo_c_keep_all. reflexivity. }
    destruct undoing; cbn [rdo_doc rdo_clock rdo_scope rdo_us rdo_rs]; auto.
Qed.
Print Assumptions rdo_c_after_pop_partial.

(* ---------------------------------------------------------------------------------------------- *)
(* The STRONGER invariant proposed for AUndo / ARedo (definition only; its boolean form rdo_c_invb is TESTED along the
   programs of RedoProofsCTest.v, Examples rdo_c_test_inv_small5 / big2 / other3): redone pointers lead to a larger id in the
   same chain, the ids of the stack entries exist, the chains of the map have increasing ids.  It implies the hypotheses
   rdo_c_red_up / rdo_c_red_ex of the blocks above (rdo_c_inv_red). *)
Definition rdo_c_inv (s : rdo_state) : Prop :=
  (forall y r, In y (rdo_doc s) -> rdo_red y = Some r ->
     rdo_id y < r /\ exists z, In z (rdo_doc s) /\ rdo_id z = r /\ rdo_sub z = rdo_sub y) /\
  (forall e i, In e (rdo_us s ++ rdo_rs s) -> In i (rdo_sins e ++ rdo_sdel e) -> In i (map rdo_id (rdo_doc s))) /\
  (forall k, incr (map rdo_id (rdo_chain (rdo_doc s) (RdoRoot 0) (Some k)))).

Lemma rdo_c_inv_red s : rdo_c_inv s -> rdo_c_red_up (rdo_doc s) /\ rdo_c_red_ex (rdo_doc s).
Proof.
  intros (A & _ & _). split.
  - intros y r Hy Ry. apply (A y r Hy Ry).
  - intros y r Hy Ry. destruct (A y r Hy Ry) as (_ & z & Hz & <- & _). apply in_map. exact Hz.
Qed.
Lemma rdo_c_inv0 : rdo_c_inv (rdo_state0 [0]).
Proof. split; [| split]; cbn; intros; try contradiction; exact I. Qed.

