(* Block-level bookkeeping of quotations (weak links over a range of a sequence): which blocks carry the
   `linked` flag and which are registered in `Store::linked_by` for which quotation.

   Rust (yrs, feature `weak`), function by function:

     lkb_contains, lkb_last_id      block.rs        Item::contains, Item::last_id
     lkb_get / lkb_del / lkb_put    store.rs        Store::linked_by : HashMap<ItemPtr, HashSet<BranchPtr>>
                                                    (get / remove / insert; a key is the block's first id:
                                                    ItemPtr compares by id)
     lkb_extend, lkb_add                            `linked_by.entry(k).or_default().extend(..)` / `.insert(q)`
     lkb_range_end, lkb_range_step  iter.rs         RangeIter::next (second half: the end offset) and
                                                    RangeIter::begin + the state match of RangeIter::next
     lkb_splice                     block.rs        ItemPtr::splice (offset 0 => None; `info` is cloned: the
                                                    right half has the same `linked` flag and deleted flag)
     lkb_store_materialize          store.rs        Store::materialize(slice)  (split at slice.start, then at
                                                    slice.len(); `links` of a flagged block copied to the new
                                                    halves with entry().or_default().extend())
     lkb_get_item                   sticky_index.rs StickyIndex::get_item (Relative id / branch scope, Before)
     lkb_mat_walk, lkb_link_materialize
                                    types/weak.rs   LinkSource::materialize, sequence branch (parent_sub = None):
                                                    `while let Some(slice) = i.next() { materialize unless
                                                    adjacent; set_linked; entry(item).or_default().insert }`
     lkb_split                      store.rs        Store::split_block (fix 19d2098)
     lkb_split_old                  block_store.rs  BlockStore::split_block alone = Store-level behaviour before
                                                    19d2098 (still what TransactionMut::split_by_snapshot calls)
     lkb_join_common, lkb_integrate types/weak.rs   join_linked_range;  block.rs TransactionMut::integrate_item:
                                                    `if item.parent_sub.is_none() && !item.is_deleted()` and
                                                    `left.is_linked() || right.is_linked()`
     lkb_delete                     transaction.rs  TransactionMut::delete (`if item.info.is_linked()
                                                    { if let Some(l) = linked_by.remove(&item) { notify each } }`)
     lkb_unlink, lkb_unlink_walk, lkb_unlink_all
                                    transaction.rs  TransactionMut::unlink;  types/weak.rs LinkSource::unlink_all
     lkb_try_squash, lkb_squash     block.rs        Item::try_squash (the conditions on client, clock, deleted,
                                                    linked); block_store.rs squash_left

   Where the model is more abstract than the code:
   - ONE sequence (the children of one branch, parent_sub = None) as a list of blocks in document order; the
     left/right pointers are list adjacency; the per-client block lists (`blocks.find_index(..).unwrap()`,
     `blocks.insert(i + 1, ..)`) are not modelled.  GC and Skip blocks do not occur in the list.
   - a block is (first id, length, deleted, linked); content, origin, right_origin, redone, keep are not
     modelled.  In lkb_try_squash the conditions on them are one boolean argument `compat`.
   - a quotation is a number (the BranchPtr of the link) with its two bounds in a table `lkb_quotes`
     (`link.type_ref = TypeRef::WeakLink(source)`); a number without a row is a branch that is not a weak link.
     Bounds as in Crdt/Links.v: start Some (a, true) = (a, Assoc::Before), Some (a, false) = (a, Assoc::After),
     end Some (b, true) = (b, Assoc::After), Some (b, false) = (b, Assoc::Before), None = branch scope with
     the association Quotable::quote gives it.
   - HashSet<BranchPtr> is a list without repetitions, HashMap a list of pairs with distinct keys; iteration
     order of the sets is the list order (no result below depends on it: lkb_join_common is two filters).
   - RangeIter is a pull iterator over BlockIter; LinkSource::materialize calls Store::materialize on the
     slice between two `next` calls.  BlockIter::next has already read `right` of the block it returns, so
     splitting that block does not change what the iterator yields next.  lkb_mat_walk is therefore ONE
     structural recursion over the blocks that carries RangeIterState: a turn of the `while` loop of `begin`
     that does not find the start = lkb_skip lkb_opened; the start found at the last element of a block
     with Assoc::After = lkb_skip lkb_inrange; one `next` that returns a slice = lkb_emit; `next` returning
     None (empty last slice, or state Closed) ends the `while let` = lkb_stop.
   - u32 arithmetic is N arithmetic with explicit failure values where the code would underflow, unwrap
     None or trip `debug_assert!(start <= end)` (codes below).
   - map-entry quotations (parent_sub = Some, Item::inherit_links) and the notification cascade
     (add_changed_type, call_type_observers) are not modelled; lkb_delete returns the list of quotations
     `add_changed_type` is called for.
   - gc: Item::gc with parent_gc = false keeps the item (id, length, flags) and replaces the content; nothing
     of this model changes.  With parent_gc = true the item is replaced by a GC range while a registered
     tombstone keeps its key in linked_by (see REPORT.md); that is outside the one-sequence model.

   Failure codes: 1 `ptr.len() - 1` with length 0; 2 `offset -= 1` at offset 0; 3 ItemSlice::new with
   start > end; 4 splice at or beyond the length (`content.splice(..).unwrap()`); 6 `.unwrap()` of a splice
   that returned None; 10 quotation without a row in the table. *)
From Coq Require Import List NArith Bool Arith.
From YV Require Import Codec.UpdateV1 Crdt.Links.
Import ListNotations.
Open Scope N_scope.

Inductive lkb_res (A : Type) : Type := lkb_ok (a : A) | lkb_fail (code : N).
Arguments lkb_ok {A} a.
Arguments lkb_fail {A} code.

Record lkb_block := lkb_mkb { lkb_bid : id; lkb_blen : N; lkb_bdel : bool; lkb_blinked : bool }.
Definition lkb_links : Type := list (id * list N).
Record lkb_quote := lkb_mkq { lkb_qid : N; lkb_qstart : lk_bound; lkb_qend : lk_bound }.
Record lkb_store := lkb_mks {
  lkb_blocks : list lkb_block;
  lkb_linked_by : lkb_links;
  lkb_quotes : list lkb_quote
}.

(* ---------- sets and maps ---------- *)
Definition lkb_nmem (q : N) (l : list N) : bool := existsb (N.eqb q) l.
Definition lkb_nremove (q : N) (l : list N) : list N := filter (fun x => negb (N.eqb x q)) l.
Definition lkb_sadd (q : N) (s : list N) : list N := if lkb_nmem q s then s else q :: s.
Definition lkb_sunion (qs s : list N) : list N := fold_right lkb_sadd s qs.

Fixpoint lkb_get (k : id) (m : lkb_links) : option (list N) :=
  match m with
  | [] => None
  | (k', v) :: r => if id_eqb k' k then Some v else lkb_get k r
  end.
Definition lkb_del (k : id) (m : lkb_links) : lkb_links := filter (fun p => negb (id_eqb (fst p) k)) m.
Definition lkb_put (k : id) (v : list N) (m : lkb_links) : lkb_links := (k, v) :: lkb_del k m.
Definition lkb_regs (m : lkb_links) (k : id) : list N := match lkb_get k m with Some v => v | None => [] end.
(* entry(k).or_default().extend(qs) *)
Definition lkb_extend (k : id) (qs : list N) (m : lkb_links) : lkb_links := lkb_put k (lkb_sunion qs (lkb_regs m k)) m.
Definition lkb_add (k : id) (q : N) (m : lkb_links) : lkb_links := lkb_extend k [q] m.

Fixpoint lkb_find_quote (q : N) (t : list lkb_quote) : option lkb_quote :=
  match t with
  | [] => None
  | x :: r => if N.eqb (lkb_qid x) q then Some x else lkb_find_quote q r
  end.

(* ---------- blocks ---------- *)
Definition lkb_contains (b : lkb_block) (a : id) : bool :=
  (cl a =? cl (lkb_bid b)) && (ck (lkb_bid b) <=? ck a) && (ck a <? ck (lkb_bid b) + lkb_blen b).
Definition lkb_last_id (b : lkb_block) : id := mkid (cl (lkb_bid b)) (ck (lkb_bid b) + lkb_blen b - 1).
Definition lkb_set_linked (b : lkb_block) (f : bool) : lkb_block :=
  lkb_mkb (lkb_bid b) (lkb_blen b) (lkb_bdel b) f.
Definition lkb_opt_linked (o : option lkb_block) : bool :=
  match o with Some b => lkb_blinked b | None => false end.

(* ---------- expansion to units ---------- *)
Fixpoint lkb_iota (c k : N) (n : nat) : list id :=
  match n with O => [] | S m => mkid c k :: lkb_iota c (k + 1) m end.
Definition lkb_block_ids (b : lkb_block) : list id :=
  lkb_iota (cl (lkb_bid b)) (ck (lkb_bid b)) (N.to_nat (lkb_blen b)).
Definition lkb_block_units (b : lkb_block) : list lk_unit :=
  map (fun a => (a, negb (lkb_bdel b))) (lkb_block_ids b).
Definition lkb_units_of (l : list lkb_block) : list lk_unit := flat_map lkb_block_units l.
Definition lkb_units (st : lkb_store) : list lk_unit := lkb_units_of (lkb_blocks st).
(* per unit: the quotations its block is registered for *)
Definition lkb_unit_regs_of (m : lkb_links) (l : list lkb_block) : list (id * list N) :=
  flat_map (fun b => map (fun a => (a, lkb_regs m (lkb_bid b))) (lkb_block_ids b)) l.
Definition lkb_unit_regs (st : lkb_store) : list (id * list N) :=
  lkb_unit_regs_of (lkb_linked_by st) (lkb_blocks st).
(* the units registered for quotation q, in document order *)
Definition lkb_reg_of (m : lkb_links) (l : list lkb_block) (q : N) : list id :=
  map fst (filter (fun p => lkb_nmem q (snd p)) (lkb_unit_regs_of m l)).
Definition lkb_reg (st : lkb_store) (q : N) : list id := lkb_reg_of (lkb_linked_by st) (lkb_blocks st) q.
(* per unit: the flag of its block *)
Definition lkb_unit_flags_of (l : list lkb_block) : list (id * bool) :=
  flat_map (fun b => map (fun a => (a, lkb_blinked b)) (lkb_block_ids b)) l.

(* ---------- RangeIter ---------- *)
Inductive lkb_rstate := lkb_opened | lkb_inrange | lkb_closed.
Inductive lkb_step_out :=
| lkb_skip (st' : lkb_rstate)
| lkb_emit (st' : lkb_rstate) (so eo : N)
| lkb_stop.

(* the end offset of the slice of block b that starts at offset so *)
Definition lkb_range_end (e : lk_bound) (b : lkb_block) (so : N) : lkb_res lkb_step_out :=
  match (match e with
         | Some (x, incl) => if lkb_contains b x then Some (x, incl) else None
         | None => None
         end) with
  | Some (x, incl) =>
      (* self.state = Closed *)
      let off := ck x - ck (lkb_bid b) in
      if incl then (if so <=? off then lkb_ok (lkb_emit lkb_closed so off) else lkb_fail 3)
      else if off =? so then lkb_ok lkb_stop
      else if off =? 0 then lkb_fail 2
      else if so <=? off - 1 then lkb_ok (lkb_emit lkb_closed so (off - 1)) else lkb_fail 3
  | None =>
      if lkb_blen b =? 0 then lkb_fail 1
      else if so <=? lkb_blen b - 1 then lkb_ok (lkb_emit lkb_inrange so (lkb_blen b - 1)) else lkb_fail 3
  end.

Definition lkb_range_step (s e : lk_bound) (state : lkb_rstate) (b : lkb_block) : lkb_res lkb_step_out :=
  match state with
  | lkb_closed => lkb_ok lkb_stop
  | lkb_inrange => lkb_range_end e b 0
  | lkb_opened =>
      match s with
      | None => lkb_range_end e b 0
      | Some (a, incl) =>
          if lkb_contains b a then
            let off := ck a - ck (lkb_bid b) in
            if incl then lkb_range_end e b off
            else if off + 1 =? lkb_blen b then lkb_ok (lkb_skip lkb_inrange)
            else lkb_range_end e b (off + 1)
          else lkb_ok (lkb_skip lkb_opened)
      end
  end.

(* ---------- splitting ---------- *)
Definition lkb_splice (b : lkb_block) (off : N) : lkb_res (option (lkb_block * lkb_block)) :=
  if off =? 0 then lkb_ok None
  else if off <? lkb_blen b then
    lkb_ok (Some (lkb_mkb (lkb_bid b) off (lkb_bdel b) (lkb_blinked b),
                  lkb_mkb (mkid (cl (lkb_bid b)) (ck (lkb_bid b) + off)) (lkb_blen b - off)
                          (lkb_bdel b) (lkb_blinked b)))
  else lkb_fail 4.

Definition lkb_copy_links (src : option (list N)) (k : id) (m : lkb_links) : lkb_links :=
  match src with Some qs => lkb_extend k qs m | None => m end.

(* Store::materialize on the slice [so, eo] of block b: (blocks before the slice, the slice, blocks after) *)
Definition lkb_store_materialize (b : lkb_block) (so eo : N) (m : lkb_links)
  : lkb_res (list lkb_block * lkb_block * list lkb_block * lkb_links) :=
  let src := if lkb_blinked b then lkb_get (lkb_bid b) m else None in
  match (if so =? 0 then lkb_ok ([], b, m, eo)
         else match lkb_splice b so with
              | lkb_fail c => lkb_fail c
              | lkb_ok None => lkb_ok ([], b, m, eo - so)
              | lkb_ok (Some (l, n)) => lkb_ok ([l], n, lkb_copy_links src (lkb_bid n) m, eo - so)
              end) with
  | lkb_fail c => lkb_fail c
  | lkb_ok (pre, ptr, m1, eo1) =>
      if eo1 =? lkb_blen ptr - 1 then lkb_ok (pre, ptr, [], m1)
      else match lkb_splice ptr (eo1 + 1) with
           | lkb_fail c => lkb_fail c
           | lkb_ok None => lkb_fail 6
           | lkb_ok (Some (l, n)) => lkb_ok (pre, l, [n], lkb_copy_links src (lkb_bid n) m1)
           end
  end.

(* StickyIndex::get_item: the position of the block the walk of unlink_all starts from *)
Fixpoint lkb_find_containing (a : id) (l : list lkb_block) : option (nat * lkb_block) :=
  match l with
  | [] => None
  | b :: r => if lkb_contains b a then Some (O, b)
              else match lkb_find_containing a r with Some (p, x) => Some (S p, x) | None => None end
  end.
Definition lkb_get_item (l : list lkb_block) (s : lk_bound) : option nat :=
  match s with
  | None => match l with [] => None | _ :: _ => Some O end
  | Some (a, incl) =>
      match lkb_find_containing a l with
      | None => None
      | Some (p, b) =>
          if negb incl && id_eqb (lkb_last_id b) a
          then (if Nat.ltb (S p) (length l) then Some (S p) else None)
          else Some p
      end
  end.

(* ---------- LinkSource::materialize ---------- *)
Fixpoint lkb_mat_walk (q : N) (s e : lk_bound) (state : lkb_rstate) (l : list lkb_block) (m : lkb_links)
  : lkb_res (list lkb_block * lkb_links) :=
  match l with
  | [] => lkb_ok ([], m)
  | b :: r =>
      match lkb_range_step s e state b with
      | lkb_fail c => lkb_fail c
      | lkb_ok lkb_stop => lkb_ok (l, m)
      | lkb_ok (lkb_skip st') =>
          match lkb_mat_walk q s e st' r m with
          | lkb_fail c => lkb_fail c
          | lkb_ok (r', m') => lkb_ok (b :: r', m')
          end
      | lkb_ok (lkb_emit st' so eo) =>
          match (if (so =? 0) && (eo =? lkb_blen b - 1) then lkb_ok ([], b, [], m)
                 else lkb_store_materialize b so eo m) with
          | lkb_fail c => lkb_fail c
          | lkb_ok (pre, item, post, m1) =>
              let m2 := lkb_add (lkb_bid item) q m1 in
              match lkb_mat_walk q s e st' r m2 with
              | lkb_fail c => lkb_fail c
              | lkb_ok (r', m') => lkb_ok (pre ++ lkb_set_linked item true :: post ++ r', m')
              end
          end
      end
  end.

Definition lkb_link_materialize (st : lkb_store) (qt : lkb_quote) : lkb_res lkb_store :=
  let quotes := qt :: lkb_quotes st in
  match lkb_get_item (lkb_blocks st) (lkb_qstart qt) with
  | None => lkb_ok (lkb_mks (lkb_blocks st) (lkb_linked_by st) quotes)
  | Some _ =>
      match lkb_mat_walk (lkb_qid qt) (lkb_qstart qt) (lkb_qend qt) lkb_opened (lkb_blocks st)
                         (lkb_linked_by st) with
      | lkb_fail c => lkb_fail c
      | lkb_ok (bl, m) => lkb_ok (lkb_mks bl m quotes)
      end
  end.

(* ---------- Store::split_block ---------- *)
Fixpoint lkb_split_blocks (a : id) (off : N) (l : list lkb_block)
  : lkb_res (option (lkb_block * lkb_block * list lkb_block)) :=
  match l with
  | [] => lkb_ok None
  | b :: r =>
      if id_eqb (lkb_bid b) a then
        match lkb_splice b off with
        | lkb_fail c => lkb_fail c
        | lkb_ok None => lkb_ok None
        | lkb_ok (Some (x, y)) => lkb_ok (Some (x, y, x :: y :: r))
        end
      else match lkb_split_blocks a off r with
           | lkb_fail c => lkb_fail c
           | lkb_ok None => lkb_ok None
           | lkb_ok (Some (x, y, r')) => lkb_ok (Some (x, y, b :: r'))
           end
  end.

Definition lkb_split (st : lkb_store) (a : id) (off : N) : lkb_res lkb_store :=
  match lkb_split_blocks a off (lkb_blocks st) with
  | lkb_fail c => lkb_fail c
  | lkb_ok None => lkb_ok st
  | lkb_ok (Some (x, y, bl)) =>
      let m := lkb_linked_by st in
      let m' := if lkb_blinked x
                then match lkb_get (lkb_bid x) m with Some qs => lkb_put (lkb_bid y) qs m | None => m end
                else m in
      lkb_ok (lkb_mks bl m' (lkb_quotes st))
  end.

(* before 19d2098: the flag travels with `info`, the entry does not *)
Definition lkb_split_old (st : lkb_store) (a : id) (off : N) : lkb_res lkb_store :=
  match lkb_split_blocks a off (lkb_blocks st) with
  | lkb_fail c => lkb_fail c
  | lkb_ok None => lkb_ok st
  | lkb_ok (Some (_, _, bl)) => lkb_ok (lkb_mks bl (lkb_linked_by st) (lkb_quotes st))
  end.

(* ---------- join_linked_range ---------- *)
Definition lkb_end_is_before (e : lk_bound) : bool := match e with Some (_, false) => true | _ => false end.
Definition lkb_bound_no_id (b : lk_bound) : bool := match b with None => true | Some _ => false end.
Definition lkb_is_none {A : Type} (o : option A) : bool := match o with None => true | Some _ => false end.

Definition lkb_join_common (quotes : list lkb_quote) (m : lkb_links) (left right : option lkb_block) : list N :=
  let ll := match left with Some l => lkb_get (lkb_bid l) m | None => None end in
  let rl := match right with Some r => lkb_get (lkb_bid r) m | None => None end in
  let in_opt (o : option (list N)) (q : N) := match o with Some v => lkb_nmem q v | None => false end in
  let from_left :=
    match ll with
    | None => []
    | Some lq =>
        filter (fun link =>
          if in_opt rl link then true
          else match lkb_find_quote link quotes with
               | None => false
               | Some src =>
                   if lkb_end_is_before (lkb_qend src) then true
                   else lkb_is_none right && lkb_bound_no_id (lkb_qend src)
               end) lq
    end in
  let from_right :=
    match rl with
    | None => []
    | Some rq =>
        filter (fun link =>
          if in_opt ll link then false
          else match lkb_find_quote link quotes with
               | None => false
               | Some src =>
                   match lkb_qstart src with
                   | Some (a, false) =>
                       (* start_id == prev_id *)
                       match left with Some l => id_eqb a (lkb_last_id l) | None => false end
                   | Some (_, true) => false
                   | None => lkb_is_none left
                   end
               end) rq
    end in
  from_left ++ from_right.

(* TransactionMut::integrate_item for a new block (a, len, del) that ends up at list position pos *)
Definition lkb_integrate (st : lkb_store) (pos : nat) (a : id) (len : N) (del : bool) : lkb_store :=
  let bl := lkb_blocks st in
  let left := match pos with O => None | S k => nth_error bl k end in
  let right := nth_error bl pos in
  if negb del && (lkb_opt_linked left || lkb_opt_linked right) then
    let common := lkb_join_common (lkb_quotes st) (lkb_linked_by st) left right in
    lkb_mks (lk_insert_at pos (lkb_mkb a len del true) bl)
            (match common with [] => lkb_linked_by st | _ :: _ => lkb_extend a common (lkb_linked_by st) end)
            (lkb_quotes st)
  else lkb_mks (lk_insert_at pos (lkb_mkb a len del false) bl) (lkb_linked_by st) (lkb_quotes st).

(* ---------- TransactionMut::delete ---------- *)
Definition lkb_mark_deleted (a : id) (l : list lkb_block) : list lkb_block :=
  map (fun b => if id_eqb (lkb_bid b) a then lkb_mkb (lkb_bid b) (lkb_blen b) true (lkb_blinked b) else b) l.
Definition lkb_find_block (a : id) (l : list lkb_block) : option lkb_block :=
  find (fun b => id_eqb (lkb_bid b) a) l.

Definition lkb_delete (st : lkb_store) (a : id) : lkb_store * list N :=
  match lkb_find_block a (lkb_blocks st) with
  | None => (st, [])
  | Some b =>
      if lkb_bdel b then (st, [])
      else
        let bl := lkb_mark_deleted a (lkb_blocks st) in
        if lkb_blinked b then
          match lkb_get a (lkb_linked_by st) with
          | Some qs => (lkb_mks bl (lkb_del a (lkb_linked_by st)) (lkb_quotes st), qs)
          | None => (lkb_mks bl (lkb_linked_by st) (lkb_quotes st), [])
          end
        else (lkb_mks bl (lkb_linked_by st) (lkb_quotes st), [])
  end.

(* ---------- unlink ---------- *)
Definition lkb_unlink (b : lkb_block) (q : N) (m : lkb_links) : lkb_block * lkb_links :=
  match lkb_get (lkb_bid b) m with
  | Some qs =>
      if lkb_nmem q qs then
        match lkb_nremove q qs with
        | [] => (lkb_set_linked b false, lkb_del (lkb_bid b) m)
        | x :: r => (b, lkb_put (lkb_bid b) (x :: r) m)
        end
      else (b, m)
  | None => (b, m)
  end.

Fixpoint lkb_unlink_walk (q : N) (l : list lkb_block) (m : lkb_links) : list lkb_block * lkb_links :=
  match l with
  | [] => ([], m)
  | b :: r =>
      let (b', m1) := if lkb_blinked b then lkb_unlink b q m else (b, m) in
      let (r', m2) := lkb_unlink_walk q r m1 in
      (b' :: r', m2)
  end.

Definition lkb_unlink_all (st : lkb_store) (q : N) : lkb_res lkb_store :=
  match lkb_find_quote q (lkb_quotes st) with
  | None => lkb_fail 10
  | Some src =>
      match lkb_get_item (lkb_blocks st) (lkb_qstart src) with
      | None => lkb_ok st
      | Some p =>
          let (bl, m) := lkb_unlink_walk q (skipn p (lkb_blocks st)) (lkb_linked_by st) in
          lkb_ok (lkb_mks (firstn p (lkb_blocks st) ++ bl) m (lkb_quotes st))
      end
  end.

(* ---------- squash ---------- *)
Definition lkb_try_squash (compat : bool) (x y : lkb_block) : option lkb_block :=
  if (cl (lkb_bid x) =? cl (lkb_bid y)) && (ck (lkb_bid x) + lkb_blen x =? ck (lkb_bid y))
     && Bool.eqb (lkb_bdel x) (lkb_bdel y)
     && negb (lkb_blinked x) && negb (lkb_blinked y) && compat
  then Some (lkb_mkb (lkb_bid x) (lkb_blen x + lkb_blen y) (lkb_bdel x) (lkb_blinked x))
  else None.

Fixpoint lkb_squash_at (compat : bool) (pos : nat) (l : list lkb_block) : list lkb_block :=
  match pos, l with
  | O, x :: y :: r => match lkb_try_squash compat x y with Some xy => xy :: r | None => l end
  | S p, x :: r => x :: lkb_squash_at compat p r
  | _, _ => l
  end.
Definition lkb_squash (st : lkb_store) (compat : bool) (pos : nat) : lkb_store :=
  lkb_mks (lkb_squash_at compat pos (lkb_blocks st)) (lkb_linked_by st) (lkb_quotes st).

(* ---------- well-formedness and the invariant ---------- *)
Definition lkb_wf_blocks (l : list lkb_block) : bool :=
  forallb (fun b => 0 <? lkb_blen b) l && lk_nodup (lk_ids (lkb_units_of l)).

Fixpoint lkb_keys_nodup (m : lkb_links) : bool :=
  match m with [] => true | (k, _) :: r => negb (existsb (fun p => id_eqb (fst p) k) r) && lkb_keys_nodup r end.
Fixpoint lkb_nnodup (l : list N) : bool :=
  match l with [] => true | x :: r => negb (lkb_nmem x r) && lkb_nnodup r end.

(* every entry: distinct key, not empty, no repetition, its key is the first id of a block that is flagged *)
Definition lkb_inv_of (m : lkb_links) (l : list lkb_block) : bool :=
  lkb_keys_nodup m
  && forallb (fun p => match snd p with [] => false | _ :: _ => true end && lkb_nnodup (snd p)
                       && match lkb_find_block (fst p) l with Some b => lkb_blinked b | None => false end) m.
Definition lkb_inv (st : lkb_store) : bool := lkb_inv_of (lkb_linked_by st) (lkb_blocks st).
(* the converse (what fails): every flagged block has an entry *)
Definition lkb_flag_has_entry (st : lkb_store) : bool :=
  forallb (fun b => negb (lkb_blinked b) || negb (lkb_is_none (lkb_get (lkb_bid b) (lkb_linked_by st))))
          (lkb_blocks st).
(* every quotation that occurs in an entry has a row in the table; rows have distinct numbers *)
Definition lkb_quotes_known (st : lkb_store) : bool :=
  forallb (fun p => forallb (fun q => negb (lkb_is_none (lkb_find_quote q (lkb_quotes st)))) (snd p))
          (lkb_linked_by st).
(* q occurs in no entry *)
Definition lkb_fresh_quote (st : lkb_store) (q : N) : bool :=
  forallb (fun p => negb (lkb_nmem q (snd p))) (lkb_linked_by st).

(* every block registered for q is at or after the block LinkSource::unlink_all starts its walk from
   (StickyIndex::get_item of the start bound); with no such block, nothing is registered for q *)
Definition lkb_reg_after_start (st : lkb_store) (q : N) (s : lk_bound) : bool :=
  let no_q := forallb (fun b => negb (lkb_nmem q (lkb_regs (lkb_linked_by st) (lkb_bid b)))) in
  match lkb_get_item (lkb_blocks st) s with
  | None => no_q (lkb_blocks st)
  | Some p => no_q (firstn p (lkb_blocks st))
  end.

(* ---------- operations of a history (for the reachability statements) ---------- *)
Inductive lkb_op :=
| lkb_op_quote (qt : lkb_quote)
| lkb_op_split (a : id) (off : N)
| lkb_op_integrate (pos : nat) (a : id) (len : N) (del : bool)
| lkb_op_delete (a : id)
| lkb_op_unlink (q : N)
| lkb_op_squash (compat : bool) (pos : nat).

(* a failing operation leaves the state as it is *)
Definition lkb_apply (st : lkb_store) (o : lkb_op) : lkb_store :=
  match o with
  | lkb_op_quote qt => match lkb_link_materialize st qt with lkb_ok st' => st' | lkb_fail _ => st end
  | lkb_op_split a off => match lkb_split st a off with lkb_ok st' => st' | lkb_fail _ => st end
  | lkb_op_integrate pos a len del => lkb_integrate st pos a len del
  | lkb_op_delete a => fst (lkb_delete st a)
  | lkb_op_unlink q => match lkb_unlink_all st q with lkb_ok st' => st' | lkb_fail _ => st end
  | lkb_op_squash c pos => lkb_squash st c pos
  end.
(* the side conditions the real code guarantees for an operation *)
Definition lkb_op_ok (st : lkb_store) (o : lkb_op) : bool :=
  match o with
  | lkb_op_quote qt =>
      lkb_fresh_quote st (lkb_qid qt) && lkb_is_none (lkb_find_quote (lkb_qid qt) (lkb_quotes st))
      && lk_wf (lk_mk (lkb_units st) (lkb_qstart qt) (lkb_qend qt) [])
  | lkb_op_split _ _ => true
  | lkb_op_integrate pos a len del =>
      Nat.leb pos (length (lkb_blocks st)) && (0 <? len)
      && lk_nodup (lk_ids (lkb_units_of (lk_insert_at pos (lkb_mkb a len del false) (lkb_blocks st))))
  | lkb_op_delete _ => true
  | lkb_op_unlink _ => true
  | lkb_op_squash _ _ => true
  end.
Fixpoint lkb_run (st : lkb_store) (ops : list lkb_op) : lkb_store :=
  match ops with [] => st | o :: r => lkb_run (lkb_apply st o) r end.
Fixpoint lkb_run_ok (st : lkb_store) (ops : list lkb_op) : bool :=
  match ops with [] => true | o :: r => lkb_op_ok st o && lkb_run_ok (lkb_apply st o) r end.
