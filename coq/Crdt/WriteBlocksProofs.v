(* Theorems about the transcription of Store::write_blocks_from / encode_diff / DeleteSet::from_store /
   TransactionMut::encode_update (WriteBlocks.v). *)
From Coq Require Import List NArith ZArith Bool Lia ZifyBool ZifyN ZifyNat Permutation Sorted.
From YV Require Import Gen.Consts Lib.Bytes Codec.Varint Codec.AnyCodec Codec.IdSetCodec Codec.UpdateV1
  Codec.V2Cols Ids.Ranges Ids.RangesProofs Crdt.Doc Crdt.Blocks Crdt.BlocksProofs Crdt.Merge Crdt.MergeProofs
  Crdt.Diff Crdt.DiffProofs Crdt.ApplyDelete Crdt.ApplyDeleteProofs.
From YV Require Import Crdt.WriteBlocks.
Import ListNotations.
Open Scope N_scope.

(* ================================================================================================ *)
(* 0. the hypotheses as propositions                                                                *)
(* ================================================================================================ *)
Lemma wbf_contig_cons : forall c a b r, wbf_contig c a (b :: r) = true <->
  mrg_client b = c /\ mrg_clock b = a /\ 0 < block_len b /\ blk_wf b = true /\ wbf_contig c (mrg_end b) r = true.
Proof. intros. cbn [wbf_contig]. rewrite !andb_true_iff. intuition lia. Qed.

Lemma wbf_contig_ok : forall bs c a, wbf_contig c a bs = true ->
  Forall (dff_block_ok c) bs /\ dff_chain_b bs = true /\ (forall b r, bs = b :: r -> mrg_clock b = a).
Proof.
  induction bs as [|b r IH]; intros c a H.
  - repeat split; [constructor|intros; discriminate].
  - apply wbf_contig_cons in H. destruct H as (H1 & H2 & H3 & H4 & H5).
    destruct (IH c (mrg_end b) H5) as (I1 & I2 & I3). repeat split.
    + constructor; [repeat split; assumption|exact I1].
    + cbn [dff_chain_b]. rewrite I2, andb_true_r. destruct r as [|b2 r2]; [reflexivity|].
      rewrite (I3 b2 r2 eq_refl). apply N.eqb_refl.
    + intros b0 r0 E. injection E as <- <-. exact H2.
Qed.

Lemma wbf_contig_client_ok : forall bs c a, wbf_contig c a bs = true -> dff_client_ok c bs.
Proof.
  intros bs c a H. destruct (wbf_contig_ok bs c a H) as (H1 & H2 & _). split; [exact H1|].
  apply dff_sorted_b_spec. apply dff_chain_sorted. exact H2.
Qed.

Definition wbf_client_good (c : N) (e : list (block * bool)) : Prop :=
  e <> [] /\ wbf_contig c 0 (map fst e) = true /\ wbf_list_clock (map fst e) <= adl_u32_max.

Lemma wbf_wf_spec : forall st, wbf_wf st = true <->
  NoDup (map fst st) /\ forall c e, In (c, e) st -> wbf_client_good c e.
Proof.
  intro st. unfold wbf_wf. rewrite andb_true_iff, dff_nodupb_spec, forallb_forall. split.
  - intros [H1 H2]. split; [exact H1|]. intros c e Hin. specialize (H2 _ Hin). unfold wbf_client_wf in H2.
    cbn [fst snd] in H2. apply andb_prop in H2. destruct H2 as [H2 H3]. apply andb_prop in H2. destruct H2 as [H2 H4].
    repeat split; [destruct e; [discriminate|discriminate]|exact H4|lia].
  - intros [H1 H2]. split; [exact H1|]. intros [c e] Hin. destruct (H2 c e Hin) as (G1 & G2 & G3).
    unfold wbf_client_wf. cbn [fst snd]. rewrite G2. destruct e; [contradiction|]. cbn [andb]. lia.
Qed.

Lemma wbf_blocks_in : forall st cb, In cb (wbf_blocks st) <-> exists e, In (fst cb, e) st /\ snd cb = map fst e.
Proof.
  intros st [c bs]. unfold wbf_blocks. rewrite in_map_iff. cbn [fst snd]. split.
  - intros [[c' e] [E Hin]]. cbn [fst snd] in E. injection E as -> <-. exists e. split; [exact Hin|reflexivity].
  - intros [e [Hin ->]]. exists (c, e). split; [reflexivity|exact Hin].
Qed.
Lemma wbf_blocks_keys : forall st, map fst (wbf_blocks st) = map fst st.
Proof. intro st. unfold wbf_blocks. rewrite map_map. reflexivity. Qed.

Lemma wbf_blocks_good : forall st, wbf_wf st = true -> forall cb, In cb (wbf_blocks st) ->
  snd cb <> [] /\ wbf_contig (fst cb) 0 (snd cb) = true /\ wbf_list_clock (snd cb) <= adl_u32_max.
Proof.
  intros st Hwf cb Hin. apply wbf_wf_spec in Hwf. destruct Hwf as [_ Hwf]. apply wbf_blocks_in in Hin.
  destruct Hin as [e [Hin ->]]. destruct (Hwf _ _ Hin) as (G1 & G2 & G3). repeat split; try assumption.
  destruct e; [contradiction|discriminate].
Qed.

(* the update that holds the block lists of the store, in store order (a device of the proofs: the theorems of
   DiffProofs.v are instantiated with it) *)
Definition wbf_u0 (st : wbf_store) : update := {| u_blocks := wbf_blocks st; u_ds := [] |}.

Lemma wbf_u0_wf : forall st, wbf_wf st = true -> dff_wf (wbf_u0 st) = true.
Proof.
  intros st Hwf. apply dff_wf_spec. cbn [wbf_u0 u_blocks]. split.
  - rewrite wbf_blocks_keys. apply wbf_wf_spec in Hwf. apply Hwf.
  - intros cb Hin. destruct (wbf_blocks_good st Hwf cb Hin) as (_ & G & _). exact (wbf_contig_client_ok _ _ _ G).
Qed.
Lemma wbf_u0_chain : forall st, wbf_wf st = true -> dff_chain (wbf_u0 st) = true.
Proof.
  intros st Hwf. unfold dff_chain. apply forallb_forall. intros cb Hin. cbn [wbf_u0 u_blocks] in Hin.
  destruct (wbf_blocks_good st Hwf cb Hin) as (_ & G & _). apply (wbf_contig_ok _ _ _ G).
Qed.
Lemma wbf_forallb_map {A B} (f : A -> B) (p : B -> bool) : forall l, forallb p (map f l) = forallb (fun x => p (f x)) l.
Proof. induction l as [|a l IH]; [reflexivity|]. cbn [map forallb]. rewrite IH. reflexivity. Qed.
Lemma wbf_forallb_ext {A} (p q : A -> bool) : forall l, (forall x, p x = q x) -> forallb p l = forallb q l.
Proof. intros l H. induction l as [|a l IH]; [reflexivity|]. cbn [forallb]. rewrite H, IH. reflexivity. Qed.
Lemma wbf_u0_cut : forall st sv, wbf_cut_ok st sv = dff_cut_ok (wbf_u0 st) sv.
Proof.
  intros st sv. unfold wbf_cut_ok, dff_cut_ok, wbf_u0, wbf_blocks. cbn [u_blocks]. rewrite wbf_forallb_map.
  apply wbf_forallb_ext. intros [c e]. cbn [fst snd]. rewrite wbf_forallb_map. reflexivity.
Qed.

(* ================================================================================================ *)
(* 1. one client: write_blocks_from against Update::encode_diff                                     *)
(* ================================================================================================ *)
Lemma wbf_ewo_skip : forall b k, mrg_is_skip (dff_encode_with_offset b k) = mrg_is_skip b.
Proof. intros [i o ro p ps c|i n|i n] k; cbn [dff_encode_with_offset]; [destruct (k =? 0)|..]; reflexivity. Qed.

Lemma wbf_dff_client_diff_cons : forall v b r,
  dff_client_diff v (b :: r) =
  if mrg_is_skip b then dff_client_diff v r
  else if v <? mrg_end b then dff_encode_with_offset b (v - mrg_clock b) :: r else dff_client_diff v r.
Proof.
  intros v b r. unfold dff_client_diff. cbn [dff_scan]. destruct (mrg_is_skip b); [reflexivity|].
  destruct (v <? mrg_end b); reflexivity.
Qed.

(* every block starts above the clock: Update::encode_diff passes over the Skip blocks and writes the rest *)
Lemma wbf_dff_above : forall v r, Forall (fun x => v < mrg_clock x) r -> dff_client_diff v r = wbf_drop_skips r.
Proof.
  intros v r H. induction H as [|x r Hx H IH]; [reflexivity|].
  rewrite wbf_dff_client_diff_cons. cbn [wbf_drop_skips]. destruct (mrg_is_skip x); [exact IH|].
  unfold mrg_end. replace (v <? mrg_clock x + block_len x) with true by lia.
  replace (v - mrg_clock x) with 0 by lia. rewrite dff_ewo_zero. reflexivity.
Qed.

Lemma wbf_from_scan : forall v bs, StronglySorted dff_lt bs -> dff_client_diff v bs = wbf_drop_skips (wbf_from v bs).
Proof.
  intros v bs Hs. induction Hs as [|b r Hs IH Hf]; [reflexivity|].
  rewrite wbf_dff_client_diff_cons. cbn [wbf_from]. destruct (v <? mrg_end b) eqn:Ev.
  - cbn [wbf_drop_skips]. rewrite wbf_ewo_skip. destruct (mrg_is_skip b); [|reflexivity].
    apply wbf_dff_above. eapply Forall_impl; [|exact Hf]. intros x Hx. unfold dff_lt in Hx. lia.
  - destruct (mrg_is_skip b); exact IH.
Qed.

Lemma wbf_list_clock_cons : forall b r, wbf_list_clock (b :: r) = match r with [] => mrg_end b | _ => wbf_list_clock r end.
Proof. reflexivity. Qed.

Lemma wbf_list_clock_max : forall bs b, StronglySorted dff_lt bs -> In b bs -> mrg_end b <= wbf_list_clock bs.
Proof.
  intros bs b Hs. revert b. induction Hs as [|x r Hs IH Hf]; intros b Hin; [destruct Hin|].
  rewrite wbf_list_clock_cons. destruct Hin as [->|Hin].
  - destruct r as [|y r']; [lia|]. inversion Hf as [|? ? Hy _]; subst.
    assert (mrg_end y <= wbf_list_clock (y :: r')) by (apply IH; now left). unfold dff_lt, mrg_end in *. lia.
  - destruct r as [|y r']; [destruct Hin|]. exact (IH b Hin).
Qed.

Lemma wbf_from_nil : forall v bs, (forall b, In b bs -> mrg_end b <= v) -> wbf_from v bs = [].
Proof.
  intros v bs. induction bs as [|b r IH]; intro H; [reflexivity|]. cbn [wbf_from].
  replace (v <? mrg_end b) with false by (specialize (H b (or_introl eq_refl)); lia).
  apply IH. intros x Hx. apply H. now right.
Qed.

(* for a list that starts at clock 0 the comparison with the local clock is implied by the search *)
Lemma wbf_client_diff_from : forall c v bs, wbf_contig c 0 bs = true -> wbf_client_diff v bs = wbf_from v bs.
Proof.
  intros c v bs H. unfold wbf_client_diff, wbf_client_diff_gen.
  assert (E : wbf_first_clock bs = 0).
  { destruct bs as [|b r]; [reflexivity|]. cbn [wbf_first_clock]. apply wbf_contig_cons in H. lia. }
  rewrite E, N.max_0_r. destruct (v <? wbf_list_clock bs) eqn:Ev; [reflexivity|].
  symmetry. apply wbf_from_nil. intros b Hb.
  pose proof (wbf_list_clock_max bs b (proj2 (wbf_contig_client_ok _ _ _ H)) Hb). lia.
Qed.

Theorem wbf_client_diff_dff : forall c v bs, wbf_contig c 0 bs = true ->
  dff_client_diff v bs = wbf_drop_skips (wbf_client_diff v bs).
Proof.
  intros c v bs H. rewrite (wbf_client_diff_from c v bs H). apply wbf_from_scan.
  exact (proj2 (wbf_contig_client_ok _ _ _ H)).
Qed.

Lemma wbf_drop_skips_units : forall bs, flat_map units_of_block (wbf_drop_skips bs) = flat_map units_of_block bs.
Proof.
  induction bs as [|b r IH]; [reflexivity|]. cbn [wbf_drop_skips]. destruct (mrg_is_skip b) eqn:E; [|reflexivity].
  destruct b; try discriminate. cbn [flat_map units_of_block app]. exact IH.
Qed.

(* ================================================================================================ *)
(* 2. the block map: sort, filter, map                                                              *)
(* ================================================================================================ *)
Definition wbf_cmap (sv : list (N * N)) (cb : N * list block) : N * list block :=
  (fst cb, wbf_client_diff (sv_get sv (fst cb)) (snd cb)).
Definition wbf_dmap (cb : N * list block) : N * list block := (fst cb, wbf_drop_skips (snd cb)).

Lemma wbf_write_blocks_eq : forall st sv,
  wbf_write_blocks st sv = mrg_sort_clients (filter dff_nonempty (map (wbf_cmap sv) (wbf_blocks st))).
Proof. reflexivity. Qed.

Lemma wbf_write_blocks_sorted_first : forall st sv,
  wbf_write_blocks st sv = filter dff_nonempty (map (wbf_cmap sv) (mrg_sort_clients (wbf_blocks st))).
Proof.
  intros st sv. rewrite wbf_write_blocks_eq, dff_sort_filter, dff_sort_map; [reflexivity|]. intro x. reflexivity.
Qed.

Lemma wbf_filter_dmap_filter : forall l,
  filter dff_nonempty (map wbf_dmap (filter dff_nonempty l)) = filter dff_nonempty (map wbf_dmap l).
Proof.
  induction l as [|[c bs] l IH]; [reflexivity|]. cbn [filter map]. destruct (dff_nonempty (c, bs)) eqn:E.
  - cbn [map filter]. rewrite IH. reflexivity.
  - unfold dff_nonempty in E. cbn [snd] in E. destruct bs; [|discriminate].
    cbn [wbf_dmap fst snd wbf_drop_skips dff_nonempty]. exact IH.
Qed.

Lemma wbf_sort_idem : forall l, mrg_sort_clients (mrg_sort_clients l) = mrg_sort_clients l.
Proof. intro l. apply dff_sort_desc_id. apply dff_sort_desc. Qed.

(* the blocks Update::encode_diff writes for the block lists of the store: those of write_blocks_from without
   the leading Skip blocks *)
Lemma wbf_dff_blocks : forall st sv, wbf_wf st = true ->
  u_blocks (dff_diff_update (wbf_u0 st) sv) = filter dff_nonempty (map wbf_dmap (wbf_write_blocks st sv)).
Proof.
  intros st sv Hwf. rewrite wbf_write_blocks_eq.
  rewrite <- (dff_sort_map wbf_dmap) by (intro x; reflexivity).
  rewrite <- dff_sort_filter, wbf_filter_dmap_filter.
  unfold dff_diff_update. cbn [u_blocks wbf_u0]. f_equal. f_equal. rewrite map_map. apply map_ext_in.
  intros cb Hin. destruct (wbf_blocks_good st Hwf cb Hin) as (_ & G & _).
  unfold wbf_dmap, wbf_cmap. cbn [fst snd]. f_equal. exact (wbf_client_diff_dff _ _ _ G).
Qed.

Lemma wbf_dmap_units : forall l,
  flat_map (fun cb => flat_map units_of_block (snd cb)) (filter dff_nonempty (map wbf_dmap l)) =
  flat_map (fun cb => flat_map units_of_block (snd cb)) l.
Proof.
  intro l. rewrite dff_units_nonempty, dff_flat_map_map. apply dff_flat_map_ext_in. intros cb _.
  cbn [wbf_dmap snd]. apply wbf_drop_skips_units.
Qed.

Lemma wbf_units_desc_u0 : forall st, dff_units_desc (wbf_u0 st) = wbf_units_desc st.
Proof. intro st. rewrite dff_units_desc_eq. reflexivity. Qed.

(* ================================================================================================ *)
(* 3. (a) the units of the diff                                                                     *)
(* ================================================================================================ *)
(* The non-Skip units written are exactly the integrated units of the store at or above the remote clock of
   their client, in the order of the blocks (clients descending): nothing the peer lacks is left out - the
   units BEHIND A HOLE included - and nothing below the vector is sent; no unit is changed. *)
Theorem wbf_diff_units : forall st sv, wbf_wf st = true -> wbf_cut_ok st sv = true ->
  units_of_update (wbf_encode_diff st sv) = filter (dff_new sv) (wbf_units_desc st).
Proof.
  intros st sv Hwf Hcut. rewrite <- wbf_units_desc_u0.
  rewrite <- (dff_diff_units (wbf_u0 st) sv (wbf_u0_wf st Hwf)) by (rewrite <- wbf_u0_cut; exact Hcut).
  unfold units_of_update at 2. rewrite (wbf_dff_blocks st sv Hwf), wbf_dmap_units. reflexivity.
Qed.

Lemma wbf_units_desc_perm : forall st, Permutation (wbf_units_desc st) (wbf_units st).
Proof. intro st. unfold wbf_units_desc, wbf_units. apply Permutation_flat_map. apply mrg_sort_clients_perm. Qed.

Corollary wbf_diff_units_perm : forall st sv, wbf_wf st = true -> wbf_cut_ok st sv = true ->
  Permutation (units_of_update (wbf_encode_diff st sv)) (filter (dff_new sv) (wbf_units st)).
Proof. intros st sv H1 H2. rewrite (wbf_diff_units st sv H1 H2). apply dff_perm_filter. apply wbf_units_desc_perm. Qed.

Corollary wbf_diff_units_in : forall st sv, wbf_wf st = true -> wbf_cut_ok st sv = true ->
  forall x, In x (units_of_update (wbf_encode_diff st sv)) <->
            In x (wbf_units st) /\ sv_get sv (cl (xid x)) <= ck (xid x).
Proof.
  intros st sv H1 H2 x. rewrite (wbf_diff_units st sv H1 H2), filter_In. unfold dff_new. rewrite N.leb_le.
  split; intros [Ha Hb]; (split; [|exact Hb]).
  - exact (Permutation_in _ (wbf_units_desc_perm st) Ha).
  - exact (Permutation_in _ (Permutation_sym (wbf_units_desc_perm st)) Ha).
Qed.

(* ... as the receiver decodes them: up to the parent information that is not on the wire for an item that has
   an origin (a block cut by the vector always has one) *)
Theorem wbf_diff_units_wire : forall st sv, wbf_wf st = true -> wbf_cut_ok st sv = true ->
  map mrg_unit_norm (units_of_update (dff_wire (wbf_encode_diff st sv))) =
  map mrg_unit_norm (filter (dff_new sv) (wbf_units_desc st)).
Proof. intros st sv H1 H2. rewrite dff_wire_units, (wbf_diff_units st sv H1 H2). reflexivity. Qed.

(* the same for every update that has the blocks of the diff (the per-transaction update) *)
Lemma wbf_units_of_blocks : forall u1 u2, u_blocks u1 = u_blocks u2 -> units_of_update u1 = units_of_update u2.
Proof. intros u1 u2 E. unfold units_of_update. rewrite E. reflexivity. Qed.

(* ================================================================================================ *)
(* 4. (f) the relation to Update::encode_diff (Crdt/Diff.v)                                         *)
(* ================================================================================================ *)
Lemma wbf_client_diff_zero : forall c bs, wbf_contig c 0 bs = true -> wbf_client_diff 0 bs = bs.
Proof.
  intros c bs H. rewrite (wbf_client_diff_from c 0 bs H). destruct bs as [|b r]; [reflexivity|].
  apply wbf_contig_cons in H. cbn [wbf_from]. unfold mrg_end. replace (0 <? mrg_clock b + block_len b) with true by lia.
  replace (0 - mrg_clock b) with 0 by lia. rewrite dff_ewo_zero. reflexivity.
Qed.

(* the full state: every block list as it is, clients descending *)
Theorem wbf_as_update_blocks : forall st, wbf_wf st = true ->
  u_blocks (wbf_as_update st) = mrg_sort_clients (wbf_blocks st).
Proof.
  intros st Hwf. unfold wbf_as_update, wbf_encode_diff. cbn [u_blocks]. rewrite wbf_write_blocks_eq. f_equal.
  assert (E : map (wbf_cmap []) (wbf_blocks st) = wbf_blocks st).
  { rewrite <- (map_id (wbf_blocks st)) at 2. apply map_ext_in. intros [c bs] Hin.
    destruct (wbf_blocks_good st Hwf _ Hin) as (_ & G & _). unfold wbf_cmap. cbn [fst snd sv_get] in *.
    rewrite (wbf_client_diff_zero c bs G). reflexivity. }
  rewrite E. apply dff_filter_all. intros cb Hin. destruct (wbf_blocks_good st Hwf _ Hin) as (G & _).
  unfold dff_nonempty. destruct (snd cb); [contradiction|reflexivity].
Qed.

Lemma wbf_dff_as_update_u0 : forall st sv, wbf_wf st = true ->
  u_blocks (dff_diff_update (wbf_as_update st) sv) = u_blocks (dff_diff_update (wbf_u0 st) sv).
Proof.
  intros st sv Hwf. rewrite !dff_diff_blocks_sorted_first, (wbf_as_update_blocks st Hwf), wbf_sort_idem. reflexivity.
Qed.

(* (f) Update::encode_diff of the full state = write_blocks_from without the leading Skip blocks of each client
   (and without the clients that are left with no block); the delete sets are the same *)
Theorem wbf_encode_diff_vs_dff : forall st sv, wbf_wf st = true ->
  dff_diff_update (wbf_as_update st) sv = wbf_strip_update (wbf_encode_diff st sv).
Proof.
  intros st sv Hwf.
  assert (E : u_blocks (dff_diff_update (wbf_as_update st) sv) = u_blocks (wbf_strip_update (wbf_encode_diff st sv))).
  { rewrite (wbf_dff_as_update_u0 st sv Hwf), (wbf_dff_blocks st sv Hwf). reflexivity. }
  unfold dff_diff_update in *. unfold wbf_strip_update in *. cbn [u_blocks u_ds] in *. rewrite E. reflexivity.
Qed.

(* when the vector points into no hole nothing is stripped *)
Lemma wbf_from_no_skip : forall bs c a v, wbf_contig c a bs = true -> a <= v ->
  (forall b, In b bs -> mrg_is_skip b && (mrg_clock b <=? v) && (v <? mrg_end b) = false) ->
  wbf_drop_skips (wbf_from v bs) = wbf_from v bs.
Proof.
  induction bs as [|b r IH]; intros c a v Hc Ha H; [reflexivity|]. apply wbf_contig_cons in Hc.
  destruct Hc as (_ & Hk & _ & _ & Hr). cbn [wbf_from]. destruct (v <? mrg_end b) eqn:Ev.
  - cbn [wbf_drop_skips]. rewrite wbf_ewo_skip. specialize (H b (or_introl eq_refl)).
    replace (mrg_clock b <=? v) with true in H by lia. rewrite Ev in H.
    destruct (mrg_is_skip b); [discriminate|reflexivity].
  - apply (IH c (mrg_end b) v Hr); [lia|]. intros x Hx. apply H. now right.
Qed.

Lemma wbf_no_hole_at_spec : forall st sv, wbf_no_hole_at st sv = true ->
  forall cb, In cb (wbf_blocks st) -> forall b, In b (snd cb) ->
  mrg_is_skip b && (mrg_clock b <=? sv_get sv (fst cb)) && (sv_get sv (fst cb) <? mrg_end b) = false.
Proof.
  intros st sv H cb Hin b Hb. apply wbf_blocks_in in Hin. destruct Hin as [e [Hin E]]. rewrite E in Hb.
  apply in_map_iff in Hb. destruct Hb as [x [<- Hx]]. unfold wbf_no_hole_at in H. rewrite forallb_forall in H.
  specialize (H _ Hin). cbn [fst snd] in H. rewrite forallb_forall in H. specialize (H _ Hx).
  apply negb_true_iff in H. exact H.
Qed.

Theorem wbf_encode_diff_eq_dff : forall st sv, wbf_wf st = true -> wbf_no_hole_at st sv = true ->
  wbf_encode_diff st sv = dff_diff_update (wbf_as_update st) sv.
Proof.
  intros st sv Hwf Hnh. rewrite (wbf_encode_diff_vs_dff st sv Hwf). unfold wbf_strip_update, wbf_encode_diff.
  cbn [u_blocks u_ds]. f_equal.
  assert (Em : map wbf_dmap (wbf_write_blocks st sv) = wbf_write_blocks st sv).
  { rewrite <- (map_id (wbf_write_blocks st sv)) at 2. apply map_ext_in. intros cb Hin.
    rewrite wbf_write_blocks_eq in Hin. apply (proj1 (dff_sort_in _ _)) in Hin. apply filter_In in Hin. destruct Hin as [Hin _].
    apply in_map_iff in Hin. destruct Hin as [x [<- Hx]]. destruct (wbf_blocks_good st Hwf _ Hx) as (_ & G & _).
    unfold wbf_dmap, wbf_cmap. cbn [fst snd]. f_equal. rewrite (wbf_client_diff_from _ _ _ G).
    apply (wbf_from_no_skip _ _ 0 _ G); [lia|]. exact (wbf_no_hole_at_spec st sv Hnh x Hx). }
  change (fun cb : N * list block => (fst cb, wbf_drop_skips (snd cb))) with wbf_dmap.
  rewrite Em. symmetry. apply dff_filter_all. intros cb Hin. rewrite wbf_write_blocks_eq in Hin.
  apply (proj1 (dff_sort_in _ _)) in Hin. apply filter_In in Hin. apply Hin.
Qed.

(* ================================================================================================ *)
(* 5. the state vector                                                                              *)
(* ================================================================================================ *)
Lemma wbf_sv_get_map (g : N * list (block * bool) -> N) : forall st c e, NoDup (map fst st) -> In (c, e) st ->
  sv_get (map (fun cb => (fst cb, g cb)) st) c = g (c, e).
Proof.
  induction st as [|[c0 e0] st IH]; intros c e Hn Hin; [destruct Hin|]. cbn [map] in Hn.
  inversion Hn as [|? ? Hni Hn']; subst. cbn [map fst sv_get]. destruct Hin as [E|Hin].
  - injection E as -> ->. rewrite N.eqb_refl. reflexivity.
  - destruct (c0 =? c) eqn:Ec; [|exact (IH c e Hn' Hin)]. apply N.eqb_eq in Ec. subst c0. exfalso. apply Hni.
    exact (in_map fst st (c, e) Hin).
Qed.
Lemma wbf_sv_get_map_none (g : N * list (block * bool) -> N) : forall st c, ~ In c (map fst st) ->
  sv_get (map (fun cb => (fst cb, g cb)) st) c = 0.
Proof.
  induction st as [|[c0 e0] st IH]; intros c H; [reflexivity|]. cbn [map fst sv_get] in *.
  destruct (c0 =? c) eqn:Ec; [exfalso; apply H; left; lia|]. apply IH. intro Hin. apply H. now right.
Qed.

Lemma wbf_sv_scan : forall bs c k0, wbf_contig c k0 bs = true ->
  dff_sv_scan k0 bs = match wbf_first_skip bs with
                      | Some k => k
                      | None => match bs with [] => k0 | _ => wbf_list_clock bs end
                      end.
Proof.
  induction bs as [|b r IH]; intros c k0 H; [reflexivity|]. apply wbf_contig_cons in H.
  destruct H as (_ & Hk & _ & _ & Hr). cbn [dff_sv_scan wbf_first_skip]. destruct (mrg_is_skip b); [lia|].
  rewrite (IH c (mrg_end b) Hr). destruct (wbf_first_skip r); [reflexivity|]. rewrite wbf_list_clock_cons.
  destruct r; reflexivity.
Qed.
Lemma wbf_client_sv_dff : forall c bs, wbf_contig c 0 bs = true -> wbf_client_sv bs = dff_client_sv bs.
Proof.
  intros c bs H. unfold wbf_client_sv, dff_client_sv. destruct bs as [|b r]; [reflexivity|].
  pose proof H as H'. apply wbf_contig_cons in H'. replace (mrg_clock b =? 0) with true by lia.
  rewrite (wbf_sv_scan _ c 0 H). reflexivity.
Qed.

(* BlockStore::get_state_vector is Update::state_vector of the full state, as a function of the client *)
Theorem wbf_state_vector_dff : forall st c, wbf_wf st = true ->
  sv_get (wbf_state_vector st) c = sv_get (dff_state_vector (wbf_u0 st)) c.
Proof.
  intros st c Hwf. pose proof Hwf as Hwf'. apply wbf_wf_spec in Hwf'. destruct Hwf' as [Hn Hg].
  assert (Hn' : NoDup (map fst (u_blocks (wbf_u0 st)))) by (cbn [wbf_u0 u_blocks]; rewrite wbf_blocks_keys; exact Hn).
  destruct (dff_state_vector_get (wbf_u0 st) c Hn') as [G1 G2]. unfold wbf_state_vector.
  destruct (in_dec N.eq_dec c (map fst st)) as [Hin|Hni].
  - apply in_map_iff in Hin. destruct Hin as [[c' e] [Ec Hin]]. cbn [fst] in Ec. subst c'.
    rewrite (wbf_sv_get_map (fun cb => wbf_client_sv (map fst (snd cb))) st c e Hn Hin). cbn [snd].
    rewrite (G1 (map fst e)).
    + destruct (Hg c e Hin) as (_ & G & _). exact (wbf_client_sv_dff c _ G).
    + cbn [wbf_u0 u_blocks]. apply wbf_blocks_in. exists e. split; [exact Hin|reflexivity].
  - rewrite (wbf_sv_get_map_none (fun cb => wbf_client_sv (map fst (snd cb))) st c Hni).
    symmetry. apply G2. cbn [wbf_u0 u_blocks]. rewrite wbf_blocks_keys. exact Hni.
Qed.

(* the entry for client c is the first clock of c the replica has not integrated (0 = no entry) *)
Theorem wbf_state_vector_spec : forall st c n, wbf_wf st = true ->
  (sv_get (wbf_state_vector st) c = n <-> (forall k, k < n -> wbf_has st (mkid c k)) /\ ~ wbf_has st (mkid c n)).
Proof.
  intros st c n Hwf. rewrite (wbf_state_vector_dff st c Hwf).
  exact (dff_state_vector_spec (wbf_u0 st) c n (wbf_u0_wf st Hwf) (wbf_u0_chain st Hwf)).
Qed.

Lemma wbf_cut_ok_ext : forall st sv1 sv2, (forall c, sv_get sv1 c = sv_get sv2 c) -> wbf_cut_ok st sv1 = wbf_cut_ok st sv2.
Proof.
  intros st sv1 sv2 H. unfold wbf_cut_ok. apply wbf_forallb_ext. intro cb. rewrite H. reflexivity.
Qed.
Lemma wbf_dff_new_ext : forall sv1 sv2 l, (forall c, sv_get sv1 c = sv_get sv2 c) -> filter (dff_new sv1) l = filter (dff_new sv2) l.
Proof. intros sv1 sv2 l H. apply filter_ext. intro x. unfold dff_new. rewrite H. reflexivity. Qed.

(* the replica's own vector cuts no block *)
Theorem wbf_cut_ok_own : forall st, wbf_wf st = true -> wbf_cut_ok st (wbf_state_vector st) = true.
Proof.
  intros st Hwf. rewrite (wbf_cut_ok_ext st _ (dff_state_vector (wbf_u0 st))) by (intro c; apply wbf_state_vector_dff; exact Hwf).
  rewrite wbf_u0_cut. apply dff_cut_ok_own. exact (wbf_u0_wf st Hwf).
Qed.

(* ================================================================================================ *)
(* 6. (c) the diff against the replica's own vector                                                 *)
(* ================================================================================================ *)
(* exactly the units behind the first hole of their client *)
Theorem wbf_diff_against_own_vector : forall st, wbf_wf st = true ->
  units_of_update (wbf_encode_diff st (wbf_state_vector st)) =
    filter (dff_new (wbf_state_vector st)) (wbf_units_desc st) /\
  (forall x, In x (units_of_update (wbf_encode_diff st (wbf_state_vector st))) <->
             In x (wbf_units st) /\ exists g, g < ck (xid x) /\ ~ wbf_has st (mkid (cl (xid x)) g)).
Proof.
  intros st Hwf. pose proof (wbf_cut_ok_own st Hwf) as Hcut. split; [exact (wbf_diff_units st _ Hwf Hcut)|].
  intro x. rewrite (wbf_diff_units_in st _ Hwf Hcut).
  set (n := sv_get (wbf_state_vector st) (cl (xid x))).
  destruct (proj1 (wbf_state_vector_spec st (cl (xid x)) n Hwf) eq_refl) as [S1 S2].
  split; intros [Hx H]; (split; [exact Hx|]).
  - exists n. split; [|exact S2]. destruct (N.eq_dec n (ck (xid x))) as [E|E]; [|lia].
    exfalso. apply S2. unfold wbf_has. rewrite E. apply in_map_iff. exists x. split; [|exact Hx].
    destruct (xid x); reflexivity.
  - destruct H as [g [Hg Hng]]. destruct (N.le_gt_cases n (ck (xid x))) as [Hle|Hgt]; [exact Hle|].
    exfalso. apply Hng. apply S1. lia.
Qed.

Lemma wbf_first_skip_none : forall bs, (forall b, In b bs -> mrg_is_skip b = false) -> wbf_first_skip bs = None.
Proof.
  induction bs as [|b r IH]; intro H; [reflexivity|]. cbn [wbf_first_skip]. rewrite (H b (or_introl eq_refl)).
  apply IH. intros x Hx. apply H. now right.
Qed.

(* ... and nothing at all for a store without holes *)
Theorem wbf_diff_against_own_vector_no_holes : forall st, wbf_wf st = true -> wbf_no_holes st = true ->
  u_blocks (wbf_encode_diff st (wbf_state_vector st)) = [].
Proof.
  intros st Hwf Hnh. pose proof Hwf as Hwf'. apply wbf_wf_spec in Hwf'. destruct Hwf' as [Hn _].
  unfold wbf_encode_diff. cbn [u_blocks]. rewrite wbf_write_blocks_eq.
  rewrite (dff_filter_none dff_nonempty); [reflexivity|]. intros cb Hin. apply in_map_iff in Hin.
  destruct Hin as [[c bs] [<- Hx]]. apply wbf_blocks_in in Hx. destruct Hx as [e [Hin E]]. cbn [fst snd] in *. subst bs.
  unfold dff_nonempty, wbf_cmap. cbn [fst snd]. unfold wbf_state_vector.
  rewrite (wbf_sv_get_map (fun cb => wbf_client_sv (map fst (snd cb))) st c e Hn Hin). cbn [snd].
  unfold wbf_client_sv. rewrite wbf_first_skip_none.
  - unfold wbf_client_diff, wbf_client_diff_gen. rewrite N.ltb_irrefl. reflexivity.
  - intros b Hb. apply in_map_iff in Hb. destruct Hb as [x [<- Hx]]. unfold wbf_no_holes in Hnh.
    rewrite forallb_forall in Hnh. specialize (Hnh _ Hin). cbn [snd] in Hnh. rewrite forallb_forall in Hnh.
    specialize (Hnh _ Hx). apply negb_true_iff in Hnh. exact Hnh.
Qed.

(* ================================================================================================ *)
(* 7. (d) receiver completeness, at unit level                                                      *)
(* ================================================================================================ *)
(* R: the ids a receiver has integrated; its vector [sv] says that R is downward closed below it (R may hold
   more, behind holes).  What R lacks of the sender's integrated units is in the diff. *)
Theorem wbf_receiver_complete_gen : forall st sv (R : id -> Prop), wbf_wf st = true -> wbf_cut_ok st sv = true ->
  (forall c k, k < sv_get sv c -> R (mkid c k)) ->
  forall x, In x (wbf_units st) -> R (xid x) \/ In x (units_of_update (wbf_encode_diff st sv)).
Proof.
  intros st sv R Hwf Hcut HR x Hx. destruct (N.lt_ge_cases (ck (xid x)) (sv_get sv (cl (xid x)))) as [Hlt|Hge].
  - left. specialize (HR _ _ Hlt). destruct (xid x); exact HR.
  - right. apply (wbf_diff_units_in st sv Hwf Hcut). split; assumption.
Qed.

(* the receiver is a replica [rst] that asks with its own state vector *)
Theorem wbf_receiver_complete : forall st rst, wbf_wf st = true -> wbf_wf rst = true ->
  wbf_cut_ok st (wbf_state_vector rst) = true ->
  forall x, In x (wbf_units st) ->
    wbf_has rst (xid x) \/ In x (units_of_update (wbf_encode_diff st (wbf_state_vector rst))).
Proof.
  intros st rst Hwf Hwr Hcut. apply (wbf_receiver_complete_gen st _ (wbf_has rst) Hwf Hcut).
  intros c k Hk. exact (proj1 (proj1 (wbf_state_vector_spec rst c _ Hwr) eq_refl) k Hk).
Qed.

(* ================================================================================================ *)
(* 8. (e), history: the update of one transaction BEFORE 7da5187 (write_blocks_from from the first new clock) *)
(* ================================================================================================ *)
Lemma wbf_txn_sv_get : forall st starts c e, NoDup (map fst st) -> In (c, e) st ->
  sv_get (wbf_txn_sv st starts) c =
  match wbf_lookup starts c with Some s => s | None => wbf_list_clock (map fst e) end.
Proof.
  intros st starts c e Hn Hin. unfold wbf_txn_sv.
  exact (wbf_sv_get_map (fun cb => match wbf_lookup starts (fst cb) with
                                   | Some s => s | None => wbf_list_clock (map fst (snd cb)) end) st c e Hn Hin).
Qed.

(* every integrated unit lies in the list of its client, below the end of the list *)
Lemma wbf_unit_home : forall st x, wbf_wf st = true -> In x (wbf_units st) ->
  exists e, In (cl (xid x), e) st /\ ck (xid x) < wbf_list_clock (map fst e).
Proof.
  intros st x Hwf Hx. unfold wbf_units in Hx. apply in_flat_map in Hx. destruct Hx as [cb [Hcb Hx]].
  destruct (wbf_blocks_good st Hwf cb Hcb) as (_ & G & _). pose proof (wbf_contig_client_ok _ _ _ G) as Hok.
  pose proof (dff_units_client _ _ x Hok Hx) as Hc. apply wbf_blocks_in in Hcb. destruct Hcb as [e [Hin E]].
  exists e. rewrite Hc. split; [exact Hin|]. rewrite <- E. apply in_flat_map in Hx. destruct Hx as [b [Hb Hxb]].
  destruct Hok as [Hf Hs]. rewrite Forall_forall in Hf. destruct (Hf b Hb) as (_ & Hw & _).
  apply (mrg_units_range b x Hw) in Hxb. pose proof (wbf_list_clock_max _ b Hs Hb). lia.
Qed.

(* the units of the update event: the integrated units of the clients the transaction added something for,
   from the first clock it added on *)
Theorem wbf_txn_update_units_pre_7da5187 : forall st starts ds, wbf_wf st = true ->
  wbf_cut_ok st (wbf_txn_sv st starts) = true ->
  forall x, In x (units_of_update (wbf_encode_txn_update_pre_7da5187 st starts ds)) <->
            In x (wbf_units st) /\ exists s, wbf_lookup starts (cl (xid x)) = Some s /\ s <= ck (xid x).
Proof.
  intros st starts ds Hwf Hcut x.
  rewrite (wbf_units_of_blocks (wbf_encode_txn_update_pre_7da5187 st starts ds) (wbf_encode_diff st (wbf_txn_sv st starts)) eq_refl).
  rewrite (wbf_diff_units_in st _ Hwf Hcut). pose proof Hwf as Hwf'. apply wbf_wf_spec in Hwf'. destruct Hwf' as [Hn _].
  split.
  - intros [Hx Hle]. split; [exact Hx|]. destruct (wbf_unit_home st x Hwf Hx) as [e [Hin Hlt]].
    rewrite (wbf_txn_sv_get st starts _ e Hn Hin) in Hle. destruct (wbf_lookup starts (cl (xid x))) as [s|]; [|lia].
    exists s. split; [reflexivity|exact Hle].
  - intros [Hx [s [Hs Hle]]]. split; [exact Hx|]. destruct (wbf_unit_home st x Hwf Hx) as [e [Hin Hlt]].
    rewrite (wbf_txn_sv_get st starts _ e Hn Hin), Hs. exact Hle.
Qed.

(* a client the transaction added nothing for is not written, whatever the replica holds of it - also behind a
   hole (before 237bcf9 those blocks were written again by every transaction: wbf_txn_no_foreign_pre_237bcf9_refuted) *)
Corollary wbf_txn_update_no_foreign_pre_7da5187 : forall st starts ds c, wbf_wf st = true ->
  wbf_cut_ok st (wbf_txn_sv st starts) = true -> wbf_lookup starts c = None ->
  forall x, In x (units_of_update (wbf_encode_txn_update_pre_7da5187 st starts ds)) -> cl (xid x) <> c.
Proof.
  intros st starts ds c Hwf Hcut Hl x Hx E. apply (wbf_txn_update_units_pre_7da5187 st starts ds Hwf Hcut) in Hx.
  destruct Hx as [_ [s [Hs _]]]. rewrite E in Hs. congruence.
Qed.
(* nothing below the first clock the transaction added *)
Corollary wbf_txn_update_nothing_below_pre_7da5187 : forall st starts ds c s, wbf_wf st = true ->
  wbf_cut_ok st (wbf_txn_sv st starts) = true -> wbf_lookup starts c = Some s ->
  forall x, In x (units_of_update (wbf_encode_txn_update_pre_7da5187 st starts ds)) -> cl (xid x) = c -> s <= ck (xid x).
Proof.
  intros st starts ds c s Hwf Hcut Hl x Hx E. apply (wbf_txn_update_units_pre_7da5187 st starts ds Hwf Hcut) in Hx.
  destruct Hx as [_ [s' [Hs Hle]]]. rewrite E in Hs. congruence.
Qed.

(* ---- against the insert set of the transaction ---- *)
Lemma wbf_sorted_nodup : forall (m : idset), StronglySorted (fun a b : N * idrange => fst a < fst b) m -> NoDup (map fst m).
Proof.
  intros m H. induction H as [|x m H IH Hf]; [constructor|]. cbn [map]. constructor; [|exact IH].
  intro Hin. apply in_map_iff in Hin. destruct Hin as [y [E Hy]]. rewrite Forall_forall in Hf. specialize (Hf y Hy). unfold idrange in *. lia.
Qed.
Lemma wbf_ins_starts_lookup : forall (ins : idset) c x r, NoDup (map fst ins) -> In (c, x :: r) ins ->
  wbf_lookup (wbf_ins_starts ins) c = Some (e_start x).
Proof.
  induction ins as [|[c0 r0] ins IH]; intros c x r Hn Hin; [destruct Hin|]. cbn [map] in Hn.
  inversion Hn as [|? ? Hni Hn']; subst. unfold wbf_ins_starts. cbn [flat_map fst snd]. destruct Hin as [E|Hin].
  - injection E as -> ->. cbn [app wbf_lookup]. rewrite N.eqb_refl. reflexivity.
  - assert (Hne : c0 <> c) by (intros ->; apply Hni; exact (in_map fst ins (c, x :: r) Hin)).
    destruct r0 as [|y r0']; cbn [app wbf_lookup]; [|replace (c0 =? c) with false by lia]; exact (IH c x r Hn' Hin).
Qed.
Lemma wbf_ins_mem_start : forall ins c k, mrg_ds_ok ins -> mrg_ds_mem ins c k = true ->
  exists s, wbf_lookup (wbf_ins_starts ins) c = Some s /\ s <= k.
Proof.
  intros ins c k [Hs Hc] Hm. rewrite mrg_ds_mem_den in Hm. destruct (im_get ins c) as [r|] eqn:G; [|discriminate].
  apply mrg_im_get_in in G. destruct r as [|x r]; [discriminate|]. exists (e_start x). split.
  - exact (wbf_ins_starts_lookup ins c x r (wbf_sorted_nodup ins Hs) G).
  - apply (den_ge (x :: r) (e_start x) k (Hc c _ G)); [cbn [lbw]; lia|exact Hm].
Qed.

(* nothing the transaction added is left out *)
Theorem wbf_txn_update_complete_pre_7da5187 : forall st ins ds, wbf_wf st = true -> mrg_ds_ok ins ->
  wbf_cut_ok st (wbf_txn_sv st (wbf_ins_starts ins)) = true ->
  forall x, In x (wbf_units st) -> mrg_ds_mem ins (cl (xid x)) (ck (xid x)) = true ->
  In x (units_of_update (wbf_encode_txn_update_pre_7da5187 st (wbf_ins_starts ins) ds)).
Proof.
  intros st ins ds Hwf Hi Hcut x Hx Hm. apply (wbf_txn_update_units_pre_7da5187 st _ ds Hwf Hcut). split; [exact Hx|].
  exact (wbf_ins_mem_start ins _ _ Hi Hm).
Qed.

(* ... and it contains EXACTLY the units the transaction added iff the transaction added everything the replica
   holds of a client from its first new clock on (it appended; it did not fill a hole in front of blocks that
   were there: wbf_txn_update_exact_pre_7da5187_refuted) *)
Definition wbf_txn_appends (st : wbf_store) (ins : idset) : Prop :=
  forall x s, In x (wbf_units st) -> wbf_lookup (wbf_ins_starts ins) (cl (xid x)) = Some s -> s <= ck (xid x) ->
              mrg_ds_mem ins (cl (xid x)) (ck (xid x)) = true.
Theorem wbf_txn_update_exact_iff_appends_pre_7da5187 : forall st ins ds, wbf_wf st = true -> mrg_ds_ok ins ->
  wbf_cut_ok st (wbf_txn_sv st (wbf_ins_starts ins)) = true ->
  (wbf_txn_appends st ins <->
   forall x, In x (units_of_update (wbf_encode_txn_update_pre_7da5187 st (wbf_ins_starts ins) ds)) <->
             In x (wbf_units st) /\ mrg_ds_mem ins (cl (xid x)) (ck (xid x)) = true).
Proof.
  intros st ins ds Hwf Hi Hcut. split.
  - intros Ha x. rewrite (wbf_txn_update_units_pre_7da5187 st _ ds Hwf Hcut). split.
    + intros [Hx [s [Hs Hle]]]. split; [exact Hx|]. exact (Ha x s Hx Hs Hle).
    + intros [Hx Hm]. split; [exact Hx|]. exact (wbf_ins_mem_start ins _ _ Hi Hm).
  - intros H x s Hx Hs Hle. apply (H x). apply (wbf_txn_update_units_pre_7da5187 st _ ds Hwf Hcut). split; [exact Hx|].
    exists s. split; assumption.
Qed.

(* ================================================================================================ *)
(* 9. (b) the delete set                                                                            *)
(* ================================================================================================ *)
Definition wbf_del_in (bs : list (block * bool)) (k : N) : bool :=
  existsb (fun e => wbf_is_deleted e && (mrg_clock (fst e) <=? k) && (k <? mrg_end (fst e))) bs.
Definition wbf_del_step (acc : idrange) (e : block * bool) : idrange :=
  if wbf_is_deleted e then wbf_range_insert acc (mrg_clock (fst e)) (mrg_end (fst e)) else acc.

Lemma wbf_client_deletes_fold : forall bs acc, canon acc -> (forall e, In e bs -> 0 < block_len (fst e)) ->
  canon (fold_left wbf_del_step bs acc) /\
  forall k, den (fold_left wbf_del_step bs acc) k = den acc k || wbf_del_in bs k.
Proof.
  induction bs as [|e r IH]; intros acc Hc Hl.
  - cbn [fold_left wbf_del_in existsb]. split; [exact Hc|]. intro k. rewrite orb_false_r. reflexivity.
  - cbn [fold_left]. assert (Hl' : forall x, In x r -> 0 < block_len (fst x)) by (intros x Hx; apply Hl; now right).
    unfold wbf_del_step at 2 4. destruct (wbf_is_deleted e) eqn:Ed.
    + assert (Hse : mrg_clock (fst e) < mrg_end (fst e)) by (specialize (Hl e (or_introl eq_refl)); unfold mrg_end; lia).
      destruct (insert_with_spec acc _ _ Hc Hse) as [l' [E [C D]]]. unfold wbf_range_insert. rewrite E.
      destruct (IH l' C Hl') as [I1 I2]. split; [exact I1|]. intro k. rewrite I2, D.
      unfold wbf_del_in. cbn [existsb]. rewrite Ed. cbn [andb]. rewrite orb_assoc. reflexivity.
    + destruct (IH acc Hc Hl') as [I1 I2]. split; [exact I1|]. intro k. rewrite I2.
      unfold wbf_del_in. cbn [existsb]. rewrite Ed. cbn [andb orb]. reflexivity.
Qed.
Lemma wbf_client_deletes_spec : forall bs, (forall e, In e bs -> 0 < block_len (fst e)) ->
  canon (wbf_client_deletes bs) /\ forall k, den (wbf_client_deletes bs) k = wbf_del_in bs k.
Proof.
  intros bs Hl. destruct (wbf_client_deletes_fold bs [] I Hl) as [H1 H2]. split; [exact H1|]. intro k. exact (H2 k).
Qed.

Definition wbf_ds_step (m : idset) (cb : N * list (block * bool)) : idset :=
  match wbf_client_deletes (snd cb) with [] => m | r => im_set m (fst cb) r end.
Definition wbf_ds_nonempty (m : idset) : Prop := forall c r, In (c, r) m -> r <> [].

Lemma wbf_delete_set_fold : forall l m, mrg_ds_ok m -> wbf_ds_nonempty m -> NoDup (map fst l) ->
  (forall cb, In cb l -> im_get m (fst cb) = None) ->
  (forall cb e, In cb l -> In e (snd cb) -> 0 < block_len (fst e)) ->
  mrg_ds_ok (fold_left wbf_ds_step l m) /\ wbf_ds_nonempty (fold_left wbf_ds_step l m) /\
  forall c k, mrg_ds_mem (fold_left wbf_ds_step l m) c k =
              mrg_ds_mem m c k || existsb (fun cb => (fst cb =? c) && wbf_del_in (snd cb) k) l.
Proof.
  induction l as [|cb l IH]; intros m Hm Hne Hn Hg Hl.
  - cbn [fold_left existsb]. repeat split; [apply Hm|apply Hm|exact Hne|]. intros c k. rewrite orb_false_r. reflexivity.
  - cbn [map] in Hn. inversion Hn as [|? ? Hni Hn']; subst. cbn [fold_left].
    destruct (wbf_client_deletes_spec (snd cb) (fun e He => Hl cb e (or_introl eq_refl) He)) as [Hc Hd].
    assert (Hl' : forall cb' e, In cb' l -> In e (snd cb') -> 0 < block_len (fst e))
      by (intros cb' e H1 H2; exact (Hl cb' e (or_intror H1) H2)).
    unfold wbf_ds_step at 2 4 6. destruct (wbf_client_deletes (snd cb)) as [|x r] eqn:Er.
    + destruct (IH m Hm Hne Hn' (fun cb' H => Hg cb' (or_intror H)) Hl') as (I1 & I2 & I3).
      repeat split; [apply I1|apply I1|exact I2|]. intros c k. rewrite I3. cbn [existsb].
      rewrite <- Hd. cbn [den existsb]. rewrite andb_false_r. reflexivity.
    + destruct Hm as [Hs Hcan]. destruct (mrg_im_set_spec m (fst cb) (x :: r) Hs) as [S1 S2].
      assert (Hm1 : mrg_ds_ok (im_set m (fst cb) (x :: r))).
      { split; [exact S1|]. intros c' r' Hin. apply S2 in Hin. destruct Hin as [[_ ->]|[_ Hin]]; [exact Hc|exact (Hcan _ _ Hin)]. }
      assert (Hne1 : wbf_ds_nonempty (im_set m (fst cb) (x :: r))).
      { intros c' r' Hin. apply S2 in Hin. destruct Hin as [[_ ->]|[_ Hin]]; [discriminate|exact (Hne _ _ Hin)]. }
      assert (Hg1 : forall cb', In cb' l -> im_get (im_set m (fst cb) (x :: r)) (fst cb') = None).
      { intros cb' Hin. rewrite (mrg_im_get_set m _ _ _ Hs).
        destruct (fst cb' =? fst cb) eqn:E; [|exact (Hg cb' (or_intror Hin))].
        exfalso. apply Hni. apply N.eqb_eq in E. rewrite <- E. apply in_map. exact Hin. }
      destruct (IH _ Hm1 Hne1 Hn' Hg1 Hl') as (I1 & I2 & I3).
      repeat split; [apply I1|apply I1|exact I2|]. intros c k. rewrite I3. cbn [existsb]. rewrite orb_assoc. f_equal.
      rewrite !mrg_ds_mem_den, (mrg_im_get_set m _ _ _ Hs). rewrite (N.eqb_sym (fst cb) c).
      destruct (c =? fst cb) eqn:E.
      * apply N.eqb_eq in E. subst c. rewrite (Hg cb (or_introl eq_refl)). cbn [orb andb]. exact (Hd k).
      * rewrite andb_false_l, orb_false_r. reflexivity.
Qed.

Lemma wbf_delete_set_eq : forall st, wbf_delete_set st = fold_left wbf_ds_step st [].
Proof. reflexivity. Qed.

Lemma wbf_block_ids : forall b c k, blk_wf b = true -> mrg_is_skip b = false ->
  (In (mkid c k) (map xid (units_of_block b)) <-> c = mrg_client b /\ mrg_clock b <= k /\ k < mrg_end b).
Proof.
  intros b c k Hw Hs. rewrite in_map_iff. split.
  - intros [x [E Hx]]. apply (mrg_units_range b x Hw) in Hx. rewrite E in Hx. cbn [cl ck] in Hx. lia.
  - intros (-> & H1 & H2). destruct (mrg_units_cover b k Hw Hs H1 H2) as [x [Hx E]]. exists x. split; [exact E|exact Hx].
Qed.

Lemma wbf_deleted_not_skip : forall e, wbf_is_deleted e = true -> mrg_is_skip (fst e) = false.
Proof. intros [[i o ro p ps c|i n|i n] d] H; cbn in *; [reflexivity|reflexivity|discriminate]. Qed.

Lemma wbf_good_blocks : forall c e x, wbf_client_good c e -> In x e ->
  mrg_client (fst x) = c /\ blk_wf (fst x) = true /\ 0 < block_len (fst x).
Proof.
  intros c e x (_ & G & _) Hx. destruct (wbf_contig_ok _ _ _ G) as (Hf & _ & _). rewrite Forall_forall in Hf.
  exact (Hf (fst x) (in_map fst e x Hx)).
Qed.

(* (b) the delete set: exactly the ids of the deleted items and of the collected (GC) ranges of the store, in the
   form IdSet keeps (clients ascending, per client sorted ranges that are non-empty and do not touch, no client
   with an empty range list); [im_contains] (IdSet::contains) computes that membership *)
Theorem wbf_delete_set_exact : forall st, wbf_wf st = true ->
  mrg_ds_ok (wbf_delete_set st) /\ wbf_ds_nonempty (wbf_delete_set st) /\
  (forall c k, mrg_ds_mem (wbf_delete_set st) c k = true <-> In (mkid c k) (wbf_deleted_ids st)) /\
  (forall c k, im_contains (wbf_delete_set st) c k = Some (mrg_ds_mem (wbf_delete_set st) c k)).
Proof.
  intros st Hwf. apply wbf_wf_spec in Hwf. destruct Hwf as [Hn Hg]. rewrite wbf_delete_set_eq.
  assert (Hok0 : mrg_ds_ok []) by (split; [constructor|intros c r []]).
  destruct (wbf_delete_set_fold st [] Hok0 (fun c r H => match H with end) Hn (fun _ _ => eq_refl)) as (H1 & H2 & H3).
  { intros [c e] x Hin Hx. cbn [snd] in Hx. exact (proj2 (proj2 (wbf_good_blocks c e x (Hg c e Hin) Hx))). }
  split; [exact H1|]. split; [exact H2|]. split.
  - intros c k. rewrite H3. cbn [mrg_ds_mem im_get orb]. rewrite existsb_exists. unfold wbf_deleted_ids.
    rewrite in_flat_map. split.
    + intros [[c' e] [Hin Hb]]. cbn [fst snd] in Hb. apply andb_prop in Hb. destruct Hb as [Ec Hb].
      apply N.eqb_eq in Ec. subst c'. unfold wbf_del_in in Hb. apply existsb_exists in Hb. destruct Hb as [x [Hx Hb]].
      exists (c, e). split; [exact Hin|]. cbn [snd]. apply in_flat_map. exists x. split; [exact Hx|].
      destruct (wbf_is_deleted x) eqn:Ed; [|discriminate]. destruct (wbf_good_blocks c e x (Hg c e Hin) Hx) as (Gc & Gw & _).
      apply (wbf_block_ids _ c k Gw (wbf_deleted_not_skip x Ed)). cbn [andb] in Hb. lia.
    + intros [[c' e] [Hin Hb]]. cbn [snd] in Hb. apply in_flat_map in Hb. destruct Hb as [x [Hx Hb]].
      destruct (wbf_is_deleted x) eqn:Ed; [|destruct Hb]. destruct (wbf_good_blocks c' e x (Hg c' e Hin) Hx) as (Gc & Gw & _).
      apply (wbf_block_ids _ c k Gw (wbf_deleted_not_skip x Ed)) in Hb. exists (c', e). split; [exact Hin|].
      cbn [fst snd]. replace (c' =? c) with true by lia. cbn [andb]. unfold wbf_del_in. apply existsb_exists.
      exists x. split; [exact Hx|]. rewrite Ed. cbn [andb]. lia.
  - intros c k. unfold im_contains. rewrite mrg_ds_mem_den. destruct (im_get (fold_left wbf_ds_step st []) c) as [r|] eqn:G; [|reflexivity].
    apply contains_clock_spec. destruct H1 as [_ Hc]. exact (Hc c r (mrg_im_get_in _ _ _ G)).
Qed.

(* ================================================================================================ *)
(* 10. the code as written (find_index, unwraps, u32 arithmetic) computes the total version          *)
(* ================================================================================================ *)
(* ---- descending lists with distinct keys ---- *)
Lemma wbf_desc_strict {B} : forall l : list (N * B), StronglySorted (fun a b => fst b <= fst a) l -> NoDup (map fst l) ->
  StronglySorted (fun a b => fst b < fst a) l.
Proof.
  intros l H. induction H as [|x l H IH Hf]; intro Hn; [constructor|]. cbn [map] in Hn.
  inversion Hn as [|? ? Hni Hn']; subst. constructor; [exact (IH Hn')|]. rewrite Forall_forall in *.
  intros y Hy. specialize (Hf y Hy). cbv beta in Hf. destruct (N.eq_dec (fst y) (fst x)) as [E|E]; [|lia].
  exfalso. apply Hni. rewrite <- E. apply in_map. exact Hy.
Qed.
Lemma wbf_desc_unique {B} : forall l1 l2 : list (N * B),
  StronglySorted (fun a b => fst b < fst a) l1 -> StronglySorted (fun a b => fst b < fst a) l2 ->
  (forall x, In x l1 <-> In x l2) -> l1 = l2.
Proof.
  induction l1 as [|x l1 IH]; intros [|y l2] H1 H2 H.
  - reflexivity.
  - exfalso. exact (proj2 (H y) (or_introl eq_refl)).
  - exfalso. exact (proj1 (H x) (or_introl eq_refl)).
  - inversion H1 as [|? ? S1 F1]; subst. inversion H2 as [|? ? S2 F2]; subst. rewrite Forall_forall in F1, F2.
    assert (E : x = y).
    { destruct (proj1 (H x) (or_introl eq_refl)) as [E|Hx]; [now symmetry|].
      destruct (proj2 (H y) (or_introl eq_refl)) as [E|Hy]; [exact E|].
      specialize (F2 x Hx). specialize (F1 y Hy). cbv beta in *. lia. }
    subst y. f_equal. apply (IH l2 S1 S2). intro z. split; intro Hz.
    + destruct (proj1 (H z) (or_intror Hz)) as [E|Hz']; [|exact Hz']. subst z. specialize (F1 x Hz). cbv beta in F1. lia.
    + destruct (proj2 (H z) (or_intror Hz)) as [E|Hz']; [|exact Hz']. subst z. specialize (F2 x Hz). cbv beta in F2. lia.
Qed.

Lemma wbf_insert_pair_perm : forall x l, Permutation (wbf_insert_pair x l) (x :: l).
Proof.
  intros x l. induction l as [|y r IH]; cbn [wbf_insert_pair]; [apply Permutation_refl|].
  destruct (fst y <=? fst x); [apply Permutation_refl|].
  apply (Permutation_trans (perm_skip y IH)). apply perm_swap.
Qed.
Lemma wbf_sort_pairs_perm : forall l, Permutation (wbf_sort_pairs l) l.
Proof.
  induction l as [|x l IH]; [apply Permutation_refl|]. unfold wbf_sort_pairs in *. cbn [fold_right].
  apply (Permutation_trans (wbf_insert_pair_perm x _)). apply perm_skip. exact IH.
Qed.
Lemma wbf_insert_pair_desc : forall x l, StronglySorted (fun a b : N * N => fst b <= fst a) l ->
  StronglySorted (fun a b : N * N => fst b <= fst a) (wbf_insert_pair x l).
Proof.
  intros x l. induction l as [|y r IH]; intro H; cbn [wbf_insert_pair].
  - constructor; constructor.
  - inversion H as [|? ? Hr Hf]; subst. rewrite Forall_forall in Hf. destruct (fst y <=? fst x) eqn:E.
    + constructor; [exact H|]. constructor; [lia|]. apply Forall_forall. intros z Hz. specialize (Hf z Hz). cbv beta in Hf. lia.
    + constructor; [exact (IH Hr)|]. apply Forall_forall. intros z Hz.
      apply (Permutation_in _ (wbf_insert_pair_perm x r)) in Hz. destruct Hz as [<-|Hz]; [lia|exact (Hf z Hz)].
Qed.
Lemma wbf_sort_pairs_desc : forall l, StronglySorted (fun a b : N * N => fst b <= fst a) (wbf_sort_pairs l).
Proof.
  induction l as [|x l IH]; [constructor|]. unfold wbf_sort_pairs in *. cbn [fold_right].
  apply wbf_insert_pair_desc. exact IH.
Qed.

Lemma wbf_nodup_app {A} : forall a b : list A, NoDup a -> NoDup b -> (forall x, In x a -> ~ In x b) -> NoDup (a ++ b).
Proof.
  induction a as [|x a IH]; intros b Ha Hb H; [exact Hb|]. inversion Ha as [|? ? Hni Ha']; subst. cbn [app].
  constructor.
  - intro Hin. apply in_app_or in Hin. destruct Hin as [Hin|Hin]; [contradiction|]. exact (H x (or_introl eq_refl) Hin).
  - apply IH; [exact Ha'|exact Hb|]. intros y Hy. apply H. now right.
Qed.

(* ---- state vectors as maps ---- *)
Lemma wbf_sv_get_in : forall sv c v, NoDup (map fst sv) -> In (c, v) sv -> sv_get sv c = v.
Proof.
  induction sv as [|[c0 v0] sv IH]; intros c v Hn Hin; [destruct Hin|]. cbn [map] in Hn.
  inversion Hn as [|? ? Hni Hn']; subst. cbn [sv_get]. destruct Hin as [E|Hin].
  - injection E as -> ->. rewrite N.eqb_refl. reflexivity.
  - destruct (c0 =? c) eqn:Ec; [|exact (IH c v Hn' Hin)]. apply N.eqb_eq in Ec. subst c0. exfalso. apply Hni.
    exact (in_map fst sv (c, v) Hin).
Qed.
Lemma wbf_sv_mem_spec : forall sv c, wbf_sv_mem sv c = true <-> In c (map fst sv).
Proof.
  intros sv c. unfold wbf_sv_mem. rewrite existsb_exists, in_map_iff. split.
  - intros [e [He E]]. exists e. split; [lia|exact He].
  - intros [e [E He]]. exists e. split; [exact He|lia].
Qed.
Lemma wbf_sv_get_notmem : forall sv c, wbf_sv_mem sv c = false -> sv_get sv c = 0.
Proof.
  induction sv as [|[c0 v0] sv IH]; intros c H; [reflexivity|]. unfold wbf_sv_mem in H. cbn [existsb fst] in H.
  apply orb_false_elim in H. destruct H as [H1 H2]. cbn [sv_get]. rewrite H1. exact (IH c H2).
Qed.
Lemma wbf_sv_get_mem_in : forall sv c, wbf_sv_mem sv c = true -> In (c, sv_get sv c) sv.
Proof.
  induction sv as [|[c0 v0] sv IH]; intros c H; [discriminate|]. unfold wbf_sv_mem in H. cbn [existsb fst] in H.
  cbn [sv_get]. destruct (c0 =? c) eqn:E; [apply N.eqb_eq in E; subst; now left|]. right. exact (IH c H).
Qed.

Lemma wbf_get_client_in : forall st c e, NoDup (map fst st) -> In (c, e) st -> wbf_get_client st c = Some e.
Proof.
  induction st as [|[c0 e0] st IH]; intros c e Hn Hin; [destruct Hin|]. cbn [map] in Hn.
  inversion Hn as [|? ? Hni Hn']; subst. cbn [wbf_get_client]. destruct Hin as [E|Hin].
  - injection E as -> ->. rewrite N.eqb_refl. reflexivity.
  - destruct (c0 =? c) eqn:Ec; [|exact (IH c e Hn' Hin)]. apply N.eqb_eq in Ec. subst c0. exfalso. apply Hni.
    exact (in_map fst st (c, e) Hin).
Qed.

(* ---- one client ---- *)
Lemma wbf_abs_clock : forall x, adl_bclock (wbf_abs x) = mrg_clock (fst x).
Proof. reflexivity. Qed.
Lemma wbf_abs_len : forall x, adl_blen (wbf_abs x) = block_len (fst x).
Proof. reflexivity. Qed.

Lemma wbf_abs_contig : forall e c a, wbf_contig c a (map fst e) = true ->
  adl_contig a (map wbf_abs e) = true /\
  adl_end a (map wbf_abs e) = match e with [] => a | _ => wbf_list_clock (map fst e) end.
Proof.
  induction e as [|x r IH]; intros c a H; [split; reflexivity|]. cbn [map] in H. apply wbf_contig_cons in H.
  destruct H as (_ & Hk & Hl & _ & Hr). destruct (IH c _ Hr) as [I1 I2]. cbn [map]. split.
  - apply adl_contig_cons. rewrite wbf_abs_clock, wbf_abs_len. unfold mrg_end in I1. rewrite Hk in I1. repeat split; assumption.
  - cbn [adl_end]. rewrite wbf_abs_len. unfold mrg_end in I2. rewrite Hk in I2. rewrite I2, wbf_list_clock_cons.
    destruct r; cbn [map]; [unfold mrg_end; lia|reflexivity].
Qed.

(* the block that contains the clock, and what the linear search returns *)
Lemma wbf_locate : forall (e : list (block * bool)) c a k, wbf_contig c a (map fst e) = true -> a <= k -> k < wbf_list_clock (map fst e) ->
  exists pre x r, e = pre ++ x :: r /\ mrg_clock (fst x) <= k /\ k < mrg_end (fst x) /\
    wbf_from k (map fst e) = dff_encode_with_offset (fst x) (k - mrg_clock (fst x)) :: map fst r.
Proof.
  induction e as [|x r IH]; intros c a k H Ha Hk; [cbn in Hk; lia|]. cbn [map] in *. apply wbf_contig_cons in H.
  destruct H as (_ & Hc & Hl & _ & Hr). cbn [wbf_from]. destruct (k <? mrg_end (fst x)) eqn:E.
  - exists [], x, r. repeat split; lia.
  - rewrite wbf_list_clock_cons in Hk. destruct r as [|y r']; [cbn [map] in Hk; lia|].
    destruct (IH c (mrg_end (fst x)) k Hr ltac:(lia) Hk) as (pre & z & r2 & E2 & H1 & H2 & H3).
    exists (x :: pre), z, r2. rewrite E2. repeat split; try assumption. rewrite <- E2. exact H3.
Qed.

Lemma wbf_good_first_clock : forall c e, wbf_client_good c e -> wbf_first_clock (map fst e) = 0.
Proof.
  intros c e (_ & G & _). destruct e as [|x r]; [reflexivity|]. cbn [map wbf_first_clock] in *. apply wbf_contig_cons in G. lia.
Qed.
Lemma wbf_good_clock_pos : forall c e, wbf_client_good c e -> 0 < wbf_list_clock (map fst e).
Proof.
  intros c e (Hne & G & _). destruct e as [|x r]; [contradiction|]. cbn [map] in *.
  pose proof (wbf_list_clock_max _ (fst x) (proj2 (wbf_contig_client_ok _ _ _ G)) (or_introl eq_refl)).
  apply wbf_contig_cons in G. unfold mrg_end in *. lia.
Qed.

Lemma wbf_client_write_ok : forall c e v, wbf_client_good c e -> v < wbf_list_clock (map fst e) ->
  wbf_client_write_res e v = adl_ok (wbf_from v (map fst e)).
Proof.
  intros c e v Hg Hv. pose proof Hg as (Hne & G & Hmax). unfold wbf_client_write_res.
  rewrite (wbf_good_first_clock c e Hg), N.max_0_r.
  destruct (wbf_locate e c 0 v G ltac:(lia) Hv) as (pre & x & r & E & H1 & H2 & H3).
  destruct (wbf_abs_contig e c 0 G) as [A1 A2].
  assert (A3 : adl_end 0 (map wbf_abs e) <= adl_u32_max) by (rewrite A2; destruct e; [contradiction|exact Hmax]).
  rewrite (adl_find_index_ok (map wbf_abs e) v (map wbf_abs pre) (wbf_abs x) (map wbf_abs r) A1 A3).
  - cbn [adl_bind]. rewrite map_length. rewrite E at 1. rewrite adl_nth_len.
    rewrite (adl_sub32_ok v (mrg_clock (fst x)) H1). cbn [adl_bind].
    rewrite adl_sub32_ok by (unfold mrg_end in H2; lia). cbn [adl_bind]. rewrite H3. do 3 f_equal.
    rewrite E, adl_app_cons. rewrite <- (adl_len_snoc pre x). apply adl_skipn_len.
  - rewrite E, map_app. reflexivity.
  - rewrite wbf_abs_clock, wbf_abs_len. unfold mrg_end in H2. lia.
Qed.

(* ---- the loop over the sorted (client, clock) pairs ---- *)
Definition wbf_step (st : wbf_store) (acc : list (N * list block)) (e : N * N) : adl_res (list (N * list block)) :=
  match wbf_get_client st (fst e) with
  | None => adl_panic
  | Some bs => adl_bind (wbf_client_write_res bs (snd e)) (fun l => adl_ok (acc ++ [(fst e, l)]))
  end.
Definition wbf_gmap (st : wbf_store) (e : N * N) : N * list block :=
  (fst e, match wbf_get_client st (fst e) with Some bs => wbf_from (snd e) (map fst bs) | None => [] end).

Lemma wbf_fold_ok : forall st D acc,
  (forall p, In p D -> exists bs, wbf_get_client st (fst p) = Some bs /\
                                  wbf_client_write_res bs (snd p) = adl_ok (wbf_from (snd p) (map fst bs))) ->
  adl_fold (wbf_step st) D acc = adl_ok (acc ++ map (wbf_gmap st) D).
Proof.
  intros st D. induction D as [|p D IH]; intros acc H; cbn [adl_fold map]; [rewrite app_nil_r; reflexivity|].
  destruct (H p (or_introl eq_refl)) as [bs [G W]]. unfold wbf_step at 1. rewrite G, W. cbn [adl_bind].
  rewrite IH by (intros q Hq; apply H; now right). unfold wbf_gmap at 2. rewrite G, <- app_assoc. reflexivity.
Qed.

Lemma wbf_local_sv_get : forall st c e, NoDup (map fst st) -> In (c, e) st ->
  sv_get (wbf_local_sv st) c = wbf_list_clock (map fst e).
Proof.
  intros st c e Hn Hin. exact (wbf_sv_get_map (fun cb => wbf_list_clock (map fst (snd cb))) st c e Hn Hin).
Qed.

(* the pairs diff_state_vectors returns *)
Lemma wbf_diff_sv_in : forall st sv c v, In (c, v) (wbf_diff_state_vectors (wbf_local_sv st) sv) <->
  (In (c, v) sv /\ v < sv_get (wbf_local_sv st) c) \/ (v = 0 /\ In c (map fst st) /\ wbf_sv_mem sv c = false).
Proof.
  intros st sv c v. unfold wbf_diff_state_vectors. rewrite in_app_iff, filter_In, in_map_iff. cbn [fst snd].
  split; (intros [H|H]; [left|right]).
  - destruct H as [H1 H2]. split; [exact H1|lia].
  - destruct H as [[c' k] [E H]]. cbn [fst] in E. injection E as -> <-. apply filter_In in H. destruct H as [H1 H2].
    cbn [fst] in H2. split; [reflexivity|]. split; [|apply negb_true_iff; exact H2].
    unfold wbf_local_sv in H1. apply in_map_iff in H1. destruct H1 as [cb [E Hcb]]. injection E as <- _.
    apply in_map. exact Hcb.
  - destruct H as [H1 H2]. split; [exact H1|lia].
  - destruct H as (-> & H1 & H2). apply in_map_iff in H1. destruct H1 as [[c' e] [E Hin]]. cbn [fst] in E. subst c'.
    exists (c, wbf_list_clock (map fst e)). split; [reflexivity|]. apply filter_In. split.
    + unfold wbf_local_sv. apply in_map_iff. exists (c, e). split; [reflexivity|exact Hin].
    + cbn [fst]. rewrite H2. reflexivity.
Qed.

Lemma wbf_diff_sv_nodup : forall st sv, NoDup (map fst st) -> NoDup (map fst sv) ->
  NoDup (map fst (wbf_diff_state_vectors (wbf_local_sv st) sv)).
Proof.
  intros st sv Hn Hs. unfold wbf_diff_state_vectors. rewrite map_app. apply wbf_nodup_app.
  - apply dff_nodup_map_filter. exact Hs.
  - rewrite map_map. cbn [fst]. apply dff_nodup_map_filter. unfold wbf_local_sv. rewrite map_map. exact Hn.
  - intros c H1 H2. apply in_map_iff in H1. destruct H1 as [[c1 v1] [E H1]]. cbn [fst] in E. subst c1.
    apply filter_In in H1. destruct H1 as [H1 _]. rewrite map_map in H2. apply in_map_iff in H2.
    destruct H2 as [[c2 v2] [E H2]]. cbn [fst] in E. subst c2. apply filter_In in H2. destruct H2 as [_ H2].
    cbn [fst] in H2. apply negb_true_iff in H2.
    assert (wbf_sv_mem sv c = true) by (apply wbf_sv_mem_spec; exact (in_map fst sv (c, v1) H1)). congruence.
Qed.

Theorem wbf_write_blocks_res_ok : forall st sv, wbf_wf st = true -> wbf_sv_ok sv = true ->
  wbf_write_blocks_res st sv = adl_ok (wbf_write_blocks st sv).
Proof.
  intros st sv Hwf Hsv. pose proof Hwf as Hwf'. apply wbf_wf_spec in Hwf'. destruct Hwf' as [Hn Hg].
  unfold wbf_sv_ok in Hsv. apply dff_nodupb_spec in Hsv.
  set (D := wbf_diff_state_vectors (wbf_local_sv st) sv).
  (* every pair names a client of the store, at a clock below the end of its list *)
  assert (HD : forall c v, In (c, v) D -> exists e, In (c, e) st /\ v < wbf_list_clock (map fst e) /\ sv_get sv c = v).
  { intros c v Hin. apply wbf_diff_sv_in in Hin. destruct Hin as [[H1 H2]|(-> & H1 & H2)].
    - destruct (in_dec N.eq_dec c (map fst st)) as [Hc|Hc].
      + apply in_map_iff in Hc. destruct Hc as [[c' e] [E Hin]]. cbn [fst] in E. subst c'. exists e.
        rewrite (wbf_local_sv_get st c e Hn Hin) in H2. repeat split; [exact Hin|exact H2|exact (wbf_sv_get_in sv c v Hsv H1)].
      + unfold wbf_local_sv in H2. rewrite (wbf_sv_get_map_none (fun cb => wbf_list_clock (map fst (snd cb))) st c Hc) in H2. lia.
    - apply in_map_iff in H1. destruct H1 as [[c' e] [E Hin]]. cbn [fst] in E. subst c'. exists e.
      repeat split; [exact Hin|exact (wbf_good_clock_pos c e (Hg c e Hin))|exact (wbf_sv_get_notmem sv c H2)]. }
  unfold wbf_write_blocks_res. fold D. change (fun acc e => match wbf_get_client st (fst e) with
      | None => adl_panic
      | Some bs => adl_bind (wbf_client_write_res bs (snd e)) (fun l => adl_ok (acc ++ [(fst e, l)])) end) with (wbf_step st).
  rewrite wbf_fold_ok.
  2:{ intros [c v] Hp. apply (Permutation_in _ (wbf_sort_pairs_perm D)) in Hp. destruct (HD c v Hp) as [e (Hin & Hv & _)].
      exists e. cbn [fst snd]. split; [exact (wbf_get_client_in st c e Hn Hin)|].
      exact (wbf_client_write_ok c e v (Hg c e Hin) Hv). }
  cbn [app]. f_equal. apply wbf_desc_unique.
  - apply wbf_desc_strict.
    + assert (Hd := wbf_sort_pairs_desc D). induction Hd as [|x l Hd IH Hf]; [constructor|]. cbn [map].
      constructor; [exact IH|]. rewrite Forall_forall in *. intros y Hy. apply in_map_iff in Hy.
      destruct Hy as [z [<- Hz]]. cbn [wbf_gmap fst]. exact (Hf z Hz).
    + rewrite map_map. cbn [wbf_gmap fst]. change (fun x : N * N => fst x) with (@fst N N).
      apply (Permutation_NoDup (Permutation_map fst (Permutation_sym (wbf_sort_pairs_perm D)))).
      exact (wbf_diff_sv_nodup st sv Hn Hsv).
  - apply wbf_desc_strict; [rewrite wbf_write_blocks_eq; apply dff_sort_desc|].
    rewrite wbf_write_blocks_eq.
    apply (Permutation_NoDup (Permutation_map fst (Permutation_sym (mrg_sort_clients_perm _)))).
    apply dff_nodup_map_filter. rewrite map_map. cbn [wbf_cmap fst]. change (fun x : N * list block => fst x) with (@fst N (list block)).
    rewrite wbf_blocks_keys. exact Hn.
  - intros [c l]. rewrite wbf_write_blocks_eq, dff_sort_in, filter_In, !in_map_iff. split.
    + intros [[c' v] [E Hp]]. apply (Permutation_in _ (wbf_sort_pairs_perm D)) in Hp.
      destruct (HD c' v Hp) as [e (Hin & Hv & Hsg)]. unfold wbf_gmap in E. cbn [fst snd] in E.
      rewrite (wbf_get_client_in st c' e Hn Hin) in E. injection E as -> <-. destruct (Hg c e Hin) as (_ & G & _). split.
      * exists (c, map fst e). split; [|apply wbf_blocks_in; exists e; split; [exact Hin|reflexivity]].
        unfold wbf_cmap. cbn [fst snd]. rewrite Hsg, (wbf_client_diff_from c v _ G). reflexivity.
      * destruct (wbf_locate e c 0 v G ltac:(lia) Hv) as (pre & x & r & _ & _ & _ & H3). rewrite H3. reflexivity.
    + intros [[[c' bs] [E Hx]] Hne]. unfold wbf_cmap in E. cbn [fst snd] in E. injection E as -> <-.
      apply wbf_blocks_in in Hx. destruct Hx as [e [Hin Eb]]. cbn [fst snd] in Hin, Eb. subst bs.
      destruct (Hg c e Hin) as (_ & G & _).
      assert (Hv : sv_get sv c < wbf_list_clock (map fst e)).
      { unfold dff_nonempty, wbf_client_diff, wbf_client_diff_gen in Hne. cbn [snd] in Hne.
        destruct (sv_get sv c <? wbf_list_clock (map fst e)) eqn:E; [lia|discriminate]. }
      exists (c, sv_get sv c). split.
      * unfold wbf_gmap. cbn [fst snd]. rewrite (wbf_get_client_in st c e Hn Hin), (wbf_client_diff_from c _ _ G). reflexivity.
      * apply (Permutation_in _ (Permutation_sym (wbf_sort_pairs_perm D))). apply wbf_diff_sv_in.
        destruct (wbf_sv_mem sv c) eqn:Em.
        -- left. split; [exact (wbf_sv_get_mem_in sv c Em)|]. rewrite (wbf_local_sv_get st c e Hn Hin). exact Hv.
        -- right. split; [exact (wbf_sv_get_notmem sv c Em)|]. split; [exact (in_map fst st (c, e) Hin)|reflexivity].
Qed.

Corollary wbf_encode_diff_res_ok : forall st sv, wbf_wf st = true -> wbf_sv_ok sv = true ->
  wbf_encode_diff_res st sv = adl_ok (wbf_encode_diff st sv).
Proof. intros st sv H1 H2. unfold wbf_encode_diff_res. rewrite (wbf_write_blocks_res_ok st sv H1 H2). reflexivity. Qed.

(* the entry points: no panic of write_blocks_from on a well-formed store; what is left is the encoder's
   (an item without origins whose parent is unknown, an unencodable Any) *)
Corollary wbf_encode_diff_v1_ok : forall st sv, wbf_wf st = true -> wbf_sv_ok sv = true ->
  wbf_encode_diff_v1 st sv = match encode_update_v1 (wbf_encode_diff st sv) with
                             | Some bs => Ok bs [] | None => Panic wbf_P_ENCODE end.
Proof. intros st sv H1 H2. unfold wbf_encode_diff_v1. rewrite (wbf_encode_diff_res_ok st sv H1 H2). reflexivity. Qed.

(* ================================================================================================ *)
(* 11. (e) the update of one transaction (7da5187): the slices that cover the insert set            *)
(* ================================================================================================ *)
(* ---- one slice ---- *)
Lemma wbf_trim_end_all : forall b, wbf_trim_end false b (block_len b) = b.
Proof.
  intros [i o ro p ps c|i n|i n]; cbn [wbf_trim_end block_len]; try reflexivity. f_equal.
  destruct c; cbn [wbf_content_take content_len]; try reflexivity; rewrite Nat2N.id, firstn_all; reflexivity.
Qed.
Lemma wbf_trim_end_split : forall b n l r, blk_split b n = Some (l, r) -> wbf_trim_end true b n = l.
Proof.
  intros b n l r H. unfold blk_split in H. destruct ((0 <? n) && (n <? block_len b)); [|discriminate].
  destruct b as [i o ro p ps c|i m|i m]; cbn [wbf_trim_end].
  - destruct (blk_content_split c n) as [[c1 c2]|] eqn:E; [|discriminate]. injection H as <- <-. f_equal.
    destruct c; cbn [blk_content_split wbf_content_take] in *; try discriminate; try (injection E as <- <-; reflexivity).
    destruct (str_len16 (fst (blk_split_str s n)) =? n); [|discriminate]. injection E as <- <-. reflexivity.
  - injection H as <- <-. reflexivity.
  - injection H as <- <-. reflexivity.
Qed.

Definition wbf_inr (rs re : N) (x : xop) : bool := (rs <=? ck (xid x)) && (ck (xid x) <? re).

Lemma wbf_filter_filter {A} (f g : A -> bool) : forall l, filter f (filter g l) = filter (fun x => g x && f x) l.
Proof.
  induction l as [|a l IH]; [reflexivity|]. cbn [filter]. destruct (g a); cbn [filter andb]; [destruct (f a)|]; rewrite IH; reflexivity.
Qed.

(* the slice of a block that a range [rs, re) cuts out holds exactly the units of the block inside the range *)
Lemma wbf_slice_units : forall b rs re, blk_wf b = true ->
  dff_cut_ok_block rs b = true -> dff_cut_ok_block re b = true ->
  rs < mrg_end b -> mrg_clock b < re -> rs < re ->
  units_of_block (wbf_slice b (rs - mrg_clock b) (N.min re (mrg_end b) - (mrg_clock b + (rs - mrg_clock b)))) =
  filter (wbf_inr rs re) (units_of_block b).
Proof.
  intros b rs re Hw Hc1 Hc2 H1 H2 H3. destruct (mrg_is_skip b) eqn:Esk.
  { destruct b; try discriminate. reflexivity. }
  destruct (dff_ewo_props rs b Hw Hc1 H1) as (Hu1 & Hw1 & _ & He1 & Hk1 & _ & _). cbv zeta in *.
  unfold wbf_slice. set (b1 := dff_encode_with_offset b (rs - mrg_clock b)) in *.
  assert (Elo : mrg_clock b + (rs - mrg_clock b) = mrg_clock b1) by lia.
  assert (Elen : block_len b1 = mrg_end b - mrg_clock b1) by (unfold mrg_end in *; lia).
  destruct (N.lt_ge_cases re (mrg_end b)) as [Hlt|Hge].
  - (* the range ends inside the block *)
    replace (N.min re (mrg_end b)) with re by lia. rewrite Elo.
    replace (rs - mrg_clock b + (re - mrg_clock b1) <? block_len b) with true by (unfold mrg_end in *; lia).
    assert (Hsp : exists l r, blk_split b1 (re - mrg_clock b1) = Some (l, r)).
    { unfold dff_cut_ok_block in Hc2. replace ((mrg_clock b <? re) && (re <? mrg_end b)) with true in Hc2 by lia.
      cbn [negb orb] in Hc2. destruct (blk_split b (re - mrg_clock b)) as [[l2 r2]|] eqn:E2; [|discriminate].
      destruct (N.le_gt_cases rs (mrg_clock b)) as [Hle|Hgt].
      - subst b1. replace (rs - mrg_clock b) with 0 in * by lia. rewrite dff_ewo_zero in *. exists l2, r2. exact E2.
      - unfold dff_cut_ok_block in Hc1. replace ((mrg_clock b <? rs) && (rs <? mrg_end b)) with true in Hc1 by lia.
        cbn [negb orb] in Hc1. destruct (blk_split b (rs - mrg_clock b)) as [[l1 r1]|] eqn:E1; [|discriminate].
        assert (Eb : b1 = r1) by (apply (dff_ewo_split _ _ _ _ E1)).
        pose proof (dff_split_cut_right b _ _ _ _ _ _ Hw Esk E1 E2 ltac:(lia)) as Hne.
        replace (re - mrg_clock b1) with (re - mrg_clock b - (rs - mrg_clock b)) by lia. rewrite Eb.
        destruct (blk_split r1 (re - mrg_clock b - (rs - mrg_clock b))) as [[l r]|]; [exists l, r; reflexivity|contradiction]. }
    destruct Hsp as [l [r E]]. rewrite (wbf_trim_end_split _ _ _ _ E).
    pose proof (blk_split_units _ _ _ _ Hw1 E) as Hu. destruct (blk_split_guard _ _ _ _ E) as [G0 Gk].
    destruct (blk_split_wf _ _ _ _ Hw1 E) as [Hwl [Hwr [Hll [Hlr [Hil Hir]]]]].
    assert (Hcl : mrg_clock l = mrg_clock b1) by (unfold mrg_clock; rewrite Hil; reflexivity).
    assert (Hcr : mrg_clock r = re) by (unfold mrg_clock in *; rewrite Hir; cbn [ck]; lia).
    assert (El : units_of_block l = filter (fun x => ck (xid x) <? re) (units_of_block b1)).
    { rewrite Hu, filter_app, dff_filter_all, dff_filter_none; [rewrite app_nil_r; reflexivity| |].
      - intros x Hx. apply (mrg_units_range r x Hwr) in Hx. lia.
      - intros x Hx. apply (mrg_units_range l x Hwl) in Hx. unfold mrg_end in Hx. lia. }
    rewrite El, Hu1, wbf_filter_filter. reflexivity.
  - (* the block ends inside the range *)
    replace (N.min re (mrg_end b)) with (mrg_end b) by lia. rewrite Elo.
    replace (rs - mrg_clock b + (mrg_end b - mrg_clock b1) <? block_len b) with false by (unfold mrg_end in *; lia).
    rewrite <- Elen, wbf_trim_end_all, Hu1. apply filter_ext_in. intros x Hx.
    apply (mrg_units_range b x Hw) in Hx. unfold dff_ge, wbf_inr. lia.
Qed.

(* ---- one range over a client's list ---- *)
Lemma wbf_contig_units_ge : forall bs c a x, wbf_contig c a bs = true -> In x (flat_map units_of_block bs) -> a <= ck (xid x).
Proof.
  induction bs as [|b r IH]; intros c a x H Hx; [destruct Hx|]. apply wbf_contig_cons in H.
  destruct H as (_ & Hk & Hl & Hw & Hr). cbn [flat_map] in Hx. apply in_app_or in Hx. destruct Hx as [Hx|Hx].
  - apply (mrg_units_range b x Hw) in Hx. lia.
  - specialize (IH c _ x Hr Hx). unfold mrg_end in IH. lia.
Qed.

Definition wbf_head_above (k : N) (bs : list block) : Prop := forall b r, bs = b :: r -> k < mrg_end b.

Lemma wbf_slices_from_units : forall bs c a rs re, wbf_contig c a bs = true -> rs < re -> wbf_head_above rs bs ->
  Forall (fun b => dff_cut_ok_block rs b = true /\ dff_cut_ok_block re b = true) bs ->
  flat_map units_of_block (map fst (wbf_slices_from rs re bs)) = filter (wbf_inr rs re) (flat_map units_of_block bs).
Proof.
  induction bs as [|b r IH]; intros c a rs re Hc Hse Hh Hcut; [reflexivity|]. pose proof Hc as Hc'.
  apply wbf_contig_cons in Hc'. destruct Hc' as (_ & Hk & Hl & Hw & Hr). inversion Hcut as [|? ? [C1 C2] Hcr]; subst.
  cbn [wbf_slices_from]. destruct (re <=? mrg_clock b) eqn:E1.
  - symmetry. apply dff_filter_none. intros x Hx. pose proof (wbf_contig_units_ge _ _ _ x Hc Hx). unfold wbf_inr. lia.
  - cbv zeta. cbn [flat_map]. rewrite filter_app.
    assert (Es : units_of_block (wbf_slice b (rs - mrg_clock b) (N.min re (mrg_end b) - (mrg_clock b + (rs - mrg_clock b)))) =
                 filter (wbf_inr rs re) (units_of_block b)).
    { apply wbf_slice_units; try assumption; [exact (Hh b r eq_refl)|lia]. }
    destruct (re <=? mrg_end b) eqn:E2.
    + cbn [map fst flat_map]. rewrite Es, app_nil_r. rewrite (dff_filter_none (wbf_inr rs re) (flat_map units_of_block r)); [rewrite app_nil_r; reflexivity|].
      intros x Hx. pose proof (wbf_contig_units_ge _ _ _ x Hr Hx). unfold wbf_inr. lia.
    + cbn [map fst flat_map]. rewrite Es. f_equal. apply (IH c (mrg_end b)); try assumption.
      intros b2 r2 ->. apply wbf_contig_cons in Hr. pose proof (Hh b _ eq_refl). unfold mrg_end in *. lia.
Qed.

Lemma wbf_seek_spec : forall bs k, exists pre, bs = pre ++ wbf_seek k bs /\ (forall b, In b pre -> mrg_end b <= k) /\
  wbf_head_above k (wbf_seek k bs).
Proof.
  induction bs as [|b r IH]; intro k; cbn [wbf_seek].
  - exists []. repeat split; [intros b []|intros b r E; discriminate].
  - destruct (k <? mrg_end b) eqn:E.
    + exists []. repeat split; [intros x []|]. intros b2 r2 E2. injection E2 as <- <-. lia.
    + destruct (IH k) as [pre [E1 [E2 E3]]]. exists (b :: pre). repeat split; [cbn [app]; rewrite <- E1; reflexivity| |exact E3].
      intros x [<-|Hx]; [lia|exact (E2 x Hx)].
Qed.
Lemma wbf_contig_app_r : forall pre l c a, wbf_contig c a (pre ++ l) = true -> exists a', wbf_contig c a' l = true.
Proof.
  induction pre as [|b pre IH]; intros l c a H; [exists a; exact H|]. cbn [app] in H. apply wbf_contig_cons in H.
  destruct H as (_ & _ & _ & _ & Hr). exact (IH l c _ Hr).
Qed.

Lemma wbf_range_slices_units : forall c bs s e, wbf_contig c 0 bs = true -> s < e ->
  Forall (fun b => dff_cut_ok_block s b = true /\ dff_cut_ok_block e b = true) bs ->
  flat_map units_of_block (map fst (wbf_range_slices bs (s, e, tt))) = filter (wbf_inr s e) (flat_map units_of_block bs).
Proof.
  intros c bs s e Hc Hse Hcut. unfold wbf_range_slices. cbn [e_start e_end fst snd].
  pose proof (wbf_contig_client_ok _ _ _ Hc) as [Hf Hs]. rewrite Forall_forall in Hf.
  destruct (s <? wbf_list_clock bs) eqn:E.
  - destruct (wbf_seek_spec bs s) as [pre [E1 [E2 E3]]]. rewrite E1 in Hc, Hcut. destruct (wbf_contig_app_r _ _ _ _ Hc) as [a' Hc'].
    rewrite (wbf_slices_from_units _ c a' s e Hc' Hse E3 (proj2 (proj1 (Forall_app _ _ _) Hcut))).
    rewrite E1 at 2. rewrite flat_map_app, filter_app, (dff_filter_none (wbf_inr s e) (flat_map units_of_block pre)); [reflexivity|].
    intros x Hx. apply in_flat_map in Hx. destruct Hx as [b [Hb Hx]].
    assert (Hin : In b bs) by (rewrite E1; apply in_or_app; now left). destruct (Hf b Hin) as (_ & Hw & _).
    apply (mrg_units_range b x Hw) in Hx. specialize (E2 b Hb). unfold wbf_inr. lia.
  - symmetry. apply dff_filter_none. intros x Hx. apply in_flat_map in Hx. destruct Hx as [b [Hb Hx]].
    destruct (Hf b Hb) as (_ & Hw & _). apply (mrg_units_range b x Hw) in Hx.
    pose proof (wbf_list_clock_max bs b Hs Hb). unfold wbf_inr. lia.
Qed.

(* ---- one client ---- *)
Lemma wbf_canon_pos : forall (rs : idrange) r, canon rs -> In r rs -> e_start r < e_end r.
Proof.
  induction rs as [|x rs IH]; intros r Hc Hin; [destruct Hin|]. cbn [canon] in Hc. destruct Hc as (H1 & _ & H3).
  destruct Hin as [<-|Hin]; [exact H1|exact (IH r H3 Hin)].
Qed.

Definition wbf_client_cut_ok (bs : list block) (rs : idrange) : Prop :=
  forall r, In r rs -> Forall (fun b => dff_cut_ok_block (e_start r) b = true /\ dff_cut_ok_block (e_end r) b = true) bs.

Lemma wbf_client_slices_units : forall c bs rs x, wbf_contig c 0 bs = true -> canon rs -> wbf_client_cut_ok bs rs ->
  (In x (flat_map units_of_block (map fst (wbf_client_slices bs rs))) <->
   In x (flat_map units_of_block bs) /\ den rs (ck (xid x)) = true).
Proof.
  intros c bs rs x Hc Hcan Hcut. unfold wbf_client_slices. rewrite den_true_in. split.
  - intro H. apply in_flat_map in H. destruct H as [sl [Hsl Hx]]. apply in_map_iff in Hsl. destruct Hsl as [s [<- Hs]].
    apply in_flat_map in Hs. destruct Hs as [[[a e] []] [Hr Hs]].
    assert (Hin : In x (flat_map units_of_block (map fst (wbf_range_slices bs (a, e, tt))))).
    { apply in_flat_map. exists (fst s). split; [apply in_map; exact Hs|exact Hx]. }
    rewrite (wbf_range_slices_units c bs a e Hc (wbf_canon_pos rs _ Hcan Hr) (Hcut _ Hr)) in Hin.
    apply filter_In in Hin. destruct Hin as [Hin Hb]. split; [exact Hin|]. exists (a, e, tt). split; [exact Hr|].
    unfold wbf_inr in Hb. cbn [e_start e_end fst snd]. lia.
  - intros [Hin [[[a e] []] [Hr Hb]]]. cbn [e_start e_end fst snd] in Hb.
    assert (Hx : In x (flat_map units_of_block (map fst (wbf_range_slices bs (a, e, tt))))).
    { rewrite (wbf_range_slices_units c bs a e Hc (wbf_canon_pos rs _ Hcan Hr) (Hcut _ Hr)). apply filter_In.
      split; [exact Hin|]. unfold wbf_inr. lia. }
    apply in_flat_map in Hx. destruct Hx as [b [Hb' Hx]]. apply in_map_iff in Hb'. destruct Hb' as [s [<- Hs]].
    apply in_flat_map. exists (fst s). split; [|exact Hx]. apply in_map. apply in_flat_map. exists (a, e, tt). split; assumption.
Qed.

Lemma wbf_with_skips_units : forall sl c next,
  flat_map units_of_block (wbf_with_skips c next sl) = flat_map units_of_block (map fst sl).
Proof.
  induction sl as [|s r IH]; intros c next; [reflexivity|]. cbn [wbf_with_skips map flat_map]. rewrite flat_map_app.
  cbn [flat_map]. rewrite IH. destruct (fst (snd s) =? next); reflexivity.
Qed.
Lemma wbf_client_txn_units : forall c bs rs,
  flat_map units_of_block (wbf_client_txn c bs rs) = flat_map units_of_block (map fst (wbf_client_slices bs rs)).
Proof.
  intros c bs rs. unfold wbf_client_txn. destruct (wbf_client_slices bs rs) as [|s r]; [reflexivity|]. apply wbf_with_skips_units.
Qed.

(* ---- the hypotheses ---- *)
Lemma wbf_asc_clients_spec : forall (m : idset) lo, wbf_asc_clients lo m = true ->
  StronglySorted (fun a b : N * idrange => fst a < fst b) m /\
  (forall l, lo = Some l -> Forall (fun cr : N * idrange => l < fst cr) m).
Proof.
  induction m as [|cr m IH]; intros lo H; [split; [constructor|intros; constructor]|]. cbn [wbf_asc_clients] in H.
  apply andb_prop in H. destruct H as [H1 H2]. destruct (IH _ H2) as [I1 I2]. specialize (I2 _ eq_refl). split.
  - constructor; [exact I1|exact I2].
  - intros l E. subst lo. unfold idrange in *. constructor; [lia|]. eapply Forall_impl; [|exact I2]. intros a Ha. cbv beta in Ha. lia.
Qed.
Lemma wbf_ins_ok_spec : forall ins, wbf_ins_ok ins = true -> mrg_ds_ok ins.
Proof.
  intros ins H. unfold wbf_ins_ok in H. apply andb_prop in H. destruct H as [H1 H2]. split.
  - exact (proj1 (wbf_asc_clients_spec ins None H1)).
  - intros c r Hin. rewrite forallb_forall in H2. apply canonb_spec. exact (H2 _ Hin).
Qed.

Lemma wbf_get_client_some : forall st c e, wbf_get_client st c = Some e -> In (c, e) st.
Proof.
  induction st as [|[c0 e0] st IH]; intros c e H; [discriminate|]. cbn [wbf_get_client] in H.
  destruct (c0 =? c) eqn:E; [apply N.eqb_eq in E; injection H as <-; subst; now left|right; exact (IH c e H)].
Qed.

Lemma wbf_txn_cut_ok_spec : forall st ins c e rs, wbf_txn_cut_ok st ins = true -> In (c, rs) ins ->
  wbf_get_client st c = Some e -> wbf_client_cut_ok (map fst e) rs.
Proof.
  intros st ins c e rs H Hin G r Hr. unfold wbf_txn_cut_ok in H. rewrite forallb_forall in H. specialize (H _ Hin).
  cbn [fst snd] in H. rewrite G in H. rewrite forallb_forall in H. specialize (H r Hr). rewrite forallb_forall in H.
  apply Forall_forall. intros b Hb. apply in_map_iff in Hb. destruct Hb as [x [<- Hx]]. specialize (H x Hx).
  apply andb_prop in H. exact H.
Qed.

(* every integrated unit lies in the list of its client (with the list) *)
Lemma wbf_unit_home' : forall st x, wbf_wf st = true -> In x (wbf_units st) ->
  exists e, In (cl (xid x), e) st /\ In x (flat_map units_of_block (map fst e)).
Proof.
  intros st x Hwf Hx. unfold wbf_units in Hx. apply in_flat_map in Hx. destruct Hx as [cb [Hcb Hx]].
  destruct (wbf_blocks_good st Hwf cb Hcb) as (_ & G & _). pose proof (wbf_contig_client_ok _ _ _ G) as Hok.
  pose proof (dff_units_client _ _ x Hok Hx) as Hc. apply wbf_blocks_in in Hcb. destruct Hcb as [e [Hin E]].
  exists e. rewrite Hc. split; [exact Hin|]. rewrite <- E. exact Hx.
Qed.

(* (e) The non-Skip units of the update event of a transaction are EXACTLY the units of the store whose ids are in
   the transaction's insert set: nothing else (no block the transaction did not add, whatever the replica holds
   behind a hole the transaction fills, deleted or not), nothing missing. *)
Theorem wbf_txn_update_exact : forall st ins ds, wbf_wf st = true -> mrg_ds_ok ins -> wbf_txn_cut_ok st ins = true ->
  forall x, In x (units_of_update (wbf_encode_txn_update st ins ds)) <->
            In x (wbf_units st) /\ mrg_ds_mem ins (cl (xid x)) (ck (xid x)) = true.
Proof.
  intros st ins ds Hwf Hins Hcut x. pose proof Hwf as Hwf'. apply wbf_wf_spec in Hwf'. destruct Hwf' as [Hn Hg].
  destruct Hins as [Hsort Hcan].
  unfold units_of_update, wbf_encode_txn_update, wbf_txn_blocks. cbn [u_blocks]. rewrite in_flat_map. split.
  - intros [cb [Hcb Hx]]. apply (proj1 (dff_sort_in _ _)) in Hcb. apply filter_In in Hcb. destruct Hcb as [Hcb _].
    apply in_map_iff in Hcb. destruct Hcb as [[c rs] [<- Hin]]. cbn [fst snd] in Hx.
    destruct (wbf_get_client st c) as [e|] eqn:G; [|destruct Hx]. pose proof (wbf_get_client_some _ _ _ G) as Hce.
    destruct (Hg c e Hce) as (_ & Gc & _). rewrite wbf_client_txn_units in Hx.
    apply (wbf_client_slices_units c _ rs x Gc (Hcan c rs Hin) (wbf_txn_cut_ok_spec st ins c e rs Hcut Hin G)) in Hx.
    destruct Hx as [Hx Hd]. pose proof (dff_units_client _ _ x (wbf_contig_client_ok _ _ _ Gc) Hx) as Hc. split.
    + unfold wbf_units. apply in_flat_map. exists (c, map fst e). split; [|exact Hx]. apply wbf_blocks_in.
      exists e. split; [exact Hce|reflexivity].
    + rewrite mrg_ds_mem_den, Hc, (mrg_im_in_get ins c rs Hsort Hin). exact Hd.
  - intros [Hx Hm]. destruct (wbf_unit_home' st x Hwf Hx) as [e [Hce Hxe]].
    rewrite mrg_ds_mem_den in Hm. destruct (im_get ins (cl (xid x))) as [rs|] eqn:G; [|discriminate].
    pose proof (mrg_im_get_in _ _ _ G) as Hin. set (c := cl (xid x)) in *.
    pose proof (wbf_get_client_in st c e Hn Hce) as Gc. destruct (Hg c e Hce) as (_ & Gk & _).
    assert (Hu : In x (flat_map units_of_block (wbf_client_txn c (map fst e) rs))).
    { rewrite wbf_client_txn_units.
      apply (wbf_client_slices_units c _ rs x Gk (Hcan c rs Hin) (wbf_txn_cut_ok_spec st ins c e rs Hcut Hin Gc)).
      split; assumption. }
    exists (c, wbf_client_txn c (map fst e) rs). split; [|exact Hu]. apply (proj2 (dff_sort_in _ _)). apply filter_In. split.
    + apply in_map_iff. exists (c, rs). split; [|exact Hin]. cbn [fst snd]. rewrite Gc. reflexivity.
    + unfold dff_nonempty. cbn [snd]. destruct (wbf_client_txn c (map fst e) rs); [destruct Hu|reflexivity].
Qed.

(* nothing the transaction did not add: in particular no client it did not touch, ... *)
Corollary wbf_txn_update_no_foreign : forall st ins ds c, wbf_wf st = true -> mrg_ds_ok ins ->
  wbf_txn_cut_ok st ins = true -> im_get ins c = None ->
  forall x, In x (units_of_update (wbf_encode_txn_update st ins ds)) -> cl (xid x) <> c.
Proof.
  intros st ins ds c Hwf Hi Hcut Hg x Hx E. apply (wbf_txn_update_exact st ins ds Hwf Hi Hcut) in Hx.
  destruct Hx as [_ Hm]. rewrite mrg_ds_mem_den, E, Hg in Hm. discriminate.
Qed.
(* ... nothing missing: when the replica has integrated the insert set (it always has: the set is filled by
   integrate), every id of the set is the id of a unit of the update *)
Corollary wbf_txn_update_covers : forall st ins ds, wbf_wf st = true -> mrg_ds_ok ins -> wbf_txn_cut_ok st ins = true ->
  (forall c k, mrg_ds_mem ins c k = true -> wbf_has st (mkid c k)) ->
  forall c k, mrg_ds_mem ins c k = true <-> In (mkid c k) (map xid (units_of_update (wbf_encode_txn_update st ins ds))).
Proof.
  intros st ins ds Hwf Hi Hcut Hsub c k. split.
  - intro Hm. specialize (Hsub c k Hm). unfold wbf_has in Hsub. apply in_map_iff in Hsub. destruct Hsub as [x [E Hx]].
    apply in_map_iff. exists x. split; [exact E|]. apply (wbf_txn_update_exact st ins ds Hwf Hi Hcut). split; [exact Hx|].
    rewrite E. exact Hm.
  - intro H. apply in_map_iff in H. destruct H as [x [E Hx]]. apply (wbf_txn_update_exact st ins ds Hwf Hi Hcut) in Hx.
    destruct Hx as [_ Hm]. rewrite E in Hm. exact Hm.
Qed.

(* ---- the code as written (find_index per range, u32 subtraction for the Skip length) computes the total version ---- *)
Lemma wbf_locate_seek : forall (e : list (block * bool)) c a k, wbf_contig c a (map fst e) = true -> a <= k ->
  k < wbf_list_clock (map fst e) ->
  exists pre x r, e = pre ++ x :: r /\ mrg_clock (fst x) <= k /\ k < mrg_end (fst x) /\
    wbf_seek k (map fst e) = map fst (x :: r).
Proof.
  induction e as [|x r IH]; intros c a k H Ha Hk; [cbn in Hk; lia|]. cbn [map] in *. apply wbf_contig_cons in H.
  destruct H as (_ & Hc & Hl & _ & Hr). cbn [wbf_seek]. destruct (k <? mrg_end (fst x)) eqn:E.
  - exists [], x, r. repeat split; lia.
  - rewrite wbf_list_clock_cons in Hk. destruct r as [|y r']; [cbn [map] in Hk; lia|].
    destruct (IH c (mrg_end (fst x)) k Hr ltac:(lia) Hk) as (pre & z & r2 & E2 & H1 & H2 & H3).
    exists (x :: pre), z, r2. rewrite E2. repeat split; try assumption. rewrite <- E2. exact H3.
Qed.

Lemma wbf_range_slices_res_ok : forall c e r, wbf_client_good c e ->
  wbf_range_slices_res e r = adl_ok (wbf_range_slices (map fst e) r).
Proof.
  intros c e r Hg. pose proof Hg as (Hne & G & Hmax). unfold wbf_range_slices_res, wbf_range_slices.
  destruct (e_start r <? wbf_list_clock (map fst e)) eqn:E; [|reflexivity].
  destruct (wbf_locate_seek e c 0 (e_start r) G ltac:(lia) ltac:(lia)) as (pre & x & r' & E1 & H1 & H2 & H3).
  destruct (wbf_abs_contig e c 0 G) as [A1 A2].
  assert (A3 : adl_end 0 (map wbf_abs e) <= adl_u32_max) by (rewrite A2; destruct e; [contradiction|exact Hmax]).
  rewrite (adl_find_index_ok (map wbf_abs e) (e_start r) (map wbf_abs pre) (wbf_abs x) (map wbf_abs r') A1 A3).
  - cbn [adl_bind]. rewrite map_length, H3. rewrite E1 at 1. rewrite adl_skipn_len. reflexivity.
  - rewrite E1, map_app. reflexivity.
  - rewrite wbf_abs_clock, wbf_abs_len. unfold mrg_end in H2. lia.
Qed.

Lemma wbf_client_slices_res_ok : forall c e rs, wbf_client_good c e ->
  wbf_client_slices_res e rs = adl_ok (wbf_client_slices (map fst e) rs).
Proof.
  intros c e rs Hg. unfold wbf_client_slices_res, wbf_client_slices.
  assert (H : forall acc, adl_fold (fun acc r => adl_bind (wbf_range_slices_res e r) (fun l => adl_ok (acc ++ l))) rs acc =
                          adl_ok (acc ++ flat_map (wbf_range_slices (map fst e)) rs)).
  { induction rs as [|r rs IH]; intro acc; cbn [adl_fold flat_map]; [rewrite app_nil_r; reflexivity|].
    rewrite (wbf_range_slices_res_ok c e r Hg). cbn [adl_bind]. rewrite IH, app_assoc. reflexivity. }
  exact (H []).
Qed.

(* the clocks the slices cover are ascending: every slice starts at or after the end of the one before *)
Fixpoint wbf_asc (next : N) (l : list (N * N)) : Prop :=
  match l with
  | [] => True
  | x :: r => next <= fst x /\ fst x <= snd x /\ wbf_asc (snd x) r
  end.
Lemma wbf_asc_mono : forall l n n', wbf_asc n l -> n' <= n -> wbf_asc n' l.
Proof. intros [|x r] n n' H Hn; [exact I|]. cbn [wbf_asc] in *. destruct H as (H1 & H2 & H3). repeat split; [lia|exact H2|exact H3]. Qed.
Lemma wbf_asc_app : forall l1 l2 n m, wbf_asc n l1 -> (forall x, In x l1 -> snd x <= m) -> n <= m -> wbf_asc m l2 ->
  wbf_asc n (l1 ++ l2).
Proof.
  induction l1 as [|x l1 IH]; intros l2 n m H1 Hb Hn H2; [exact (wbf_asc_mono l2 m n H2 Hn)|].
  cbn [app wbf_asc] in *. destruct H1 as (A1 & A2 & A3). repeat split; [exact A1|exact A2|].
  apply (IH l2 (snd x) m A3); [intros y Hy; apply Hb; now right|apply Hb; now left|exact H2].
Qed.

Lemma wbf_slices_from_asc : forall bs c a rs re n, wbf_contig c a bs = true -> rs < re -> wbf_head_above rs bs ->
  n <= N.max rs a ->
  wbf_asc n (map snd (wbf_slices_from rs re bs)) /\ forall x, In x (map snd (wbf_slices_from rs re bs)) -> snd x <= re.
Proof.
  induction bs as [|b r IH]; intros c a rs re n Hc Hse Hh Hn; [split; [exact I|intros x []]|].
  apply wbf_contig_cons in Hc. destruct Hc as (_ & Hk & Hl & _ & Hr). pose proof (Hh b r eq_refl) as Hb.
  cbn [wbf_slices_from]. destruct (re <=? mrg_clock b) eqn:E1; [split; [exact I|intros x []]|]. cbv zeta.
  destruct (re <=? mrg_end b) eqn:E2; cbn [map snd fst wbf_asc In].
  - split; [repeat split; unfold mrg_end in *; lia|]. intros x [<-|[]]. cbn [snd]. lia.
  - destruct (IH c (mrg_end b) rs re (mrg_end b) Hr Hse) as [I1 I2]; [|lia|].
    { intros b2 r2 ->. apply wbf_contig_cons in Hr. unfold mrg_end in *. lia. }
    split; [repeat split; try (unfold mrg_end in *; lia)|].
    + replace (N.min re (mrg_end b)) with (mrg_end b) by lia. exact I1.
    + intros x [<-|Hx]; [cbn [snd]; lia|exact (I2 x Hx)].
Qed.

Lemma wbf_range_slices_asc : forall c bs s e n, wbf_contig c 0 bs = true -> s < e -> n <= s ->
  wbf_asc n (map snd (wbf_range_slices bs (s, e, tt))) /\
  forall x, In x (map snd (wbf_range_slices bs (s, e, tt))) -> snd x <= e.
Proof.
  intros c bs s e n Hc Hse Hn. unfold wbf_range_slices. cbn [e_start e_end fst snd].
  destruct (s <? wbf_list_clock bs); [|split; [exact I|intros x []]].
  destruct (wbf_seek_spec bs s) as [pre [E1 [_ E3]]]. rewrite E1 in Hc. destruct (wbf_contig_app_r _ _ _ _ Hc) as [a' Hc'].
  apply (wbf_slices_from_asc _ c a' s e n Hc' Hse E3). lia.
Qed.

Lemma wbf_client_slices_asc : forall c bs (rs : idrange) n, wbf_contig c 0 bs = true -> canon rs -> lbw n rs ->
  wbf_asc n (map snd (wbf_client_slices bs rs)).
Proof.
  intros c bs rs. induction rs as [|[[s e] []] rs IH]; intros n Hc Hcan Hlb; [exact I|].
  unfold wbf_client_slices. cbn [flat_map]. rewrite map_app. cbn [canon e_start e_end fst snd] in Hcan.
  destruct Hcan as (Hse & Hlo & Hcan'). cbn [lbw e_start fst] in Hlb.
  destruct (wbf_range_slices_asc c bs s e n Hc Hse Hlb) as [A1 A2].
  apply (wbf_asc_app _ _ n e A1 A2); [lia|]. apply (IH e Hc Hcan'). apply lb_ok_w. exact Hlo.
Qed.

Lemma wbf_with_skips_res_ok : forall sl c next, wbf_asc next (map snd sl) ->
  wbf_with_skips_res c next sl = adl_ok (wbf_with_skips c next sl).
Proof.
  induction sl as [|s r IH]; intros c next H; [reflexivity|]. cbn [map wbf_asc] in H. destruct H as (H1 & _ & H3).
  cbn [wbf_with_skips_res wbf_with_skips]. rewrite (IH c _ H3). destruct (fst (snd s) =? next); cbn [adl_bind]; [reflexivity|].
  rewrite (adl_sub32_ok _ _ H1). reflexivity.
Qed.

Lemma wbf_client_txn_res_ok : forall c e rs, wbf_client_good c e -> canon rs ->
  wbf_client_txn_res c e rs = adl_ok (wbf_client_txn c (map fst e) rs).
Proof.
  intros c e rs Hg Hcan. pose proof Hg as (Hne & G & _). unfold wbf_client_txn_res, wbf_client_txn.
  destruct e as [|x0 e0]; [contradiction|]. rewrite (wbf_client_slices_res_ok c _ rs Hg). cbn [adl_bind].
  destruct (wbf_client_slices (map fst (x0 :: e0)) rs) as [|s r] eqn:E; [reflexivity|].
  apply wbf_with_skips_res_ok.
  assert (A : wbf_asc 0 (map snd (wbf_client_slices (map fst (x0 :: e0)) rs))).
  { apply (wbf_client_slices_asc c _ rs 0 G Hcan). destruct rs; cbn [lbw]; [exact I|lia]. }
  rewrite E in A. cbn [map wbf_asc] in *. destruct A as (_ & A2 & A3). repeat split; [lia|exact A2|exact A3].
Qed.

Definition wbf_tstep (st : wbf_store) (acc : list (N * list block)) (cr : N * idrange) : adl_res (list (N * list block)) :=
  match wbf_get_client st (fst cr) with
  | None => adl_ok acc
  | Some e => adl_bind (wbf_client_txn_res (fst cr) e (snd cr)) (fun l => adl_ok (acc ++ [(fst cr, l)]))
  end.
Definition wbf_tmap (st : wbf_store) (cr : N * idrange) : N * list block :=
  (fst cr, match wbf_get_client st (fst cr) with
           | Some e => wbf_client_txn (fst cr) (map fst e) (snd cr)
           | None => []
           end).

Theorem wbf_txn_blocks_res_ok : forall st ins, wbf_wf st = true -> mrg_ds_ok ins ->
  wbf_txn_blocks_res st ins = adl_ok (wbf_txn_blocks st ins).
Proof.
  intros st ins Hwf [_ Hcan]. apply wbf_wf_spec in Hwf. destruct Hwf as [_ Hg].
  unfold wbf_txn_blocks_res, wbf_txn_blocks. fold (wbf_tstep st). fold (wbf_tmap st).
  assert (H : forall l acc, (forall c r, In (c, r) l -> canon r) ->
            exists groups, adl_fold (wbf_tstep st) l acc = adl_ok groups /\
                           filter dff_nonempty groups = filter dff_nonempty acc ++ filter dff_nonempty (map (wbf_tmap st) l)).
  { induction l as [|[c r] l IH]; intros acc Hc; cbn [adl_fold map filter].
    - exists acc. split; [reflexivity|]. rewrite app_nil_r. reflexivity.
    - unfold wbf_tstep at 1. cbn [fst snd]. destruct (wbf_get_client st c) as [e|] eqn:G.
      + assert (Et : wbf_tmap st (c, r) = (c, wbf_client_txn c (map fst e) r))
          by (unfold wbf_tmap; cbn [fst snd]; rewrite G; reflexivity).
        rewrite Et, (wbf_client_txn_res_ok c e r (Hg c e (wbf_get_client_some _ _ _ G)) (Hc c r (or_introl eq_refl))). cbn [adl_bind].
        destruct (IH (acc ++ [(c, wbf_client_txn c (map fst e) r)]) (fun c' r' H => Hc c' r' (or_intror H))) as [g [E1 E2]].
        exists g. split; [exact E1|]. rewrite E2, filter_app, <- app_assoc. cbn [filter].
        destruct (dff_nonempty (c, wbf_client_txn c (map fst e) r)); reflexivity.
      + assert (Et : wbf_tmap st (c, r) = (c, [])) by (unfold wbf_tmap; cbn [fst snd]; rewrite G; reflexivity).
        rewrite Et. cbn [dff_nonempty snd]. destruct (IH acc (fun c' r' H => Hc c' r' (or_intror H))) as [g [E1 E2]].
        exists g. split; [exact E1|exact E2]. }
  destruct (H ins [] Hcan) as [g [E1 E2]].
  change (fun acc cr => match wbf_get_client st (fst cr) with
                        | None => adl_ok acc
                        | Some e => adl_bind (wbf_client_txn_res (fst cr) e (snd cr)) (fun l => adl_ok (acc ++ [(fst cr, l)]))
                        end) with (wbf_tstep st).
  rewrite E1. cbn [adl_bind]. rewrite E2. reflexivity.
Qed.

Corollary wbf_encode_txn_update_res_ok : forall st ins ds, wbf_wf st = true -> mrg_ds_ok ins ->
  wbf_encode_txn_update_res st ins ds = adl_ok (wbf_encode_txn_update st ins ds).
Proof.
  intros st ins ds H1 H2. unfold wbf_encode_txn_update_res. rewrite (wbf_txn_blocks_res_ok st ins H1 H2). reflexivity.
Qed.
Corollary wbf_encode_update_v1_ok : forall st ins ds, wbf_wf st = true -> wbf_ins_ok ins = true ->
  wbf_encode_update_v1 st ins ds = match encode_update_v1 (wbf_encode_txn_update st ins ds) with
                                   | Some bs => Ok bs [] | None => Panic wbf_P_ENCODE end.
Proof.
  intros st ins ds H1 H2. unfold wbf_encode_update_v1.
  rewrite (wbf_encode_txn_update_res_ok st ins ds H1 (wbf_ins_ok_spec ins H2)). reflexivity.
Qed.

(* ================================================================================================ *)
(* 12. witnesses: what the hypotheses exclude, what the repairs changed, what is still not exact     *)
(* ================================================================================================ *)
Ltac wbf_compute_conj :=
  repeat (match goal with |- _ /\ _ => split; [vm_compute; reflexivity|] end); vm_compute; reflexivity.

(* ---- (a) before f694c28 --------------------------------------------------------------------------
   A replica (client 9) that received only the third transaction of client 1 (three independent map entries):
   the entry k3 = unit (1,2) sits behind the hole [0,2).  A peer that asks with the vector {1: 1} lacks (1,2).
   Rust, tree f694c28^ (0a72352):  encode_diff_v1({1:1}) = 0000, encode_diff_v1({1:0}) = 0000 (the unit is not
   sent), encode_diff_v1({}) = 010201000a022801016d026b33017702763300.
   Rust, HEAD:                     encode_diff_v1({1:1}) = 010201010a012801016d026b33017702763300.
   [wbf_diff_units] (a) holds of the transcription of HEAD and fails for the transcription of the old code. *)
Definition wbf_w1 : wbf_store :=
  [(1, [(BSkip (mkid 1 0) 2, false);
        (BItem (mkid 1 2) None None (PNamed [109]) (Some [107; 51]) (BAny [AString [118; 51]]), false)])].
Definition wbf_w1_unit : xop := XItem (mkop (mkid 1 2) None None (PNamed [109]) (Some [107; 51]) (UAny (AString [118; 51]))).

Theorem wbf_diff_units_pre_f694c28_refuted :
  wbf_wf wbf_w1 = true /\ wbf_cut_ok wbf_w1 [(1, 1)] = true /\
  (* the old code, as Rust f694c28^ answers *)
  encode_update_v1 (wbf_encode_diff_pre_f694c28 wbf_w1 [(1, 1)]) = Some [0; 0] /\
  encode_update_v1 (wbf_encode_diff_pre_f694c28 wbf_w1 [(1, 0)]) = Some [0; 0] /\
  encode_update_v1 (wbf_encode_diff_pre_f694c28 wbf_w1 []) =
    Some [1; 2; 1; 0; 10; 2; 40; 1; 1; 109; 2; 107; 51; 1; 119; 2; 118; 51; 0] /\
  (* the statement of wbf_diff_units fails for it: an integrated unit at or above the vector is left out *)
  In wbf_w1_unit (wbf_units wbf_w1) /\ sv_get [(1, 1)] (cl (xid wbf_w1_unit)) <= ck (xid wbf_w1_unit) /\
  units_of_update (wbf_encode_diff_pre_f694c28 wbf_w1 [(1, 1)]) = [] /\
  (* HEAD *)
  encode_update_v1 (wbf_encode_diff wbf_w1 [(1, 1)]) =
    Some [1; 2; 1; 1; 10; 1; 40; 1; 1; 109; 2; 107; 51; 1; 119; 2; 118; 51; 0] /\
  units_of_update (wbf_encode_diff wbf_w1 [(1, 1)]) = [wbf_w1_unit].
Proof.
  do 5 (split; [vm_compute; reflexivity|]). split; [vm_compute; left; reflexivity|].
  split; [vm_compute; discriminate|]. wbf_compute_conj.
Qed.

(* ---- (e) before 237bcf9 --------------------------------------------------------------------------
   The same replica then types "zz" into its own text.  before_state = {1: 0, 9: 0} (the gap-aware vector).
   Rust, tree 237bcf9^ (e3cf5b4): the update event is
     020109000401036f776e027a7a0201000a022801016d026b33017702763300    (client 9, then client 1: Skip 2, k3 again)
   Rust, 237bcf9 .. 7da5187^ and HEAD (7da5187): 010109000401036f776e027a7a00 (client 9 only).
   [wbf_txn_update_no_foreign_pre_7da5187] / [wbf_txn_update_no_foreign] hold of the transcriptions of the later code
   and fail for the code before 237bcf9. *)
Definition wbf_w2 : wbf_store :=
  wbf_w1 ++ [(9, [(BItem (mkid 9 0) None None (PNamed [111; 119; 110]) None (BString [122; 122]), false)])].

Theorem wbf_txn_no_foreign_pre_237bcf9_refuted :
  wbf_wf wbf_w2 = true /\ wbf_lookup [(9, 0)] 1 = None /\
  encode_update_v1 (wbf_encode_txn_update_pre_237bcf9 wbf_w2 [(1, 0); (9, 0)] []) =
    Some [2; 1; 9; 0; 4; 1; 3; 111; 119; 110; 2; 122; 122; 2; 1; 0; 10; 2; 40; 1; 1; 109; 2; 107; 51; 1; 119; 2; 118; 51; 0] /\
  In wbf_w1_unit (units_of_update (wbf_encode_txn_update_pre_237bcf9 wbf_w2 [(1, 0); (9, 0)] [])) /\
  (* 237bcf9 .. 7da5187^ *)
  encode_update_v1 (wbf_encode_txn_update_pre_7da5187 wbf_w2 [(9, 0)] []) = Some [1; 1; 9; 0; 4; 1; 3; 111; 119; 110; 2; 122; 122; 0] /\
  (* HEAD (7da5187) *)
  encode_update_v1 (wbf_encode_txn_update wbf_w2 [(9, [(0, 2, tt)])] []) = Some [1; 1; 9; 0; 4; 1; 3; 111; 119; 110; 2; 122; 122; 0].
Proof.
  do 3 (split; [vm_compute; reflexivity|]). split; [vm_compute; right; right; left; reflexivity|]. wbf_compute_conj.
Qed.

(* ---- (e) before 7da5187 (the finding this development reported; repaired by 7da5187): the update event of a
   transaction that fills a hole wrote the blocks behind it again ----
   Client 4 sets k1, k2, k3 of a map in three transactions and removes k3 in a fourth.  A replica (client 5)
   receives the third (k3 = (4,2) behind the hole [0,2)), the fourth (k3 is deleted), then the first (k1 = (4,0)).
   The last transaction added (4,0) only: insert set {4: [0,1)}, delete set {}.  Its update event (Rust, tree
   7da5187^ = 72aa4a3) was
     010304002801016d026b3101770276310a012801016d026b33017702763300
   = k1, Skip 1, and k3 AGAIN - a block the transaction did not add, written without the delete set entry that
   removed it.  A third party that heard only this event showed m = {k1=v1, k3=v3} while the replica showed
   m = {k1=v1} (replayed).  write_blocks_from writes from the first new clock to the END of the client's list:
   the lower bound introduced by 237bcf9 stopped the re-emission for clients the transaction did not touch
   (wbf_txn_update_no_foreign_pre_7da5187) but not for the blocks behind a hole the transaction fills.
   Rust, HEAD (7da5187, case 54 of WriteBlocksCases.v): 010104002801016d026b31017702763100 = k1 only; the third
   party shows m = {k1=v1}.  [wbf_txn_update_exact] holds of the transcription of HEAD; its statement fails for the
   transcription of the code before. *)
Definition wbf_w3 : wbf_store :=
  [(4, [(BItem (mkid 4 0) None None (PNamed [109]) (Some [107; 49]) (BAny [AString [118; 49]]), false);
        (BSkip (mkid 4 1) 1, false);
        (BItem (mkid 4 2) None None (PNamed [109]) (Some [107; 51]) (BAny [AString [118; 51]]), true)])].
Definition wbf_w3_ins : idset := [(4, [(0, 1, tt)])].
Definition wbf_w3_unit : xop := XItem (mkop (mkid 4 2) None None (PNamed [109]) (Some [107; 51]) (UAny (AString [118; 51]))).

Theorem wbf_txn_update_exact_pre_7da5187_refuted :
  wbf_wf wbf_w3 = true /\ wbf_cut_ok wbf_w3 (wbf_txn_sv wbf_w3 (wbf_ins_starts wbf_w3_ins)) = true /\
  encode_update_v1 (wbf_encode_txn_update_pre_7da5187 wbf_w3 (wbf_ins_starts wbf_w3_ins) []) =
    Some [1; 3; 4; 0; 40; 1; 1; 109; 2; 107; 49; 1; 119; 2; 118; 49; 10; 1; 40; 1; 1; 109; 2; 107; 51; 1; 119; 2; 118; 51; 0] /\
  (* a unit of the update that the transaction did not add, ... *)
  In wbf_w3_unit (units_of_update (wbf_encode_txn_update_pre_7da5187 wbf_w3 (wbf_ins_starts wbf_w3_ins) [])) /\
  mrg_ds_mem wbf_w3_ins (cl (xid wbf_w3_unit)) (ck (xid wbf_w3_unit)) = false /\
  (* ... that the replica holds as deleted, while the update carries no deletion *)
  mrg_ds_mem (wbf_delete_set wbf_w3) 4 2 = true /\ u_ds (wbf_encode_txn_update_pre_7da5187 wbf_w3 (wbf_ins_starts wbf_w3_ins) []) = [] /\
  (* HEAD (7da5187): the new block only *)
  wbf_ins_ok wbf_w3_ins = true /\ wbf_txn_cut_ok wbf_w3 wbf_w3_ins = true /\
  encode_update_v1 (wbf_encode_txn_update wbf_w3 wbf_w3_ins []) =
    Some [1; 1; 4; 0; 40; 1; 1; 109; 2; 107; 49; 1; 119; 2; 118; 49; 0] /\
  units_of_update (wbf_encode_txn_update wbf_w3 wbf_w3_ins []) =
    [XItem (mkop (mkid 4 0) None None (PNamed [109]) (Some [107; 49]) (UAny (AString [118; 49])))] /\
  ~ wbf_txn_appends wbf_w3 wbf_w3_ins.
Proof.
  do 3 (split; [vm_compute; reflexivity|]). split; [vm_compute; right; left; reflexivity|].
  do 7 (split; [vm_compute; reflexivity|]).
  intro H. specialize (H wbf_w3_unit 0). vm_compute in H. assert (E : false = true) by (apply H; [right; left; reflexivity|reflexivity|discriminate]).
  discriminate E.
Qed.

(* ---- (f) the vector points into a hole: write_blocks_from writes the rest of the hole as a Skip block,
   Update::encode_diff does not ----
   Rust, HEAD, the replica of wbf_w1: encode_diff_v1({1:1}) = 010201010a012801016d026b33017702763300,
   diff_updates_v1(encode_diff_v1({}), {1:1}) = 010101022801016d026b33017702763300. *)
Theorem wbf_encode_diff_eq_dff_refuted :
  wbf_wf wbf_w1 = true /\ wbf_cut_ok wbf_w1 [(1, 1)] = true /\ wbf_no_hole_at wbf_w1 [(1, 1)] = false /\
  wbf_encode_diff wbf_w1 [(1, 1)] <> dff_diff_update (wbf_as_update wbf_w1) [(1, 1)] /\
  encode_update_v1 (wbf_encode_diff wbf_w1 [(1, 1)]) =
    Some [1; 2; 1; 1; 10; 1; 40; 1; 1; 109; 2; 107; 51; 1; 119; 2; 118; 51; 0] /\
  encode_update_v1 (dff_diff_update (wbf_as_update wbf_w1) [(1, 1)]) =
    Some [1; 1; 1; 2; 40; 1; 1; 109; 2; 107; 51; 1; 119; 2; 118; 51; 0].
Proof.
  do 3 (split; [vm_compute; reflexivity|]). split; [intro H; vm_compute in H; discriminate H|]. wbf_compute_conj.
Qed.

(* ---- (a) without wbf_cut_ok: a vector between the two code units of a surrogate pair (the known finding of
   Diff.v, dff_diff_units_pair_refuted, reached through the document) ----
   A replica holds "x", U+1F600, "y" of client 2 (units (2,0) .. (2,3)); vector {2: 2}.
   Rust, HEAD (case 45): encode_diff_v1({2:2}) writes for client 2: 010202840201017900 = first clock 2, one item
   with origin (2,1) and the string "y": the low surrogate (2,2) is not sent and "y" - unit (2,3) of the store -
   arrives as unit (2,2). *)
Definition wbf_w4 : wbf_store :=
  [(2, [(BItem (mkid 2 0) None None (PNamed [116; 50]) None (BString [120; 240; 159; 152; 128; 121]), false)])].
Theorem wbf_diff_units_pair_refuted :
  wbf_wf wbf_w4 = true /\ wbf_cut_ok wbf_w4 [(2, 2)] = false /\
  encode_update_v1 (wbf_encode_diff wbf_w4 [(2, 2)]) = Some [1; 1; 2; 2; 132; 2; 1; 1; 121; 0] /\
  units_of_update (wbf_encode_diff wbf_w4 [(2, 2)]) <> filter (dff_new [(2, 2)]) (wbf_units_desc wbf_w4) /\
  dff_unit_content (mkid 2 2) (wbf_units wbf_w4) = Some (UString 56832) /\        (* DE00, the low surrogate *)
  dff_unit_content (mkid 2 2) (units_of_update (wbf_encode_diff wbf_w4 [(2, 2)])) = Some (UString 121) /\
  dff_unit_content (mkid 2 3) (units_of_update (wbf_encode_diff wbf_w4 [(2, 2)])) = None /\
  exists d, decode_update_v1 20 [1; 1; 2; 2; 132; 2; 1; 1; 121; 0] = Ok d [] /\
            units_of_update d = [XItem (mkop (mkid 2 2) (Some (mkid 2 1)) None PUnknown None (UString 121))] /\
            dff_unit_content (mkid 2 3) (wbf_units wbf_w4) = Some (UString 121).
Proof.
  do 3 (split; [vm_compute; reflexivity|]). split; [intro H; vm_compute in H; discriminate H|].
  do 3 (split; [vm_compute; reflexivity|]). eexists. wbf_compute_conj.
Qed.

(* ---- the panic of write_blocks_from that the model carries: a client with an empty block list that the
   remote vector has no entry for (`self.inner.len() - 1` in find_index).  No reachable store has an empty list:
   the lists are created by BlockStore::push with a block (get_client_blocks_mut is called for the clients of a
   transaction's delete set only, which are in the store) ---- *)
Theorem wbf_empty_list_panics :
  wbf_write_blocks_res [(5, [])] [] = adl_panic /\ wbf_write_blocks_res [(5, [])] [(5, 0)] = adl_ok [] /\
  wbf_wf [(5, [])] = false.
Proof. wbf_compute_conj. Qed.

(* ================================================================================================ *)
Print Assumptions wbf_client_diff_dff.
Print Assumptions wbf_diff_units.
Print Assumptions wbf_diff_units_perm.
Print Assumptions wbf_diff_units_in.
Print Assumptions wbf_diff_units_wire.
Print Assumptions wbf_as_update_blocks.
Print Assumptions wbf_encode_diff_vs_dff.
Print Assumptions wbf_encode_diff_eq_dff.
Print Assumptions wbf_state_vector_dff.
Print Assumptions wbf_state_vector_spec.
Print Assumptions wbf_cut_ok_own.
Print Assumptions wbf_diff_against_own_vector.
Print Assumptions wbf_diff_against_own_vector_no_holes.
Print Assumptions wbf_receiver_complete_gen.
Print Assumptions wbf_receiver_complete.
Print Assumptions wbf_txn_update_units_pre_7da5187.
Print Assumptions wbf_txn_update_no_foreign_pre_7da5187.
Print Assumptions wbf_txn_update_nothing_below_pre_7da5187.
Print Assumptions wbf_txn_update_complete_pre_7da5187.
Print Assumptions wbf_txn_update_exact_iff_appends_pre_7da5187.
Print Assumptions wbf_slice_units.
Print Assumptions wbf_txn_update_exact.
Print Assumptions wbf_txn_update_no_foreign.
Print Assumptions wbf_txn_update_covers.
Print Assumptions wbf_ins_ok_spec.
Print Assumptions wbf_txn_blocks_res_ok.
Print Assumptions wbf_encode_txn_update_res_ok.
Print Assumptions wbf_encode_update_v1_ok.
Print Assumptions wbf_delete_set_exact.
Print Assumptions wbf_write_blocks_res_ok.
Print Assumptions wbf_encode_diff_res_ok.
Print Assumptions wbf_encode_diff_v1_ok.
Print Assumptions wbf_diff_units_pre_f694c28_refuted.
Print Assumptions wbf_txn_no_foreign_pre_237bcf9_refuted.
Print Assumptions wbf_txn_update_exact_pre_7da5187_refuted.
Print Assumptions wbf_encode_diff_eq_dff_refuted.
Print Assumptions wbf_diff_units_pair_refuted.
Print Assumptions wbf_empty_list_panics.
